// Package c08: the gengo.sum cache.  Histories of edits / damage to gengo.sum / runs are executed on a real
// synthetic module; every run is one fresh child process (vh c08-run) that calls gengo.NewContext + Execute
// with a recording generator.  After every step the module is scanned again.
package c08

import (
	"bytes"
	"encoding/json"
	"fmt"
	"io"
	"os"
	"os/exec"
	"path/filepath"
	"sort"
	"strings"
	"time"

	"github.com/octohelm/gengo/pkg/sumfile"
	"golang.org/x/mod/sumdb/dirhash"

	"verifharness/internal/core"
)

type prop struct{}

func init() { core.Register(prop{}) }

func (prop) ID() string        { return "C08" }
func (prop) CoqModule() string { return "Gengo.Corr.C08" }
func (prop) Parallel() int     { return 14 }

// ---------- inputs ----------

type pkgDecl struct {
	Dir     string `json:"dir"` // relative directory; "." = a package at the module root
	Imports []int  `json:"imports,omitempty"`
}

type opIn struct {
	K string `json:"k"` // set | del | symlink | restoregen | delsum | corrupt | block | run
	// set / del / symlink / restoregen
	P    int    `json:"p,omitempty"`
	File string `json:"file,omitempty"` // x1.go x2.go (tagged types) u1.go (untagged) notes.txt testdata/t.txt zz_generated.rec.go dangling
	V    int    `json:"v,omitempty"`    // content variant
	// corrupt
	Mode string `json:"mode,omitempty"`
	Raw  []byte `json:"raw,omitempty"`
	// run
	All   bool  `json:"all,omitempty"`
	Force bool  `json:"force,omitempty"`
	Entry []int `json:"entry,omitempty"` // nil = ./...
	Fail  *int  `json:"fail,omitempty"`
	// the context handed to Execute is cancelled (or its deadline passes) at a chosen point; nil = never
	Cancel *cancelIn `json:"cancel,omitempty"`
}

// cancelIn: At = pre (cancelled before the call) | expired (deadline in the past at the call) | new | type | defer
// (while package P is generated: in GeneratorNewer.New / in GenerateType of the first tagged type / in a deferred
// callback; a package that is skipped as cached never reaches the point).  Deadline: the in-package points wait for
// a short timeout to pass instead of calling cancel().
type cancelIn struct {
	At       string `json:"at"`
	P        int    `json:"p,omitempty"`
	Deadline bool   `json:"deadline,omitempty"`
}

func (c *cancelIn) inPkg() bool { return c != nil && (c.At == "new" || c.At == "type" || c.At == "defer") }

type sumIO struct {
	Data []byte      `json:"data"`
	DQ   string      `json:"data_q,omitempty"`
	M    [][2][]byte `json:"m"`
}

type input struct {
	Mod   string    `json:"mod,omitempty"`
	Pkgs  []pkgDecl `json:"pkgs,omitempty"`
	Ops   []opIn    `json:"ops,omitempty"`
	SumIO *sumIO    `json:"sumio,omitempty"`
}

const genFile = "zz_generated.rec.go"
const sumName = "gengo.sum"

// reachesUnrequested: some package is imported (transitively) by an entrypoint without being one
func (in *input) reachesUnrequested(entry []int) bool {
	asked := map[int]bool{}
	for _, e := range entry {
		asked[e] = true
	}
	seen := map[int]bool{}
	var walk func(i int) bool
	walk = func(i int) bool {
		if i < 0 || i >= len(in.Pkgs) || seen[i] {
			return false
		}
		seen[i] = true
		if !asked[i] {
			return true
		}
		for _, j := range in.Pkgs[i].Imports {
			if walk(j) {
				return true
			}
		}
		return false
	}
	for _, e := range entry {
		if e >= 0 && e < len(in.Pkgs) {
			for _, j := range in.Pkgs[e].Imports {
				if walk(j) {
					return true
				}
			}
		}
	}
	return false
}

// unrequestedAround: does a package that is in the run through imports only sort before / after the first entrypoint
func (in *input) unrequestedAround(entry []int) (before, after bool) {
	asked := map[int]bool{}
	first := ""
	for _, e := range entry {
		asked[e] = true
		if p := importPath(in.Mod, in.Pkgs[e].Dir); first == "" || p < first {
			first = p
		}
	}
	seen := map[int]bool{}
	var walk func(i int)
	walk = func(i int) {
		if seen[i] {
			return
		}
		seen[i] = true
		if !asked[i] {
			if importPath(in.Mod, in.Pkgs[i].Dir) < first {
				before = true
			} else {
				after = true
			}
		}
		for _, j := range in.Pkgs[i].Imports {
			walk(j)
		}
	}
	for _, e := range entry {
		walk(e)
	}
	return
}

// ---------- the synthetic module ----------

func pkgName(dir string) string {
	if dir == "." {
		return "root"
	}
	b := []byte(filepath.Base(dir))
	for i, c := range b {
		if !(c >= 'a' && c <= 'z' || c >= 'A' && c <= 'Z' || c >= '0' && c <= '9' && i > 0) {
			b[i] = '_'
		}
	}
	return string(b)
}

func importPath(mod, dir string) string {
	if dir == "." {
		return mod
	}
	return mod + "/" + dir
}

func fileContent(pkg string, file string, v int) []byte {
	base := filepath.Base(file)
	switch {
	case base == genFile:
		return []byte(fmt.Sprintf("package %s\n\n// touched by hand %d\n", pkg, v))
	case strings.HasPrefix(base, "x") && strings.HasSuffix(base, ".go"):
		n := strings.TrimSuffix(strings.TrimPrefix(base, "x"), ".go")
		// variants 2k and 2k+1 declare the same type: the source differs, the generated output does not
		return []byte(fmt.Sprintf("package %s\n\n// rev %d\n\n// +gengo:rec\ntype X%sT%d struct{}\n", pkg, v, n, v/2))
	case strings.HasSuffix(base, ".go"):
		n := strings.TrimSuffix(base, ".go")
		return []byte(fmt.Sprintf("package %s\n\n// rev %d\ntype U%s struct{}\n", pkg, v, n))
	}
	return []byte(fmt.Sprintf("v%d\n", v))
}

func writeModule(root string, in *input) error {
	if err := os.MkdirAll(root, 0o755); err != nil {
		return err
	}
	if err := os.WriteFile(filepath.Join(root, "go.mod"), []byte("module "+in.Mod+"\n\ngo 1.22\n"), 0o644); err != nil {
		return err
	}
	for _, p := range in.Pkgs {
		d := filepath.Join(root, p.Dir)
		if err := os.MkdirAll(d, 0o755); err != nil {
			return err
		}
		var b strings.Builder
		fmt.Fprintf(&b, "package %s\n\n", pkgName(p.Dir))
		for _, j := range p.Imports {
			fmt.Fprintf(&b, "import _ %q\n", importPath(in.Mod, in.Pkgs[j].Dir))
		}
		b.WriteString("\ntype Base struct{}\n")
		if err := os.WriteFile(filepath.Join(d, "doc.go"), []byte(b.String()), 0o644); err != nil {
			return err
		}
		if err := os.WriteFile(filepath.Join(d, "x1.go"), fileContent(pkgName(p.Dir), "x1.go", 1), 0o644); err != nil {
			return err
		}
	}
	return nil
}

// ---------- scanning ----------

type interner struct {
	ids map[string]int
}

func (t *interner) id(s string) int {
	if v, ok := t.ids[s]; ok {
		return v
	}
	v := len(t.ids) + 1
	t.ids[s] = v
	return v
}

type fileEnt struct{ F, V int }
type tree [][]fileEnt // per package index, ascending file ids

type scanner struct {
	root  string
	in    *input
	names *interner // file names (relative to the package directory); genFile is 0
	conts *interner // file contents; a dangling symlink is 0
}

func newScanner(root string, in *input) *scanner {
	return &scanner{root: root, in: in, names: &interner{ids: map[string]int{}}, conts: &interner{ids: map[string]int{}}}
}

// owner: the deepest package directory that contains rel ("" if none)
func (s *scanner) owner(rel string) (int, string) {
	best, bestLen := -1, -1
	for i, p := range s.in.Pkgs {
		if p.Dir == "." {
			if bestLen < 0 {
				best, bestLen = i, 0
			}
			continue
		}
		if strings.HasPrefix(rel, p.Dir+"/") && len(p.Dir) > bestLen {
			best, bestLen = i, len(p.Dir)
		}
	}
	if best < 0 {
		return -1, ""
	}
	if bestLen == 0 {
		return best, rel
	}
	return best, rel[bestLen+1:]
}

func (s *scanner) scan() (tree, error) {
	t := make(tree, len(s.in.Pkgs))
	var paths []string
	err := filepath.Walk(s.root, func(file string, info os.FileInfo, err error) error {
		if err != nil {
			return err
		}
		if info.IsDir() {
			return nil
		}
		rel, _ := filepath.Rel(s.root, file)
		paths = append(paths, filepath.ToSlash(rel))
		return nil
	})
	if err != nil {
		return nil, err
	}
	sort.Strings(paths)
	for _, rel := range paths {
		if rel == sumName { // the cache file itself is observed separately
			continue
		}
		p, name := s.owner(rel)
		if p < 0 {
			continue
		}
		v := 0
		data, err := os.ReadFile(filepath.Join(s.root, rel))
		if err == nil {
			v = s.conts.id(string(data))
		}
		f := 0
		if name != genFile {
			f = s.names.id(name)
		}
		t[p] = append(t[p], fileEnt{f, v})
	}
	for i := range t {
		sort.Slice(t[i], func(a, b int) bool { return t[i][a].F < t[i][b].F })
	}
	return t, nil
}

type sumState struct {
	Kind  string `json:"kind"` // missing | file | blocked
	Bytes []byte `json:"bytes,omitempty"`
	Text  string `json:"text,omitempty"`
}

func readSum(root string) sumState {
	p := filepath.Join(root, sumName)
	fi, err := os.Lstat(p)
	if err != nil {
		return sumState{Kind: "missing"}
	}
	if !fi.Mode().IsRegular() {
		return sumState{Kind: "blocked"}
	}
	data, err := os.ReadFile(p)
	if err != nil {
		return sumState{Kind: "blocked"}
	}
	return sumState{Kind: "file", Bytes: data, Text: string(data)}
}

// specHash: the hash of "the directory of the package" the property talks about — dirhash Hash1 over every
// file below it, the module's own gengo.sum left out.
func specHash(root, dir string) (string, bool) {
	d := filepath.Join(root, dir)
	files, err := dirhash.DirFiles(d, "")
	if err != nil {
		return "", false
	}
	if dir == "." {
		var keep []string
		for _, f := range files {
			if f != sumName {
				keep = append(keep, f)
			}
		}
		files = keep
	}
	h, err := dirhash.Hash1(files, func(name string) (io.ReadCloser, error) { return os.Open(filepath.Join(d, name)) })
	if err != nil {
		return "", false
	}
	return h, true
}

func loadSum(root string) ([][2]string, bool) {
	var f *sumfile.File
	var err error
	if p, _ := core.Recover(func() { f, err = sumfile.Load(root) }); p || err != nil || f == nil {
		return nil, false
	}
	var kv [][2]string
	for k, v := range f.Data {
		kv = append(kv, [2]string{k, v})
	}
	sort.Slice(kv, func(a, b int) bool { return kv[a][0] < kv[b][0] })
	return kv, true
}

// ---------- corruptions of gengo.sum (a deterministic function of the present file and tree) ----------

var corruptModes = []string{"empty", "garbage", "truncate", "nonl", "crlf", "tabs", "nbsp", "emspace", "swap", "dupstale", "dupfirst",
	"onefield", "extrafield", "forge", "forgeone", "dropfirst", "droplast", "leadsp", "badutf8", "lonecont", "blanklines"}

func corrupt(mode string, raw []byte, cur []byte, root string, in *input) []byte {
	lines := bytes.SplitAfter(cur, []byte("\n"))
	if n := len(lines); n > 0 && len(lines[n-1]) == 0 {
		lines = lines[:n-1]
	}
	join := func(ls [][]byte) []byte { return bytes.Join(ls, nil) }
	firstKey := func() []byte {
		if len(lines) > 0 {
			if f := bytes.Fields(lines[0]); len(f) > 0 {
				return f[0]
			}
		}
		return []byte(importPath(in.Mod, in.Pkgs[0].Dir))
	}
	switch mode {
	case "raw":
		return raw
	case "empty":
		return []byte{}
	case "garbage":
		return []byte("\x00\xff garbage\nnot a sum file")
	case "truncate":
		if len(cur) > 12 {
			return cur[:len(cur)-12]
		}
		return []byte{}
	case "nonl":
		return bytes.TrimSuffix(cur, []byte("\n"))
	case "crlf":
		return bytes.ReplaceAll(cur, []byte("\n"), []byte("\r\n"))
	case "tabs":
		return bytes.ReplaceAll(cur, []byte(" "), []byte("\t \v"))
	case "nbsp":
		return bytes.ReplaceAll(cur, []byte(" "), []byte("\u00a0"))
	case "emspace":
		return bytes.Replace(cur, []byte(" "), []byte("\u2003\u3000"), 1)
	case "swap":
		if len(lines) >= 2 {
			a, b := bytes.Fields(lines[0]), bytes.Fields(lines[1])
			if len(a) >= 2 && len(b) >= 2 {
				l0 := []byte(string(a[0]) + " " + string(b[1]) + "\n")
				l1 := []byte(string(b[0]) + " " + string(a[1]) + "\n")
				return join(append([][]byte{l0, l1}, lines[2:]...))
			}
		}
		return cur
	case "dupstale":
		return append(append([]byte{}, cur...), []byte(string(firstKey())+" h1:stale\n")...)
	case "dupfirst":
		return append([]byte(string(firstKey())+" h1:stale\n"), cur...)
	case "onefield":
		var out []byte
		for _, l := range lines {
			if f := bytes.Fields(l); len(f) > 0 {
				out = append(out, f[0]...)
				out = append(out, '\n')
			}
		}
		return out
	case "extrafield":
		return bytes.ReplaceAll(cur, []byte("\n"), []byte(" extra field\n"))
	case "forge", "forgeone":
		var out []byte
		for i, p := range in.Pkgs {
			if mode == "forgeone" && i > 0 {
				break
			}
			if h, ok := specHash(root, p.Dir); ok {
				out = append(out, []byte(importPath(in.Mod, p.Dir)+" "+h+"\n")...)
			}
		}
		if mode == "forgeone" {
			for _, l := range lines {
				if f := bytes.Fields(l); len(f) > 0 && string(f[0]) != importPath(in.Mod, in.Pkgs[0].Dir) {
					out = append(out, l...)
				}
			}
		}
		return out
	case "dropfirst":
		if len(lines) > 0 {
			return join(lines[1:])
		}
		return cur
	case "droplast":
		if len(lines) > 0 {
			return join(lines[:len(lines)-1])
		}
		return cur
	case "leadsp":
		var out []byte
		for _, l := range lines {
			out = append(out, ' ', '\t')
			out = append(out, l...)
		}
		return out
	case "badutf8":
		return bytes.ReplaceAll(cur, []byte(" "), []byte("\xc2 \xe2\x80"))
	case "lonecont":
		return bytes.ReplaceAll(cur, []byte(" "), []byte("\x85\xa0"))
	case "blanklines":
		return append([]byte("\n\n  \n"), bytes.ReplaceAll(cur, []byte("\n"), []byte("\n\n"))...)
	}
	return cur
}

// ---------- Coq transport: every distinct byte string of a case is bound once (let s<i> := hx "..."), and a
// gengo.sum that is exactly a sequence of "key value\n" lines is sent as that sequence (slines), because the
// cost of a case file is the number of string-literal characters Coq has to parse ----------

type coqEnc struct {
	names map[string]string
	defs  []string
}

func newEnc() *coqEnc { return &coqEnc{names: map[string]string{}} }

func (e *coqEnc) b(s string) string {
	if len(s) <= 2 {
		return core.Hex(s)
	}
	if n, ok := e.names[s]; ok {
		return n
	}
	n := fmt.Sprintf("s%d", len(e.names))
	e.names[s] = n
	e.defs = append(e.defs, fmt.Sprintf("let %s := hx \"%x\" in", n, s))
	return n
}

func (e *coqEnc) wrap(term string) string {
	if len(e.defs) == 0 {
		return term
	}
	return "(" + strings.Join(e.defs, "\n ") + "\n " + term + ")"
}

// file: the bytes of a gengo.sum
func (e *coqEnc) file(data []byte) string {
	if len(data) == 0 {
		return "[]"
	}
	var kv [][2]string
	rest := string(data)
	for rest != "" {
		i := strings.IndexByte(rest, '\n')
		if i < 0 {
			return e.b(string(data))
		}
		line := rest[:i]
		rest = rest[i+1:]
		j := strings.IndexByte(line, ' ')
		if j < 0 {
			return e.b(string(data))
		}
		kv = append(kv, [2]string{line[:j], line[j+1:]})
	}
	var chk strings.Builder
	for _, x := range kv {
		chk.WriteString(x[0] + " " + x[1] + "\n")
	}
	if chk.String() != string(data) {
		return e.b(string(data))
	}
	return "(slines " + e.kvList(kv) + ")"
}

func (e *coqEnc) kvList(kv [][2]string) string {
	var es []string
	for _, x := range kv {
		es = append(es, fmt.Sprintf("(%s,%s)", e.b(x[0]), e.b(x[1])))
	}
	return core.CoqList(es)
}

// ---------- observations ----------

type runObs struct {
	Executed []int       `json:"executed"`
	Err      int         `json:"err"` // 0 none | 1 injected generator failure | 2 saving gengo.sum failed | 3 other | 4 the context's error (Canceled / DeadlineExceeded)
	CtxDone  bool        `json:"ctx_done,omitempty"` // the context was cancelled / expired when Execute returned
	Fired    bool        `json:"fired,omitempty"`    // the in-package cancellation point was reached
	ErrText  string      `json:"err_text,omitempty"`
	Hashes   []string    `json:"hashes"` // "" = not hashable
	Loaded   [][2]string `json:"loaded"`
	LoadedOK bool        `json:"loaded_ok"`
	Reloaded [][2]string `json:"reloaded"`
	ReloadOK bool        `json:"reloaded_ok"`
}

type stepObs struct {
	Op   string   `json:"op"`
	Tree tree     `json:"tree"`
	Sum  sumState `json:"sum"`
	Run  *runObs  `json:"run,omitempty"`
}

type observed struct {
	Tree0 tree      `json:"tree0"`
	Steps []stepObs `json:"steps"`
	Fatal string    `json:"fatal,omitempty"`
}

func runChild(root string, in *input, o *opIn, scratch string) (*runResp, error) {
	req := runReq{Dir: root, All: o.All, Force: o.Force}
	if o.Entry == nil {
		req.Entry = []string{"./..."}
	} else {
		for _, i := range o.Entry {
			d := in.Pkgs[i].Dir
			if d == "." {
				req.Entry = append(req.Entry, ".")
			} else {
				req.Entry = append(req.Entry, "./"+d)
			}
		}
	}
	if o.Fail != nil {
		req.Fail = importPath(in.Mod, in.Pkgs[*o.Fail].Dir)
	}
	if o.Cancel != nil {
		req.Cancel = &cancelReq{At: o.Cancel.At, Deadline: o.Cancel.Deadline}
		if o.Cancel.inPkg() {
			req.Cancel.Pkg = importPath(in.Mod, in.Pkgs[o.Cancel.P].Dir)
		}
	}
	data, _ := json.Marshal(req)
	rf := filepath.Join(scratch, "req.json")
	if err := os.WriteFile(rf, data, 0o644); err != nil {
		return nil, err
	}
	exe, err := os.Executable()
	if err != nil {
		return nil, err
	}
	cmd := exec.Command(exe, "c08-run", rf)
	var stdout, stderr bytes.Buffer
	cmd.Stdout, cmd.Stderr = &stdout, &stderr
	if err := cmd.Start(); err != nil {
		return nil, err
	}
	done := make(chan error, 1)
	go func() { done <- cmd.Wait() }()
	select {
	case err = <-done:
	case <-time.After(120 * time.Second):
		_ = cmd.Process.Kill()
		<-done
		return nil, fmt.Errorf("child timed out")
	}
	if err != nil {
		return nil, fmt.Errorf("child: %v: %s", err, tail(stderr.String(), 400))
	}
	var resp runResp
	lines := strings.Split(strings.TrimSpace(stdout.String()), "\n")
	if err := json.Unmarshal([]byte(lines[len(lines)-1]), &resp); err != nil {
		return nil, fmt.Errorf("child output: %v: %s", err, tail(stdout.String(), 300))
	}
	return &resp, nil
}

func tail(s string, n int) string {
	if len(s) > n {
		return s[len(s)-n:]
	}
	return s
}

func (in *input) entryIdx(o *opIn) []int {
	if o.Entry != nil {
		return o.Entry
	}
	all := make([]int, len(in.Pkgs))
	for i := range all {
		all[i] = i
	}
	return all
}

// scopeSorted: the packages the loop of Execute visits for this run (entrypoints and what they import; without All the
// entrypoints only), in the order of LocalPkgPaths (sorted import paths)
func (in *input) scopeSorted(o *opIn) []int {
	entry := in.entryIdx(o)
	seen := map[int]bool{}
	var walk func(i int)
	walk = func(i int) {
		if seen[i] {
			return
		}
		seen[i] = true
		if o.All {
			for _, j := range in.Pkgs[i].Imports {
				walk(j)
			}
		}
	}
	for _, e := range entry {
		walk(e)
	}
	var out []int
	for i := range in.Pkgs {
		if seen[i] {
			out = append(out, i)
		}
	}
	sort.Slice(out, func(a, b int) bool {
		return importPath(in.Mod, in.Pkgs[out[a]].Dir) < importPath(in.Mod, in.Pkgs[out[b]].Dir)
	})
	return out
}

func valid(in *input) string {
	if in.Mod == "" || len(in.Pkgs) == 0 || len(in.Pkgs) > 6 {
		return "bad module"
	}
	seen := map[string]bool{}
	for i, p := range in.Pkgs {
		if p.Dir == "" || seen[p.Dir] || strings.HasPrefix(p.Dir, "/") || strings.Contains(p.Dir, "..") {
			return "bad dir"
		}
		seen[p.Dir] = true
		for _, j := range p.Imports {
			if j == i || j < 0 || j >= len(in.Pkgs) {
				return "bad import"
			}
		}
	}
	// the import graph is acyclic (an imported package may come before or after its importer)
	state := make([]int, len(in.Pkgs))
	var cyclic func(i int) bool
	cyclic = func(i int) bool {
		if state[i] != 0 {
			return state[i] == 1
		}
		state[i] = 1
		for _, j := range in.Pkgs[i].Imports {
			if cyclic(j) {
				return true
			}
		}
		state[i] = 2
		return false
	}
	for i := range in.Pkgs {
		if cyclic(i) {
			return "import cycle"
		}
	}
	for _, o := range in.Ops {
		if o.P < 0 || o.P >= len(in.Pkgs) {
			return "bad package index"
		}
		for _, e := range o.Entry {
			if e < 0 || e >= len(in.Pkgs) {
				return "bad entry"
			}
		}
		if o.K == "run" && o.Entry != nil && len(o.Entry) == 0 {
			return "empty entry"
		}
		if o.Fail != nil && (*o.Fail < 0 || *o.Fail >= len(in.Pkgs)) {
			return "bad fail"
		}
		if c := o.Cancel; c != nil {
			if o.K != "run" || !(c.At == "pre" || c.At == "expired" || c.inPkg()) || c.P < 0 || c.P >= len(in.Pkgs) {
				return "bad cancel"
			}
			if !c.inPkg() && (c.P != 0 || c.Deadline) {
				return "bad cancel"
			}
		}
		if (o.K == "set" || o.K == "del") && (o.File == "" || o.File == "doc.go" || strings.Contains(o.File, "..")) {
			return "bad file"
		}
		if (o.K == "set" || o.K == "del") && o.File == sumName && in.Pkgs[o.P].Dir == "." {
			return "bad file" // the module's own gengo.sum: delsum / corrupt
		}
	}
	return ""
}

func (prop) Run(raw json.RawMessage, scratch string) core.Result {
	var in input
	if err := json.Unmarshal(raw, &in); err != nil {
		return core.Result{Observed: "bad input: " + err.Error()}
	}
	if in.SumIO != nil {
		return runSumIO(in.SumIO, scratch)
	}
	if msg := valid(&in); msg != "" {
		return core.Result{Observed: "bad input: " + msg}
	}
	var res core.Result
	obs := &observed{}
	res.Observed = obs
	fatal := func(format string, a ...any) core.Result {
		obs.Fatal = fmt.Sprintf(format, a...)
		res.GoViolations = append(res.GoViolations, "harness could not execute the history: "+obs.Fatal)
		return res
	}
	if err := os.MkdirAll(scratch, 0o755); err != nil {
		return fatal("%v", err)
	}
	root := filepath.Join(scratch, "m")
	if err := writeModule(root, &in); err != nil {
		return fatal("%v", err)
	}
	sc := newScanner(root, &in)
	t0, err := sc.scan()
	if err != nil {
		return fatal("%v", err)
	}
	obs.Tree0 = t0

	type genSnap struct {
		ok   bool
		data []byte
	}
	prevGen := make([]genSnap, len(in.Pkgs)) // generated file as it was before the last run that changed it
	tags := map[string]bool{}
	var coqSteps []string
	enc := newEnc()
	nRuns, nSkips, nExec := 0, 0, 0

	for k := range in.Ops {
		o := &in.Ops[k]
		var coqOp string
		var ro *runObs
		pdir := func() string { return filepath.Join(root, in.Pkgs[o.P].Dir) }
		switch o.K {
		case "set":
			f := filepath.Join(pdir(), o.File)
			_ = os.MkdirAll(filepath.Dir(f), 0o755)
			_ = os.Remove(f)
			if err := os.WriteFile(f, fileContent(pkgName(in.Pkgs[o.P].Dir), o.File, o.V), 0o644); err != nil {
				return fatal("%v", err)
			}
		case "del":
			_ = os.Remove(filepath.Join(pdir(), o.File))
		case "symlink":
			f := filepath.Join(pdir(), "dangling")
			_ = os.Remove(f)
			if err := os.Symlink("no-such-target", f); err != nil {
				return fatal("%v", err)
			}
		case "restoregen":
			f := filepath.Join(pdir(), genFile)
			if prevGen[o.P].ok {
				_ = os.WriteFile(f, prevGen[o.P].data, 0o644)
			} else {
				_ = os.Remove(f)
			}
		case "delsum":
			_ = os.RemoveAll(filepath.Join(root, sumName))
			coqOp = "CDelSum"
		case "corrupt":
			cur := readSum(root)
			b := corrupt(o.Mode, o.Raw, cur.Bytes, root, &in)
			_ = os.RemoveAll(filepath.Join(root, sumName))
			if err := os.WriteFile(filepath.Join(root, sumName), b, 0o644); err != nil {
				return fatal("%v", err)
			}
			coqOp = "CCorrupt " + enc.file(b)
			tags["corrupt:"+o.Mode] = true
		case "block":
			_ = os.RemoveAll(filepath.Join(root, sumName))
			if err := os.Mkdir(filepath.Join(root, sumName), 0o755); err != nil {
				return fatal("%v", err)
			}
			coqOp = "CBlock"
		case "run":
			ro = &runObs{}
			for _, p := range in.Pkgs {
				h, _ := specHash(root, p.Dir)
				ro.Hashes = append(ro.Hashes, h)
			}
			ro.Loaded, ro.LoadedOK = loadSum(root)
			before := make([]genSnap, len(in.Pkgs))
			for i, p := range in.Pkgs {
				d, err := os.ReadFile(filepath.Join(root, p.Dir, genFile))
				before[i] = genSnap{err == nil, d}
			}
			resp, err := runChild(root, &in, o, scratch)
			if err != nil {
				return fatal("run %d: %v", k, err)
			}
			idx := map[string]int{}
			for i, p := range in.Pkgs {
				idx[importPath(in.Mod, p.Dir)] = i
			}
			for _, e := range resp.Executed {
				i, ok := idx[e]
				if !ok {
					res.GoViolations = append(res.GoViolations, "generator instantiated for a package outside the module: "+e)
					continue
				}
				ro.Executed = append(ro.Executed, i)
			}
			switch resp.ErrKind {
			case "":
				ro.Err = 0
			case "gen":
				ro.Err = 1
			case "ctx":
				ro.Err = 4
			default:
				ro.Err = 3
				if strings.Contains(resp.Err, sumName) && resp.ErrKind == "other" {
					ro.Err = 2
				}
			}
			ro.ErrText = resp.Err
			ro.CtxDone, ro.Fired = resp.CtxDone, resp.Fired
			if c := o.Cancel; c != nil && resp.ErrKind != "load" && resp.CtxDone != (!c.inPkg() || resp.Fired) && !(c.Deadline && !resp.Fired) {
				return fatal("run %d: cancellation %+v, point reached = %v, but ctx.Err() != nil is %v", k, *c, resp.Fired, resp.CtxDone)
			}
			if o.Cancel == nil && resp.CtxDone {
				return fatal("run %d: context.Background() is done", k)
			}
			ro.Reloaded, ro.ReloadOK = loadSum(root)
			for i, p := range in.Pkgs {
				d, err := os.ReadFile(filepath.Join(root, p.Dir, genFile))
				if (err == nil) != before[i].ok || !bytes.Equal(d, before[i].data) {
					prevGen[i] = before[i]
				}
			}
			nRuns++
			nExec += len(ro.Executed)
			ent := in.entryIdx(o)
			var es []string
			for _, e := range ent {
				es = append(es, fmt.Sprint(e))
			}
			fail := "None"
			if o.Fail != nil {
				fail = fmt.Sprintf("(Some %d)", *o.Fail)
			}
			cancel := "None"
			if c := o.Cancel; c != nil {
				cancel = "(Some None)"
				if c.inPkg() {
					cancel = fmt.Sprintf("(Some (Some %d))", c.P)
				}
				tags["run:cancel:"+c.At] = true
				if c.Deadline || c.At == "expired" {
					tags["run:cancel:deadline"] = true
				}
				if c.inPkg() {
					sc := in.scopeSorted(o)
					switch {
					case !resp.Fired:
						tags["run:cancel:point-not-reached"] = true
					case len(sc) > 0 && sc[0] == c.P:
						tags["run:cancel:in-first-of-scope"] = true
					case len(sc) > 0 && sc[len(sc)-1] == c.P:
						tags["run:cancel:in-last-of-scope"] = true
					default:
						tags["run:cancel:between-packages"] = true
					}
				}
				switch {
				case !o.All:
					tags["run:cancel:without-all"] = true
				case o.Force:
					tags["run:cancel:force"] = true
				case o.Entry != nil:
					tags["run:cancel:subset"] = true
				}
				if o.Fail != nil {
					tags["run:cancel:failing"] = true
				}
			}
			coqOp = fmt.Sprintf("CRun %s %s %s %s %s", core.CoqBool(o.All), core.CoqBool(o.Force), core.CoqList(es), fail, cancel)
			if o.All && o.Force && o.Entry != nil {
				tags["run:force-all-subset"] = true
				if in.reachesUnrequested(o.Entry) {
					tags["run:force-all-subset-with-unrequested-import"] = true
				}
			}
			switch {
			case !o.All:
				tags["run:direct-only"] = true
			case o.Force:
				tags["run:force"] = true
			case o.Entry != nil:
				tags["run:all-subset"] = true
			default:
				tags["run:all"] = true
			}
			if o.All && o.Entry != nil {
				if before, after := in.unrequestedAround(o.Entry); before || after {
					if before {
						tags["run:all-subset-import-sorts-before-first-entry"] = true
					}
					if after {
						tags["run:all-subset-import-sorts-after-first-entry"] = true
					}
				}
			}
			if o.Fail != nil {
				tags["run:failing"] = true
			}
			tags[fmt.Sprintf("err=%d", ro.Err)] = true
		default:
			return core.Result{Observed: "bad input: op " + o.K}
		}
		t, err := sc.scan()
		if err != nil {
			return fatal("%v", err)
		}
		sm := readSum(root)
		if coqOp == "" { // a file operation: express it by what it did to the scanned tree
			prev := t0
			if len(obs.Steps) > 0 {
				prev = obs.Steps[len(obs.Steps)-1].Tree
			}
			coqOp = diffOp(prev, t, o.P)
			tags["edit:"+o.K+":"+editKind(o.File)] = true
		}
		if ro != nil {
			// how many in-scope packages were skipped (for the distribution only)
			n := len(in.entryIdx(o))
			if n > len(ro.Executed) && ro.Err == 0 {
				nSkips += n - len(ro.Executed)
			}
		}
		obs.Steps = append(obs.Steps, stepObs{Op: opText(o), Tree: t, Sum: sm, Run: ro})
		coqSteps = append(coqSteps, fmt.Sprintf("(%s, mk_cobs %s %s %s)", coqOp, coqTree(t), enc.sum(sm), enc.run(ro)))
	}

	var pk []string
	for _, p := range in.Pkgs {
		var im []string
		for _, j := range p.Imports {
			im = append(im, fmt.Sprint(j))
		}
		pk = append(pk, fmt.Sprintf("(%s, %s)", enc.b(importPath(in.Mod, p.Dir)), core.CoqList(im)))
	}
	res.Coq = enc.wrap(fmt.Sprintf("History %s %s %s %s", enc.b(in.Mod), core.CoqList(pk), coqTree(t0), core.CoqList(coqSteps)))

	res.Nontrivial = nRuns >= 2 && nSkips > 0 && nExec > 0
	// input classes (names only; none of them is a known finding — they keep the reports of the two repaired
	// defects apart when the check runs on a tree without the fixes)
	for _, p := range in.Pkgs {
		if p.Dir == "." {
			res.Class = "root_package"
		}
	}
	for _, o := range in.Ops {
		if o.K == "symlink" {
			res.Class = "unhashable_dir"
		}
	}
	for t := range tags {
		res.Tags = append(res.Tags, t)
	}
	sort.Strings(res.Tags)
	res.Tags = append(res.Tags, fmt.Sprintf("pkgs=%d", len(in.Pkgs)), fmt.Sprintf("ops=%d", min(len(in.Ops), 12)), fmt.Sprintf("runs=%d", min(nRuns, 8)))
	for _, p := range in.Pkgs {
		if p.Dir == "." {
			res.Tags = append(res.Tags, "root-package")
		}
		if strings.Contains(p.Dir, "/") {
			res.Tags = append(res.Tags, "nested-package")
		}
	}
	if nSkips > 0 {
		res.Tags = append(res.Tags, "some-skip")
	}
	return res
}

func editKind(file string) string {
	switch {
	case file == genFile:
		return "generated"
	case file == "dangling" || file == "":
		return "other"
	case strings.Contains(strings.ToLower(file), "gengo.su"):
		return "sum-lookalike"
	case strings.HasPrefix(file, ".") || strings.HasPrefix(file, "_"):
		return "dotfile"
	case strings.Contains(file, "/"):
		return "subdir"
	case strings.HasSuffix(file, ".go"):
		return "source"
	}
	return "other"
}

func opText(o *opIn) string {
	b, _ := json.Marshal(o)
	return string(b)
}

// diffOp expresses a file operation as the change it made to the scanned tree of package p:
// CSet p f v / CDel p f; an operation that changed nothing is CSet of an existing entry (or CDel of an absent id).
func diffOp(prev, cur tree, p int) string {
	pm := map[int]int{}
	for _, e := range prev[p] {
		pm[e.F] = e.V
	}
	cm := map[int]int{}
	for _, e := range cur[p] {
		cm[e.F] = e.V
		if v, ok := pm[e.F]; !ok || v != e.V {
			return fmt.Sprintf("CSet %d %d %d", p, e.F, e.V)
		}
	}
	for _, e := range prev[p] {
		if _, ok := cm[e.F]; !ok {
			return fmt.Sprintf("CDel %d %d", p, e.F)
		}
	}
	if len(cur[p]) > 0 {
		return fmt.Sprintf("CSet %d %d %d", p, cur[p][0].F, cur[p][0].V)
	}
	return fmt.Sprintf("CDel %d 0", p)
}

func coqTree(t tree) string {
	var ps []string
	for i, fs := range t {
		var es []string
		for _, e := range fs {
			es = append(es, fmt.Sprintf("(%d,%d)", e.F, e.V))
		}
		ps = append(ps, fmt.Sprintf("(%d,%s)", i, core.CoqList(es)))
	}
	return core.CoqList(ps)
}

func (e *coqEnc) sum(s sumState) string {
	switch s.Kind {
	case "missing":
		return "CSMissing"
	case "blocked":
		return "CSBlocked"
	}
	return "(CSFile " + e.file(s.Bytes) + ")"
}

func (e *coqEnc) kvOpt(kv [][2]string, ok bool) string {
	if !ok {
		return "None"
	}
	return "(Some " + e.kvList(kv) + ")"
}

func (e *coqEnc) run(r *runObs) string {
	if r == nil {
		return "None"
	}
	var ex, hs []string
	for _, e := range r.Executed {
		ex = append(ex, fmt.Sprint(e))
	}
	for _, h := range r.Hashes {
		hs = append(hs, core.CoqOpt(h != "", e.b(h)))
	}
	return fmt.Sprintf("(Some (mk_crun %s %d %s %s %s %s))", core.CoqList(ex), r.Err, core.CoqList(hs),
		e.kvOpt(r.Loaded, r.LoadedOK), e.kvOpt(r.Reloaded, r.ReloadOK), core.CoqBool(r.CtxDone))
}

// ---------- sumfile.Load / File.Bytes on arbitrary data ----------

type sumIOObs struct {
	Loaded   [][2]string `json:"loaded"`
	Out      string      `json:"out"`
	Reloaded [][2]string `json:"reloaded"`
}

func runSumIO(s *sumIO, scratch string) core.Result {
	var res core.Result
	_ = os.MkdirAll(scratch, 0o755)
	var ob sumIOObs
	if err := os.WriteFile(filepath.Join(scratch, sumName), s.Data, 0o644); err != nil {
		res.GoViolations = append(res.GoViolations, "harness: "+err.Error())
		return res
	}
	loaded, ok := loadSum(scratch)
	if !ok {
		res.GoViolations = append(res.GoViolations, "sumfile.Load failed on a readable file")
	}
	ob.Loaded = loaded
	m := map[string]string{}
	var mk [][2]string
	for _, kv := range s.M {
		if _, dup := m[string(kv[0])]; dup {
			continue
		}
		m[string(kv[0])] = string(kv[1])
		mk = append(mk, [2]string{string(kv[0]), string(kv[1])})
	}
	sort.Slice(mk, func(a, b int) bool { return mk[a][0] < mk[b][0] })
	var out []byte
	if p, v := core.Recover(func() { out = (&sumfile.File{Dir: scratch, Data: m}).Bytes() }); p {
		res.GoViolations = append(res.GoViolations, fmt.Sprint("File.Bytes panicked: ", v))
	}
	ob.Out = string(out)
	// Save + Load: the round trip through the file system
	f := &sumfile.File{Dir: scratch, Data: m}
	if err := f.Save(); err != nil {
		res.GoViolations = append(res.GoViolations, "File.Save failed: "+err.Error())
	}
	if data, _ := os.ReadFile(filepath.Join(scratch, sumName)); !bytes.Equal(data, out) {
		res.GoViolations = append(res.GoViolations, "File.Save wrote something else than File.Bytes")
	}
	ob.Reloaded, _ = loadSum(scratch)
	res.Observed = ob
	// Go's sort of the keys is the byte-wise order the model uses: mk is sorted with <
	enc := newEnc()
	res.Coq = enc.wrap(fmt.Sprintf("SumIO %s %s %s %s %s", enc.b(string(s.Data)), enc.kvList(ob.Loaded), enc.kvList(mk), enc.file(out), enc.kvList(ob.Reloaded)))
	res.Nontrivial = len(ob.Loaded) > 0 || len(mk) > 1
	res.Tags = append(res.Tags, "sumio", fmt.Sprintf("sumio:loaded=%d", min(len(ob.Loaded), 5)))
	return res
}
