package c09

import (
	"encoding/json"
	"strconv"
	"strings"
	"unicode/utf8"

	"verifharness/internal/c10"
	"verifharness/internal/core"
)

const bomS = "\ufeff"

var names = []string{"x", "y", "ab", "a1", "_u", "X", "xy"}

func enc(s Snip) json.RawMessage {
	b, _ := json.Marshal(s)
	return b
}

// fixed corner cases: the ones the property names, and the probes of DESIGN.md section 4
func fixed() []Snip {
	X := block("X")
	e := block("")
	return []Snip{
		tpl("a@x'b", named("x", e)),
		tpl("a@x'b", named("x", X)),
		tpl("a@x'b", named("x", nilS())),
		tpl("a@x", named("x", nilS())),
		tpl("a@x'b", named("x", value(Val{T: "nil"}))),
		tpl("a@x'b", named("x", tpl(""))),
		tpl("a@ b"), tpl("a@"), tpl("@@x", named("x", X)), tpl("a@'b"), tpl("@"), tpl("@'"), tpl("@@"), tpl("a@.b@-c"),
		tpl("\n\na\nb\n"), tpl("\n"), tpl(""), tpl("\n\n@x\n", named("x", X)),
		tpl("@x@y'@x'z", named("x", e), named("y", block("Y"))),
		tpl("@xy", named("x", X)), tpl("@xy", named("x", X), named("xy", block("XY"))), tpl("@x_1y", named("x_1y", X)),
		tpl("@x-y.@x", named("x", X)),
		tpl("ab@y c"), tpl("@y", named("x", X)),
		tpl("[@x]", named("x", block("@y'%v%%@@"))),
		tpl("[@x]", named("x", tpl("<@y'>", named("y", block("@x"))))),
		tpl("[@x]", named("x", tpl("<@y>"))),
		tpl("@x@x", named("x", block("a")), named("x", block("b"))),
		tpl("é@x世'界", named("x", block("ü"))),
		tpl("a\x00b@x", named("x", X)),
		tpl("100%% @x %v", named("x", X)),
		tpl("@x''", named("x", X)), tpl("'@x'", named("x", e)), tpl("it's @x's", named("x", X)),
		spf("100%%"), spf("a%%v", varg(Val{T: "int", I: 1})), spf("%%%%"), spf("%%%"), spf("%"), spf("a%"), spf("%d", varg(Val{T: "int", I: 1})),
		spf("%v", varg(Val{T: "nil"})), spf("%T", varg(Val{T: "nil"})),
		spf("%v"), spf("%v%v", varg(Val{T: "int", I: 1})), spf("a", varg(Val{T: "int", I: 1})),
		spf("%v|%v|%v|%v|%v", varg(Val{T: "int", I: -7}), varg(Val{T: "str", S: "s\"@x%v"}), varg(Val{T: "bool", B: true}), varg(Val{T: "strs", L: []string{"a", "b"}}), varg(Val{T: "map", L: []string{"k", "j"}})),
		spf("%T %T %T", varg(Val{T: "name", S: "Foo"}), varg(Val{T: "rtype", S: "[]string"}), varg(Val{T: "rtype", S: "map[string]int"})),
		spf("%T", varg(Val{T: "int", I: 1})),
		spf("[%v|%T]", sarg(block("@x%v")), sarg(tpl("@y", named("y", block("%%"))))),
		spf("%v", sarg(block(""))), spf("%v", sarg(value(Val{T: "nil"}))), spf("%T", sarg(ident(Val{T: "nil"}))),
		spf("[]string{\n%T\n}", sarg(snippets(spf("%v,\n", varg(Val{T: "str", S: "l1"})), spf("%v,\n", varg(Val{T: "str", S: "l2"}))))),
		spf("@x'%v", varg(Val{T: "str", S: "@x"})),
		comment(""), comment("a"), comment("a\nb"), comment("a\nb\n"), comment("\n"), comment("a\r\nb"), comment("@x %v é"),
		directive("embed", "a", "", "b"), directive("", "a"), directive("generate"), directive("build", "", ""),
		snippets(block("a"), nilS(), block("b")), snippets(), snippets(block(""), tpl(""), value(Val{T: "nil"}), block("z")),
		snippets(tpl("@x", named("x", X)), comment("c"), block("\n")),
		fragments(nilS()), fragments(block("")), fragments(block("a")), fragments(tpl("@x'", named("x", X))),
		nilS(), block(""), block("@x %v"), value(Val{T: "nil"}), value(Val{T: "int", I: 3}), ident(Val{T: "name", S: "Foo"}), ident(Val{T: "nil"}),
		// arguments the format does not mention are not rendered (one argument set, several texts): probes record / panic
		tpl("a@x'b", named("x", X), named("y", probeS("P", true)), named("ab", probeS("Q", false))),
		tpl("no placeholder", named("x", probeS("P", true))), tpl("", named("x", probeS("P", false))), tpl("@xy", named("xy", X), named("x", probeS("P", true)), named("y", probeS("P", false))),
		tpl("@x @y", named("x", probeS("P", false)), named("y", probeS("", false)), named("_u", probeS("U", true))),
		tpl("@x", named("x", probeS("P", true))), tpl("a@x'b@x", named("x", probeS("@y%v", false))),
		snippets(tpl("var _ @x", named("x", X), named("y", probeS("Y", true))), tpl("var _ @y", named("x", probeS("X", true)), named("y", block("Y")))),
		tpl("[@x]", named("x", tpl("<@a1>", named("a1", X), named("x", probeS("inner", true)))), named("a1", probeS("outer", false))),
		tpl("@x", named("x", X), named("y", tpl("@zz")), named("ab", spf("%v"))),
		// ---- the bindings travel in ONE snippet.Args map which the caller goes on using after T() returned ----
		// the loop of a generator: one map, one template per field, all rendered afterwards
		shareArgs(tplArgs("v.@Field = in.@Field\n", named("Field", block("Name")), named("v", X)),
			tplArgs("v.@Field = in.@Field\n", named("Field", block("Age")), named("v", X)),
			tplArgs("v.@Field = in.@Field\n", named("Field", block("Tags")), named("v", X))),
		shareArgs(tplArgs("@x'@y'", named("x", X), named("y", block("Y"))), tplArgs("@x'", named("x", block("Z"))), tplArgs("no placeholder")),
		shareArgs(tplArgs("[@x]", named("x", X)), block("-"), tplArgs("[@y]", named("y", block("Y"))), tpl("@x", named("x", block("own")))),
		// one template, then the map is written to: entry reassigned / deleted / added / emptied
		mutated(tplArgs("a@x'b", named("x", X)), set("x", block("LATER"))),
		mutated(tplArgs("a@x'b", named("x", X)), del("x")),
		mutated(tplArgs("a@x'b@y", named("x", X)), set("y", block("LATER"))), // @y was not bound when T was called: must panic
		mutated(tplArgs("a@x'b", named("x", X), named("y", block("Y"))), del("y"), set("ab", probeS("P", true)), set("x", probeS("Q", false))),
		mutated(tplArgs("@x@y", named("x", nilS()), named("y", e)), set("x", X), set("y", X)),
		mutated(tplArgs("@x", named("x", X)), set("x", Snip{K: "nil"})), mutated(tplArgs("@x", named("x", X)), Mut{N: "x"}),
		mutated(tplArgs("@x"), set("x", X)), mutated(tplArgs(""), set("x", probeS("P", true))),
		tplArgs("no binding at all: nil map"), tplArgs("@x"), tplArgs("@x @y", named("x", X), named("y", X), named("x", block("last wins"))),
		withMode("args+", mutated(tplArgs("@x @y", named("x", X), named("y", block("Y"))), del("x"), set("y", block("LATER")))),
		// the mutated template as an argument of another template / of Sprintf / behind Fragments
		tpl("<@a1>", named("a1", mutated(tplArgs("@x", named("x", X)), set("x", block("LATER"))))),
		spf("%v|%T", sarg(mutated(tplArgs("@x", named("x", X)), del("x"))), sarg(mutated(tplArgs("@y'", named("y", X)), set("y", nilS())))),
		fragments(mutated(tplArgs("@x", named("x", tpl("@y", named("y", X)))), set("x", tpl("@y")))),
		// U+FEFF in a format is a character like any other (text/scanner drops one at the start of its source; until
		// fixes/C09-5-leading-bom.diff the format lost it): at the start, after T's trimmed newlines, twice, alone, inside
		tpl(bomS + "a"), tpl("\n\n"+bomS+"a@x", named("x", X)), tpl("a" + bomS + "b"), tpl(bomS + bomS + "a"), spf(bomS+"a%v", varg(Val{T: "int", I: 1})),
		tpl(bomS), spf(bomS), tpl("\n" + bomS), tpl("\n" + bomS + bomS), spf(bomS + bomS), spf("a"+bomS+"%v"+bomS, varg(Val{T: "int", I: 1})),
		tpl(bomS+"@x'"+bomS+"@x"+bomS, named("x", X)), tpl(bomS+"\n"+bomS+"@"), tpl(bomS+"@x", named("x", spf(bomS+"%v", sarg(tpl("\n"+bomS+bomS))))),
		spf(bomS+"%%"+bomS+"%T", sarg(tpl(bomS))), snippets(tpl(bomS), spf(bomS), tpl("\n"+bomS+"b")), fragments(tpl(bomS+"'")),
		tpl(bomS+"\xff@x", named("x", X)), spf("\xef\xbb" + bomS), tpl("\n\xef\xbb\xbf\xbf"),
		// the malformed stream
		tpl("a\xffb\xe1\x80@x", named("x", X)), tpl("\xef\xbb@x", named("x", X)), spf("\xc3%v\xed\xa0\x80", varg(Val{T: "int", I: 1})),
		tpl("\xf0\x9f\x98\x80@x\xf4\x90\x80\x80", named("x", X)),
	}
}

func tplArgs(f string, args ...Arg) Snip { x := tpl(f, args...); x.Mode = "args"; return x }
func withMode(m string, s Snip) Snip     { s.Mode = m; return s }
func mutated(s Snip, m ...Mut) Snip      { s.Mut = m; return s }
func set(n string, s Snip) Mut           { return Mut{N: n, S: &s} }
func del(n string) Mut                   { return Mut{N: n, Del: true} }
func shareArgs(l ...Snip) Snip           { x := snippets(l...); x.Share = true; return x }

type gen struct {
	r    *core.RNG
	rich bool // RenderStack stream: leaves that refer to packages
	wide bool // code-space stream: the characters next to placeholders, '@', apostrophes and verbs come from all planes
	seq  bool // sequence stream: Snippets whose iter.Seq is not re-iterable
}

// ---- characters from all over the code space ----
//
// The template scanner decides per RUNE whether it continues a placeholder name ([A-Za-z0-9_]), starts one ('@'),
// delimits one (apostrophe); Sprintf does the same for '%', 'v', 'T'; Comment splits at newlines.  Any other character
// is text, whatever its code point looks like: aliasTargets are the ASCII characters with a role, aliasLifts put each of
// them into the low 7 / 8 / 16 bits of a code point of another block, so that a comparison made on a truncated or masked
// rune (byte(c), uint16(c), c&0x7f, a 128/256-entry table) takes the one for the other.
var aliasTargets = []byte{'A', 'Z', 'a', 'm', 'z', '0', '9', '_', '@', '\'', '%', 'v', 'T', '\n', ' ', '.', 0x00, 0x7f}

var aliasLifts = []rune{
	0x80,     // Latin-1: the low 7 bits are the target ('Á' U+00C1 -> 'A', 'À' U+00C0 -> '@')
	0x100,    // Latin Extended-A: the low byte is the target ('Ł' U+0141 -> 'A', 'ź' U+017A -> 'z')
	0x300,    // combining marks / Greek
	0x400,    // Cyrillic ('с' U+0441)
	0x2000,   // general punctuation (U+2027, U+200A)
	0x5B00,   // CJK ('字' U+5B57, U+5B41, U+5B40)
	0xAC00,   // Hangul
	0xFF00,   // fullwidth forms block
	0x10000,  // astral, the low 16 bits are the target (U+10041)
	0x1F600,  // astral, the low byte is the target (U+1F641)
	0x20000,  // plane 2, low 16 bits
	0x100000, // plane 16, low 16 bits
}

// characters that are letters / digits / connectors / quotes / spaces for Unicode but not for the template syntax,
// case-folding partners of ASCII letters, the ends of the UTF-8 length classes and of the code space
var aliasExtra = []rune{
	'字', '数', '界', 'Ł', 'ź', 'é', 'ü', 'ß', 'π', 'Ж', 'я', '世', '的', '→',
	0xFF20, 0xFF07, 0xFF3F, 0xFF21, 0xFF41, 0xFF10, 0xFF05, // fullwidth @ ' _ A a 0 %
	0x2019, 0x02BC, 0x2032, 0x0660, 0x06F0, 0x0966, 0x212A, 0x017F, 0x0130, 0x0131, 0xAA, 0xB2, 0xB5, 0x2160, 0x203F, 0xFE4F,
	0x0301, 0x200D, 0xA0, 0x2028, 0x2029, 0x85, 0xFFFD, 0x80, 0x7FF, 0x800, 0xD7FF, 0xE000, 0xFFFE, 0xFFFF, 0x10000, 0x10FFFF, 0x1F600,
}

func aliasChars() []rune {
	var out []rune
	seen := map[rune]bool{}
	add := func(c rune) {
		if !seen[c] && c >= 0x80 && utf8.ValidRune(c) && c != 0xFEFF {
			seen[c] = true
			out = append(out, c)
		}
	}
	for _, l := range aliasLifts {
		for _, t := range aliasTargets {
			add(l | rune(t))
		}
	}
	for _, c := range aliasExtra {
		add(c)
	}
	return out
}

var aliasTable = aliasChars()

// fixedWide: every character of aliasTable directly after a placeholder name, after a bare '@', inside what would be a
// longer name (which is bound to another argument), in front of a name, after the apostrophe delimiter, next to the verbs
// of Sprintf; those whose low bits are a newline also in Comment and in front of a template
func fixedWide() []Snip {
	X := block("X")
	one := varg(Val{T: "int", I: 1})
	var out []Snip
	for _, c := range aliasTable {
		ch := string(c)
		out = append(out,
			tpl("@"+ch+"@x"+ch, named("x", X)),
			tpl("@x"+ch+"y'z", named("x", X), named("x"+ch, block("WRONG")), named("x"+ch+"y", block("WRONG")), named("xy", block("WRONG"))),
			tpl(ch+"x@x'"+ch+"'", named("x", X)),
			spf("%v"+ch+"%%"+ch+"v%T"+ch, one, varg(Val{T: "name", S: "Foo"})),
		)
		switch c & 0x7f {
		case '%', 'v', 'T':
			out = append(out, spf("%"+ch, one), spf("a%"+ch+"b", sarg(X)))
		}
		switch c & 0x7f {
		case '\n':
			out = append(out, comment("a"+ch+"b"), tpl("\n"+ch+"\n@x", named("x", X)), tpl(ch+"\n\n@x", named("x", X)))
		}
	}
	for _, c := range []rune{0x2028, 0x2029, 0x85} {
		out = append(out, comment("a"+string(c)+"b"), tpl(string(c)+"\n@x", named("x", X)))
	}
	return out
}

// wideChar: half of the time a character of aliasTable, otherwise a scalar value drawn from a plane class
func (g *gen) wideChar() string {
	r := g.r
	if r.Bool() {
		return string(core.Pick(r, aliasTable))
	}
	for {
		var c rune
		switch r.Intn(6) {
		case 0:
			c = 0x80 + rune(r.Intn(0x80))
		case 1:
			c = 0x100 + rune(r.Intn(0x700))
		case 2:
			c = 0x800 + rune(r.Intn(0x3600))
		case 3:
			c = 0x3400 + rune(r.Intn(0x6C00))
		case 4:
			c = 0xA000 + rune(r.Intn(0x6000))
		default:
			c = 0x10000 + rune(r.Intn(0x100000))
		}
		if utf8.ValidRune(c) && c != 0xFEFF {
			return string(c)
		}
	}
}

// ---- Snippets whose sequence is not re-iterable ----

var seqKinds = []string{"chan", "once", "counter"}

func seqSnips(kind string, l ...Snip) Snip { x := snippets(l...); x.Seq = kind; return x }

// fixedSeq: each kind of sequence at every place where a Snippets is rendered: by Render itself, bound to a placeholder,
// as a part of Snippets (re-iterable or not), behind Fragments, as a Sprintf argument; first part non-nil / nil / empty
func fixedSeq() []Snip {
	a, b, c := block("a;"), block("b;"), block("c;")
	var out []Snip
	for _, k := range seqKinds {
		abc := seqSnips(k, a, b, c)
		out = append(out,
			abc,
			seqSnips(k), seqSnips(k, a), seqSnips(k, nilS(), block(""), a, b), seqSnips(k, nilS()), seqSnips(k, tpl(""), value(Val{T: "nil"})),
			tpl("@x", named("x", abc)),
			tpl("switch {\n@cases'}\n", named("cases", seqSnips(k, tpl("case @n':\n", named("n", block("1"))), tpl("case @n':\n", named("n", block("2")))))),
			tpl("[@x'|@y]", named("x", abc), named("y", seqSnips(k, nilS(), c))),
			tplArgs("@x", named("x", abc)),
			snippets(block("<"), abc, block(">")),
			snippets(abc, seqSnips(k, b)),
			seqSnips(k, block("x"), seqSnips(k, block("y")), block("z")),
			seqSnips(k, seqSnips(k, nilS(), a), seqSnips(k, b)),
			fragments(abc),
			fragments(snippets(abc)),
			tpl("@x", named("x", fragments(abc))),
			spf("%v|%T", sarg(abc), sarg(seqSnips(k, a, b))),
			spf("{%T}", sarg(tpl("@x", named("x", abc)))),
			tpl("@x", named("x", tpl("(@y)", named("y", snippets(abc))))),
			// a placeholder repeated: the argument is rendered twice, so the sequence is taken as a slice (normalizeSeq)
			tpl("@x@x", named("x", abc)),
		)
	}
	return out
}

// seqList: a Snippets over a sequence that is not re-iterable; a third of them start with nil / empty parts
func (g *gen) seqList(depth int) Snip {
	r := g.r
	var l []Snip
	if r.Chance(30) {
		l = append(l, core.Pick(r, []Snip{nilS(), block(""), tpl(""), value(Val{T: "nil"})}))
	}
	n := r.Intn(5)
	for i := 0; i < n; i++ {
		if r.Chance(60) {
			l = append(l, block(core.Pick(r, []string{"a;", "b;", "c;", "x", "\n", "@x", "1:"})))
		} else {
			l = append(l, g.argSnip(depth+1))
		}
	}
	return seqSnips(core.Pick(r, seqKinds), l...)
}

func (g *gen) seqRoot() Snip {
	g.seq = true
	defer func() { g.seq = false }()
	r := g.r
	var s Snip
	switch k := r.Intn(100); {
	case k < 12:
		s = g.seqList(0)
	case k < 30:
		s = tpl(core.Pick(r, []string{"@x", "a@x'b", "@x @y", "\n@y'@x", "(@x)", "@xy@x"}), named("x", g.seqList(1)), named("y", g.argSnip(1)))
	case k < 40:
		s = snippets(g.argSnip(1), g.seqList(1), g.argSnip(1))
	case k < 48:
		s = fragments(g.seqList(1))
	case k < 55:
		s = spf(core.Pick(r, []string{"%v", "%T", "a%vb%T", "%%%v"}), sarg(g.seqList(1)), sarg(g.argSnip(1)))
	default:
		s = g.root()
	}
	normalizeSeq(&s, 1)
	return s
}

func (g *gen) lit() string {
	r := g.r
	if g.wide && r.Chance(35) {
		return g.wideChar()
	}
	switch r.Intn(12) {
	case 0:
		return core.Pick(r, []string{"é", "世", "ü", "😀", " ", "ſ"})
	case 1:
		return core.Pick(r, []string{".", "-", "(", ")", "{", "}", "=", ",", ":", "\"", "`", "\\", "/", "*", "&", "$", "#"})
	case 2:
		return core.Pick(r, []string{" ", "\t", "\n", "\r\n", "  "})
	case 3:
		return core.Pick(r, []string{"'", "''", "%", "%v", "%%", "%T"})
	default:
		return core.Pick(r, []string{"a", "b", "x", "y", "_", "1", "0", "A", "Z", "v", "T", "func ", "return ", "var ", "nil", "x1", "ab"})
	}
}

func (g *gen) val() Val {
	r := g.r
	switch r.Intn(7) {
	case 0:
		return Val{T: "int", I: int64(r.Intn(2000)) - 1000}
	case 1:
		return Val{T: "str", S: core.Pick(r, []string{"", "s", "@x", "%v", "a'b", "q\"q", "é\n", "x y"})}
	case 2:
		return Val{T: "bool", B: r.Bool()}
	case 3:
		return Val{T: "strs", L: []string{"a", "b", "@x"}[:r.Intn(4)]}
	case 4:
		return Val{T: "map", L: []string{"k", "j", "%v"}[:r.Intn(4)]}
	case 5:
		return Val{T: "name", S: core.Pick(r, []string{"Foo", "bar", "T1", "_x"})}
	default:
		return Val{T: "rtype", S: core.Pick(r, []string{"int", "string", "bool", "[]string", "map[string]int"})}
	}
}

// an argument snippet: nil-like / empty / literal / nested template / placeholder-looking
func (g *gen) argSnip(depth int) Snip {
	r := g.r
	if g.rich && r.Chance(55) {
		return g.richLeaf()
	}
	if g.seq && depth < 3 && r.Chance(25) {
		return g.seqList(depth)
	}
	k := r.Intn(100)
	switch {
	case k < 8:
		return nilS()
	case k < 18:
		return core.Pick(r, []Snip{block(""), tpl(""), spf(""), value(Val{T: "nil"}), ident(Val{T: "nil"})})
	case k < 40:
		return block(core.Pick(r, []string{"X", "lit", "a b", "\n", "é", "0", "long literal text"}))
	case k < 55:
		return block(core.Pick(r, []string{"@x", "@y'", "%v", "%%", "@", "'", "@x'@y", "%T%v", "@@", "a@b"}))
	case k < 75 && depth < 3:
		return g.template(depth + 1)
	case k < 82 && depth < 3:
		return g.sprintf(depth + 1)
	case k < 86:
		return comment(core.Pick(r, []string{"c", "a\nb", ""}))
	case k < 90 && depth < 3:
		if depth < 2 && r.Chance(30) {
			return g.sharedList(depth)
		}
		n := r.Intn(4)
		var l []Snip
		for i := 0; i < n; i++ {
			l = append(l, g.argSnip(depth+1))
		}
		return snippets(l...)
	case k < 93:
		return value(g.val())
	case k < 96:
		return ident(Val{T: "name", S: core.Pick(r, []string{"Foo", "bar"})})
	case k < 98 && depth < 3:
		return fragments(g.argSnip(depth + 1))
	default:
		return directive("embed", "f.txt")
	}
}

func (g *gen) template(depth int) Snip {
	r := g.r
	var b strings.Builder
	used := map[string]bool{}
	if r.Chance(25) {
		b.WriteString(strings.Repeat("\n", 1+r.Intn(3)))
	}
	n := r.Intn(9)
	for i := 0; i < n; i++ {
		k := r.Intn(100)
		switch {
		case k < 38:
			nm := core.Pick(r, names)
			used[nm] = true
			b.WriteString("@" + nm)
			if g.wide && r.Chance(60) { // a character that is not a name character directly after the name
				c := g.wideChar()
				b.WriteString(c)
				if r.Chance(25) { // what a scanner that takes it for one would look up
					used[nm+c] = true
				}
				if r.Chance(30) {
					b.WriteString(core.Pick(r, []string{"'", "y", "_", "1", c}))
				}
				continue
			}
			switch t := r.Intn(100); {
			case t < 35:
				b.WriteString("'")
				if r.Chance(15) {
					b.WriteString("'")
				}
			case t < 45: // name characters directly after the name: a longer name (bound below, most of the time)
				c := core.Pick(r, []string{"z", "9", "_", "Q"})
				b.WriteString(c)
				delete(used, nm)
				used[nm+c] = true
				b.WriteString(core.Pick(r, []string{" ", ".", "'", ")"}))
			case t < 92: // a terminator that is not a name character
				b.WriteString(core.Pick(r, []string{" ", ".", ",", ")", "(", "\n", "-", ":", "=", "é", "\t", "{"}))
			default: // nothing: the next piece may extend the name or start another placeholder
			}
		case k < 44:
			if g.wide && r.Chance(70) {
				b.WriteString("@" + g.wideChar())
				continue
			}
			b.WriteString(core.Pick(r, []string{"@@", "@ ", "@'", "@.", "@-", "@\n", "@é", "@%"}))
		default:
			b.WriteString(g.lit())
		}
	}
	if r.Chance(8) {
		b.WriteString("@")
	}
	f := b.String()
	// bindings: the names used (a few left unbound), plus unused ones
	var args []Arg
	// shared: the template is given a whole argument set (as a generator that keeps one snippet.Args value for several
	// texts does): every name of the pool is bound, most of them are not mentioned by this format
	shared := r.Chance(12)
	for _, nm := range names {
		if used[nm] {
			if r.Chance(2) {
				continue // unbound: must panic
			}
			if r.Chance(6) { // a probe in a placeholder position: rendered, yields its text or panics
				args = append(args, named(nm, g.probe()))
				continue
			}
			args = append(args, named(nm, g.argSnip(depth)))
		} else if shared || r.Chance(22) {
			// a binding the format does not mention: it must not be rendered at all - probes record / panic if they
			// are, the other kinds include arguments that would panic (unbound placeholders, %v without argument)
			if r.Chance(60) {
				args = append(args, named(nm, g.probe()))
			} else {
				args = append(args, named(nm, g.argSnip(depth)))
			}
		}
	}
	for nm := range map[string]bool{} {
		_ = nm
	}
	// longer names created by maximal munch are bound sometimes
	for nm := range used {
		known := false
		for _, k := range names {
			if k == nm {
				known = true
			}
		}
		if !known && r.Chance(85) {
			args = append(args, named(nm, g.argSnip(depth)))
		}
	}
	sortArgs(args)
	if len(args) > 1 && r.Chance(10) { // a later binding overrides an earlier one
		dup := args[r.Intn(len(args))]
		s := g.argSnip(depth)
		dup.S = &s
		args = append(args, dup)
	}
	t := tpl(f, args...)
	if r.Chance(25) {
		g.viaArgsMap(&t, depth)
	}
	return t
}

// the bindings are handed to T in one snippet.Args map, and (mostly) the caller writes to that map afterwards: rebinds,
// deletes or adds names the format mentions, or others
func (g *gen) viaArgsMap(t *Snip, depth int) {
	r := g.r
	t.Mode = "args"
	if r.Chance(10) {
		t.Mode = "args+"
	}
	if r.Chance(25) {
		return
	}
	var pool []string // names bound at construction, names the format may mention, the name pool
	for i := range t.Args {
		pool = append(pool, t.Args[i].N, t.Args[i].N)
	}
	pool = append(pool, names...)
	n := 1 + r.Intn(3)
	if r.Chance(10) { // the caller empties the map for its next use
		for i := range t.Args {
			t.Mut = append(t.Mut, del(t.Args[i].N))
		}
		n = r.Intn(2)
	}
	for i := 0; i < n; i++ {
		nm := core.Pick(r, pool)
		switch k := r.Intn(100); {
		case k < 30:
			t.Mut = append(t.Mut, del(nm))
		case k < 60:
			t.Mut = append(t.Mut, set(nm, g.probe()))
		case k < 65:
			t.Mut = append(t.Mut, Mut{N: nm})
		default:
			t.Mut = append(t.Mut, set(nm, g.argSnip(depth+2)))
		}
	}
}

// a list of templates built one after the other from ONE Args map (a generator's loop), rendered afterwards
func (g *gen) sharedList(depth int) Snip {
	r := g.r
	n := 2 + r.Intn(3)
	var l []Snip
	var f0 *Snip
	for i := 0; i < n; i++ {
		if r.Chance(15) {
			l = append(l, g.argSnip(depth+1))
			continue
		}
		t := g.template(depth + 1)
		if f0 != nil && r.Chance(50) { // the same text again with other bindings of the same names
			t = *f0
			t.Args = append([]Arg{}, f0.Args...)
			for j := range t.Args {
				if r.Chance(70) {
					x := g.argSnip(depth + 2)
					t.Args[j].S = &x
				}
			}
		}
		t.Mode, t.Mut = "args", nil
		if r.Chance(10) {
			t.Mode = "args+"
		}
		if f0 == nil {
			c := t
			f0 = &c
		}
		l = append(l, t)
	}
	return shareArgs(l...)
}

func (g *gen) probe() Snip {
	return probeS(core.Pick(g.r, []string{"P", "", "@x", "probe text", "%v", "\n"}), g.r.Chance(50))
}

// map iteration above is random: make the input deterministic for a seed
func sortArgs(a []Arg) {
	for i := 1; i < len(a); i++ {
		for j := i; j > 0 && a[j].N < a[j-1].N; j-- {
			a[j], a[j-1] = a[j-1], a[j]
		}
	}
}

func (g *gen) sprintf(depth int) Snip {
	r := g.r
	var b strings.Builder
	var verbs []byte
	n := r.Intn(8)
	for i := 0; i < n; i++ {
		k := r.Intn(100)
		switch {
		case k < 25:
			b.WriteString("%v")
			verbs = append(verbs, 'v')
		case k < 40:
			b.WriteString("%T")
			verbs = append(verbs, 'T')
		case k < 55:
			b.WriteString("%%")
		case k < 57:
			if g.wide {
				b.WriteString("%" + g.wideChar())
				continue
			}
			b.WriteString(core.Pick(r, []string{"%d", "%s", "% ", "%é", "%'", "%@"}))
		default:
			l := g.lit()
			if strings.Contains(l, "%") {
				l = "@x'"
			}
			b.WriteString(l)
		}
	}
	if r.Chance(2) {
		b.WriteString("%")
	}
	f := b.String()
	switch r.Intn(20) {
	case 0:
		if len(verbs) > 0 {
			verbs = verbs[:len(verbs)-1] // one argument too few
		}
	case 1:
		verbs = append(verbs, 'v') // one argument too many
	}
	var args []Arg
	for _, vb := range verbs {
		switch {
		case g.rich && r.Chance(60):
			args = append(args, varg(g.richVal(vb)))
		case r.Chance(35) && depth < 3:
			s := g.argSnip(depth + 1)
			if s.K == "nil" {
				s = block("")
			}
			args = append(args, sarg(s))
		case vb == 'T' && r.Chance(90): // something ID() supports
			if r.Bool() {
				args = append(args, varg(Val{T: "name", S: core.Pick(r, []string{"Foo", "bar", "T1", "_x"})}))
			} else {
				args = append(args, varg(Val{T: "rtype", S: core.Pick(r, []string{"int", "string", "bool", "[]string", "map[string]int"})}))
			}
		default:
			args = append(args, varg(g.val()))
		}
	}
	return spf(f, args...)
}

func (g *gen) root() Snip {
	r := g.r
	k := r.Intn(100)
	switch {
	case k < 52:
		return g.template(0)
	case k < 76:
		return g.sprintf(0)
	case k < 82:
		n := r.Intn(4)
		var ls []string
		for i := 0; i < n; i++ {
			ls = append(ls, core.Pick(r, []string{"", "a", "line two", "@x %v", "é", " ", "// x", "\r"}))
		}
		return comment(strings.Join(ls, "\n"))
	case k < 87:
		n := r.Intn(4)
		var as []string
		for i := 0; i < n; i++ {
			as = append(as, core.Pick(r, []string{"", "a", "b.txt", "-tags x", "é"}))
		}
		return directive(core.Pick(r, []string{"embed", "generate", "build", "", "x y"}), as...)
	case k < 94:
		if r.Chance(50) {
			return g.sharedList(0)
		}
		n := r.Intn(5)
		var l []Snip
		for i := 0; i < n; i++ {
			l = append(l, g.argSnip(0))
		}
		return snippets(l...)
	case k < 97:
		return fragments(g.argSnip(0))
	default:
		return g.argSnip(0)
	}
}

// withBOM puts lead (U+FEFF, once or twice, or nothing) at the start of the format of a template (after the leading
// newlines T trims, adding some in half of the cases that have none) or of a Sprintf, and with inside (always when
// lead is empty) one more U+FEFF at a rune boundary further on
func (g *gen) withBOM(s Snip, lead string, inside bool) Snip {
	r := g.r
	f := string(s.S)
	nl := 0
	if s.K == "t" {
		nl = len(f) - len(strings.TrimLeft(f, "\n"))
		if nl == 0 && r.Bool() {
			nl = 1 + r.Intn(2)
			f = strings.Repeat("\n", nl) + f
		}
	}
	rest := f[nl:]
	if inside || lead == "" {
		i := r.Intn(len(rest) + 1)
		for i < len(rest) && !utf8.RuneStart(rest[i]) {
			i++
		}
		rest = rest[:i] + bomS + rest[i:]
	}
	s.S = []byte(f[:nl] + lead + rest)
	s.Q = strconv.Quote(string(s.S))
	return s
}

// U+FEFF in a format: at the start (60% once, 20% twice, 10% U+FEFF newline U+FEFF) and / or inside
func (g *gen) bomFormat(s Snip) Snip {
	r := g.r
	lead := core.Pick(r, []string{bomS, bomS, bomS, bomS, bomS, bomS, bomS + bomS, bomS + bomS, bomS + "\n" + bomS, ""})
	return g.withBOM(s, lead, r.Chance(30))
}

// malformed stream: invalid UTF-8 in a format, an untyped nil handed to %v; and (inside the domain since
// fixes/C09-5-leading-bom.diff, kept in this stream) formats that start with U+FEFF
func (g *gen) malformed() Snip {
	r := g.r
	switch r.Intn(10) {
	case 0, 1, 2: // U+FEFF at the start of a format (T: after the trimmed newlines), doubled, inside
		if r.Bool() {
			return g.bomFormat(g.template(1))
		}
		return g.bomFormat(g.sprintf(3)) // depth 3: no nested snippets
	case 3, 4: // untyped nil as a plain Sprintf argument
		return spf(core.Pick(r, []string{"%v", "a%vb", "%T", "%v%v", "x"}), varg(Val{T: "nil"}), varg(g.val()))
	default:
		t := g.template(2)
		f := []byte(string(t.S))
		m := 1 + r.Intn(3)
		for j := 0; j < m; j++ {
			pos := r.Intn(len(f) + 1)
			bad := core.Pick(r, []string{"\xff", "\x80", "\xc3", "\xe1\x80", "\xed\xa0\x80", "\xf4\x90\x80\x80", "\xc0\xaf", "\xef\xbb"})
			f = append(f[:pos:pos], append([]byte(bad), f[pos:]...)...)
		}
		if utf8.Valid(f) {
			f = append(f, 0xff)
		}
		if r.Chance(30) {
			s := g.sprintf(3)
			return spf(string(f)+string(s.S), s.Args...)
		}
		return tpl(string(f), t.Args...)
	}
}

// ---- RenderStack stream: the leaves refer to packages (values of named types of other packages, references with
// clashing / std / keyword / generic paths, reflect.Types, PkgExpose); compared with the composed model through the
// model of the import tracker, text AND Imports() ----

var refPool = []string{
	"time.Duration", "time.Time", "net/url.URL", "net/http.Client", "math/rand.Rand", "crypto/rand.Reader", "text/template.Template", "html/template.Template",
	"example.com/x.Own", "verifharness/c10types.Inner", "image.Point",
	"a.com/foo-bar.T", "b.org/foo_bar.X", "a.com/foobar.Y", "a.com/foo-bar.U",
	"github.com/json-iterator/go.API", "example.com/x/string.S", "example.com/2fa.T", "example.com/x/type.K", "example.com/de-fer.D",
	"k8s.io/api/core/v1.Pod", "k8s.io/api/apps/v1.Deployment", "example.com/apis/meta/v1.ObjectMeta", "example.com/domain/user.User", "example.com/user.User",
	"example.com/o.List[a.com/foo-bar.T]", "example.com/o.Map[string,example.com/x.Own]", "example.com/o.Map[b.org/foo_bar.X,time.Time]",
	"example.com/o.List[example.com/o.Pair[time.Time,b.org/foo_bar.X]]", "example.com/x.Gen[a.com/foobar.Y,example.com/x.Own]",
	"example.com/o.List[example.com/o.Pair[example.com/o.Pair[int,string],a.com/foobar.Y]]",
	// head and argument packages want the same name: the order "arguments first, then the head" decides
	"b.org/foo_bar.X[a.com/foo-bar.T]", "a.com/foo-bar.List[b.org/foo_bar.X,a.com/foobar.Y]", "k8s.io/api/core/v1.List[k8s.io/api/apps/v1.Deployment]",
	"example.com/user.Repo[example.com/domain/user.User]",
	"Foo", "int", "error", "x.y", ".T", "p.L[a",
}

var selfPool = []string{defaultSelf, defaultSelf, "verifharness/c10types", "time", "a.com/foo-bar", "example.com/o"}

func c10Val(r *core.RNG) Val {
	t, v := c10.GenPair(r, 1+r.Intn(3))
	return Val{T: "c10", CT: &t, CV: &v}
}

func c10Type(r *core.RNG) Val {
	t, _ := c10.GenPair(r, 1+r.Intn(2))
	return Val{T: "c10t", CT: &t}
}

func (g *gen) richLeaf() Snip {
	r := g.r
	switch k := r.Intn(100); {
	case k < 38:
		return value(c10Val(r))
	case k < 70:
		return ident(Val{T: "name", S: core.Pick(r, refPool)})
	case k < 80:
		return ident(c10Type(r))
	case k < 92:
		ref := core.Pick(r, refPool[:25])
		i := strings.LastIndex(ref, ".")
		return expose(ref[:i], ref[i+1:])
	case k < 96:
		return core.Pick(r, []Snip{value(Val{T: "nil"}), ident(Val{T: "nil"})})
	}
	return ident(Val{T: "int", I: 1})
}

func (g *gen) richVal(verb byte) Val {
	r := g.r
	if verb == 'T' {
		switch k := r.Intn(10); {
		case k < 6:
			return Val{T: "name", S: core.Pick(r, refPool)}
		case k < 9:
			return c10Type(r)
		}
		return g.val()
	}
	if r.Chance(80) {
		return c10Val(r)
	}
	return g.val()
}

func (g *gen) richRoot() Snip {
	g.rich = true
	defer func() { g.rich = false }()
	r := g.r
	var s Snip
	switch k := r.Intn(100); {
	case k < 45:
		s = g.template(0)
	case k < 75:
		s = g.sprintf(0)
	case k < 90:
		n := 1 + r.Intn(4)
		var l []Snip
		for i := 0; i < n; i++ {
			l = append(l, g.argSnip(1))
		}
		s = snippets(l...)
	default:
		s = g.richLeaf()
	}
	if (s.K == "t" || s.K == "sprintf") && r.Chance(4) {
		s = g.bomFormat(s)
	}
	s.Self = core.Pick(r, selfPool)
	return s
}

func orderVal(zeroA bool) Val {
	a, b := c10.Named("c10alt.Tag"), c10.Named("c10types.Inner")
	t := c10.StructOf([]string{"A", "B"}, []c10.TypeJ{a, b})
	va, vb := c10.NonZero(&a), c10.NonZero(&b)
	if zeroA {
		va = c10.ZeroVal(&a)
	} else {
		vb = c10.ZeroVal(&b)
	}
	v := c10.FieldsVal(va, vb)
	return Val{T: "c10", CT: &t, CV: &v}
}

func withSelf(self string, s Snip) Snip { s.Self = self; return s }

// fixed corner cases of the RenderStack stream
func fixedRich() []Snip {
	cv := func(name string, zero bool) Val {
		t := c10.Named(name)
		v := c10.NonZero(&t)
		if zero {
			v = c10.ZeroVal(&t)
		}
		return Val{T: "c10", CT: &t, CV: &v}
	}
	ref := func(s string) Snip { return ident(Val{T: "name", S: s}) }
	return []Snip{
		// a zero-valued field of a named struct type of another package is omitted: its package must not be imported
		withSelf("verifharness/c10types", value(cv("c10types.Box", true))),
		withSelf(defaultSelf, value(cv("c10types.Box", true))),
		withSelf(defaultSelf, value(cv("c10types.Wrap", true))),
		withSelf(defaultSelf, value(cv("c10alt.Frame", true))),
		// order of registration inside a value: the type literal of the struct (A's package first) BEFORE the fields
		// (only B is rendered); both packages are called c10types
		withSelf(defaultSelf, value(orderVal(true))),
		withSelf(defaultSelf, value(orderVal(false))),
		withSelf(defaultSelf, value(cv("c10types.Box", false))),
		withSelf(defaultSelf, value(cv("c10types.Wrap", false))),
		withSelf("verifharness/c10types", spf("var _ = %v", varg(cv("c10types.Wrap", false)))),
		// a bound argument that no placeholder mentions registers nothing; one mentioned twice is rendered twice
		tpl("@x @x", named("x", ref("a.com/b.T")), named("y", ref("a.com/c.T"))),
		// clashing candidate names: the order of rendering decides who gets the short name
		tpl("@x @y @x", named("x", ref("a.com/foo-bar.T")), named("y", ref("b.org/foo_bar.X"))),
		tpl("@y @x", named("x", ref("a.com/foo-bar.T")), named("y", ref("b.org/foo_bar.X"))),
		ref("b.org/foo_bar.X[a.com/foo-bar.T]"),
		spf("%T|%v|%T", varg(Val{T: "name", S: "a.com/b.T"}), varg(Val{T: "str", S: "a.com/b.T"}), varg(Val{T: "name", S: "c.org/b.T"})),
		spf("%T %T", varg(Val{T: "name", S: "math/rand.Rand"}), varg(Val{T: "name", S: "crypto/rand.Reader"})),
		tpl("var _ @t = @v", named("t", ref("example.com/o.Map[b.org/foo_bar.X,time.Time]")), named("v", value(cv("time.Duration", false)))),
		withSelf("example.com/o", ref("example.com/o.Map[b.org/foo_bar.X,example.com/o.Own]")),
		snippets(expose("net/http", "Get"), block(" "), expose("example.com/http", "Get"), block(" "), ref("example.com/x/string.S"), block(" "), ref("github.com/json-iterator/go.API")),
		spf("%T", varg(Val{T: "c10t", CT: func() *c10.TypeJ { t := c10.Named("c10types.Wrap"); return &t }()})),
		withSelf("time", spf("%v %T", varg(cv("time.Duration", false)), varg(Val{T: "name", S: "time.Time"}))),
	}
}

func (prop) Generate(r *core.RNG, tier string) []json.RawMessage {
	n := 4000
	if tier == "thorough" {
		n = 15000
	}
	var out []json.RawMessage
	for _, s := range fixed() {
		out = append(out, enc(s))
	}
	for _, s := range fixedRich() {
		out = append(out, enc(s))
	}
	g := &gen{r: r}
	for i := 0; i < n; i++ {
		if r.Chance(10) {
			out = append(out, enc(g.malformed()))
		} else {
			out = append(out, enc(g.root()))
		}
	}
	// a few long formats: text/scanner refills its 1024-byte buffer
	for i := 0; i < 3; i++ {
		var b strings.Builder
		for b.Len() < 1000+r.Intn(60) {
			b.WriteString(core.Pick(r, []string{"é", "世", "a", "@x", "@x'", " ", "😀"}))
		}
		b.WriteString("世界@x'é")
		f := b.String()
		if i == 2 { // ... and the U+FEFF the repaired code puts in front shifts every rune of the format by three bytes
			f = bomS + f
		}
		out = append(out, enc(tpl(f, named("x", block("X")))))
	}
	{ // the RenderStack stream (its own fork of the RNG: the classic stream of a seed is unchanged)
		gr := &gen{r: r.Fork()}
		m := 500
		if tier == "thorough" {
			m = 4000
		}
		for i := 0; i < m; i++ {
			out = append(out, enc(gr.richRoot()))
		}
	}
	{ // characters from all over the code space next to the syntax (own fork of the RNG)
		for _, s := range fixedWide() {
			out = append(out, enc(s))
		}
		gw := &gen{r: r.Fork(), wide: true}
		m := 400
		if tier == "thorough" {
			m = 4000
		}
		for i := 0; i < m; i++ {
			if gw.r.Chance(75) {
				out = append(out, enc(gw.template(0)))
			} else {
				out = append(out, enc(gw.root()))
			}
		}
	}
	{ // Snippets over sequences that are not re-iterable (own fork of the RNG)
		for _, s := range fixedSeq() {
			out = append(out, enc(s))
		}
		gs := &gen{r: r.Fork()}
		m := 400
		if tier == "thorough" {
			m = 4000
		}
		for i := 0; i < m; i++ {
			out = append(out, enc(gs.seqRoot()))
		}
	}
	if tier == "thorough" {
		out = append(out, exhaustive()...)
	}
	return out
}

// every template format of length <= 5 over {a x @ ' % \n _ space} under three binding environments,
// every Sprintf format of length <= 5 over {a % v T @ '} with three argument lists
func exhaustive() []json.RawMessage {
	var out []json.RawMessage
	X := block("X")
	e := block("")
	envs := [][]Arg{
		{named("a", e), named("x", X), named("aa", block("AA")), named("ax", block("@x'")), named("xa", nilS()), named("xx", tpl("<@a'@x>", named("a", e), named("x", block("%v")))),
			named("_", block("U")), named("a_", e), named("x_", X), named("_a", X), named("_x", e), named("__", X)},
		{named("x", nilS()), named("a", block("@x'"))},
		{named("x", tpl("[@a]", named("a", block("%v")))), named("a", value(Val{T: "nil"}))},
	}
	syms := []string{"a", "x", "@", "'", "%", "\n", "_", " "}
	var rec func(prefix string, d int)
	rec = func(prefix string, d int) {
		for i, env := range envs {
			if i == 2 && d == 5 { // the third environment up to length 4 only (volume)
				continue
			}
			out = append(out, enc(tpl(prefix, env...)))
		}
		if d == 5 {
			return
		}
		for _, s := range syms {
			rec(prefix+s, d+1)
		}
	}
	rec("", 0)
	ssyms := []string{"a", "%", "v", "T", "@", "'"}
	sargs := [][]Arg{
		{},
		{varg(Val{T: "int", I: 1})},
		{sarg(block("@x%v")), varg(Val{T: "name", S: "Foo"}), varg(Val{T: "str", S: "%%"})},
	}
	var srec func(prefix string, d int)
	srec = func(prefix string, d int) {
		for _, as := range sargs {
			out = append(out, enc(spf(prefix, as...)))
		}
		if d == 5 {
			return
		}
		for _, s := range ssyms {
			srec(prefix+s, d+1)
		}
	}
	srec("", 0)
	return out
}

// ---- shrinking ----

func dropRunes(s string) []string {
	var out []string
	if len(s) > 3 {
		out = append(out, s[:len(s)/2], s[len(s)/2:])
	}
	for i := 0; i < len(s); {
		_, n := utf8.DecodeRuneInString(s[i:])
		out = append(out, s[:i]+s[i+n:])
		i += n
	}
	return out
}

// candidates strictly smaller than s
func shrinkSnip(s Snip) []Snip {
	var out []Snip
	// replace by a child
	for i := range s.Args {
		if s.Args[i].S != nil {
			out = append(out, *s.Args[i].S)
		}
	}
	for i := range s.L {
		out = append(out, s.L[i])
	}
	// drop an argument / element
	for i := range s.Args {
		c := s
		c.Args = append(append([]Arg{}, s.Args[:i]...), s.Args[i+1:]...)
		out = append(out, c)
	}
	if s.K == "snippets" {
		for i := range s.L {
			c := s
			c.L = append(append([]Snip{}, s.L[:i]...), s.L[i+1:]...)
			out = append(out, c)
		}
	}
	for i := range s.Strs {
		c := s
		c.Strs = append(append([]string{}, s.Strs[:i]...), s.Strs[i+1:]...)
		out = append(out, c)
	}
	// later writes to the Args map: drop one, simplify what is stored; hand the bindings over one by one; own map per template
	for i := range s.Mut {
		c := s
		c.Mut = append(append([]Mut{}, s.Mut[:i]...), s.Mut[i+1:]...)
		out = append(out, c)
		if s.Mut[i].S != nil && !(s.Mut[i].S.K == "block" && len(s.Mut[i].S.S) <= 1) {
			c := s
			c.Mut = append([]Mut{}, s.Mut...)
			c.Mut[i] = set(s.Mut[i].N, block("L"))
			out = append(out, c)
		}
	}
	if s.Mode != "" && len(s.Mut) == 0 {
		c := s
		c.Mode = ""
		out = append(out, c)
	}
	if s.Mode == "args+" {
		c := s
		c.Mode = "args"
		out = append(out, c)
	}
	if s.Share {
		c := s
		c.Share = false
		out = append(out, c)
	}
	if s.Seq != "" {
		c := s
		c.Seq = ""
		out = append(out, c)
	}
	// shorten the text
	for _, t := range dropRunes(string(s.S)) {
		c := mk(s.K, t)
		c.Args, c.Strs, c.L, c.V, c.P, c.N, c.Pan, c.Self = s.Args, s.Strs, s.L, s.V, s.P, s.N, s.Pan, s.Self
		c.Mode, c.Mut, c.Share, c.Seq = s.Mode, s.Mut, s.Share, s.Seq
		out = append(out, c)
	}
	// simplify a child: to an empty block, to a literal block, or recursively
	for i := range s.Args {
		if s.Args[i].S == nil {
			continue
		}
		ch := *s.Args[i].S
		var cands []Snip
		if !(ch.K == "block" && len(ch.S) <= 1) && ch.K != "nil" {
			cands = append(cands, block("X"), block(""))
		}
		cands = append(cands, shrinkSnip(ch)...)
		for _, cc := range cands {
			cc := cc
			c := s
			c.Args = append([]Arg{}, s.Args...)
			c.Args[i].S = &cc
			out = append(out, c)
		}
	}
	for i := range s.L {
		ch := s.L[i]
		var cands []Snip
		if !(ch.K == "block" && len(ch.S) <= 1) && ch.K != "nil" {
			cands = append(cands, block("X"), block(""))
		}
		cands = append(cands, shrinkSnip(ch)...)
		for _, cc := range cands {
			c := s
			c.L = append([]Snip{}, s.L...)
			c.L[i] = cc
			out = append(out, c)
		}
	}
	return out
}

func size(s *Snip) int {
	n := 1 + len(s.S) + len(s.Strs) + len(s.Mode) + len(s.Seq)
	if s.Share {
		n++
	}
	for i := range s.Mut {
		n += 2 + len(s.Mut[i].N)
		if s.Mut[i].S != nil {
			n += size(s.Mut[i].S)
		}
	}
	for _, a := range s.Strs {
		n += len(a)
	}
	for i := range s.Args {
		n += 1 + len(s.Args[i].N)
		if s.Args[i].S != nil {
			n += size(s.Args[i].S)
		}
	}
	for i := range s.L {
		n += size(&s.L[i])
	}
	return n
}

func (prop) Shrink(in json.RawMessage) []json.RawMessage {
	var s Snip
	if json.Unmarshal(in, &s) != nil {
		return nil
	}
	var out []json.RawMessage
	base := size(&s)
	seen := map[string]bool{}
	for _, c := range shrinkSnip(s) {
		if size(&c) >= base {
			continue
		}
		b := enc(c)
		if seen[string(b)] {
			continue
		}
		seen[string(b)] = true
		out = append(out, b)
	}
	return out
}

// Extra only reports, for the evidence, whether the small-scope enumeration was part of the run.
func (prop) Extra(_ *core.RNG, tier string, _ string) ([]string, []string, map[string]any) {
	if tier != "thorough" {
		return nil, nil, map[string]any{"exhaustive": false}
	}
	return nil, nil, map[string]any{
		"exhaustive":       true,
		"exhaustive_scope": "every T format of length <= 5 over {a x @ ' % \\n _ space} x 2 binding environments (3 up to length 4); every Sprintf format of length <= 5 over {a % v T @ '} x 3 argument lists",
	}
}
