package c09

// The snippet code is pure and total today, but a change to it can make rendering recurse or loop
// forever (e.g. re-scanning argument text), and a Go stack overflow kills the whole process.  So the
// real code runs in persistent supervised worker processes (`vh c09-worker`, one per parallel slot,
// JSON lines over pipes): a worker that dies or does not answer in time turns into a failing CASE
// (with a replay) instead of a failing harness.

import (
	"bufio"
	"bytes"
	"encoding/json"
	"fmt"
	"io"
	"os"
	"os/exec"
	"runtime/debug"
	"time"

	"verifharness/internal/core"
)

func init() { core.Children["c09-worker"] = workerMain }

type wire struct {
	core.Result
	Coq string `json:"coq"`
}

func workerMain(_ []string) int {
	debug.SetMaxStack(256 << 20) // die fast on runaway recursion
	rd := bufio.NewReaderSize(os.Stdin, 1<<20)
	wr := bufio.NewWriter(os.Stdout)
	for {
		line, err := rd.ReadBytes('\n')
		if len(bytes.TrimSpace(line)) > 0 {
			res := runLocal(json.RawMessage(bytes.TrimSpace(line)))
			b, _ := json.Marshal(wire{Result: res, Coq: res.Coq})
			wr.Write(b)
			wr.WriteByte('\n')
			wr.Flush()
		}
		if err != nil {
			return 0
		}
	}
}

type worker struct {
	cmd *exec.Cmd
	in  io.WriteCloser
	out *bufio.Reader
}

var idle = make(chan *worker, 64)

func startWorker() (*worker, error) {
	exe, err := os.Executable()
	if err != nil {
		return nil, err
	}
	cmd := exec.Command(exe, "c09-worker")
	cmd.Stderr = io.Discard
	in, err := cmd.StdinPipe()
	if err != nil {
		return nil, err
	}
	out, err := cmd.StdoutPipe()
	if err != nil {
		return nil, err
	}
	if err := cmd.Start(); err != nil {
		return nil, err
	}
	return &worker{cmd: cmd, in: in, out: bufio.NewReaderSize(out, 1<<20)}, nil
}

func (w *worker) kill() {
	_ = w.in.Close()
	_ = w.cmd.Process.Kill()
	_, _ = w.cmd.Process.Wait()
}

func (w *worker) do(in []byte) (core.Result, error) {
	type answer struct {
		line []byte
		err  error
	}
	ch := make(chan answer, 1)
	go func() {
		if _, err := w.in.Write(append(in, '\n')); err != nil {
			ch <- answer{nil, err}
			return
		}
		line, err := w.out.ReadBytes('\n')
		ch <- answer{line, err}
	}()
	select {
	case a := <-ch:
		if a.err != nil {
			return core.Result{}, fmt.Errorf("worker died: %v", a.err)
		}
		var wr wire
		if err := json.Unmarshal(a.line, &wr); err != nil {
			return core.Result{}, fmt.Errorf("bad answer: %v", err)
		}
		wr.Result.Coq = wr.Coq
		return wr.Result, nil
	case <-time.After(30 * time.Second):
		return core.Result{}, fmt.Errorf("no answer within 30 s")
	}
}

func (prop) Run(in json.RawMessage, _ string) core.Result {
	var compact bytes.Buffer
	if err := json.Compact(&compact, in); err != nil {
		return core.Result{Notes: []string{"bad input: " + err.Error()}}
	}
	var w *worker
	select {
	case w = <-idle:
	default:
		var err error
		if w, err = startWorker(); err != nil {
			return runLocal(in) // no child processes available: unsupervised
		}
	}
	res, err := w.do(compact.Bytes())
	if err != nil {
		w.kill()
		return core.Result{
			Observed:     map[string]string{"crash": err.Error()},
			GoViolations: []string{"rendering this snippet killed the process (fatal error such as stack exhaustion) or did not return: " + err.Error()},
			Nontrivial:   true,
			Tags:         []string{"crash"},
		}
	}
	select {
	case idle <- w:
	default:
		w.kill()
	}
	return res
}
