package c09

// RenderStack: the structured twin of a snippet term.  Every Value / ID / PkgExpose leaf and every plain Sprintf
// argument is sent to Coq as a value of C10's universe, a type view of C11 or a reference string of C15, so that
// the composed model (Model/RenderStack.v) renders the whole term through the model of the import tracker (C03) and
// is compared with the real text AND with ImportTracker.Imports().

import (
	"fmt"
	"sort"
	"strconv"
	"strings"

	"verifharness/internal/c10"
	"verifharness/internal/core"
)

type stackInfo struct {
	self   string
	quotes map[string]string
	tags   map[string]bool
}

func (st *stackInfo) tag(t string) {
	if st.tags == nil {
		st.tags = map[string]bool{}
	}
	st.tags[t] = true
}

func (st *stackInfo) quote(s string) { st.quotes[s] = strconv.Quote(s) }

func importsTerm(m map[string]string) string {
	var ks []string
	for k := range m {
		ks = append(ks, k)
	}
	sort.Strings(ks)
	var items []string
	for _, k := range ks {
		items = append(items, "("+core.Hex(k)+", "+core.Hex(m[k])+")")
	}
	return core.CoqList(items)
}

// (gotype, goval fl) of a plain value; ok=false: outside the model's universe
func (st *stackInfo) valTerm(v *Val) (t, x string, isStr bool, ok bool) {
	switch v.T {
	case "int":
		return "(TInt KInt)", fmt.Sprintf("(VInt (%d)%%Z)", v.I), false, true
	case "str", "name":
		st.quote(v.S)
		return "TString", "(VStr " + core.Hex(v.S) + ")", true, true
	case "bool":
		return "TBool", "(VBool " + core.CoqBool(v.B) + ")", false, true
	case "strs":
		var xs []string
		for _, s := range v.L {
			st.quote(s)
			xs = append(xs, "(VStr "+core.Hex(s)+")")
		}
		return "(TSlice TString)", "(VSlice false " + core.CoqList(xs) + ")", false, true
	case "map":
		var xs []string
		seen := map[string]bool{}
		for i := len(v.L) - 1; i >= 0; i-- { // m[k] = i: the last write of a repeated key wins
			k := v.L[i]
			if seen[k] {
				continue
			}
			seen[k] = true
			st.quote(k)
			xs = append([]string{fmt.Sprintf("(VStr %s, VInt %d%%Z)", core.Hex(k), i)}, xs...)
		}
		return "(TMap TString (TInt KInt))", "(VMap false " + core.CoqList(xs) + ")", false, true
	case "c10":
		if v.CT == nil || v.CV == nil || !c10.InDomain(v.CT, v.CV) {
			return "", "", false, false
		}
		if _, err := c10.Build(v.CT, v.CV); err != nil {
			return "", "", false, false
		}
		acc := map[string]bool{}
		c10.StringsOf(v.CT, v.CV, acc)
		for s := range acc {
			st.quote(s)
		}
		st.tag("stack:c10-value")
		return c10.CoqType(v.CT), c10.CoqVal(v.CT, v.CV), v.CT.K == "string", true
	}
	return "", "", false, false
}

// the view ident.Frag gets of a reflect.Type argument
func (st *stackInfo) typeTerm(v *Val) (string, bool) {
	switch v.T {
	case "rtype":
		o := func(s string) string { return "(TL.VOther (bs \"" + s + "\"))" }
		switch v.S {
		case "string", "bool":
			return "(TL.IdR " + o(v.S) + ")", true
		case "[]string":
			return "(TL.IdR (TL.VSlice " + o("string") + "))", true
		case "map[string]int":
			return "(TL.IdR (TL.VMap " + o("string") + " " + o("int") + "))", true
		}
		return "(TL.IdR " + o("int") + ")", true
	case "c10t":
		if v.CT == nil {
			return "", false
		}
		if _, err := c10.RType(v.CT); err != nil {
			return "", false
		}
		st.tag("stack:c10-type")
		return "(TL.IdR (gview " + c10.CoqType(v.CT) + "))", true
	}
	return "", false
}

// stack emits the Gallina term of type [@csnip fl]; ok=false when some leaf is outside the composed model
func stack(s *Snip, inSprintf bool, st *stackInfo) (string, bool) {
	switch s.K {
	case "nil":
		return "QNil", true
	case "block":
		return "(QBlock " + core.Hex(string(s.S)) + ")", true
	case "t":
		var items []string
		for i := range s.Args {
			a := &s.Args[i]
			inner := "QNil"
			if a.S != nil {
				x, ok := stack(a.S, false, st)
				if !ok {
					return "", false
				}
				inner = x
			}
			items = append(items, "("+core.Hex(a.N)+", "+inner+")")
		}
		return "(QT " + core.Hex(string(s.S)) + " " + core.CoqList(items) + ")", true
	case "sprintf":
		var items []string
		verbs := verbsOf(string(s.S))
		for i := range s.Args {
			a := &s.Args[i]
			if i < len(verbs) && verbs[i] == 'v' && a.S == nil && a.V != nil && (a.V.T == "rtype" || a.V.T == "c10t") {
				return "", false // %v of a reflect.Type (&(reflect.rtype{})): not modelled
			}
			if a.S != nil && a.S.K != "nil" {
				x, ok := stack(a.S, true, st)
				if !ok {
					return "", false
				}
				items = append(items, x)
				continue
			}
			if a.S != nil || a.V == nil || a.V.T == "nil" {
				items = append(items, "(QRaw ANil)")
				continue
			}
			if tt, ok := st.typeTerm(a.V); ok {
				items = append(items, "(QRaw (AType "+tt+"))")
				continue
			}
			t, x, _, ok := st.valTerm(a.V)
			if !ok {
				return "", false
			}
			items = append(items, "(QRaw (AVal "+t+" "+x+"))")
		}
		return "(QSprintf " + core.Hex(string(s.S)) + " " + core.CoqList(items) + ")", true
	case "comment":
		return "(QComment " + core.Hex(string(s.S)) + ")", true
	case "directive":
		var items []string
		for _, a := range s.Strs {
			items = append(items, core.Hex(a))
		}
		return "(QDirective " + core.Hex(string(s.S)) + " " + core.CoqList(items) + ")", true
	case "snippets":
		var items []string
		parts := modelParts(s)
		for i := range parts {
			x, ok := stack(&parts[i], false, st)
			if !ok {
				return "", false
			}
			items = append(items, x)
		}
		return "(QSnippets " + core.CoqList(items) + ")", true
	case "fragments":
		if len(s.L) == 0 {
			return "(QFragments QNil)", true
		}
		x, ok := stack(&s.L[0], false, st)
		if !ok {
			return "", false
		}
		return "(QFragments " + x + ")", true
	case "value":
		if s.V == nil || s.V.T == "nil" {
			return "QValueNil", true
		}
		t, x, _, ok := st.valTerm(s.V)
		if !ok {
			return "", false // Value(reflect.Type) and values outside C10's universe: not modelled
		}
		return "(QValue " + t + " " + x + ")", true
	case "id":
		if s.V == nil || s.V.T == "nil" {
			return "QIDNil", true
		}
		if tt, ok := st.typeTerm(s.V); ok {
			return "(QID " + tt + ")", true
		}
		_, _, isStr, ok := st.valTerm(s.V)
		if !ok {
			return "", false
		}
		if isStr {
			st.tag("stack:id-ref")
			var str string
			if s.V.T == "c10" {
				str = string(s.V.CV.S)
			} else {
				str = s.V.S
			}
			return "(QID (TL.IdStr " + core.Hex(str) + "))", true
		}
		return "(QID TL.IdOther)", true
	case "expose":
		st.tag("stack:expose")
		return "(QExpose " + core.Hex(s.P) + " " + core.Hex(s.N) + ")", true
	}
	return "", false
}

// the verbs of a Sprintf format in the order they consume arguments (stops at the first unsupported verb)
func verbsOf(f string) []byte {
	var out []byte
	for i := 0; i < len(f); i++ {
		if f[i] != '%' {
			continue
		}
		i++
		if i >= len(f) {
			break
		}
		switch f[i] {
		case 'v', 'T':
			out = append(out, f[i])
		case '%':
		default:
			return out
		}
	}
	return out
}

// ---- C03's sentence on the written text and Imports(), with readable reasons (mirrors Corr/C09.v stack_holds) ----

// Go-side reasons (readable; the Coq predicate stack_holds decides): an import whose name occurs as `name.` in no leaf
// rendering (outside string literals) is certainly unused; two packages under one name.
func importReasons(text string, leafTexts []string, imports map[string]string) []string {
	var out []string
	names := map[string]string{}
	var paths []string
	for p := range imports {
		paths = append(paths, p)
	}
	sort.Strings(paths)
	var bb strings.Builder
	for _, t := range leafTexts {
		bb.WriteString(stripStrings(t))
		bb.WriteString("\n")
	}
	bare := bb.String()
	for _, p := range paths {
		n := imports[p]
		if o, dup := names[n]; dup {
			out = append(out, fmt.Sprintf("packages %s and %s are both imported as %s", o, p, n))
		}
		names[n] = p
		if !strings.Contains(bare, n+".") {
			out = append(out, fmt.Sprintf("import %s %q is not used by the rendered text %s", n, p, strconv.Quote(clip(text))))
		}
	}
	return out
}

// the text without the contents of double-quoted string literals
func stripStrings(s string) string {
	var b strings.Builder
	inStr, esc := false, false
	for i := 0; i < len(s); i++ {
		c := s[i]
		if inStr {
			switch {
			case esc:
				esc = false
			case c == '\\':
				esc = true
			case c == '"':
				inStr = false
			}
			continue
		}
		if c == '"' {
			inStr = true
			b.WriteByte(' ')
			continue
		}
		b.WriteByte(c)
	}
	return b.String()
}

func clip(s string) string {
	if len(s) > 160 {
		return s[:160] + "…"
	}
	return strings.ToValidUTF8(s, "?")
}
