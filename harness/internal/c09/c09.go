// Package c09: snippet templating (T, Sprintf, Comment, GoDirective, Snippets, Fragments, Block)
// rendered through gengo.NewSnippetWriter.
package c09

import (
	"bytes"
	"context"
	"encoding/json"
	"fmt"
	"iter"
	"reflect"
	"strconv"
	"strings"
	"unicode/utf8"

	"github.com/octohelm/gengo/pkg/gengo"
	"github.com/octohelm/gengo/pkg/gengo/snippet"
	"github.com/octohelm/gengo/pkg/namer"

	"verifharness/internal/c10"
	"verifharness/internal/core"
)

type prop struct{}

func init() { core.Register(prop{}) }

func (prop) ID() string        { return "C09" }
func (prop) CoqModule() string { return "Gengo.Corr.C09" }
func (prop) Parallel() int     { return 8 }

// ---- structured input: a snippet term ----

// Val is a plain Go value handed to Value(), ID() or Sprintf.
type Val struct {
	T string   `json:"t"`           // nil int str bool strs map rtype name
	I int64    `json:"i,omitempty"` // int
	S string   `json:"s,omitempty"` // str / name / rtype ("int", "string", "[]string", "map[string]int", "bool")
	B bool     `json:"b,omitempty"`
	L []string `json:"l,omitempty"` // strs / map keys
	// RenderStack: T = "c10" a value of C10's universe (CT, CV); T = "c10t" the reflect.Type of CT
	CT *c10.TypeJ `json:"ct,omitempty"`
	CV *c10.ValJ  `json:"cv,omitempty"`
}

// Arg is a named argument of T (N, S) or a positional argument of Sprintf (S = snippet, V = plain value).
type Arg struct {
	N string `json:"n,omitempty"`
	S *Snip  `json:"s,omitempty"`
	V *Val   `json:"v,omitempty"`
}

type Snip struct {
	K    string   `json:"k"`              // nil block t sprintf comment directive snippets fragments value id probe
	S    []byte   `json:"s,omitempty"`    // block text / format / comment text / directive name (base64: arbitrary bytes)
	Q    string   `json:"q,omitempty"`    // the same, Go-quoted, for readers only
	Args []Arg    `json:"args,omitempty"` // t, sprintf
	Strs []string `json:"strs,omitempty"` // directive arguments
	L    []Snip   `json:"l,omitempty"`    // snippets: elements; fragments: the one inner snippet
	V    *Val     `json:"v,omitempty"`    // value, id
	P    string   `json:"p,omitempty"`    // expose: package path
	N    string   `json:"n,omitempty"`    // expose: exposed name
	Self string   `json:"self,omitempty"` // ROOT only: the package the writer generates into (default example.com/x)
	Pan  bool     `json:"pan,omitempty"`  // probe: panics when it is rendered (otherwise it yields S)
	// t: HOW the bindings reach T.  "" = one snippet.Arg per binding; "args" = ONE snippet.Args map value alone (the usual
	// call of generators); "args+" = that map followed by a snippet.Arg that repeats its last binding.  Mut: what the CALLER
	// does with that map after T(format, args) has returned and before anything is rendered (generators reuse one Args map
	// for several templates).  The template renders the bindings it was BUILT with: Args of this term, never Mut.
	Mode string `json:"mode,omitempty"`
	Mut  []Mut  `json:"mut,omitempty"`
	// snippets: the element templates with Mode "args" are built one after the other from ONE map (cleared and refilled
	// for each of them), then the whole list is rendered
	Share bool `json:"share,omitempty"`
	// snippets: WHAT KIND of iter.Seq carries the parts.  "" = a pure sequence that can be ranged over any number of times
	// (a slice); the others are legal iter.Seq values that can NOT: "chan" = the parts are received from a channel (what a
	// second pass gets is what the first left), "once" = single-use (pulled from another iterator / a reader: every pass
	// after the first gets nothing), "counter" = a generator closure that numbers what it produces with a counter it keeps
	// across passes (each part is preceded by the part Block("<n>:"), n = how many it has produced so far).  The parts of a
	// Snippets are what ONE pass over its sequence yields; the term is only built this way where it is rendered at most once
	// (normalizeSeq), so every kind renders like the slice of its parts ("counter": with the numbers 1, 2, 3 ... in front).
	Seq string `json:"seq,omitempty"`
}

// Mut is one later write to the caller's Args map: delete(m, N), or m[N] = S (S == nil: the nil interface)
type Mut struct {
	N   string `json:"n"`
	Del bool   `json:"del,omitempty"`
	S   *Snip  `json:"s,omitempty"`
}

// probeS is a snippet of the harness' own: it records that it was rendered and yields its text, or panics.
// Bound to a name the format does not mention it must never be rendered: the rendering of T(format, args)
// is the format with each placeholder replaced by the rendering of ITS argument, nothing else is rendered
// (rendering has effects: an ID / PkgExpose / Value argument registers an import, property C03).
func probeS(text string, panics bool) Snip {
	x := mk("probe", text)
	x.Pan = panics
	return x
}

type recorder struct {
	rendered   int      // renderings of probes
	unexpected []string // renderings of probes bound to names that cannot be a placeholder of their template
	seqPasses  int      // passes started over sequences that are not re-iterable (Snip.Seq)
	seqParts   int      // parts those sequences have produced
}

// seqOf builds the iter.Seq of a `snippets` term (see Snip.Seq)
func seqOf(kind string, parts []snippet.Snippet, rec *recorder) snippet.Snippets {
	pass := func() {
		if rec != nil {
			rec.seqPasses++
		}
	}
	part := func() {
		if rec != nil {
			rec.seqParts++
		}
	}
	switch kind {
	case "chan":
		ch := make(chan snippet.Snippet, len(parts))
		for _, p := range parts {
			ch <- p
		}
		close(ch)
		return func(yield func(snippet.Snippet) bool) {
			pass()
			for p := range ch {
				part()
				if !yield(p) {
					return
				}
			}
		}
	case "once":
		used := false
		return func(yield func(snippet.Snippet) bool) {
			pass()
			if used {
				return
			}
			used = true
			for _, p := range parts {
				part()
				if !yield(p) {
					return
				}
			}
		}
	case "counter":
		n := 0
		return func(yield func(snippet.Snippet) bool) {
			pass()
			for _, p := range parts {
				n++
				part()
				if !yield(snippet.Block(strconv.Itoa(n)+":")) || !yield(p) {
					return
				}
			}
		}
	}
	return func(yield func(snippet.Snippet) bool) {
		for _, p := range parts {
			if !yield(p) {
				return
			}
		}
	}
}

// modelParts: the parts one pass over the sequence of a `snippets` term yields (what model and specification are given)
func modelParts(s *Snip) []Snip {
	if s.Seq != "counter" {
		return s.L
	}
	var l []Snip
	for i := range s.L {
		l = append(l, block(strconv.Itoa(i+1)+":"), s.L[i])
	}
	return l
}

// normalizeSeq: a sequence that is not re-iterable has ONE pass, so "the rendering of the argument" is defined once only.
// A `snippets` term keeps its Seq only where the term is rendered at most once: below the root, as a part of Snippets /
// Fragments, as a Sprintf argument (the cursor hands out each argument once), and as an argument of T bound to a name N
// such that "@N" occurs at most once in the format (an upper bound of the number of placeholders named N, for any format).
// Everywhere else (a placeholder repeated, shrinking candidates that repeat one) it becomes the slice of its parts.
func normalizeSeq(s *Snip, mult int) {
	switch s.K {
	case "t":
		for i := range s.Args {
			if s.Args[i].S != nil {
				m := mult * strings.Count(string(s.S), "@"+s.Args[i].N)
				normalizeSeq(s.Args[i].S, min(m, 2))
			}
		}
		for i := range s.Mut {
			if s.Mut[i].S != nil {
				normalizeSeq(s.Mut[i].S, mult)
			}
		}
	case "sprintf":
		for i := range s.Args {
			if s.Args[i].S != nil {
				normalizeSeq(s.Args[i].S, mult)
			}
		}
	case "snippets":
		if mult > 1 || (s.Seq != "chan" && s.Seq != "once" && s.Seq != "counter") {
			s.Seq = ""
		}
		for i := range s.L {
			normalizeSeq(&s.L[i], mult)
		}
	case "fragments":
		for i := range s.L {
			normalizeSeq(&s.L[i], mult)
		}
	}
}

type probe struct {
	text      string
	panics    bool
	forbidden string // "" or: why this probe must not be rendered
	rec       *recorder
}

func (p *probe) IsNil() bool { return false }
func (p *probe) Frag(ctx context.Context) iter.Seq[string] {
	return func(yield func(string) bool) {
		if p.rec != nil {
			p.rec.rendered++
			if p.forbidden != "" {
				p.rec.unexpected = append(p.rec.unexpected, p.forbidden)
			}
		}
		if p.panics {
			panic("probe rendered")
		}
		yield(p.text)
	}
}

func mk(k string, s string) Snip { return Snip{K: k, S: []byte(s), Q: strconv.Quote(s)} }
func block(s string) Snip        { return mk("block", s) }
func nilS() Snip                 { return Snip{K: "nil"} }
func tpl(f string, args ...Arg) Snip {
	x := mk("t", f)
	x.Args = args
	return x
}
func spf(f string, args ...Arg) Snip {
	x := mk("sprintf", f)
	x.Args = args
	return x
}
func named(n string, s Snip) Arg { return Arg{N: n, S: &s} }
func sarg(s Snip) Arg            { return Arg{S: &s} }
func varg(v Val) Arg             { return Arg{V: &v} }
func snippets(l ...Snip) Snip    { return Snip{K: "snippets", L: l} }
func fragments(s Snip) Snip      { return Snip{K: "fragments", L: []Snip{s}} }
func value(v Val) Snip           { return Snip{K: "value", V: &v} }
func ident(v Val) Snip           { return Snip{K: "id", V: &v} }
func expose(p, n string) Snip    { return Snip{K: "expose", P: p, N: n} }
func comment(s string) Snip      { return mk("comment", s) }
func directive(d string, args ...string) Snip {
	x := mk("directive", d)
	x.Strs = args
	return x
}

func goVal(v *Val) any {
	if v == nil {
		return nil
	}
	switch v.T {
	case "int":
		return int(v.I)
	case "str", "name":
		return v.S
	case "bool":
		return v.B
	case "strs":
		return append([]string{}, v.L...)
	case "map":
		m := map[string]int{}
		for i, k := range v.L {
			m[k] = i
		}
		return m
	case "c10":
		if v.CT == nil || v.CV == nil {
			return nil
		}
		rv, err := c10.Build(v.CT, v.CV)
		if err != nil {
			return nil
		}
		return rv.Interface()
	case "c10t":
		if v.CT == nil {
			return nil
		}
		rt, err := c10.RType(v.CT)
		if err != nil {
			return nil
		}
		return rt
	case "rtype":
		switch v.S {
		case "int":
			return reflect.TypeOf(0)
		case "string":
			return reflect.TypeOf("")
		case "bool":
			return reflect.TypeOf(false)
		case "[]string":
			return reflect.TypeOf([]string{})
		case "map[string]int":
			return reflect.TypeOf(map[string]int{})
		}
		return reflect.TypeOf(0)
	}
	return nil // "nil"
}

// build constructs the real snippet
func build(s *Snip) snippet.Snippet { return buildRec(s, nil) }

func buildRec(s *Snip, rec *recorder) snippet.Snippet { return buildShared(s, rec, nil) }

// buildShared: shared != nil is the one Args map of the enclosing `snippets` term with Share set
func buildShared(s *Snip, rec *recorder, shared snippet.Args) snippet.Snippet {
	build := func(s *Snip) snippet.Snippet { return buildRec(s, rec) }
	switch s.K {
	case "nil":
		return nil
	case "probe":
		return &probe{text: string(s.S), panics: s.Pan, rec: rec}
	case "block":
		return snippet.Block(string(s.S))
	case "t":
		var targs []snippet.TArg
		for i := range s.Args {
			a := &s.Args[i]
			var inner snippet.Snippet
			if a.S != nil {
				inner = build(a.S)
			}
			// "@"+name does not occur in the format: no placeholder of this template can have this name
			if p, ok := inner.(*probe); ok && a.N != "" && !strings.Contains(string(s.S), "@"+a.N) {
				p.forbidden = fmt.Sprintf("the argument bound to %q was rendered although the format %s has no placeholder @%s", a.N, strconv.Quote(string(s.S)), a.N)
			}
			targs = append(targs, snippet.Arg(a.N, inner))
		}
		if s.Mode == "args" || s.Mode == "args+" {
			// the bindings travel in one snippet.Args map, as generators write it
			var m snippet.Args // no binding at all: a nil map
			if shared != nil {
				m = shared
				clear(m)
			} else if len(targs) > 0 || len(s.Mut) > 0 {
				m = snippet.Args{}
			}
			for _, ta := range targs {
				for n, x := range ta.Args() {
					m[n] = x
				}
			}
			var t snippet.Snippet
			if s.Mode == "args+" && len(targs) > 0 {
				t = snippet.T(string(s.S), m, targs[len(targs)-1])
			} else {
				t = snippet.T(string(s.S), m)
			}
			// T has returned: what the caller does with ITS map now is not part of T(format, args)
			for i := range s.Mut {
				mu := &s.Mut[i]
				if mu.Del {
					delete(m, mu.N)
					continue
				}
				var inner snippet.Snippet
				if mu.S != nil {
					inner = build(mu.S)
				}
				if p, ok := inner.(*probe); ok {
					p.forbidden = fmt.Sprintf("a snippet the caller stored under %q in its Args map AFTER T(%s, args) had been built was rendered by that template", mu.N, strconv.Quote(string(s.S)))
				}
				m[mu.N] = inner
			}
			return t
		}
		return snippet.T(string(s.S), targs...)
	case "sprintf":
		var args []any
		for i := range s.Args {
			a := &s.Args[i]
			if a.S != nil {
				if x := build(a.S); x != nil {
					args = append(args, x)
				} else {
					args = append(args, nil)
				}
			} else {
				args = append(args, goVal(a.V))
			}
		}
		return snippet.Sprintf(string(s.S), args...)
	case "comment":
		return snippet.Comment(string(s.S))
	case "directive":
		return snippet.GoDirective(string(s.S), s.Strs...)
	case "snippets":
		var parts []snippet.Snippet
		var one snippet.Args
		if s.Share {
			one = snippet.Args{}
		}
		for i := range s.L {
			if one != nil && s.L[i].K == "t" && s.L[i].Mode != "" {
				parts = append(parts, buildShared(&s.L[i], rec, one))
				continue
			}
			parts = append(parts, build(&s.L[i]))
		}
		return seqOf(s.Seq, parts, rec)
	case "fragments":
		var inner snippet.Snippet
		if len(s.L) > 0 {
			inner = build(&s.L[0])
		}
		return snippet.Func(func(ctx context.Context) iter.Seq[string] { return snippet.Fragments(ctx, inner) })
	case "value":
		return snippet.Value(goVal(s.V))
	case "id":
		return snippet.ID(goVal(s.V))
	case "expose":
		return snippet.PkgExpose(s.P, s.N)
	}
	return nil
}

// force calls Frag without asking IsNil first (what Sprintf does with a Snippet argument)
type force struct{ s snippet.Snippet }

func (force) IsNil() bool                                 { return false }
func (f force) Frag(ctx context.Context) iter.Seq[string] { return f.s.Frag(ctx) }

const defaultSelf = "example.com/x"

// rctx: the writer's package and tracker.  Sub-renderings of Value / ID leaves are observed with the tracker of the
// main rendering in its FINAL state (RenderStack, crender_erase: a leaf renders the same text in every later state).
type rctx struct {
	self string
	tr   namer.ImportTracker
}

func newCtx(self string) *rctx {
	if self == "" {
		self = defaultSelf
	}
	return &rctx{self: self, tr: namer.NewDefaultImportTracker()}
}

func (c *rctx) writer(buf *bytes.Buffer) gengo.SnippetWriter {
	return gengo.NewSnippetWriter(buf, namer.NameSystems{"raw": namer.NewRawNamer(c.self, c.tr)})
}

// renderOne renders into a scratch buffer through the context's tracker; ok=false when the rendering panicked
func (c *rctx) renderOne(s snippet.Snippet) (out string, ok bool) {
	buf := bytes.NewBuffer(nil)
	w := c.writer(buf)
	p, _ := core.Recover(func() { w.Render(s) })
	return buf.String(), !p
}

func coqOptBytes(s string, ok bool) string { return core.CoqOpt(ok, core.Hex(s)) }

type walkInfo struct {
	bom, nolit, invalid bool
	tags                map[string]bool
	ctx                 *rctx
	leafTexts           []string // what the Value / ID / PkgExpose leaves and plain Sprintf arguments render to (final tracker state)
}

// coq emits the Coq term of type snip and collects the classifiers
func coq(s *Snip, inSprintf bool, wi *walkInfo) string {
	switch s.K {
	case "nil":
		wi.tags["has_nil_iface"] = true
		return "SNil"
	case "block":
		return "(SBlock " + core.Hex(string(s.S)) + ")"
	case "t":
		f := string(s.S)
		if strings.HasPrefix(strings.TrimLeft(f, "\n"), "\ufeff") {
			wi.bom = true
		}
		if !utf8.ValidString(f) {
			wi.invalid = true
		}
		var items []string
		for i := range s.Args {
			a := &s.Args[i]
			inner := "SNil"
			if a.S != nil {
				inner = coq(a.S, false, wi)
			} else {
				wi.tags["has_nil_iface"] = true
			}
			items = append(items, "("+core.Hex(a.N)+", "+inner+")")
		}
		return "(ST " + core.Hex(f) + " " + core.CoqList(items) + ")"
	case "sprintf":
		f := string(s.S)
		if strings.HasPrefix(f, "\ufeff") {
			wi.bom = true
		}
		if !utf8.ValidString(f) {
			wi.invalid = true
		}
		var items []string
		for i := range s.Args {
			a := &s.Args[i]
			if a.S != nil && a.S.K != "nil" {
				items = append(items, coq(a.S, true, wi))
				continue
			}
			var v any
			if a.S == nil {
				v = goVal(a.V)
			}
			vl, vok := wi.ctx.renderOne(force{snippet.Value(v)})
			ti, tok := wi.ctx.renderOne(force{snippet.ID(v)})
			if !vok {
				wi.nolit = true
			}
			wi.leafTexts = append(wi.leafTexts, vl, ti)
			items = append(items, "(SVal "+coqOptBytes(vl, vok)+" "+coqOptBytes(ti, tok)+")")
		}
		return "(SSprintf " + core.Hex(f) + " " + core.CoqList(items) + ")"
	case "comment":
		return "(SComment " + core.Hex(string(s.S)) + ")"
	case "directive":
		var items []string
		for _, a := range s.Strs {
			items = append(items, core.Hex(a))
		}
		return "(SDirective " + core.Hex(string(s.S)) + " " + core.CoqList(items) + ")"
	case "snippets":
		var items []string
		parts := modelParts(s)
		for i := range parts {
			items = append(items, coq(&parts[i], false, wi))
		}
		return "(SSnippets " + core.CoqList(items) + ")"
	case "fragments":
		if len(s.L) == 0 {
			return "(SFragments SNil)"
		}
		return "(SFragments " + coq(&s.L[0], false, wi) + ")"
	case "value", "id", "expose":
		x := build(s)
		out, ok := wi.ctx.renderOne(force{x})
		wi.leafTexts = append(wi.leafTexts, out)
		return "(SOpaque " + core.CoqBool(x.IsNil()) + " " + coqOptBytes(out, ok) + ")"
	case "probe": // an opaque snippet that is not nil and yields its text, or panics
		wi.tags["has_probe"] = true
		return "(SOpaque false " + coqOptBytes(string(s.S), !s.Pan) + ")"
	}
	return "SNil"
}

type observed struct {
	Panic   bool              `json:"panic"`
	Out     string            `json:"out"` // bytes written (before the panic, if any), Go-quoted
	Msg     string            `json:"panic_value,omitempty"`
	Imports map[string]string `json:"imports,omitempty"`         // ImportTracker.Imports() after the rendering
	Probes  int               `json:"probes_rendered,omitempty"` // how many times a probe snippet of the harness was rendered
	// sequences that are not re-iterable (Snip.Seq): passes started over them / parts they produced.  Reported, not judged:
	// the property speaks about the text; a second pass over such a sequence shows there (a part missing, numbers shifted)
	SeqPasses int `json:"seq_passes,omitempty"`
	SeqParts  int `json:"seq_parts_produced,omitempty"`
}

// runLocal executes the real code on one input in THIS process (called in a supervised worker, see worker.go)
func runLocal(in json.RawMessage) core.Result {
	var s Snip
	var res core.Result
	if err := json.Unmarshal(in, &s); err != nil {
		res.Notes = append(res.Notes, "bad input: "+err.Error())
		return res
	}
	normalizeSeq(&s, 1)
	var out string
	var pv any
	var panicked bool
	run := func() (string, bool, any, *rctx, *recorder) {
		ctx := newCtx(s.Self)
		buf := bytes.NewBuffer(nil)
		w := ctx.writer(buf)
		rec := &recorder{}
		x := buildRec(&s, rec)
		p, v := core.Recover(func() { w.Render(x) })
		return buf.String(), p, v, ctx, rec
	}
	var ctx *rctx
	var rec *recorder
	out, panicked, pv, ctx, rec = run()
	imports := map[string]string{}
	for p, n := range ctx.tr.Imports() {
		imports[p] = n
	}
	out2, p2, _, ctx2, _ := run()
	if p2 != panicked || (!panicked && (out2 != out || !reflect.DeepEqual(ctx2.tr.Imports(), imports))) {
		res.GoViolations = append(res.GoViolations, "rendering the same snippet twice gives different results")
	}
	if len(rec.unexpected) > 0 {
		res.GoViolations = append(res.GoViolations, rec.unexpected[0])
	}
	o := observed{Panic: panicked, Out: strconv.Quote(out), Imports: imports}
	if panicked {
		o.Msg = fmt.Sprint(pv)
		if len(o.Msg) > 120 {
			o.Msg = o.Msg[:120]
		}
	}
	o.Probes = rec.rendered
	o.SeqPasses, o.SeqParts = rec.seqPasses, rec.seqParts
	res.Observed = o

	wi := &walkInfo{tags: map[string]bool{}, ctx: ctx}
	st := &stackInfo{self: ctx.self, quotes: map[string]string{}}
	sterm, sok := stack(&s, false, st) // before coq(): coq() renders unused leaves through the same tracker
	term := coq(&s, false, wi)
	if sok {
		res.Coq = fmt.Sprintf("mk_scase %s %s %s %s (mk_stack %s %s %s %s)", term, coqOptBytes(out, !panicked), core.CoqBool(wi.bom), core.CoqBool(wi.nolit),
			core.Hex(ctx.self), c10.TableTerm(st.quotes), sterm, importsTerm(imports))
		res.Tags = append(res.Tags, "stack")
		if len(imports) > 0 {
			res.Tags = append(res.Tags, "stack:imports")
		}
		if len(imports) > 1 {
			res.Tags = append(res.Tags, "stack:imports>=2")
		}
		for t := range st.tags {
			res.Tags = append(res.Tags, t)
		}
		// C03's sentence, Go side (readable reasons; the Coq predicate stack_holds decides the same on the same data)
		if !panicked {
			for _, r := range importReasons(out, wi.leafTexts, imports) {
				res.GoViolations = append(res.GoViolations, r)
			}
		}
	} else {
		res.Coq = fmt.Sprintf("mk_case %s %s %s %s", term, coqOptBytes(out, !panicked), core.CoqBool(wi.bom), core.CoqBool(wi.nolit))
	}
	// (a format that starts with U+FEFF was the class leading_bom until fixes/C09-5-leading-bom.diff; it is an
	// ordinary input now: wi.bom is only a distribution tag and stays cross-checked with Coq's cls_bom)
	if wi.nolit {
		res.Class = "value_literal_unavailable"
	}

	// distribution
	res.Tags = append(res.Tags, "root="+s.K)
	if panicked {
		res.Tags = append(res.Tags, "panic")
	}
	if wi.invalid {
		res.Tags = append(res.Tags, "malformed:invalid_utf8")
	}
	if wi.bom {
		res.Tags = append(res.Tags, "format:leading_bom")
	}
	if wi.nolit {
		res.Tags = append(res.Tags, "malformed:nil_value_arg")
	}
	for t := range wi.tags {
		res.Tags = append(res.Tags, t)
	}
	feat := features(&s)
	for _, t := range feat {
		res.Tags = append(res.Tags, t)
	}
	res.Nontrivial = len(feat) > 0
	return res
}

// features of the formats in the term that the property names
func features(s *Snip) []string {
	set := map[string]bool{}
	var walk func(s *Snip, depth int)
	walk = func(s *Snip, depth int) {
		f := string(s.S)
		switch s.K {
		case "t":
			if depth > 0 {
				set["nested_template"] = true
			}
			if strings.Contains(f, "@") {
				set["t:placeholder"] = true
			}
			if strings.Contains(f, "'") {
				set["t:apostrophe"] = true
			}
			if strings.Contains(f, "@@") {
				set["t:@@"] = true
			}
			if strings.HasSuffix(f, "@") {
				set["t:trailing@"] = true
			}
			if strings.HasPrefix(f, "\n") {
				set["t:leading_nl"] = true
			}
			if s.Mode != "" {
				set["t:args_map"] = true
				if len(s.Args) == 0 && len(s.Mut) == 0 {
					set["t:args_map_nil"] = true
				}
			}
			for i := range s.Mut {
				bound := false
				for j := range s.Args {
					bound = bound || s.Args[j].N == s.Mut[i].N
				}
				switch {
				case s.Mut[i].Del && bound:
					set["t:args_map_then_delete"] = true
				case bound:
					set["t:args_map_then_rebind"] = true
				case !s.Mut[i].Del:
					set["t:args_map_then_add"] = true
				}
			}
			for i := range s.Args {
				if s.Args[i].N != "" && !strings.Contains(f, "@"+s.Args[i].N) {
					set["t:arg_not_mentioned"] = true
					if s.Args[i].S != nil && s.Args[i].S.K == "probe" {
						set["t:probe_not_mentioned"] = true
					}
				}
				if s.Args[i].S == nil || s.Args[i].S.K == "nil" {
					set["t:nil_arg"] = true
				} else if isEmptyish(s.Args[i].S) {
					set["t:empty_arg"] = true
				} else if s.Args[i].S.K == "block" && (bytes.Contains(s.Args[i].S.S, []byte("@")) || bytes.Contains(s.Args[i].S.S, []byte("%"))) {
					set["t:placeholder_looking_arg"] = true
				}
			}
		case "sprintf":
			if strings.Contains(f, "%%") {
				set["sprintf:%%"] = true
			}
			if strings.Contains(f, "%v") {
				set["sprintf:%v"] = true
			}
			if strings.Contains(f, "%T") {
				set["sprintf:%T"] = true
			}
		case "comment":
			if strings.Contains(f, "\n") {
				set["comment:multiline"] = true
			} else if f != "" {
				set["comment:line"] = true
			}
		case "directive":
			if f != "" {
				set["directive"] = true
			}
		case "snippets":
			set["snippets"] = true
			if s.Share {
				set["snippets:one_args_map_for_all"] = true
			}
			if s.Seq != "" {
				set["snippets:seq="+s.Seq] = true
				if depth == 0 {
					set["snippets:seq_at_root"] = true
				}
			}
		case "fragments":
			set["fragments"] = true
		}
		for i := range s.Args {
			if c := s.Args[i].S; c != nil {
				if c.K == "snippets" && c.Seq != "" {
					set["snippets:seq_in="+s.K] = true
				}
				walk(c, depth+1)
			}
		}
		for i := range s.L {
			if c := &s.L[i]; c.K == "snippets" && c.Seq != "" {
				set["snippets:seq_in="+s.K] = true
			}
			walk(&s.L[i], depth+1)
		}
	}
	walk(s, 0)
	var out []string
	for k := range set {
		out = append(out, k)
	}
	return out
}

func isEmptyish(s *Snip) bool {
	switch s.K {
	case "block", "t", "sprintf":
		return len(s.S) == 0
	case "value", "id":
		return s.V == nil || s.V.T == "nil"
	}
	return false
}
