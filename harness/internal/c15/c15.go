// Package c15: type references through ParseTypeRef / String, ParseRef / Ref, PkgImportPathAndExpose and
// snippet.ID rendered by a SnippetWriter whose raw namer uses a recording wrapper around the real tracker.
package c15

import (
	"bytes"
	"encoding/json"
	"fmt"
	"os"
	"sort"
	"strconv"
	"strings"

	"github.com/octohelm/gengo/pkg/gengo"
	"github.com/octohelm/gengo/pkg/gengo/snippet"
	"github.com/octohelm/gengo/pkg/namer"
	gtypes "github.com/octohelm/gengo/pkg/types"

	"verifharness/internal/core"
)

type prop struct{}

func init() { core.Register(prop{}) }

func (prop) ID() string        { return "C15" }
func (prop) CoqModule() string { return "Gengo.Corr.C15" }
func (prop) Parallel() int     { return 8 }

// Node is one reference of the grammar  ref ::= [path '.'] ident [ '[' ref {',' ref} ']' ].
type Node struct {
	P string  `json:"p,omitempty"`
	N string  `json:"n"`
	A []*Node `json:"a,omitempty"`
}

type input struct {
	Self string `json:"self"`           // package the namer renders for
	Tree *Node  `json:"tree,omitempty"` // grammar stream
	Raw  []byte `json:"raw,omitempty"`  // malformed stream (base64: arbitrary bytes survive)
	Q    string `json:"q,omitempty"`    // the reference string Go-quoted, for readers only
	// Before: references rendered EARLIER through the same SnippetWriter (same namer, same tracker), in order.  The
	// property is evaluated on Tree; the earlier renders only put the tracker into a state (names already handed out).
	Before []*Node `json:"before,omitempty"`
	K      string  `json:"k,omitempty"` // generator stream (distribution tag only)
}

func (n *Node) render(b *strings.Builder) {
	if n.P != "" {
		b.WriteString(n.P)
		b.WriteByte('.')
	}
	b.WriteString(n.N)
	if len(n.A) > 0 {
		b.WriteByte('[')
		for i, a := range n.A {
			if i > 0 {
				b.WriteByte(',')
			}
			a.render(b)
		}
		b.WriteByte(']')
	}
}

func (n *Node) String() string {
	var b strings.Builder
	n.render(&b)
	return b.String()
}

func (n *Node) depth() int {
	d := 0
	for _, a := range n.A {
		d = max(d, a.depth())
	}
	return d + 1
}

func (n *Node) size() int {
	k := 1
	for _, a := range n.A {
		k += a.size()
	}
	return k
}

func (n *Node) width() int {
	w := len(n.A)
	for _, a := range n.A {
		w = max(w, a.width())
	}
	return w
}

func (n *Node) each(f func(*Node, int)) { n.eachAt(f, 0) }
func (n *Node) eachAt(f func(*Node, int), lvl int) {
	f(n, lvl)
	for _, a := range n.A {
		a.eachAt(f, lvl+1)
	}
}

func (n *Node) clone() *Node {
	c := &Node{P: n.P, N: n.N}
	for _, a := range n.A {
		c.A = append(c.A, a.clone())
	}
	return c
}

func (in input) str() string {
	if in.Tree != nil {
		return in.Tree.String()
	}
	return string(in.Raw)
}

func enc(in input) json.RawMessage {
	in.Q = strconv.Quote(in.str())
	b, _ := json.Marshal(in)
	return b
}

// Package paths: dotted hosts, versioned paths, a std package, single segments, a vendored path.  Their
// candidate import names are pairwise distinct, so the real tracker always finds a free name (its
// behaviour when it does not is C03's subject).
var paths = []string{
	"x", "fmt", "github.com/a/b", "example.com/m/v2", "k8s.io/api/core/v1", "a.b/c.d", "gopkg.in/yaml.v3",
	"github.com/octohelm/gengo/pkg/types", "a.com/b-c", "y.z/w/vendor/q/r", "s/self", "golang.org/x/tools/go/packages",
}

// identifiers, including ones that look like path segments and a non-ASCII one
var names = []string{"T", "List", "Map", "P", "string", "int", "a", "b", "c", "M", "L", "v2", "com", "_x", "Ключ", "error", "K8s"}

// genTree: at most maxDepth levels below this one, at most maxWidth arguments per list, and a budget on the
// number of nodes (the Coq side pays per byte of case text, so trees are kept small but reach every depth
// and width up to the bounds).
func genTree(r *core.RNG, depth, maxDepth, maxWidth int, pathPct int) *Node {
	budget := 3 + r.Intn(10)
	if r.Chance(5) {
		budget = 30
	}
	return genNode(r, depth, maxDepth, maxWidth, pathPct, &budget)
}

func genNode(r *core.RNG, depth, maxDepth, maxWidth int, pathPct int, budget *int) *Node {
	n := &Node{N: core.Pick(r, names)}
	*budget--
	if r.Chance(pathPct) {
		n.P = core.Pick(r, paths)
		if r.Chance(40) {
			n.P = core.Pick(r, paths[:3]) // short ones more often
		}
	}
	if depth < maxDepth && *budget > 0 && r.Chance(85-10*depth) {
		w := 1 + r.Intn(maxWidth)
		for i := 0; i < w && *budget > 0; i++ {
			n.A = append(n.A, genNode(r, depth+1, maxDepth, maxWidth, 55, budget))
		}
	}
	return n
}

func pickSelf(r *core.RNG, t *Node) string {
	var used []string
	if t != nil {
		t.each(func(n *Node, _ int) {
			if n.P != "" {
				used = append(used, n.P)
			}
		})
	}
	switch k := r.Intn(10); {
	case k < 5 && len(used) > 0:
		return core.Pick(r, used)
	case k < 8:
		return core.Pick(r, paths)
	}
	return "main/pkg"
}

// the comma-after-nested-bracket shapes the property names, built on purpose
func nestedCommaTree(r *core.RNG) *Node {
	leaf := func() *Node { return genTree(r, 9, 0, 0, 50) }
	inner := &Node{N: core.Pick(r, names), A: []*Node{leaf(), leaf()}}
	if r.Bool() {
		inner.P = core.Pick(r, paths)
	}
	mid := &Node{N: core.Pick(r, names), A: []*Node{inner, leaf()}}
	if r.Bool() {
		mid.P = core.Pick(r, paths)
	}
	if r.Chance(30) {
		mid.A = append([]*Node{leaf()}, mid.A...)
	}
	top := &Node{P: core.Pick(r, paths), N: core.Pick(r, names), A: []*Node{mid}}
	if r.Chance(40) {
		top.A = append(top.A, leaf())
	}
	return top
}

// ---- import names that are also package paths ----
//
// A single-element package path ("model", "store", "bmodel") is spelled exactly like an import name.  When the tracker
// has ALREADY handed out that word as the import name of a different package (example.com/a/model -> model) - earlier
// in the same argument list, or in an earlier render through the same writer - the single-element package is still a
// package of its own: it must be registered (under another name) and its occurrences rewritten to that name.

var collisionWords = []string{"model", "store", "meta", "util", "core", "api", "v1", "kube"}

func longPathFor(r *core.RNG, w string) string {
	switch r.Intn(6) {
	case 0:
		return "example.com/a/" + w
	case 1:
		return "x.io/domain/" + w // the "domain" rule: the name is what follows it
	case 2:
		return "github.com/q/apis/" + w
	case 3:
		return "example.com/" + w + "/v2" // version segments are glued on: modelv2
	case 4:
		return "b.io/y/" + w
	}
	return "k8s.io/" + w
}

// aliasesOf: the import names a fresh tracker of the code under test hands out when the foreign packages of the given
// references are registered in rendering order (arguments in pre-order, then the head).  Used for GENERATION only.
func aliasesOf(self string, trees ...*Node) (names []string, taken map[string]bool) {
	taken = map[string]bool{}
	core.Recover(func() {
		tr := namer.NewDefaultImportTracker()
		reg := func(p string) {
			if p == "" || p == self {
				return
			}
			taken[p] = true
			tr.AddType(gtypes.Ref(p, "T"))
			if n := tr.LocalNameOf(p); n != "" && n != p {
				names = append(names, n)
			}
		}
		for _, t := range trees {
			for _, a := range t.A {
				a.each(func(n *Node, _ int) { reg(n.P) })
			}
			reg(t.P)
		}
	})
	return
}

// collisionCase: a reference in which a single-element package path equal to an import name handed out earlier occurs
// AFTER the package that got the name (late = true) or before it (the control), in the same argument list
// (before = nil) or after an earlier render through the same writer.
func collisionCase(r *core.RNG, sameList bool) input {
	self := core.Pick(r, []string{"main/pkg", "main/pkg", "s/self", "example.com/a/model"})
	mkLong := func() *Node {
		w := core.Pick(r, collisionWords)
		n := &Node{P: longPathFor(r, w), N: core.Pick(r, names)}
		if r.Chance(30) { // a second package wanting the same name: the tracker falls back to a longer one (ymodel, ...)
			n = &Node{P: "example.com/x/generic", N: "Pair", A: []*Node{n, {P: longPathFor(r, w), N: core.Pick(r, names)}}}
		}
		return n
	}
	first := mkLong()
	if r.Chance(40) {
		first = &Node{P: core.Pick(r, []string{"example.com/x/generic", "x", "github.com/a/b"}), N: "List", A: []*Node{first}}
	}
	var in input
	in.Self = self
	var earlier []*Node
	if sameList {
		in.Tree = &Node{P: core.Pick(r, []string{"example.com/x/generic", "x", "github.com/a/b"}), N: core.Pick(r, []string{"Pair", "Map", "M"}), A: []*Node{first}}
		earlier = []*Node{{N: "x", A: []*Node{first}}} // only what is walked before the new argument
	} else {
		in.Before = []*Node{first}
		if r.Chance(30) {
			in.Before = append(in.Before, mkLong())
		}
		in.Tree = &Node{P: core.Pick(r, []string{"example.com/x/generic", "x", "github.com/a/b"}), N: core.Pick(r, []string{"List", "Map", "M"})}
		earlier = in.Before
	}
	al, taken := aliasesOf(self, earlier...)
	var free []string
	for _, a := range al {
		if !taken[a] && a != self {
			free = append(free, a)
		}
	}
	if len(free) == 0 {
		free = []string{"model"}
	}
	k := 1 + r.Intn(2)
	for i := 0; i < k; i++ {
		leaf := &Node{P: core.Pick(r, free), N: core.Pick(r, names)}
		for d := r.Intn(3); d > 0; d-- { // at any depth
			leaf = &Node{P: core.Pick(r, []string{"", "x", "example.com/x/generic"}), N: "List", A: []*Node{leaf}}
		}
		if leaf.P == "" && len(leaf.A) > 0 && r.Bool() {
			leaf.P = "example.com/x/generic"
		}
		in.Tree.A = append(in.Tree.A, leaf)
	}
	if sameList && r.Chance(25) { // control: the single-element path comes first
		a := in.Tree.A
		a[0], a[len(a)-1] = a[len(a)-1], a[0]
	}
	if r.Chance(20) {
		in.Tree.A = append(in.Tree.A, &Node{P: core.Pick(r, paths), N: "T"})
	}
	in.K = "alias-collision-same-list"
	if !sameList {
		in.K = "alias-collision-earlier-render"
	}
	return in
}

func malformed(r *core.RNG) string {
	base := genTree(r, 0, 3, 3, 60)
	if base.P == "" {
		base.P = core.Pick(r, paths)
	}
	s := base.String()
	switch r.Intn(9) {
	case 0: // drop one byte
		if len(s) > 0 {
			i := r.Intn(len(s))
			s = s[:i] + s[i+1:]
		}
	case 1: // insert a structural byte
		i := r.Intn(len(s) + 1)
		s = s[:i] + core.Pick(r, []string{"[", "]", ",", ".", "[]", ",,", "]["}) + s[i:]
	case 2: // trailing garbage
		s += core.Pick(r, []string{",", "]", "[", ".", "]]", ",x", "[x", " "})
	case 3: // leading garbage
		s = core.Pick(r, []string{"[", ".", ",", "]", "[]", "*", "[]*"}) + s
	case 4: // empty arguments
		s = strings.Replace(s, "[", "[,", 1)
	case 5:
		s = strings.Replace(s, "]", ",]", 1)
	case 6: // random bytes over the structural alphabet
		var b strings.Builder
		m := r.Intn(10)
		for j := 0; j < m; j++ {
			b.WriteString(core.Pick(r, []string{"a", "b", "x", ".", "/", "[", "]", ",", "\xff", "é"}))
		}
		s = b.String()
	case 7: // truncate
		s = s[:r.Intn(len(s)+1)]
	default: // no dot before the bracket / only dots
		s = core.Pick(r, []string{"", ".", "..", "a.", ".a", "a..b", "[a.b]", "a[b.c]", "a.b[", "a.b]", "a.b[]", "a.b[,]", "a.b[c]]", "a.b[[c]]", "a.b[c][d]", "p.M[a],b]"})
	}
	return s
}

func (prop) Generate(r *core.RNG, tier string) []json.RawMessage {
	n := 1300
	if tier == "thorough" {
		n = 8000
	}
	var out []json.RawMessage
	seen := map[string]bool{}
	add := func(in input) {
		b := enc(in)
		if !seen[string(b)] {
			seen[string(b)] = true
			out = append(out, b)
		}
	}
	leaf := func(p, n string) *Node { return &Node{P: p, N: n} }
	// fixed corner cases first
	fixed := []*Node{
		leaf("x", "T"),
		leaf("github.com/a/b", "T"),
		leaf("", "string"),
		{P: "x", N: "List", A: []*Node{leaf("", "string")}},
		{P: "x", N: "List", A: []*Node{{N: "List", A: []*Node{leaf("", "string")}}}},
		{P: "p", N: "M", A: []*Node{{P: "p", N: "L", A: []*Node{{P: "x", N: "P", A: []*Node{leaf("", "a"), leaf("", "b")}}, leaf("", "c")}}}},
		{N: "M", A: []*Node{{N: "L", A: []*Node{{N: "P", A: []*Node{leaf("", "a"), leaf("", "b")}}, leaf("", "c")}}}},
		{P: "a.b/c.d", N: "Map", A: []*Node{leaf("gopkg.in/yaml.v3", "Node"), {P: "example.com/m/v2", N: "L", A: []*Node{leaf("a.b/c.d", "K")}}}},
		{P: "y.z/w/vendor/q/r", N: "T", A: []*Node{leaf("y.z/w/vendor/q/r", "U")}},
	}
	for _, t := range fixed {
		add(input{Self: "p", Tree: t})
		add(input{Self: "x", Tree: t})
	}
	for _, s := range []string{"", "a", "a.b", ".a", "a.", "[", "]", "a[", "a]", "a[]", "a.b[]", "a.b[c,]", "a.b[,c]", "a.b[c", "a.b[c]d", "a.b[c]]", "[a.b]", "a.b[\xff]", "p.M[a],b]", "a/b.c[d.e[f],g"} {
		add(input{Self: "p", Raw: []byte(s)})
	}
	// a single-element package path spelled like an import name the tracker gave to another package before
	pair := func(a, b *Node) *Node { return &Node{P: "example.com/x/generic", N: "Pair", A: []*Node{a, b}} }
	list := func(a *Node) *Node { return &Node{P: "example.com/x/generic", N: "List", A: []*Node{a}} }
	for _, self := range []string{"main/pkg", "example.com/x/generic"} {
		add(input{Self: self, Tree: pair(leaf("example.com/a/model", "T"), leaf("model", "U"))})
		add(input{Self: self, Tree: pair(leaf("model", "U"), leaf("example.com/a/model", "T"))})
		add(input{Self: self, Tree: list(list(leaf("store", "Item"))), Before: []*Node{leaf("example.com/domain/store", "Key")}})
		add(input{Self: self, Tree: list(leaf("example.com/domain/store", "Key")), Before: []*Node{leaf("store", "Item")}})
		add(input{Self: self, Tree: pair(pair(leaf("a.io/x/model", "T"), leaf("b.io/y/model", "T")), list(leaf("ymodel", "U")))})
		add(input{Self: self, Tree: pair(leaf("example.com/model/v2", "T"), leaf("modelv2", "U"))})
		add(input{Self: self, Tree: pair(leaf("example.com/x/time", "T"), leaf("time", "Duration"))})
		add(input{Self: self, Tree: list(leaf("model", "U")), Before: []*Node{leaf("model", "T"), leaf("example.com/a/model", "T")}})
	}
	nc := 120
	if tier == "thorough" {
		nc = 1500
	}
	for i := 0; i < nc; i++ {
		add(collisionCase(r, i%2 == 0))
	}
	for i := 0; i < n; i++ {
		switch k := r.Intn(20); {
		case k < 2: // ~10% malformed stream
			add(input{Self: pickSelf(r, nil), Raw: []byte(malformed(r))})
		case k < 7: // a comma after a (doubly) nested bracket
			t := nestedCommaTree(r)
			add(input{Self: pickSelf(r, t), Tree: t})
		case k < 9: // no package path on the outermost reference
			t := genTree(r, 0, 4, 4, 0)
			t.P = ""
			add(input{Self: pickSelf(r, t), Tree: t})
		default:
			t := genTree(r, 0, 4, 4, 100)
			add(input{Self: pickSelf(r, t), Tree: t})
		}
	}
	if tier == "thorough" {
		// exhaustive small scope: every tree of depth <= 3 and width <= 3 over two labels, and every tree of
		// depth <= 3 and width <= 2 over three labels (a path-less identifier, a foreign dotted package, the
		// target package), rendered for s/t (every fifth one for x.y).
		type label struct{ p, n string }
		enum := func(labels []label, maxW int) []*Node {
			var level []*Node // trees of depth <= d
			for d := 1; d <= 3; d++ {
				var next []*Node
				for _, l := range labels {
					next = append(next, &Node{P: l.p, N: l.n})
					if d == 1 {
						continue
					}
					var rec func(args []*Node)
					rec = func(args []*Node) {
						if len(args) > 0 {
							next = append(next, &Node{P: l.p, N: l.n, A: append([]*Node(nil), args...)})
						}
						if len(args) == maxW {
							return
						}
						for _, c := range level {
							rec(append(args, c))
						}
					}
					rec(nil)
				}
				level = next
			}
			return level
		}
		two := enum([]label{{"", "a"}, {"x.y", "P"}}, 3)
		three := enum([]label{{"", "a"}, {"x.y", "P"}, {"s/t", "S"}}, 2)
		// cap: the two-label set is complete up to 9 nodes (12 854 trees); of the 43 008 larger ones
		// (10-13 nodes) every fifth is taken unless VERIF_C15_FULL=1 (the full set passed when this was built).
		full := os.Getenv("VERIF_C15_FULL") == "1"
		k := 0
		for i, t := range append(two, three...) {
			if !full && i < len(two) && t.size() > 9 {
				k++
				if k%5 != 0 {
					continue
				}
			}
			enumerated++
			self := "s/t"
			if i%5 == 4 {
				self = "x.y"
			}
			add(input{Self: self, Tree: t})
		}
		enumFull = full
	}
	return out
}

var enumerated int // trees added by the exhaustive small-scope enumeration of this invocation
var enumFull bool

// Extra only reports what was enumerated (evidence: coverage.exhaustive / coverage.stats).
func (prop) Extra(_ *core.RNG, tier string, _ string) ([]string, []string, map[string]any) {
	return nil, nil, map[string]any{
		"exhaustive":       tier == "thorough" && enumerated > 0,
		"enumerated_trees": enumerated,
		"enumeration":      "all trees of depth<=3,width<=3 with <=9 nodes over {a, x.y.P} (+ every 5th larger one; all with VERIF_C15_FULL=1); all trees of depth<=3,width<=2 over {a, x.y.P, s/t.S}",
		"enumeration_full": enumFull,
	}
}

// recTracker delegates to the real tracker and records the traffic at the namer/tracker interface.
type recTracker struct {
	inner    namer.ImportTracker
	adds     []string
	locals   [][2]string
	panicked bool
}

func (t *recTracker) AddType(o gtypes.TypeName) {
	t.adds = append(t.adds, o.Pkg().Path())
	if p, _ := core.Recover(func() { t.inner.AddType(o) }); p {
		t.panicked = true
	}
}

func (t *recTracker) LocalNameOf(p string) string {
	n := t.inner.LocalNameOf(p)
	t.locals = append(t.locals, [2]string{p, n})
	return n
}
func (t *recTracker) PathOf(n string) (string, bool) { return t.inner.PathOf(n) }
func (t *recTracker) Imports() map[string]string     { return t.inner.Imports() }

type observed struct {
	Parse      string            `json:"parse"` // "ok" | "error" | "panic"
	ParseErr   string            `json:"parse_err,omitempty"`
	Printed    string            `json:"printed,omitempty"`
	Ref        string            `json:"ref"` // "ok" | "error" | "panic"
	RefPkg     string            `json:"ref_pkg,omitempty"`
	RefName    string            `json:"ref_name,omitempty"`
	ExposePath string            `json:"expose_path"`
	Expose     string            `json:"expose"`
	ExposePan  bool              `json:"expose_panic,omitempty"`
	ID         string            `json:"id"`
	IDPanic    string            `json:"id_panic,omitempty"`
	Adds       []string          `json:"adds"`
	Imports    map[string]string `json:"imports"`
}

// syms binds every distinct string of one case to a local name (`let s3 := hx "…" in …`): Coq pays per
// byte of literal when it elaborates a case file, and the same paths / identifiers / strings recur many
// times within a case (input tree, observed tree, names, calls).  Sharing changes the syntax of the term only.
type syms struct {
	m     map[string]string
	binds []string
}

func (y *syms) hex(s string) string {
	if id, ok := y.m[s]; ok {
		return id
	}
	if y.m == nil {
		y.m = map[string]string{}
	}
	id := fmt.Sprintf("s%d", len(y.m))
	y.m[s] = id
	y.binds = append(y.binds, "let "+id+" := "+core.Hex(s)+" in")
	return id
}

func (y *syms) bind(id, term string) { y.binds = append(y.binds, "let "+id+" := "+term+" in") }

func (y *syms) wrap(term string) string { return "(" + strings.Join(y.binds, " ") + " " + term + ")" }

func (y *syms) tree(t *gtypes.TypeRef) string {
	var args []string
	for _, a := range t.TypeList {
		if a == nil {
			args = append(args, "(TRef [] [] [])")
			continue
		}
		args = append(args, y.tree(a))
	}
	return "(TRef " + y.hex(t.PkgPath) + " " + y.hex(t.Name) + " " + core.CoqList(args) + ")"
}

func (y *syms) node(n *Node) string {
	var args []string
	for _, a := range n.A {
		args = append(args, y.node(a))
	}
	return "(TRef " + y.hex(n.P) + " " + y.hex(n.N) + " " + core.CoqList(args) + ")"
}

func (y *syms) pair(a, b string) string { return "(" + y.hex(a) + ", " + y.hex(b) + ")" }

func (prop) Run(raw json.RawMessage, _ string) core.Result {
	var in input
	_ = json.Unmarshal(raw, &in)
	s := in.str()
	var res core.Result
	var obs observed
	y := &syms{}
	treeTerm := "None"
	inTree := ""
	if in.Tree != nil {
		inTree = y.node(in.Tree)
		y.bind("t0", inTree)
		treeTerm = "(Some t0)"
	}

	// ParseTypeRef / String
	var tr *gtypes.TypeRef
	var err error
	parseTerm := "OParsePanic"
	if p, _ := core.Recover(func() { tr, err = gtypes.ParseTypeRef(s) }); p {
		obs.Parse = "panic"
	} else if err != nil {
		obs.Parse, obs.ParseErr = "error", err.Error()
		parseTerm = "(OErr " + y.hex(err.Error()) + ")"
	} else {
		var printed string
		if p, _ := core.Recover(func() { printed = tr.String() }); p {
			obs.Parse = "panic"
		} else {
			obs.Parse, obs.Printed = "ok", printed
			got := y.tree(tr)
			if got == inTree { // same term: share it
				got = "t0"
			}
			parseTerm = "(OTree " + got + " " + y.hex(printed) + ")"
		}
	}

	// ParseRef / Ref
	var ref gtypes.TypeName
	refTerm, refStr := "None", ""
	if p, _ := core.Recover(func() {
		ref, err = gtypes.ParseRef(s)
		if err == nil {
			obs.RefPkg, obs.RefName, refStr = ref.Pkg().Path(), ref.Name(), ref.String()
		}
	}); p {
		obs.Ref = "panic"
	} else if err != nil {
		obs.Ref, refTerm = "error", "(Some None)"
	} else {
		obs.Ref = "ok"
		refTerm = "(Some (Some " + y.pair(obs.RefPkg, obs.RefName) + "))"
		// Ref(path, name) gives the same answers as the parsed reference
		r2 := gtypes.Ref(obs.RefPkg, obs.RefName)
		if r2.Pkg().Path() != obs.RefPkg || r2.Name() != obs.RefName || r2.String() != refStr {
			res.GoViolations = append(res.GoViolations, "Ref(path, name) differs from ParseRef's result")
		}
	}

	// PkgImportPathAndExpose
	exposeTerm := "None"
	if p, _ := core.Recover(func() { obs.ExposePath, obs.Expose = gengo.PkgImportPathAndExpose(s) }); p {
		obs.ExposePan = true
	} else {
		exposeTerm = "(Some " + y.pair(obs.ExposePath, obs.Expose) + ")"
	}

	// snippet.ID(s) through a SnippetWriter
	rt := &recTracker{inner: namer.NewDefaultImportTracker()}
	var buf bytes.Buffer
	idTerm := "None"
	if p, v := core.Recover(func() {
		sw := gengo.NewSnippetWriter(&buf, namer.NameSystems{"raw": namer.NewRawNamer(in.Self, rt)})
		for _, b := range in.Before { // earlier renders through the same writer: only the tracker's state is kept
			sw.Render(snippet.ID(b.String()))
		}
		buf.Reset()
		rt.adds = nil
		sw.Render(snippet.ID(s))
	}); p {
		obs.IDPanic = fmt.Sprint(v)
		if obs.IDPanic == "" {
			obs.IDPanic = "panic"
		}
	} else {
		obs.ID = buf.String()
		idTerm = "(Some " + y.hex(obs.ID) + ")"
	}
	obs.Adds = rt.adds
	obs.Imports = map[string]string{}
	for k, v := range rt.Imports() {
		obs.Imports[k] = v
	}
	res.Observed = obs

	// the hypotheses the theorems make about the tracker, tested on this case: an added path is
	// registered under a non-empty name, and a name once handed out never changes
	trackerOK := !rt.panicked
	for _, p := range rt.adds {
		if obs.Imports[p] == "" {
			trackerOK = false
		}
	}
	for _, l := range rt.locals {
		if obs.Imports[l[0]] != l[1] {
			trackerOK = false
		}
	}
	if !trackerOK {
		res.Class = "tracker_hypothesis"
		res.Notes = append(res.Notes, "the import tracker did not register an added path under a stable non-empty name (C03's subject)")
	}

	keys := make([]string, 0, len(obs.Imports))
	for k := range obs.Imports {
		keys = append(keys, k)
	}
	sort.Strings(keys)
	var nameItems, addItems []string
	for _, k := range keys {
		nameItems = append(nameItems, y.pair(k, obs.Imports[k]))
	}
	for _, a := range rt.adds {
		addItems = append(addItems, y.hex(a))
	}
	// packages the earlier renders had to register (part of the INPUT: foreign paths of the Before references)
	var preItems []string
	preSeen := map[string]bool{}
	for _, b := range in.Before {
		b.each(func(n *Node, _ int) {
			if n.P != "" && n.P != in.Self && !preSeen[n.P] {
				preSeen[n.P] = true
				preItems = append(preItems, y.hex(n.P))
			}
		})
	}
	res.Coq = y.wrap(fmt.Sprintf("mk_case %s %s %s %s %s %s %s %s %s %s %s", y.hex(in.Self), y.hex(s), treeTerm, core.CoqList(nameItems),
		parseTerm, refTerm, y.hex(refStr), exposeTerm, idTerm, core.CoqList(addItems), core.CoqList(preItems)))

	// distribution
	if in.Tree != nil {
		t := in.Tree
		d, w := t.depth(), t.width()
		res.Nontrivial = d >= 2
		res.Tags = append(res.Tags, "grammar", fmt.Sprintf("depth=%d", d), fmt.Sprintf("width=%d", w))
		if t.P == "" {
			res.Tags = append(res.Tags, "outer_without_path")
		}
		commaAfterNested, selfInside, dotted, versioned, foreign := false, false, false, false, map[string]bool{}
		t.each(func(n *Node, lvl int) {
			for i, a := range n.A {
				if i+1 < len(n.A) && a.depth() >= 2 && lvl >= 1 {
					commaAfterNested = true
				}
			}
			if n.P != "" && n.P == in.Self && lvl > 0 {
				selfInside = true
			}
			if n.P != "" && n.P != in.Self {
				foreign[n.P] = true
			}
			if strings.Contains(strings.SplitN(n.P, "/", 2)[0], ".") {
				dotted = true
			}
			for _, seg := range strings.Split(n.P, "/") {
				if len(seg) > 1 && seg[0] == 'v' && seg[1] >= '0' && seg[1] <= '9' {
					versioned = true
				}
			}
		})
		if commaAfterNested {
			res.Tags = append(res.Tags, "comma_after_doubly_nested_bracket")
		}
		if selfInside {
			res.Tags = append(res.Tags, "target_package_among_arguments")
		}
		if dotted {
			res.Tags = append(res.Tags, "dotted_host")
		}
		if versioned {
			res.Tags = append(res.Tags, "versioned_path")
		}
		res.Tags = append(res.Tags, fmt.Sprintf("foreign_packages=%d", min(len(foreign), 5)))
		if in.K != "" {
			res.Tags = append(res.Tags, "gen="+in.K)
		}
		if len(in.Before) > 0 {
			res.Tags = append(res.Tags, "earlier_renders_same_writer")
		}
		// a single-element foreign path that IS an import name handed out (to another package) by the end of the render
		for p := range foreign {
			if !strings.Contains(p, "/") {
				for q, nm := range obs.Imports {
					if nm == p && q != p {
						res.Tags = append(res.Tags, "path_spelled_like_a_given_import_name")
					}
				}
			}
		}
	} else {
		res.Nontrivial = strings.ContainsAny(s, "[],")
		res.Tags = append(res.Tags, "malformed", "malformed_parse_"+obs.Parse)
		if obs.IDPanic != "" {
			res.Tags = append(res.Tags, "malformed_id_panics")
		}
	}
	return res
}

// Shrink: grammar inputs shrink on the tree (promote a subtree, drop an argument, drop an argument list,
// shorten a path or a name); malformed inputs on the bytes.
func (prop) Shrink(raw json.RawMessage) []json.RawMessage {
	var in input
	_ = json.Unmarshal(raw, &in)
	var out []json.RawMessage
	orig := string(enc(in))
	add := func(c input) {
		b := enc(c)
		if string(b) != orig {
			out = append(out, b)
		}
	}
	if in.Tree == nil {
		s := string(in.Raw)
		if len(s) > 2 {
			add(input{Self: in.Self, Raw: []byte(s[:len(s)/2])})
			add(input{Self: in.Self, Raw: []byte(s[len(s)/2:])})
		}
		for i := 0; i < len(s); i++ {
			add(input{Self: in.Self, Raw: []byte(s[:i] + s[i+1:])})
		}
		return out
	}
	// earlier renders: drop one, or reduce one to a bare reference of one of its packages
	for i, b := range in.Before {
		add(input{Self: in.Self, Tree: in.Tree, Before: append(append([]*Node(nil), in.Before[:i]...), in.Before[i+1:]...)})
		b.each(func(n *Node, lvl int) {
			if n.P != "" && (lvl > 0 || len(n.A) > 0) {
				c := append([]*Node(nil), in.Before...)
				c[i] = &Node{P: n.P, N: "T"}
				add(input{Self: in.Self, Tree: in.Tree, Before: c})
			}
		})
	}
	// subtrees (keeping a package path on the outermost reference when there was one)
	for _, a := range in.Tree.A {
		c := a.clone()
		if c.P == "" {
			c.P = in.Tree.P
		}
		add(input{Self: in.Self, Tree: c, Before: in.Before})
	}
	// edits at every node
	var nodes []*Node
	in.Tree.each(func(n *Node, _ int) { nodes = append(nodes, n) })
	for k := range nodes {
		edit := func(f func(n *Node) bool) {
			c := in.Tree.clone()
			var cn []*Node
			c.each(func(n *Node, _ int) { cn = append(cn, n) })
			if f(cn[k]) {
				add(input{Self: in.Self, Tree: c, Before: in.Before})
			}
		}
		for j := range nodes[k].A {
			edit(func(n *Node) bool { n.A = append(append([]*Node(nil), n.A[:j]...), n.A[j+1:]...); return true })
			edit(func(n *Node) bool { // replace an argument by one of its own arguments
				if len(n.A[j].A) == 0 {
					return false
				}
				n.A[j] = n.A[j].A[0]
				return true
			})
		}
		edit(func(n *Node) bool { r := len(n.A) > 0; n.A = nil; return r })
		edit(func(n *Node) bool { r := k > 0 && n.P != ""; n.P = ""; return r })
		edit(func(n *Node) bool { r := n.P != "" && n.P != "x" && n.P != in.Self; n.P = "x"; return r })
		edit(func(n *Node) bool { r := len(n.N) > 1; n.N = "a"; return r })
	}
	if in.Self != "p" {
		add(input{Self: "p", Tree: in.Tree, Before: in.Before})
	}
	return out
}
