// Package stdref makes the standard-library packages used by the C11 generator part of the loaded universe,
// and declares a few alias types.
package stdref

import (
	_ "embed"
	"encoding/json"
	"math/big"
	"net/url"
	"sync/atomic"
	"time"
	"unsafe"

	ao "verifharness/internal/c11/fx/a/o"
)

//go:embed stdref.go
var Source string

var (
	_ time.Duration
	_ url.URL
	_ json.RawMessage
	_ big.Int
	_ atomic.Int64
	_ unsafe.Pointer
)

type Dur = time.Duration

type It = ao.Item

type Strs = []string

type L[T any] = ao.List[T]
