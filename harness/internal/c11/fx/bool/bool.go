// Package bool (fx/bool): last path segment is a predeclared identifier (the import tracker must not use it as local name).
package bool

import _ "embed"

//go:embed bool.go
var Source string

type T struct{ N int }
