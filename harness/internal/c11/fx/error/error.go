// Package error (fx/error): last path segment is a predeclared identifier (the import tracker must not use it as local name).
package error

import _ "embed"

//go:embed error.go
var Source string

type T struct{ N int }
