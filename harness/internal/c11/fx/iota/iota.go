// Package iota (fx/iota): last path segment is a predeclared identifier (the import tracker must not use it as local name).
package iota

import _ "embed"

//go:embed iota.go
var Source string

type T struct{ N int }
