// Package string (fx/string): last path segment is a predeclared identifier (the import tracker must not use it as local name).
package string

import _ "embed"

//go:embed string.go
var Source string

type T struct{ N int }
