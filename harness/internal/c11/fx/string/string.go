// Package string (fx/string): last path segment is a predeclared identifier (known-finding stream).
package string

import _ "embed"

//go:embed string.go
var Source string

type T struct{ N int }
