// Package o (fx/b/o): second package whose last path segment is "o" (import-name clash with fx/a/o).
package o

import _ "embed"

//go:embed o.go
var Source string

type Item struct{ N int64 }

type Color uint8

// Object: a named method-less interface type (same name as fx/a/o.Object).
type Object interface{}

type List[T any] []T

type Box[T any] struct{ V *T }
