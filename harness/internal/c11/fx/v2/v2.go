// Package v2 (fx/v2): version-like last segment.
package v2

import _ "embed"

//go:embed v2.go
var Source string

type Thing struct{ N int }

type Set[T comparable] map[T]struct{}
