// Package any (fx/any): last path segment is a predeclared identifier (the import tracker must not use it as local name).
package any

import _ "embed"

//go:embed any.go
var Source string

type T struct{ N int }
