// Package len (fx/len): last path segment is a predeclared identifier (the import tracker must not use it as local name).
package len

import _ "embed"

//go:embed len.go
var Source string

type T struct{ N int }
