// Package user (fx/domain/user): path with a "domain" segment (special-cased by the import tracker).
package user

import _ "embed"

//go:embed user.go
var Source string

type User struct {
	ID   ID
	Name string
}

type ID int64

// Payload: a named method-less interface type.
type Payload interface{}
