// Package new (fx/new): last path segment is a predeclared identifier (the import tracker must not use it as local name).
package new

import _ "embed"

//go:embed new.go
var Source string

type T struct{ N int }
