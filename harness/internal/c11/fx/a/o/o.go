// Package o (fx/a/o): fixture types for C11.  Import-free.  The file embeds its own source so the
// harness can mirror the package into a synthetic module and load it with go/types.
package o

import _ "embed"

//go:embed o.go
var Source string

type Item struct {
	A int
	B string
}

type item struct{ x int }

type Color int

type List[T any] struct{ Items []T }

type Pair[K comparable, V any] struct {
	K K
	V V
}

type Tri[A, B, C any] struct {
	A A
	B B
	C C
}

type Str interface{ String() string }

// Object, Anything: NAMED interface types without methods.  They are named types of this package like any other
// (distinct from any: `var x *Object = new(any)` does not compile).
type Object interface{}

type Anything any

type Ptr *Item

type Dict map[string]Item

type Fn func(int) string

// Lit holds struct literal types written inside this package (unexported field names belong to it).
type Lit struct {
	U struct {
		x int
		Y string `json:"y"`
	}
	E struct {
		error
		item
		*Color
	}
}

var _ = item{x: 0}
