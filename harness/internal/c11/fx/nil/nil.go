// Package nil (fx/nil): last path segment is a predeclared identifier (the import tracker must not use it as local name).
package nil

import _ "embed"

//go:embed nil.go
var Source string

type T struct{ N int }
