// Package json (fx/json): last path segment equals a standard-library package name.
package json

import _ "embed"

//go:embed json.go
var Source string

type Raw []byte

type Opt[T any] struct {
	V  T
	Ok bool
}
