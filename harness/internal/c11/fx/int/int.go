// Package int (fx/int): last path segment is a predeclared identifier (the import tracker must not use it as local name).
package int

import _ "embed"

//go:embed int.go
var Source string

type T struct{ N int }
