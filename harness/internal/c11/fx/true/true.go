// Package true (fx/true): last path segment is a predeclared identifier (the import tracker must not use it as local name).
package true

import _ "embed"

//go:embed true.go
var Source string

type T struct{ N int }
