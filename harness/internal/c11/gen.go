package c11

import (
	"encoding/json"
	"strconv"

	"verifharness/internal/core"
)

// named types the generator draws from
type ntype struct {
	Pkg, Name string
	Arity     int
	Und       string // kind of the underlying type: struct|int|iface|ptr|map|func|slice|unsafe
	Cmp       bool   // comparable (usable as a map key / comparable type argument) whatever its arguments
	CmpArg0   bool   // the first type parameter is constrained by comparable
}

var namedTypes = []ntype{
	{pAO, "Item", 0, "struct", true, false}, {pAO, "Color", 0, "int", true, false}, {pAO, "Str", 0, "iface", true, false},
	// named interface types WITHOUT methods: named types of a package, not `any`
	{pAO, "Object", 0, "iface", true, false}, {pAO, "Anything", 0, "iface", true, false}, {pBO, "Object", 0, "iface", true, false},
	{pUser, "Payload", 0, "iface", true, false}, {"encoding/json", "Token", 0, "iface", true, false},
	{pAO, "Ptr", 0, "ptr", true, false}, {pAO, "Dict", 0, "map", false, false}, {pAO, "Fn", 0, "func", false, false},
	{pAO, "Lit", 0, "struct", false, false},
	{pAO, "List", 1, "struct", false, false}, {pAO, "Pair", 2, "struct", false, true}, {pAO, "Tri", 3, "struct", false, false},
	{pBO, "Item", 0, "struct", true, false}, {pBO, "Color", 0, "int", true, false}, {pBO, "List", 1, "slice", false, false},
	{pBO, "Box", 1, "struct", true, false},
	{pJSON, "Raw", 0, "slice", false, false}, {pJSON, "Opt", 1, "struct", false, false},
	{pUser, "User", 0, "struct", true, false}, {pUser, "ID", 0, "int", true, false},
	{pV2, "Thing", 0, "struct", true, false}, {pV2, "Set", 1, "map", false, true},
	{"time", "Duration", 0, "int", true, false}, {"time", "Time", 0, "struct", true, false}, {"net/url", "URL", 0, "struct", true, false},
	{"encoding/json", "RawMessage", 0, "slice", false, false}, {"math/big", "Int", 0, "struct", false, false},
	{"sync/atomic", "Int64", 0, "struct", true, false}, {"sync/atomic", "Pointer", 1, "struct", true, false},
	{"unsafe", "Pointer", 0, "unsafe", true, false},
}

var allPkgs = append([]string{pAO, pBO, pJSON, pUser, pV2, "time", "net/url", "encoding/json", "math/big", "sync/atomic"}, predeclPkgs...)

func init() {
	// packages whose candidate import name is a predeclared identifier: string.T, error.T, len.T ...
	for _, p := range predeclPkgs {
		namedTypes = append(namedTypes, ntype{p, "T", 0, "struct", true, false})
	}
}

// paths that exist nowhere: they only occupy names in the tracker of the target file
var ghostPkgs = []string{"example.com/other/o", "example.com/o", "github.com/acme/json", "example.com/x/user", "example.com/ao", "example.com/bo",
	"example.com/deep/time", "k8s.io/apis/core/v2", "example.com/big",
	// candidate names that are predeclared identifiers, directly or through the numbered fallback (float3 + "2")
	"example.com/x/error", "example.com/string", "example.com/y/any", "example.com/int", "len", "nil", "uint8", "float3", "float-3", "int3", "int-3", "int_3"}

const targetPkg = "example.com/gen/target"

var tagPool = []string{`json:"a"`, `json:"a,omitempty" yaml:"b"`, `x`, ` `, `a b`, `json:"\"q\""`, "tab\there", "nl\nhere", "é世",
	"with`backquote", "cr\rhere", "nul\x00", "bad\xffutf8", "bom\ufeff", "del\x7f", "`"}

var fieldNames = []string{"A", "B", "Name", "ID", "X1", "Value", "b", "x", "_"}

func bt(n string) *Ty { return &Ty{K: "basic", Name: n} }

func named(nt ntype, args ...*Ty) *Ty { return &Ty{K: "named", Pkg: nt.Pkg, Name: nt.Name, Args: args} }

func findNamed(pkg, name string) ntype {
	for _, n := range namedTypes {
		if n.Pkg == pkg && n.Name == name {
			return n
		}
	}
	return ntype{Pkg: pkg, Name: name}
}

type gen struct {
	r    *core.RNG
	self string
	out  bool // malformed stream: constructs outside the grammar are allowed
}

func (g *gen) basic() *Ty {
	if g.r.Chance(70) {
		return bt(core.Pick(g.r, []string{"int", "string", "bool", "float64", "int64", "uint8", "byte", "rune"}))
	}
	return bt(core.Pick(g.r, basics))
}

// a type argument of the grammar: named or basic
func (g *gen) arg(depth int, cmp bool) *Ty {
	switch k := g.r.Intn(10); {
	case k < 4:
		return g.basic()
	case k < 5:
		return &Ty{K: "error"}
	default:
		return g.namedTy(depth, cmp)
	}
}

func (g *gen) namedTy(depth int, cmp bool) *Ty {
	for {
		nt := core.Pick(g.r, namedTypes)
		if nt.Arity > 0 && (depth <= 1 || g.r.Chance(45)) {
			continue
		}
		if cmp && !nt.Cmp {
			continue
		}
		var args []*Ty
		for i := 0; i < nt.Arity; i++ {
			if g.out && g.r.Chance(40) && !(i == 0 && nt.CmpArg0) {
				args = append(args, g.ty(depth-1, false)) // DESIGN section 4 #35: not named, not basic
			} else {
				args = append(args, g.arg(depth-1, i == 0 && nt.CmpArg0))
			}
		}
		return named(nt, args...)
	}
}

func (g *gen) key(depth int) *Ty {
	switch k := g.r.Intn(10); {
	case k < 5 || depth <= 1:
		return bt(core.Pick(g.r, []string{"string", "int", "int64", "uint8", "bool", "float64", "rune"}))
	case k < 7:
		return g.namedTy(depth, true)
	case k < 8:
		return &Ty{K: "ptr", Elem: g.ty(depth-1, false)}
	case k < 9:
		return &Ty{K: "error"}
	default:
		return &Ty{K: "array", Len: int64(g.r.Intn(4)), Elem: g.key(depth - 1)}
	}
}

func (g *gen) leaf() *Ty {
	switch k := g.r.Intn(10); {
	case k < 4:
		return g.basic()
	case k < 6:
		return &Ty{K: "error"}
	case k < 7:
		return &Ty{K: "any", Loose: g.r.Chance(30)}
	default:
		return g.namedTy(1, false)
	}
}

func (g *gen) ty(depth int, _ bool) *Ty {
	if depth <= 1 {
		return g.leaf()
	}
	if g.out && g.r.Chance(25) {
		switch g.r.Intn(4) {
		case 0:
			return &Ty{K: "chan", Dir: 1 + g.r.Intn(2), Elem: g.ty(depth-1, false)}
		case 1:
			return &Ty{K: "iface"}
		case 2:
			return &Ty{K: "func"}
		default:
			nt := core.Pick(g.r, []ntype{findNamed(pAO, "List"), findNamed(pBO, "Box"), findNamed(pJSON, "Opt")})
			e := g.ty(depth-1, false)
			return named(nt, core.Pick(g.r, []*Ty{{K: "slice", Elem: e}, {K: "ptr", Elem: e}, {K: "map", Key: bt("string"), Elem: e}, {K: "any"}, {K: "struct"}}))
		}
	}
	switch k := g.r.Intn(100); {
	case k < 12:
		return g.leaf()
	case k < 36:
		return g.namedTy(depth, false)
	case k < 46:
		return &Ty{K: "ptr", Elem: g.ty(depth-1, false)}
	case k < 56:
		return &Ty{K: "slice", Elem: g.ty(depth-1, false)}
	case k < 61:
		return &Ty{K: "array", Len: int64(core.Pick(g.r, []int{0, 1, 3, 16, 1 << 20})), Elem: g.ty(depth-1, false)}
	case k < 70:
		return &Ty{K: "map", Key: g.key(depth - 1), Elem: g.ty(depth-1, false)}
	case k < 75:
		return &Ty{K: "chan", Elem: g.ty(depth-1, false)}
	default:
		return g.structTy(depth)
	}
}

func (g *gen) structTy(depth int) *Ty {
	n := g.r.Intn(5)
	t := &Ty{K: "struct"}
	used := map[string]bool{}
	for i := 0; i < n; i++ {
		var f Field
		if g.r.Chance(25) { // embedded field: T, *T with T a type name
			var et *Ty
			for et == nil {
				switch g.r.Intn(6) {
				case 0:
					et = &Ty{K: "error"}
				case 1:
					et = bt(core.Pick(g.r, []string{"int", "string", "bool", "uint8", "float64"}))
				default:
					c := g.namedTy(depth-1, false)
					nt := findNamed(c.Pkg, c.Name)
					if nt.Und == "ptr" || nt.Und == "unsafe" {
						continue
					}
					if g.r.Chance(35) && nt.Und != "iface" {
						et = &Ty{K: "ptr", Elem: c}
					} else {
						et = c
					}
				}
			}
			name, _ := embName(et)
			f = Field{Name: name, Emb: true, T: et}
		} else {
			f = Field{Name: core.Pick(g.r, fieldNames), T: g.ty(depth-1, false)}
		}
		if f.Name != "_" && used[f.Name] {
			continue
		}
		used[f.Name] = true
		if !exportedASCII(f.Name) {
			f.Origin = g.self
			if g.out && g.r.Chance(50) {
				f.Origin = pBO // the field name belongs to another package: cannot be expressed in the target
			}
		}
		if g.r.Chance(35) {
			tag := core.Pick(g.r, tagPool)
			if g.r.Chance(60) {
				tag = tagPool[g.r.Intn(5)]
			}
			f.Tag, f.TagQ = []byte(tag), strconv.Quote(tag)
		}
		t.Fields = append(t.Fields, f)
	}
	return t
}

func pkgsOf(t *Ty) []string {
	return t.foreignPkgs("")
}

// the three kinds of target package of the property's quantifier
func (g *gen) target(t *Ty) (self string, pre []string) {
	ps := pkgsOf(t)
	var own []string
	for _, p := range ps {
		for _, q := range allPkgs[:5] { // fixture packages can be targets (their source is re-checked with the extra file)
			if p == q {
				own = append(own, p)
			}
		}
	}
	switch k := g.r.Intn(10); {
	case k < 3 && len(own) > 0:
		self = core.Pick(g.r, own)
	case k < 5:
		self = core.Pick(g.r, allPkgs[:5])
	default:
		self = targetPkg
	}
	if g.r.Chance(40) { // a tracker that already holds (possibly clashing) names
		n := 1 + g.r.Intn(3)
		for i := 0; i < n; i++ {
			var p string
			if g.r.Chance(50) {
				p = core.Pick(g.r, ghostPkgs)
			} else {
				p = core.Pick(g.r, allPkgs)
			}
			if p != self {
				pre = append(pre, p)
			}
		}
	}
	return
}

func mk(inp input) json.RawMessage {
	if inp.Ty != nil {
		inp.Go = inp.Ty.GoString()
	}
	b, _ := json.Marshal(inp)
	return b
}

// fixTy re-derives the fields that depend on the target package (origin of unexported field names)
func retarget(t *Ty, self string) *Ty {
	b, _ := json.Marshal(t)
	var c Ty
	_ = json.Unmarshal(b, &c)
	c.walk(func(x *Ty) {
		for i := range x.Fields {
			if !exportedASCII(x.Fields[i].Name) && x.Src == "" {
				x.Fields[i].Origin = self
			}
		}
	})
	return &c
}

func (prop) Generate(r *core.RNG, tier string) []json.RawMessage {
	var out []json.RawMessage
	both := func(t *Ty, self string, pre []string, via string) {
		if _, err := t.reflectType(); err == nil {
			out = append(out, mk(input{Self: self, Pre: pre, Pres: "reflect", Via: via, Ty: t}))
		}
		out = append(out, mk(input{Self: self, Pre: pre, Pres: "types", Via: via, Ty: t}))
	}
	item, list, pair, tri := findNamed(pAO, "Item"), findNamed(pAO, "List"), findNamed(pAO, "Pair"), findNamed(pAO, "Tri")
	bitem, box := findNamed(pBO, "Item"), findNamed(pBO, "Box")
	errT := &Ty{K: "error"}
	dur := named(findNamed("time", "Duration"))
	fld := func(n string, t *Ty, tag string) Field {
		return Field{Name: n, T: t, Tag: []byte(tag), TagQ: strconv.Quote(tag)}
	}
	// fixed corner cases first (the ones the property text names)
	corner := []*Ty{
		errT, {K: "any"}, {K: "any", Loose: true},
		{K: "struct", Fields: []Field{fld("E", errT, "")}},
		{K: "slice", Elem: errT}, {K: "map", Key: bt("string"), Elem: errT}, {K: "ptr", Elem: errT}, {K: "chan", Elem: errT},
		named(list, errT), named(pair, bt("string"), errT),
		{K: "struct", Fields: []Field{{Name: "error", Emb: true, T: errT, Origin: targetPkg}}},
		named(item), {K: "ptr", Elem: named(item)}, named(list, named(item)), named(list, named(bitem)), named(pair, bt("string"), named(list, named(item))),
		named(pair, named(pair, bt("int"), bt("string")), named(findNamed(pAO, "Color"))),
		named(list, named(pair, named(pair, bt("int"), bt("string")), named(findNamed(pAO, "Color")))), // class nested_generic_arg_list
		named(list, named(tri, named(list, bt("int")), bt("int"), bt("string"))),                       // class nested_generic_arg_list
		named(list, named(tri, bt("int"), bt("string"), named(list, bt("int")))),
		named(box, named(bitem)), {K: "map", Key: named(findNamed(pAO, "Color")), Elem: &Ty{K: "ptr", Elem: named(findNamed("time", "Time"))}},
		{K: "array", Len: 3, Elem: dur}, {K: "chan", Elem: &Ty{K: "chan", Elem: bt("int")}},
		{K: "struct"},
		{K: "struct", Fields: []Field{{Name: "Item", Emb: true, T: named(item)}, {Name: "Item2", T: named(bitem)}, fld("A", bt("int"), `json:"a"`),
			{Name: "Duration", Emb: true, T: &Ty{K: "ptr", Elem: dur}}, fld("R", bt("rune"), ""), fld("B", bt("byte"), ""), fld("U", bt("uintptr"), ""), fld("C", bt("complex128"), "")}},
		{K: "struct", Fields: []Field{fld("A", bt("int"), "with`backquote")}},
		{K: "struct", Fields: []Field{fld("A", bt("int"), "cr\rhere")}},
		{K: "struct", Fields: []Field{fld("A", bt("int"), "nl\nhere"), fld("B", bt("string"), "é世")}},
		named(findNamed("unsafe", "Pointer")), named(findNamed("sync/atomic", "Pointer"), named(item)),
		{K: "struct", Src: pAO + "|Lit|U", Fields: []Field{{Name: "x", T: bt("int"), Origin: pAO}, fld("Y", bt("string"), `json:"y"`)}},
		{K: "struct", Src: pAO + "|Lit|E", Fields: []Field{{Name: "error", Emb: true, T: errT, Origin: pAO}, {Name: "item", Emb: true, T: named(ntype{Pkg: pAO, Name: "item"}), Origin: pAO},
			{Name: "Color", Emb: true, T: &Ty{K: "ptr", Elem: named(findNamed(pAO, "Color"))}}}},
	}
	// named interface types without methods (own package and foreign): top level, pointer / slice / array / chan / map elements and
	// keys, struct fields, embedded fields, type arguments; next to any and error
	{
		obj, anyth, bobj, pay, tok := named(findNamed(pAO, "Object")), named(findNamed(pAO, "Anything")), named(findNamed(pBO, "Object")),
			named(findNamed(pUser, "Payload")), named(findNamed("encoding/json", "Token"))
		for _, n := range []*Ty{obj, anyth, bobj, pay, tok} {
			corner = append(corner, n, &Ty{K: "ptr", Elem: n}, &Ty{K: "slice", Elem: n}, &Ty{K: "map", Key: bt("string"), Elem: n},
				&Ty{K: "struct", Fields: []Field{fld("O", n, ""), {Name: n.Name, Emb: true, T: n}}})
		}
		corner = append(corner,
			&Ty{K: "map", Key: obj, Elem: bobj}, &Ty{K: "array", Len: 2, Elem: pay}, &Ty{K: "chan", Elem: tok},
			named(list, obj), named(list, bobj), named(pair, bt("string"), obj), named(box, tok),
			&Ty{K: "struct", Fields: []Field{fld("A", &Ty{K: "any"}, ""), fld("B", obj, `json:"b"`), fld("C", bobj, ""), fld("E", errT, ""),
				{Name: "Payload", Emb: true, T: pay}, {Name: "Token", Emb: true, T: tok}, fld("S", named(findNamed(pAO, "Str")), "")}},
			&Ty{K: "slice", Elem: &Ty{K: "map", Key: bt("string"), Elem: &Ty{K: "ptr", Elem: anyth}}})
	}
	for _, t := range corner {
		for _, tg := range []struct {
			self string
			pre  []string
		}{{targetPkg, nil}, {pAO, nil}, {pBO, []string{pAO}}, {targetPkg, []string{pBO, "example.com/deep/time", pAO}}} {
			both(retarget(t, tg.self), tg.self, tg.pre, "")
		}
	}
	// packages whose candidate import name is a predeclared identifier (fixes/C03-3: the tracker must not use it)
	both(&Ty{K: "struct", Fields: []Field{fld("A", bt("string"), ""), fld("B", named(ntype{Pkg: pStr, Name: "T"}), "")}}, targetPkg, nil, "")
	both(named(list, named(ntype{Pkg: pStr, Name: "T"})), targetPkg, nil, "")
	{
		pt := func(seg string) *Ty { return named(ntype{Pkg: fxRoot + seg, Name: "T"}) }
		both(&Ty{K: "struct", Fields: []Field{fld("E", errT, ""), fld("F", pt("error"), ""), fld("A", &Ty{K: "any"}, ""), fld("B", pt("any"), ""),
			fld("I", bt("int"), ""), fld("J", pt("int"), ""), fld("K", bt("bool"), ""), fld("L", pt("bool"), "")}}, targetPkg, nil, "")
		both(&Ty{K: "map", Key: bt("string"), Elem: &Ty{K: "slice", Elem: pt("string")}}, targetPkg, []string{"example.com/string", "string"}, "")
		both(named(pair, pt("int"), bt("int")), targetPkg, nil, "")
		both(named(pair, bt("string"), pt("any")), pAO, nil, "")
		both(&Ty{K: "struct", Fields: []Field{fld("A", pt("len"), ""), fld("B", pt("new"), ""), fld("C", pt("nil"), ""), fld("D", pt("true"), ""), fld("E", pt("iota"), "")}}, targetPkg, nil, "")
		// the numbered fallback lands on a predeclared name: float3, float-3 -> float32; int3, int-3 -> int32
		both(&Ty{K: "struct", Fields: []Field{fld("A", bt("float32"), ""), fld("B", bt("int32"), ""), fld("C", named(item), "")}}, targetPkg,
			[]string{"float3", "float-3", "int3", "int-3"}, "")
		both(&Ty{K: "ptr", Elem: pt("error")}, targetPkg, []string{fxRoot + "string", "example.com/x/error"}, "T")
	}
	// the dispatch of ident.Frag on other argument kinds (tie only)
	for _, s := range []string{pAO + ".Item", pAO + ".List[" + pAO + ".Item]", "int", "", ".", "a.", ".b", "time.Duration", pAO + ".Pair[string," + pBO + ".Item]",
		"x.y[", "[]" + pAO + ".Item", pAO + ".M[" + pAO + ".L[" + pAO + ".P[a,b],c]]"} {
		out = append(out, mk(input{Self: targetPkg, Pres: "string", Str: s}), mk(input{Self: pAO, Pres: "string", Str: s, Via: "T"}))
	}
	for _, a := range []string{"Dur", "It", "Strs"} {
		out = append(out, mk(input{Self: targetPkg, Pres: "alias", Str: a}), mk(input{Self: pStd, Pres: "alias", Str: a}))
	}
	out = append(out, mk(input{Self: targetPkg, Pres: "typename", Ty: named(item), Str: "Item"}), mk(input{Self: pAO, Pres: "typename", Ty: named(item), Str: "Item"}),
		mk(input{Self: targetPkg, Pres: "typename", Ty: named(list), Str: "List[int]"}), mk(input{Self: targetPkg, Pres: "typename", Ty: named(item), Str: ""}),
		mk(input{Self: pAO, Pres: "typename", Ty: named(item), Str: ""}),
		mk(input{Self: targetPkg, Pres: "typeobj", Ty: named(item)}), mk(input{Self: targetPkg, Pres: "typeobj", Ty: named(list)}), mk(input{Self: pAO, Pres: "typeobj", Ty: named(pair)}),
		mk(input{Self: targetPkg, Pres: "other"}))

	n := 420
	if tier == "thorough" {
		n = 6000
	}
	for i := 0; i < n; i++ {
		g := &gen{r: r, out: r.Chance(18)}
		depth := 1 + r.Intn(4)
		if r.Chance(40) {
			depth = 3 + r.Intn(2)
		}
		t := g.ty(depth, false)
		for k := 0; k < 8 && depth >= 3 && t.depth() < 3; k++ { // the requested depth is a bound; keep deep requests deep
			t = g.ty(depth, false)
		}
		self, pre := g.target(t)
		t = retarget(t, self)
		if g.out {
			// keep some origins foreign in the malformed stream
			g.self = self
		}
		via := ""
		if r.Chance(20) {
			via = "T"
		}
		both(t, self, pre, via)
	}
	if tier == "thorough" {
		out = append(out, exhaustive()...)
	}
	return out
}

// exhaustive small scope: every type expression of depth <= 3 over 7 leaves and 9 constructors, three targets
func exhaustive() []json.RawMessage {
	item, list, pair := findNamed(pAO, "Item"), findNamed(pAO, "List"), findNamed(pAO, "Pair")
	leaves := []*Ty{bt("int"), bt("string"), {K: "error"}, {K: "any"}, named(item), named(findNamed(pBO, "Item")), named(findNamed("time", "Duration"))}
	cons := func(x *Ty) []*Ty {
		r := []*Ty{{K: "ptr", Elem: x}, {K: "slice", Elem: x}, {K: "array", Len: 3, Elem: x}, {K: "map", Key: bt("string"), Elem: x}, {K: "chan", Elem: x},
			{K: "struct", Fields: []Field{{Name: "F", T: x, Tag: []byte(`k:"v"`), TagQ: `"k:\"v\""`}}}}
		if n, ok := embName(x); ok && x.K != "any" && exportedASCII(n) {
			r = append(r, &Ty{K: "struct", Fields: []Field{{Name: n, Emb: true, T: x}}})
		}
		if x.K == "basic" || x.K == "error" || x.K == "named" {
			r = append(r, named(list, x), named(pair, bt("string"), x))
		}
		return r
	}
	level := leaves
	all := append([]*Ty{}, leaves...)
	for d := 0; d < 2; d++ {
		var next []*Ty
		for _, x := range level {
			next = append(next, cons(x)...)
		}
		all = append(all, next...)
		level = next
	}
	var out []json.RawMessage
	for _, t := range all {
		for _, tg := range []struct {
			self string
			pre  []string
		}{{targetPkg, nil}, {pAO, nil}, {targetPkg, []string{pBO, "example.com/deep/time"}}} {
			if _, err := t.reflectType(); err == nil {
				out = append(out, mk(input{Self: tg.self, Pre: tg.pre, Pres: "reflect", Ty: t}))
			}
			out = append(out, mk(input{Self: tg.self, Pre: tg.pre, Pres: "types", Ty: t}))
		}
	}
	return out
}

// ---- shrinking ----

func children(t *Ty) []*Ty {
	var c []*Ty
	c = append(c, t.Args...)
	if t.Elem != nil {
		c = append(c, t.Elem)
	}
	if t.Key != nil {
		c = append(c, t.Key)
	}
	for i := range t.Fields {
		c = append(c, t.Fields[i].T)
	}
	return c
}

func clone(t *Ty) *Ty {
	b, _ := json.Marshal(t)
	var c Ty
	_ = json.Unmarshal(b, &c)
	return &c
}

// smaller variants of t: a child in its place, a field/tag removed, a subterm replaced by a smaller variant of itself
func smaller(t *Ty) []*Ty {
	var out []*Ty
	out = append(out, children(t)...)
	if t.K == "struct" && t.Src == "" {
		for i := range t.Fields {
			c := clone(t)
			c.Fields = append(c.Fields[:i], c.Fields[i+1:]...)
			out = append(out, c)
			if len(t.Fields[i].Tag) > 0 {
				c2 := clone(t)
				c2.Fields[i].Tag, c2.Fields[i].TagQ = nil, ""
				out = append(out, c2)
			}
		}
	}
	if t.K != "basic" && len(children(t)) == 0 && t.K != "error" {
		out = append(out, bt("int"))
	}
	sub := func(set func(c *Ty, v *Ty), cur *Ty) {
		for _, v := range smaller(cur) {
			c := clone(t)
			set(c, v)
			out = append(out, c)
		}
	}
	for i := range t.Args {
		i := i
		sub(func(c, v *Ty) { c.Args[i] = v }, t.Args[i])
	}
	if t.Elem != nil {
		sub(func(c, v *Ty) { c.Elem = v }, t.Elem)
	}
	if t.Key != nil {
		sub(func(c, v *Ty) { c.Key = v }, t.Key)
	}
	if t.Src == "" {
		for i := range t.Fields {
			i := i
			sub(func(c, v *Ty) {
				c.Fields[i].T = v
				if c.Fields[i].Emb {
					if n, ok := embName(v); ok {
						c.Fields[i].Name = n
					} else {
						c.Fields[i].Emb = false
						c.Fields[i].Name = "F"
					}
					c.Fields[i].Origin = ""
				}
			}, t.Fields[i].T)
		}
	}
	return out
}

func (prop) Shrink(in json.RawMessage) []json.RawMessage {
	var inp input
	if json.Unmarshal(in, &inp) != nil {
		return nil
	}
	var out []json.RawMessage
	for i := range inp.Pre {
		c := inp
		c.Pre = append(append([]string{}, inp.Pre[:i]...), inp.Pre[i+1:]...)
		out = append(out, mk(c))
	}
	if inp.Via != "" {
		c := inp
		c.Via = ""
		out = append(out, mk(c))
	}
	if inp.Ty != nil && (inp.Pres == "reflect" || inp.Pres == "types") {
		seen := map[string]bool{}
		for _, v := range smaller(inp.Ty) {
			c := inp
			c.Ty = retarget(v, inp.Self)
			m := mk(c)
			if v.size() < inp.Ty.size() && !seen[string(m)] {
				seen[string(m)] = true
				out = append(out, m)
			}
		}
	}
	return out
}
