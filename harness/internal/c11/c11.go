// Package c11: type literals (snippet.ID / %T on reflect.Type and go/types Type) denote the type they were rendered from.
package c11

import (
	"bytes"
	"encoding/json"
	"fmt"
	"go/ast"
	"go/parser"
	"go/token"
	"go/types"
	"path/filepath"
	"sort"
	"strconv"
	"strings"
	"sync"

	"github.com/octohelm/gengo/pkg/gengo"
	"github.com/octohelm/gengo/pkg/gengo/snippet"
	"github.com/octohelm/gengo/pkg/namer"
	gengotypes "github.com/octohelm/gengo/pkg/types"
	typesx "github.com/octohelm/x/types"

	"verifharness/internal/core"
)

type prop struct{}

func init() { core.Register(prop{}) }

func (prop) ID() string        { return "C11" }
func (prop) CoqModule() string { return "Gengo.Corr.C11" }
func (prop) Parallel() int     { return 8 }

type input struct {
	Self string   `json:"self"`          // package path the text is rendered into
	Pre  []string `json:"pre,omitempty"` // package paths the tracker of the target file already holds, in order
	Pres string   `json:"pres"`          // reflect | types | string | typename | typeobj | alias | other
	Via  string   `json:"via,omitempty"` // "" = snippet.ID(x), "T" = snippet.Sprintf("%T", x)
	Ty   *Ty      `json:"ty,omitempty"`
	Str  string   `json:"str,omitempty"` // pres=string: the argument; pres=alias: alias name in fx/stdref
	Go   string   `json:"go,omitempty"`  // the type in Go syntax, for readers only
}

type observed struct {
	Text    string            `json:"text"`
	Panic   string            `json:"panic,omitempty"`
	Imports map[string]string `json:"imports"`
	Parsed  bool              `json:"parsed"`
	Oracle  string            `json:"oracle,omitempty"` // identical | not-identical: ... | error: ...
	Pres    string            `json:"presented_as"`
}

// notes about inputs outside the property's grammar (DESIGN section 4 #35 and friends): never violations
var (
	noteMu   sync.Mutex
	noteCnt  = map[string]int{}
	noteEx   = map[string]string{}
	noteSeen = 0
)

func addNote(kind, example string) {
	noteMu.Lock()
	defer noteMu.Unlock()
	noteCnt[kind]++
	if _, ok := noteEx[kind]; !ok {
		noteEx[kind] = example
	}
}

func (prop) Extra(_ *core.RNG, tier string, _ string) ([]string, []string, map[string]any) {
	noteMu.Lock()
	defer noteMu.Unlock()
	var ks []string
	for k := range noteCnt {
		ks = append(ks, k)
	}
	sort.Strings(ks)
	var notes []string
	for _, k := range ks {
		notes = append(notes, fmt.Sprintf("outside the grammar of C11 (not a violation): %s — %d of %d such case(s), e.g. %s", k, noteCnt[k], noteSeen, noteEx[k]))
	}
	return nil, notes, map[string]any{"out_of_grammar_cases": noteSeen, "exhaustive": tier == "thorough",
		"exhaustive_scope": "thorough: every type expression of depth <= 3 over 7 leaves and 9 constructors, 3 targets, both presentations"}
}

// ---- view of the real x/types object, exactly the accessors Dumper.TypeLit reads ----

type viewAcc struct {
	names []string // Name() of every type with a package path
	tags  []string
}

func (a *viewAcc) view(t typesx.Type, fuel int) string {
	if fuel == 0 {
		return "(VOther " + core.Hex("...") + ")"
	}
	if t.PkgPath() != "" {
		a.names = append(a.names, t.Name())
		return fmt.Sprintf("(VNamed %s %s)", core.Hex(t.PkgPath()), core.Hex(t.Name()))
	}
	switch t.Kind().String() {
	case "ptr":
		return "(VPtr " + a.view(t.Elem(), fuel-1) + ")"
	case "chan":
		return "(VChan " + a.view(t.Elem(), fuel-1) + ")"
	case "struct":
		var fs []string
		for i := 0; i < t.NumField(); i++ {
			f := t.Field(i)
			tag := string(f.Tag())
			if tag != "" {
				a.tags = append(a.tags, tag)
			}
			fs = append(fs, fmt.Sprintf("VFCons %s %s %s %s", core.Hex(f.Name()), core.CoqBool(f.Anonymous()), a.view(f.Type(), fuel-1), core.Hex(tag)))
		}
		s := "VFNil"
		for i := len(fs) - 1; i >= 0; i-- {
			s = "(" + fs[i] + " " + s + ")"
		}
		return "(VStruct " + s + ")"
	case "array":
		return fmt.Sprintf("(VArray %d %s)", t.Len(), a.view(t.Elem(), fuel-1))
	case "slice":
		return "(VSlice " + a.view(t.Elem(), fuel-1) + ")"
	case "map":
		return "(VMap " + a.view(t.Key(), fuel-1) + " " + a.view(t.Elem(), fuel-1) + ")"
	case "interface":
		return "(VIface " + core.Hex(t.Name()) + ")"
	}
	return "(VOther " + core.Hex(t.String()) + ")"
}

func coqTRef(t *gengotypes.TypeRef) string {
	s := "TRNil"
	for i := len(t.TypeList) - 1; i >= 0; i-- {
		s = "(TRCons " + coqTRef(t.TypeList[i]) + " " + s + ")"
	}
	return fmt.Sprintf("(TRef %s %s %s)", core.Hex(t.PkgPath), core.Hex(t.Name), s)
}

func coqEnv(m map[string]string) string {
	var ks []string
	for k := range m {
		ks = append(ks, k)
	}
	sort.Strings(ks)
	var items []string
	for _, k := range ks {
		items = append(items, "("+core.Hex(k)+", "+core.Hex(m[k])+")")
	}
	return core.CoqList(items)
}

// ---- reading the rendered text back: go/parser -> Model/TypeLit.v tyast ----

type back struct {
	src  string
	fset *token.FileSet
}

func (b *back) raw(n ast.Node) string {
	s, e := b.fset.Position(n.Pos()).Offset, b.fset.Position(n.End()).Offset
	if s < 0 || e > len(b.src) || s > e {
		return "(ARaw " + core.Hex("?") + ")"
	}
	return "(ARaw " + core.Hex(b.src[s:e]) + ")"
}

func (b *back) args(xs []ast.Expr) string {
	s := "ANil"
	for i := len(xs) - 1; i >= 0; i-- {
		s = "(ACons " + b.ty(xs[i]) + " " + s + ")"
	}
	return s
}

func (b *back) named(x ast.Expr, args []ast.Expr, whole ast.Node) string {
	switch n := x.(type) {
	case *ast.Ident:
		return fmt.Sprintf("(ANamed [] %s %s)", core.Hex(n.Name), b.args(args))
	case *ast.SelectorExpr:
		if q, ok := n.X.(*ast.Ident); ok {
			return fmt.Sprintf("(ANamed %s %s %s)", core.Hex(q.Name), core.Hex(n.Sel.Name), b.args(args))
		}
	}
	return b.raw(whole)
}

func (b *back) ty(x ast.Expr) string {
	switch n := x.(type) {
	case *ast.Ident, *ast.SelectorExpr:
		return b.named(n, nil, n)
	case *ast.IndexExpr:
		return b.named(n.X, []ast.Expr{n.Index}, n)
	case *ast.IndexListExpr:
		return b.named(n.X, n.Indices, n)
	case *ast.StarExpr:
		return "(AStar " + b.ty(n.X) + ")"
	case *ast.ChanType:
		if n.Dir == ast.SEND|ast.RECV {
			return "(AChan " + b.ty(n.Value) + ")"
		}
	case *ast.ArrayType:
		if n.Len == nil {
			return "(ASlice " + b.ty(n.Elt) + ")"
		}
		if l, ok := n.Len.(*ast.BasicLit); ok && l.Kind == token.INT {
			if v, err := strconv.ParseUint(l.Value, 10, 63); err == nil {
				return fmt.Sprintf("(AArray %d %s)", v, b.ty(n.Elt))
			}
		}
	case *ast.MapType:
		return "(AMap " + b.ty(n.Key) + " " + b.ty(n.Value) + ")"
	case *ast.StructType:
		var fs []string
		for _, f := range n.Fields.List {
			tag := "NoTag"
			if f.Tag != nil {
				v, err := strconv.Unquote(f.Tag.Value)
				if err != nil {
					return b.raw(n)
				}
				if strings.HasPrefix(f.Tag.Value, "`") {
					// the text between the backquotes (carriage returns included), as the model's RawTag carries it
					tag = "(RawTag " + core.Hex(f.Tag.Value[1:len(f.Tag.Value)-1]) + ")"
				} else {
					tag = "(QuotedTag " + core.Hex(v) + ")"
				}
			}
			switch len(f.Names) {
			case 0:
				fs = append(fs, fmt.Sprintf("AFCons [] true %s %s", b.ty(f.Type), tag))
			case 1:
				fs = append(fs, fmt.Sprintf("AFCons %s false %s %s", core.Hex(f.Names[0].Name), b.ty(f.Type), tag))
			default:
				return b.raw(n)
			}
		}
		s := "AFNil"
		for i := len(fs) - 1; i >= 0; i-- {
			s = "(" + fs[i] + " " + s + ")"
		}
		return "(AStruct " + s + ")"
	}
	return b.raw(x)
}

func parseBack(text string) (string, bool) {
	fset := token.NewFileSet()
	e, err := parser.ParseExprFrom(fset, "x.go", text, 0)
	if err != nil {
		return "", false
	}
	b := &back{src: text, fset: fset}
	return b.ty(e), true
}

// ---- the property's own observation point: go/types on `var X <text>` inside the target package ----

func (u *universe) oracle(self string, imports map[string]string, text string, want *Ty) string {
	name := "target"
	if p := u.pkg(self); p != nil {
		name = p.Name()
	}
	var b strings.Builder
	fmt.Fprintf(&b, "package %s\n\nimport (\n", name)
	var ps []string
	for p := range imports {
		ps = append(ps, p)
	}
	sort.Strings(ps)
	for _, p := range ps {
		if p != self && u.pkg(p) != nil {
			fmt.Fprintf(&b, "\t%s %q\n", imports[p], p)
		}
	}
	fmt.Fprintf(&b, ")\n\nvar X__c11 %s\n", text)
	f, err := parser.ParseFile(u.fset, "zz_c11_check.go", b.String(), 0)
	if err != nil {
		return "error: the check file does not parse: " + err.Error()
	}
	var errs []string
	conf := types.Config{Importer: mapImporter(u.pkg), Error: func(err error) {
		if strings.Contains(err.Error(), "imported and not used") || strings.Contains(err.Error(), "imported as") {
			return
		}
		errs = append(errs, err.Error())
	}}
	files := append(append([]*ast.File{}, u.files(self)...), f)
	pkg, _ := conf.Check(self, u.fset, files, nil)
	if len(errs) > 0 {
		return "error: " + errs[0]
	}
	obj := pkg.Scope().Lookup("X__c11")
	if obj == nil {
		return "error: variable not declared"
	}
	look := func(path string) *types.Package {
		if path == self {
			return pkg
		}
		return u.pkg(path)
	}
	exp, err := want.typesType(look)
	if err != nil {
		return "error: expected type: " + err.Error()
	}
	if types.Identical(obj.Type(), exp) {
		return "identical"
	}
	return fmt.Sprintf("not-identical: the text denotes %s, the original is %s", obj.Type(), exp)
}

// ---- running one case ----

func lastSeg(p string) string {
	if i := strings.LastIndex(p, "/"); i >= 0 {
		return p[i+1:]
	}
	return p
}

func (prop) Run(in json.RawMessage, scratch string) core.Result {
	var inp input
	var res core.Result
	if err := json.Unmarshal(in, &inp); err != nil {
		res.GoViolations = []string{"harness: bad input: " + err.Error()}
		return res
	}
	u := loadUniverse(filepath.Dir(scratch))
	if u.err != nil {
		res.GoViolations = []string{"harness: cannot load the fixture universe with types.Load: " + u.err.Error()}
		return res
	}
	ty := inp.Ty
	var x any
	var view typesx.Type
	argCoq := "IdOther"
	pres := inp.Pres
	acc := &viewAcc{}
	var extraNames []string
	switch pres {
	case "reflect", "types":
		if ty == nil {
			res.GoViolations = []string{"harness: input without a type"}
			return res
		}
		if pres == "reflect" {
			if rt, err := ty.reflectType(); err == nil {
				x, view = rt, typesx.FromRType(rt)
			} else {
				pres = "types" // reflect cannot construct it (StructOf restrictions, instantiation not compiled in)
				res.Tags = append(res.Tags, "reflect-fallback")
			}
		}
		if pres == "types" {
			tt, err := ty.typesType(u.pkg)
			if err != nil {
				// the generator produced an expression that is not a Go type (e.g. a constraint is not satisfied):
				// nothing to render, nothing to judge
				res.Tags = append(res.Tags, "not-a-type")
				res.Observed = map[string]string{"skipped": err.Error()}
				return res
			}
			x, view = tt, typesx.FromTType(tt)
		}
		if pres == "reflect" {
			argCoq = "(IdR " + acc.view(view, 12) + ")"
		} else if al, ok := x.(*types.Alias); ok {
			// ident.Frag tests for *types.Alias before types.Type: the predeclared any arrives here
			argCoq = "(IdAlias " + core.Hex(al.String()) + ")"
			_ = acc.view(view, 12)
			if r, err := gengotypes.ParseRef(al.String()); err == nil {
				extraNames = append(extraNames, r.Name())
			}
		} else {
			argCoq = "(IdT " + acc.view(view, 12) + ")"
		}
	case "string":
		x = inp.Str
		argCoq = "(IdStr " + core.Hex(inp.Str) + ")"
		if r, err := gengotypes.ParseRef(inp.Str); err == nil {
			extraNames = append(extraNames, r.Name())
		}
	case "typename", "typeobj":
		if ty == nil || ty.K != "named" {
			res.GoViolations = []string{"harness: typename input without a named type"}
			return res
		}
	case "alias":
		obj := u.pkg(pStd).Scope().Lookup(inp.Str)
		if obj == nil {
			res.GoViolations = []string{"harness: no alias " + inp.Str}
			return res
		}
		x = obj.Type()
		s := obj.Type().String()
		argCoq = "(IdAlias " + core.Hex(s) + ")"
		if r, err := gengotypes.ParseRef(s); err == nil {
			extraNames = append(extraNames, r.Name())
		}
	default:
		x = 42
	}
	if pres == "typename" || pres == "typeobj" {
		// a gengotypes.TypeName: a plain reference, or the *types.TypeName object of a declared type
		var tn gengotypes.TypeName
		var tps []string
		if pres == "typeobj" {
			obj, _ := u.pkg(ty.Pkg).Scope().Lookup(ty.Name).(*types.TypeName)
			if obj == nil {
				res.GoViolations = []string{"harness: no type object"}
				return res
			}
			tn = obj
			if named, ok := obj.Type().(*types.Named); ok && named.TypeParams() != nil {
				for i := 0; i < named.TypeParams().Len(); i++ {
					tps = append(tps, core.Hex(named.TypeParams().At(i).String()))
				}
			}
		} else {
			tn = gengotypes.Ref(ty.Pkg, inp.Str)
		}
		x = tn
		argCoq = fmt.Sprintf("(IdName %s %s %s)", core.Hex(tn.Pkg().Path()), core.Hex(tn.Name()), core.CoqList(tps))
		extraNames = append(extraNames, tn.Name())
	}
	inp.Pres = pres

	tr := namer.NewDefaultImportTracker()
	for _, p := range inp.Pre {
		tr.AddType(gengotypes.Ref(p, "X"))
	}
	init := map[string]string{}
	for k, v := range tr.Imports() {
		init[k] = v
	}
	buf := &bytes.Buffer{}
	sw := gengo.NewSnippetWriter(buf, namer.NameSystems{"raw": namer.NewRawNamer(inp.Self, tr)})
	panicked, pv := core.Recover(func() {
		if inp.Via == "T" {
			sw.Render(snippet.Sprintf("%T", x))
		} else {
			sw.Render(snippet.ID(x))
		}
	})
	obs := observed{Text: buf.String(), Imports: map[string]string{}, Pres: pres}
	for k, v := range tr.Imports() {
		obs.Imports[k] = v
	}
	if panicked {
		obs.Panic = fmt.Sprint(pv)
	}
	astCoq, parsed := "", false
	if !panicked {
		astCoq, parsed = parseBack(obs.Text)
	}
	obs.Parsed = parsed

	// domain and classes (copies of the Gallina predicates; compared in Coq on every case)
	expressible := ty != nil && (pres == "reflect" || pres == "types") && ty.expressible()
	dom := expressible && ty.inDomain(inp.Self)
	cls := expressible && ty.nestedCls()
	if dom {
		switch {
		case cls:
			res.Class = "nested_generic_arg_list"
		default:
			// the symptom of the (repaired, fixes/C03-3) defect of the import tracker; labels a report, suppresses nothing
			for _, n := range obs.Imports {
				if types.Universe.Lookup(n) != nil {
					res.Class = "import_name_predeclared"
				}
			}
		}
	}

	// the property's own observation point
	if !panicked && ty != nil && pres != "other" {
		obs.Oracle = u.oracle(inp.Self, obs.Imports, obs.Text, ty)
	}
	if dom {
		switch {
		case panicked:
			res.GoViolations = append(res.GoViolations, "rendering panicked: "+obs.Panic)
		case !parsed:
			res.GoViolations = append(res.GoViolations, fmt.Sprintf("the rendered text %q is not a Go type expression", obs.Text))
		case obs.Oracle != "identical":
			res.GoViolations = append(res.GoViolations, fmt.Sprintf("go/types on `var X %s` in package %s with the registered imports: %s", obs.Text, inp.Self, obs.Oracle))
		}
	} else if ty != nil {
		noteMu.Lock()
		noteSeen++
		noteMu.Unlock()
		switch {
		case panicked:
			addNote("rendering panics", ty.GoString()+" -> "+obs.Panic)
		case obs.Oracle != "" && obs.Oracle != "identical":
			addNote("text does not denote the type", fmt.Sprintf("%s (as %s) -> %q: %s", ty.GoString(), pres, obs.Text, obs.Oracle))
		}
	}
	res.Observed = obs

	// Coq case
	ptab := map[string]string{}
	for _, n := range append(acc.names, extraNames...) {
		if t, err := gengotypes.ParseTypeRef(n); err == nil {
			ptab[n] = "(Some " + coqTRef(t) + ")"
		} else {
			ptab[n] = "None"
		}
	}
	var ptItems, cbItems []string
	{
		var ks []string
		for k := range ptab {
			ks = append(ks, k)
		}
		sort.Strings(ks)
		for _, k := range ks {
			ptItems = append(ptItems, "("+core.Hex(k)+", "+ptab[k]+")")
		}
		seen := map[string]bool{}
		for _, t := range acc.tags {
			if !seen[t] {
				seen[t] = true
				cbItems = append(cbItems, "("+core.Hex(t)+", ("+core.CoqBool(strconv.CanBackquote(t))+", "+core.Hex(strconv.Quote(t))+"))")
			}
		}
	}
	g := "None"
	if expressible {
		g = "(Some " + ty.coq() + ")"
	}
	res.Coq = fmt.Sprintf("mk_case %s %s %s %s %s %s %s %s %s %s %s",
		core.Hex(inp.Self), coqEnv(init), argCoq, g, core.CoqBool(dom), core.CoqBool(cls),
		core.CoqList(ptItems), core.CoqList(cbItems),
		core.CoqOpt(!panicked, core.Hex(obs.Text)), core.CoqOpt(parsed, astCoq), coqEnv(obs.Imports))

	// distribution
	res.Tags = append(res.Tags, "pres:"+pres)
	if inp.Via == "T" {
		res.Tags = append(res.Tags, "via:%T")
	}
	if ty != nil && (pres == "reflect" || pres == "types") {
		switch {
		case dom:
			res.Tags = append(res.Tags, "domain:in")
		case expressible:
			res.Tags = append(res.Tags, "domain:out")
		default:
			res.Tags = append(res.Tags, "domain:outside-syntax")
		}
		fp := ty.foreignPkgs(inp.Self)
		own := false
		ty.walk(func(t *Ty) {
			if t.K == "named" && t.Pkg == inp.Self {
				own = true
			}
		})
		switch {
		case len(inp.Pre) > 0:
			res.Tags = append(res.Tags, "target:tracker-preloaded")
		case own:
			res.Tags = append(res.Tags, "target:own-package")
		default:
			res.Tags = append(res.Tags, "target:other-package")
		}
		for _, p := range append(append([]string{}, fp...), inp.Pre...) {
			if types.Universe.Lookup(strings.ToLower(lastSeg(p))) != nil {
				res.Tags = append(res.Tags, "import-candidate-predeclared") // path ending in /string, /error, /len ...
				break
			}
		}
		res.Tags = append(res.Tags, fmt.Sprintf("depth:%d", ty.depth()))
		shape := map[string]bool{}
		ty.walk(func(t *Ty) {
			switch {
			case t.K == "named" && len(t.Args) > 0:
				shape["shape:generic"] = true
			case t.K == "struct":
				shape["shape:struct"] = true
				for _, f := range t.Fields {
					if f.Emb {
						shape["shape:embedded"] = true
					}
					if len(f.Tag) > 0 {
						shape["shape:tag"] = true
						if !strconv.CanBackquote(string(f.Tag)) {
							shape["shape:tag-not-raw"] = true
						}
					}
				}
			case t.K == "error":
				shape["shape:error"] = true
			case t.K == "chan" || t.K == "map" || t.K == "array":
				shape["shape:"+t.K] = true
			}
		})
		for k := range shape {
			res.Tags = append(res.Tags, k)
		}
		res.Nontrivial = dom && (len(fp) > 0 || shape["shape:struct"] || shape["shape:generic"] || shape["shape:error"])
	} else {
		res.Tags = append(res.Tags, "malformed-or-dispatch")
	}
	if panicked {
		res.Tags = append(res.Tags, "panic")
	}
	if res.Class != "" {
		res.Tags = append(res.Tags, "class:"+res.Class)
	}
	return res
}
