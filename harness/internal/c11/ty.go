package c11

import (
	"fmt"
	"go/token"
	"go/types"
	"reflect"
	"sort"
	"strings"
	"unsafe"

	"verifharness/internal/core"
)

// Ty is a closed Go type expression (JSON round-trippable).  Everything the generator produces is one of these;
// the two presentations (reflect.Type, go/types Type) and the Coq term of the type itself are derived from it.
type Ty struct {
	K      string  `json:"k"`              // basic|error|any|named|ptr|slice|array|map|chan|struct|iface|func
	Name   string  `json:"name,omitempty"` // basic: int, byte, ...; named: the type name
	Pkg    string  `json:"pkg,omitempty"`  // named: package path
	Args   []*Ty   `json:"args,omitempty"` // named: type arguments
	Elem   *Ty     `json:"e,omitempty"`
	Key    *Ty     `json:"key,omitempty"`
	Len    int64   `json:"len,omitempty"`
	Dir    int     `json:"dir,omitempty"` // chan: 0 bidirectional, 1 send-only, 2 receive-only
	Fields []Field `json:"f,omitempty"`
	Src    string  `json:"src,omitempty"`   // struct: take the compiled/loaded literal type  <pkg>.<Type>.<Field>  instead of constructing it
	Loose  bool    `json:"loose,omitempty"` // any: present as interface{} (types.NewInterfaceType) instead of the alias any
}

type Field struct {
	Name   string `json:"n"`
	Emb    bool   `json:"emb,omitempty"`
	T      *Ty    `json:"t"`
	Tag    []byte `json:"tag,omitempty"`  // base64 in JSON: arbitrary bytes survive
	TagQ   string `json:"tagq,omitempty"` // the same, Go-quoted, for readers
	Origin string `json:"origin,omitempty"`
}

var basics = []string{"bool", "int", "int8", "int16", "int32", "int64", "uint", "uint8", "uint16", "uint32", "uint64", "uintptr",
	"float32", "float64", "complex64", "complex128", "string", "byte", "rune"}

var basicCoq = map[string]string{"bool": "BBool", "int": "BInt", "int8": "BInt8", "int16": "BInt16", "int32": "BInt32", "int64": "BInt64",
	"uint": "BUint", "uint8": "BUint8", "uint16": "BUint16", "uint32": "BUint32", "uint64": "BUint64", "uintptr": "BUintptr",
	"float32": "BFloat32", "float64": "BFloat64", "complex64": "BComplex64", "complex128": "BComplex128", "string": "BString",
	"byte": "BByte", "rune": "BRune"}

var basicR = map[string]reflect.Type{"bool": reflect.TypeFor[bool](), "int": reflect.TypeFor[int](), "int8": reflect.TypeFor[int8](),
	"int16": reflect.TypeFor[int16](), "int32": reflect.TypeFor[int32](), "int64": reflect.TypeFor[int64](), "uint": reflect.TypeFor[uint](),
	"uint8": reflect.TypeFor[uint8](), "uint16": reflect.TypeFor[uint16](), "uint32": reflect.TypeFor[uint32](), "uint64": reflect.TypeFor[uint64](),
	"uintptr": reflect.TypeFor[uintptr](), "float32": reflect.TypeFor[float32](), "float64": reflect.TypeFor[float64](),
	"complex64": reflect.TypeFor[complex64](), "complex128": reflect.TypeFor[complex128](), "string": reflect.TypeFor[string](),
	"byte": reflect.TypeFor[byte](), "rune": reflect.TypeFor[rune]()}

var predeclared = map[string]bool{"error": true, "any": true}

func init() {
	for _, b := range basics {
		predeclared[b] = true
	}
}

func canonBasic(n string) string {
	switch n {
	case "byte":
		return "uint8"
	case "rune":
		return "int32"
	}
	return n
}

// Key is the full name of the type as reflect prints it inside a generic type's Name(): the registry key.
func (t *Ty) RKey() string {
	switch t.K {
	case "basic":
		return canonBasic(t.Name)
	case "error":
		return "error"
	case "any":
		return "interface {}"
	case "named":
		s := t.Pkg + "." + t.Name
		if len(t.Args) > 0 {
			var a []string
			for _, x := range t.Args {
				a = append(a, x.RKey())
			}
			s += "[" + strings.Join(a, ",") + "]"
		}
		return s
	case "ptr":
		return "*" + t.Elem.RKey()
	case "slice":
		return "[]" + t.Elem.RKey()
	case "array":
		return fmt.Sprintf("[%d]%s", t.Len, t.Elem.RKey())
	case "map":
		return "map[" + t.Key.RKey() + "]" + t.Elem.RKey()
	case "struct":
		if len(t.Fields) == 0 {
			return "struct {}"
		}
	}
	return "?" + t.K
}

// GoString renders the expression in Go syntax with full package paths (for readers of replays / evidence).
func (t *Ty) GoString() string {
	if t == nil {
		return "<nil>"
	}
	switch t.K {
	case "basic":
		return t.Name
	case "error", "any":
		return t.K
	case "named":
		s := t.Pkg + "." + t.Name
		if len(t.Args) > 0 {
			var a []string
			for _, x := range t.Args {
				a = append(a, x.GoString())
			}
			s += "[" + strings.Join(a, ", ") + "]"
		}
		return s
	case "ptr":
		return "*" + t.Elem.GoString()
	case "slice":
		return "[]" + t.Elem.GoString()
	case "array":
		return fmt.Sprintf("[%d]%s", t.Len, t.Elem.GoString())
	case "map":
		return "map[" + t.Key.GoString() + "]" + t.Elem.GoString()
	case "chan":
		return []string{"chan ", "chan<- ", "<-chan "}[t.Dir%3] + t.Elem.GoString()
	case "struct":
		var fs []string
		for _, f := range t.Fields {
			s := f.T.GoString()
			if !f.Emb {
				s = f.Name + " " + s
			}
			if len(f.Tag) > 0 {
				s += fmt.Sprintf(" %q", f.Tag)
			}
			fs = append(fs, s)
		}
		return "struct{" + strings.Join(fs, "; ") + "}"
	case "iface":
		return "interface{ M() }"
	case "func":
		return "func(int) string"
	}
	return "?" + t.K
}

func (t *Ty) walk(f func(*Ty)) {
	if t == nil {
		return
	}
	f(t)
	for _, a := range t.Args {
		a.walk(f)
	}
	t.Elem.walk(f)
	t.Key.walk(f)
	for i := range t.Fields {
		t.Fields[i].T.walk(f)
	}
}

func (t *Ty) size() int { n := 0; t.walk(func(*Ty) { n++ }); return n }

func (t *Ty) depth() int {
	if t == nil {
		return 0
	}
	d := 0
	for _, a := range t.Args {
		d = max(d, a.depth())
	}
	d = max(d, t.Elem.depth(), t.Key.depth())
	for i := range t.Fields {
		d = max(d, t.Fields[i].T.depth())
	}
	return d + 1
}

func isIdent(s string) bool {
	if s == "" {
		return false
	}
	for i := 0; i < len(s); i++ {
		c := s[i]
		if !(c == '_' || '0' <= c && c <= '9' || 'a' <= c && c <= 'z' || 'A' <= c && c <= 'Z') {
			return false
		}
	}
	return true
}

func exportedASCII(s string) bool { return s != "" && 'A' <= s[0] && s[0] <= 'Z' }

// expressible: the Coq type gty has a term for it (the grammar's syntax, in or out of its domain)
func (t *Ty) expressible() bool {
	ok := true
	t.walk(func(x *Ty) {
		switch x.K {
		case "iface", "func":
			ok = false
		case "chan":
			if x.Dir != 0 {
				ok = false
			}
		case "array":
			if x.Len < 0 {
				ok = false
			}
		}
	})
	return ok
}

func embName(t *Ty) (string, bool) {
	switch t.K {
	case "basic":
		return canonBasic(t.Name), true
	case "error", "any":
		return t.K, true
	case "named":
		return t.Name, true
	case "ptr":
		if t.Elem.K == "named" {
			return t.Elem.Name, true
		}
	}
	return "", false
}

// inDomain mirrors Spec/TypeLit.v in_domain (with every tag allowed); compared with the Gallina copy on every case.
func (t *Ty) inDomain(self string) bool {
	switch t.K {
	case "basic", "error", "any":
		return true
	case "named":
		if t.Pkg == "" || strings.ContainsAny(t.Pkg, "[],") || !isIdent(t.Name) || predeclared[t.Name] {
			return false
		}
		if t.Pkg != self && !exportedASCII(t.Name) {
			return false
		}
		for _, a := range t.Args {
			if !(a.K == "basic" || a.K == "error" || a.K == "named") || !a.inDomain(self) {
				return false
			}
		}
		return true
	case "ptr", "slice", "array":
		return t.Elem.inDomain(self)
	case "chan":
		return t.Dir == 0 && t.Elem.inDomain(self)
	case "map":
		return t.Key.inDomain(self) && t.Elem.inDomain(self)
	case "struct":
		for _, f := range t.Fields {
			if f.Emb {
				n, ok := embName(f.T)
				if !ok || n != f.Name {
					return false
				}
			}
			if !isIdent(f.Name) {
				return false
			}
			want := ""
			if !exportedASCII(f.Name) {
				want = self
			}
			if f.Origin != want || !f.T.inDomain(self) {
				return false
			}
		}
		return true
	}
	return false
}

func isGeneric(t *Ty) bool { return t.K == "named" && len(t.Args) > 0 }

func badArg(t *Ty) bool {
	if t.K != "named" {
		return false
	}
	for i := 0; i+1 < len(t.Args); i++ {
		if isGeneric(t.Args[i]) {
			return true
		}
	}
	return false
}

// nestedCls mirrors Corr/C11.v nested_cls: the known-finding class nested_generic_arg_list.
func (t *Ty) nestedCls() bool {
	r := false
	t.walk(func(x *Ty) {
		if x.K == "named" {
			for _, a := range x.Args {
				if badArg(a) {
					r = true
				}
			}
		}
	})
	return r
}

func (t *Ty) foreignPkgs(self string) []string {
	m := map[string]bool{}
	t.walk(func(x *Ty) {
		if x.K == "named" && x.Pkg != self {
			m[x.Pkg] = true
		}
	})
	var out []string
	for k := range m {
		out = append(out, k)
	}
	sort.Strings(out)
	return out
}

// ---- Coq term of the type itself (Spec/TypeLit.v gty) ----

func (t *Ty) coq() string {
	switch t.K {
	case "basic":
		return "(GBasic " + basicCoq[t.Name] + ")"
	case "error":
		return "GError"
	case "any":
		return "GAny"
	case "named":
		a := "GNil"
		for i := len(t.Args) - 1; i >= 0; i-- {
			a = "(GCons " + t.Args[i].coq() + " " + a + ")"
		}
		return fmt.Sprintf("(GNamed %s %s %s)", core.Hex(t.Pkg), core.Hex(t.Name), a)
	case "ptr":
		return "(GPtr " + t.Elem.coq() + ")"
	case "chan":
		return "(GChan " + t.Elem.coq() + ")"
	case "slice":
		return "(GSlice " + t.Elem.coq() + ")"
	case "array":
		return fmt.Sprintf("(GArray %d %s)", t.Len, t.Elem.coq())
	case "map":
		return "(GMap " + t.Key.coq() + " " + t.Elem.coq() + ")"
	case "struct":
		s := "GFNil"
		for i := len(t.Fields) - 1; i >= 0; i-- {
			f := t.Fields[i]
			s = fmt.Sprintf("(GFCons %s %s %s %s %s %s)", core.Hex(f.Name), core.CoqBool(f.Emb), core.Hex(f.Origin), f.T.coq(), core.Hex(string(f.Tag)), s)
		}
		return "(GStruct " + s + ")"
	}
	return "GAny"
}

// ---- presentation as reflect.Type ----

var rtypes = map[string]reflect.Type{} // named types compiled into the harness, by Key()
var rsrc = map[string]reflect.Type{}   // struct literal types compiled into the fixture packages, by Src

func reg(t reflect.Type) { rtypes[t.PkgPath()+"."+t.Name()] = t }

func (t *Ty) reflectType() (rt reflect.Type, err error) {
	defer func() {
		if r := recover(); r != nil {
			rt, err = nil, fmt.Errorf("reflect constructor: %v", r)
		}
	}()
	return t.rt()
}

func (t *Ty) rt() (reflect.Type, error) {
	switch t.K {
	case "basic":
		return basicR[t.Name], nil
	case "error":
		return reflect.TypeFor[error](), nil
	case "any":
		return reflect.TypeFor[any](), nil
	case "named":
		if t.Pkg == "unsafe" && t.Name == "Pointer" {
			return reflect.TypeFor[unsafe.Pointer](), nil
		}
		if r, ok := rtypes[t.RKey()]; ok {
			return r, nil
		}
		return nil, fmt.Errorf("not compiled into the harness: %s", t.RKey())
	case "ptr", "slice", "array", "chan":
		e, err := t.Elem.rt()
		if err != nil {
			return nil, err
		}
		switch t.K {
		case "ptr":
			return reflect.PointerTo(e), nil
		case "slice":
			return reflect.SliceOf(e), nil
		case "array":
			return reflect.ArrayOf(int(t.Len), e), nil
		}
		return reflect.ChanOf([]reflect.ChanDir{reflect.BothDir, reflect.SendDir, reflect.RecvDir}[t.Dir%3], e), nil
	case "map":
		k, err := t.Key.rt()
		if err != nil {
			return nil, err
		}
		e, err := t.Elem.rt()
		if err != nil {
			return nil, err
		}
		return reflect.MapOf(k, e), nil
	case "struct":
		if t.Src != "" {
			if r, ok := rsrc[t.Src]; ok {
				return r, nil
			}
			return nil, fmt.Errorf("no compiled literal type %s", t.Src)
		}
		var fs []reflect.StructField
		for _, f := range t.Fields {
			ft, err := f.T.rt()
			if err != nil {
				return nil, err
			}
			sf := reflect.StructField{Name: f.Name, Type: ft, Tag: reflect.StructTag(f.Tag), Anonymous: f.Emb}
			if !exportedASCII(f.Name) {
				sf.PkgPath = f.Origin
			}
			fs = append(fs, sf)
		}
		return reflect.StructOf(fs), nil
	case "iface":
		return reflect.TypeFor[interface{ M() }](), nil
	case "func":
		return reflect.TypeFor[func(int) string](), nil
	}
	return nil, fmt.Errorf("unknown kind %q", t.K)
}

// ---- presentation as go/types Type ----

type pkgLookup func(path string) *types.Package

func (t *Ty) typesType(look pkgLookup) (tt types.Type, err error) {
	defer func() {
		if r := recover(); r != nil {
			tt, err = nil, fmt.Errorf("go/types constructor: %v", r)
		}
	}()
	return t.tt(look)
}

func (t *Ty) tt(look pkgLookup) (types.Type, error) {
	switch t.K {
	case "basic":
		return types.Universe.Lookup(t.Name).Type(), nil
	case "error":
		return types.Universe.Lookup("error").Type(), nil
	case "any":
		if t.Loose {
			return types.NewInterfaceType(nil, nil).Complete(), nil
		}
		return types.Universe.Lookup("any").Type(), nil
	case "named":
		if t.Pkg == "unsafe" && t.Name == "Pointer" {
			return types.Typ[types.UnsafePointer], nil
		}
		p := look(t.Pkg)
		if p == nil {
			return nil, fmt.Errorf("package %s not loaded", t.Pkg)
		}
		obj := p.Scope().Lookup(t.Name)
		if obj == nil {
			return nil, fmt.Errorf("%s.%s not declared", t.Pkg, t.Name)
		}
		if len(t.Args) == 0 {
			return obj.Type(), nil
		}
		var args []types.Type
		for _, a := range t.Args {
			x, err := a.tt(look)
			if err != nil {
				return nil, err
			}
			args = append(args, x)
		}
		return types.Instantiate(nil, obj.Type(), args, true)
	case "ptr", "slice", "array", "chan":
		e, err := t.Elem.tt(look)
		if err != nil {
			return nil, err
		}
		switch t.K {
		case "ptr":
			return types.NewPointer(e), nil
		case "slice":
			return types.NewSlice(e), nil
		case "array":
			return types.NewArray(e, t.Len), nil
		}
		return types.NewChan([]types.ChanDir{types.SendRecv, types.SendOnly, types.RecvOnly}[t.Dir%3], e), nil
	case "map":
		k, err := t.Key.tt(look)
		if err != nil {
			return nil, err
		}
		e, err := t.Elem.tt(look)
		if err != nil {
			return nil, err
		}
		return types.NewMap(k, e), nil
	case "struct":
		if t.Src != "" {
			parts := strings.Split(t.Src, "|") // pkg|Type|Field
			p := look(parts[0])
			if p == nil {
				return nil, fmt.Errorf("package %s not loaded", parts[0])
			}
			st := p.Scope().Lookup(parts[1]).Type().Underlying().(*types.Struct)
			for i := 0; i < st.NumFields(); i++ {
				if st.Field(i).Name() == parts[2] {
					return st.Field(i).Type(), nil
				}
			}
			return nil, fmt.Errorf("no field %s", t.Src)
		}
		var fs []*types.Var
		var tags []string
		for _, f := range t.Fields {
			ft, err := f.T.tt(look)
			if err != nil {
				return nil, err
			}
			var fp *types.Package
			if f.Origin != "" {
				fp = look(f.Origin)
				if fp == nil {
					fp = types.NewPackage(f.Origin, "p")
				}
			}
			fs = append(fs, types.NewField(token.NoPos, fp, f.Name, ft, f.Emb))
			tags = append(tags, string(f.Tag))
		}
		return types.NewStruct(fs, tags), nil
	case "iface":
		sig := types.NewSignatureType(nil, nil, nil, nil, nil, false)
		return types.NewInterfaceType([]*types.Func{types.NewFunc(token.NoPos, nil, "M", sig)}, nil).Complete(), nil
	case "func":
		return types.NewSignatureType(nil, nil, nil, types.NewTuple(types.NewVar(token.NoPos, nil, "", types.Typ[types.Int])),
			types.NewTuple(types.NewVar(token.NoPos, nil, "", types.Typ[types.String])), false), nil
	}
	return nil, fmt.Errorf("unknown kind %q", t.K)
}
