package c11

import (
	"encoding/json"
	"fmt"
	"go/ast"
	"go/token"
	"go/types"
	"math/big"
	"net/url"
	"os"
	"path/filepath"
	"reflect"
	"sort"
	"sync"
	"sync/atomic"
	"time"

	gengotypes "github.com/octohelm/gengo/pkg/types"

	ao "verifharness/internal/c11/fx/a/o"
	fxany "verifharness/internal/c11/fx/any"
	bo "verifharness/internal/c11/fx/b/o"
	fxbool "verifharness/internal/c11/fx/bool"
	"verifharness/internal/c11/fx/domain/user"
	fxerror "verifharness/internal/c11/fx/error"
	fxint "verifharness/internal/c11/fx/int"
	fxiota "verifharness/internal/c11/fx/iota"
	fxjson "verifharness/internal/c11/fx/json"
	fxlen "verifharness/internal/c11/fx/len"
	fxnew "verifharness/internal/c11/fx/new"
	fxnil "verifharness/internal/c11/fx/nil"
	"verifharness/internal/c11/fx/stdref"
	fxstring "verifharness/internal/c11/fx/string"
	fxtrue "verifharness/internal/c11/fx/true"
	v2 "verifharness/internal/c11/fx/v2"
)

const fxRoot = "verifharness/internal/c11/fx/"

const (
	pAO   = fxRoot + "a/o"
	pBO   = fxRoot + "b/o"
	pJSON = fxRoot + "json"
	pUser = fxRoot + "domain/user"
	pV2   = fxRoot + "v2"
	pStr  = fxRoot + "string"
	pStd  = fxRoot + "stdref"
)

// fixture packages whose last path segment is a predeclared identifier (besides pStr); each declares type T
var predeclPkgs = []string{pStr, fxRoot + "error", fxRoot + "any", fxRoot + "int", fxRoot + "bool", fxRoot + "len", fxRoot + "new", fxRoot + "nil",
	fxRoot + "true", fxRoot + "iota"}

// sources of the fixture packages (each embeds its own file), mirrored into a synthetic module at run time
var fxSources = map[string]string{
	"internal/c11/fx/a/o/o.go":            ao.Source,
	"internal/c11/fx/b/o/o.go":            bo.Source,
	"internal/c11/fx/json/json.go":        fxjson.Source,
	"internal/c11/fx/domain/user/user.go": user.Source,
	"internal/c11/fx/v2/v2.go":            v2.Source,
	"internal/c11/fx/string/string.go":    fxstring.Source,
	"internal/c11/fx/stdref/stdref.go":    stdref.Source,
	"internal/c11/fx/error/error.go":      fxerror.Source,
	"internal/c11/fx/any/any.go":          fxany.Source,
	"internal/c11/fx/int/int.go":          fxint.Source,
	"internal/c11/fx/bool/bool.go":        fxbool.Source,
	"internal/c11/fx/len/len.go":          fxlen.Source,
	"internal/c11/fx/new/new.go":          fxnew.Source,
	"internal/c11/fx/nil/nil.go":          fxnil.Source,
	"internal/c11/fx/true/true.go":        fxtrue.Source,
	"internal/c11/fx/iota/iota.go":        fxiota.Source,
}

func init() {
	for _, t := range []reflect.Type{
		reflect.TypeFor[ao.Item](), reflect.TypeFor[ao.Color](), reflect.TypeFor[ao.Str](), reflect.TypeFor[ao.Object](), reflect.TypeFor[ao.Anything](),
		reflect.TypeFor[bo.Object](), reflect.TypeFor[user.Payload](), reflect.TypeFor[json.Token](),
		reflect.TypeFor[ao.List[ao.Object]](), reflect.TypeFor[ao.List[bo.Object]](), reflect.TypeFor[ao.Pair[string, ao.Object]](), reflect.TypeFor[bo.Box[json.Token]](),
		 reflect.TypeFor[ao.Ptr](), reflect.TypeFor[ao.Dict](),
		reflect.TypeFor[ao.Fn](), reflect.TypeFor[ao.Lit](), reflect.TypeFor[bo.Item](), reflect.TypeFor[bo.Color](), reflect.TypeFor[fxjson.Raw](),
		reflect.TypeFor[user.User](), reflect.TypeFor[user.ID](), reflect.TypeFor[v2.Thing](), reflect.TypeFor[fxstring.T](),
		reflect.TypeFor[time.Duration](), reflect.TypeFor[time.Time](), reflect.TypeFor[url.URL](), reflect.TypeFor[json.RawMessage](),
		reflect.TypeFor[big.Int](), reflect.TypeFor[atomic.Int64](),
		reflect.TypeFor[fxerror.T](), reflect.TypeFor[fxany.T](), reflect.TypeFor[fxint.T](), reflect.TypeFor[fxbool.T](), reflect.TypeFor[fxlen.T](),
		reflect.TypeFor[fxnew.T](), reflect.TypeFor[fxnil.T](), reflect.TypeFor[fxtrue.T](), reflect.TypeFor[fxiota.T](),
		reflect.TypeFor[ao.List[fxerror.T]](), reflect.TypeFor[ao.Pair[fxint.T, int]](), reflect.TypeFor[ao.Pair[string, fxany.T]](),
		// generic instantiations (reflect cannot instantiate at run time): named or basic arguments
		reflect.TypeFor[ao.List[int]](), reflect.TypeFor[ao.List[string]](), reflect.TypeFor[ao.List[byte]](), reflect.TypeFor[ao.List[error]](),
		reflect.TypeFor[ao.List[ao.Item]](), reflect.TypeFor[ao.List[bo.Item]](), reflect.TypeFor[ao.List[time.Duration]](),
		reflect.TypeFor[ao.List[user.ID]](), reflect.TypeFor[ao.List[ao.List[int]]](), reflect.TypeFor[ao.List[ao.Pair[string, int]]](),
		reflect.TypeFor[ao.List[fxstring.T]](),
		reflect.TypeFor[ao.Pair[string, int]](), reflect.TypeFor[ao.Pair[int, string]](), reflect.TypeFor[ao.Pair[ao.Color, ao.Item]](),
		reflect.TypeFor[ao.Pair[string, ao.List[ao.Item]]](), reflect.TypeFor[ao.Pair[ao.Pair[int, string], ao.Color]](),
		reflect.TypeFor[ao.Pair[user.ID, bo.List[ao.Item]]](), reflect.TypeFor[ao.Pair[fxstring.T, int]](),
		reflect.TypeFor[ao.Tri[int, ao.List[int], string]](), reflect.TypeFor[ao.Tri[ao.Item, bo.Item, fxjson.Raw]](),
		reflect.TypeFor[ao.List[ao.Tri[int, string, ao.List[int]]]](),
		reflect.TypeFor[bo.List[ao.Item]](), reflect.TypeFor[bo.List[int]](), reflect.TypeFor[bo.Box[ao.Item]](), reflect.TypeFor[bo.Box[string]](),
		reflect.TypeFor[fxjson.Opt[time.Time]](), reflect.TypeFor[fxjson.Opt[int]](), reflect.TypeFor[fxjson.Opt[ao.List[bo.Item]]](),
		reflect.TypeFor[v2.Set[string]](), reflect.TypeFor[v2.Set[user.ID]](), reflect.TypeFor[atomic.Pointer[ao.Item]](),
		// the class nested_generic_arg_list (C15 defect #11)
		reflect.TypeFor[ao.List[ao.Pair[ao.Pair[int, string], ao.Color]]](), reflect.TypeFor[ao.List[ao.Tri[ao.List[int], int, string]]](),
		reflect.TypeFor[bo.Box[ao.Tri[bo.List[int], int, string]]](),
		// outside the grammar (DESIGN section 4 #35): arguments that are neither named nor basic
		reflect.TypeFor[ao.List[[]ao.Item]](), reflect.TypeFor[ao.List[*ao.Item]](), reflect.TypeFor[ao.List[map[string]ao.Item]](),
		reflect.TypeFor[ao.List[any]](), reflect.TypeFor[ao.Pair[string, struct{}]](),
	} {
		reg(t)
	}
	lit := reflect.TypeFor[ao.Lit]()
	for i := 0; i < lit.NumField(); i++ {
		rsrc[pAO+"|Lit|"+lit.Field(i).Name] = lit.Field(i).Type
	}
	it := rsrc[pAO+"|Lit|E"].Field(1).Type // the unexported named type a/o.item
	rtypes[it.PkgPath()+"."+it.Name()] = it
}

// registered instantiations as Ty values (so that the generator can pick ones reflect can present)
func registeredKeys() []string {
	var ks []string
	for k := range rtypes {
		ks = append(ks, k)
	}
	sort.Strings(ks)
	return ks
}

// ---- the loaded universe (go/types presentation and the type-checking oracle) ----

type universe struct {
	u    *gengotypes.Universe
	fset *token.FileSet
	err  error
}

var (
	uniOnce sync.Once
	uni     universe
)

// loadUniverse mirrors the fixture packages into <dir>/c11mod (module verifharness) and loads them with the
// repository's own loader (gengotypes.Load = packages.Load + go/types), standard-library dependencies included.
func loadUniverse(dir string) *universe {
	uniOnce.Do(func() {
		root := filepath.Join(dir, "c11mod")
		uni.err = func() error {
			if err := os.MkdirAll(root, 0o755); err != nil {
				return err
			}
			if err := os.WriteFile(filepath.Join(root, "go.mod"), []byte("module verifharness\n\ngo 1.24.2\n"), 0o644); err != nil {
				return err
			}
			for rel, src := range fxSources {
				p := filepath.Join(root, rel)
				if err := os.MkdirAll(filepath.Dir(p), 0o755); err != nil {
					return err
				}
				if err := os.WriteFile(p, []byte(src), 0o644); err != nil {
					return err
				}
			}
			u, err := gengotypes.Load([]string{"./..."}, gengotypes.WithDir(root))
			if err != nil {
				return err
			}
			uni.u = u
			for _, p := range append([]string{pAO, pBO, pJSON, pUser, pV2, pStd, "time", "net/url", "encoding/json", "math/big", "sync/atomic"}, predeclPkgs...) {
				if u.Package(p) == nil {
					return fmt.Errorf("package %s missing from the loaded universe", p)
				}
			}
			uni.fset = u.Package(pAO).FileSet()
			return nil
		}()
	})
	return &uni
}

func (u *universe) pkg(path string) *types.Package {
	if path == "unsafe" {
		return types.Unsafe
	}
	if p := u.u.Package(path); p != nil {
		return p.Pkg()
	}
	return nil
}

func (u *universe) files(path string) []*ast.File {
	if p := u.u.Package(path); p != nil {
		return p.Files()
	}
	return nil
}

type mapImporter func(path string) *types.Package

func (m mapImporter) Import(path string) (*types.Package, error) {
	if p := m(path); p != nil {
		return p, nil
	}
	return nil, fmt.Errorf("package %q is not part of the loaded universe", path)
}
