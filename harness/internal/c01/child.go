package c01

// The supervised child: writes one synthetic module to disk, registers the scripted generators through the
// public API (gengo.Register), runs gengo.NewContext(...).Execute on it and reports what is on disk afterwards.
// Next to every c.Render(s) the same snippet is rendered through a second, harness-owned SnippetWriter
// (gengo.NewSnippetWriter over a recording io.Writer + a fresh namer.NewDefaultImportTracker for the same package
// path): that is the only way to observe, through exported API, the fragment sequence and the import table a
// generator produced (the genfile's own buffer and tracker are unexported).

import (
	"context"
	"encoding/json"
	"errors"
	"fmt"
	"go/scanner"
	"go/types"
	"iter"
	"os"
	"path/filepath"
	"runtime/debug"
	"sort"
	"strings"

	"github.com/octohelm/gengo/pkg/gengo"
	"github.com/octohelm/gengo/pkg/gengo/snippet"
	"github.com/octohelm/gengo/pkg/namer"

	"verifharness/internal/core"
)

func init() { core.Children["c01-child"] = childMain }

// ---- input ----

type Snip struct {
	K   string   `json:"k"`             // nil | block | comment | directive | snippets | id | expose | t | sprintf | lazy | render (member of lazy)
	S   []byte   `json:"s,omitempty"`   // text: block / comment / directive name / id reference / expose path / format
	Q   string   `json:"q,omitempty"`   // the same text Go-quoted, for readers only
	A   []string `json:"a,omitempty"`   // directive arguments; expose: [name]; lazy: [form] (snippets | func); render: [once-key] ("" = every time)
	Sub []Snip   `json:"sub,omitempty"` // members (snippets, lazy); arguments a0,a1,… (t); positional arguments (sprintf); render: the snippets of the nested Render calls
}

type Gen struct {
	Name  string   `json:"name"`
	Calls [][]Snip `json:"calls"`           // Calls[k] is rendered in the k-th GenerateType call (types in sorted order)
	Defer []Snip   `json:"defer,omitempty"` // rendered by a c.Defer callback registered in the first call
}

type Input struct {
	ModPath string   `json:"mod"`
	GoVer   string   `json:"go"`
	Dir     string   `json:"dir"` // package directory relative to the module root ("" = root)
	PkgName string   `json:"pkg"`
	Types   []string `json:"types"`
	Base    string   `json:"base"` // OutputFileBaseName
	All     bool     `json:"all,omitempty"`
	Prev    bool     `json:"prev,omitempty"` // every generator has a (longer, valid) previous output file in place
	Gens    []Gen    `json:"gens"`
	// Mod2: a second module (own go.mod, reached from the first through require + replace) with one package that
	// enables the same generators; its import path is the second entrypoint of the ONE Execute call
	Mod2 *Module `json:"mod2,omitempty"`
}

type Module struct {
	ModPath string   `json:"mod"`
	GoVer   string   `json:"go"`
	Dir     string   `json:"dir"`
	PkgName string   `json:"pkg"`
	Types   []string `json:"types"`
}

// npkgs: number of target packages of the case (1, or 2 with a second module)
func (in *Input) npkgs() int {
	if in.Mod2 != nil {
		return 2
	}
	return 1
}

// view: the input as seen from its k-th target package (module path, go directive, directory, package name, types)
func (in *Input) view(k int) *Input {
	if k == 0 || in.Mod2 == nil {
		return in
	}
	c := *in
	c.ModPath, c.GoVer, c.Dir, c.PkgName, c.Types = in.Mod2.ModPath, in.Mod2.GoVer, in.Mod2.Dir, in.Mod2.PkgName, in.Mod2.Types
	c.Mod2 = nil
	return &c
}

func (in *Input) pkgPath() string {
	if in.Dir != "" {
		return in.ModPath + "/" + in.Dir
	}
	return in.ModPath
}

func pseudoVersion(modPath string) string {
	if i := strings.LastIndex(modPath, "/v"); i >= 0 {
		if n := modPath[i+2:]; n != "" && strings.Trim(n, "0123456789") == "" && n != "0" && n != "1" {
			return "v" + n + ".0.0"
		}
	}
	return "v0.0.0"
}

// ---- output ----

type GenObs struct {
	Pkg     int         `json:"pkg,omitempty"` // index of the target package (0 = first module, 1 = second module)
	Name    string      `json:"name"`
	Calls   int         `json:"calls"`
	Renders [][][]byte  `json:"renders"` // per Render call, the fragments written
	Imports [][2]string `json:"imports"` // (path, name) in map-iteration order
	HasFile bool        `json:"has_file"`
	File    []byte      `json:"file,omitempty"`
}

type ChildOut struct {
	LoadErr string   `json:"load_err,omitempty"`
	Err     string   `json:"err,omitempty"`
	ErrKind string   `json:"err_kind,omitempty"` // "" | parse | other
	Panic   string   `json:"panic,omitempty"`
	PkgPath string   `json:"pkg_path"`
	Gens    []GenObs `json:"gens"`
	Others  []string `json:"others,omitempty"` // other files in the package directory after the run
	GoVers  []string `json:"go_vers,omitempty"` // go directive of each module's go.mod AFTER the run (the go command may raise it)
}

// renv: what a lazily evaluated snippet needs for its NESTED Render calls - the writer that is rendering it (the
// generator's Context, or the harness's shadow writer) and that writer's "helper already created" keys
type renv struct {
	w    interface{ Render(snippet.Snippet) }
	once map[string]bool
}

func toSnippet(s Snip) snippet.Snippet { return toSnippetW(s, nil) }

// lazy: a sequence that is evaluated while the writer iterates it.  A member of kind "render" yields nothing: at that
// point of the iteration it calls Render on the SAME writer for each of its snippets (the bundled generators'
// createHelperOnce idiom, called from inside a snippet: a method is emitted, the shared helper it needs is created the
// moment it is first needed, the registration follows).  With a once-key the nested calls are made only the first time
// the key is met by this generator instance.  Form "snippets": snippet.Snippets; form "func": snippet.Func.
func lazySnippet(s Snip, env *renv) snippet.Snippet {
	if env == nil {
		panic("c01: lazy snippet outside a writer")
	}
	members := s.Sub
	nested := func(m Snip) {
		if len(m.A) > 0 && m.A[0] != "" {
			if env.once[m.A[0]] {
				return
			}
			env.once[m.A[0]] = true
		}
		for _, x := range m.Sub {
			env.w.Render(toSnippetW(x, env))
		}
	}
	if len(s.A) > 0 && s.A[0] == "func" {
		return snippet.Func(func(ctx context.Context) iter.Seq[string] {
			return func(yield func(string) bool) {
				for _, m := range members {
					if m.K == "render" {
						nested(m)
						continue
					}
					for f := range snippet.Fragments(ctx, toSnippetW(m, env)) {
						if !yield(f) {
							return
						}
					}
				}
			}
		})
	}
	return snippet.Snippets(func(yield func(snippet.Snippet) bool) {
		for _, m := range members {
			if m.K == "render" {
				nested(m)
				continue
			}
			if !yield(toSnippetW(m, env)) {
				return
			}
		}
	})
}

func toSnippetW(s Snip, env *renv) snippet.Snippet {
	switch s.K {
	case "lazy":
		return lazySnippet(s, env)
	case "nil":
		return nil
	case "block":
		return snippet.Block(string(s.S))
	case "comment":
		return snippet.Comment(string(s.S))
	case "directive":
		return snippet.GoDirective(string(s.S), s.A...)
	case "snippets":
		subs := s.Sub
		return snippet.Snippets(func(yield func(snippet.Snippet) bool) {
			for _, x := range subs {
				if !yield(toSnippetW(x, env)) {
					return
				}
			}
		})
	case "id":
		return snippet.ID(string(s.S))
	case "expose":
		name := ""
		if len(s.A) > 0 {
			name = s.A[0]
		}
		return snippet.PkgExpose(string(s.S), name)
	case "t":
		var args []snippet.TArg
		for i, x := range s.Sub {
			args = append(args, snippet.Arg(fmt.Sprintf("a%d", i), toSnippet(x)))
		}
		return snippet.T(string(s.S), args...)
	case "sprintf":
		var args []any
		for _, x := range s.Sub {
			args = append(args, toSnippet(x))
		}
		return snippet.Sprintf(string(s.S), args...)
	}
	panic("c01: unknown snippet kind " + s.K)
}

type recWriter struct{ cur [][]byte }

func (w *recWriter) Write(p []byte) (int, error) {
	w.cur = append(w.cur, append([]byte(nil), p...))
	return len(p), nil
}

type recorder struct {
	calls   int
	renders [][][]byte
	w       *recWriter
	sw      gengo.SnippetWriter
	tracker namer.ImportTracker
	once    map[string]bool // once-keys of nested Render calls met by the shadow rendering
}

type scripted struct {
	script *Gen
	recs   map[string]*recorder // by package path; shared by all instances of this generator
	rec    *recorder
	once   map[string]bool // once-keys of nested Render calls met by this instance (one instance per package)
}

func (g *scripted) Name() string { return g.script.Name }

func (g *scripted) New(c gengo.Context) gengo.Generator {
	pkgPath := c.Package("").Pkg().Path()
	tr := namer.NewDefaultImportTracker()
	w := &recWriter{}
	r := &recorder{w: w, tracker: tr, once: map[string]bool{},
		sw: gengo.NewSnippetWriter(w, namer.NameSystems{"raw": namer.NewRawNamer(pkgPath, tr)})}
	g.recs[pkgPath] = r
	return &scripted{script: g.script, recs: g.recs, rec: r, once: map[string]bool{}}
}

func (g *scripted) render(c gengo.Context, s Snip) {
	sn := toSnippetW(s, &renv{w: c, once: g.once})
	c.Render(sn)
	// the shadow copy (fresh snippet value: iterators are re-run, nothing is shared with the first rendering; nested
	// Render calls of a lazy snippet go to the shadow writer and land in the same record, in write order)
	g.rec.w.cur = [][]byte{}
	g.rec.sw.Render(toSnippetW(s, &renv{w: g.rec.sw, once: g.rec.once}))
	g.rec.renders = append(g.rec.renders, g.rec.w.cur)
}

func (g *scripted) GenerateType(c gengo.Context, named *types.Named) error {
	k := g.rec.calls
	g.rec.calls++
	if k == 0 && len(g.script.Defer) > 0 {
		c.Defer(func(c gengo.Context) error {
			for _, s := range g.script.Defer {
				g.render(c, s)
			}
			return nil
		})
	}
	if k < len(g.script.Calls) {
		for _, s := range g.script.Calls[k] {
			g.render(c, s)
		}
	}
	return nil
}

// WriteModule lays the synthetic module out under root (and the second module, if any, next to it as root+"2").
func WriteModule(root string, in *Input) error {
	for k := 0; k < in.npkgs(); k++ {
		v := in.view(k)
		mroot := root
		if k == 1 {
			mroot = root + "2"
		}
		dir := filepath.Join(mroot, filepath.FromSlash(v.Dir))
		if err := os.MkdirAll(dir, 0o755); err != nil {
			return err
		}
		gomod := "module " + v.ModPath + "\n\ngo " + v.GoVer + "\n"
		if k == 0 && in.Mod2 != nil {
			gomod += "\nrequire " + in.Mod2.ModPath + " " + pseudoVersion(in.Mod2.ModPath) + "\n\nreplace " + in.Mod2.ModPath + " => ../" + filepath.Base(root) + "2\n"
		}
		if err := os.WriteFile(filepath.Join(mroot, "go.mod"), []byte(gomod), 0o644); err != nil {
			return err
		}
		var b strings.Builder
		for _, g := range in.Gens {
			b.WriteString("// +gengo:" + g.Name + "\n")
		}
		b.WriteString("package " + v.PkgName + "\n\n")
		for _, t := range v.Types {
			b.WriteString("type " + t + " struct{}\n\n")
		}
		if in.Prev {
			for i, g := range in.Gens {
				old := fmt.Sprintf("package %s\n\nvar Old%d = %d\n\n%s", v.PkgName, i, i, strings.Repeat("// previous output, to be replaced\n", 200))
				if err := os.WriteFile(filepath.Join(dir, in.Base+"."+g.Name+".go"), []byte(old), 0o644); err != nil {
					return err
				}
			}
		}
		if err := os.WriteFile(filepath.Join(dir, "src.go"), []byte(b.String()), 0o644); err != nil {
			return err
		}
	}
	return nil
}

func childMain(args []string) int {
	if len(args) != 2 {
		fmt.Fprintln(os.Stderr, "usage: vh c01-child <input.json> <workdir>")
		return 2
	}
	debug.SetMaxStack(256 << 20)
	data, err := os.ReadFile(args[0])
	if err != nil {
		fmt.Fprintln(os.Stderr, err)
		return 2
	}
	var in Input
	if err := json.Unmarshal(data, &in); err != nil {
		fmt.Fprintln(os.Stderr, err)
		return 2
	}
	work := args[1]
	root := filepath.Join(work, "mod")
	if err := WriteModule(root, &in); err != nil {
		fmt.Fprintln(os.Stderr, err)
		return 2
	}
	out := ChildOut{}
	out.PkgPath = in.pkgPath()
	gens := make([]*scripted, len(in.Gens))
	names := make([]string, len(in.Gens))
	for i := range in.Gens {
		gens[i] = &scripted{script: &in.Gens[i], recs: map[string]*recorder{}}
		names[i] = in.Gens[i].Name
		gengo.Register(gens[i])
	}
	func() {
		defer func() {
			if r := recover(); r != nil {
				out.Panic = fmt.Sprint(r)
			}
		}()
		if err := os.Chdir(root); err != nil {
			out.LoadErr = err.Error()
			return
		}
		// gengo prints diagnostics of unparseable output on stdout; keep them out of the way
		if null, err := os.OpenFile(os.DevNull, os.O_WRONLY, 0); err == nil {
			os.Stdout = null
		}
		entry := "./" + in.Dir
		if in.Dir == "" {
			entry = "."
		}
		entries := []string{entry}
		if in.Mod2 != nil {
			entries = append(entries, in.view(1).pkgPath())
		}
		ex, err := gengo.NewContext(&gengo.GeneratorArgs{
			Entrypoint:         entries,
			OutputFileBaseName: in.Base,
			All:                in.All,
			Force:              true,
		})
		if err != nil {
			out.LoadErr = err.Error()
			return
		}
		err = ex.Execute(context.Background(), gengo.GetRegisteredGenerators(names...)...)
		if err != nil {
			out.Err = err.Error()
			var sl scanner.ErrorList
			if errors.As(err, &sl) {
				out.ErrKind = "parse"
			} else {
				out.ErrKind = "other"
			}
		}
	}()
	if out.LoadErr == "" {
		// what is on disk and what the shadow writers saw — also after a panic
		for k := 0; k < in.npkgs(); k++ {
			v := in.view(k)
			mroot := root
			if k == 1 {
				mroot = root + "2"
			}
			pkgPath := v.pkgPath()
			dir := filepath.Join(mroot, filepath.FromSlash(v.Dir))
			gv := ""
			if b, err := os.ReadFile(filepath.Join(mroot, "go.mod")); err == nil {
				for _, l := range strings.Split(string(b), "\n") {
					if f := strings.Fields(l); len(f) == 2 && f[0] == "go" {
						gv = f[1]
					}
				}
			}
			out.GoVers = append(out.GoVers, gv)
			seen := map[string]bool{"src.go": true}
			for i, g := range gens {
				o := GenObs{Pkg: k, Name: in.Gens[i].Name, Renders: [][][]byte{}, Imports: [][2]string{}}
				if r := g.recs[pkgPath]; r != nil {
					o.Calls = r.calls
					o.Renders = r.renders
					for p, n := range r.tracker.Imports() {
						o.Imports = append(o.Imports, [2]string{p, n})
					}
				}
				fn := in.Base + "." + o.Name + ".go"
				seen[fn] = true
				if b, err := os.ReadFile(filepath.Join(dir, fn)); err == nil {
					o.HasFile, o.File = true, b
				}
				out.Gens = append(out.Gens, o)
			}
			if ents, err := os.ReadDir(dir); err == nil {
				for _, e := range ents {
					if !seen[e.Name()] {
						out.Others = append(out.Others, e.Name())
					}
				}
			}
		}
		sort.Strings(out.Others)
	}
	b, _ := json.Marshal(out)
	if err := os.WriteFile(filepath.Join(work, "out.json"), b, 0o644); err != nil {
		fmt.Fprintln(os.Stderr, err)
		return 2
	}
	return 0
}

// c01-witness: prints, for a one-generator input whose script is made of blocks, the reference formatter's
// behaviour on the assembled source as Coq definitions (used to regenerate the recorded witnesses in
// coq/theories/Proofs/GenFileWitness.v).  Usage: vh c01-witness <prefix> <input.json>
func init() { core.Children["c01-witness"] = witnessMain }

func witnessMain(args []string) int {
	if len(args) != 2 {
		fmt.Fprintln(os.Stderr, "usage: vh c01-witness <prefix> <input.json>")
		return 2
	}
	data, err := os.ReadFile(args[1])
	if err != nil {
		fmt.Fprintln(os.Stderr, err)
		return 2
	}
	var rp struct {
		Input Input `json:"input"`
	}
	if err := json.Unmarshal(data, &rp); err != nil || len(rp.Input.Gens) != 1 {
		fmt.Fprintln(os.Stderr, "need a replay/corpus file with exactly one generator")
		return 2
	}
	in := rp.Input
	var body []byte
	var blocks []string
	for _, c := range in.Gens[0].Calls {
		for _, s := range c {
			if s.K != "block" {
				fmt.Fprintln(os.Stderr, "only block snippets")
				return 2
			}
			body = append(body, s.S...)
			blocks = append(blocks, "SBlock "+core.Hex(string(s.S)))
		}
	}
	pre := assembleRef(in.PkgName, in.Gens[0].Name, nil, body)
	p := args[0]
	fmt.Printf("(* input: module %s, go %s, package %s, generator %s; body %q *)\n", in.ModPath, in.GoVer, in.PkgName, in.Gens[0].Name, body)
	fmt.Printf("Definition %s_snips : list snip := %s.\n", p, core.CoqList(blocks))
	fmt.Printf("Definition %s_pre : bytes := %s.\n", p, core.Hex(string(pre)))
	f1, ok := refFmt1(pre, &in)
	if !ok {
		fmt.Fprintln(os.Stderr, "does not parse")
		return 2
	}
	fmt.Printf("(* parse + SortImports + gofumpt AST pass + print:\n%s*)\n", f1)
	fmt.Printf("Definition %s_printed : bytes := %s.\n", p, core.Hex(string(f1)))
	cur := f1
	for i := 1; i < 8; i++ {
		nx, ok := refFmt2(cur, &in)
		if !ok {
			return 2
		}
		if string(nx) == string(cur) {
			fmt.Printf("(* %s_s%d is stable *)\n", p, i-1)
			break
		}
		fmt.Printf("(* gofumpt Source, round %d:\n%s*)\n", i, nx)
		fmt.Printf("Definition %s_s%d : bytes := %s.\n", p, i, core.Hex(string(nx)))
		cur = nx
	}
	return 0
}
