// Package c01: every file gengo writes is valid, canonically formatted Go for its package.
//
// One case = one synthetic module (module path, go directive, package directory and name, 1-3 types) and 1-3
// scripted generators, registered through gengo.Register and run by gengo.NewContext(...).Execute in a supervised
// child process.  Observed: the bytes of every <dir>/<base>.<gen>.go, the fragments every Render call wrote and the
// import table the references produced.  See Corr/C01.v for what is compared.
package c01

import (
	"bytes"
	"context"
	"encoding/json"
	"fmt"
	"os"
	"os/exec"
	"path/filepath"
	"sort"
	"strconv"
	"strings"
	"time"

	"verifharness/internal/core"
)

type prop struct{}

const headerViolation = ": the file does not open with a comment naming the generator"

func init() { core.Register(prop{}) }

func (prop) ID() string        { return "C01" }
func (prop) CoqModule() string { return "Gengo.Corr.C01" }
func (prop) Parallel() int     { return 16 }

// ---- expected text of a snippet, from the script alone (the harness's own reading of the snippet package's
// documentation; opaque kinds take what the recording writer saw) ----

func pure(s Snip) bool {
	switch s.K {
	case "nil", "block", "comment", "directive":
		return true
	case "snippets":
		for _, x := range s.Sub {
			if x.K == "nil" || !pure(x) { // a nil member would panic in Snippets.Frag; never generated
				return false
			}
		}
		return true
	}
	return false
}

// scriptable: a lazy snippet whose text follows from the script alone - its members are pure snippets, and "render"
// members whose nested snippets are pure or scriptable lazy snippets themselves
func scriptable(s Snip) bool {
	if s.K != "lazy" {
		return false
	}
	for _, m := range s.Sub {
		if m.K == "render" {
			for _, x := range m.Sub {
				if !pure(x) && !scriptable(x) {
					return false
				}
			}
			continue
		}
		if m.K == "nil" || !pure(m) {
			return false
		}
	}
	return true
}

// lazyText: what a lazy snippet renders, in the order the text is produced: the members in order, and where a "render"
// member stands the text of its nested Render calls (nothing when its once-key was met before by this generator
// instance).  once is threaded through the script in execution order.
func lazyText(s Snip, once map[string]bool) []byte {
	var b []byte
	one := func(x Snip) {
		if x.K == "lazy" {
			b = append(b, lazyText(x, once)...)
		} else {
			b = append(b, expectedText(x, nil, once)...)
		}
	}
	for _, m := range s.Sub {
		if m.K != "render" {
			one(m)
			continue
		}
		if len(m.A) > 0 && m.A[0] != "" {
			if once[m.A[0]] {
				continue
			}
			once[m.A[0]] = true
		}
		for _, x := range m.Sub {
			one(x)
		}
	}
	return b
}

func expectedText(s Snip, recorded [][]byte, once map[string]bool) []byte {
	if scriptable(s) {
		return lazyText(s, once)
	}
	if !pure(s) {
		return bytes.Join(recorded, nil)
	}
	switch s.K {
	case "block":
		return s.S
	case "comment":
		if len(s.S) == 0 {
			return nil
		}
		return []byte("// " + strings.Join(strings.Split(string(s.S), "\n"), "\n// "))
	case "directive":
		if len(s.S) == 0 {
			return nil
		}
		out := "//go:" + string(s.S)
		for _, a := range s.A {
			if a != "" {
				out += " " + a
			}
		}
		return []byte(out)
	case "snippets":
		var b []byte
		for _, x := range s.Sub {
			b = append(b, expectedText(x, nil, once)...)
		}
		return b
	}
	return nil
}

func isNilSnip(s Snip) bool {
	switch s.K {
	case "nil":
		return true
	case "block", "t", "sprintf":
		return len(s.S) == 0
	}
	return false // comment, directive, snippets, id (non-nil value), expose (non-nil ref)
}

// pool: long strings are bound once per case (let s3 := hx "…" in …) and referred to by name afterwards
type pool struct {
	names map[string]string
	binds []string
}

func (p *pool) hex(s string) string {
	if len(s) < 48 {
		return core.Hex(s)
	}
	if n, ok := p.names[s]; ok {
		return n
	}
	n := fmt.Sprintf("s%d", len(p.binds))
	p.names[s] = n
	p.binds = append(p.binds, "let "+n+" := "+coqBytes(s)+" in")
	return n
}

// coqBytes: the Coq term for a byte string.  Short strings are one hex literal.  Long ones (source lines of
// 4 KiB .. 1 MiB) cannot be: coqc overflows its stack on a string literal of some 10^4 characters and spends
// ~0.1 ms per literal byte.  They are sent loss-free as pieces joined by ++, the longest periodic stretch (a run of
// one unit of 1-12 bytes, which is what the long-line vocabulary is made of) as `rp <count> <unit>` (Corr/C01.v).
func coqBytes(s string) string {
	const chunk = 3000
	if len(s) <= chunk {
		return core.Hex(s)
	}
	bestStart, bestLen, bestP := longestRun(s)
	if bestLen >= 1024 {
		var parts []string
		if bestStart > 0 {
			parts = append(parts, coqBytes(s[:bestStart]))
		}
		parts = append(parts, fmt.Sprintf("rp %d%%N %s", bestLen/bestP, core.Hex(s[bestStart:bestStart+bestP])))
		if rest := s[bestStart+bestLen:]; rest != "" {
			parts = append(parts, coqBytes(rest))
		}
		return "(" + strings.Join(parts, " ++ ") + ")"
	}
	var parts []string
	for len(s) > 0 {
		k := min(len(s), chunk)
		parts = append(parts, core.Hex(s[:k]))
		s = s[k:]
	}
	return "(" + strings.Join(parts, " ++ ") + ")"
}

// longestRun: the longest stretch of s that is a whole number of repetitions of one unit of 1-12 bytes
func longestRun(s string) (start, length, period int) {
	for per := 1; per <= 12; per++ {
		run := 0
		for i := per; i <= len(s); i++ {
			if i < len(s) && s[i] == s[i-per] {
				run++
				continue
			}
			if l := (run + per) / per * per; run > 0 && l > length {
				start, length, period = i-run-per, l, per
			}
			run = 0
		}
	}
	return
}

func (p *pool) wrap(term string) string {
	if len(p.binds) == 0 {
		return term
	}
	return "(" + strings.Join(p.binds, "\n ") + "\n " + term + ")"
}

func (p *pool) bytesList(xs [][]byte) string {
	items := make([]string, len(xs))
	for i, x := range xs {
		items[i] = p.hex(string(x))
	}
	return core.CoqList(items)
}

func (p *pool) strList(xs []string) string {
	items := make([]string, len(xs))
	for i, x := range xs {
		items[i] = p.hex(x)
	}
	return core.CoqList(items)
}

func (p *pool) snip(s Snip, recorded [][]byte) string {
	if !pure(s) {
		return fmt.Sprintf("(SOpaque %s %s)", core.CoqBool(isNilSnip(s)), p.bytesList(recorded))
	}
	switch s.K {
	case "nil":
		return "SNil"
	case "block":
		return "(SBlock " + p.hex(string(s.S)) + ")"
	case "comment":
		return "(SComment " + p.hex(string(s.S)) + ")"
	case "directive":
		return "(SDirective " + p.hex(string(s.S)) + " " + p.strList(s.A) + ")"
	case "snippets":
		var items []string
		for _, x := range s.Sub {
			items = append(items, p.snip(x, nil))
		}
		return "(SSnippets " + core.CoqList(items) + ")"
	}
	panic("unreachable")
}

func (p *pool) optBytes(ok bool, b []byte) string { return core.CoqOpt(ok, p.hex(string(b))) }

// the harness's own assembly of the unformatted source, written from the property text / the file layout gengo
// documents (header comment naming the generator, package clause, import block sorted by path, body)
func assembleRef(pkg, gen string, imports [][2]string, body []byte) []byte {
	var b bytes.Buffer
	b.WriteString("/*\nPackage " + pkg + " GENERATED BY gengo:" + gen + " \nDON'T EDIT THIS FILE\n*/\npackage " + pkg + "\n")
	if len(imports) > 0 {
		imps := append([][2]string(nil), imports...)
		sort.Slice(imps, func(i, j int) bool { return imps[i][0] < imps[j][0] })
		b.WriteString("\nimport (\n")
		for _, im := range imps {
			b.WriteString("\t" + im[1] + " \"" + im[0] + "\"\n")
		}
		b.WriteString(")\n")
	}
	b.Write(body)
	return b.Bytes()
}

func scriptOf(g *Gen, ncalls int) []Snip {
	var all []Snip
	for k := 0; k < ncalls && k < len(g.Calls); k++ {
		all = append(all, g.Calls[k]...)
	}
	if ncalls > 0 {
		all = append(all, g.Defer...)
	}
	return all
}

type genReport struct {
	Pkg     string      `json:"pkg"`
	Name    string      `json:"name"`
	Calls   int         `json:"calls"`
	Imports [][2]string `json:"imports"`
	Body    string      `json:"body"`
	HasFile bool        `json:"has_file"`
	File    string      `json:"file,omitempty"`
	Fmt1OK  bool        `json:"ref_fmt1_ok"`
	Fmt2OK  bool        `json:"ref_fmt2_ok"`
	Rounds  int         `json:"ref_rounds"`
	RefSame bool        `json:"file_equals_reference"`
	Oracle  *oracle     `json:"oracle,omitempty"`
}

type observed struct {
	LoadErr string      `json:"load_err,omitempty"`
	Err     string      `json:"err,omitempty"`
	ErrKind string      `json:"err_kind,omitempty"`
	Panic   string      `json:"panic,omitempty"`
	Child   string      `json:"child,omitempty"`
	Gens    []genReport `json:"gens,omitempty"`
	Others  []string    `json:"others,omitempty"`
}

func runChild(in json.RawMessage, scratch string) (*ChildOut, string) {
	if err := os.MkdirAll(scratch, 0o755); err != nil {
		return nil, err.Error()
	}
	inFile := filepath.Join(scratch, "in.json")
	if err := os.WriteFile(inFile, in, 0o644); err != nil {
		return nil, err.Error()
	}
	ctx, cancel := context.WithTimeout(context.Background(), 120*time.Second)
	defer cancel()
	cmd := exec.CommandContext(ctx, os.Args[0], "c01-child", inFile, scratch)
	cmd.Env = append(os.Environ(), "GOFLAGS=-mod=mod", "GOPROXY=off")
	var stderr bytes.Buffer
	cmd.Stderr = &stderr
	if err := cmd.Run(); err != nil {
		msg := err.Error()
		if ctx.Err() != nil {
			msg = "timeout"
		}
		tail := stderr.String()
		if len(tail) > 600 {
			tail = tail[len(tail)-600:]
		}
		return nil, msg + ": " + tail
	}
	data, err := os.ReadFile(filepath.Join(scratch, "out.json"))
	if err != nil {
		return nil, err.Error()
	}
	var out ChildOut
	if err := json.Unmarshal(data, &out); err != nil {
		return nil, err.Error()
	}
	return &out, ""
}

func (prop) Run(raw json.RawMessage, scratch string) core.Result {
	var in Input
	var res core.Result
	if err := json.Unmarshal(raw, &in); err != nil {
		res.Notes = append(res.Notes, "bad input: "+err.Error())
		return res
	}
	out, cerr := runChild(raw, scratch)
	var obs observed
	if out == nil {
		obs.Child = cerr
		res.Observed = obs
		res.GoViolations = append(res.GoViolations, "the child process running Execute died or timed out: "+cerr)
		res.Tags = append(res.Tags, "child_failed")
		return res
	}
	obs.LoadErr, obs.Err, obs.ErrKind, obs.Panic, obs.Others = out.LoadErr, out.Err, out.ErrKind, out.Panic, out.Others
	if out.LoadErr != "" {
		// the synthetic module itself is not loadable (harness problem or unsupported go directive): not a case
		res.Observed = obs
		res.Notes = append(res.Notes, "module not loadable: "+firstLine(out.LoadErr))
		res.Tags = append(res.Tags, "load_error")
		return res
	}
	// A panic is "Execute did not return without error": nothing is claimed about the files, and the model must
	// agree that this run does not complete (it does when the body is unparseable; see notes/C01.md for the
	// //line-directive case in which the diagnostic print-out panics instead of returning the parser's error).
	execErr := out.Err != "" || out.Panic != ""
	// "the module's language version" is what its go.mod says when Execute runs; the go command rewrites the go
	// directive of the main module when a dependency declares a newer one
	for k, gv := range out.GoVers {
		if gv != "" && gv != in.view(k).GoVer {
			res.Notes = append(res.Notes, fmt.Sprintf("go directive of module %d is %s after loading (input said %s)", k+1, gv, in.view(k).GoVer))
			res.Tags = append(res.Tags, "go_directive_rewritten_by_go_command")
			if k == 0 {
				in.GoVer = gv
			} else {
				m := *in.Mod2
				m.GoVer = gv
				in.Mod2 = &m
			}
		}
	}
	if out.Panic != "" {
		res.Notes = append(res.Notes, "Execute panicked instead of returning: "+firstLine(out.Panic))
		res.Tags = append(res.Tags, "panic_instead_of_error")
	}
	pl := &pool{names: map[string]string{}}
	gterms := make([][]string, in.npkgs())
	anyFile, anyImports, nDecl, buildClass, maxRounds := false, false, 0, false, 0
	for i := range out.Gens {
		go_ := &out.Gens[i]
		g := &in.Gens[i%len(in.Gens)]
		v := in.view(go_.Pkg) // module path, go directive and package name of the package this file belongs to
		label := g.Name
		if in.Mod2 != nil {
			label = v.pkgPath() + ": " + g.Name
		}
		script := scriptOf(g, go_.Calls)
		rep := genReport{Pkg: v.pkgPath(), Name: g.Name, Calls: go_.Calls, Imports: go_.Imports, HasFile: go_.HasFile, File: string(go_.File)}
		var sterms []string
		var frags [][]byte
		var rendered []byte
		once := map[string]bool{} // once-keys of nested Render calls, per generator instance (= per package)
		if len(script) != len(go_.Renders) {
			res.Notes = append(res.Notes, fmt.Sprintf("generator %s: %d snippets scripted for %d calls, %d Render calls recorded", label, len(script), go_.Calls, len(go_.Renders)))
		}
		for k, s := range script {
			var rec [][]byte
			if k < len(go_.Renders) {
				rec = go_.Renders[k]
			}
			sterms = append(sterms, pl.snip(s, rec))
			frags = append(frags, rec...)
			rendered = append(rendered, expectedText(s, rec, once)...)
		}
		body := bytes.Join(frags, nil)
		rep.Body = string(body)
		hasBuild := buildLines(rendered)
		if hasBuild {
			buildClass = true
		}
		pre := assembleRef(v.PkgName, g.Name, go_.Imports, body)
		f1, ok1 := refFmt1(pre, v)
		// the reference second stage, step by step until it repeats (at most 7 steps): the model's table for fmt2
		var chain []string
		var last []byte
		ok2 := false
		if ok1 {
			cur := f1
			for step := 0; step < 7; step++ {
				nx, ok := refFmt2(cur, v)
				chain = append(chain, "("+pl.hex(string(cur))+", "+pl.optBytes(ok, nx)+")")
				if !ok {
					break
				}
				if bytes.Equal(nx, cur) {
					ok2, last = true, cur
					break
				}
				cur = nx
			}
			rep.Rounds = len(chain)
			if len(chain) > maxRounds {
				maxRounds = len(chain)
			}
		}
		rep.Fmt1OK, rep.Fmt2OK = ok1, ok2
		rep.RefSame = go_.HasFile && ok2 && bytes.Equal(last, go_.File)
		var o oracle
		if go_.HasFile {
			o = observe(go_.File, assembleRef(v.PkgName, g.Name, go_.Imports, rendered), len(go_.Imports), v)
			rep.Oracle = &o
			anyFile = true
			nDecl += len(o.Decls)
			if !execErr {
				if !o.Parses {
					res.GoViolations = append(res.GoViolations, label+": the written file does not parse")
				} else {
					if o.Pkg != v.PkgName {
						res.GoViolations = append(res.GoViolations, label+": package clause is "+o.Pkg)
					}
					if !o.LeadComment || !strings.Contains(o.Comment0, "gengo:"+g.Name) {
						res.GoViolations = append(res.GoViolations, label+headerViolation)
					}
					if !o.ImportOK {
						res.GoViolations = append(res.GoViolations, label+": references were rendered but the file has no import declaration first")
					}
					if !o.WantOK || !eqStrs(o.Decls, o.Want) {
						res.GoViolations = append(res.GoViolations, label+": declarations differ from the rendered ones by more than formatting")
					}
				}
				if !o.GofmtOK || !o.GofmtSame {
					res.GoViolations = append(res.GoViolations, label+": not a fixed point of gofmt")
				}
				if !o.GofumptOK || !o.GofumptSame {
					res.GoViolations = append(res.GoViolations, label+": not a fixed point of gofumpt (go"+v.GoVer+", "+v.ModPath+")")
				}
			}
		}
		if len(go_.Imports) > 0 {
			anyImports = true
		}
		var imps []string
		for _, im := range go_.Imports {
			imps = append(imps, "("+pl.hex(im[0])+", "+pl.hex(im[1])+")")
		}
		wantTerm := "None"
		if o.WantOK {
			wantTerm = "(Some " + pl.strList(o.Want) + ")"
		}
		gterms[go_.Pkg] = append(gterms[go_.Pkg], fmt.Sprintf("mk_gen %s %s %s %s %s %s %s %s %s %s %s %s %s %s %s %s",
			core.Hex(g.Name), core.CoqList(sterms), core.CoqList(imps), pl.bytesList(frags), core.CoqBool(hasBuild), pl.hex(string(pre)),
			pl.optBytes(ok1, f1), core.CoqList(chain), core.Hex(in.Base+"."+g.Name+".go"), pl.optBytes(go_.HasFile, go_.File),
			core.CoqBool(o.Parses), core.Hex(o.Pkg), pl.strList(o.Decls), wantTerm,
			pl.optBytes(o.GofmtOK, o.Gofmt), pl.optBytes(o.GofumptOK, o.Gofumpt)))
		obs.Gens = append(obs.Gens, rep)
	}
	res.Observed = obs
	if execErr && out.Panic == "" && out.ErrKind != "parse" {
		res.Tags = append(res.Tags, "error_not_from_parser")
	}
	// one package-case per target package (two when the run spans a second module), all of the same Execute call
	var pterms []string
	for k := range gterms {
		pterms = append(pterms, fmt.Sprintf("mk_case %s %s %s %s", core.Hex(in.view(k).PkgName), core.Hex(in.Base), core.CoqBool(execErr), core.CoqList(wrapParens(gterms[k]))))
	}
	res.Coq = pl.wrap(core.CoqList(pterms))

	if buildClass {
		// the known finding explains exactly one failure (the file opens with the build constraint, not with the
		// header); a case of the class that fails in any other way is reported as a new violation
		res.Tags = append(res.Tags, "class:build_constraint_in_body")
		onlyHeader := true
		for _, v := range res.GoViolations {
			if !strings.HasSuffix(v, headerViolation) {
				onlyHeader = false
			}
		}
		if onlyHeader {
			res.Class = "build_constraint_in_body"
		}
	}
	// distribution
	res.Nontrivial = anyFile && nDecl >= 1
	if in.Mod2 != nil {
		res.Tags = append(res.Tags, "two_modules", "go2="+in.Mod2.GoVer)
		if !strings.Contains(strings.SplitN(in.Mod2.ModPath, "/", 2)[0], ".") || !strings.Contains(strings.SplitN(in.ModPath, "/", 2)[0], ".") {
			res.Tags = append(res.Tags, "two_modules:dotless_module_path")
		}
		if in.Mod2.GoVer != in.GoVer {
			res.Tags = append(res.Tags, "two_modules:different_go_directive")
		}
	}
	res.Tags = append(res.Tags, "go="+in.GoVer, fmt.Sprintf("gens=%d", len(in.Gens)), fmt.Sprintf("types=%d", len(in.Types)))
	if execErr {
		res.Tags = append(res.Tags, "execute_error(malformed body)")
	} else {
		res.Tags = append(res.Tags, "execute_ok")
	}
	if anyImports {
		res.Tags = append(res.Tags, "with_imports")
	}
	if in.All {
		res.Tags = append(res.Tags, "all")
	}
	if in.Prev {
		res.Tags = append(res.Tags, "previous_output_present")
	}
	for _, t := range kindTags(&in) {
		res.Tags = append(res.Tags, t)
	}
	res.Tags = append(res.Tags, fmt.Sprintf("decls=%d", min(nDecl, 12)), fmt.Sprintf("gofumpt_rounds_to_stable=%d", maxRounds))
	return res
}

func wrapParens(xs []string) []string {
	out := make([]string, len(xs))
	for i, x := range xs {
		out[i] = "(" + x + ")"
	}
	return out
}

func eqStrs(a, b []string) bool {
	if len(a) != len(b) {
		return false
	}
	for i := range a {
		if a[i] != b[i] {
			return false
		}
	}
	return true
}

func firstLine(s string) string {
	if i := strings.IndexByte(s, '\n'); i >= 0 {
		s = s[:i]
	}
	if len(s) > 300 {
		s = s[:300]
	}
	return s
}

func kindTags(in *Input) []string {
	seen := map[string]bool{}
	var walk func(s Snip)
	walk = func(s Snip) {
		seen["snip:"+s.K] = true
		if bytes.Contains(s.S, []byte("\r\n")) {
			seen["crlf"] = true
		}
		if len(s.S) >= 4096 {
			longest := 0
			for _, l := range bytes.Split(s.S, []byte("\n")) {
				longest = max(longest, len(l))
			}
			switch {
			case longest >= 1<<20:
				seen["source_line>=1MiB"] = true
			case longest >= 65535:
				seen["source_line>=64KiB"] = true
			case longest >= 4095:
				seen["source_line>=4KiB"] = true
			}
		}
		for _, x := range s.Sub {
			walk(x)
		}
	}
	for _, g := range in.Gens {
		for _, c := range g.Calls {
			for _, s := range c {
				walk(s)
			}
		}
		if len(g.Defer) > 0 {
			seen["defer"] = true
		}
		for _, s := range g.Defer {
			walk(s)
		}
	}
	var out []string
	for k := range seen {
		out = append(out, k)
	}
	sort.Strings(out)
	return out
}

func mkInput(in Input) json.RawMessage {
	var fix func(s *Snip)
	fix = func(s *Snip) {
		if len(s.S) > 0 {
			s.Q = strconv.Quote(string(s.S))
		} else {
			s.Q = ""
		}
		for i := range s.Sub {
			fix(&s.Sub[i])
		}
	}
	for gi := range in.Gens {
		for ci := range in.Gens[gi].Calls {
			for si := range in.Gens[gi].Calls[ci] {
				fix(&in.Gens[gi].Calls[ci][si])
			}
		}
		for si := range in.Gens[gi].Defer {
			fix(&in.Gens[gi].Defer[si])
		}
	}
	b, _ := json.Marshal(in)
	return b
}
