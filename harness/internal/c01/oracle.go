package c01

// Independent reference formatter and the property's own observation points (go/parser, go/format,
// mvdan.cc/gofumpt/format applied to the written file).  Nothing here calls into gengo.

import (
	"bytes"
	"go/ast"
	"go/build/constraint"
	"go/format"
	"go/parser"
	"go/printer"
	"go/scanner"
	"go/token"
	"sort"
	"strings"

	gofumpt "mvdan.cc/gofumpt/format"
)

func fumptOpts(in *Input) gofumpt.Options {
	return gofumpt.Options{LangVersion: "go" + in.GoVer, ModulePath: in.ModPath}
}

// refFmt1: parse, sort imports, gofumpt's AST pass, print — the tools called directly on the text.
func refFmt1(src []byte, in *Input) ([]byte, bool) {
	fset := token.NewFileSet()
	f, err := parser.ParseFile(fset, "", src, parser.ParseComments|parser.SkipObjectResolution)
	if err != nil {
		return nil, false
	}
	ast.SortImports(fset, f)
	gofumpt.File(fset, f, fumptOpts(in))
	var b bytes.Buffer
	if err := format.Node(&b, fset, f); err != nil {
		return nil, false
	}
	return b.Bytes(), true
}

// refFmt2: gofumpt's source formatter on printed bytes (the second pass of the repaired WriteToFile).
func refFmt2(src []byte, in *Input) ([]byte, bool) {
	out, err := gofumpt.Source(src, fumptOpts(in))
	if err != nil {
		return nil, false
	}
	return out, true
}

type oracle struct {
	Parses      bool     `json:"parses"`
	LeadComment bool     `json:"lead_comment"` // the first token of the file is a comment (at offset 0)
	Comment0    string   `json:"comment0"`     // its raw text
	Pkg         string   `json:"pkg"`
	Decls       []string `json:"decls"`     // normalised declarations of the file (after gengo's own import block)
	Want        []string `json:"want"`      // normalised declarations of what the generator rendered
	WantOK      bool     `json:"want_ok"`   // the rendered text parses as declarations at all
	ImportOK    bool     `json:"import_ok"` // imports non-empty => first declaration of the file is an import declaration
	Gofmt       []byte   `json:"-"`
	GofmtOK     bool     `json:"gofmt_ok"`
	Gofumpt     []byte   `json:"-"`
	GofumptOK   bool     `json:"gofumpt_ok"`
	GofmtSame   bool     `json:"gofmt_same"`
	GofumptSame bool     `json:"gofumpt_same"`
}

// canon formats a whole source text with the reference formatter until it no longer changes (at most 6 rounds).
func canon(src []byte, in *Input) ([]byte, bool) {
	cur := src
	for i := 0; i < 6; i++ {
		a, ok := refFmt1(cur, in)
		if !ok {
			return nil, false
		}
		b, ok := refFmt2(a, in)
		if !ok {
			return nil, false
		}
		if bytes.Equal(b, cur) {
			return cur, true
		}
		cur = b
	}
	return cur, true
}

// declsOf: the declarations of a source text "modulo formatting": the text is brought to the formatter's
// canonical form first (so that regrouping done by the formatter, e.g. gofumpt joining adjacent single var
// declarations into one group, happens on both sides of a comparison), then every declaration is printed by
// go/printer together with the comments inside its range.  Import declarations are reduced to their sorted specs.
func declsOf(src []byte, in *Input) ([]string, *ast.File, bool) {
	fset0 := token.NewFileSet()
	f0, err := parser.ParseFile(fset0, "", src, parser.ParseComments|parser.AllErrors)
	if err != nil {
		return nil, nil, false
	}
	c, ok := canon(src, in)
	if !ok {
		return nil, f0, false
	}
	fset := token.NewFileSet()
	f, err := parser.ParseFile(fset, "", c, parser.ParseComments|parser.AllErrors)
	if err != nil {
		return nil, f0, false
	}
	out := []string{}
	cfg := printer.Config{Mode: printer.UseSpaces | printer.TabIndent, Tabwidth: 8}
	for _, d := range f.Decls {
		if g, ok := d.(*ast.GenDecl); ok && g.Tok == token.IMPORT {
			var specs []string
			for _, s := range g.Specs {
				is := s.(*ast.ImportSpec)
				n := ""
				if is.Name != nil {
					n = is.Name.Name + " "
				}
				specs = append(specs, n+is.Path.Value)
			}
			sort.Strings(specs)
			out = append(out, "import("+strings.Join(specs, ";")+")")
			continue
		}
		var b bytes.Buffer
		if err := cfg.Fprint(&b, fset, &printer.CommentedNode{Node: d, Comments: f.Comments}); err != nil {
			out = append(out, "<print error: "+err.Error()+">")
			continue
		}
		out = append(out, b.String())
	}
	return out, f0, true
}

// observe applies the observation points to one written file.  rendered = the harness's assembly (same header,
// package clause and import block: gofumpt's result depends on them) around the text the generator rendered
// (expected from the script), nImports = size of the import table the generator's references produced.
func observe(file []byte, rendered []byte, nImports int, in *Input) oracle {
	var o oracle
	decls, f, ok := declsOf(file, in)
	o.Parses = f != nil
	if f != nil {
		o.Pkg = f.Name.Name
		if len(f.Comments) > 0 && len(f.Comments[0].List) > 0 {
			c := f.Comments[0].List[0]
			o.LeadComment = c.Slash == f.FileStart
			var parts []string
			for _, x := range f.Comments[0].List {
				parts = append(parts, x.Text)
			}
			o.Comment0 = strings.Join(parts, "\n")
		}
	}
	if ok {
		o.ImportOK = true
		if nImports > 0 {
			o.ImportOK = len(decls) > 0 && strings.HasPrefix(decls[0], "import(")
			if o.ImportOK {
				decls = decls[1:]
			}
		}
		o.Decls = decls
	}
	want, _, wok := declsOf(rendered, in)
	if wok && nImports > 0 && len(want) > 0 && strings.HasPrefix(want[0], "import(") {
		want = want[1:]
	}
	o.Want, o.WantOK = want, wok
	if g, err := format.Source(file); err == nil {
		o.Gofmt, o.GofmtOK = g, true
		o.GofmtSame = bytes.Equal(g, file)
	}
	if g, err := gofumpt.Source(file, fumptOpts(in)); err == nil {
		o.Gofumpt, o.GofumptOK = g, true
		o.GofumptSame = bytes.Equal(g, file)
	}
	return o
}

// buildLines: the rendered text contains a //-comment that go/printer recognises as a build constraint
// (//go:build …, // +build …).  go/printer moves such lines to the very top of the file, above gengo's header.
func buildLines(rendered []byte) bool {
	fset := token.NewFileSet()
	file := fset.AddFile("", fset.Base(), len(rendered))
	var sc scanner.Scanner
	sc.Init(file, rendered, func(token.Position, string) {}, scanner.ScanComments)
	for {
		_, tok, lit := sc.Scan()
		if tok == token.EOF {
			return false
		}
		if tok == token.COMMENT && strings.HasPrefix(lit, "//") && (constraint.IsGoBuild(lit) || constraint.IsPlusBuild(lit)) {
			return true
		}
	}
}
