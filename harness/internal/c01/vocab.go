package c01

import (
	"encoding/json"
	"fmt"
	"strings"

	"verifharness/internal/core"
)

// ---- vocabulary: texts of declarations, %d = a counter that keeps names distinct ----

var declTexts = []string{
	// functions
	"func F%d() {}\n",
	"func g%d(a int, b int) (r int, err error) { return }\n",
	"func h%d() { if true { println() } else { println() } }\n",
	"func (r *R%d) M(x ...int) []int { return append(x[:0], x...) }\n",
	"func G%d[T any, U comparable](t T, u U) (T, U) {\n\n\treturn t, u\n\n}\n",
	"func F%d(\n\ta int,\n\tb string) {\n}\n",
	"func f%d() (int) {\n\tvar x = 1\n\tvar y int = 2\n\treturn x+y\n}\n",
	"func s%d(v any) string {\n\tswitch v.(type) {\n\tcase int: return \"i\"\n\tcase string,\n\t\tbool:\n\t\treturn \"s\"\n\t}\n\treturn \"\"\n}\n",
	"func c%d() []int { return []int{1,\n2, 3} }\n",
	"func d%d() { defer func() { recover() }(); go func() {}() }\n",
	"func l%d() { for i := 0; i < 3; i++ { _ = i }; for range 3 {} }\n",
	"func m%d() map[string]struct{ A int } { return map[string]struct{ A int }{\"a\": {1}, \"b\": {A: 2}} }\n",
	"func o%d() { _ = 0644; _ = 0X1F; _ = 1E3; _ = 0B11; _ = 'x' }\n",
	"func e%d() error {\n\n\tif err := error(nil); err != nil {\n\n\t\treturn err\n\t}\n\n\n\treturn nil\n}\n",
	"func    w%d  (  a   int ,b  *  int  )   {  *  b  =  a  }\n",
	"func k%d() { x := struct{A, B int}{\n1, 2}; _ = x }\n",
	"func lit%d() { _ = []string{\n\"a\",\n\"b\"}\n}\n",
	"func asm%d()\n",
	// types
	"type T%d struct {\n\tA int `json:\"a\"`\n\n\tB string // trailing\n}\n",
	"type (\n\tA%d int\n)\n",
	"type (\n\tP%d int\n\tQ%d = string\n)\n",
	"type I%d interface{ M(); N() int }\n",
	"type E%d = map[string][]*int\n",
	"type S%d struct{ a, b int; c string }\n",
	"type N%d[T ~int|~string] struct { v T }\n",
	"type Fn%d func(a, b int) (c int)\n",
	"type Emb%d struct {\n\n\tS string\n\n}\n",
	// variables and constants
	"var v%d = []int{1,2,\n3}\n",
	"var (\n\tx%d = 1\n)\n",
	"var (\n\ty%d = 1\n\tz%d   = \"two\"\n\n\tlonger%d int\n)\n",
	"const (\n\tc%d = iota\n\td%d\n)\n",
	"var a%d, b%d = 0644, 0x1F\n",
	"const s%d = `raw\n\tstring`\n",
	"const k%d = 1<<3 + 2*3\n",
	"var p%d int; var q%d int\n",
	"var fn%d = func() {\n}\n",
	"var _ = map[int]string{\n1: \"a\",\n 22: \"b\",\n}\n",
	// comments and directives in text
	"// floating comment %d\n\n",
	"//nospace comment %d\n",
	"/* block\n comment %d */\n",
	"//go:generate echo %d\n",
	"//go:noinline\nfunc n%d() {}\n",
	"// Doc%d is documented.\n//\n//   indented code\n//\n// Deprecated: no.\nfunc Doc%d() {}\n",
	"//export foo%d\n",
	"// +build ignore%d\n\n",
	"//line x.go:%d\n",
	"func tc%d() {} // trailing comment\n",
	"/* lead */ func lc%d() {}\n",
	"func ic%d( /* in */ a int /* out */) { // open\n\t// inside\n} // close\n",
	// odd whitespace
	"\n\n\n",
	"\t \n",
	"func cr%d() {\r\n\treturn\r\n}\r\n",
	"var cs%d = \"a\"\r\n\r\n// crlf comment\r\nvar ct%d = `x\r\ny`\r\n",
	"func ws%d() {   \n   return   \n}   \n",
	"func tb%d() {\n        x := 1\n\t_ = x\n}\n",
	"func ne%d() {}", // no newline at the end
	"var u%d = \"é世\"\n",
	"func (T%d) String() string { return \"\" }\n\n\n\n",
	"var (\n)\n",
	"func z%d() { var ( a = 1; b = 2 ); _, _ = a, b }\n",
	"func lb%d() {\nL:\n\tfor {\n\t\tbreak L\n\t}\n}\n",
	"func sel%d(c chan int) { select { case <-c: default: } }\n",
}

// bodies that make the assembled file unparseable (Execute must fail, nothing is claimed about the file)
var malformedTexts = []string{
	"func {\n", "}\n", "var = 1\n", "x := 1\n", "func f%d() {\n", "\"unterminated\n", "package q\n", "func f%d() {}}\n",
	"var s%d = `open\n", "/* open comment\n", "type %d int\n", "func f%d() { if }\n", "var x%d int var y%d int\n",
	"\x00", "\xff\xfe", "var b%d = \"\xc3\"\n", "\f\n", "\xef\xbb\xbf", "import \"late%d\"\nfunc x%d(){}\nimport \"later\"\n",
	"func f%d() { return ) }\n", "@\n", "var r%d = '\n", "func f%d(a int, a) {}\n",
}

var stdRefs = []string{"bytes.Buffer", "net/http.Client", "encoding/json.Marshal", "context.Context", "fmt.Stringer",
	"io.Reader", "os.File", "strings.Builder", "time.Duration", "sync.Mutex", "go/ast.Node", "text/template.Template",
	"html/template.Template", "math/rand.Rand", "crypto/rand.Reader", "database/sql.DB", "net/url.URL", "path/filepath.WalkFunc"}

var extRefs = []string{"github.com/x/y/v2.Z", "golang.org/x/tools/go/packages.Package", "k8s.io/api/core/v1.Pod",
	"gopkg.in/yaml.v3.Node", "example.org/apis/meta/v1.Object", "example.org/domain/user.User", "github.com/pkg/errors.Frame",
	"mvdan.cc/gofumpt/format.Options", "a/b.C", "x.Y"}

var genNames = []string{"alpha", "beta", "gamma", "deepcopy", "runtimedoc", "x", "a-b", "a.b", "v2", "G_1", "UPPER", "enum"}
var oddGenNames = []string{"a:b", "a+b", "a*b", "é", "a,b", "a'b", "#h", "[l]", "a\"b"}

var modPaths = []string{"example.com/m", "m", "example", "github.com/acme/proj", "gitlab.example.org/g/sub/proj", "my.mod/v2", "stdx", "go.example/x-y"}
var goVers = []string{"1.18", "1.19", "1.20", "1.21", "1.21.0", "1.22", "1.22.3", "1.23", "1.23.0", "1.24.2"}
var dirs = []string{"", "p", "pkg/api", "internal/x", "a/b/c", "v1", "apis/meta/v1"}
var pkgNames = []string{"p", "api", "main", "x", "v1", "meta", "foo_bar", "P1", "pkg", "é"}
var bases = []string{"zz_generated", "zz", "gen", "zz_generated.x", "x_gen"}

type ctr struct{ n int }

func (c *ctr) text(t string) string {
	for strings.Contains(t, "%d") {
		c.n++
		t = strings.Replace(t, "%d", fmt.Sprint(c.n), 1)
	}
	return t
}

func block(s string) Snip { return Snip{K: "block", S: []byte(s)} }

func genRef(r *core.RNG, in *Input) string {
	switch k := r.Intn(10); {
	case k < 5:
		return core.Pick(r, stdRefs)
	case k < 8:
		return core.Pick(r, extRefs)
	case k < 9:
		return in.ModPath + "/sub/dep.Thing" // a package of the module itself: gofumpt's ModulePath decides its import group
	default:
		p := in.ModPath
		if in.Dir != "" {
			p += "/" + in.Dir
		}
		return p + ".Local" // the target package itself: no import
	}
}

// one declaration, as a snippet
func genDeclSnip(r *core.RNG, c *ctr, in *Input) Snip {
	switch k := r.Intn(20); {
	case k < 11:
		return block(c.text(core.Pick(r, declTexts)))
	case k < 12:
		return Snip{K: "comment", S: []byte(core.Pick(r, []string{"a comment", "two\nlines", "", "trailing space ", "\ttabbed", "x\n\ny", "+gengo:tag", "go:embed x", "ünï"}))}
	case k < 13:
		return Snip{K: "snippets", Sub: []Snip{
			{K: "directive", S: []byte(core.Pick(r, []string{"generate", "noinline", "generate", "noinline", "linkname", "build", ""})), A: core.Pick(r, [][]string{nil, {"echo", "hi"}, {"", "x"}, {"linux"}})},
			block("\n"), block(c.text("func dr%d() {}\n"))}}
	case k < 14:
		return Snip{K: "snippets", Sub: []Snip{{K: "comment", S: []byte(c.text("Cm%d does things."))}, block("\n"), block(""), block(c.text("func Cm%d() {}\n"))}}
	case k < 16: // var of a referenced type, through a template
		c.n++
		return Snip{K: "t", S: []byte(fmt.Sprintf("var r%d @a0\n", c.n)), Sub: []Snip{{K: "id", S: []byte(genRef(r, in))}}}
	case k < 17:
		c.n++
		ref := genRef(r, in)
		i := strings.LastIndex(ref, ".")
		return Snip{K: "t", S: []byte(fmt.Sprintf("\nfunc t%d(a @a0, b *@a1) (@a0, error) {\n\treturn a, nil }\n", c.n)),
			Sub: []Snip{{K: "expose", S: []byte(ref[:i]), A: []string{ref[i+1:]}}, {K: "id", S: []byte(genRef(r, in))}}}
	case k < 18:
		c.n++
		return Snip{K: "sprintf", S: []byte(fmt.Sprintf("type st%d struct { F %%T; G []%%T; n%%v int }\n", c.n)),
			Sub: []Snip{{K: "id", S: []byte(genRef(r, in))}, {K: "id", S: []byte(genRef(r, in))}, block("7")}}
	case k < 19:
		return Snip{K: "snippets", Sub: []Snip{block(c.text("var sn%d ")), {K: "id", S: []byte(genRef(r, in))}, block("\n")}}
	default:
		return Snip{K: core.Pick(r, []string{"nil", "block", "t", "sprintf"})} // nil / IsNil snippets: nothing is written
	}
}

func genModule(r *core.RNG) Input {
	in := Input{ModPath: core.Pick(r, modPaths), GoVer: core.Pick(r, goVers), Dir: core.Pick(r, dirs),
		PkgName: core.Pick(r, pkgNames), Base: core.Pick(r, bases)}
	if r.Chance(60) {
		in.Base = "zz_generated"
	}
	if r.Chance(50) {
		in.PkgName = "p"
	}
	nt := 1 + r.Intn(3)
	in.Types = []string{"A", "B", "C"}[:nt]
	in.All = r.Chance(15)
	in.Prev = r.Chance(30)
	return in
}

func genCase(r *core.RNG, malformed bool) Input {
	in := genModule(r)
	c := &ctr{}
	ng := 1 + r.Intn(3)
	names := append([]string(nil), genNames...)
	badGen := r.Intn(ng)
	for gi := 0; gi < ng; gi++ {
		k := r.Intn(len(names))
		g := Gen{Name: names[k]}
		names = append(names[:k], names[k+1:]...)
		if r.Chance(4) {
			g.Name = core.Pick(r, oddGenNames)
		}
		nd := 1 + r.Intn(8)
		if r.Chance(6) {
			nd = 0 // renders nothing: no file
		}
		g.Calls = make([][]Snip, len(in.Types))
		for d := 0; d < nd; d++ {
			s := genDeclSnip(r, c, &in)
			if r.Chance(12) {
				g.Defer = append(g.Defer, s)
			} else {
				k := r.Intn(len(in.Types))
				g.Calls[k] = append(g.Calls[k], s)
			}
		}
		if malformed && gi == badGen {
			s := block(c.text(core.Pick(r, malformedTexts)))
			k := r.Intn(len(in.Types))
			pos := r.Intn(len(g.Calls[k]) + 1)
			g.Calls[k] = append(g.Calls[k][:pos:pos], append([]Snip{s}, g.Calls[k][pos:]...)...)
		}
		in.Gens = append(in.Gens, g)
	}
	return in
}

func fixedCases() []Input {
	base := Input{ModPath: "example.com/m", GoVer: "1.22", Dir: "p", PkgName: "p", Types: []string{"A"}, Base: "zz_generated"}
	one := func(name string, mod func(in *Input), snips ...Snip) Input {
		in := base
		in.Types = []string{"A"}
		in.Gens = []Gen{{Name: name, Calls: [][]Snip{snips}}}
		if mod != nil {
			mod(&in)
		}
		return in
	}
	return []Input{
		one("x", nil, block("func F() {}\n")),
		// finding #32: printing makes h multi-line; gofumpt wants a blank line between multi-line declarations
		one("x", nil, block("func g(a int, b int) (r int, err error) { return }\n"), block("func h() { if true { println() } else { println() } }\n")),
		one("x", nil, block("\n")),                           // whitespace only: header and package clause alone
		one("x", nil, Snip{K: "comment", S: []byte("only")}), // comment only
		one("x", nil), // nothing rendered: no file
		one("x", func(in *Input) { in.GoVer = "1.18"; in.ModPath = "m"; in.Dir = "" },
			Snip{K: "t", S: []byte("var a @a0\nvar b @a1\nvar c @a2\n"), Sub: []Snip{{K: "id", S: []byte("bytes.Buffer")}, {K: "id", S: []byte("m/sub/dep.Thing")}, {K: "id", S: []byte("github.com/x/y/v2.Z")}}}),
		one("x", nil, block("import \"unsafe\"\n"), block("var p unsafe.Pointer\n")), // the body brings its own import declaration
		one("x", nil, block("func f() {")),                                           // malformed
	}
}

func (prop) Generate(r *core.RNG, tier string) []json.RawMessage {
	n := 100
	if tier == "thorough" {
		n = 1000
	}
	var out []json.RawMessage
	for _, in := range fixedCases() {
		out = append(out, mkInput(in))
	}
	for i := 0; i < n; i++ {
		out = append(out, mkInput(genCase(r, r.Chance(10))))
	}
	if tier == "thorough" {
		// small scope, exhaustively: every ordered pair of declaration texts as the body of one generator
		// (neighbour-dependent formatting is where the formatter pipeline can miss its fixed point)
		base := Input{ModPath: "example.com/m", GoVer: "1.22", Dir: "p", PkgName: "p", Types: []string{"A"}, Base: "zz_generated"}
		off := r.Intn(3)
		for i, a := range declTexts {
			for j, b := range declTexts {
				if (i+j+off)%3 != 0 { // one third of the pairs per run, which third depends on the seed
					continue
				}
				c := &ctr{}
				in := base
				in.Gens = []Gen{{Name: "pair", Calls: [][]Snip{{block(c.text(a)), block(c.text(b))}}}}
				out = append(out, mkInput(in))
			}
		}
	}
	return out
}

// ---- shrinking: fewer generators, fewer snippets, shorter texts, plainer module ----

func (prop) Shrink(raw json.RawMessage) []json.RawMessage {
	var in Input
	if json.Unmarshal(raw, &in) != nil {
		return nil
	}
	var out []json.RawMessage
	clone := func() Input {
		var c Input
		b, _ := json.Marshal(in)
		_ = json.Unmarshal(b, &c)
		return c
	}
	// drop a generator
	if len(in.Gens) > 1 {
		for gi := range in.Gens {
			c := clone()
			c.Gens = append(c.Gens[:gi], c.Gens[gi+1:]...)
			out = append(out, mkInput(c))
		}
	}
	// drop a snippet
	for gi := range in.Gens {
		for ci := range in.Gens[gi].Calls {
			for si := range in.Gens[gi].Calls[ci] {
				c := clone()
				l := c.Gens[gi].Calls[ci]
				c.Gens[gi].Calls[ci] = append(l[:si:si], l[si+1:]...)
				out = append(out, mkInput(c))
			}
		}
		for si := range in.Gens[gi].Defer {
			c := clone()
			l := c.Gens[gi].Defer
			c.Gens[gi].Defer = append(l[:si:si], l[si+1:]...)
			out = append(out, mkInput(c))
		}
	}
	// fewer types (calls of dropped types are folded into the first)
	if len(in.Types) > 1 {
		c := clone()
		c.Types = c.Types[:1]
		for gi := range c.Gens {
			var all []Snip
			for _, l := range c.Gens[gi].Calls {
				all = append(all, l...)
			}
			c.Gens[gi].Calls = [][]Snip{all}
		}
		out = append(out, mkInput(c))
	}
	// plainer module
	if in.ModPath != "example.com/m" || in.Dir != "p" || in.PkgName != "p" || in.Base != "zz_generated" || in.All || in.Prev {
		c := clone()
		c.ModPath, c.Dir, c.PkgName, c.Base, c.All, c.Prev = "example.com/m", "p", "p", "zz_generated", false, false
		out = append(out, mkInput(c))
	}
	if in.GoVer != "1.22" {
		c := clone()
		c.GoVer = "1.22"
		out = append(out, mkInput(c))
	}
	// flatten a composite snippet into a block of its members' texts is not possible without running; shorten blocks by lines
	for gi := range in.Gens {
		for ci := range in.Gens[gi].Calls {
			for si, s := range in.Gens[gi].Calls[ci] {
				if s.K != "block" {
					continue
				}
				lines := strings.SplitAfter(string(s.S), "\n")
				if len(lines) <= 1 {
					continue
				}
				for li := range lines {
					c := clone()
					nl := append(append([]string(nil), lines[:li]...), lines[li+1:]...)
					c.Gens[gi].Calls[ci][si].S = []byte(strings.Join(nl, ""))
					out = append(out, mkInput(c))
				}
			}
		}
	}
	return out
}
