package c01

import (
	"encoding/json"
	"fmt"
	"strings"

	"verifharness/internal/core"
)

// ---- vocabulary: texts of declarations, %d = a counter that keeps names distinct ----

var declTexts = []string{
	// functions
	"func F%d() {}\n",
	"func g%d(a int, b int) (r int, err error) { return }\n",
	"func h%d() { if true { println() } else { println() } }\n",
	"func (r *R%d) M(x ...int) []int { return append(x[:0], x...) }\n",
	"func G%d[T any, U comparable](t T, u U) (T, U) {\n\n\treturn t, u\n\n}\n",
	"func F%d(\n\ta int,\n\tb string) {\n}\n",
	"func f%d() (int) {\n\tvar x = 1\n\tvar y int = 2\n\treturn x+y\n}\n",
	"func s%d(v any) string {\n\tswitch v.(type) {\n\tcase int: return \"i\"\n\tcase string,\n\t\tbool:\n\t\treturn \"s\"\n\t}\n\treturn \"\"\n}\n",
	"func c%d() []int { return []int{1,\n2, 3} }\n",
	"func d%d() { defer func() { recover() }(); go func() {}() }\n",
	"func l%d() { for i := 0; i < 3; i++ { _ = i }; for range 3 {} }\n",
	"func m%d() map[string]struct{ A int } { return map[string]struct{ A int }{\"a\": {1}, \"b\": {A: 2}} }\n",
	"func o%d() { _ = 0644; _ = 0X1F; _ = 1E3; _ = 0B11; _ = 'x' }\n",
	"func e%d() error {\n\n\tif err := error(nil); err != nil {\n\n\t\treturn err\n\t}\n\n\n\treturn nil\n}\n",
	"func    w%d  (  a   int ,b  *  int  )   {  *  b  =  a  }\n",
	"func k%d() { x := struct{A, B int}{\n1, 2}; _ = x }\n",
	"func lit%d() { _ = []string{\n\"a\",\n\"b\"}\n}\n",
	"func asm%d()\n",
	// types
	"type T%d struct {\n\tA int `json:\"a\"`\n\n\tB string // trailing\n}\n",
	"type (\n\tA%d int\n)\n",
	"type (\n\tP%d int\n\tQ%d = string\n)\n",
	"type I%d interface{ M(); N() int }\n",
	"type E%d = map[string][]*int\n",
	"type S%d struct{ a, b int; c string }\n",
	"type N%d[T ~int|~string] struct { v T }\n",
	"type Fn%d func(a, b int) (c int)\n",
	"type Emb%d struct {\n\n\tS string\n\n}\n",
	// variables and constants
	"var v%d = []int{1,2,\n3}\n",
	"var (\n\tx%d = 1\n)\n",
	"var (\n\ty%d = 1\n\tz%d   = \"two\"\n\n\tlonger%d int\n)\n",
	"const (\n\tc%d = iota\n\td%d\n)\n",
	"var a%d, b%d = 0644, 0x1F\n",
	"const s%d = `raw\n\tstring`\n",
	"const k%d = 1<<3 + 2*3\n",
	"var p%d int; var q%d int\n",
	"var fn%d = func() {\n}\n",
	"var _ = map[int]string{\n1: \"a\",\n 22: \"b\",\n}\n",
	// comments and directives in text
	"// floating comment %d\n\n",
	"//nospace comment %d\n",
	"/* block\n comment %d */\n",
	"//go:generate echo %d\n",
	"//go:noinline\nfunc n%d() {}\n",
	"// Doc%d is documented.\n//\n//   indented code\n//\n// Deprecated: no.\nfunc Doc%d() {}\n",
	"//export foo%d\n",
	"// +build ignore%d\n\n",
	"//line x.go:%d\n",
	"func tc%d() {} // trailing comment\n",
	"/* lead */ func lc%d() {}\n",
	"func ic%d( /* in */ a int /* out */) { // open\n\t// inside\n} // close\n",
	// odd whitespace
	"\n\n\n",
	"\t \n",
	"func cr%d() {\r\n\treturn\r\n}\r\n",
	"var cs%d = \"a\"\r\n\r\n// crlf comment\r\nvar ct%d = `x\r\ny`\r\n",
	"func ws%d() {   \n   return   \n}   \n",
	"func tb%d() {\n        x := 1\n\t_ = x\n}\n",
	"func ne%d() {}", // no newline at the end
	"var u%d = \"é世\"\n",
	"func (T%d) String() string { return \"\" }\n\n\n\n",
	"var (\n)\n",
	"func z%d() { var ( a = 1; b = 2 ); _, _ = a, b }\n",
	"func lb%d() {\nL:\n\tfor {\n\t\tbreak L\n\t}\n}\n",
	"func sel%d(c chan int) { select { case <-c: default: } }\n",
}

// ---- very long source lines ----
//
// A generator that embeds a schema, an asset or a table renders single source lines of tens or hundreds of KiB.
// The property's clause "contains the declarations the generator rendered, in order" has no size limit, while
// line-oriented readers do (bufio.Reader.ReadLine: 4096, bufio.Scanner: 65536 unless given a buffer).  One long-line
// declaration = a kind (where the long line sits) and the length of that line in bytes, newline excluded.

var longKinds = []string{"string_var", "comment_line", "byte_slice", "raw_string_line", "struct_tag", "one_line_func", "block_comment_line"}

// lengths around the limits of the standard line readers, and well beyond
var longLens = []int{4095, 4096, 4097, 8200, 65535, 65536, 65537, 70000, 131073, 200000}

const longLenHuge = 1<<20 + 5 // thorough only

var longUnits = []string{"a", "x", "0123456789", "ab ", "é"}

func fill(unit string, n int) string {
	if n <= 0 {
		return ""
	}
	k := n / len(unit)
	return strings.Repeat(unit, k) + strings.Repeat("_", n-k*len(unit))
}

// longLineDecl: a declaration text one of whose lines is exactly n bytes long (n >= 64)
func longLineDecl(kind string, n int, unit string, c *ctr) string {
	c.n++
	id := fmt.Sprint(c.n)
	switch kind {
	case "string_var":
		pre, post := "var Spec"+id+" = \"", "\""
		return pre + fill(unit, n-len(pre)-len(post)) + post + "\n"
	case "comment_line":
		pre := "// asset" + id + " "
		return pre + fill(unit, n-len(pre)) + "\n\n"
	case "byte_slice":
		pre, post := "var Bytes"+id+" = []byte{", "1}"
		return pre + fill("1, ", (n-len(pre)-len(post))/3*3) + post + strings.Repeat(" ", (n-len(pre)-len(post))%3) + "\n"
	case "raw_string_line":
		return "const Raw" + id + " = `first\n" + fill(unit, n) + "\nlast`\n"
	case "struct_tag":
		pre, post := "\tA int `doc:\"", "\"`"
		return "type Tagged" + id + " struct {\n" + pre + fill(unit, n-len(pre)-len(post)) + post + "\n}\n"
	case "one_line_func":
		pre, post := "func Long"+id+"() string { return \"", "\" }"
		return pre + fill(unit, n-len(pre)-len(post)) + post + "\n"
	case "block_comment_line":
		return "/* table" + id + "\n" + fill(unit, n) + "\n*/\n\n"
	}
	panic("c01: unknown long-line kind " + kind)
}

func genLongSnip(r *core.RNG, c *ctr) Snip {
	return block(longLineDecl(core.Pick(r, longKinds), core.Pick(r, longLens), core.Pick(r, longUnits), c))
}

// bodies that make the assembled file unparseable (Execute must fail, nothing is claimed about the file)
var malformedTexts = []string{
	"func {\n", "}\n", "var = 1\n", "x := 1\n", "func f%d() {\n", "\"unterminated\n", "package q\n", "func f%d() {}}\n",
	"var s%d = `open\n", "/* open comment\n", "type %d int\n", "func f%d() { if }\n", "var x%d int var y%d int\n",
	"\x00", "\xff\xfe", "var b%d = \"\xc3\"\n", "\f\n", "\xef\xbb\xbf", "import \"late%d\"\nfunc x%d(){}\nimport \"later\"\n",
	"func f%d() { return ) }\n", "@\n", "var r%d = '\n", "func f%d(a int, a) {}\n",
}

var stdRefs = []string{"bytes.Buffer", "net/http.Client", "encoding/json.Marshal", "context.Context", "fmt.Stringer",
	"io.Reader", "os.File", "strings.Builder", "time.Duration", "sync.Mutex", "go/ast.Node", "text/template.Template",
	"html/template.Template", "math/rand.Rand", "crypto/rand.Reader", "database/sql.DB", "net/url.URL", "path/filepath.WalkFunc"}

var extRefs = []string{"github.com/x/y/v2.Z", "golang.org/x/tools/go/packages.Package", "k8s.io/api/core/v1.Pod",
	"gopkg.in/yaml.v3.Node", "example.org/apis/meta/v1.Object", "example.org/domain/user.User", "github.com/pkg/errors.Frame",
	"mvdan.cc/gofumpt/format.Options", "a/b.C", "x.Y"}

var genNames = []string{"alpha", "beta", "gamma", "deepcopy", "runtimedoc", "x", "a-b", "a.b", "v2", "G_1", "UPPER", "enum"}
var oddGenNames = []string{"a:b", "a+b", "a*b", "é", "a,b", "a'b", "#h", "[l]", "a\"b"}

var modPaths = []string{"example.com/m", "m", "example", "github.com/acme/proj", "gitlab.example.org/g/sub/proj", "my.mod/v2", "stdx", "go.example/x-y"}
var goVers = []string{"1.18", "1.19", "1.20", "1.21", "1.21.0", "1.22", "1.22.3", "1.23", "1.23.0", "1.24.2"}
var dirs = []string{"", "p", "pkg/api", "internal/x", "a/b/c", "v1", "apis/meta/v1"}
var pkgNames = []string{"p", "api", "main", "x", "v1", "meta", "foo_bar", "P1", "pkg", "é"}
var bases = []string{"zz_generated", "zz", "gen", "zz_generated.x", "x_gen"}

type ctr struct{ n int }

func (c *ctr) text(t string) string {
	for strings.Contains(t, "%d") {
		c.n++
		t = strings.Replace(t, "%d", fmt.Sprint(c.n), 1)
	}
	return t
}

func block(s string) Snip { return Snip{K: "block", S: []byte(s)} }

func genRef(r *core.RNG, in *Input) string {
	switch k := r.Intn(10); {
	case k < 5:
		return core.Pick(r, stdRefs)
	case k < 8:
		return core.Pick(r, extRefs)
	case k < 9:
		if in.Mod2 != nil && r.Bool() {
			return in.Mod2.ModPath + "/sub/dep.Thing"
		}
		return in.ModPath + "/sub/dep.Thing" // a package of the module itself: gofumpt's ModulePath decides its import group
	default:
		p := in.ModPath
		if in.Dir != "" {
			p += "/" + in.Dir
		}
		return p + ".Local" // the target package itself: no import
	}
}

// one declaration, as a snippet
func genDeclSnip(r *core.RNG, c *ctr, in *Input) Snip {
	if r.Chance(9) { // a lazily evaluated sequence with nested Render calls
		return genLazySnip(r, c)
	}
	switch k := r.Intn(20); {
	case k < 11:
		return block(c.text(core.Pick(r, declTexts)))
	case k < 12:
		return Snip{K: "comment", S: []byte(core.Pick(r, []string{"a comment", "two\nlines", "", "trailing space ", "\ttabbed", "x\n\ny", "+gengo:tag", "go:embed x", "ünï"}))}
	case k < 13:
		return Snip{K: "snippets", Sub: []Snip{
			{K: "directive", S: []byte(core.Pick(r, []string{"generate", "noinline", "generate", "noinline", "linkname", "build", ""})), A: core.Pick(r, [][]string{nil, {"echo", "hi"}, {"", "x"}, {"linux"}})},
			block("\n"), block(c.text("func dr%d() {}\n"))}}
	case k < 14:
		return Snip{K: "snippets", Sub: []Snip{{K: "comment", S: []byte(c.text("Cm%d does things."))}, block("\n"), block(""), block(c.text("func Cm%d() {}\n"))}}
	case k < 16: // var of a referenced type, through a template
		c.n++
		return Snip{K: "t", S: []byte(fmt.Sprintf("var r%d @a0\n", c.n)), Sub: []Snip{{K: "id", S: []byte(genRef(r, in))}}}
	case k < 17:
		c.n++
		ref := genRef(r, in)
		i := strings.LastIndex(ref, ".")
		return Snip{K: "t", S: []byte(fmt.Sprintf("\nfunc t%d(a @a0, b *@a1) (@a0, error) {\n\treturn a, nil }\n", c.n)),
			Sub: []Snip{{K: "expose", S: []byte(ref[:i]), A: []string{ref[i+1:]}}, {K: "id", S: []byte(genRef(r, in))}}}
	case k < 18:
		c.n++
		return Snip{K: "sprintf", S: []byte(fmt.Sprintf("type st%d struct { F %%T; G []%%T; n%%v int }\n", c.n)),
			Sub: []Snip{{K: "id", S: []byte(genRef(r, in))}, {K: "id", S: []byte(genRef(r, in))}, block("7")}}
	case k < 19:
		return Snip{K: "snippets", Sub: []Snip{block(c.text("var sn%d ")), {K: "id", S: []byte(genRef(r, in))}, block("\n")}}
	default:
		return Snip{K: core.Pick(r, []string{"nil", "block", "t", "sprintf"})} // nil / IsNil snippets: nothing is written
	}
}

// ---- nested Render calls ----
//
// A snippet may call c.Render while it is being iterated: a lazily evaluated sequence emits a declaration, creates the
// shared helper it needs the moment it first needs it (a nested Render on the same Context), and goes on.  The clause
// "contains the declarations the generator rendered, in order" covers every text handed to the writer, in the order it
// was produced - whatever the outer snippet produced before the nested call included.

var helperTexts = []string{
	"func helper%d(v any) any { return v }\n",
	"func register%d(v any) any {\n\treturn v\n}\n\n",
	"var registry%d = map[string]any{}\n",
	"type helperT%d struct{ n int }\n",
	"// helper%d is shared.\nfunc helper%d() {}\n",
	"const helperK%d = 1\n",
}

var plainDecls = []string{
	"func (A) Kind%d() string { return \"A\" }\n",
	"var _ = any(A{}) // reg %d\n",
	"func m%d() {}\n\n",
	"type t%d int\n",
	"var v%d = []int{1, 2,\n3}\n",
	"// Doc%d.\nfunc Doc%d() {}\n",
	"const c%d = 2\n",
}

// lazySnip: nBefore declarations, a nested Render of nInner helper declarations (with a once-key: only the first time
// the key is met), nAfter declarations; depth 2: the nested snippet is itself such a sequence
func lazySnip(c *ctr, form, key string, nBefore, nInner, nAfter, depth int, pick func([]string) string) Snip {
	s := Snip{K: "lazy", A: []string{form}}
	for i := 0; i < nBefore; i++ {
		s.Sub = append(s.Sub, block(c.text(pick(plainDecls))))
	}
	rm := Snip{K: "render", A: []string{key}}
	for i := 0; i < nInner; i++ {
		if depth > 1 && i == 0 {
			rm.Sub = append(rm.Sub, lazySnip(c, form, "", 1, 1, 1, depth-1, pick))
		} else {
			rm.Sub = append(rm.Sub, block(c.text(pick(helperTexts))))
		}
	}
	s.Sub = append(s.Sub, rm)
	for i := 0; i < nAfter; i++ {
		s.Sub = append(s.Sub, block(c.text(pick(plainDecls))))
	}
	return s
}

func genLazySnip(r *core.RNG, c *ctr) Snip {
	depth := 1
	if r.Chance(20) {
		depth = 2
	}
	s := lazySnip(c, core.Pick(r, []string{"snippets", "func"}), core.Pick(r, []string{"", "", "h1", "h1", "h2"}),
		r.Intn(3), 1+r.Intn(2), r.Intn(3), depth, func(l []string) string { return core.Pick(r, l) })
	if r.Chance(25) { // a second nested call further on in the same sequence
		s.Sub = append(s.Sub, Snip{K: "render", A: []string{core.Pick(r, []string{"", "h1", "h3"})}, Sub: []Snip{block(c.text(core.Pick(r, helperTexts)))}},
			block(c.text(core.Pick(r, plainDecls))))
	}
	if r.Chance(15) { // comments and directives as members
		s.Sub = append([]Snip{{K: "comment", S: []byte(c.text("lazy%d starts here"))}, block("\n")}, s.Sub...)
	}
	return s
}

func genModule(r *core.RNG) Input {
	in := Input{ModPath: core.Pick(r, modPaths), GoVer: core.Pick(r, goVers), Dir: core.Pick(r, dirs),
		PkgName: core.Pick(r, pkgNames), Base: core.Pick(r, bases)}
	if r.Chance(60) {
		in.Base = "zz_generated"
	}
	if r.Chance(50) {
		in.PkgName = "p"
	}
	nt := 1 + r.Intn(3)
	in.Types = []string{"A", "B", "C"}[:nt]
	in.All = r.Chance(15)
	in.Prev = r.Chance(30)
	return in
}

const longChance = 5

// modPaths2 / goVers2: second modules.  Dot-less paths sort before and after the usual first-module paths (packages are
// processed in sorted import-path order); go directives include pre-1.13 ones (no 0o literals) and pre-generics ones.
var modPaths2 = []string{"m2", "a2", "zlib", "example.net/two", "b.example/x", "github.com/acme/other", "m2/v3"}
var goVers2 = []string{"1.11", "1.12", "1.12", "1.13", "1.16", "1.17", "1.18", "1.20", "1.21", "1.22", "1.23", "1.24.2"}

func twoModuleSnips(c *ctr, in *Input) []Snip {
	c.n += 2
	refs := []Snip{{K: "id", S: []byte("fmt.Stringer")}, {K: "id", S: []byte(in.ModPath + "/sub/dep.Thing")}, {K: "id", S: []byte("github.com/x/y/v2.Z")}}
	tmpl := "var ma%d @a0\nvar mb%d @a1\nvar mc%d @a2\n"
	if in.Mod2 != nil {
		refs = append(refs, Snip{K: "id", S: []byte(in.Mod2.ModPath + "/other.X")})
		tmpl += "var md%d @a3\n"
	}
	return []Snip{
		{K: "t", S: []byte(strings.ReplaceAll(tmpl, "%d", fmt.Sprint(c.n))), Sub: refs},
		block(fmt.Sprintf("var oct%d = []int{0644, 0o755, 0X1F}\n", c.n+1)),
	}
}

func goVerLess(a, b string) bool {
	pa, pb := strings.Split(a, "."), strings.Split(b, ".")
	for i := 0; i < 3; i++ {
		x, y := 0, 0
		if i < len(pa) {
			fmt.Sscan(pa[i], &x)
		}
		if i < len(pb) {
			fmt.Sscan(pb[i], &y)
		}
		if x != y {
			return x < y
		}
	}
	return false
}

func genMod2(r *core.RNG, in *Input) {
	for {
		m := &Module{ModPath: core.Pick(r, modPaths2), GoVer: core.Pick(r, goVers2), Dir: core.Pick(r, dirs), PkgName: core.Pick(r, pkgNames)}
		// the go command raises the main module's go directive to that of its dependencies (go >= 1.21, -mod=mod):
		// the second module is never newer than the first
		if r.Chance(40) || goVerLess(in.GoVer, m.GoVer) {
			m.GoVer = in.GoVer // same language version: only the module path differs
		}
		if m.ModPath == in.ModPath || strings.HasPrefix(m.ModPath+"/", in.ModPath+"/") || strings.HasPrefix(in.ModPath+"/", m.ModPath+"/") {
			continue
		}
		m.Types = []string{"A", "B", "C"}[:1+r.Intn(3)]
		in.Mod2 = m
		return
	}
}

func genCase(r *core.RNG, malformed bool) Input {
	in := genModule(r)
	if r.Chance(12) {
		genMod2(r, &in)
		in.All = false
	}
	c := &ctr{}
	ng := 1 + r.Intn(3)
	names := append([]string(nil), genNames...)
	badGen := r.Intn(ng)
	for gi := 0; gi < ng; gi++ {
		k := r.Intn(len(names))
		g := Gen{Name: names[k]}
		names = append(names[:k], names[k+1:]...)
		if r.Chance(4) {
			g.Name = core.Pick(r, oddGenNames)
		}
		nd := 1 + r.Intn(8)
		if r.Chance(6) {
			nd = 0 // renders nothing: no file
		}
		g.Calls = make([][]Snip, len(in.Types))
		for d := 0; d < nd; d++ {
			s := genDeclSnip(r, c, &in)
			if r.Chance(12) {
				g.Defer = append(g.Defer, s)
			} else {
				k := r.Intn(len(in.Types))
				g.Calls[k] = append(g.Calls[k], s)
			}
		}
		if r.Chance(longChance) { // one very long source line somewhere in this generator's output
			k := r.Intn(len(in.Types))
			pos := r.Intn(len(g.Calls[k]) + 1)
			g.Calls[k] = append(g.Calls[k][:pos:pos], append([]Snip{genLongSnip(r, c)}, g.Calls[k][pos:]...)...)
		}
		if in.Mod2 != nil && r.Chance(70) {
			// what makes the two modules format differently: imports of std + both modules' own packages (grouping
			// depends on ModulePath), and old-style octal literals (rewritten to 0o only from go 1.13 on)
			k := r.Intn(len(in.Types))
			g.Calls[k] = append(g.Calls[k], twoModuleSnips(c, &in)[r.Intn(2)])
		}
		if malformed && gi == badGen {
			s := block(c.text(core.Pick(r, malformedTexts)))
			k := r.Intn(len(in.Types))
			pos := r.Intn(len(g.Calls[k]) + 1)
			g.Calls[k] = append(g.Calls[k][:pos:pos], append([]Snip{s}, g.Calls[k][pos:]...)...)
		}
		in.Gens = append(in.Gens, g)
	}
	return in
}

func fixedCases() []Input {
	base := Input{ModPath: "example.com/m", GoVer: "1.22", Dir: "p", PkgName: "p", Types: []string{"A"}, Base: "zz_generated"}
	one := func(name string, mod func(in *Input), snips ...Snip) Input {
		in := base
		in.Types = []string{"A"}
		in.Gens = []Gen{{Name: name, Calls: [][]Snip{snips}}}
		if mod != nil {
			mod(&in)
		}
		return in
	}
	return []Input{
		one("x", nil, block("func F() {}\n")),
		// finding #32: printing makes h multi-line; gofumpt wants a blank line between multi-line declarations
		one("x", nil, block("func g(a int, b int) (r int, err error) { return }\n"), block("func h() { if true { println() } else { println() } }\n")),
		one("x", nil, block("\n")),                           // whitespace only: header and package clause alone
		one("x", nil, Snip{K: "comment", S: []byte("only")}), // comment only
		one("x", nil), // nothing rendered: no file
		one("x", func(in *Input) { in.GoVer = "1.18"; in.ModPath = "m"; in.Dir = "" },
			Snip{K: "t", S: []byte("var a @a0\nvar b @a1\nvar c @a2\n"), Sub: []Snip{{K: "id", S: []byte("bytes.Buffer")}, {K: "id", S: []byte("m/sub/dep.Thing")}, {K: "id", S: []byte("github.com/x/y/v2.Z")}}}),
		one("x", nil, block("import \"unsafe\"\n"), block("var p unsafe.Pointer\n")), // the body brings its own import declaration
		one("x", nil, block("func f() {")),                                           // malformed
		// very long source lines (see longLineDecl): the declarations before, at and after the line must all arrive
		one("x", nil, block("func Before() {}\n"), block(longLineDecl("string_var", 70000, "a", &ctr{})), block("func After() {}\n")),
		one("x", nil, block("var before = 1\n"), block(longLineDecl("comment_line", 65536, "ab ", &ctr{})), block("var after = 2\n")),
		one("x", nil, block("type Before int\n"), block(longLineDecl("byte_slice", 4097, "", &ctr{})), block("type After int\n")),
		one("x", nil, block(longLineDecl("raw_string_line", 200000, "0123456789", &ctr{})), block("func After() {}\n")),
		// nested Render calls from inside a snippet's iteration (see lazySnip): a method per type, the shared helper created
		// by a nested c.Render the first time it is needed, the registration; both forms; every time / once; depth 2; defer
		func() Input {
			in := one("x", nil)
			in.Types = []string{"A", "B"}
			per := func(t string) Snip {
				return Snip{K: "lazy", A: []string{"snippets"}, Sub: []Snip{
					block("func (" + t + ") Kind() string { return \"" + t + "\" }\n"),
					{K: "render", A: []string{"registerKind"}, Sub: []Snip{block("func registerKind(v any) any { return v }\n")}},
					block("var _ = registerKind(" + t + "{})\n")}}
			}
			in.Gens = []Gen{{Name: "kind", Calls: [][]Snip{{per("A")}, {per("B")}}}}
			return in
		}(),
		one("x", nil, block("func First() {}\n"), lazySnip(&ctr{n: 10}, "func", "", 2, 2, 1, 1, func(l []string) string { return l[0] }), block("func Last() {}\n")),
		one("x", nil, lazySnip(&ctr{n: 20}, "snippets", "", 1, 2, 1, 2, func(l []string) string { return l[1] })),
		func() Input {
			c := &ctr{n: 30}
			first := func(l []string) string { return l[0] }
			in := one("x", nil, lazySnip(c, "func", "h", 1, 1, 1, 1, first), lazySnip(c, "snippets", "h", 1, 1, 1, 1, first))
			in.Gens[0].Defer = []Snip{lazySnip(c, "snippets", "h", 0, 1, 1, 1, first), lazySnip(c, "func", "d", 1, 1, 0, 1, first)}
			return in
		}(),
		// ONE Execute over packages of TWO modules (the second reached through require + replace): every file is
		// formatted for the module IT lies in.  Second module dot-less (its own packages are grouped apart from std,
		// in the first module's file they look like std) sorting after / before the first; second module with an
		// older go directive (0644 stays) sorting after / before; first module the old one.
		two("example.com/m", "1.24.2", "m2", "1.24.2", 0),
		two("example.com/m", "1.22", "a2", "1.22", 0),
		two("example.com/m", "1.22", "example.net/two", "1.12", 1),
		two("example.com/m", "1.22", "b.example/x", "1.11", 1),
		two("my.mod/v2", "1.13", "zlib", "1.12", 1),
		two("m", "1.18", "m2/v3", "1.18", 0),
	}
}

func two(mod1, go1, mod2, go2 string, which int) Input {
	in := Input{ModPath: mod1, GoVer: go1, Dir: "a", PkgName: "a", Types: []string{"A"}, Base: "zz_generated",
		Mod2: &Module{ModPath: mod2, GoVer: go2, Dir: "b", PkgName: "b", Types: []string{"B"}}}
	sn := twoModuleSnips(&ctr{}, &in)
	in.Gens = []Gen{{Name: "x", Calls: [][]Snip{{block("func F() {}\n"), sn[which], sn[1-which]}}}}
	return in
}

func (prop) Generate(r *core.RNG, tier string) []json.RawMessage {
	n := 100
	if tier == "thorough" {
		n = 1000
	}
	var out []json.RawMessage
	for _, in := range fixedCases() {
		out = append(out, mkInput(in))
	}
	for i := 0; i < n; i++ {
		out = append(out, mkInput(genCase(r, r.Chance(10))))
	}
	if tier == "thorough" {
		// every long-line kind at every length (and once beyond 1 MiB), between two ordinary declarations
		lb := Input{ModPath: "example.com/m", GoVer: "1.22", Dir: "p", PkgName: "p", Types: []string{"A"}, Base: "zz_generated"}
		hugeKind := r.Intn(len(longKinds))
		for ki, kind := range longKinds {
			for li, n := range append(append([]int(nil), longLens...), longLenHuge) {
				if n == longLenHuge && ki != hugeKind {
					continue
				}
				c := &ctr{}
				in := lb
				in.Gens = []Gen{{Name: "long", Calls: [][]Snip{{block("func Before() {}\n"), block(longLineDecl(kind, n, longUnits[(ki+li)%len(longUnits)], c)), block("func After() {}\n")}}}}
				out = append(out, mkInput(in))
			}
		}
		// every second-module path with an old and a new go directive, first module dotted / dot-less
		for _, m2 := range modPaths2 {
			for _, g2 := range []string{"1.12", "1.23"} {
				for _, m1 := range []string{"example.com/m", "m"} {
					out = append(out, mkInput(two(m1, "1.22", m2, g2, r.Intn(2))))
				}
			}
		}
		// small scope, exhaustively: every ordered pair of declaration texts as the body of one generator
		// (neighbour-dependent formatting is where the formatter pipeline can miss its fixed point)
		base := Input{ModPath: "example.com/m", GoVer: "1.22", Dir: "p", PkgName: "p", Types: []string{"A"}, Base: "zz_generated"}
		off := r.Intn(3)
		for i, a := range declTexts {
			for j, b := range declTexts {
				if (i+j+off)%3 != 0 { // one third of the pairs per run, which third depends on the seed
					continue
				}
				c := &ctr{}
				in := base
				in.Gens = []Gen{{Name: "pair", Calls: [][]Snip{{block(c.text(a)), block(c.text(b))}}}}
				out = append(out, mkInput(in))
			}
		}
	}
	return out
}

// ---- shrinking: fewer generators, fewer snippets, shorter texts, plainer module ----

func (prop) Shrink(raw json.RawMessage) []json.RawMessage {
	var in Input
	if json.Unmarshal(raw, &in) != nil {
		return nil
	}
	var out []json.RawMessage
	clone := func() Input {
		var c Input
		b, _ := json.Marshal(in)
		_ = json.Unmarshal(b, &c)
		return c
	}
	// drop a generator
	if len(in.Gens) > 1 {
		for gi := range in.Gens {
			c := clone()
			c.Gens = append(c.Gens[:gi], c.Gens[gi+1:]...)
			out = append(out, mkInput(c))
		}
	}
	// drop a snippet
	for gi := range in.Gens {
		for ci := range in.Gens[gi].Calls {
			for si := range in.Gens[gi].Calls[ci] {
				c := clone()
				l := c.Gens[gi].Calls[ci]
				c.Gens[gi].Calls[ci] = append(l[:si:si], l[si+1:]...)
				out = append(out, mkInput(c))
			}
		}
		for si := range in.Gens[gi].Defer {
			c := clone()
			l := c.Gens[gi].Defer
			c.Gens[gi].Defer = append(l[:si:si], l[si+1:]...)
			out = append(out, mkInput(c))
		}
	}
	// a lazy snippet: drop a member; drop one snippet of a nested Render; nested calls every time instead of once
	for gi := range in.Gens {
		for ci := range in.Gens[gi].Calls {
			for si, s := range in.Gens[gi].Calls[ci] {
				if s.K != "lazy" {
					continue
				}
				for mi, m := range s.Sub {
					if len(s.Sub) > 1 {
						c := clone()
						l := c.Gens[gi].Calls[ci][si].Sub
						c.Gens[gi].Calls[ci][si].Sub = append(l[:mi:mi], l[mi+1:]...)
						out = append(out, mkInput(c))
					}
					if m.K != "render" {
						continue
					}
					if len(m.A) > 0 && m.A[0] != "" {
						c := clone()
						c.Gens[gi].Calls[ci][si].Sub[mi].A = []string{""}
						out = append(out, mkInput(c))
					}
					for xi := range m.Sub {
						if len(m.Sub) > 1 {
							c := clone()
							l := c.Gens[gi].Calls[ci][si].Sub[mi].Sub
							c.Gens[gi].Calls[ci][si].Sub[mi].Sub = append(l[:xi:xi], l[xi+1:]...)
							out = append(out, mkInput(c))
						}
						if m.Sub[xi].K == "lazy" { // depth 2 -> depth 1
							c := clone()
							c.Gens[gi].Calls[ci][si].Sub[mi].Sub[xi] = block("func inner() {}\n")
							out = append(out, mkInput(c))
						}
					}
				}
			}
		}
	}
	// one module only
	if in.Mod2 != nil {
		c := clone()
		c.Mod2 = nil
		out = append(out, mkInput(c))
		if in.Mod2.Dir != "b" || in.Mod2.PkgName != "b" || len(in.Mod2.Types) > 1 {
			c := clone()
			c.Mod2.Dir, c.Mod2.PkgName, c.Mod2.Types = "b", "b", c.Mod2.Types[:1]
			out = append(out, mkInput(c))
		}
	}
	// shorter long lines: the longest periodic stretch of a block cut to half, and to just above the next lower
	// line-reader limit
	for gi := range in.Gens {
		for ci := range in.Gens[gi].Calls {
			for si, s := range in.Gens[gi].Calls[ci] {
				if s.K != "block" || len(s.S) < 2048 {
					continue
				}
				start, length, per := longestRun(string(s.S))
				if length < 1024 {
					continue
				}
				for _, keep := range []int{length / 2, 66000, 4200} {
					keep = keep / per * per
					if keep >= length || keep < 512 {
						continue
					}
					c := clone()
					t := string(s.S)
					c.Gens[gi].Calls[ci][si].S = []byte(t[:start+keep] + t[start+length:])
					out = append(out, mkInput(c))
				}
			}
		}
	}
	// fewer types (calls of dropped types are folded into the first)
	if len(in.Types) > 1 {
		c := clone()
		c.Types = c.Types[:1]
		for gi := range c.Gens {
			var all []Snip
			for _, l := range c.Gens[gi].Calls {
				all = append(all, l...)
			}
			c.Gens[gi].Calls = [][]Snip{all}
		}
		out = append(out, mkInput(c))
	}
	// plainer module
	if in.ModPath != "example.com/m" || in.Dir != "p" || in.PkgName != "p" || in.Base != "zz_generated" || in.All || in.Prev {
		c := clone()
		c.ModPath, c.Dir, c.PkgName, c.Base, c.All, c.Prev = "example.com/m", "p", "p", "zz_generated", false, false
		out = append(out, mkInput(c))
	}
	if in.GoVer != "1.22" {
		c := clone()
		c.GoVer = "1.22"
		out = append(out, mkInput(c))
	}
	// flatten a composite snippet into a block of its members' texts is not possible without running; shorten blocks by lines
	for gi := range in.Gens {
		for ci := range in.Gens[gi].Calls {
			for si, s := range in.Gens[gi].Calls[ci] {
				if s.K != "block" {
					continue
				}
				lines := strings.SplitAfter(string(s.S), "\n")
				if len(lines) <= 1 {
					continue
				}
				for li := range lines {
					c := clone()
					nl := append(append([]string(nil), lines[:li]...), lines[li+1:]...)
					c.Gens[gi].Calls[ci][si].S = []byte(strings.Join(nl, ""))
					out = append(out, mkInput(c))
				}
			}
		}
	}
	return out
}
