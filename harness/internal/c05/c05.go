// Package c05: output for a package does not depend on what else is generated in the same run.  One module and one
// set of stateful scripted generators are run several times from the same initial tree, each time in a fresh child
// process: "together" runs (several entrypoints in some order) and, for every package, the run that requests only it.
package c05

import (
	"encoding/json"
	"fmt"
	"sort"
	"strings"

	"verifharness/internal/core"
	"verifharness/internal/pipe"
)

type prop struct{}

func init() { core.Register(prop{}) }

func (prop) ID() string        { return "C05" }
func (prop) CoqModule() string { return "Gengo.Corr.C05" }
func (prop) Parallel() int     { return 8 }

type input struct {
	pipe.Scenario            // Entry is unused; the runs are listed in Together
	Together      [][]string `json:"together"` // package dirs requested together, in this order
}

func enc(in input) json.RawMessage {
	b, _ := json.Marshal(in)
	return b
}

// A unit of a together-run is a package directory of the main module ("a", "" = root) or "@<import path>": a package of
// another on-disk module of the scenario (Module.Ext), requested by its import path.
func entryOf(dirs []string) []string {
	var e []string
	for _, d := range dirs {
		switch {
		case strings.HasPrefix(d, "@"):
			e = append(e, d[1:])
		case d == "":
			e = append(e, ".")
		default:
			e = append(e, "./"+d)
		}
	}
	return e
}

// unitPath: the import path of a unit.
func unitPath(m *pipe.Module, d string) string {
	if strings.HasPrefix(d, "@") {
		return d[1:]
	}
	return m.PkgPath(d)
}

// unitDir: the directory of a unit, relative to the main module's root (as the loader's world and the snapshots name it).
func unitDir(m *pipe.Module, d string) string {
	if !strings.HasPrefix(d, "@") {
		return d
	}
	path := d[1:]
	if x := m.ExtOf(path); x != nil {
		if path == x.ModPath {
			return x.Dir
		}
		return x.Dir + "/" + strings.TrimPrefix(path, x.ModPath+"/")
	}
	return strings.TrimPrefix(strings.TrimPrefix(path, m.ModPath), "/")
}

// twoModules: ONE run over packages of TWO modules — the application module and a library it uses through
// `replace => ../lib` (or a nested module), both named as entrypoints — which differ in what the formatter looks at: go
// directives on either side of 1.13 (0644 is rewritten to 0o644 from go 1.13 on) and a dot-less module path (gofumpt keeps
// imports of the file's own module apart from the standard library; a dot-less path of ANOTHER module looks like std).
// appFirst: the application's import paths sort before the library's (Execute walks the packages in sorted order).
func twoModules(appPath, appGo, libPath, libGo, libDir string, custom bool, work ...bool) input {
	const perm = "func (%s) Perm() int { return 0644 }\n"
	libName := libPath[strings.LastIndex(libPath, "/")+1:]
	m := pipe.Module{ModPath: appPath, GoVer: appGo, Pkgs: []pipe.Pkg{
		{Dir: "p", Name: "p", XImports: []string{libPath + "/q"}, Types: []pipe.Type{{Name: "File", Enabled: []string{"perm"}}}},
		{Dir: "p2", Name: "p2", Types: []pipe.Type{{Name: "Dir", Enabled: []string{"perm"}}}}},
		Ext: []pipe.ExtMod{{Dir: libDir, ModPath: libPath, GoVer: libGo, Pkgs: []pipe.Pkg{
			{Dir: "q", Name: "q", Imports: []string{"inner"}, Types: []pipe.Type{{Name: "Mode", Enabled: []string{"perm"}}}},
			{Dir: "inner", Name: "inner", Types: []pipe.Type{{Name: "X"}}}}}}}
	_ = libName
	if len(work) > 0 && work[0] { // a go.work workspace instead of require + replace
		m.Work = "auto"
	}
	steps := map[string]pipe.Step{
		appPath + "/p File": {Body: fmt.Sprintf(perm, "File"), Use: []string{"strings.Builder", libPath + "/q.Mode"}},
		appPath + "/p2 Dir": {Body: fmt.Sprintf(perm, "Dir")},
		libPath + "/q Mode": {Body: fmt.Sprintf(perm, "Mode"), Use: []string{"strings.Builder", libPath + "/inner.X"}}}
	lq := "@" + libPath + "/q"
	return input{Scenario: pipe.Scenario{Module: m, Base: "zz_generated", Gens: []pipe.Gen{{Name: "perm", CustomNew: custom, Steps: steps}}},
		Together: [][]string{{"p", lq}, {lq, "p"}, {"p", "p2", lq}, {"p2", lq}, {"p", "p2"}}}
}

func twoModuleCorner() []input {
	return []input{
		twoModules("example.com/zapp", "1.22", "example.com/lib", "1.12", "../lib", false), // the old library's packages come first
		twoModules("example.com/app", "1.22", "example.com/lib", "1.12", "../lib", true),   // the application's come first
		twoModules("example.com/app", "1.21", "example.com/app/lib", "1.11", "lib", false), // nested module
		twoModules("example.com/zapp", "1.22", "alib", "1.22", "../alib", false),           // same language version, dot-less library path
		twoModules("example.com/app", "1.22", "zlib", "1.12", "../zlib", true),             // both differ
		twoModules("app", "1.22", "example.com/lib", "1.22", "../lib", false),              // dot-less application path
		// the same selections in a go.work workspace: sibling module (go.work in the parent directory), nested module
		twoModules("example.com/app", "1.22", "example.com/lib", "1.12", "../lib", false, true),
		twoModules("example.com/zapp", "1.22", "example.com/zapp/lib", "1.22", "lib", true, true),
	}
}

// twoModuleScenario draws such an input.
func twoModuleScenario(r *core.RNG) input {
	app := core.Pick(r, []string{"example.com/app", "example.com/zapp", "app", "zapp", "m.test/x/app"})
	lib := core.Pick(r, []string{"example.com/lib", "alib", "zlib", "example.com/m/lib", "lib.test/v2"})
	if r.Chance(20) {
		lib = app + "/lib"
	}
	appGo := core.Pick(r, []string{"1.22", "1.21", "1.23", "1.13"})
	libGo := core.Pick(r, []string{"1.12", "1.12", "1.11", "1.13", appGo})
	libDir := "../lib"
	if r.Chance(30) {
		libDir = "lib"
	}
	in := twoModules(app, appGo, lib, libGo, libDir, r.Chance(40), r.Chance(35))
	if r.Chance(50) { // without the import tracker the runs are compared with the model in Coq as well
		for k, st := range in.Gens[0].Steps {
			st.Use = nil
			in.Gens[0].Steps[k] = st
		}
	}
	if r.Chance(50) {
		for k, st := range in.Gens[0].Steps {
			st.Count, st.Helper = r.Bool(), r.Bool()
			in.Gens[0].Steps[k] = st
		}
	}
	return in
}

func corner() []input {
	// two packages, one generator that renders its call counter and a helper once per instance
	st := pipe.Step{Count: true, Helper: true}
	m := pipe.Module{ModPath: "example.com/m", GoVer: "1.22", Pkgs: []pipe.Pkg{
		{Dir: "a", Name: "a", Types: []pipe.Type{{Name: "T0", Enabled: []string{"g1"}}, {Name: "T1", Enabled: []string{"g1"}}}},
		{Dir: "b", Name: "b", Types: []pipe.Type{{Name: "T0", Enabled: []string{"g1"}}}}}}
	steps := map[string]pipe.Step{"example.com/m/a T0": st, "example.com/m/a T1": st, "example.com/m/b T0": st}
	var out []input
	for _, custom := range []bool{false, true} {
		for _, all := range []bool{false, true} {
			out = append(out, input{Scenario: pipe.Scenario{Module: m, All: all, Base: "zz_generated",
				Gens: []pipe.Gen{{Name: "g1", CustomNew: custom, Steps: steps}}}, Together: [][]string{{"a", "b"}, {"b", "a"}}})
		}
	}
	// no custom New and a registered prototype that comes from a constructor (non-nil map and pointer fields): a per-package
	// instance copied from the prototype instead of a zero value would share them between the packages of the run
	for _, alias := range []bool{false, true} {
		out = append(out, input{Scenario: pipe.Scenario{Module: m, All: !alias, Base: "zz_generated",
			Gens: []pipe.Gen{{Name: "g1", Proto: true, Alias: alias, Steps: steps}}}, Together: [][]string{{"a", "b"}, {"b", "a"}}})
	}
	// no custom New and a prototype whose underlying type is not a struct (the value itself is the bookkeeping: a map, a
	// slice, an int; pointer receivers): the per-package instance is a pointer to a fresh zero value of that type.  And
	// the map kind with a custom New.
	for ki, kind := range pipe.Kinds {
		out = append(out, input{Scenario: pipe.Scenario{Module: m, All: ki == 1, Base: "zz_generated",
			Gens: []pipe.Gen{{Name: "g1", Kind: kind, Alias: ki == 2, Steps: steps}}}, Together: [][]string{{"a", "b"}, {"b", "a"}}})
	}
	out = append(out, input{Scenario: pipe.Scenario{Module: m, Base: "zz_generated",
		Gens: []pipe.Gen{{Name: "g1", Kind: "map", CustomNew: true, Steps: steps}}}, Together: [][]string{{"a", "b"}, {"b", "a"}}})
	// the same with references through the import tracker (a shared tracker would leak b's imports into a's file)
	use := map[string]pipe.Step{"example.com/m/a T0": {Use: []string{"strings.Builder"}}, "example.com/m/a T1": {Body: "var X = 1\n"},
		"example.com/m/b T0": {Use: []string{"bytes.Buffer", "example.com/m/a.T0"}}}
	out = append(out, input{Scenario: pipe.Scenario{Module: m, All: true, Base: "zz_generated",
		Gens: []pipe.Gen{{Name: "g1", Steps: use}}}, Together: [][]string{{"a", "b"}, {"b", "a"}}})
	// import names that collide: o refers to a/util and b/util (-> util, butil), p only to b/util, q only to a/util;
	// whatever name p's and q's tables pick alone they must pick next to o
	on := []string{"g1"}
	cm := pipe.Module{ModPath: "example.com/m", GoVer: "1.22", Pkgs: []pipe.Pkg{
		{Dir: "a/util", Name: "util", Types: []pipe.Type{{Name: "A"}}},
		{Dir: "b/util", Name: "util", Types: []pipe.Type{{Name: "B"}}},
		{Dir: "o", Name: "o", Imports: []string{"a/util", "b/util"}, Types: []pipe.Type{{Name: "T", Enabled: on}}},
		{Dir: "p", Name: "p", Imports: []string{"b/util"}, Types: []pipe.Type{{Name: "T", Enabled: on}}},
		{Dir: "q", Name: "q", Imports: []string{"a/util"}, Types: []pipe.Type{{Name: "T", Enabled: on}}}}}
	cuse := map[string]pipe.Step{
		"example.com/m/o T": {Use: []string{"example.com/m/a/util.A", "example.com/m/b/util.B"}},
		"example.com/m/p T": {Use: []string{"example.com/m/b/util.B"}},
		"example.com/m/q T": {Use: []string{"example.com/m/a/util.A"}}}
	out = append(out, input{Scenario: pipe.Scenario{Module: cm, All: false, Base: "zz_generated",
		Gens: []pipe.Gen{{Name: "g1", Steps: cuse}}}, Together: [][]string{{"o", "p", "q"}, {"q", "p", "o"}, {"p", "q"}}})
	// package-level tags: a's file doc enables g1 for every type of a — and of no other package, whatever Globals is
	tm := pipe.Module{ModPath: "example.com/m", GoVer: "1.22", Pkgs: []pipe.Pkg{
		{Dir: "a", Name: "a", DocTags: []string{"g1"}, Types: []pipe.Type{{Name: "T0"}}},
		{Dir: "b", Name: "b", Types: []pipe.Type{{Name: "T0"}, {Name: "T1", Enabled: []string{"g2"}}}}}}
	tsteps := map[string]pipe.Step{"example.com/m/a T0": {Body: "var A = 1\n"}, "example.com/m/b T0": {Body: "var B0 = 1\n"}, "example.com/m/b T1": {Body: "var B1 = 1\n"}}
	for _, gl := range []map[string][]string{nil, {}, {"gengo:g2": {""}}} {
		out = append(out, input{Scenario: pipe.Scenario{Module: tm, All: gl == nil, Base: "zz_generated", Globals: gl, GlobalsSet: gl != nil,
			Gens: []pipe.Gen{{Name: "g1", Steps: tsteps}, {Name: "g2", Steps: tsteps}}}, Together: [][]string{{"a", "b"}, {"b", "a"}}})
	}
	// documentation read through Context.Doc, also for a type of another package: what b's generator is told about a.T0
	// must not depend on whether (and how often) a's own generation asked for it before
	dm := pipe.Module{ModPath: "example.com/m", GoVer: "1.22", Pkgs: []pipe.Pkg{
		{Dir: "a", Name: "a", Types: []pipe.Type{{Name: "T0", Enabled: on, Doc: []string{"T0 T0 is the name of the thing", "and a second line"}}}},
		{Dir: "b", Name: "b", Imports: []string{"a"}, Types: []pipe.Type{{Name: "T0", Enabled: on, Doc: []string{"T0 is plain"}}}}}}
	dsteps := map[string]pipe.Step{"example.com/m/a T0": {DocOf: []string{"example.com/m/a.T0"}},
		"example.com/m/b T0": {DocOf: []string{"example.com/m/a.T0", "example.com/m/b.T0"}}}
	for _, all := range []bool{false, true} {
		out = append(out, input{Scenario: pipe.Scenario{Module: dm, All: all, Base: "zz_generated",
			Gens: []pipe.Gen{{Name: "g1", Steps: dsteps}}}, Together: [][]string{{"a", "b"}, {"b", "a"}}})
	}
	return out
}

var tagDirs = []string{"a", "a/sub", "b", "c", "d"}

func pickDirs(r *core.RNG, n int) []string {
	perm := append([]string{}, tagDirs...)
	for i := range perm {
		j := i + r.Intn(len(perm)-i)
		perm[i], perm[j] = perm[j], perm[i]
	}
	dirs := perm[:n]
	sort.Strings(dirs)
	return dirs
}

func lastElem(dir string) string { return dir[strings.LastIndex(dir, "/")+1:] }

// tagScenario: tags inherited from the package's file doc and from GeneratorArgs.Globals (nil / empty but non-nil / one
// generator enabled everywhere); most types carry no tag of their own, so whether a package gets a file at all depends
// on exactly the tags of that package.
func tagScenario(r *core.RNG) pipe.Scenario {
	sc := pipe.Scenario{Base: "zz_generated", All: r.Chance(50), Force: r.Chance(10)}
	m := &sc.Module
	m.ModPath, m.GoVer = core.Pick(r, []string{"example.com/m", "m.test/mod"}), "1.22"
	names := []string{"g1", "g2"}[:1+r.Intn(2)]
	for _, n := range names {
		g := pipe.Gen{Name: n, CustomNew: r.Chance(30), Proto: r.Chance(40), Alias: r.Chance(30), Steps: map[string]pipe.Step{}}
		if !g.CustomNew && r.Chance(25) {
			g.Kind = core.Pick(r, pipe.Kinds)
		}
		sc.Gens = append(sc.Gens, g)
	}
	switch k := r.Intn(10); {
	case k < 3:
	case k < 7:
		sc.GlobalsSet = true
	default:
		sc.GlobalsSet = true
		sc.Globals = map[string][]string{"gengo:" + core.Pick(r, names): {""}}
	}
	for _, d := range pickDirs(r, 2+r.Intn(3)) {
		p := pipe.Pkg{Dir: d, Name: lastElem(d)}
		for _, n := range names {
			if r.Chance(35) {
				p.DocTags = append(p.DocTags, n)
			}
		}
		nt := 1 + r.Intn(3)
		for k := 0; k < nt; k++ {
			t := pipe.Type{Name: fmt.Sprintf("T%d", k)}
			if r.Chance(20) {
				t.Name, t.Alias = fmt.Sprintf("U%d", k), "int"
			}
			for gi, n := range names {
				if r.Chance(30) {
					t.Enabled = append(t.Enabled, n)
				}
				st := pipe.Step{Body: fmt.Sprintf("var V_%s_%s = 1\n", n, t.Name)}
				switch q := r.Intn(10); {
				case q < 2:
					st.Body = ""
				case q < 6:
					st.Count, st.Helper = r.Bool(), r.Bool()
				}
				sc.Gens[gi].Steps[m.PkgPath(d)+" "+t.Name] = st
			}
			p.Types = append(p.Types, t)
		}
		if r.Chance(30) {
			m.Files = append(m.Files, pipe.File{Path: d + "/zz_generated." + names[0] + ".go", Content: "package " + p.Name + "\n\n// previous output of " + names[0] + "\n"})
		}
		m.Pkgs = append(m.Pkgs, p)
	}
	return sc
}

var docPool = []string{"{t} {t} is the name of the thing", "{t} is plain", "{t} {t} {t} three times", "{t}", "Something else entirely",
	"{t}x is not the name as a word", "{t}  {t} after two blanks"}

// docScenario: every type carries a doc comment (some start with the declared name more than once: `// ID ID of ...`);
// generators render what Context.Doc reports for their own type and for types of the packages their package imports.
func docScenario(r *core.RNG) pipe.Scenario {
	sc := pipe.Scenario{Base: "zz_generated", All: r.Chance(40)}
	m := &sc.Module
	m.ModPath, m.GoVer = "example.com/m", "1.22"
	names := []string{"g1", "g2"}[:1+r.Intn(2)]
	for _, n := range names {
		sc.Gens = append(sc.Gens, pipe.Gen{Name: n, CustomNew: r.Chance(30), Steps: map[string]pipe.Step{}})
	}
	dirs := pickDirs(r, 2+r.Intn(3))
	rank := map[string]int{} // imports go from lower to higher rank: acyclic, in either direction of the sorted order
	for _, d := range dirs {
		rank[d] = r.Intn(100)
	}
	types := map[string][]string{}
	for _, d := range dirs {
		p := pipe.Pkg{Dir: d, Name: lastElem(d)}
		nt := 1 + r.Intn(2)
		for k := 0; k < nt; k++ {
			t := pipe.Type{Name: core.Pick(r, []string{"ID", "Kind", "T"}) + fmt.Sprint(k), Enabled: names}
			t.Doc = []string{strings.ReplaceAll(core.Pick(r, docPool), "{t}", t.Name)}
			if r.Chance(30) {
				t.Doc = append(t.Doc, "second line of "+t.Name)
			}
			p.Types = append(p.Types, t)
			types[d] = append(types[d], t.Name)
		}
		for _, d2 := range dirs {
			if rank[d] < rank[d2] && r.Chance(65) {
				p.Imports = append(p.Imports, d2)
			}
		}
		m.Pkgs = append(m.Pkgs, p)
	}
	for _, p := range m.Pkgs {
		for _, tn := range types[p.Dir] {
			for gi := range sc.Gens {
				var st pipe.Step
				if r.Chance(60) {
					st.DocOf = append(st.DocOf, m.PkgPath(p.Dir)+"."+tn)
				}
				for _, im := range p.Imports {
					for _, ft := range types[im] {
						if r.Chance(70) {
							st.DocOf = append(st.DocOf, m.PkgPath(im)+"."+ft)
						}
					}
				}
				if r.Chance(20) {
					st.Count, st.Helper = true, r.Bool()
				}
				sc.Gens[gi].Steps[m.PkgPath(p.Dir)+" "+tn] = st
			}
		}
	}
	return sc
}

// collisions draws a module in which several packages share their last path element(s), so that the import table has
// to fall back to longer local names (util, butil, ...), and generators whose per-type renderings refer to random
// subsets of them (and of colliding standard-library packages) through the import tracker.
func collisions(r *core.RNG) pipe.Scenario {
	var sc pipe.Scenario
	sc.Base = "zz_generated"
	sc.All = r.Chance(40)
	m := &sc.Module
	m.ModPath = core.Pick(r, []string{"example.com/m", "example.com/x/y"})
	m.GoVer = "1.22"
	leaf := core.Pick(r, []string{"util", "types", "v1", "template"})
	parents := []string{"a", "b", "x/c"}
	if r.Chance(30) {
		parents = []string{"a", "b/a", "c/b/a"} // longer common suffixes: a/<leaf>, b/a/<leaf>, c/b/a/<leaf>
	}
	parents = parents[:2+r.Intn(2)]
	var refs []string
	var libDirs []string
	for _, par := range parents {
		d := par + "/" + leaf
		libDirs = append(libDirs, d)
		m.Pkgs = append(m.Pkgs, pipe.Pkg{Dir: d, Name: strings.ReplaceAll(leaf, "-", "_"), Types: []pipe.Type{{Name: "X"}}})
		refs = append(refs, m.PkgPath(d)+".X")
	}
	std := [][]string{{"text/template.Template", "html/template.Template"}, {"math/rand.Rand", "crypto/rand.Reader"}, {"go/types.Type", "go/token.Pos"}}
	if leaf == "template" || r.Chance(40) {
		refs = append(refs, std[0]...)
	}
	if r.Chance(25) {
		refs = append(refs, std[1]...)
	}
	users := []string{"o", "p", "q", "r"}[:2+r.Intn(3)]
	if r.Chance(25) { // a user that sorts before the colliding packages
		users[0] = "0first"
	}
	ngen := 1 + r.Intn(2)
	names := []string{"g1", "g2"}[:ngen]
	for _, name := range names {
		sc.Gens = append(sc.Gens, pipe.Gen{Name: name, CustomNew: r.Chance(30), Proto: r.Chance(40), Steps: map[string]pipe.Step{}})
	}
	for ui, u := range users {
		p := pipe.Pkg{Dir: u, Name: "u" + fmt.Sprint(ui)}
		imported := map[string]bool{}
		nt := 1 + r.Intn(2)
		for k := 0; k < nt; k++ {
			t := pipe.Type{Name: fmt.Sprintf("T%d", k)}
			for gi, name := range names {
				if k > 0 && !r.Chance(70) {
					continue
				}
				t.Enabled = append(t.Enabled, name)
				var st pipe.Step
				switch q := r.Intn(10); {
				case q < 3: // everything, in a random order
					st.Use = append(st.Use, refs...)
					for i := range st.Use {
						j := i + r.Intn(len(st.Use)-i)
						st.Use[i], st.Use[j] = st.Use[j], st.Use[i]
					}
				case q < 7: // a single one
					st.Use = []string{core.Pick(r, refs)}
				default:
					for _, ref := range refs {
						if r.Chance(50) {
							st.Use = append(st.Use, ref)
						}
					}
				}
				if r.Chance(30) {
					st.Count, st.Helper = r.Bool(), r.Bool()
				}
				for _, ref := range st.Use {
					for _, d := range libDirs {
						if strings.HasPrefix(ref, m.PkgPath(d)+".") && !imported[d] {
							imported[d] = true
							p.Imports = append(p.Imports, d)
						}
					}
				}
				sc.Gens[gi].Steps[m.PkgPath(u)+" "+t.Name] = st
			}
			p.Types = append(p.Types, t)
		}
		sort.Strings(p.Imports)
		m.Pkgs = append(m.Pkgs, p)
	}
	return sc
}

func subsets(dirs []string) [][]string {
	var out [][]string
	for mask := 1; mask < 1<<len(dirs); mask++ {
		var s []string
		for i, d := range dirs {
			if mask&(1<<i) != 0 {
				s = append(s, d)
			}
		}
		out = append(out, s)
	}
	return out
}

func reversed(s []string) []string {
	r := make([]string, len(s))
	for i := range s {
		r[len(s)-1-i] = s[i]
	}
	return r
}

func (prop) Generate(r *core.RNG, tier string) []json.RawMessage {
	n := 20
	if tier == "thorough" {
		n = 120
	}
	var out []json.RawMessage
	for _, in := range corner() {
		out = append(out, enc(in))
	}
	for _, in := range twoModuleCorner() {
		out = append(out, enc(in))
	}
	ntm := 4
	if tier == "thorough" {
		ntm = 30
	}
	for i := 0; i < ntm; i++ {
		out = append(out, enc(twoModuleScenario(r)))
	}
	for _, in := range queryCorner() {
		out = append(out, enc(in))
	}
	for i := 0; i < n; i++ {
		var sc pipe.Scenario
		for try := 0; try < 20; try++ {
			sc = pipe.RandScenario(r, pipe.Opts{Faults: true, FaultShare: 8})
			if len(sc.Module.Pkgs) >= 2 {
				break
			}
		}
		sc.Entry = nil
		imports := r.Chance(20)
		for gi := range sc.Gens { // make the generators stateful
			if !sc.Gens[gi].CustomNew && r.Chance(50) {
				sc.Gens[gi].Proto = true
			}
			if r.Chance(30) { // a prototype that is not a struct (with a custom New: the map kind only)
				sc.Gens[gi].Kind = core.Pick(r, pipe.Kinds)
				if sc.Gens[gi].CustomNew {
					sc.Gens[gi].Kind = "map"
				}
			}
			for k, st := range sc.Gens[gi].Steps {
				if st.Res == "" && !strings.Contains(st.Body, "(\n") && r.Chance(70) {
					st.Count = r.Chance(70)
					st.Helper = r.Chance(50)
				}
				if imports && st.Res == "" && r.Chance(50) {
					st.Use = append(st.Use, core.Pick(r, []string{"strings.Builder", "bytes.Buffer", "fmt.Stringer", "io.Reader", "go/token.Pos"}))
					if r.Chance(30) {
						st.Use = append(st.Use, core.Pick(r, []string{"text/template.Template", "html/template.Template"}))
					}
				}
				sc.Gens[gi].Steps[k] = st
			}
		}
		var dirs []string
		for _, p := range sc.Module.Pkgs {
			dirs = append(dirs, p.Dir)
		}
		out = append(out, enc(withRuns(r, sc, dirs, tier)))
	}
	nc := 8
	if tier == "thorough" {
		nc = 60
	}
	for i := 0; i < nc; i++ {
		sc := collisions(r)
		var users []string // the library packages have no tagged types: request the users only
		for _, p := range sc.Module.Pkgs {
			if len(p.Types) > 0 && len(p.Types[0].Enabled) > 0 {
				users = append(users, p.Dir)
			}
		}
		out = append(out, enc(withRuns(r, sc, users, tier)))
	}
	nt, nd := 8, 6
	if tier == "thorough" {
		nt, nd = 60, 40
	}
	for i := 0; i < nt+nd; i++ {
		var sc pipe.Scenario
		if i < nt {
			sc = tagScenario(r)
		} else {
			sc = docScenario(r)
		}
		var dirs []string
		for _, p := range sc.Module.Pkgs {
			dirs = append(dirs, p.Dir)
		}
		out = append(out, enc(withRuns(r, sc, dirs, tier)))
	}
	// what the queries of the shared Universe answer, rendered into the files (probe.go)
	nq, n14 := 7, 2
	if tier == "thorough" {
		nq, n14 = 50, 12
	}
	for i := 0; i < nq+n14; i++ {
		var sc pipe.Scenario
		switch {
		case i < nq:
			sc = queryScenario(r)
		case (i-nq)%3 == 2:
			sc = fromC14(r, "variadic")
		default:
			sc = fromC14(r, "trans")
		}
		var dirs []string
		for _, p := range sc.Module.Pkgs {
			dirs = append(dirs, p.Dir)
		}
		out = append(out, enc(withRuns(r, sc, dirs, tier)))
	}
	return out
}

// withRuns chooses the together-runs over the given package dirs.
func withRuns(r *core.RNG, sc pipe.Scenario, dirs []string, tier string) input {
	in := input{Scenario: sc}
	subs := subsets(dirs)
	if tier == "thorough" {
		for _, s := range subs {
			in.Together = append(in.Together, s)
			if len(s) > 1 {
				in.Together = append(in.Together, reversed(s))
			}
		}
		return in
	}
	in.Together = append(in.Together, dirs, reversed(dirs))
	for k := 0; k < 2 && len(subs) > 1; k++ {
		s := append([]string{}, subs[r.Intn(len(subs))]...)
		for i := range s {
			j := i + r.Intn(len(s)-i)
			s[i], s[j] = s[j], s[i]
		}
		in.Together = append(in.Together, s)
	}
	return in
}

type runObs struct {
	Entry   []string     `json:"entry"`
	Summary pipe.Summary `json:"summary"`
}

type observed struct {
	Together []runObs          `json:"together"`
	Singles  map[string]runObs `json:"singles"`
}

func coqRun(o *pipe.Observation) string {
	tbl, _ := pipe.FmtTable(o.Run.World, o.Run.Events)
	return fmt.Sprintf("(mk_run %s\n    %s\n    %s\n    %s %s)", pipe.CoqWorld(o.Run.World), tbl, pipe.CoqTree(o.After),
		pipe.CoqEvents(o.Run.Events), o.Run.CoqOutcome())
}

func done(o *pipe.Observation) bool { return o.Run.Result != nil && o.Run.Result.Class == "done" }

// goOld: a go directive before 1.13 (no 0o octal literals).
func goOld(v string) bool {
	var maj, min int
	_, _ = fmt.Sscanf(v, "%d.%d", &maj, &min)
	return maj == 1 && min < 13
}

func dirOf(p string) string {
	if i := strings.LastIndex(p, "/"); i >= 0 {
		return p[:i]
	}
	return ""
}

func (prop) Run(raw json.RawMessage, scratch string) core.Result {
	var in input
	var res core.Result
	if err := json.Unmarshal(raw, &in); err != nil {
		res.Tags = []string{"bad-input"}
		return res
	}
	usesImports := false
	usesDocs := false
	usesProbes := false
	stateful := false
	for _, g := range in.Gens {
		for _, st := range g.Steps {
			usesImports = usesImports || len(st.Use) > 0
			usesDocs = usesDocs || len(st.DocOf) > 0
			usesProbes = usesProbes || len(st.Probe) > 0
			stateful = stateful || st.Count || st.Helper
		}
	}
	var obs observed
	obs.Singles = map[string]runObs{}
	for _, p := range in.Module.Pkgs {
		if len(p.Decls) == 0 {
			continue
		}
		// packages with functions of their own: the module has to compile (the loader goes on with type errors, and
		// shrinking drops declarations blindly)
		if err := in.Module.TypeCheck(); err != nil {
			res.Notes = append(res.Notes, "synthetic module does not type-check: "+err.Error())
			res.Tags = []string{"run-failed-to-start"}
			res.Observed = obs
			res.Coq = fmt.Sprintf("(mk_case %s %s %s [] [] [] [])", core.CoqBool(in.All), core.CoqBool(in.Force), core.Hex(in.Base))
			return res
		}
		break
	}
	k := 0
	runOne := func(dirs []string) (*pipe.Observation, bool) {
		sc := in.Scenario
		sc.Entry = entryOf(dirs)
		k++
		o, err := pipe.RunScenario(sc, fmt.Sprintf("%s/r%d", scratch, k))
		if err != nil {
			res.Notes = append(res.Notes, "harness: "+err.Error())
			return nil, false
		}
		if o.Run.TimedOut {
			res.GoViolations = append(res.GoViolations, "Execute did not return within the time limit")
			return nil, false
		}
		if o.Run.World == nil || (o.Run.Result != nil && o.Run.Result.NewContextErr != "") {
			res.Notes = append(res.Notes, "synthetic module rejected by the loader: "+o.Run.Stderr)
			return nil, false
		}
		return o, true
	}
	var together []*pipe.Observation
	for _, dirs := range in.Together {
		o, ok := runOne(dirs)
		if !ok {
			res.Tags = append(res.Tags, "run-failed-to-start")
			res.Observed = obs
			return res
		}
		together = append(together, o)
		obs.Together = append(obs.Together, runObs{Entry: dirs, Summary: o.Summary()})
	}
	singles := map[string]*pipe.Observation{}
	var singlePaths []string
	requested := map[string]bool{}
	for _, dirs := range in.Together {
		for _, d := range dirs {
			requested[d] = true
		}
	}
	var units []string
	for _, p := range in.Module.Pkgs {
		units = append(units, p.Dir)
	}
	for _, x := range in.Module.Ext {
		for _, p := range x.Pkgs {
			units = append(units, "@"+x.PkgPath(p.Dir))
		}
	}
	for _, u := range units {
		if !requested[u] { // never compared: only loaded (or processed under All) next to the requested ones
			continue
		}
		o, ok := runOne([]string{u})
		if !ok {
			res.Tags = append(res.Tags, "run-failed-to-start")
			res.Observed = obs
			return res
		}
		path := unitPath(&in.Module, u)
		singles[path] = o
		singlePaths = append(singlePaths, path)
		obs.Singles[path] = runObs{Entry: []string{u}, Summary: o.Summary()}
	}
	sort.Strings(singlePaths)
	res.Observed = obs

	// the property, decided on the Go side as well (and only here for generators that use the import tracker)
	compared := 0
	lost := false // a requested package that the loader does not report as selected
	for ti, o := range together {
		if !done(o) {
			continue
		}
		// the packages generated in this run: what the loader reports as selected (under All: as local) and, whatever the
		// loader says, every package the run was asked for (a requested package the loader loses must not go unnoticed)
		type gen struct{ path, dir string }
		var gens []gen
		listed := map[string]bool{}
		for _, wp := range o.Run.World.Pkgs {
			if in.All || wp.Direct {
				gens = append(gens, gen{wp.Path, wp.Dir})
			}
			if wp.Direct {
				listed[wp.Path] = true
			}
		}
		for _, u := range in.Together[ti] {
			if path := unitPath(&in.Module, u); !listed[path] {
				listed[path] = true
				gens = append(gens, gen{path, unitDir(&in.Module, u)})
				lost = true
			}
		}
		for _, wp := range gens {
			so := singles[wp.path]
			if so == nil || !done(so) {
				continue
			}
			compared++
			seen := map[string]bool{}
			for _, t := range []pipe.Tree{o.After, so.After} {
				for path := range t {
					if dirOf(path) != wp.dir || path == "gengo.sum" || seen[path] {
						continue
					}
					seen[path] = true
					a, okA := o.After[path]
					b, okB := so.After[path]
					if okA != okB || string(a) != string(b) {
						res.GoViolations = append(res.GoViolations, fmt.Sprintf("%s differs between the run of %v and the run of %s alone", path, in.Together[ti], wp.path))
					}
				}
			}
		}
	}

	goSideOnly := usesImports || usesDocs || usesProbes
	if !goSideOnly {
		var tr, sg []string
		for _, o := range together {
			tr = append(tr, coqRun(o))
		}
		for _, p := range singlePaths {
			sg = append(sg, "("+core.Hex(p)+", "+coqRun(singles[p])+")")
		}
		res.Coq = fmt.Sprintf("(mk_case %s %s %s\n   %s\n   %s\n   %s\n   %s)", core.CoqBool(in.All), core.CoqBool(in.Force), core.Hex(in.Base),
			pipe.CoqGens(in.Gens), pipe.CoqTree(together[0].Before), core.CoqList(tr), core.CoqList(sg))
	}
	if goSideOnly {
		// the import tracker, Context.Doc and the Universe's queries are not modelled: the property is decided on the Go side above; the Coq case carries no runs
		res.Coq = fmt.Sprintf("(mk_case %s %s %s [] [] [] [])", core.CoqBool(in.All), core.CoqBool(in.Force), core.Hex(in.Base))
	}
	res.Nontrivial = compared > 0 && len(in.Module.Pkgs) >= 2
	res.Tags = []string{fmt.Sprintf("packages:%d", len(in.Module.Pkgs)), fmt.Sprintf("together-runs:%d", len(in.Together))}
	if lost {
		res.Tags = append(res.Tags, "requested-package-not-selected-by-the-loader")
	}
	for _, g := range in.Gens {
		if g.Kind != "" {
			res.Tags = append(res.Tags, "generator-kind:"+g.Kind)
			if g.CustomNew {
				res.Tags = append(res.Tags, "generator-kind:"+g.Kind+"+custom-New")
			}
		}
	}
	for _, x := range in.Module.Ext {
		if in.Module.Work != "" {
			res.Tags = append(res.Tags, "two-modules:go.work-workspace")
		} else {
			res.Tags = append(res.Tags, "two-modules:require+replace")
		}
		res.Tags = append(res.Tags, "two-modules-in-one-run")
		if goOld(x.GoVer) != goOld(in.Module.GoVer) {
			res.Tags = append(res.Tags, "two-modules:go-directives-on-either-side-of-1.13")
		}
		if !strings.Contains(strings.SplitN(x.ModPath, "/", 2)[0], ".") || !strings.Contains(strings.SplitN(in.Module.ModPath, "/", 2)[0], ".") {
			res.Tags = append(res.Tags, "two-modules:dot-less-module-path")
		}
		break
	}
	if in.All {
		res.Tags = append(res.Tags, "all")
	} else {
		res.Tags = append(res.Tags, "not-all")
	}
	if stateful {
		res.Tags = append(res.Tags, "stateful-generator")
	}
	if usesImports {
		res.Tags = append(res.Tags, "import-tracker(go-side-only)")
	}
	if usesDocs {
		res.Tags = append(res.Tags, "context-doc(go-side-only)")
		foreign := false
		for _, g := range in.Gens {
			for k, st := range g.Steps {
				for _, ref := range st.DocOf {
					foreign = foreign || ref[:strings.LastIndex(ref, ".")] != k[:strings.Index(k, " ")]
				}
			}
		}
		if foreign {
			res.Tags = append(res.Tags, "context-doc:type-of-another-package")
		}
	}
	res.Tags = append(res.Tags, queryTags(in)...)
	switch {
	case len(in.Globals) > 0:
		res.Tags = append(res.Tags, "globals:enable-a-generator")
	case in.GlobalsSet:
		res.Tags = append(res.Tags, "globals:empty-non-nil")
	}
	for _, p := range in.Module.Pkgs {
		if len(p.DocTags) > 0 {
			res.Tags = append(res.Tags, "package-doc-tags")
			break
		}
	}
	for _, g := range in.Gens {
		if g.CustomNew {
			res.Tags = append(res.Tags, "custom-New")
			break
		}
	}
	for _, g := range in.Gens {
		if !g.CustomNew {
			res.Tags = append(res.Tags, "reflect-New")
			break
		}
	}
	for _, g := range in.Gens {
		if !g.CustomNew && g.Proto && g.Kind == "" {
			res.Tags = append(res.Tags, "reflect-New:prototype-with-map-and-pointer")
			break
		}
	}
	if localRefs, collide := importShape(in); localRefs {
		res.Tags = append(res.Tags, "import-tracker:module-local-references")
		if collide {
			res.Tags = append(res.Tags, "import-tracker:colliding-names-in-one-file")
		}
	}
	for _, o := range together {
		if !done(o) {
			res.Tags = append(res.Tags, "a-together-run-failed")
			break
		}
	}
	if in.Module.HasSum {
		res.Tags = append(res.Tags, "sum-present")
	}
	return res
}

// importShape: does a generator refer to packages of the module, and does one (package, generator) file refer to two
// packages with the same last path element (so that the import table must rename one of them)?
func importShape(in input) (localRefs, collide bool) {
	for _, g := range in.Gens {
		perPkg := map[string]map[string]string{} // package -> last element -> path
		for k, st := range g.Steps {
			pkg := k[:strings.Index(k, " ")]
			for _, u := range st.Use {
				path := u[:strings.LastIndex(u, ".")]
				localRefs = localRefs || strings.HasPrefix(path, in.Module.ModPath+"/")
				last := path[strings.LastIndex(path, "/")+1:]
				if perPkg[pkg] == nil {
					perPkg[pkg] = map[string]string{}
				}
				if prev, ok := perPkg[pkg][last]; ok && prev != path {
					collide = true
				}
				perPkg[pkg][last] = path
			}
		}
	}
	return
}

func (prop) Shrink(raw json.RawMessage) []json.RawMessage {
	var in input
	if json.Unmarshal(raw, &in) != nil {
		return nil
	}
	var out []json.RawMessage
	for i := range in.Together {
		if len(in.Together) > 1 {
			c := in
			c.Together = append(append([][]string{}, in.Together[:i]...), in.Together[i+1:]...)
			out = append(out, enc(c))
		}
	}
	used := map[string]bool{}
	for _, t := range in.Together {
		for _, d := range t {
			used[d] = true
		}
	}
	sc := in.Scenario
	sc.Entry = nil
	for gi, g := range in.Gens {
		for k, st := range g.Steps {
			for ui := range st.Use {
				var c input
				_ = json.Unmarshal(raw, &c)
				s2 := c.Gens[gi].Steps[k]
				s2.Use = append(append([]string{}, st.Use[:ui]...), st.Use[ui+1:]...)
				c.Gens[gi].Steps[k] = s2
				out = append(out, enc(c))
			}
		}
	}
	for gi, g := range in.Gens {
		for k, st := range g.Steps {
			for ui := range st.DocOf {
				var c input
				_ = json.Unmarshal(raw, &c)
				s2 := c.Gens[gi].Steps[k]
				s2.DocOf = append(append([]string{}, st.DocOf[:ui]...), st.DocOf[ui+1:]...)
				c.Gens[gi].Steps[k] = s2
				out = append(out, enc(c))
			}
		}
	}
	for gi, g := range in.Gens {
		for k, st := range g.Steps {
			for ui := range st.Probe {
				var c input
				_ = json.Unmarshal(raw, &c)
				s2 := c.Gens[gi].Steps[k]
				s2.Probe = append(append([]string{}, st.Probe[:ui]...), st.Probe[ui+1:]...)
				c.Gens[gi].Steps[k] = s2
				out = append(out, enc(c))
			}
		}
	}
	for _, c := range pipe.ShrinkScenario(sc) {
		ok := true
		have := map[string]bool{}
		for _, p := range c.Module.Pkgs {
			have[p.Dir] = true
		}
		for d := range used {
			ok = ok && have[d]
		}
		imports := map[string]bool{} // "<importing pkg path> <imported pkg path>"
		for _, p := range c.Module.Pkgs {
			for _, im := range p.Imports {
				imports[c.Module.PkgPath(p.Dir)+" "+c.Module.PkgPath(im)] = true
			}
		}
		for _, g := range c.Gens { // a documented foreign type stays a type of a package the reader imports (so it is loaded in every run)
			for k, st := range g.Steps {
				self := k[:strings.Index(k, " ")]
				for _, ref := range append(append([]string{}, st.DocOf...), st.Probe...) { // likewise a probed package
					if path := ref[:strings.LastIndex(ref, ".")]; path != self {
						ok = ok && imports[self+" "+path]
					}
				}
			}
		}
		for _, g := range c.Gens { // references stay references to packages that exist in the module
			for _, st := range g.Steps {
				for _, u := range append(append(append([]string{}, st.Use...), st.DocOf...), st.Probe...) {
					if path := u[:strings.LastIndex(u, ".")]; strings.HasPrefix(path, c.Module.ModPath+"/") {
						ok = ok && have[strings.TrimPrefix(path, c.Module.ModPath+"/")]
					}
				}
			}
		}
		if ok {
			out = append(out, enc(input{Scenario: c, Together: in.Together}))
		}
	}
	return out
}
