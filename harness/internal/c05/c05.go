// Package c05: output for a package does not depend on what else is generated in the same run.  One module and one
// set of stateful scripted generators are run several times from the same initial tree, each time in a fresh child
// process: "together" runs (several entrypoints in some order) and, for every package, the run that requests only it.
package c05

import (
	"encoding/json"
	"fmt"
	"sort"
	"strings"

	"verifharness/internal/core"
	"verifharness/internal/pipe"
)

type prop struct{}

func init() { core.Register(prop{}) }

func (prop) ID() string        { return "C05" }
func (prop) CoqModule() string { return "Gengo.Corr.C05" }
func (prop) Parallel() int     { return 8 }

type input struct {
	pipe.Scenario            // Entry is unused; the runs are listed in Together
	Together      [][]string `json:"together"` // package dirs requested together, in this order
}

func enc(in input) json.RawMessage {
	b, _ := json.Marshal(in)
	return b
}

func entryOf(dirs []string) []string {
	var e []string
	for _, d := range dirs {
		if d == "" {
			e = append(e, ".")
		} else {
			e = append(e, "./"+d)
		}
	}
	return e
}

func corner() []input {
	// two packages, one generator that renders its call counter and a helper once per instance
	st := pipe.Step{Count: true, Helper: true}
	m := pipe.Module{ModPath: "example.com/m", GoVer: "1.22", Pkgs: []pipe.Pkg{
		{Dir: "a", Name: "a", Types: []pipe.Type{{Name: "T0", Enabled: []string{"g1"}}, {Name: "T1", Enabled: []string{"g1"}}}},
		{Dir: "b", Name: "b", Types: []pipe.Type{{Name: "T0", Enabled: []string{"g1"}}}}}}
	steps := map[string]pipe.Step{"example.com/m/a T0": st, "example.com/m/a T1": st, "example.com/m/b T0": st}
	var out []input
	for _, custom := range []bool{false, true} {
		for _, all := range []bool{false, true} {
			out = append(out, input{Scenario: pipe.Scenario{Module: m, All: all, Base: "zz_generated",
				Gens: []pipe.Gen{{Name: "g1", CustomNew: custom, Steps: steps}}}, Together: [][]string{{"a", "b"}, {"b", "a"}}})
		}
	}
	// the same with references through the import tracker (a shared tracker would leak b's imports into a's file)
	use := map[string]pipe.Step{"example.com/m/a T0": {Use: []string{"strings.Builder"}}, "example.com/m/a T1": {Body: "var X = 1\n"},
		"example.com/m/b T0": {Use: []string{"bytes.Buffer", "example.com/m/a.T0"}}}
	out = append(out, input{Scenario: pipe.Scenario{Module: m, All: true, Base: "zz_generated",
		Gens: []pipe.Gen{{Name: "g1", Steps: use}}}, Together: [][]string{{"a", "b"}, {"b", "a"}}})
	return out
}

func subsets(dirs []string) [][]string {
	var out [][]string
	for mask := 1; mask < 1<<len(dirs); mask++ {
		var s []string
		for i, d := range dirs {
			if mask&(1<<i) != 0 {
				s = append(s, d)
			}
		}
		out = append(out, s)
	}
	return out
}

func reversed(s []string) []string {
	r := make([]string, len(s))
	for i := range s {
		r[len(s)-1-i] = s[i]
	}
	return r
}

func (prop) Generate(r *core.RNG, tier string) []json.RawMessage {
	n := 20
	if tier == "thorough" {
		n = 120
	}
	var out []json.RawMessage
	for _, in := range corner() {
		out = append(out, enc(in))
	}
	for i := 0; i < n; i++ {
		var sc pipe.Scenario
		for try := 0; try < 20; try++ {
			sc = pipe.RandScenario(r, pipe.Opts{Faults: true, FaultShare: 8})
			if len(sc.Module.Pkgs) >= 2 {
				break
			}
		}
		sc.Entry = nil
		imports := r.Chance(20)
		for gi := range sc.Gens { // make the generators stateful
			for k, st := range sc.Gens[gi].Steps {
				if st.Res == "" && !strings.Contains(st.Body, "(\n") && r.Chance(70) {
					st.Count = r.Chance(70)
					st.Helper = r.Chance(50)
				}
				if imports && st.Res == "" && r.Chance(50) {
					st.Use = append(st.Use, core.Pick(r, []string{"strings.Builder", "bytes.Buffer", "fmt.Stringer", "io.Reader", "go/token.Pos"}))
					if r.Chance(30) {
						st.Use = append(st.Use, core.Pick(r, []string{"text/template.Template", "html/template.Template"}))
					}
				}
				sc.Gens[gi].Steps[k] = st
			}
		}
		var dirs []string
		for _, p := range sc.Module.Pkgs {
			dirs = append(dirs, p.Dir)
		}
		in := input{Scenario: sc}
		subs := subsets(dirs)
		if tier == "thorough" {
			for _, s := range subs {
				in.Together = append(in.Together, s)
				if len(s) > 1 {
					in.Together = append(in.Together, reversed(s))
				}
			}
		} else {
			in.Together = append(in.Together, dirs, reversed(dirs))
			for k := 0; k < 2 && len(subs) > 1; k++ {
				s := append([]string{}, subs[r.Intn(len(subs))]...)
				for i := range s {
					j := i + r.Intn(len(s)-i)
					s[i], s[j] = s[j], s[i]
				}
				in.Together = append(in.Together, s)
			}
		}
		out = append(out, enc(in))
	}
	return out
}

type runObs struct {
	Entry   []string     `json:"entry"`
	Summary pipe.Summary `json:"summary"`
}

type observed struct {
	Together []runObs          `json:"together"`
	Singles  map[string]runObs `json:"singles"`
}

func coqRun(o *pipe.Observation) string {
	tbl, _ := pipe.FmtTable(o.Run.World, o.Run.Events)
	return fmt.Sprintf("(mk_run %s\n    %s\n    %s\n    %s %s)", pipe.CoqWorld(o.Run.World), tbl, pipe.CoqTree(o.After),
		pipe.CoqEvents(o.Run.Events), o.Run.CoqOutcome())
}

func done(o *pipe.Observation) bool { return o.Run.Result != nil && o.Run.Result.Class == "done" }

func dirOf(p string) string {
	if i := strings.LastIndex(p, "/"); i >= 0 {
		return p[:i]
	}
	return ""
}

func (prop) Run(raw json.RawMessage, scratch string) core.Result {
	var in input
	var res core.Result
	if err := json.Unmarshal(raw, &in); err != nil {
		res.Tags = []string{"bad-input"}
		return res
	}
	usesImports := false
	stateful := false
	for _, g := range in.Gens {
		for _, st := range g.Steps {
			usesImports = usesImports || len(st.Use) > 0
			stateful = stateful || st.Count || st.Helper
		}
	}
	var obs observed
	obs.Singles = map[string]runObs{}
	k := 0
	runOne := func(dirs []string) (*pipe.Observation, bool) {
		sc := in.Scenario
		sc.Entry = entryOf(dirs)
		k++
		o, err := pipe.RunScenario(sc, fmt.Sprintf("%s/r%d", scratch, k))
		if err != nil {
			res.Notes = append(res.Notes, "harness: "+err.Error())
			return nil, false
		}
		if o.Run.TimedOut {
			res.GoViolations = append(res.GoViolations, "Execute did not return within the time limit")
			return nil, false
		}
		if o.Run.World == nil || (o.Run.Result != nil && o.Run.Result.NewContextErr != "") {
			res.Notes = append(res.Notes, "synthetic module rejected by the loader: "+o.Run.Stderr)
			return nil, false
		}
		return o, true
	}
	var together []*pipe.Observation
	for _, dirs := range in.Together {
		o, ok := runOne(dirs)
		if !ok {
			res.Tags = append(res.Tags, "run-failed-to-start")
			res.Observed = obs
			return res
		}
		together = append(together, o)
		obs.Together = append(obs.Together, runObs{Entry: dirs, Summary: o.Summary()})
	}
	singles := map[string]*pipe.Observation{}
	var singlePaths []string
	for _, p := range in.Module.Pkgs {
		o, ok := runOne([]string{p.Dir})
		if !ok {
			res.Tags = append(res.Tags, "run-failed-to-start")
			res.Observed = obs
			return res
		}
		path := in.Module.PkgPath(p.Dir)
		singles[path] = o
		singlePaths = append(singlePaths, path)
		obs.Singles[path] = runObs{Entry: []string{p.Dir}, Summary: o.Summary()}
	}
	sort.Strings(singlePaths)
	res.Observed = obs

	// the property, decided on the Go side as well (and only here for generators that use the import tracker)
	compared := 0
	for ti, o := range together {
		if !done(o) {
			continue
		}
		for _, wp := range o.Run.World.Pkgs {
			if !(in.All || wp.Direct) {
				continue
			}
			so := singles[wp.Path]
			if so == nil || !done(so) {
				continue
			}
			compared++
			seen := map[string]bool{}
			for _, t := range []pipe.Tree{o.After, so.After} {
				for path := range t {
					if dirOf(path) != wp.Dir || path == "gengo.sum" || seen[path] {
						continue
					}
					seen[path] = true
					a, okA := o.After[path]
					b, okB := so.After[path]
					if okA != okB || string(a) != string(b) {
						res.GoViolations = append(res.GoViolations, fmt.Sprintf("%s differs between the run of %v and the run of %s alone", path, in.Together[ti], wp.Path))
					}
				}
			}
		}
	}

	if !usesImports {
		var tr, sg []string
		for _, o := range together {
			tr = append(tr, coqRun(o))
		}
		for _, p := range singlePaths {
			sg = append(sg, "("+core.Hex(p)+", "+coqRun(singles[p])+")")
		}
		res.Coq = fmt.Sprintf("(mk_case %s %s %s\n   %s\n   %s\n   %s\n   %s)", core.CoqBool(in.All), core.CoqBool(in.Force), core.Hex(in.Base),
			pipe.CoqGens(in.Gens), pipe.CoqTree(together[0].Before), core.CoqList(tr), core.CoqList(sg))
	}
	if usesImports {
		// the import tracker is not modelled: the property is decided on the Go side above; the Coq case carries no runs
		res.Coq = fmt.Sprintf("(mk_case %s %s %s [] [] [] [])", core.CoqBool(in.All), core.CoqBool(in.Force), core.Hex(in.Base))
	}
	res.Nontrivial = compared > 0 && len(in.Module.Pkgs) >= 2
	res.Tags = []string{fmt.Sprintf("packages:%d", len(in.Module.Pkgs)), fmt.Sprintf("together-runs:%d", len(in.Together))}
	if in.All {
		res.Tags = append(res.Tags, "all")
	} else {
		res.Tags = append(res.Tags, "not-all")
	}
	if stateful {
		res.Tags = append(res.Tags, "stateful-generator")
	}
	if usesImports {
		res.Tags = append(res.Tags, "import-tracker(go-side-only)")
	}
	for _, g := range in.Gens {
		if g.CustomNew {
			res.Tags = append(res.Tags, "custom-New")
			break
		}
	}
	for _, g := range in.Gens {
		if !g.CustomNew {
			res.Tags = append(res.Tags, "reflect-New")
			break
		}
	}
	for _, o := range together {
		if !done(o) {
			res.Tags = append(res.Tags, "a-together-run-failed")
			break
		}
	}
	if in.Module.HasSum {
		res.Tags = append(res.Tags, "sum-present")
	}
	return res
}

func (prop) Shrink(raw json.RawMessage) []json.RawMessage {
	var in input
	if json.Unmarshal(raw, &in) != nil {
		return nil
	}
	var out []json.RawMessage
	for i := range in.Together {
		if len(in.Together) > 1 {
			c := in
			c.Together = append(append([][]string{}, in.Together[:i]...), in.Together[i+1:]...)
			out = append(out, enc(c))
		}
	}
	used := map[string]bool{}
	for _, t := range in.Together {
		for _, d := range t {
			used[d] = true
		}
	}
	sc := in.Scenario
	sc.Entry = nil
	for _, c := range pipe.ShrinkScenario(sc) {
		ok := true
		have := map[string]bool{}
		for _, p := range c.Module.Pkgs {
			have[p.Dir] = true
		}
		for d := range used {
			ok = ok && have[d]
		}
		if ok {
			out = append(out, enc(input{Scenario: c, Together: in.Together}))
		}
	}
	return out
}
