package c05

// The "universe query" family: packages that contain real functions and methods (results through several concrete
// error types, calls into other packages of the module, call cycles: mutual recursion inside a package, through
// methods, with two results) and generators that render into their file what the queries of the run's shared Universe
// answer (pipe.Step.Probe: ResultsOf of every function and method, MethodsOf, Doc, Comment, Imports, constants — of the
// generator's own package and of packages it imports).  The Universe is the one object all packages of a run share:
// whatever it memoises while package Q is generated must not change what package P is told afterwards.  Decided on the
// Go side only (byte comparison alone vs. together).

import (
	"fmt"
	"sort"
	"strings"

	"verifharness/internal/c14"
	"verifharness/internal/core"
	"verifharness/internal/pipe"
)

const errDecls = 3 // E0, E1, E2

// preamble: what every package of the family declares.
func preamble(dir string) []string {
	ds := []string{
		"var Flag bool",
		fmt.Sprintf("var Sentinel = errors.New(%q)", dir+": sentinel"),
		"// Limit is a constant of " + dir + "\nconst Limit = " + fmt.Sprint(len(dir)+7),
	}
	for i := 0; i < errDecls; i++ {
		recv := "*"
		if i == 2 {
			recv = "" // a value receiver: E2{} and &E2{} both are errors
		}
		ds = append(ds, fmt.Sprintf("type E%d struct{ Code int }", i),
			fmt.Sprintf("func (%sE%d) Error() string { return %q }", recv, i, fmt.Sprintf("%s: e%d", dir, i)))
	}
	return ds
}

// fn is one function or method of a package of the family.
type fn struct {
	pkg   string // dir of the declaring package
	name  string
	recv  string // "" | "T0" | "*T0"
	shape int    // 0: error, 1: any, 2: (int, error)
	next  string // the call that closes the cycle this function is part of ("" = none), as written inside its package
	doc   bool
}

func (f fn) results() string { return []string{"error", "any", "(int, error)"}[f.shape] }

// callFrom: the call of f as written in package `from` (a dir).
func (f fn) callFrom(from string) string {
	q := ""
	if from != f.pkg {
		q = pipe.ImportName(f.pkg) + "."
	}
	switch {
	case f.recv == "":
		return q + f.name + "(n - 1)"
	case strings.HasPrefix(f.recv, "*"):
		return "(&" + q + f.recv[1:] + "{})." + f.name + "(n - 1)"
	}
	return q + f.recv + "{}." + f.name + "(n - 1)"
}

func leafError(r *core.RNG) string {
	return core.Pick(r, []string{"&E0{}", "&E1{}", "E2{}", "&E2{Code: 2}", "&E0{Code: 1}", "Sentinel", `errors.New("leaf")`, "nil"})
}

// body of f: one to three guarded returns and a final one; the alternatives are leaves (concrete error types, a
// sentinel, constants) and calls of `callees` (functions of the same shape, written for f's package).
func body(r *core.RNG, f fn, callees []string) string {
	alt := func() string {
		useCall := len(callees) > 0 && r.Chance(55)
		switch f.shape {
		case 0:
			if useCall {
				return "return " + core.Pick(r, callees)
			}
			if r.Chance(20) {
				return "err := error(" + leafErrorNonNil(r) + "); return err"
			}
			return "return " + leafError(r)
		case 1:
			if useCall {
				return "return " + core.Pick(r, callees)
			}
			return "return " + core.Pick(r, []string{"1", `"s"`, "2.5", "nil", "&E0{}", "Limit", "Flag", "Sentinel"})
		}
		if useCall {
			c := core.Pick(r, callees)
			if strings.HasPrefix(c, "1:") { // a callee with one error result: only its error
				return "return 0, " + c[2:]
			}
			return "return " + c
		}
		return "return " + core.Pick(r, []string{"0", "1", "n", "Limit"}) + ", " + leafError(r)
	}
	var b strings.Builder
	k := 1 + r.Intn(3)
	for i := 0; i < k; i++ {
		cond := core.Pick(r, []string{"Flag", "n == 0", "n > Limit", "n%2 == 1"})
		fmt.Fprintf(&b, "if %s { %s }; ", cond, alt())
	}
	if f.next != "" {
		b.WriteString("return " + f.next)
	} else {
		b.WriteString(alt())
	}
	return b.String()
}

func leafErrorNonNil(r *core.RNG) string {
	return core.Pick(r, []string{"&E0{}", "&E1{}", "E2{}", "Sentinel"})
}

func (f fn) decl(r *core.RNG, callees []string) string {
	recv := ""
	if f.recv != "" {
		recv = "(t " + f.recv + ") "
	}
	d := fmt.Sprintf("func %s%s(n int) %s { %s }", recv, f.name, f.results(), body(r, f, callees))
	if f.doc {
		d = fmt.Sprintf("// %s %s reports what went wrong.\n//\n// +gengo:note=%s\n", f.name, f.name, strings.ToLower(f.name)) + d
	}
	return d
}

var queryDirs = []string{"a", "b", "lib", "p", "a/sub", "z"}

// queryScenario draws a module of the family.
func queryScenario(r *core.RNG) pipe.Scenario {
	sc := pipe.Scenario{Base: "zz_generated", All: r.Chance(25)}
	m := &sc.Module
	m.ModPath, m.GoVer = core.Pick(r, []string{"example.com/m", "m.test/mod"}), "1.22"
	names := []string{"g1", "g2"}[:1+r.Intn(2)]
	for _, n := range names {
		sc.Gens = append(sc.Gens, pipe.Gen{Name: n, CustomNew: r.Chance(30), Proto: r.Chance(30), Steps: map[string]pipe.Step{}})
	}
	perm := append([]string{}, queryDirs...)
	for i := range perm {
		j := i + r.Intn(len(perm)-i)
		perm[i], perm[j] = perm[j], perm[i]
	}
	dirs := perm[:2+r.Intn(3)]
	sort.Strings(dirs)
	rank := map[string]int{} // imports go from lower to higher rank: acyclic, in either direction of the sorted order
	for _, d := range dirs {
		rank[d] = r.Intn(1000)
	}
	byRank := append([]string{}, dirs...)
	sort.Slice(byRank, func(i, j int) bool { return rank[byRank[i]] > rank[byRank[j]] }) // libraries first

	funcs := map[string][]fn{} // by package
	pkgs := map[string]*pipe.Pkg{}
	for li, d := range byRank {
		p := &pipe.Pkg{Dir: d, Name: lastElem(d), GoImports: []string{"errors"}, Decls: preamble(d)}
		pkgs[d] = p
		for _, d2 := range byRank[:li] {
			if r.Chance(70) || (li > 0 && d2 == byRank[li-1] && len(p.Imports) == 0 && r.Chance(80)) {
				p.Imports = append(p.Imports, d2)
			}
		}
		sort.Strings(p.Imports)
		// types: tagged, with methods
		nt := 1 + r.Intn(2)
		var fs []fn
		for k := 0; k < nt; k++ {
			p.Types = append(p.Types, pipe.Type{Name: fmt.Sprintf("T%d", k), Enabled: names})
			if r.Chance(30) {
				p.Types[k].Doc = []string{fmt.Sprintf("T%d T%d is a type of %s", k, k, d)}
			}
			nm := 1 + r.Intn(2)
			for j := 0; j < nm; j++ {
				fs = append(fs, fn{pkg: d, name: fmt.Sprintf("M%d", j), recv: core.Pick(r, []string{"", "*"}) + fmt.Sprintf("T%d", k),
					shape: core.Pick(r, []int{0, 0, 0, 1, 2}), doc: r.Chance(20)})
			}
		}
		nf := 3 + r.Intn(4)
		for k := 0; k < nf; k++ {
			fs = append(fs, fn{pkg: d, name: fmt.Sprintf("F%d", k), shape: core.Pick(r, []int{0, 0, 0, 0, 1, 2, 2}), doc: r.Chance(20)})
		}
		// call cycles among functions (and methods) of one shape: F -> G -> (H ->) F
		ncyc := 0
		if li == 0 || r.Chance(70) {
			ncyc = 1 + r.Intn(2)
		}
		inCycle := map[int]bool{}
		for c := 0; c < ncyc; c++ {
			shape := core.Pick(r, []int{0, 0, 0, 2, 1})
			var cand []int
			for i, f := range fs {
				if f.shape == shape && !inCycle[i] {
					cand = append(cand, i)
				}
			}
			if len(cand) < 2 {
				continue
			}
			for i := range cand {
				j := i + r.Intn(len(cand)-i)
				cand[i], cand[j] = cand[j], cand[i]
			}
			n := 2
			if len(cand) > 2 && r.Chance(35) {
				n = 3
			}
			for i := 0; i < n; i++ {
				fs[cand[i]].next = fs[cand[(i+1)%n]].callFrom(d)
				inCycle[cand[i]] = true
			}
		}
		funcs[d] = fs
		// bodies: callees are functions of this package and of the imported ones, of a shape that fits
		for _, f := range fs {
			var callees []string
			for _, from := range append([]string{d}, p.Imports...) {
				for _, g := range funcs[from] {
					if g.pkg == f.pkg && g.name == f.name && g.recv == f.recv && r.Chance(70) {
						continue // plain self recursion only sometimes
					}
					switch {
					case g.shape == f.shape, f.shape == 1 && g.shape == 0:
						callees = append(callees, g.callFrom(d))
					case f.shape == 2 && g.shape == 0:
						callees = append(callees, "1:"+g.callFrom(d))
					}
				}
			}
			p.Decls = append(p.Decls, f.decl(r, callees))
		}
	}
	for _, d := range dirs {
		m.Pkgs = append(m.Pkgs, *pkgs[d])
	}
	// probes: the own package (whole or piecewise) and the imported ones
	for _, p := range m.Pkgs {
		for _, t := range p.Types {
			for gi := range sc.Gens {
				var st pipe.Step
				self := m.PkgPath(p.Dir)
				switch q := r.Intn(10); {
				case q < 6:
					st.Probe = append(st.Probe, self+".*")
				case q < 9:
					for _, f := range funcs[p.Dir] {
						if f.recv == "" && r.Chance(50) {
							st.Probe = append(st.Probe, self+"."+f.name)
						}
					}
					st.Probe = append(st.Probe, self+"."+t.Name)
				}
				for _, im := range p.Imports {
					switch q := r.Intn(10); {
					case q < 3:
						st.Probe = append(st.Probe, m.PkgPath(im)+".*")
					case q < 6:
						if f := core.Pick(r, funcs[im]); f.recv == "" {
							st.Probe = append(st.Probe, m.PkgPath(im)+"."+f.name)
						} else {
							st.Probe = append(st.Probe, m.PkgPath(im)+"."+strings.TrimPrefix(f.recv, "*"))
						}
					}
				}
				if r.Chance(30) { // in another order
					for i := range st.Probe {
						j := i + r.Intn(len(st.Probe)-i)
						st.Probe[i], st.Probe[j] = st.Probe[j], st.Probe[i]
					}
				}
				if r.Chance(15) {
					st.Count, st.Helper = true, r.Bool()
				}
				sc.Gens[gi].Steps[self+" "+t.Name] = st
			}
		}
	}
	return sc
}

// fromC14 turns a program of C14's "src" families (results that come from methods / interface methods declared in
// transitively imported packages; variadic callees and spread calls) into a module of this family: every package gets
// one tagged type whose generator probes the package itself and, sometimes, what it imports.
func fromC14(r *core.RNG, family string) pipe.Scenario {
	sp := c14.SrcProgram(r, family)
	sc := pipe.Scenario{Base: "zz_generated", All: r.Chance(25)}
	m := &sc.Module
	m.ModPath, m.GoVer = c14.SrcModule, "1.22"
	sc.Gens = []pipe.Gen{{Name: "g1", CustomNew: r.Chance(30), Steps: map[string]pipe.Step{}}}
	for _, src := range sp.Pkgs {
		p := pipe.Pkg{Dir: src.Name, Name: src.Name, GoImports: src.Imports, Types: []pipe.Type{{Name: "Probe", Enabled: []string{"g1"}}}}
		st := pipe.Step{Probe: []string{m.PkgPath(src.Name) + ".*"}}
		for _, im := range src.Imports {
			if a := c14.StdAnchor(im); a != "" {
				p.Decls = append(p.Decls, a)
			} else if local, ok := strings.CutPrefix(im, c14.SrcModule+"/"); ok {
				p.Imports = append(p.Imports, local)
				p.Decls = append(p.Decls, "var _ = "+local+".Anchor")
				if r.Chance(40) {
					st.Probe = append(st.Probe, im+".*")
				}
			}
		}
		if r.Chance(30) && len(st.Probe) > 1 {
			st.Probe[0], st.Probe[len(st.Probe)-1] = st.Probe[len(st.Probe)-1], st.Probe[0]
		}
		p.Decls = append(p.Decls, src.Decls...)
		sc.Gens[0].Steps[m.PkgPath(src.Name)+" Probe"] = st
		m.Pkgs = append(m.Pkgs, p)
	}
	sort.Slice(m.Pkgs, func(i, j int) bool { return m.Pkgs[i].Dir < m.Pkgs[j].Dir })
	return sc
}

// queryCorner: fixed modules of the family.
func queryCorner() []input {
	errs := func(dir string) []string {
		return []string{
			"type NotFound struct{}", `func (*NotFound) Error() string { return "` + dir + `: not found" }`,
			"type Conflict struct{}", `func (*Conflict) Error() string { return "` + dir + `: conflict" }`,
		}
	}
	on := []string{"g1"}
	var out []input
	// a library with two mutually recursive functions and two ways into the cycle: the library's own method enters at
	// Even, the user's method at Odd.  The library sorts before the user (lib, p) and after it (zlib, p).
	for _, lib := range []string{"lib", "zlib"} {
		lp := pipe.Pkg{Dir: lib, Name: lib, Types: []pipe.Type{{Name: "Service", Enabled: on}}, Decls: append(errs(lib),
			"func (Service) Do(n int) error { return Even(n) }",
			"func Even(n int) error { if n == 0 { return &NotFound{} }; return Odd(n - 1) }",
			"func Odd(n int) error { if n == 0 { return &Conflict{} }; return Even(n - 1) }")}
		up := pipe.Pkg{Dir: "p", Name: "p", Imports: []string{lib}, Types: []pipe.Type{{Name: "Client", Enabled: on}}, Decls: []string{
			"func (Client) Call(n int) error { return " + pipe.ImportName(lib) + ".Odd(n) }"}}
		m := pipe.Module{ModPath: "example.com/m", GoVer: "1.22", Pkgs: []pipe.Pkg{lp, up}}
		sort.Slice(m.Pkgs, func(i, j int) bool { return m.Pkgs[i].Dir < m.Pkgs[j].Dir })
		for _, whole := range []bool{true, false} {
			steps := map[string]pipe.Step{"example.com/m/" + lib + " Service": {Probe: []string{"example.com/m/" + lib + ".*"}},
				"example.com/m/p Client": {Probe: []string{"example.com/m/p.*"}}}
			if !whole { // only the types the generator is called for
				steps = map[string]pipe.Step{"example.com/m/" + lib + " Service": {Probe: []string{"example.com/m/" + lib + ".Service"}},
					"example.com/m/p Client": {Probe: []string{"example.com/m/p.Client"}}}
			}
			out = append(out, input{Scenario: pipe.Scenario{Module: m, Base: "zz_generated", Gens: []pipe.Gen{{Name: "g1", Steps: steps}}},
				Together: [][]string{{lib, "p"}, {"p", lib}}})
		}
	}
	// a cycle of three functions with two results that runs through a method; a second user; probes of the imported
	// package's functions one by one (what p is told about lib.Step1 must not depend on q having asked for lib.Step2)
	lp := pipe.Pkg{Dir: "lib", Name: "lib", GoImports: []string{"errors"}, Types: []pipe.Type{{Name: "Machine", Enabled: on, Doc: []string{"Machine Machine runs the steps"}}},
		Decls: append(errs("lib"),
			`var ErrDone = errors.New("lib: done")`,
			"// Step0 Step0 starts.\nfunc Step0(n int) (int, error) { if n == 0 { return 0, &NotFound{} }; return (&Machine{}).Step1(n - 1) }",
			"func (m *Machine) Step1(n int) (int, error) { if n == 0 { return 1, &Conflict{} }; return Step2(n - 1) }",
			"func Step2(n int) (int, error) { if n == 0 { return 2, ErrDone }; return Step0(n - 1) }",
			"func Value(n int) any { if n == 0 { return 1 }; if n == 1 { return \"s\" }; return Other(n - 1) }",
			"func Other(n int) any { if n == 0 { return &NotFound{} }; return Value(n - 1) }")}
	pp := pipe.Pkg{Dir: "p", Name: "p", Imports: []string{"lib"}, Types: []pipe.Type{{Name: "Client", Enabled: on}}, Decls: []string{
		"func (Client) Call(n int) (int, error) { return ilib.Step2(n) }", "func (Client) Get(n int) any { return ilib.Other(n) }"}}
	qp := pipe.Pkg{Dir: "q", Name: "q", Imports: []string{"lib"}, Types: []pipe.Type{{Name: "Client", Enabled: on}}, Decls: []string{
		"func (*Client) Call(n int) (int, error) { return (&ilib.Machine{}).Step1(n) }", "func (*Client) Get(n int) any { return ilib.Value(n) }"}}
	m := pipe.Module{ModPath: "example.com/m", GoVer: "1.22", Pkgs: []pipe.Pkg{lp, pp, qp}}
	steps := map[string]pipe.Step{
		"example.com/m/lib Machine": {Probe: []string{"example.com/m/lib.Machine", "example.com/m/lib.Step0", "example.com/m/lib.Value"}},
		"example.com/m/p Client":    {Probe: []string{"example.com/m/p.Client", "example.com/m/lib.Step0", "example.com/m/lib.Other"}},
		"example.com/m/q Client":    {Probe: []string{"example.com/m/lib.Step2", "example.com/m/q.*", "example.com/m/lib.Value"}}}
	out = append(out, input{Scenario: pipe.Scenario{Module: m, Base: "zz_generated", Gens: []pipe.Gen{{Name: "g1", Steps: steps}}},
		Together: [][]string{{"lib", "p", "q"}, {"p", "q"}, {"q", "lib"}, {"lib", "p"}}})
	return out
}

// queryTags: distribution tags of the family.
func queryTags(in input) []string {
	probes, foreign, whole := false, false, false
	for _, g := range in.Gens {
		for k, st := range g.Steps {
			for _, ref := range st.Probe {
				probes = true
				whole = whole || strings.HasSuffix(ref, ".*")
				foreign = foreign || ref[:strings.LastIndex(ref, ".")] != k[:strings.Index(k, " ")]
			}
		}
	}
	if !probes {
		return nil
	}
	tags := []string{"universe-queries(go-side-only)"}
	if foreign {
		tags = append(tags, "universe-queries:of-an-imported-package")
	}
	if whole {
		tags = append(tags, "universe-queries:whole-package")
	}
	cross := false
	for _, p := range in.Module.Pkgs {
		for _, d := range p.Decls {
			src := d[strings.LastIndex(d, "\n")+1:] // without the doc comment
			for _, im := range p.Imports {
				if strings.HasPrefix(src, "func ") && (strings.Contains(src, pipe.ImportName(im)+".") || strings.Contains(src, " "+lastElem(im)+".")) {
					cross = true
				}
			}
		}
	}
	if cross {
		tags = append(tags, "universe-queries:function-calls-into-another-local-package")
	}
	if in.Module.ModPath == c14.SrcModule {
		tags = append(tags, "universe-queries:program-of-c14")
	}
	if callCycle(in.Module) {
		tags = append(tags, "universe-queries:call-cycle")
	}
	return tags
}

// callCycle: do the declared functions of some package call each other in a cycle of length >= 2 (by name; good enough
// for a distribution tag)?
func callCycle(m pipe.Module) bool {
	for _, p := range m.Pkgs {
		bodies := map[string]string{}
		for _, d := range p.Decls {
			src := d[strings.LastIndex(d, "\n")+1:]
			if !strings.HasPrefix(src, "func ") {
				continue
			}
			head := src[:strings.Index(src, "{")]
			name := strings.TrimPrefix(head, "func ")
			if strings.HasPrefix(name, "(") {
				name = strings.TrimSpace(name[strings.Index(name, ")")+1:])
			}
			name = name[:strings.Index(name, "(")]
			bodies[name] += src[strings.Index(src, "{"):]
		}
		calls := func(a, b string) bool {
			s := bodies[a]
			for i := strings.Index(s, b+"("); i >= 0; {
				if i == 0 || !(s[i-1] >= 'a' && s[i-1] <= 'z' || s[i-1] >= 'A' && s[i-1] <= 'Z' || s[i-1] >= '0' && s[i-1] <= '9') {
					return true
				}
				j := strings.Index(s[i+1:], b+"(")
				if j < 0 {
					break
				}
				i += 1 + j
			}
			return false
		}
		var names []string
		for n := range bodies {
			names = append(names, n)
		}
		reach := map[string]map[string]bool{}
		for _, a := range names {
			reach[a] = map[string]bool{}
			for _, b := range names {
				if a != b && calls(a, b) {
					reach[a][b] = true
				}
			}
		}
		for range names {
			for _, a := range names {
				for b := range reach[a] {
					for c := range reach[b] {
						reach[a][c] = true
					}
				}
			}
		}
		for _, a := range names {
			if reach[a][a] {
				return true
			}
		}
	}
	return false
}
