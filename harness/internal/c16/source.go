package c16

import (
	"fmt"
	"go/token"
	"sort"
	"strings"

	"verifharness/internal/core"
)

// ---- Go source of the abstract package ----

func writeDoc(b *strings.Builder, indent string, doc []DocLine) {
	for _, l := range doc {
		if l.Text == "" {
			b.WriteString(indent + "//\n")
		} else {
			b.WriteString(indent + "// " + l.Text + "\n")
		}
	}
}

func tparams(t *Type) string {
	if !t.Generic {
		return ""
	}
	if strings.HasPrefix(t.Under, "map[P0]") {
		return "[P0 comparable]"
	}
	return "[P0 any]"
}

func writeTypeSpec(b *strings.Builder, in *Input, t *Type, indent string) {
	if t.Over != "" {
		fmt.Fprintf(b, "%s%s %s\n", indent, t.Name, t.Over)
		return
	}
	switch t.Kind {
	case "struct":
		fmt.Fprintf(b, "%s%s%s struct {\n", indent, t.Name, tparams(t))
		for i, f := range t.Fields {
			if i > 0 {
				b.WriteString("\n")
			}
			writeDoc(b, indent+"\t", f.Doc)
			switch {
			case f.Embedded:
				s := f.Name
				if f.Foreign != "" {
					s = f.Foreign
				}
				if f.Generic {
					s += "[int]"
				}
				if f.Ptr {
					s = "*" + s
				}
				fmt.Fprintf(b, "%s\t%s\n", indent, s)
			default:
				fmt.Fprintf(b, "%s\t%s %s\n", indent, f.Name, f.Type)
			}
		}
		fmt.Fprintf(b, "%s}\n", indent)
	default:
		fmt.Fprintf(b, "%s%s%s %s\n", indent, t.Name, tparams(t), t.Under)
	}
}

func source(in *Input) string {
	var b strings.Builder
	if in.NoPkgTag {
		b.WriteString("// Package p is not tagged.\npackage p\n\n")
	} else {
		b.WriteString("// +gengo:runtimedoc\npackage p\n\n")
	}
	imports := map[string]bool{}
	for i := range in.Types {
		for _, f := range in.Types[i].Fields {
			if f.Foreign != "" {
				imports[strings.SplitN(f.Foreign, ".", 2)[0]] = true
			}
		}
	}
	paths := map[string]bool{}
	for imp := range imports {
		paths[imp] = true
	}
	for i := range in.Types {
		if in.Types[i].Over != "" {
			if path, _ := overImport(in.Types[i].Over); path != "" {
				paths[path] = true
			}
		}
	}
	var sorted []string
	for p := range paths {
		sorted = append(sorted, p)
	}
	sort.Strings(sorted)
	for _, imp := range sorted {
		fmt.Fprintf(&b, "import %q\n\n", imp)
	}
	if in.Broken {
		defer b.WriteString("\nfunc (\n")
	}
	if in.Grouped {
		b.WriteString("type (\n")
		for i := range in.Types {
			t := &in.Types[i]
			writeDoc(&b, "\t", t.Doc)
			writeTypeSpec(&b, in, t, "\t")
			b.WriteString("\n")
		}
		b.WriteString(")\n")
		return b.String()
	}
	for i := range in.Types {
		t := &in.Types[i]
		writeDoc(&b, "", t.Doc)
		b.WriteString("type ")
		writeTypeSpec(&b, in, t, "")
		b.WriteString("\n")
	}
	return b.String()
}

// ---- Coq terms ----

func coqLines(ls []string) string {
	items := make([]string, len(ls))
	for i, l := range ls {
		items[i] = core.Hex(l)
	}
	return core.CoqList(items)
}

func coqField(f *Field) string {
	kind := ""
	if f.Embedded {
		tg := "ELocal"
		if f.Foreign != "" {
			tg = "(EForeign " + core.CoqBool(f.Foreign == "sync.Mutex") + ")"
		}
		kind = fmt.Sprintf("(FEmbedded %s %s)", core.CoqBool(f.Ptr), tg)
	} else {
		c := "FOrdinary"
		switch f.Class {
		case "inline":
			c = "FInline"
		case "empty":
			c = "FEmptyNamed"
		}
		kind = "(FNamed " + c + ")"
	}
	return fmt.Sprintf("(mk_field %s %s %s %s)", core.Hex(f.Name), core.CoqBool(token.IsExported(f.Name)), kind, coqLines(raw(f.Doc)))
}

func coqPackage(in *Input) string {
	var ts []string
	for _, t := range sortedTypes(in) {
		kind := "TOther"
		switch t.Kind {
		case "iface":
			kind = "TInterface"
		case "struct":
			var fs []string
			for i := range t.Fields {
				fs = append(fs, coqField(&t.Fields[i]))
			}
			kind = "(TStruct " + core.CoqList(fs) + ")"
		}
		ts = append(ts, fmt.Sprintf("(mk_ty %s %s %s %s %s)", core.Hex(t.Name), core.CoqBool(token.IsExported(t.Name)),
			core.CoqBool(in.enabled(t)), kind, coqLines(raw(t.Doc))))
	}
	return core.CoqList(ts)
}

func coqRV(v RV) string {
	if v.Nil {
		return "RNil"
	}
	var ks []string
	for _, k := range v.Kids {
		ks = append(ks, fmt.Sprintf("(%s, %s)", core.Hex(k.Name), coqRV(k.V)))
	}
	return "(RNode " + core.CoqList(ks) + ")"
}

// ---- IR as observed in the generated file ----

type EmbedIR struct {
	Name   string `json:"name"`
	Ptr    bool   `json:"ptr"`
	Prefix string `json:"prefix"`
}
type DocEl struct {
	Lit   string `json:"lit,omitempty"`
	Embed string `json:"embed,omitempty"`
	IsEmb bool   `json:"is_embed,omitempty"`
}
type CaseIR struct {
	Name string   `json:"name"`
	Doc  []string `json:"doc"`
}
type Item struct {
	Helper bool      `json:"helper,omitempty"`
	Type   string    `json:"type,omitempty"`
	Simple bool      `json:"simple,omitempty"`
	Guard  bool      `json:"guard,omitempty"`
	Doc    []DocEl   `json:"doc,omitempty"`
	Cases  []CaseIR  `json:"cases,omitempty"`
	Embeds []EmbedIR `json:"embeds,omitempty"`
}

func coqItem(it Item) string {
	if it.Helper {
		return "IHelper"
	}
	if it.Simple {
		var ls []string
		for _, d := range it.Doc {
			ls = append(ls, d.Lit)
		}
		return fmt.Sprintf("(IMethod %s (Simple %s %s))", core.Hex(it.Type), core.CoqBool(it.Guard), coqLines(ls))
	}
	var ds, cs, es []string
	for _, d := range it.Doc {
		if d.IsEmb {
			ds = append(ds, "(DEmbed "+core.Hex(d.Embed)+")")
		} else {
			ds = append(ds, "(DLit "+core.Hex(d.Lit)+")")
		}
	}
	for _, c := range it.Cases {
		cs = append(cs, fmt.Sprintf("(%s, %s)", core.Hex(c.Name), coqLines(c.Doc)))
	}
	for _, e := range it.Embeds {
		es = append(es, fmt.Sprintf("(mk_embed %s %s %s)", core.Hex(e.Name), core.CoqBool(e.Ptr), core.Hex(e.Prefix)))
	}
	return fmt.Sprintf("(IMethod %s (StructDoc %s %s %s))", core.Hex(it.Type), core.CoqList(ds), core.CoqList(cs), core.CoqList(es))
}
