package c16

import (
	"bytes"
	"context"
	"encoding/hex"
	"encoding/json"
	"fmt"
	"go/token"
	"os"
	"os/exec"
	"path/filepath"
	"sort"
	"strings"
	"time"

	_ "github.com/octohelm/gengo/devpkg/runtimedocgen"
	"github.com/octohelm/gengo/pkg/gengo"

	"verifharness/internal/core"
)

const className = "nil_embedded_pointer_chain"

type prop struct{}

func init() {
	core.Register(prop{})
	core.Children["c16-exec"] = childExec
}

func (prop) ID() string        { return "C16" }
func (prop) CoqModule() string { return "Gengo.Corr.C16" }
func (prop) Parallel() int     { return 12 }

// childExec: the real Execute with the real runtimedoc generator on one package directory.
func childExec(args []string) int {
	if len(args) != 1 {
		return 2
	}
	c, err := gengo.NewContext(&gengo.GeneratorArgs{Entrypoint: []string{args[0]}, OutputFileBaseName: "zz_generated", Force: true})
	if err != nil {
		fmt.Println("NEWCONTEXT-ERROR:", err)
		return 3
	}
	gens := gengo.GetRegisteredGenerators("runtimedoc")
	if len(gens) != 1 {
		fmt.Println("runtimedoc generator is not registered")
		return 5
	}
	if err := c.Execute(context.Background(), gens...); err != nil {
		fmt.Println("EXECUTE-ERROR:", err)
		return 4
	}
	return 0
}

func runCmd(dir string, timeout time.Duration, name string, args ...string) (string, error) {
	ctx, cancel := context.WithTimeout(context.Background(), timeout)
	defer cancel()
	cmd := exec.CommandContext(ctx, name, args...)
	cmd.Dir = dir
	cmd.Env = append(os.Environ(), "GOFLAGS=-mod=mod", "GOPROXY=off", "GOWORK=off")
	var out bytes.Buffer
	cmd.Stdout, cmd.Stderr = &out, &out
	err := cmd.Run()
	if ctx.Err() != nil {
		return out.String(), fmt.Errorf("timeout after %s", timeout)
	}
	return out.String(), err
}

// ---- queries ----

type Query struct {
	Type  string   `json:"type"`
	Recv  RV       `json:"recv"`
	Names []string `json:"names"`
}

type QRes struct {
	Has   bool     `json:"has"`
	Panic bool     `json:"panic,omitempty"`
	Ok    bool     `json:"ok"`
	Doc   []string `json:"doc"`
}

func sameRV(a, b RV) bool {
	x, _ := json.Marshal(a)
	y, _ := json.Marshal(b)
	return bytes.Equal(x, y)
}

func queries(in *Input) []Query {
	nameSet := map[string]bool{}
	var names []string
	addName := func(n string) {
		if !nameSet[n] && len(names) < 16 {
			nameSet[n] = true
			names = append(names, n)
		}
	}
	for i := range in.Types {
		for _, f := range in.Types[i].Fields {
			addName(f.Name)
		}
	}
	nameSet["Nope"], nameSet[""] = true, true
	names = append(names, "Nope", "")
	if len(in.Types) > 0 {
		if n := in.Types[0].Name; !nameSet[n] {
			names = append(names, n)
		}
	}
	var qs []Query
	for i := range in.Types {
		t := &in.Types[i]
		recvs := []RV{in.value(t.Name, false, nil)}
		if full := in.value(t.Name, true, nil); !sameRV(full, recvs[0]) {
			recvs = append(recvs, full)
		}
		recvs = append(recvs, RV{Nil: true})
		for _, rv := range recvs {
			if in.nilChain(t.Name, rv) != in.KnownOnly {
				continue
			}
			qs = append(qs, Query{t.Name, rv, nil})
			for _, n := range names {
				qs = append(qs, Query{t.Name, rv, []string{n}})
			}
			qs = append(qs, Query{t.Name, rv, []string{names[0], "Nope"}}, Query{t.Name, rv, []string{"Nope", names[0]}})
		}
	}
	return qs
}

// ---- the probe program ----

func recvExpr(in *Input, tn string, v RV, top bool) string {
	t := in.lookup(tn)
	targ := ""
	if t != nil && t.Generic {
		targ = "[int]"
	}
	if v.Nil {
		return fmt.Sprintf("(*%s%s)(nil)", tn, targ)
	}
	if t == nil || t.Kind != "struct" {
		return fmt.Sprintf("new(%s%s)", tn, targ)
	}
	var parts []string
	for _, k := range v.Kids {
		var f *Field
		for i := range t.Fields {
			if t.Fields[i].Embedded && t.Fields[i].Name == k.Name {
				f = &t.Fields[i]
			}
		}
		if f == nil || k.V.Nil || f.Foreign != "" {
			continue
		}
		e := recvExpr(in, k.Name, k.V, false)
		if !f.Ptr {
			e = "*" + e
		}
		parts = append(parts, fmt.Sprintf("%s: %s", k.Name, e))
	}
	return fmt.Sprintf("&%s%s{%s}", tn, targ, strings.Join(parts, ", "))
}

func probeSource(in *Input, qs []Query) string {
	var b strings.Builder
	b.WriteString(`package p

import (
	"encoding/hex"
	"encoding/json"
	"os"
)

type zzRes struct {
	Has   bool     ` + "`json:\"has\"`" + `
	Panic bool     ` + "`json:\"panic,omitempty\"`" + `
	Ok    bool     ` + "`json:\"ok\"`" + `
	Doc   []string ` + "`json:\"doc\"`" + `
}

func zzCall(x any, names ...string) (r zzRes) {
	c, ok := x.(interface {
		RuntimeDoc(names ...string) ([]string, bool)
	})
	if !ok {
		return
	}
	r.Has = true
	defer func() {
		if e := recover(); e != nil {
			r.Panic = true
		}
	}()
	doc, ok := c.RuntimeDoc(names...)
	r.Ok = ok
	for _, l := range doc {
		r.Doc = append(r.Doc, hex.EncodeToString([]byte(l)))
	}
	return
}

func ZZProbe() {
	out := []zzRes{
`)
	for _, q := range qs {
		args := []string{recvExpr(in, q.Type, q.Recv, true)}
		for _, n := range q.Names {
			args = append(args, fmt.Sprintf("%q", n))
		}
		fmt.Fprintf(&b, "\t\tzzCall(%s),\n", strings.Join(args, ", "))
	}
	b.WriteString(`	}
	_ = json.NewEncoder(os.Stdout).Encode(out)
}
`)
	return b.String()
}

const mainSource = `package main

import "example.com/m/p"

func main() { p.ZZProbe() }
`

// ---- Run ----

type observed struct {
	Exec    string  `json:"exec"` // "ok" | "nofile" | "fail"
	ExecLog string  `json:"exec_log,omitempty"`
	IR      []Item  `json:"ir,omitempty"`
	Builds  bool    `json:"builds"`
	Build   string  `json:"build_log,omitempty"`
	Queries []Query `json:"queries,omitempty"`
	Results []QRes  `json:"results,omitempty"`
	Source  string  `json:"source,omitempty"`
	Gen     string  `json:"generated,omitempty"`
}

func tail(s string, n int) string {
	if len(s) > n {
		return s[len(s)-n:]
	}
	return s
}

func (prop) Run(raw json.RawMessage, scratch string) core.Result {
	var in Input
	var res core.Result
	if err := json.Unmarshal(raw, &in); err != nil {
		res.Notes = append(res.Notes, "bad input: "+err.Error())
		return res
	}
	normalize(&in)
	obs := observed{Exec: "fail"}
	fail := func(msg string) core.Result {
		res.GoViolations = append(res.GoViolations, msg)
		res.Observed = obs
		res.Coq = coqCase(&in, &obs)
		return res
	}
	mod := filepath.Join(scratch, "m")
	pdir := filepath.Join(mod, "p")
	if err := os.MkdirAll(filepath.Join(mod, "cmd"), 0o755); err != nil {
		return fail("scratch: " + err.Error())
	}
	_ = os.MkdirAll(pdir, 0o755)
	_ = os.WriteFile(filepath.Join(mod, "go.mod"), []byte("module example.com/m\n\ngo 1.23\n"), 0o644)
	// defined types over foreign structs: the expectation is read from the sources the go command of THIS module uses
	if err := fillOvers(&in, gorootOf(mod)); err != nil {
		return fail("harness: cannot read the declaration of a foreign struct: " + err.Error())
	}
	normalizeClasses(&in)
	src := source(&in)
	obs.Source = src
	_ = os.WriteFile(filepath.Join(pdir, "p.go"), []byte(src), 0o644)
	if len(in.Others) > 0 {
		_ = os.MkdirAll(filepath.Join(mod, otherPkg), 0o755)
		_ = os.WriteFile(filepath.Join(mod, otherPkg, otherPkg+".go"), []byte(otherSource(&in)), 0o644)
	}
	for name, content := range in.Files {
		fp := filepath.Join(pdir, filepath.FromSlash(name))
		_ = os.MkdirAll(filepath.Dir(fp), 0o755)
		_ = os.WriteFile(fp, []byte(content), 0o644)
	}
	self, err := os.Executable()
	if err != nil {
		return fail("no executable: " + err.Error())
	}
	tagsOf(&in, &res)

	// 1. the real Execute
	out, err := runCmd(mod, 90*time.Second, self, "c16-exec", "./p")
	if in.Broken {
		// malformed stream (the source has a syntax error): the statement says nothing about such a package;
		// observed only: Execute terminates without crashing (gengo tolerates load errors and may still generate)
		res.Observed = map[string]any{"broken": true, "log": tail(out, 300)}
		res.Tags = append(res.Tags, "malformed_source")
		if err != nil && !(strings.Contains(out, "NEWCONTEXT-ERROR") || strings.Contains(out, "EXECUTE-ERROR")) {
			res.Notes = append(res.Notes, "source with a syntax error: Execute crashed or timed out: "+firstLine(out, err))
		}
		res.Coq = "mk_case [] [] ENoFile true false []"
		return res
	}
	if err != nil {
		obs.ExecLog = tail(out, 1500)
		return fail("Execute failed on a package of the property's domain: " + firstLine(obs.ExecLog, err))
	}
	gen, err := os.ReadFile(filepath.Join(pdir, "zz_generated.runtimedoc.go"))
	switch {
	case err != nil:
		obs.Exec = "nofile"
	default:
		obs.Gen = string(gen)
		items, aerr := abstractFile(gen)
		if aerr != nil {
			obs.Exec, obs.ExecLog = "unknown", aerr.Error()
			res.Notes = append(res.Notes, "generated file has a shape the IR abstraction does not know: "+aerr.Error())
		} else {
			obs.Exec, obs.IR = "ok", items
		}
	}

	// 2. compile the package with the probe and run it
	qs := queries(&in)
	obs.Queries = qs
	_ = os.WriteFile(filepath.Join(pdir, "zz_probe.go"), []byte(probeSource(&in, qs)), 0o644)
	_ = os.WriteFile(filepath.Join(mod, "cmd", "main.go"), []byte(mainSource), 0o644)
	bin := filepath.Join(scratch, "probe.bin")
	out, err = runCmd(mod, 180*time.Second, "go", "build", "-o", bin, "./cmd")
	if err != nil {
		obs.Build = tail(out, 1500)
		return fail("the generated code does not compile together with the package: " + firstLine(out, err))
	}
	obs.Builds = true
	out, err = runCmd(mod, 30*time.Second, bin)
	if err != nil {
		obs.Build = tail(out, 1500)
		return fail("probe program failed: " + firstLine(out, err))
	}
	var rs []QRes
	if err := json.Unmarshal([]byte(out), &rs); err != nil || len(rs) != len(qs) {
		return fail("probe output not understood")
	}
	for i := range rs {
		for j, h := range rs[i].Doc {
			b, _ := hex.DecodeString(h)
			rs[i].Doc[j] = string(b)
		}
	}
	obs.Results = rs

	// Go-side expectations: what the harness wrote into the source comes back
	// (types and own fields; delegation is judged by the Coq predicate)
	if !in.KnownOnly {
		for i, q := range qs {
			t := in.lookup(q.Type)
			if t == nil || !in.covered(t) || !rs[i].Has || rs[i].Panic {
				if t != nil && in.covered(t) && !rs[i].Has {
					res.GoViolations = append(res.GoViolations, fmt.Sprintf("covered type %s has no RuntimeDoc method", q.Type))
				}
				continue
			}
			var want []string
			switch {
			case len(q.Names) == 0:
				if t.Kind == "struct" && hasEmbedRef(t) {
					continue
				}
				want = docOf(t.Name, rawDoc(t.Doc))
			case t.Kind != "struct":
				if rs[i].Ok || len(rs[i].Doc) > 0 {
					res.GoViolations = append(res.GoViolations, fmt.Sprintf("(*%s).RuntimeDoc(%q) = %q, %v on a type without fields; the property says (nil, false)",
						q.Type, q.Names, rs[i].Doc, rs[i].Ok))
				}
				continue
			default:
				f := ownListed(t, q.Names[0])
				if f == nil {
					continue
				}
				want = docOf(f.Name, rawDoc(f.Doc))
			}
			if !rs[i].Ok || !sameLines(rs[i].Doc, want) {
				res.GoViolations = append(res.GoViolations, fmt.Sprintf("(*%s).RuntimeDoc(%q) = %q, %v; the source says %q",
					q.Type, q.Names, rs[i].Doc, rs[i].Ok, want))
			}
		}
	}
	if len(res.GoViolations) > 3 {
		res.GoViolations = res.GoViolations[:3]
	}
	res.Observed = obs
	res.Coq = coqCase(&in, &obs)
	if in.KnownOnly && len(qs) > 0 {
		res.Class = className
	}
	res.Nontrivial = len(qs) > 0 && obs.Exec == "ok"
	// keep obs.json small
	if len(res.GoViolations) == 0 {
		obs.Source, obs.Gen = "", ""
		if len(obs.Queries) > 12 {
			obs.Queries, obs.Results = obs.Queries[:12], obs.Results[:12]
		}
		res.Observed = obs
	}
	return res
}

func rawDoc(d []DocLine) []string { return raw(d) }

func firstLine(s string, err error) string {
	s = strings.TrimSpace(s)
	for _, l := range strings.Split(s, "\n") {
		l = strings.TrimSpace(l)
		if l != "" && !strings.HasPrefix(l, "#") {
			return l
		}
	}
	if err != nil {
		return err.Error()
	}
	return ""
}

func sameLines(a, b []string) bool {
	if len(a) != len(b) {
		return false
	}
	for i := range a {
		if a[i] != b[i] {
			return false
		}
	}
	return true
}

func ownListed(t *Type, n string) *Field {
	for i := range t.Fields {
		f := &t.Fields[i]
		if f.Name == n && !f.Embedded && token.IsExported(f.Name) && (f.Class == "" || f.Class == "ordinary") {
			return f
		}
	}
	return nil
}

func hasEmbedRef(t *Type) bool {
	for _, l := range raw(t.Doc) {
		if i := strings.Index(l, "[["); i >= 0 && strings.Contains(l[i:], "]]") {
			return true
		}
	}
	return false
}

func coqCase(in *Input, obs *observed) string {
	ex := "EFail"
	switch obs.Exec {
	case "unknown":
		ex = "EUnknown"
	case "nofile":
		ex = "ENoFile"
	case "ok":
		var items []string
		for _, it := range obs.IR {
			items = append(items, coqItem(it))
		}
		ex = "(EIR " + core.CoqList(items) + ")"
	}
	var files []string
	var fnames []string
	for n := range in.Files {
		fnames = append(fnames, n)
	}
	sort.Strings(fnames)
	for _, n := range fnames {
		files = append(files, fmt.Sprintf("(%s, %s)", core.Hex(n), core.Hex(in.Files[n])))
	}
	var qs []string
	for i, q := range obs.Queries {
		if i >= len(obs.Results) {
			break
		}
		r := obs.Results[i]
		o := "QNoMethod"
		switch {
		case !r.Has:
		case r.Panic:
			o = "QPanic"
		default:
			o = fmt.Sprintf("(QRes %s %s)", core.CoqBool(r.Ok), coqLines(r.Doc))
		}
		var ns []string
		for _, n := range q.Names {
			ns = append(ns, core.Hex(n))
		}
		qs = append(qs, fmt.Sprintf("(mk_q %s %s %s %s)", core.Hex(q.Type), coqRV(q.Recv), core.CoqList(ns), o))
	}
	return fmt.Sprintf("mk_case %s %s %s %s %s %s", coqPackage(in), core.CoqList(files), ex, core.CoqBool(obs.Builds),
		core.CoqBool(in.KnownOnly), core.CoqList(qs))
}

func tagsOf(in *Input, res *core.Result) {
	tags := map[string]bool{}
	for i := range in.Types {
		t := &in.Types[i]
		tags["kind="+t.Kind] = true
		if t.Generic {
			tags["generic"] = true
		}
		if !in.enabled(t) {
			tags["type_disabled"] = true
		}
		if !token.IsExported(t.Name) {
			tags["unexported_type"] = true
		}
		if t.Over != "" {
			if _, std := overImport(t.Over); std {
				tags["defined_over_std_struct"] = true
			} else {
				tags["defined_over_struct_of_other_package_of_the_module"] = true
			}
			for _, f := range t.Fields {
				if token.IsExported(f.Name) && len(raw(f.Doc)) > 0 && in.covered(t) {
					tags["foreign_field_with_doc"] = true
				}
			}
		}
		if t.Kind == "struct" && !hasExpose(t) {
			tags["struct_without_exported_field"] = true
		}
		docs := [][]DocLine{t.Doc}
		for _, f := range t.Fields {
			docs = append(docs, f.Doc)
			switch {
			case f.Embedded && f.Ptr:
				tags["embedded_by_pointer"] = true
			case f.Embedded:
				tags["embedded_by_value"] = true
			case f.Class == "inline":
				tags["field_inline_struct"] = true
			case f.Class == "empty":
				tags["field_empty_struct"] = true
			}
			if !f.Embedded && token.IsExported(f.Name) && in.covered(t) {
				if tt := in.lookup(strings.TrimSuffix(f.Type, "[int]")); tt != nil {
					k := tt.Kind
					if tt.Generic {
						k = "generic_" + k
					}
					tags["field_by_value_of_local_"+k] = true
				}
			}
			if f.Foreign != "" {
				tags["embedded_foreign"] = true
			}
			if f.Embedded && len(raw(f.Doc)) > 0 {
				tags["embedded_with_doc"] = true
			}
		}
		for _, d := range docs {
			for _, l := range d {
				switch {
				case l.Tag:
					tags["doc_tag_line"] = true
				case l.Text == "":
					tags["doc_blank_line"] = true
				}
				if strings.ContainsAny(l.Text, "\"\\`") {
					tags["doc_quotes_backslashes"] = true
				}
				if !l.Tag && directiveLike(l.Text) {
					tags["doc_line_starts_like_a_directive"] = true
				}
				if strings.ContainsAny(l.Text, "%@") {
					tags["doc_percent_at"] = true
				}
				for _, r := range l.Text {
					if r >= 0x80 {
						tags["doc_unicode"] = true
						break
					}
				}
			}
		}
	}
	if in.KnownOnly {
		tags["known_only"] = true
	}
	if in.NoPkgTag {
		tags["package_not_tagged"] = true
	}
	if in.Grouped {
		tags["grouped_decl"] = true
	}
	for k := range tags {
		res.Tags = append(res.Tags, k)
	}
	sort.Strings(res.Tags)
	res.Tags = append(res.Tags, fmt.Sprintf("types=%d", min(len(in.Types), 10)))
}

// directiveLike: [a-z0-9]+:[a-z0-9] at the start of the line (go/ast's directive pattern)
func directiveLike(l string) bool {
	i := strings.IndexByte(l, ':')
	if i <= 0 || i+1 >= len(l) {
		return false
	}
	for k := 0; k <= i+1; k++ {
		if c := l[k]; k != i && !('a' <= c && c <= 'z' || '0' <= c && c <= '9') {
			return false
		}
	}
	return true
}

// Extra: no extra work; records that the thorough tier contains the small-scope enumeration of first doc lines.
func (prop) Extra(_ *core.RNG, tier string, _ string) ([]string, []string, map[string]any) {
	return nil, nil, map[string]any{"exhaustive": tier == "thorough",
		"exhaustive_scope": "every first doc line of <= 4 symbols over {name, 'A', 'b', blank, 'c', quote, double quote}, on a type and on a field"}
}
