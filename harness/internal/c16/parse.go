package c16

import (
	"fmt"
	"go/ast"
	"go/parser"
	"go/token"
	"strconv"
	"strings"
)

// abstractFile turns the generated file into the model's IR.  Any shape it does not know is an error
// (reported as EFail: the correspondence breaks rather than being guessed at).
func abstractFile(src []byte) ([]Item, error) {
	fset := token.NewFileSet()
	f, err := parser.ParseFile(fset, "zz.go", src, parser.ParseComments)
	if err != nil {
		return nil, err
	}
	embedVars := map[string]string{} // var name -> //go:embed path
	for _, d := range f.Decls {
		gd, ok := d.(*ast.GenDecl)
		if !ok || gd.Tok != token.VAR || gd.Doc == nil {
			continue
		}
		for _, c := range gd.Doc.List {
			if p, ok := strings.CutPrefix(c.Text, "//go:embed "); ok {
				for _, s := range gd.Specs {
					if vs, ok := s.(*ast.ValueSpec); ok && len(vs.Names) == 1 {
						embedVars[vs.Names[0].Name] = p
					}
				}
			}
		}
	}
	var items []Item
	for _, d := range f.Decls {
		fd, ok := d.(*ast.FuncDecl)
		if !ok {
			continue
		}
		if fd.Recv == nil {
			if fd.Name.Name == "runtimeDoc" {
				items = append(items, Item{Helper: true})
				continue
			}
			return nil, fmt.Errorf("unexpected func %s", fd.Name.Name)
		}
		if fd.Name.Name != "RuntimeDoc" || len(fd.Recv.List) != 1 {
			return nil, fmt.Errorf("unexpected method %s", fd.Name.Name)
		}
		it, err := abstractMethod(fd, embedVars)
		if err != nil {
			return nil, fmt.Errorf("%s: %w", fd.Name.Name, err)
		}
		items = append(items, it)
	}
	return items, nil
}

func recvName(e ast.Expr) (string, error) {
	st, ok := e.(*ast.StarExpr)
	if !ok {
		return "", fmt.Errorf("receiver is not a pointer")
	}
	switch x := st.X.(type) {
	case *ast.Ident:
		return x.Name, nil
	case *ast.IndexExpr:
		if id, ok := x.X.(*ast.Ident); ok {
			return id.Name, nil
		}
	case *ast.IndexListExpr:
		if id, ok := x.X.(*ast.Ident); ok {
			return id.Name, nil
		}
	}
	return "", fmt.Errorf("receiver type not understood")
}

func isIdent(e ast.Expr, name string) bool {
	id, ok := e.(*ast.Ident)
	return ok && id.Name == name
}

// len(names) > 0
func isLenNamesPositive(e ast.Expr) bool {
	b, ok := e.(*ast.BinaryExpr)
	if !ok || b.Op != token.GTR {
		return false
	}
	c, ok := b.X.(*ast.CallExpr)
	if !ok || !isIdent(c.Fun, "len") || len(c.Args) != 1 || !isIdent(c.Args[0], "names") {
		return false
	}
	l, ok := b.Y.(*ast.BasicLit)
	return ok && l.Value == "0"
}

func strLit(e ast.Expr) (string, bool) {
	l, ok := e.(*ast.BasicLit)
	if !ok || l.Kind != token.STRING {
		return "", false
	}
	s, err := strconv.Unquote(l.Value)
	return s, err == nil
}

// []string{...} (or nil)
func docLit(e ast.Expr, embedVars map[string]string) ([]DocEl, error) {
	if isIdent(e, "nil") {
		return nil, nil
	}
	cl, ok := e.(*ast.CompositeLit)
	if !ok {
		return nil, fmt.Errorf("doc is not a composite literal")
	}
	at, ok := cl.Type.(*ast.ArrayType)
	if !ok || at.Len != nil || !isIdent(at.Elt, "string") {
		return nil, fmt.Errorf("doc is not a []string literal")
	}
	var out []DocEl
	for _, el := range cl.Elts {
		if s, ok := strLit(el); ok {
			out = append(out, DocEl{Lit: s})
			continue
		}
		if id, ok := el.(*ast.Ident); ok {
			if p, ok := embedVars[id.Name]; ok {
				out = append(out, DocEl{IsEmb: true, Embed: p})
				continue
			}
		}
		return nil, fmt.Errorf("doc element not understood")
	}
	return out, nil
}

// return <doc>, true
func returnDocTrue(s ast.Stmt, embedVars map[string]string) ([]DocEl, error) {
	r, ok := s.(*ast.ReturnStmt)
	if !ok || len(r.Results) != 2 || !isIdent(r.Results[1], "true") {
		return nil, fmt.Errorf("expected `return doc, true`")
	}
	return docLit(r.Results[0], embedVars)
}

func isReturnNilFalse(s ast.Stmt) bool {
	r, ok := s.(*ast.ReturnStmt)
	return ok && len(r.Results) == 2 && isIdent(r.Results[0], "nil") && isIdent(r.Results[1], "false")
}

func lits(ds []DocEl) ([]string, error) {
	out := []string{}
	for _, d := range ds {
		if d.IsEmb {
			return nil, fmt.Errorf("embed variable where a literal is expected")
		}
		out = append(out, d.Lit)
	}
	return out, nil
}

func abstractMethod(fd *ast.FuncDecl, embedVars map[string]string) (Item, error) {
	var it Item
	tn, err := recvName(fd.Recv.List[0].Type)
	if err != nil {
		return it, err
	}
	it.Type = tn
	recv := ""
	if len(fd.Recv.List[0].Names) == 1 {
		recv = fd.Recv.List[0].Names[0].Name
	}
	body := fd.Body.List
	if len(body) == 0 {
		return it, fmt.Errorf("empty body")
	}
	last, err := returnDocTrue(body[len(body)-1], embedVars)
	if err != nil {
		return it, err
	}
	it.Doc = last
	if len(body) == 1 {
		it.Simple = true
		if _, err := lits(last); err != nil {
			return it, err
		}
		return it, nil
	}
	if len(body) != 2 {
		return it, fmt.Errorf("body has %d statements", len(body))
	}
	ifs, ok := body[0].(*ast.IfStmt)
	if !ok || ifs.Init != nil || ifs.Else != nil || !isLenNamesPositive(ifs.Cond) {
		return it, fmt.Errorf("expected `if len(names) > 0`")
	}
	inner := ifs.Body.List
	if len(inner) == 0 || !isReturnNilFalse(inner[len(inner)-1]) {
		return it, fmt.Errorf("expected `return nil, false` at the end of the names branch")
	}
	if len(inner) == 1 { // the repaired non-struct method
		it.Simple, it.Guard = true, true
		if _, err := lits(last); err != nil {
			return it, err
		}
		return it, nil
	}
	sw, ok := inner[0].(*ast.SwitchStmt)
	if !ok || sw.Init != nil {
		return it, fmt.Errorf("expected a switch")
	}
	if ix, ok := sw.Tag.(*ast.IndexExpr); !ok || !isIdent(ix.X, "names") {
		return it, fmt.Errorf("switch tag is not names[0]")
	} else if l, ok := ix.Index.(*ast.BasicLit); !ok || l.Value != "0" {
		return it, fmt.Errorf("switch tag is not names[0]")
	}
	for _, s := range sw.Body.List {
		cc, ok := s.(*ast.CaseClause)
		if !ok || len(cc.List) != 1 || len(cc.Body) != 1 {
			return it, fmt.Errorf("case clause not understood")
		}
		n, ok := strLit(cc.List[0])
		if !ok {
			return it, fmt.Errorf("case label is not a string literal")
		}
		ds, err := returnDocTrue(cc.Body[0], embedVars)
		if err != nil {
			return it, err
		}
		ls, err := lits(ds)
		if err != nil {
			return it, err
		}
		it.Cases = append(it.Cases, CaseIR{Name: n, Doc: ls})
	}
	for _, s := range inner[1 : len(inner)-1] {
		e, err := abstractDelegation(s, recv)
		if err != nil {
			return it, err
		}
		it.Embeds = append(it.Embeds, e)
	}
	return it, nil
}

// if doc, ok := runtimeDoc(&v.F | v.F, "prefix", names...); ok { return doc, ok }
func abstractDelegation(s ast.Stmt, recv string) (EmbedIR, error) {
	var e EmbedIR
	ifs, ok := s.(*ast.IfStmt)
	if !ok || ifs.Else != nil || !isIdent(ifs.Cond, "ok") {
		return e, fmt.Errorf("delegation: not an if")
	}
	as, ok := ifs.Init.(*ast.AssignStmt)
	if !ok || as.Tok != token.DEFINE || len(as.Lhs) != 2 || len(as.Rhs) != 1 || !isIdent(as.Lhs[0], "doc") || !isIdent(as.Lhs[1], "ok") {
		return e, fmt.Errorf("delegation: init not understood")
	}
	call, ok := as.Rhs[0].(*ast.CallExpr)
	if !ok || !isIdent(call.Fun, "runtimeDoc") || len(call.Args) != 3 || !call.Ellipsis.IsValid() || !isIdent(call.Args[2], "names") {
		return e, fmt.Errorf("delegation: call not understood")
	}
	arg := call.Args[0]
	if u, ok := arg.(*ast.UnaryExpr); ok && u.Op == token.AND {
		arg = u.X
	} else {
		e.Ptr = true
	}
	sel, ok := arg.(*ast.SelectorExpr)
	if !ok || recv == "" || !isIdent(sel.X, recv) {
		return e, fmt.Errorf("delegation: argument is not a field of the receiver")
	}
	e.Name = sel.Sel.Name
	p, ok := strLit(call.Args[1])
	if !ok {
		return e, fmt.Errorf("delegation: prefix is not a string literal")
	}
	e.Prefix = p
	if len(ifs.Body.List) != 1 {
		return e, fmt.Errorf("delegation: body not understood")
	}
	r, ok := ifs.Body.List[0].(*ast.ReturnStmt)
	if !ok || len(r.Results) != 2 || !isIdent(r.Results[0], "doc") || !isIdent(r.Results[1], "ok") {
		return e, fmt.Errorf("delegation: body not understood")
	}
	return e, nil
}
