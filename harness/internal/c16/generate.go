package c16

import (
	"encoding/json"
	"fmt"
	"go/token"
	"strings"

	"verifharness/internal/core"
)

// hostile doc tokens: quotes, backslashes, backquotes, '%', '@name', Unicode, template-looking text
var tokens = []string{
	"is", "the", "a", "value", "of", "returns", "pie", "doc.",
	`"quoted"`, `'single'`, "`bq`", `"`, "`", `\`, `\\`, `\n`, `\t`, `C:\dir\file`, `\"`, `"\`,
	"100%", "%v", "%T", "%s", "%%", "%", "%!d(string=x)", "50%off",
	"@name", "@doc", "@Type", "@cases", "@embeds", "a@b.c", "@", "@@", "@fieldName",
	"é", "世界", "😀", "ß", "İ", "naïve", "x\u00a0y", "\u2028", "e\u0301",
	"a\tb", "x=y", "//", "/*", "*/", "{{.}}", "${x}", "[[", "]]", "[[]]", "[x]", "#", "a+b", "+1", "go:x", "T's",
	"\x01", "\x7f", "<b>", "&amp;", "...", ",", ";", ":", "?", "!", "(", ")", "{", "}",
}

// colonWords: a first word of the form [a-z0-9]+:[a-z0-9]... — what go/ast calls a directive when it directly follows
// the slashes (//nolint:x).  Behind "// " it is ordinary documentation: times, ratios, URNs, key:value pairs.  ("go:" is
// the one prefix gengo filters, see isTagText.)  With near misses around the pattern.
var colonWords = []string{"10:30", "1:1", "0:00", "tz:utc", "urn:job:owner", "key:value", "nolint:unused", "lint:ignore", "a:b", "x:1", "3:4", "todo:later",
	"12:00:00", "v1:beta", "Note:x", "x:", "a-b:c", "é:x", "http://example.com/a", "golang:x", "1:A", "k:é"}

var tagLines = []string{
	"+gengo:runtimedoc", "+gengo:deepcopy=false", "+k8s:openapi-gen=true", "+optional", "@deprecated use something else",
	"+gengo:enum", "@name x", "+", "go:generate echo hi", "+gengo:runtimedoc:x=1", "+\"quoted\"=`v`",
}

func isTagText(s string) bool {
	return s != "" && (s[0] == '+' || s[0] == '@' || strings.HasPrefix(s, "go:"))
}

// one documentation line: non-empty, no leading/trailing blank, not a tag line, no [[x]] reference
func docText(r *core.RNG, name string, first bool) string {
	for {
		var parts []string
		if r.Chance(12) { // the line STARTS with a directive-looking word (also the first line: no name in front)
			parts = append(parts, core.Pick(r, colonWords))
			first = false
		}
		if first {
			switch k := r.Intn(20); {
			case k < 9:
				parts = append(parts, name) // "Name is ..."
			case k < 11:
				parts = append(parts, name+core.Pick(r, []string{"pple", "s", "ylophone", "_x", "1", "é", "'s", ":", ".", ","})) // name without a word boundary
			case k < 12:
				return name // the name alone
			case k < 13:
				parts = append(parts, strings.ToLower(name))
			case k < 15: // the name twice: removing the leading name must happen exactly once ("Status Status of the run")
				parts = append(parts, name, name)
				if r.Chance(30) {
					return name + " " + name
				}
			}
		}
		n := 1 + r.Intn(4)
		for i := 0; i < n; i++ {
			if r.Chance(55) {
				parts = append(parts, tokens[r.Intn(8)])
			} else {
				parts = append(parts, core.Pick(r, tokens))
			}
		}
		s := strings.Join(parts, " ")
		if r.Chance(5) {
			s = strings.Join(parts, "  ")
		}
		s = strings.TrimSpace(s)
		if s == "" || isTagText(s) || s != strings.TrimSpace(s) {
			continue
		}
		if i := strings.Index(s, "[["); i >= 0 && strings.Contains(s[i:], "]]") {
			continue
		}
		return s
	}
}

// a doc comment: documentation lines with tag lines before / between / after; blank lines only
// after a documentation line and never last
func docComment(r *core.RNG, name string) []DocLine {
	var out []DocLine
	tag := func() {
		out = append(out, DocLine{Text: core.Pick(r, tagLines), Tag: true})
	}
	switch r.Intn(10) {
	case 0:
		return nil
	case 1: // tags only
		tag()
		return out
	}
	if r.Chance(15) {
		tag()
	}
	n := 1 + r.Intn(3)
	for i := 0; i < n; i++ {
		out = append(out, DocLine{Text: docText(r, name, i == 0)})
		if i+1 < n && r.Chance(25) {
			out = append(out, DocLine{Text: ""})
		}
		if i+1 < n && r.Chance(15) {
			tag()
		}
	}
	if r.Chance(30) {
		if r.Chance(40) {
			out = append(out, DocLine{Text: ""})
		}
		tag()
	}
	return out
}

var otherUnders = []string{"string", "int", "float64", "bool", "[]string", "map[string]int", "func(int) string", "chan int", "[4]byte", "uint8"}
var ordinaryTypes = []string{"int", "string", "[]byte", "map[string]string", "*int", "func()", "any", "error", "[]int", "bool"}

type genCtx struct {
	r  *core.RNG
	in *Input
}

func typeNames(n int, r *core.RNG) []string {
	pool := []string{"A", "Apple", "B", "Obj", "Sub", "Item", "Spec", "Status", "Meta", "X", "Name", "Kind", "List", "Node", "Opt", "Ärger", "T", "Value"}
	lower := []string{"inner", "base", "impl", "hidden", "opts", "core"}
	seen := map[string]bool{}
	var out []string
	for len(out) < n {
		var s string
		if r.Chance(22) {
			s = core.Pick(r, lower)
		} else {
			s = core.Pick(r, pool)
		}
		if !seen[s] {
			seen[s] = true
			out = append(out, s)
		}
	}
	return out
}

var fieldPool = []string{"X", "Name", "ID", "Value", "Xylophone", "Age", "Items", "Spec", "Y", "Zed", "Kind", "Deep", "W", "Label", "Über"}
var lowerFieldPool = []string{"x", "name", "mu", "cache", "_"}

var overNames = []string{"Spawn", "Third", "Remote", "Cookie", "Peer"}

// genOthers: package q of the same module: one or two plain structs with documented ordinary fields
func genOthers(r *core.RNG) []Type {
	var out []Type
	for _, nm := range []string{"Attr", "Version"}[:1+r.Intn(2)] {
		t := Type{Name: nm, Kind: "struct", Doc: docComment(r, nm)}
		used := map[string]bool{}
		for k := 1 + r.Intn(4); k > 0; k-- {
			fn := core.Pick(r, fieldPool)
			if r.Chance(15) {
				fn = core.Pick(r, lowerFieldPool[:4])
			}
			if used[fn] {
				continue
			}
			used[fn] = true
			t.Fields = append(t.Fields, Field{Name: fn, Class: "ordinary", Type: core.Pick(r, ordinaryTypes), Doc: docComment(r, fn)})
		}
		if !hasExpose(&t) {
			t.Fields = append(t.Fields, Field{Name: "Path", Class: "ordinary", Type: "string", Doc: docComment(r, "Path")})
		}
		out = append(out, t)
	}
	return out
}

func genPackage(r *core.RNG, heavy bool) Input {
	var in Input
	n := 3 + r.Intn(6)
	names := typeNames(n, r)
	// every third package or so: one to three defined types over a struct of ANOTHER package - of the standard
	// library (no module: its comments are indexed all the same) or of package q of the same module
	var overs []string
	if r.Chance(35) {
		pool := stdOvers
		if heavy {
			pool = append(append([]string{}, stdOvers...), stdOversThorough...)
		}
		for k := 1 + r.Intn(3); k > 0; k-- {
			if r.Chance(35) {
				if in.Others == nil {
					in.Others = genOthers(r)
				}
				overs = append(overs, otherPkg+"."+core.Pick(r, in.Others).Name)
			} else {
				overs = append(overs, core.Pick(r, pool))
			}
		}
	}
	for k := range overs {
		names = append(names, overNames[k])
	}
	n = len(names)
	in.Types = make([]Type, n)
	// kinds first (embedding needs to know the targets)
	for i, nm := range names {
		t := &in.Types[i]
		t.Name = nm
		if k := i - (n - len(overs)); k >= 0 {
			t.Kind, t.Over = "struct", overs[k]
			if r.Chance(8) {
				t.Disabled = true
			}
			continue
		}
		switch k := r.Intn(10); {
		case k < 6:
			t.Kind = "struct"
			t.Generic = r.Chance(12)
		case k < 9:
			t.Kind = "other"
			if r.Chance(15) {
				t.Generic = true
				t.Under = core.Pick(r, []string{"map[P0]int", "[]P0", "func(P0) string"})
			} else {
				t.Under = core.Pick(r, otherUnders)
			}
		default:
			t.Kind = "iface"
			t.Under = core.Pick(r, []string{"interface{ M() }", "interface{}", "interface{ String() string }"})
		}
		if token.IsExported(nm) && r.Chance(8) {
			t.Disabled = true
		}
	}
	_ = fillOvers(&in, defaultGoroot())
	hasEmptyNamed := -1
	if r.Chance(40) {
		for i := range in.Types {
			if in.Types[i].Kind == "struct" && !in.Types[i].Generic && in.Types[i].Over == "" {
				hasEmptyNamed = i // this struct stays without fields
				break
			}
		}
	}
	// fields, from the last type to the first so that by-value references point to finished types
	for i := n - 1; i >= 0; i-- {
		t := &in.Types[i]
		if t.Kind != "struct" || i == hasEmptyNamed || t.Over != "" {
			continue
		}
		used := map[string]bool{}
		nf := r.Intn(5)
		if r.Chance(80) && nf == 0 {
			nf = 1
		}
		allowEmbeds := token.IsExported(t.Name) && !t.Disabled
		for k := 0; k < nf; k++ {
			var f Field
			if r.Chance(4) && !used["Mutex"] && !used["Range16"] {
				// an embedded type of another package
				f = Field{Embedded: true, Ptr: r.Chance(30), Foreign: core.Pick(r, []string{"sync.Mutex", "unicode.Range16"})}
				f.Name = strings.SplitN(f.Foreign, ".", 2)[1]
			} else if allowEmbeds && r.Chance(35) {
				// an embedded field
				j := r.Intn(n)
				tt := &in.Types[j]
				ptr := r.Chance(35)
				if tt.Kind == "iface" {
					ptr = false
				}
				if !ptr && j <= i { // by value only towards later types: no recursive types
					continue
				}
				if ptr && j <= i && !r.Chance(10) { // embedded pointer cycles: rare
					continue
				}
				if used[tt.Name] {
					continue
				}
				f = Field{Name: tt.Name, Embedded: true, Ptr: ptr, Generic: tt.Generic}
			} else {
				nm := core.Pick(r, fieldPool)
				if r.Chance(18) {
					nm = core.Pick(r, lowerFieldPool)
				}
				if used[nm] && nm != "_" {
					continue
				}
				f = Field{Name: nm, Class: "ordinary"}
				switch c := r.Intn(20); {
				case c < 2:
					f.Class, f.Type = "inline", core.Pick(r, []string{"struct{ Q int }", "struct{}", "struct{ a, B string }"})
				case c < 4 && hasEmptyNamed > i:
					f.Class, f.Type = "empty", in.Types[hasEmptyNamed].Name
				case c < 5 && hasEmptyNamed >= 0:
					f.Type = "*" + in.Types[hasEmptyNamed].Name
				case c < 11:
					// a named type of the package — interface, generic instance, defined scalar/map/func, struct (exported,
					// unexported, disabled): by value (structs: later types only, no recursive types) or behind a pointer / slice
					j := r.Intn(n)
					tt := &in.Types[j]
					ref := tt.Name
					if tt.Generic {
						ref += "[int]"
					}
					switch {
					case j == hasEmptyNamed:
						f.Type = "[]" + ref
					case j > i && r.Chance(60):
						f.Type = ref
					case tt.Kind == "iface":
						f.Type = ref
					case tt.Kind == "other" && r.Chance(70):
						f.Type = ref
					default:
						f.Type = core.Pick(r, []string{"*", "[]", "map[string]"}) + ref
					}
				default:
					f.Type = core.Pick(r, ordinaryTypes)
				}
			}
			used[f.Name] = true
			f.Doc = docComment(r, f.Name)
			t.Fields = append(t.Fields, f)
		}
	}
	for i := range in.Types {
		t := &in.Types[i]
		t.Doc = docComment(r, t.Name)
		if t.Disabled {
			t.Doc = append(t.Doc, DocLine{Text: "+gengo:runtimedoc=false", Tag: true})
		}
	}
	in.Grouped = r.Chance(12)
	if r.Chance(8) {
		in.NoPkgTag = true
		// untagged package: make sure some type switches the generator on for itself
		t := &in.Types[r.Intn(n)]
		t.Doc = append(t.Doc, DocLine{Text: core.Pick(r, []string{"+gengo:runtimedoc", "+gengo:runtimedoc:x=1", "+gengo:runtimedoc=true"}), Tag: true})
	}
	sanitize(&in)
	return in
}

// hasRD: the pointer type has a RuntimeDoc method of its own or promoted from an embedded field
func (in *Input) hasRD(tn string, depth int) bool {
	t := in.lookup(tn)
	if t == nil || depth > 8 {
		return false
	}
	if in.covered(t) {
		return true
	}
	for _, f := range t.Fields {
		if f.Embedded && in.hasRD(f.Name, depth+1) {
			return true
		}
	}
	return false
}

// sanitize keeps the package inside the modelled domain: a type WITHOUT a generated method must not
// get one by Go's method promotion (the model's "method set" is the set of generated methods).
func sanitize(in *Input) {
	defer normalize(in)
	for changed := true; changed; {
		changed = false
		for i := range in.Types {
			t := &in.Types[i]
			if t.Kind != "struct" || in.covered(t) {
				continue
			}
			var keep []Field
			for _, f := range t.Fields {
				if f.Embedded && in.hasRD(f.Name, 0) {
					changed = true
					continue
				}
				keep = append(keep, f)
			}
			t.Fields = keep
		}
	}
}

func (in *Input) hasClassReceiver() bool {
	for i := range in.Types {
		tn := in.Types[i].Name
		if in.nilChain(tn, in.value(tn, false, nil)) || in.nilChain(tn, in.value(tn, true, nil)) || in.nilChain(tn, RV{Nil: true}) {
			return true
		}
	}
	return false
}

func doc(lines ...string) []DocLine {
	var out []DocLine
	for _, l := range lines {
		out = append(out, DocLine{Text: l, Tag: isTagText(l)})
	}
	return out
}

func fixedCases() []Input {
	return []Input{
		{Types: []Type{ // DESIGN section 4 #28
			{Name: "A", Kind: "struct", Doc: doc("Apple pie"), Fields: []Field{{Name: "X", Class: "ordinary", Type: "int", Doc: doc("Xylophone")}}},
		}},
		{Types: []Type{ // a non-struct type asked for a name; embedded before a struct that knows the name
			{Name: "Name", Kind: "other", Under: "string", Doc: doc("Name is a name.")},
			{Name: "S", Kind: "struct", Doc: doc("S holds", "two things"), Fields: []Field{
				{Name: "Name", Embedded: true, Doc: doc("Name of it")},
				{Name: "Other", Embedded: true},
				{Name: "X", Class: "ordinary", Type: "int", Doc: doc("X is `x` \"x\" 100% @name \\n")}}},
			{Name: "Other", Kind: "struct", Fields: []Field{{Name: "Y", Class: "ordinary", Type: "string", Doc: doc("Y", "", "second paragraph", "+gengo:tag")}}},
		}},
		{Types: []Type{ // delegation chain, prefix patching, by pointer
			{Name: "A", Kind: "struct", Doc: doc("A is the root"), Fields: []Field{
				{Name: "B", Embedded: true, Ptr: true, Doc: doc("B prefix: ")},
				{Name: "I", Embedded: true},
				{Name: "inner", Embedded: true},
				{Name: "Top", Class: "ordinary", Type: "int", Doc: doc("Top of the pops")}}},
			{Name: "B", Kind: "struct", Doc: doc("B is", "+gengo:foo"), Fields: []Field{
				{Name: "W", Class: "ordinary", Type: "int", Doc: doc("W doc")},
				{Name: "E", Class: "empty", Type: "Empty"},
				{Name: "In", Class: "inline", Type: "struct{ Q int }", Doc: doc("In is inline")}}},
			{Name: "Empty", Kind: "struct"},
			{Name: "I", Kind: "iface", Under: "interface{ M() }", Doc: doc("I is an interface")},
			{Name: "inner", Kind: "struct", Fields: []Field{{Name: "Q", Class: "ordinary", Type: "int", Doc: doc("Q is hidden")}}},
		}},
		{Types: []Type{ // generics, map, func, disabled type, unexported struct
			{Name: "List", Kind: "struct", Generic: true, Doc: doc("List is generic"), Fields: []Field{{Name: "Items", Class: "ordinary", Type: "[]P0", Doc: doc("Items of the list")}}},
			{Name: "M", Kind: "other", Generic: true, Under: "map[P0]int", Doc: doc("M is a generic map")},
			{Name: "Fn", Kind: "other", Under: "func(int) string", Doc: doc("Fn", "is a func")},
			{Name: "Off", Kind: "struct", Disabled: true, Doc: doc("Off is switched off", "+gengo:runtimedoc=false"), Fields: []Field{{Name: "X", Class: "ordinary", Type: "int"}}},
			{Name: "Holder", Kind: "struct", Doc: doc("+gengo:runtimedoc", "Holder embeds an instance"), Fields: []Field{
				{Name: "List", Embedded: true, Generic: true, Doc: doc("List")},
				{Name: "Off", Embedded: true, Ptr: true}}},
			{Name: "NoExp", Kind: "struct", Doc: doc("NoExp has nothing to show"), Fields: []Field{{Name: "a", Class: "ordinary", Type: "int"}}},
		}},
		{Types: []Type{ // [[path]] feature
			{Name: "Obj", Kind: "struct", Doc: doc("Obj some object", "[[doc/b.md]]"), Fields: []Field{{Name: "Name", Class: "ordinary", Type: "string", Doc: doc("Name [[doc/b.md]]")}}},
		}, Files: map[string]string{"doc/b.md": "# b\n\"file\" content"}},
		{Types: []Type{ // NON-embedded fields typed by same-package named types of every kind, by value: none of them adds a method
			{Name: "Job", Kind: "struct", Doc: doc("Job is covered"), Fields: []Field{
				{Name: "Store", Class: "ordinary", Type: "Store", Doc: doc("Store is an interface of the package")},
				{Name: "Box", Class: "ordinary", Type: "Box[int]", Doc: doc("Box is an instance of a generic struct")},
				{Name: "Index", Class: "ordinary", Type: "Index[int]", Doc: doc("Index is an instance of a generic map")},
				{Name: "Level", Class: "ordinary", Type: "Level", Doc: doc("Level is a defined int")},
				{Name: "Opts", Class: "ordinary", Type: "opts", Doc: doc("Opts is an unexported struct")},
				{Name: "Off", Class: "ordinary", Type: "Off", Doc: doc("Off is switched off")},
				{Name: "Plain", Class: "ordinary", Type: "Plain", Doc: doc("Plain is a covered struct")},
				{Name: "hidden", Class: "ordinary", Type: "Box[int]"}}},
			{Name: "Store", Kind: "iface", Under: "interface{ Get() string }", Doc: doc("Store stores")},
			{Name: "Box", Kind: "struct", Generic: true, Doc: doc("Box boxes"), Fields: []Field{{Name: "V", Class: "ordinary", Type: "P0", Doc: doc("V is the value")}}},
			{Name: "Index", Kind: "other", Generic: true, Under: "map[P0]int", Doc: doc("Index indexes")},
			{Name: "Level", Kind: "other", Under: "int", Doc: doc("Level of it")},
			{Name: "opts", Kind: "struct", Fields: []Field{{Name: "X", Class: "ordinary", Type: "int", Doc: doc("X of opts")}}},
			{Name: "Off", Kind: "struct", Disabled: true, Doc: doc("Off", "+gengo:runtimedoc=false"), Fields: []Field{{Name: "Y", Class: "ordinary", Type: "int"}}},
			{Name: "Plain", Kind: "struct", Fields: []Field{{Name: "Z", Class: "ordinary", Type: "Store", Doc: doc("Z again an interface")}}},
		}},
		{Types: []Type{ // doc lines that start with a directive-looking word are ordinary text (only go: is filtered)
			{Name: "Schedule", Kind: "struct", Doc: doc("Schedule describes when the job runs.", "10:30 is the default start time,", "tz:utc unless the owner says otherwise.", "+gengo:x=1"), Fields: []Field{
				{Name: "Cron", Class: "ordinary", Type: "string", Doc: doc("Cron expression,", "0:00 every day.")},
				{Name: "Owner", Class: "ordinary", Type: "string", Doc: doc("urn:job:owner of the job")},
				{Name: "Ratio", Embedded: true, Doc: doc("key:value")}}},
			{Name: "Ratio", Kind: "other", Under: "float64", Doc: doc("1:1 means equal parts.", "", "nolint:unused is text here, not a directive")},
		}},
		{Types: []Type{ // defined types over structs declared in another package: the standard library (os, go/token), package q
			// of the same module (`type Third module.Version` in testdata/a/b is of this shape); f's doc lines are those of
			// the field's declaration.  Seeded change C16-f: no comment index for packages without a module
			{Name: "Spawn", Kind: "struct", Over: "os.ProcAttr", Doc: doc("Spawn describes how to start the worker.")},
			{Name: "Pos", Kind: "struct", Over: "token.Position", Doc: doc("Pos is where it happened")},
			{Name: "Third", Kind: "struct", Over: "q.Attr", Doc: doc("Third", "+gengo:x=1")},
			{Name: "Job", Kind: "struct", Doc: doc("Job embeds two of them"), Fields: []Field{
				{Name: "Spawn", Embedded: true, Doc: doc("Spawn of the job:")},
				{Name: "Third", Embedded: true, Ptr: true},
				{Name: "ID", Class: "ordinary", Type: "int", Doc: doc("ID of the job")}}},
		}, Others: []Type{
			{Name: "Attr", Kind: "struct", Doc: doc("Attr of q"), Fields: []Field{
				{Name: "Path", Class: "ordinary", Type: "string", Doc: doc("Path is `p` \"p\" 100% @name", "+optional", "second line")},
				{Name: "Version", Class: "ordinary", Type: "string", Doc: doc("Version Version twice")},
				{Name: "hidden", Class: "ordinary", Type: "int", Doc: doc("hidden is not listed")},
				{Name: "Plain", Class: "ordinary", Type: "[]byte"}}},
		}},
		{KnownOnly: true, Types: []Type{ // the known finding: promoted field behind a nil embedded pointer
			{Name: "A", Kind: "struct", Fields: []Field{{Name: "B", Embedded: true, Ptr: true}}},
			{Name: "B", Kind: "struct", Fields: []Field{{Name: "C", Embedded: true}}},
			{Name: "C", Kind: "struct", Fields: []Field{{Name: "X", Class: "ordinary", Type: "int", Doc: doc("X marks the spot")}}},
		}},
	}
}

func (prop) Generate(r *core.RNG, tier string) []json.RawMessage {
	n := 24
	if tier == "thorough" {
		n = 400
	}
	var out []json.RawMessage
	add := func(in Input) {
		b, _ := json.Marshal(in)
		out = append(out, b)
	}
	for _, in := range fixedCases() {
		add(in)
	}
	for i := 0; i < n; i++ {
		in := genPackage(r.Fork(), tier == "thorough")
		add(in)
		if in.hasClassReceiver() && (tier == "thorough" || i%3 == 0) {
			in.KnownOnly = true
			add(in)
			in.KnownOnly = false
		}
		if i%12 == 5 { // malformed stream: the same package with a syntax error
			in.Broken = true
			add(in)
		}
	}
	if tier == "thorough" {
		for _, in := range smallScope() {
			add(in)
		}
	}
	return out
}

// smallScope: every first doc line over a small alphabet relative to the name "Ab", on a type and on a field
func smallScope() []Input {
	syms := []string{"Ab", "A", "b", " ", "c", "'", "\""}
	var lines []string
	var rec func(prefix string, d int)
	rec = func(prefix string, d int) {
		if prefix != "" && strings.TrimSpace(prefix) == prefix && !strings.Contains(prefix, "  ") {
			lines = append(lines, prefix)
		}
		if d == 4 {
			return
		}
		for _, s := range syms {
			rec(prefix+s, d+1)
		}
	}
	rec("", 0)
	seen := map[string]bool{}
	var uniq []string
	for _, l := range lines {
		if !seen[l] {
			seen[l] = true
			uniq = append(uniq, l)
		}
	}
	var out []Input
	const per = 40
	for i := 0; i < len(uniq); i += per {
		var in Input
		for k, l := range uniq[i:min(i+per, len(uniq))] {
			in.Types = append(in.Types, Type{Name: fmt.Sprintf("Ab%d", k), Kind: "struct", Doc: doc(strings.ReplaceAll(l, "Ab", fmt.Sprintf("Ab%d", k)), "tail"),
				Fields: []Field{{Name: "Ab", Class: "ordinary", Type: "int", Doc: doc(l)}}})
		}
		out = append(out, in)
	}
	return out
}

// ---- shrinking ----

func (prop) Shrink(rawIn json.RawMessage) []json.RawMessage {
	var in Input
	if json.Unmarshal(rawIn, &in) != nil {
		return nil
	}
	var out []json.RawMessage
	// candidates are compared in normal form (the Fields of a type defined over a foreign struct are derived data:
	// a candidate that only edits them is the input again and must not be offered - Shrink is strictly decreasing)
	self := func() string {
		var c Input
		b, _ := json.Marshal(in)
		_ = json.Unmarshal(b, &c)
		sanitize(&c)
		b, _ = json.Marshal(c)
		return string(b)
	}()
	emit := func(c Input) {
		sanitize(&c)
		b, _ := json.Marshal(c)
		if string(b) != self {
			out = append(out, b)
		}
	}
	clone := func() Input {
		var c Input
		b, _ := json.Marshal(in)
		_ = json.Unmarshal(b, &c)
		return c
	}
	referenced := func(c *Input, name string) bool {
		for i := range c.Types {
			for _, f := range c.Types[i].Fields {
				if f.Embedded && f.Name == name {
					return true
				}
				if !f.Embedded && strings.Contains(f.Type, name) {
					return true
				}
			}
		}
		return false
	}
	// a single type that refers to no other type of the package (big step first: the rounds are expensive)
	if len(in.Types) > 1 {
		for i := range in.Types {
			alone := true
			for _, f := range in.Types[i].Fields {
				if in.Types[i].Over != "" {
					break
				}
				if f.Embedded && f.Foreign == "" {
					alone = false
				}
				for j := range in.Types {
					if !f.Embedded && strings.Contains(f.Type, in.Types[j].Name) {
						alone = false
					}
				}
			}
			if alone {
				c := clone()
				c.Types = []Type{c.Types[i]}
				emit(c)
			}
		}
	}
	// drop a type nobody refers to
	for i := range in.Types {
		c := clone()
		name := c.Types[i].Name
		c.Types = append(c.Types[:i], c.Types[i+1:]...)
		if !referenced(&c, name) {
			emit(c)
		}
	}
	// drop a field
	for i := range in.Types {
		if in.Types[i].Over != "" {
			continue
		}
		for k := range in.Types[i].Fields {
			c := clone()
			c.Types[i].Fields = append(c.Types[i].Fields[:k], c.Types[i].Fields[k+1:]...)
			emit(c)
		}
	}
	// simplify docs: drop the whole doc, drop one line (never leaving a blank first/last or doubled blank)
	okDoc := func(d []DocLine) bool {
		for i, l := range d {
			if l.Text == "" && (i == 0 || i == len(d)-1 || d[i-1].Text == "" || d[i-1].Tag) {
				return false
			}
		}
		return true
	}
	shrinkDoc := func(get func(c *Input) *[]DocLine) {
		d := *get(&in)
		if len(d) == 0 {
			return
		}
		keepTags := func(d []DocLine) []DocLine {
			var o []DocLine
			for _, l := range d {
				if l.Tag && strings.HasPrefix(l.Text, "+gengo:runtimedoc") {
					o = append(o, l)
				}
			}
			return o
		}
		c := clone()
		*get(&c) = keepTags(d)
		emit(c)
		for i := range d {
			if d[i].Tag && strings.HasPrefix(d[i].Text, "+gengo:runtimedoc") {
				continue
			}
			c := clone()
			nd := append(append([]DocLine{}, d[:i]...), d[i+1:]...)
			if okDoc(nd) {
				*get(&c) = nd
				emit(c)
			}
		}
		// shorten a line: keep its first word / its first half
		for i := range d {
			if d[i].Tag || len(d[i].Text) < 2 {
				continue
			}
			for _, s := range []string{strings.SplitN(d[i].Text, " ", 2)[0], d[i].Text[:len(d[i].Text)/2]} {
				s = strings.ToValidUTF8(strings.TrimSpace(s), "")
				if s == "" || s == d[i].Text || isTagText(s) {
					continue
				}
				c := clone()
				(*get(&c))[i].Text = s
				emit(c)
			}
		}
	}
	for i := range in.Types {
		i := i
		shrinkDoc(func(c *Input) *[]DocLine { return &c.Types[i].Doc })
		if in.Types[i].Over != "" {
			continue
		}
		for k := range in.Types[i].Fields {
			k := k
			shrinkDoc(func(c *Input) *[]DocLine { return &c.Types[i].Fields[k].Doc })
		}
	}
	if in.Grouped {
		c := clone()
		c.Grouped = false
		emit(c)
	}
	// package q: drop a struct no type of p is defined over, drop a field, drop a doc
	for i := range in.Others {
		used := false
		for _, t := range in.Types {
			if t.Over == otherPkg+"."+in.Others[i].Name {
				used = true
			}
		}
		if !used {
			c := clone()
			c.Others = append(c.Others[:i], c.Others[i+1:]...)
			emit(c)
		}
		for k := range in.Others[i].Fields {
			if len(in.Others[i].Fields) > 1 {
				c := clone()
				c.Others[i].Fields = append(c.Others[i].Fields[:k], c.Others[i].Fields[k+1:]...)
				emit(c)
			}
			if len(in.Others[i].Fields[k].Doc) > 0 {
				c := clone()
				c.Others[i].Fields[k].Doc = nil
				emit(c)
			}
		}
		if len(in.Others[i].Doc) > 0 {
			c := clone()
			c.Others[i].Doc = nil
			emit(c)
		}
	}
	return out
}
