package c16

// Defined types over a struct type that is declared in ANOTHER package:
//
//	type Spawn os.ProcAttr      (standard library: the package has no module)
//	type Third q.Attr           (package example.com/m/q of the same module, generated next to p)
//
// Such a type is covered (a struct with exported fields); its fields are the fields of the foreign struct, and
// "f's doc lines" are the lines of the comment above the field where the field is DECLARED.  The harness reads
// them itself: from $GOROOT/src with go/parser (the GOROOT of the go command that serves the scratch module, so
// the wording of the release does not matter), or from the package q it printed.  The Fields of such a type are
// derived data: normalize / fillOvers overwrite them.

import (
	"bytes"
	"fmt"
	"go/ast"
	"go/build"
	"go/parser"
	"go/token"
	"os"
	"os/exec"
	"path/filepath"
	"strings"
	"sync"
)

const otherPkg = "q" // example.com/m/q

// stdOvers: structs of the standard library without embedded fields, without fields of anonymous or empty struct
// type and without names on continuation lines; doc comments above the fields (os.ProcAttr, exec.Cmd, tar.Header,
// http.Cookie, net.Dialer), trailing comments only (token.Position, io.LimitedReader, flag.Flag), both (url.URL),
// none (unicode.RangeTable: one trailing comment).
var stdOvers = []string{"os.ProcAttr", "token.Position", "io.LimitedReader", "unicode.RangeTable", "url.URL", "exec.Cmd", "flag.Flag"}

// heavier imports: thorough tier only
var stdOversThorough = []string{"http.Cookie", "net.Dialer", "tar.Header"}

var stdImportPath = map[string]string{
	"os": "os", "token": "go/token", "io": "io", "unicode": "unicode", "url": "net/url", "exec": "os/exec", "flag": "flag",
	"http": "net/http", "net": "net", "tar": "archive/tar",
}

func overImport(over string) (path string, std bool) {
	pk := strings.SplitN(over, ".", 2)[0]
	if pk == otherPkg {
		return "example.com/m/" + otherPkg, false
	}
	return stdImportPath[pk], true
}

// ---- the go root that serves a directory ----

var gorootCache sync.Map // dir -> string

func gorootOf(dir string) string {
	if v, ok := gorootCache.Load(dir); ok {
		return v.(string)
	}
	cmd := exec.Command("go", "env", "GOROOT")
	cmd.Dir = dir
	cmd.Env = append(os.Environ(), "GOFLAGS=-mod=mod", "GOPROXY=off", "GOWORK=off")
	var out bytes.Buffer
	cmd.Stdout = &out
	_ = cmd.Run()
	root := strings.TrimSpace(out.String())
	gorootCache.Store(dir, root)
	return root
}

var defaultGoroot = sync.OnceValue(func() string {
	// outside every module: the go command found on PATH, which is the one that serves the scratch modules
	// (their go.mod asks for go 1.23)
	return gorootOf(os.TempDir())
})

// ---- fields of a struct of the standard library ----

type stdKey struct{ goroot, over string }

type stdVal struct {
	fields []Field
	err    error
}

var stdCache sync.Map

// docLinesOf: the harness' reading of "the lines of a comment group": the text without comment markers, outer
// blank lines dropped; a line is a tag line if it starts (blanks aside) with '+' or '@', or with go:
func docLinesOf(cg *ast.CommentGroup) []DocLine {
	if cg == nil {
		return nil
	}
	text := strings.TrimSpace(cg.Text())
	if text == "" {
		return nil
	}
	var out []DocLine
	for _, l := range strings.Split(text, "\n") {
		goLine := strings.HasPrefix(l, "go:")
		l = strings.Trim(l, " ")
		out = append(out, DocLine{Text: l, Tag: goLine || isTagText(l)})
	}
	return out
}

func stdFields(goroot, over string) ([]Field, error) {
	k := stdKey{goroot, over}
	if v, ok := stdCache.Load(k); ok {
		return v.(stdVal).fields, v.(stdVal).err
	}
	fs, err := parseStdFields(goroot, over)
	stdCache.Store(k, stdVal{fs, err})
	return fs, err
}

func parseStdFields(goroot, over string) ([]Field, error) {
	parts := strings.SplitN(over, ".", 2)
	imp, ok := stdImportPath[parts[0]]
	if !ok || len(parts) != 2 {
		return nil, fmt.Errorf("unknown foreign struct %q", over)
	}
	if goroot == "" {
		return nil, fmt.Errorf("no GOROOT")
	}
	dir := filepath.Join(goroot, "src", filepath.FromSlash(imp))
	ctx := build.Default
	ctx.GOROOT = goroot
	bp, err := ctx.ImportDir(dir, 0)
	if err != nil {
		return nil, fmt.Errorf("%s: %v", dir, err)
	}
	fset := token.NewFileSet()
	for _, name := range bp.GoFiles {
		f, err := parser.ParseFile(fset, filepath.Join(dir, name), nil, parser.ParseComments)
		if err != nil {
			return nil, err
		}
		for _, d := range f.Decls {
			gd, ok := d.(*ast.GenDecl)
			if !ok || gd.Tok != token.TYPE {
				continue
			}
			for _, sp := range gd.Specs {
				ts := sp.(*ast.TypeSpec)
				st, ok := ts.Type.(*ast.StructType)
				if !ok || ts.Name.Name != parts[1] || ts.TypeParams != nil {
					continue
				}
				var out []Field
				for _, af := range st.Fields.List {
					if len(af.Names) == 0 {
						return nil, fmt.Errorf("%s has an embedded field: outside the family", over)
					}
					line := fset.Position(af.Names[0].Pos()).Line
					for _, id := range af.Names {
						if fset.Position(id.Pos()).Line != line {
							return nil, fmt.Errorf("%s has names on a continuation line: outside the family", over)
						}
						fl := Field{Name: id.Name, Class: "ordinary", Type: "<foreign>", Doc: docLinesOf(af.Doc)}
						if _, inline := af.Type.(*ast.StructType); inline {
							fl.Class, fl.Type = "inline", "struct{<foreign>}"
						}
						out = append(out, fl)
					}
				}
				return out, nil
			}
		}
	}
	return nil, fmt.Errorf("struct %s not found in %s", over, dir)
}

// fillOvers sets Kind and Fields of every defined type over a foreign struct.
func fillOvers(in *Input, goroot string) error {
	var first error
	for i := range in.Types {
		t := &in.Types[i]
		if t.Over == "" {
			continue
		}
		t.Kind, t.Generic, t.Under = "struct", false, ""
		t.Fields = nil
		pk, name, _ := strings.Cut(t.Over, ".")
		if pk == otherPkg {
			for k := range in.Others {
				if in.Others[k].Name == name {
					for _, f := range in.Others[k].Fields {
						f.Embedded, f.Ptr, f.Foreign, f.Generic = false, false, "", false
						t.Fields = append(t.Fields, f)
					}
				}
			}
			continue
		}
		fs, err := stdFields(goroot, t.Over)
		if err != nil && first == nil {
			first = err
		}
		for _, f := range fs {
			f.Doc = append([]DocLine{}, f.Doc...)
			t.Fields = append(t.Fields, f)
		}
	}
	return first
}

// otherSource: package q as the harness prints it (plain structs with ordinary fields)
func otherSource(in *Input) string {
	var b strings.Builder
	b.WriteString("// Package q is imported by p.\npackage " + otherPkg + "\n\n")
	for i := range in.Others {
		t := &in.Others[i]
		writeDoc(&b, "", t.Doc)
		fmt.Fprintf(&b, "type %s struct {\n", t.Name)
		for k, f := range t.Fields {
			if k > 0 {
				b.WriteString("\n")
			}
			writeDoc(&b, "\t", f.Doc)
			fmt.Fprintf(&b, "\t%s %s\n", f.Name, f.Type)
		}
		b.WriteString("}\n\n")
	}
	return b.String()
}
