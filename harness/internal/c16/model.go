// Package c16: the runtimedoc generator, end to end.
//
// One input = one abstract package (types, fields, doc comments).  Run writes it as Go source into a
// scratch module, runs the REAL gengo Execute with the REAL runtimedoc generator in a supervised child,
// abstracts the generated file to the model's IR (go/parser), compiles the package together with a
// probe program that calls RuntimeDoc for every type / receiver / name and prints what came back.
package c16

import (
	"go/token"
	"sort"
	"strings"
)

// ---- structured input (JSON round-trippable) ----

// DocLine is one line of a doc comment as the harness writes it ("// " + Text).
// Tag lines (first byte '+' or '@', or the prefix "go:") are not part of the documentation.
type DocLine struct {
	Text string `json:"t"`
	Tag  bool   `json:"tag,omitempty"`
}

type Field struct {
	Name     string    `json:"name"`
	Embedded bool      `json:"embedded,omitempty"`
	Ptr      bool      `json:"ptr,omitempty"`     // embedded by pointer
	Type     string    `json:"type,omitempty"`    // Go type text of a named field ("" for embedded: the type is Name)
	Class    string    `json:"class,omitempty"`   // named fields: "inline" | "empty" | "ordinary"
	Generic  bool      `json:"generic,omitempty"` // embedded type is an instance Name[int] of a generic type
	Foreign  string    `json:"foreign,omitempty"` // embedded type of another package: "sync.Mutex" | "unicode.Range16"
	Doc      []DocLine `json:"doc,omitempty"`
}

type Type struct {
	Name     string    `json:"name"`
	Kind     string    `json:"kind"`              // "struct" | "iface" | "other"
	Under    string    `json:"under,omitempty"`   // Go type text for iface / other
	Generic  bool      `json:"generic,omitempty"` // one type parameter [P0 any] (P0 comparable for maps)
	Disabled bool      `json:"disabled,omitempty"`
	Doc      []DocLine `json:"doc,omitempty"`
	Fields   []Field   `json:"fields,omitempty"`
	// Over: the type is a defined type over a struct of another package, `type Name os.ProcAttr` / `type Name q.Attr`
	// (Kind is "struct"; Fields are derived: the fields of the foreign struct with the doc lines of their declaration)
	Over string `json:"over,omitempty"`
}

type Input struct {
	Types     []Type            `json:"types"`
	Files     map[string]string `json:"files,omitempty"` // files for [[path]] doc lines
	KnownOnly bool              `json:"known_only,omitempty"`
	NoPkgTag  bool              `json:"no_pkg_tag,omitempty"` // the package clause carries no +gengo:runtimedoc: only types tagged themselves are enabled
	Broken    bool              `json:"broken,omitempty"`     // malformed stream: the source has a syntax error
	Grouped   bool              `json:"grouped,omitempty"`    // declare the types in one  type ( ... )  group
	// Others: struct types of the package example.com/m/q of the same module (ordinary fields only), which p imports
	// when a type of p is defined over one of them
	Others []Type `json:"others,omitempty"`
}

// ---- what the generator sees of it ----

func raw(doc []DocLine) []string {
	var out []string
	for _, l := range doc {
		if !l.Tag {
			out = append(out, l.Text)
		}
	}
	return out
}

func (in *Input) lookup(name string) *Type {
	for i := range in.Types {
		if in.Types[i].Name == name {
			return &in.Types[i]
		}
	}
	return nil
}

func hasExpose(t *Type) bool {
	for _, f := range t.Fields {
		if token.IsExported(f.Name) {
			return true
		}
	}
	return false
}

// enabled mirrors IsGeneratorEnabled on the merged package and type tags (input data for the model: C06's concern)
func (in *Input) enabled(t *Type) bool {
	var vals []string
	has, sub := false, false
	for _, l := range t.Doc {
		if !l.Tag || l.Text == "" || strings.HasPrefix(l.Text, "go:") {
			continue
		}
		k, v := l.Text[1:], ""
		if i := strings.IndexAny(k, "= "); i >= 0 {
			k, v = k[:i], k[i+1:]
		}
		if k == "gengo:runtimedoc" {
			has = true
			vals = append(vals, v)
		}
		if strings.HasPrefix(k, "gengo:runtimedoc:") {
			sub = true
		}
	}
	if has {
		return strings.Join(vals, "") != "false"
	}
	return !in.NoPkgTag || sub
}

func (in *Input) covered(t *Type) bool {
	if !in.enabled(t) || !token.IsExported(t.Name) {
		return false
	}
	switch t.Kind {
	case "iface":
		return false
	case "struct":
		return hasExpose(t)
	}
	return true
}

func (in *Input) delegating(f *Field) bool {
	if !f.Embedded {
		return false
	}
	if f.Ptr {
		return true
	}
	if f.Foreign != "" {
		return f.Foreign != "sync.Mutex" // a struct without exported fields
	}
	if tt := in.lookup(f.Name); tt != nil && tt.Kind == "struct" && !hasExpose(tt) {
		return false
	}
	return true
}

func (in *Input) hasDelegations(tn string) bool {
	t := in.lookup(tn)
	if t == nil || !in.covered(t) || t.Kind != "struct" {
		return false
	}
	for i := range t.Fields {
		if in.delegating(&t.Fields[i]) {
			return true
		}
	}
	return false
}

// RV mirrors the Gallina receiver value.
type RV struct {
	Nil  bool  `json:"nil,omitempty"`
	Kids []Kid `json:"kids,omitempty"`
}
type Kid struct {
	Name string `json:"name"`
	V    RV     `json:"v"`
}

// nilChain mirrors GenRuntimeDoc.nil_chain.
func (in *Input) nilChain(tn string, v RV) bool {
	if v.Nil {
		return in.hasDelegations(tn)
	}
	t := in.lookup(tn)
	if t == nil || t.Kind != "struct" {
		return false
	}
	for i := range t.Fields {
		f := &t.Fields[i]
		if !in.delegating(f) {
			continue
		}
		found := false
		for _, k := range v.Kids {
			if k.Name == f.Name {
				found = true
				if in.nilChain(f.Name, k.V) {
					return true
				}
				break
			}
		}
		if !found && in.hasDelegations(f.Name) {
			return true
		}
	}
	return false
}

// value builds a receiver for the type: every embedded field of a local type gets a kid;
// pointers are nil (full=false) or allocated as long as the type does not repeat on the path.
func (in *Input) value(tn string, full bool, path []string) RV {
	t := in.lookup(tn)
	if t == nil || t.Kind != "struct" {
		return RV{}
	}
	var v RV
	for i := range t.Fields {
		f := &t.Fields[i]
		if !f.Embedded || f.Foreign != "" || in.lookup(f.Name) == nil {
			continue
		}
		if f.Ptr {
			onPath := false
			for _, p := range append(path, tn) {
				if p == f.Name {
					onPath = true
				}
			}
			if !full || onPath || len(path) > 5 {
				v.Kids = append(v.Kids, Kid{f.Name, RV{Nil: true}})
				continue
			}
		}
		v.Kids = append(v.Kids, Kid{f.Name, in.value(f.Name, full, append(path, tn))})
	}
	return v
}

// docOf is the harness' own reading of "doc comment lines, leading name removed":
// the name goes when it is the whole first line or is followed by a blank; a first line left
// empty is dropped.  (Independent of the model; used for the Go-side expectations.)
func docOf(name string, lines []string) []string {
	if len(lines) == 0 {
		return nil
	}
	first := lines[0]
	if rest, ok := strings.CutPrefix(first, name); ok && (rest == "" || rest[0] == ' ') {
		first = strings.TrimSpace(rest)
	}
	if first == "" {
		return append([]string{}, lines[1:]...)
	}
	return append([]string{first}, lines[1:]...)
}

func sortedTypes(in *Input) []*Type {
	var ts []*Type
	for i := range in.Types {
		ts = append(ts, &in.Types[i])
	}
	sort.SliceStable(ts, func(i, j int) bool { return ts[i].Name < ts[j].Name })
	return ts
}

// normalize recomputes each named field's class from its type text, as the generator's type tests see it.
func normalize(in *Input) {
	_ = fillOvers(in, defaultGoroot())
	normalizeClasses(in)
}

func normalizeClasses(in *Input) {
	for i := range in.Types {
		for k := range in.Types[i].Fields {
			f := &in.Types[i].Fields[k]
			if f.Embedded {
				f.Class, f.Type = "", ""
				continue
			}
			f.Class = "ordinary"
			base := strings.TrimSuffix(f.Type, "[int]")
			if strings.HasPrefix(f.Type, "struct") {
				f.Class = "inline"
			} else if tt := in.lookup(base); tt != nil && tt.Kind == "struct" && len(tt.Fields) == 0 {
				f.Class = "empty"
			}
		}
	}
}
