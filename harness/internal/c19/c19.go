// Package c19: camelcase.Split and the six converters.
package c19

import (
	"encoding/json"
	"fmt"
	"os"
	"os/exec"
	"sort"
	"strconv"
	"strings"
	"sync"
	"unicode"
	"unicode/utf8"

	"github.com/octohelm/gengo/pkg/camelcase"

	"verifharness/internal/core"
)

type prop struct{}

func init() { core.Register(prop{}) }

func (prop) ID() string        { return "C19" }
func (prop) CoqModule() string { return "Gengo.Corr.C19" }
func (prop) Parallel() int     { return 8 }

type input struct {
	S []byte `json:"s"`           // base64 in JSON: arbitrary bytes survive
	Q string `json:"q,omitempty"` // the same string Go-quoted, for readers only
	// Before: a history (corpus / replays of the history passes): these inputs are converted first, in a fresh child
	// process, then S; all seven answers for S must be the ones of a fresh child process that converts S alone.
	Before []string `json:"before,omitempty"`
}

var convs = []func(string) string{
	camelcase.LowerSnakeCase, camelcase.UpperSnakeCase, camelcase.LowerKebabCase,
	camelcase.UpperKebabCase, camelcase.LowerCamelCase, camelcase.UpperCamelCase,
}

var alphabet = []string{"a", "s", "z", "A", "S", "Z", "I", "D", "i", "d", "0", "1", "9", "_", "-", ".", " ", "/", "$", "\t", "'",
	"é", "É", "ß", "İ", "ı", "ǅ", "ǆ", "Ǆ", "ſ", "́", "世", " ", "٣", "Ⅷ", "😀", " "}

var words = []string{"IDs", "URLs", "HTTPs", "s", "S", "ID", "Id", "id", "HTML", "Parser", "parser", "v2", "V2", "99", "Bottles", "XMLHttp", "Request", "ÜberRaschung", "ǅungla", "o'clock"}

// Letters whose case mappings CHANGE the UTF-8 length (added after seeded change C19-h: title-casing a word in place, in the
// bytes of its lower-case form).  widthChanging is computed from the unicode tables of the running toolchain: every rune for
// which ToUpper, ToLower or ToTitle needs a different number of UTF-8 bytes than the rune itself - in both directions
// (U+0250 (2 bytes) -> U+2C6F (3), U+023F -> U+2C7E, U+0131 dotless i (2) -> I (1), U+017F long s -> S, U+212A Kelvin (3) -> k (1),
// U+1E9E (3) -> U+00DF (2), U+023A (2) -> U+2C65 (3), ...).  fullCasing are the letters whose FULL case mapping (SpecialCasing.txt, used by
// x/text/cases) has more runes than the letter: a converter may lawfully produce any text for them, but must return.
var widthChanging = func() []rune {
	var out []rune
	for r := rune(0x80); r < 0x20000; r++ {
		n := utf8.RuneLen(r)
		if n < 0 {
			continue
		}
		if utf8.RuneLen(unicode.ToUpper(r)) != n || utf8.RuneLen(unicode.ToLower(r)) != n || utf8.RuneLen(unicode.ToTitle(r)) != n {
			out = append(out, r)
		}
	}
	return out
}()

var fullCasing = []rune("ßŉǰΐΰևẖẗẘẙẚẞﬀﬁﬂﬃﬄﬅﬆﬓﬔﬕﬖﬗİᾳῃῳᾼῌῼᾀᾈῒῗῤῶὐὒ")

// widthWords: the letter at the start of the input, after a separator, after a lower-case and an upper-case run, after a
// digit, mid-word, at the end, doubled, and as the whole input - each position decides whether the letter starts a word that a
// camel-case converter title-cases, lower-cases or keeps.
func widthWords(c rune) []string {
	x := string(c)
	return []string{x, x + "bc", "x_" + x + "bc", "my" + x + "Field", "ab" + x + "cd", "AB" + x + "cd", "x " + x, "9" + x + "z", "a-" + x + "-" + x, x + x, "id_" + x, "AbC" + x}
}

func (prop) Generate(r *core.RNG, tier string) []json.RawMessage {
	n := 1500
	if tier == "thorough" {
		n = 12000
	}
	var out []json.RawMessage
	add := func(s string) {
		b, _ := json.Marshal(input{S: []byte(s), Q: strconv.Quote(s)})
		out = append(out, b)
	}
	// fixed corner cases first
	for _, s := range []string{"IDsOfUser", "listURLsByName", "HTTPs_proxy", "ABsC", "ABs", "AsB", "", "_", "_id", "-x", ".hidden", " a", "a", "A", "1", "PDFLoader", "AB1c", "a1b", "ID", "userID",
		"__init__", "a__b", "\xff", "a\xffb", "\xc3", "İstanbul", "ǅ", "a-b_c d", "99Bottles", "BöseÜberraschung", "BadUTF8\xe2\xe2\xa1"} {
		add(s)
	}
	// every letter whose case mapping changes the UTF-8 length (simple mappings, computed) or the number of runes (full
	// mappings): quick = every letter in every position for the letters named in the notes and 3 random positions for the
	// others, thorough = all.
	named := map[rune]bool{}
	for _, c := range "ɐɑȿɫɥʞⱯȾȺıſKẞİßÅΩιŉ" {
		named[c] = true
	}
	for _, c := range append(append([]rune{}, widthChanging...), fullCasing...) {
		ws := widthWords(c)
		if !named[c] && tier != "thorough" {
			for i := len(ws) - 1; i > 0; i-- {
				j := r.Intn(i + 1)
				ws[i], ws[j] = ws[j], ws[i]
			}
			ws = ws[:3]
		}
		for _, w := range ws {
			add(w)
		}
	}
	for i := 0; i < n/5; i++ { // words and separators with width-changing letters at random places
		var b strings.Builder
		for j, m := 0, 1+r.Intn(4); j < m; j++ {
			if j > 0 && r.Chance(60) {
				b.WriteString(core.Pick(r, []string{"_", "-", ".", " ", "/"}))
			}
			w := []rune(core.Pick(r, words))
			c := core.Pick(r, widthChanging)
			if r.Chance(15) {
				c = core.Pick(r, fullCasing)
			}
			switch r.Intn(4) {
			case 0:
				w[0] = c
			case 1:
				w = append([]rune{c}, w...)
			case 2:
				w[r.Intn(len(w))] = c
			default:
				w = append(w, c)
			}
			b.WriteString(string(w))
		}
		add(b.String())
	}
	for i := 0; i < n; i++ {
		var b strings.Builder
		switch k := r.Intn(10); {
		case k < 4: // identifier-like mixtures of words and separators
			m := 1 + r.Intn(5)
			for j := 0; j < m; j++ {
				if r.Chance(40) {
					b.WriteString(core.Pick(r, []string{"_", "-", ".", " ", "__", "/", ""}))
				}
				w := core.Pick(r, words)
				switch r.Intn(4) {
				case 0:
					w = strings.ToLower(w)
				case 1:
					w = strings.ToUpper(w)
				}
				b.WriteString(w)
				if r.Chance(25) {
					b.WriteString(fmt.Sprint(r.Intn(1000)))
				}
			}
			if r.Chance(20) {
				b.WriteString(core.Pick(r, []string{"_", "-", ".", " "}))
			}
		case k < 8: // random over the alphabet (ASCII-biased)
			m := r.Intn(9)
			for j := 0; j < m; j++ {
				if r.Chance(75) {
					b.WriteString(alphabet[r.Intn(21)])
				} else {
					b.WriteString(core.Pick(r, alphabet))
				}
			}
		case k < 9: // leading punctuation / whitespace / underscore
			b.WriteString(core.Pick(r, []string{"_", "-", ".", " ", "\t", "$", "__", "世", "́"}))
			m := r.Intn(5)
			for j := 0; j < m; j++ {
				b.WriteString(alphabet[r.Intn(21)])
			}
		default: // malformed stream: invalid UTF-8
			m := 1 + r.Intn(5)
			for j := 0; j < m; j++ {
				if r.Chance(50) {
					b.WriteByte(byte(0x80 + r.Intn(0x80)))
				} else {
					b.WriteString(alphabet[r.Intn(21)])
				}
			}
			if utf8.ValidString(b.String()) {
				b.WriteByte(0xff)
			}
		}
		add(b.String())
	}
	if tier == "thorough" { // exhaustive: every string of length <= 5 over a 7-symbol alphabet
		syms := []string{"a", "B", "1", "_", "-", "é", "É"}
		var rec func(prefix string, d int)
		rec = func(prefix string, d int) {
			add(prefix)
			if d == 5 {
				return
			}
			for _, s := range syms {
				rec(prefix+s, d+1)
			}
		}
		rec("", 0)
	}
	return out
}

func classOf(r rune) string {
	switch {
	case unicode.IsLower(r):
		return "CLower"
	case unicode.IsUpper(r):
		return "CUpper"
	case unicode.IsDigit(r):
		return "CDigit"
	}
	return "COther"
}

func coqRunes(s string) string {
	var items []string
	for _, r := range s {
		items = append(items, fmt.Sprintf("(%d,%s)", r, classOf(r)))
	}
	return core.CoqList(items)
}

func coqCodes(s string, valid bool) string {
	var items []string
	if valid {
		for _, r := range s {
			items = append(items, fmt.Sprint(int(r)))
		}
	} else {
		for i := 0; i < len(s); i++ {
			items = append(items, fmt.Sprint(int(s[i])))
		}
	}
	return core.CoqList(items)
}

type observed struct {
	SplitPanic bool     `json:"split_panic"`
	Words      []string `json:"words"`
	Conv       []string `json:"conv"`
	ConvPanic  []bool   `json:"conv_panic"`
}

func (prop) Run(in json.RawMessage, _ string) core.Result {
	var inp input
	_ = json.Unmarshal(in, &inp)
	s := string(inp.S)
	valid := utf8.ValidString(s)
	var res core.Result
	var obs observed

	var ws []string
	p, _ := core.Recover(func() { ws = camelcase.Split(s) })
	obs.SplitPanic, obs.Words = p, append([]string(nil), ws...)
	// purity: a second call gives the same answer
	if !p {
		var ws2 []string
		p2, _ := core.Recover(func() { ws2 = camelcase.Split(s) })
		if p2 || strings.Join(ws2, "\x00") != strings.Join(obs.Words, "\x00") || len(obs.Words) != len(ws2) {
			res.GoViolations = append(res.GoViolations, "Split is not a pure function of its input")
		}
	}

	ascii := valid
	for i := 0; i < len(s); i++ {
		if s[i] >= 0x80 {
			ascii = false
		}
	}
	obs.Conv = make([]string, 6)
	obs.ConvPanic = make([]bool, 6)
	for k, f := range convs {
		var r1 string
		pk, _ := core.Recover(func() { r1 = f(s) })
		obs.Conv[k], obs.ConvPanic[k] = r1, pk
		if pk {
			continue
		}
		// same answer again, also from concurrent callers
		var wg sync.WaitGroup
		var mu sync.Mutex
		same := true
		for g := 0; g < 4; g++ {
			wg.Add(1)
			go func() {
				defer wg.Done()
				var r2 string
				pp, _ := core.Recover(func() { r2 = f(s) })
				if pp || r2 != r1 {
					mu.Lock()
					same = false
					mu.Unlock()
				}
			}()
		}
		wg.Wait()
		if !same {
			res.GoViolations = append(res.GoViolations, fmt.Sprintf("converter %d is not a pure function of its input", k))
		}
	}
	// The returned word list belongs to the caller: whatever the caller does to it in place (sort, change case, overwrite,
	// filter with ws[:0]) must not be seen by a later Split or converter call on the same input.  Scribble over every
	// slice handed out so far, then ask again.
	if !p {
		handed := [][]string{ws}
		for round := 0; round < 2; round++ {
			for _, h := range handed {
				scribble(h, round)
			}
			var ws3 []string
			p3, _ := core.Recover(func() { ws3 = camelcase.Split(s) })
			if p3 || !sameWords(ws3, obs.Words) {
				res.GoViolations = append(res.GoViolations, fmt.Sprintf("Split(%q) returns %q after the caller modified, in place, the slice an earlier Split(%q) returned (first answer %q): the concatenation is not the input / not a function of the input alone", s, ws3, s, obs.Words))
				break
			}
			handed = append(handed, ws3)
			bad := false
			for k, f := range convs {
				if obs.ConvPanic[k] {
					continue
				}
				var r2 string
				pk, _ := core.Recover(func() { r2 = f(s) })
				if pk || r2 != obs.Conv[k] {
					res.GoViolations = append(res.GoViolations, fmt.Sprintf("converter %d returns %q for %q after the caller modified, in place, a slice returned by Split(%q); it returned %q before: not a pure function of its input", k, r2, s, s, obs.Conv[k]))
					bad = true
					break
				}
			}
			if bad {
				break
			}
		}
	}
	// a history: S after Before in one fresh process against S alone in another
	if len(inp.Before) > 0 {
		per := len(convs) + 1
		alone, err1 := histChild([]string{s})
		after, err2 := histChild(append(append([]string{}, inp.Before...), s))
		if err1 != nil || err2 != nil || len(alone) != per || len(after) != per*(len(inp.Before)+1) {
			res.Notes = append(res.Notes, fmt.Sprintf("history %q then %q: child failed: %v %v", inp.Before, s, err1, err2))
		} else {
			for k := 0; k < per; k++ {
				if x, y := alone[k], after[len(after)-per+k]; x != y {
					res.GoViolations = append(res.GoViolations, fmt.Sprintf("not a pure function of its input (history): function #%d (0=Split, 1..6=the six converters) returns %q for %q in a fresh process, but %q when %q had been converted before it in the same process", k, x, s, y, inp.Before))
				}
			}
		}
	}
	res.Observed = obs

	// Coq case
	ws = obs.Words
	var inTerm string
	if valid {
		inTerm = "(Valid " + coqRunes(s) + ")"
	} else {
		var items []string
		for i := 0; i < len(s); i++ {
			items = append(items, fmt.Sprintf("(%d,COther)", s[i]))
		}
		inTerm = "(Invalid " + core.CoqList(items) + ")"
	}
	splitTerm := "OPanic"
	if !p {
		var w []string
		for _, x := range ws {
			w = append(w, coqCodes(x, valid))
		}
		splitTerm = "(OWords " + core.CoqList(w) + ")"
	}
	var cv []string
	for k := range convs {
		cv = append(cv, core.CoqOpt(!obs.ConvPanic[k], coqCodes(obs.Conv[k], true)))
	}
	res.Coq = fmt.Sprintf("mk_case %s %s %s %s", inTerm, splitTerm, core.CoqBool(ascii), core.CoqList(cv))

	// distribution / non-triviality: at least two words or a non-alphanumeric first rune or invalid
	first, _ := utf8.DecodeRuneInString(s)
	leadOther := len(s) > 0 && valid && classOf(first) == "COther"
	res.Nontrivial = len(ws) >= 2 || leadOther || !valid
	switch {
	case s == "":
		res.Tags = append(res.Tags, "empty")
	case !valid:
		res.Tags = append(res.Tags, "invalid_utf8")
	case ascii:
		res.Tags = append(res.Tags, "ascii")
	default:
		res.Tags = append(res.Tags, "unicode")
	}
	if leadOther {
		res.Tags = append(res.Tags, "leading_other")
	}
	res.Tags = append(res.Tags, fmt.Sprintf("words=%d", min(len(ws), 6)))
	return res
}

func sameWords(a, b []string) bool {
	if len(a) != len(b) {
		return false
	}
	for i := range a {
		if a[i] != b[i] {
			return false
		}
	}
	return true
}

// scribble modifies a returned word list in place the way callers do: round 0 lower-cases/upper-cases and reverses the
// order, round 1 overwrites every element.  (append is not used: it reallocates when len == cap and proves nothing.)
func scribble(ws []string, round int) {
	for i, j := 0, len(ws)-1; i < j; i, j = i+1, j-1 {
		ws[i], ws[j] = ws[j], ws[i]
	}
	for i, w := range ws {
		if round == 0 {
			if u := strings.ToUpper(w); u != w {
				ws[i] = u
			} else {
				ws[i] = strings.ToLower(w) + "x"
			}
		} else {
			ws[i] = "scribbled"
		}
	}
}

// Shrink: drop one byte-aligned rune, or halve.
func (prop) Shrink(in json.RawMessage) []json.RawMessage {
	var inp input
	_ = json.Unmarshal(in, &inp)
	s := string(inp.S)
	var out []json.RawMessage
	add := func(t string) {
		if t != s {
			b, _ := json.Marshal(input{S: []byte(t), Q: strconv.Quote(t), Before: inp.Before})
			out = append(out, b)
		}
	}
	for i := range inp.Before { // a shorter history first
		h := append(append([]string{}, inp.Before[:i]...), inp.Before[i+1:]...)
		b, _ := json.Marshal(input{S: inp.S, Q: inp.Q, Before: h})
		out = append(out, b)
	}
	if len(s) > 2 {
		add(s[:len(s)/2])
		add(s[len(s)/2:])
	}
	for i := 0; i < len(s); {
		_, n := utf8.DecodeRuneInString(s[i:])
		add(s[:i] + s[i+n:])
		i += n
	}
	return out
}

// Extra: purity over HISTORIES.  Run only ever calls a converter twice on the same input; a converter that keeps
// hidden state (a cache keyed too coarsely, a reused buffer) gives the same answer twice and is still not a pure
// function of its input: the answer depends on what the process converted before.  Hidden state is invisible from
// inside one process (the first answer is simply repeated), so the same list of related inputs (the same fresh words at
// different positions) is converted by two fresh child processes, one in list order and one in reverse order; every
// input must get the same answer in both.  The child plays a caller that modifies, in place, every word list Split
// handed to it before it converts the next input, and a quarter of the inputs occur twice in the list: a Split that
// hands out one shared (cached) slice per input answers the second occurrence with the modified words.
func histRun(seq []string) []string {
	var out []string
	for i, s := range seq {
		var got []string
		for k := -1; k < len(convs); k++ {
			var o string
			p, _ := core.Recover(func() {
				if k < 0 {
					got = camelcase.Split(s)
					o = strings.Join(got, "\x00")
				} else {
					o = convs[k](s)
				}
			})
			if p {
				o = "<panic>"
			}
			out = append(out, o)
		}
		// the caller owns the word list it got: it modifies it in place before the next input is converted
		scribble(got, i&1)
	}
	return out
}

// ---- words that COLLIDE under a case normalisation (added after seeded change C19-m) ----
//
// A memo inside a converter is keyed by something; "the word, case-normalised" is the natural key (RPC, Rpc and rpc all
// become Rpc).  It is wrong exactly for words that are equal under the normalisation (strings.ToLower, strings.ToUpper,
// simple or full case folding) and still have different Title/Upper/Lower results: a capital sigma at the end of a word
// lower-cases to the final form while a typed small sigma stays; KELVIN/OHM/ANGSTROM SIGN, dotted capital I, capital sharp s,
// the upper-case digraphs lower-case to a letter that has another capital; long s, dotless i, final sigma, the Greek symbol
// letters upper-case to a letter that has another small form; ligatures and sharp s fold to two letters.
//
// collisionGroups: (a) computed from the unicode tables of the running toolchain - every SimpleFold orbit with at least
// three members (k K KELVIN; s S long-s; sigma; the digraphs; mu/micro; Greek symbol letters; Cyrillic Extended-C ...) and
// every rune whose ToLower/ToUpper leaves its orbit joined with the orbit it lands in (i I dotless-i dotted-I); (b) a fixed
// list for the full (multi-rune) mappings of SpecialCasing.txt / CaseFolding.txt status F.
var collisionGroups = func() [][]string {
	var out [][]string
	seen := map[rune]bool{}
	orbit := func(r rune) []rune {
		o := []rune{r}
		for x := unicode.SimpleFold(r); x != r; x = unicode.SimpleFold(x) {
			o = append(o, x)
		}
		return o
	}
	var iLike []rune
	for r := rune(0x41); r < 0x20000; r++ {
		if seen[r] || !utf8.ValidRune(r) {
			continue
		}
		o := orbit(r)
		in := func(x rune) bool {
			for _, y := range o {
				if x == y {
					return true
				}
			}
			return false
		}
		if l, u := unicode.ToLower(r), unicode.ToUpper(r); !in(l) || !in(u) {
			iLike = append(iLike, r)
		}
		if len(o) >= 3 {
			var g []string
			for _, x := range o {
				seen[x] = true
				g = append(g, string(x))
			}
			out = append(out, g)
		}
	}
	for _, r := range iLike { // the rune, the orbits of its lower and upper case
		g := []string{string(r)}
		for _, t := range []rune{unicode.ToLower(r), unicode.ToUpper(r)} {
			if t != r {
				for _, x := range orbit(t) {
					g = append(g, string(x))
				}
			}
		}
		out = append(out, g)
	}
	out = append(out, [][]string{
		{"i", "I", "ı", "İ", "i\u0307"},
		{"ß", "\u1e9e", "ss", "SS", "Ss", "ſs"},
		{"ŉ", "\u02bcn", "\u02bcN"},
		{"\u01f0", "j\u030c", "J\u030c"},
		{"ﬁ", "fi", "FI", "Fi"},
		{"ﬀ", "ff", "FF", "Ff"},
		{"ﬅ", "ﬆ", "st", "ST", "St", "ſt"},
		{"\u0390", "\u1fd3", "ι\u0308\u0301", "Ι\u0308\u0301"},
		{"\u1fb3", "\u1fbc", "αι", "ΑΙ", "Αι", "α\u0345"},
		{"և", "եւ", "ԵՒ", "Եւ"},
		{"ẚ", "a\u02be", "A\u02be"},
	}...)
	return out
}()

// namedCollisions: the groups that go through every position and placement in the quick tier too (the others: one
// position, chosen at random; thorough: everything).
var namedCollisions = map[string]bool{"σ": true, "ς": true, "\u212a": true, "\u2126": true, "\u212b": true, "ſ": true, "İ": true, "ı": true, "ǅ": true, "ß": true, "µ": true, "ϑ": true}

// realCollisions: whole words, as typed (U+212A KELVIN SIGN, U+2126 OHM SIGN, U+212B ANGSTROM SIGN, U+1E9E capital sharp s are escaped).
var realCollisions = [][]string{
	{"ΟΔΟΣ", "οδοσ", "οδος", "Οδος", "Οδοσ", "ΟΔΟς"},
	{"Kelvin", "kelvin", "\u212aelvin", "KELVIN", "\u212aELVIN"},
	{"Ωmega", "ωmega", "\u2126mega", "ΩMEGA", "\u2126MEGA"},
	{"Ångström", "ångström", "\u212bngström", "ÅNGSTRÖM", "\u212bNGSTRÖM"},
	{"İstanbul", "istanbul", "Istanbul", "ıstanbul", "ISTANBUL", "İSTANBUL", "i\u0307stanbul"},
	{"Maße", "maße", "MA\u1e9eE", "MASSE", "Masse", "masse", "MAßE"},
	{"ǅungla", "ǆungla", "Ǆungla", "ǄUNGLA", "ǅUNGLA"},
	{"ſecond", "second", "Second", "SECOND", "ſECOND"},
	{"RPC", "Rpc", "rpc", "rPC"},
	{"ΣΊΣΥΦΟΣ", "σίσυφος", "Σίσυφος", "σίσυφοσ", "ςίσυφος"},
}

// collisionClasses: a class is a list of WORDS that are equal under some case normalisation: the variants of one group
// at one position of the word (whole word, first, middle, last rune) in a lower-case, an upper-case and a capitalised
// ASCII context.  Final sigma needs the last position, the signs need the first one, long s / dotless i the middle.
func collisionClasses(r *core.RNG, tier string) [][]string {
	classes := append([][]string{}, realCollisions...)
	for _, g := range collisionGroups {
		all := tier == "thorough"
		for _, v := range g {
			if namedCollisions[v] {
				all = true
			}
		}
		pos := []int{0, 1, 2, 3}
		if !all {
			pos = []int{r.Intn(4)}
		}
		for _, p := range pos {
			var c []string
			for _, v := range g {
				switch p {
				case 0:
					c = append(c, v)
				case 1:
					c = append(c, v+"elvin", v+"ELVIN")
				case 2:
					c = append(c, "ab"+v+"cd", "AB"+v+"CD", "Ab"+v+"cd")
				default:
					c = append(c, "od"+v, "OD"+v, "Od"+v)
				}
			}
			classes = append(classes, c)
		}
	}
	return classes
}

// placements: the word as first / middle / last word of a snake, a kebab and a camel input (and after a digit, where a
// lower-case word starts without a separator), and alone.
func placements(w string) []string {
	return []string{w, w + "_foo_bar", "foo_" + w + "_bar", "foo_bar_" + w, w + "-foo-bar", "foo-" + w + "-bar", "foo-bar-" + w,
		w + "FooBar", "foo" + w + "Bar", "fooBar" + w, "foo2" + w}
}

// foldKey: a coarse key under which all words of a collision class coincide (used only to order the candidates of the
// minimal-history search: related inputs first).
func foldKey(s string) string {
	var b strings.Builder
	for _, r := range s {
		m := r
		for x := unicode.SimpleFold(r); x != r; x = unicode.SimpleFold(x) {
			if x < m {
				m = x
			}
		}
		b.WriteRune(m)
	}
	return b.String()
}

// collisionPass: every class is converted by as many fresh child processes as it has words; in process j the j-th word of
// every class comes first (all its placements), then the others in rotation - so every word is, in one process, the first
// of its class the library sees, and in the other processes it comes after each of the others.  A pure function gives
// every input the same seven answers in every process.
func collisionPass(r *core.RNG, tier string) (violations []string, notes []string, stats map[string]any) {
	classes := collisionClasses(r, tier)
	rot := 0
	for _, c := range classes {
		rot = max(rot, len(c))
	}
	order := func(j int) []string {
		var seq []string
		for _, c := range classes {
			for i := range c {
				seq = append(seq, placements(c[(i+j)%len(c)])...)
			}
		}
		return seq
	}
	per := len(convs) + 1
	type run struct {
		seq []string
		out []string
		err error
	}
	runs := make([]run, rot)
	var wg sync.WaitGroup
	sem := make(chan struct{}, 8)
	for j := range runs {
		wg.Add(1)
		sem <- struct{}{}
		go func(j int) {
			defer wg.Done()
			defer func() { <-sem }()
			runs[j].seq = order(j)
			runs[j].out, runs[j].err = histChild(runs[j].seq)
		}(j)
	}
	wg.Wait()
	stats = map[string]any{"collision_classes": len(classes), "collision_processes": rot, "collision_inputs": len(runs[0].seq), "collision_calls": rot * per * len(runs[0].seq)}
	// answers per input and process
	type ans struct {
		proc int
		at   int
	}
	first := map[string]ans{}
	for j, ru := range runs {
		if ru.err != nil || len(ru.out) != per*len(ru.seq) {
			return nil, []string{fmt.Sprintf("case-collision purity run skipped: process %d: %v (%d answers for %d inputs)", j, ru.err, len(ru.out), len(ru.seq))}, stats
		}
		for i, s := range ru.seq {
			f, ok := first[s]
			if !ok {
				first[s] = ans{j, i}
				continue
			}
			for k := 0; k < per; k++ {
				x, y := runs[f.proc].out[f.at*per+k], ru.out[i*per+k]
				if x == y {
					continue
				}
				if len(violations) == 0 {
					if v := minimalHistory(s, k, append(append([]string{}, runs[f.proc].seq[:f.at]...), ru.seq[:i]...)); v != "" {
						violations = append(violations, v)
					}
				}
				if len(violations) < 4 {
					violations = append(violations, fmt.Sprintf("not a pure function of its input: function #%d (0=Split, 1..6=the six converters) returns %q for %q in a process that converted %d inputs before it (the last ones %q), but %q in a process that converted %d inputs before it (the last ones %q); the inputs are words that coincide under a case normalisation (lower / upper / fold) and differ in their title / upper / lower form",
						k, x, s, f.at, tail(runs[f.proc].seq[:f.at], 3), y, i, tail(ru.seq[:i], 3)))
				}
			}
		}
	}
	return violations, nil, stats
}

func tail(s []string, n int) []string {
	if len(s) > n {
		return s[len(s)-n:]
	}
	return s
}

// minimalHistory searches ONE earlier call that changes function k's answer for s with respect to a fresh process;
// candidates that share a case-folded word with s are tried first, at most 400 child processes.
func minimalHistory(s string, k int, before []string) string {
	per := len(convs) + 1
	alone, err := histChild([]string{s})
	if err != nil || len(alone) != per {
		return ""
	}
	keys := map[string]bool{}
	for _, w := range camelcase.Split(foldKey(s)) {
		keys[w] = true
	}
	rel := func(h string) int {
		n := 0
		for _, w := range camelcase.Split(foldKey(h)) {
			if keys[w] && w != "foo" && w != "bar" {
				n++
			}
		}
		return n
	}
	seen := map[string]bool{s: true}
	var cands []string
	for _, h := range before {
		if !seen[h] {
			seen[h] = true
			cands = append(cands, h)
		}
	}
	sort.SliceStable(cands, func(i, j int) bool {
		ri, rj := rel(cands[i]), rel(cands[j])
		if ri != rj {
			return ri > rj
		}
		return len(cands[i]) < len(cands[j])
	})
	if len(cands) > 400 {
		cands = cands[:400]
	}
	for _, h := range cands {
		if two, err := histChild([]string{h, s}); err == nil && len(two) == 2*per && two[per+k] != alone[k] {
			return fmt.Sprintf("not a pure function of its input (minimal history): function #%d (0=Split, 1..6=the six converters) returns %q for %q in a fresh process, but %q when %q was converted before it in the same process (two calls; the two inputs contain words that coincide under a case normalisation and differ in their title / upper / lower form)",
				k, alone[k], s, two[per+k], h)
		}
	}
	return ""
}

func init() {
	core.Children["c19-hist"] = func(args []string) int {
		var seq []string
		if err := json.NewDecoder(os.Stdin).Decode(&seq); err != nil {
			return 2
		}
		_ = json.NewEncoder(os.Stdout).Encode(histRun(seq))
		return 0
	}
}

func histChild(seq []string) ([]string, error) {
	exe, err := os.Executable()
	if err != nil {
		return nil, err
	}
	in, _ := json.Marshal(seq)
	cmd := exec.Command("timeout", "120", exe, "c19-hist")
	cmd.Stdin = strings.NewReader(string(in))
	b, err := cmd.Output()
	if err != nil {
		return nil, err
	}
	var out []string
	return out, json.Unmarshal(b, &out)
}

func (prop) Extra(r *core.RNG, tier string, _ string) (violations []string, notes []string, stats map[string]any) {
	violations, notes, stats = historyPass(r, tier)
	v2, n2, st2 := collisionPass(r, tier)
	for k, v := range st2 {
		stats[k] = v
	}
	return append(violations, v2...), append(notes, n2...), stats
}

func historyPass(r *core.RNG, tier string) (violations []string, notes []string, stats map[string]any) {
	ws := []string{"id", "ID", "user", "HTML", "v2", "99", "é", "Über"}
	for i := 0; i < 12; i++ { // fresh words nobody converted before
		var b strings.Builder
		for j, m := 0, 2+r.Intn(4); j < m; j++ {
			b.WriteByte(byte('a' + r.Intn(26)))
		}
		ws = append(ws, b.String())
	}
	seps := []string{"_", "-", "", " ", "."}
	n := 300
	if tier == "thorough" {
		n = 3000
	}
	seq := append([]string{}, ws...)
	for i := 0; i < n; i++ {
		m := 1 + r.Intn(3)
		var b strings.Builder
		for j := 0; j < m; j++ {
			if j > 0 {
				b.WriteString(core.Pick(r, seps))
			}
			w := core.Pick(r, ws)
			if r.Chance(30) && j > 0 {
				w = strings.ToUpper(w[:1]) + w[1:]
			}
			b.WriteString(w)
		}
		seq = append(seq, b.String())
	}
	// repeats: the same input again later in the same process, after its first word list was modified in place by the
	// caller (a Split that hands out a shared, cached slice answers differently the second time)
	for i, m := 0, len(seq)/4; i < m; i++ {
		at := r.Intn(len(seq) + 1)
		x := seq[r.Intn(len(seq))]
		seq = append(seq[:at], append([]string{x}, seq[at:]...)...)
	}
	rev := make([]string, len(seq))
	for i, s := range seq {
		rev[len(seq)-1-i] = s
	}
	a, err1 := histChild(seq)
	b, err2 := histChild(rev)
	stats = map[string]any{"history_inputs": len(seq), "history_calls": 2 * 7 * len(seq)}
	if err1 != nil || err2 != nil {
		return nil, []string{fmt.Sprintf("history purity run skipped: %v %v", err1, err2)}, stats
	}
	per := len(convs) + 1
	for i, s := range seq {
		for k := 0; k < per; k++ {
			x, y := a[i*per+k], b[(len(seq)-1-i)*per+k]
			if x != y && len(violations) == 0 {
				// minimise: a single earlier call that changes the answer
				alone, _ := histChild([]string{s})
				for _, h := range append(append([]string{}, seq[:i]...), rev[:len(seq)-1-i]...) {
					if two, err := histChild([]string{h, s}); err == nil && alone != nil && len(two) == 2*per && two[per+k] != alone[k] {
						violations = append(violations, fmt.Sprintf("not a pure function of its input (minimal history): function #%d (0=Split, 1..6=the six converters) returns %q for %q in a fresh process, but %q when %q was converted before it (the caller modifies every word list Split returned, in place, before the next call)",
							k, alone[k], s, two[per+k], h))
						break
					}
				}
			}
			if x != y && len(violations) < 4 {
				violations = append(violations, fmt.Sprintf("not a pure function of its input: function #%d (0=Split, 1..6=the six converters) returns %q for %q in a process that first converted %q, but %q in a process that first converted %q (the caller modifies every word list Split returned, in place, before the next call)",
					k, x, s, seq[:i], y, rev[:len(seq)-1-i]))
			}
		}
	}
	return violations, nil, stats
}
