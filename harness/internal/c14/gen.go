package c14

// Generator of programs of the mini-language, biased towards the corner cases the property names:
// self / mutual recursion through (T, error) results, closures passed as arguments with more / fewer results
// than the callee, named results with bare return, multi-value forwarding, calls into a second package,
// interface methods, literal-only returns.

import (
	"fmt"

	"verifharness/internal/core"
)

var resultMenus = [][]string{
	{"error"}, {"any"}, {"int", "error"}, {"any", "error"}, {"string", "error"}, {"ptr", "error"},
	{"int"}, {"errimpl"}, {"iface"}, {"int", "any", "error"}, {"error", "error"}, {"named", "error"},
	{"bool"}, {"any", "any"}, {"error", "int", "error"}, {"string"}, {},
}

type local struct {
	name string
	ty   Ty
	obj  int
}

type closVar struct {
	name string
	f    int
}

type ctx struct {
	f      *Func // the function (or literal) whose body is generated
	encl   *Func // the enclosing declared function
	parent *ctx
	pkg    int
	locals []local // declared at the top of the function
	scoped []local // defined by := in the current block
	decls  []*Stmt
	clos   []closVar
	depth  int // literal nesting
	// helpers of the enclosing declared function that must be declared at its top
	needSt, needT0, needI0, needBT0 *bool
	litOnly                         bool
}

type gen struct {
	r      *core.RNG
	p      *Prog
	mode   string
	budget int
}

func (g *gen) newObj() int { g.p.NObj++; return g.p.NObj }

func mkTy(k string, pkg int) Ty {
	switch k {
	case "named", "ptr", "errimpl":
		return Ty{K: k, P: pkg}
	}
	return Ty{K: k}
}

func val(src string, ty Ty) *Expr { return &Expr{K: "val", Src: src, Ty: ty} }
func lit(src string, ty Ty) *Expr { return &Expr{K: "val", Src: src, Ty: ty, Lit: true} }
func ident(src string, ty Ty, resolved bool, obj int) *Expr {
	return &Expr{K: "val", Src: src, Ty: ty, X: "ident", Rslv: resolved, Obj: obj}
}
func sel(src string, ty Ty, obj int) *Expr {
	return &Expr{K: "val", Src: src, Ty: ty, X: "sel", Obj: obj}
}

func nilExpr() *Expr {
	e := ident("nil", Ty{K: "nil"}, false, objNil)
	e.Lit = true
	return e
}

var anyLits = []string{"1", "1 + 2", `"s"`, `"a" + "b"`, "!true", "1.5", "'x'", "2 * 3", "-7", "1 < 2"}

func (g *gen) litFor(want Ty) *Expr {
	r := g.r
	switch want.K {
	case "int":
		return lit(core.Pick(r, []string{"1", "2 + 3", "-4", "0", "6 * 7"}), Ty{K: "untyped"})
	case "string":
		return lit(core.Pick(r, []string{`"a"`, `"a" + "b"`, `""`, `"x" + "y" + "z"`}), Ty{K: "untyped"})
	case "bool":
		switch r.Intn(4) {
		case 0:
			e := ident("true", Ty{K: "untyped"}, false, objTrue)
			e.Lit = true
			return e
		case 1:
			e := ident("false", Ty{K: "untyped"}, false, objFalse)
			e.Lit = true
			return e
		}
		return lit(core.Pick(r, []string{"!true", "1 < 2", "true && false"}), Ty{K: "untyped"})
	case "any", "iface":
		if r.Chance(25) {
			return nilExpr()
		}
		if r.Chance(10) {
			e := ident("true", Ty{K: "untyped"}, false, objTrue)
			e.Lit = true
			return e
		}
		return lit(core.Pick(r, anyLits), Ty{K: "untyped"})
	case "error", "ptr", "errimpl", "func":
		return nilExpr()
	}
	return nil // named: no literal
}

// visVar is a variable in scope at the point being generated.
type visVar struct {
	name   string
	ty     Ty
	obj    int
	result bool // a named result ...
	own    bool // ... of the function whose body is being generated (not of an enclosing one)
}

// visible: the variables in scope, the innermost declaration of a name only.  A name declared again in an inner
// scope hides the outer one: `r1 := ...` in a block hides the named result r1 (the new variable is a different
// object: an assignment to it is no assignment to the result), a result q0 of a nested literal hides the q0 of the
// enclosing literal.  The blank identifier names nothing.
func (c *ctx) visible() []visVar {
	var out []visVar
	seen := map[string]bool{}
	for cc := c; cc != nil; cc = cc.parent {
		for i := len(cc.scoped) - 1; i >= 0; i-- {
			if l := cc.scoped[i]; !seen[l.name] {
				seen[l.name] = true
				out = append(out, visVar{name: l.name, ty: l.ty, obj: l.obj})
			}
		}
		for _, l := range cc.locals {
			if !seen[l.name] {
				seen[l.name] = true
				out = append(out, visVar{name: l.name, ty: l.ty, obj: l.obj})
			}
		}
		for _, rs := range cc.f.Res {
			if rs.Name != "" && rs.Name != "_" && !seen[rs.Name] {
				seen[rs.Name] = true
				out = append(out, visVar{name: rs.Name, ty: rs.Ty, obj: rs.Obj, result: true, own: cc == c})
			}
		}
	}
	return out
}

// resultHidden: a named result of the function being generated is hidden by a variable of an inner scope (a bare
// return is then a compile error: "result parameter not in scope at return")
func (c *ctx) resultHidden() bool {
	for _, rs := range c.f.Res {
		for _, l := range c.scoped {
			if rs.Name != "" && rs.Name != "_" && l.name == rs.Name {
				return true
			}
		}
	}
	return false
}

// blankResults replaces some names of a named result list by the blank identifier - first / middle / last /
// several / all positions.  A blank result is a declared variable like any other (it keeps its object: go/types
// records one for `_` in a signature), it can just never be mentioned: a bare return reports its declared type.
func blankResults(r *core.RNG, rs []Res) {
	n := len(rs)
	if n == 0 || rs[0].Name == "" {
		return
	}
	blank := func(i int) { rs[i].Name = "_" }
	switch k := r.Intn(10); {
	case k < 3: // the first
		blank(0)
	case k < 5: // the last
		blank(n - 1)
	case k < 6: // one in the middle (the first of two)
		blank((n - 1) / 2)
	case k < 7: // all
		for i := range rs {
			blank(i)
		}
	case k < 8: // all but the last
		for i := 0; i+1 < n; i++ {
			blank(i)
		}
		if n == 1 {
			blank(0)
		}
	default: // each with probability 1/2, at least one
		any := false
		for i := range rs {
			if r.Chance(50) {
				blank(i)
				any = true
			}
		}
		if !any {
			blank(r.Intn(n))
		}
	}
}

func (g *gen) newLocal(c *ctx, ty Ty) local {
	obj := g.newObj()
	l := local{name: fmt.Sprintf("l%d", obj), ty: ty, obj: obj}
	c.locals = append(c.locals, l)
	c.decls = append(c.decls,
		&Stmt{K: "raw", Raw: fmt.Sprintf("var %s %s", l.name, tyGo(ty, c.pkg))},
		&Stmt{K: "assign", Tok: "=", Lhs: []Lhs{{K: "ident", Src: "_"}}, Rhs: []*Expr{ident(l.name, ty, true, obj)}})
	return l
}

// valExpr: a non-call expression assignable to want
func (g *gen) valExpr(c *ctx, want Ty) *Expr {
	r := g.r
	if c.litOnly {
		if e := g.litFor(want); e != nil {
			return e
		}
	}
	pk := c.pkg
	var opts []func() *Expr
	add := func(w int, f func() *Expr) {
		for i := 0; i < w; i++ {
			opts = append(opts, f)
		}
	}
	if e := g.litFor(want); e != nil {
		add(3, func() *Expr { return g.litFor(want) })
	}
	for _, v := range c.visible() { // locals, named results of this function and of the enclosing ones
		v := v
		if assignable(v.ty, want) {
			add(3, func() *Expr { return ident(v.name, v.ty, true, v.obj) })
		}
	}
	tErr := Ty{K: "error"}
	if assignable(tErr, want) {
		add(2, func() *Expr { return ident("e", tErr, true, c.encl.ObjE) })
		add(2, func() *Expr { *c.needSt = true; return sel("st.e", tErr, objFieldE(pk)) })
		add(1, func() *Expr { return ident("Local", tErr, true, objLocalVar(pk)) })
		add(1, func() *Expr { return ident("Sentinel", tErr, false, objSentinel(pk)) })
		if pk == pkgA && g.p.UseB {
			add(1, func() *Expr { return sel("b.Sentinel", tErr, objSentinel(pkgB)) })
		}
	}
	if assignable(Ty{K: "errimpl", P: pk}, want) {
		add(3, func() *Expr { return val("&E{}", Ty{K: "errimpl", P: pk}) })
	}
	if assignable(Ty{K: "ptr", P: pk}, want) {
		add(1, func() *Expr { return val("&T{}", Ty{K: "ptr", P: pk}) })
		if c.encl.Method {
			add(1, func() *Expr { return ident("t", Ty{K: "ptr", P: pk}, true, c.encl.ObjT) })
		}
	}
	if assignable(Ty{K: "named", P: pk}, want) {
		add(1, func() *Expr { return val("T{}", Ty{K: "named", P: pk}) })
		add(1, func() *Expr { *c.needSt = true; return ident("st", Ty{K: "named", P: pk}, true, c.stObj()) })
	}
	if assignable(Ty{K: "int"}, want) {
		add(1, func() *Expr { return ident("n", Ty{K: "int"}, true, c.encl.ObjN) })
		add(1, func() *Expr { return val("n + 1", Ty{K: "int"}) })
	}
	if assignable(Ty{K: "string"}, want) {
		add(1, func() *Expr { *c.needSt = true; return sel("st.s", Ty{K: "string"}, objFieldS(pk)) })
	}
	if want.K == "any" || want.K == "iface" {
		add(1, func() *Expr { *c.needSt = true; return sel("st.a", Ty{K: "any"}, objFieldA(pk)) })
	}
	if len(opts) == 0 {
		l := g.newLocal(c, want)
		return ident(l.name, l.ty, true, l.obj)
	}
	return core.Pick(r, opts)()
}

// the object of the helper variable st of the enclosing declared function
func (c *ctx) stObj() int { return c.encl.ObjT + 1 }

type callee struct {
	fun    func(c *ctx) string
	res    []Ty
	target int // table index + 1
	fn     *Func
	kind   string // "table", "special"
	perr   []bool
	args   func(c *ctx, depth int) []*Expr
	issig  bool
}

func tysOf(rs []Res) []Ty {
	var t []Ty
	for _, r := range rs {
		t = append(t, r.Ty)
	}
	return t
}

func tupleAssignable(from, to []Ty) bool {
	if len(from) != len(to) {
		return false
	}
	for i := range from {
		if !assignable(from[i], to[i]) {
			return false
		}
	}
	return true
}

// callees usable from c whose result tuple is assignable to want
func (g *gen) callees(c *ctx, want []Ty) []callee {
	var out []callee
	pk := c.pkg
	for i, f := range g.p.Funcs {
		i, f := i, f
		if f.IsLit || f.Prelude || len(f.Res) == 0 {
			continue
		}
		if f.Pkg != pk && !(pk == pkgA && f.Pkg == pkgB) {
			continue
		}
		if !tupleAssignable(tysOf(f.Res), want) {
			continue
		}
		cl := callee{res: tysOf(f.Res), fn: f, kind: "table", issig: true}
		if f.Iface {
			cl.fun = func(c *ctx) string {
				if f.Pkg == pk {
					*c.needI0 = true
					return "i0." + f.Name
				}
				*c.needBT0 = true
				return "bi0." + f.Name
			}
			cl.args = func(*ctx, int) []*Expr { return nil }
			out = append(out, cl)
			continue
		}
		cl.target = i + 1
		if f.Pkg != pk && f.ParenFromA && !f.Method {
			cl.target = 0 // registered under a ParenExpr: resultsAt finds nothing to follow
		}
		cl.perr = []bool{false, true, false}
		cl.fun = func(c *ctx) string {
			switch {
			case f.Method && f.Pkg == pk:
				if c.encl.Method && g.r.Bool() {
					return "t." + f.Name
				}
				*c.needT0 = true
				return "t0." + f.Name
			case f.Method:
				*c.needBT0 = true
				return "bt0." + f.Name
			case f.Pkg != pk && f.ParenFromA:
				return "(b." + f.Name + ")"
			case f.Pkg != pk:
				return "b." + f.Name
			}
			return f.Name
		}
		cl.args = func(c *ctx, depth int) []*Expr {
			nArg := lit(core.Pick(g.r, []string{"1", "0", "2"}), Ty{K: "untyped"})
			if g.r.Bool() {
				nArg = val("n - 1", Ty{K: "int"})
			}
			eArg := g.expr(c, Ty{K: "error"}, depth+1)
			var cbArg *Expr
			switch {
			case c.encl.Cb == f.Cb && g.r.Chance(20):
				cbArg = ident("cb", Ty{K: "func", P: f.Cb}, true, c.encl.ObjCb)
			case g.r.Chance(15) || c.depth >= 2 || g.budget <= 0:
				cbArg = nilExpr()
			default:
				cbArg = g.funcLit(c, f.Cb)
			}
			return []*Expr{nArg, eArg, cbArg}
		}
		out = append(out, cl)
	}
	// specials
	sp := func(fun string, res []Ty, target int, perr []bool, args func(c *ctx, depth int) []*Expr) {
		if tupleAssignable(res, want) {
			out = append(out, callee{fun: func(*ctx) string { return fun }, res: res, target: target, kind: "special", perr: perr, args: args, issig: true})
		}
	}
	noArgs := func(*ctx, int) []*Expr { return nil }
	sp("errors.New", []Ty{{K: "error"}}, 1, []bool{false}, func(*ctx, int) []*Expr { return []*Expr{lit(`"x"`, Ty{K: "untyped"})} })
	sp("mk()", []Ty{{K: "error"}}, 0, nil, noArgs)
	sp("Wrap[any]", []Ty{{K: "any"}}, 0, []bool{false}, func(*ctx, int) []*Expr { return []*Expr{nilExpr()} })
	sp("Wrap", []Ty{{K: "error"}}, 0, []bool{true}, func(c *ctx, d int) []*Expr { return []*Expr{ident("e", Ty{K: "error"}, true, c.encl.ObjE)} })
	sp("new", []Ty{{K: "ptr", P: pk}}, 0, []bool{false}, func(*ctx, int) []*Expr { return []*Expr{val("T", Ty{K: "named", P: pk})} })
	if tupleAssignable(cbKinds[c.encl.Cb], want) {
		out = append(out, callee{fun: func(*ctx) string { return "cb" }, res: cbKinds[c.encl.Cb], kind: "special", args: noArgs, issig: true})
	}
	for cc := c; cc != nil; cc = cc.parent {
		for _, cv := range cc.clos {
			cv := cv
			f := g.p.Funcs[cv.f]
			if tupleAssignable(tysOf(f.Res), want) {
				out = append(out, callee{fun: func(*ctx) string { return cv.name }, res: tysOf(f.Res), target: cv.f + 1, kind: "special", args: noArgs, issig: true})
			}
		}
	}
	return out
}

func (g *gen) call(c *ctx, cl callee, depth int) *Expr {
	g.budget--
	e := &Expr{K: "call", Fun: cl.fun(c), IsSig: cl.issig, CRes: cl.res, PErr: cl.perr, Target: cl.target}
	e.Args = cl.args(c, depth)
	return e
}

// a function literal of callback kind k, added to the table
func (g *gen) funcLit(c *ctx, k int) *Expr {
	g.budget -= 2
	f := &Func{Name: "lit", Pkg: c.pkg, IsLit: true, Cb: c.encl.Cb}
	named := g.r.Chance(25)
	for i, t := range cbKinds[k] {
		rs := Res{Ty: t}
		if named {
			rs.Name = fmt.Sprintf("q%d", i)
			rs.Obj = g.newObj()
		}
		f.Res = append(f.Res, rs)
	}
	if named && g.r.Chance(40) {
		blankResults(g.r, f.Res)
	}
	g.p.Funcs = append(g.p.Funcs, f)
	id := len(g.p.Funcs) - 1
	cc := &ctx{f: f, encl: c.encl, parent: c, pkg: c.pkg, depth: c.depth + 1,
		needSt: c.needSt, needT0: c.needT0, needI0: c.needI0, needBT0: c.needBT0}
	g.body(cc, 1+g.r.Intn(2))
	return &Expr{K: "lit", F: id, Ty: Ty{K: "func", P: k}}
}

// expr: a value or a single-valued call, assignable to want
func (g *gen) expr(c *ctx, want Ty, depth int) *Expr {
	if c.litOnly {
		return g.valExpr(c, want)
	}
	if depth < 3 && g.budget > 0 && g.r.Chance(45) {
		cands := g.callees(c, []Ty{want})
		if len(cands) > 0 {
			// prefer table functions (recursion, closures) over the specials
			var tab []callee
			for _, cl := range cands {
				if cl.kind == "table" {
					tab = append(tab, cl)
				}
			}
			if len(tab) > 0 && g.r.Chance(70) {
				return g.call(c, core.Pick(g.r, tab), depth)
			}
			return g.call(c, core.Pick(g.r, cands), depth)
		}
	}
	if g.r.Chance(4) && (want.K == "error" || want.K == "any") { // a conversion: syntactically a call, not a signature
		return &Expr{K: "call", Fun: want.K, Args: []*Expr{nilExpr()}}
	}
	return g.valExpr(c, want)
}

func (g *gen) assignTargets(c *ctx) (lhs Lhs, ty Ty, ok bool) {
	type tg struct {
		l  Lhs
		ty Ty
	}
	var ts []tg
	pk := c.pkg
	for _, v := range c.visible() {
		w := 1
		switch {
		case v.own:
			w = 3
		case v.result: // a named result of an enclosing function, seen from a literal: not assigned
			w = 0
		}
		for i := 0; i < w; i++ {
			ts = append(ts, tg{Lhs{K: "ident", Src: v.name, Obj: v.obj, Ty: v.ty}, v.ty})
		}
	}
	ts = append(ts,
		tg{Lhs{K: "sel", Src: "st.e", Obj: objFieldE(pk), Ty: Ty{K: "error"}}, Ty{K: "error"}},
		tg{Lhs{K: "sel", Src: "st.a", Obj: objFieldA(pk), Ty: Ty{K: "any"}}, Ty{K: "any"}},
		tg{Lhs{K: "ident", Src: "_"}, Ty{K: "any"}},
	)
	t := core.Pick(g.r, ts)
	if t.l.K == "sel" {
		*c.needSt = true
	}
	return t.l, t.ty, true
}

func (g *gen) stmt(c *ctx, nest int) *Stmt {
	r := g.r
	k := r.Intn(100)
	switch {
	case k < 34: // assignment to a tracked place
		l, ty, _ := g.assignTargets(c)
		if r.Chance(30) && len(c.f.Res) > 0 { // a fresh local of a result type, so that returns can mention it
			rt := core.Pick(r, c.f.Res).Ty
			nl := g.newLocal(c, rt)
			l, ty = Lhs{K: "ident", Src: nl.name, Obj: nl.obj, Ty: rt}, rt
		}
		return &Stmt{K: "assign", Tok: "=", Lhs: []Lhs{l}, Rhs: []*Expr{g.expr(c, ty, 0)}}
	case k < 46: // multi-value define / assign from a call
		want := core.Pick(r, [][]Ty{{{K: "int"}, {K: "error"}}, {{K: "any"}, {K: "error"}}, {{K: "error"}, {K: "int"}, {K: "error"}}})
		cands := g.callees(c, want)
		if len(cands) == 0 || g.budget <= 0 {
			return g.stmt(c, nest)
		}
		cl := core.Pick(r, cands)
		s := &Stmt{K: "assign", Tok: ":="}
		s.Rhs = []*Expr{g.call(c, cl, 1)} // before the new names exist: they are not in scope in their own initialiser
		var uses []*Stmt
		for _, t := range cl.res {
			obj := g.newObj()
			nm := fmt.Sprintf("d%d", obj)
			c.scoped = append(c.scoped, local{nm, t, obj})
			s.Lhs = append(s.Lhs, Lhs{K: "ident", Src: nm, Obj: obj, Ty: t})
			uses = append(uses, &Stmt{K: "assign", Tok: "=", Lhs: []Lhs{{K: "ident", Src: "_"}}, Rhs: []*Expr{ident(nm, t, true, obj)}})
		}
		return &Stmt{K: "group", Head: "seq", Blocks: [][]*Stmt{append([]*Stmt{s}, uses...)}}
	case k < 52 && c.depth < 2 && g.budget > 0: // a closure variable that later calls can use
		kk := r.Intn(len(cbKinds))
		le := g.funcLit(c, kk)
		obj := g.newObj()
		nm := fmt.Sprintf("fc%d", obj)
		c.clos = append(c.clos, closVar{nm, le.F})
		s := &Stmt{K: "assign", Tok: ":=", Lhs: []Lhs{{K: "ident", Src: nm, Obj: obj, Ty: le.Ty}}, Rhs: []*Expr{le}}
		use := &Stmt{K: "assign", Tok: "=", Lhs: []Lhs{{K: "ident", Src: "_"}}, Rhs: []*Expr{ident(nm, le.Ty, true, obj)}}
		return &Stmt{K: "group", Head: "seq", Blocks: [][]*Stmt{{s, use}}}
	case k < 75: // return
		return g.ret(c)
	case k < 81 && !c.litOnly && len(g.shadowable(c, nest)) > 0:
		// a named result declared again in an inner scope: `r1 := <expr>` in a block (or in a literal) is a NEW
		// variable of the same name; what is assigned to it, and a `return r1` in its scope, say nothing about the
		// result r1, and a later bare return still reports the result's own assignments
		v := core.Pick(r, g.shadowable(c, nest))
		rhs := g.expr(c, v.ty, 0) // before the new name exists: `r1 := r1` mentions the outer variable
		// the new variable has the static type of its initialiser (`r1 := &E{}` is a *E, not an error); an untyped
		// constant or nil gives no usable type: the idiom `r1 := r1` instead
		st := rhs.Ty
		if rhs.K == "call" {
			st = Ty{}
			if len(rhs.CRes) == 1 {
				st = rhs.CRes[0]
			}
		}
		if st.K == "" || st.K == "untyped" || st.K == "nil" || r.Chance(25) {
			rhs, st = ident(v.name, v.ty, true, v.obj), v.ty
		}
		obj := g.newObj()
		c.scoped = append(c.scoped, local{v.name, st, obj})
		s := &Stmt{K: "assign", Tok: ":=", Lhs: []Lhs{{K: "ident", Src: v.name, Obj: obj, Ty: st}}, Rhs: []*Expr{rhs}}
		use := &Stmt{K: "assign", Tok: "=", Lhs: []Lhs{{K: "ident", Src: "_"}}, Rhs: []*Expr{ident(v.name, st, true, obj)}}
		return &Stmt{K: "group", Head: "seq", Blocks: [][]*Stmt{{s, use}}}
	case nest < 2:
		// every statement kind that can hold a return statement (the resolver's traversals must enter all of
		// them): if / else / else-if chains, expression and type switches, select, for, range, blocks - and any
		// of them under a label
		head := core.Pick(r, []string{"if", "if", "ifelse", "elseif", "switch", "typeswitch", "select", "for", "range", "block"})
		nb := 1
		switch head {
		case "ifelse":
			nb = 2
		case "elseif":
			nb = 2 + r.Intn(2)
		case "switch", "typeswitch", "select":
			nb = 1 + r.Intn(3)
		}
		s := &Stmt{K: "group", Head: head, Label: r.Chance(30)}
		for i := 0; i < nb; i++ {
			savedL, savedC := len(c.scoped), len(c.clos)
			var b []*Stmt
			for j := 1 + r.Intn(2); j > 0; j-- {
				b = append(b, g.stmt(c, nest+1))
			}
			s.Blocks = append(s.Blocks, b)
			c.scoped, c.clos = c.scoped[:savedL], c.clos[:savedC]
		}
		return s
	}
	return g.ret(c)
}

// shadowable: the named results that `name := ...` can declare again at this point: the results of the function
// being generated inside a nested block (at the top level of the body they are in the same scope), the results of
// the enclosing functions anywhere in a literal; not a name that this scope has already declared again
func (g *gen) shadowable(c *ctx, nest int) []visVar {
	var out []visVar
	for _, v := range c.visible() {
		if v.result && (nest > 0 || !v.own) {
			out = append(out, v)
		}
	}
	return out
}

func (g *gen) ret(c *ctx) *Stmt {
	r := g.r
	rs := c.f.Res
	if len(rs) == 0 {
		return &Stmt{K: "return", Bare: true}
	}
	if rs[0].Name != "" && r.Chance(45) && !c.litOnly && !c.resultHidden() {
		return &Stmt{K: "return", Bare: true}
	}
	if len(rs) >= 2 && !c.litOnly && g.budget > 0 && r.Chance(45) { // multi-value forwarding
		cands := g.callees(c, tysOf(rs))
		if len(cands) > 0 {
			return &Stmt{K: "return", Rhs: []*Expr{g.call(c, core.Pick(r, cands), 0)}}
		}
	}
	s := &Stmt{K: "return"}
	for _, x := range rs {
		s.Rhs = append(s.Rhs, g.expr(c, x.Ty, 0))
	}
	return s
}

// body: n statements, then a final return; declarations of the locals first
func (g *gen) body(c *ctx, n int) {
	var ss []*Stmt
	// the common shape of a function with named results: set (some of) them, then a bare return - every other
	// function with named results starts with assignments to its non-blank results and mostly ends in a bare return
	setFirst := len(c.f.Res) > 0 && c.f.Res[0].Name != "" && !c.litOnly && g.r.Chance(50)
	if setFirst {
		for _, rs := range c.f.Res {
			if rs.Name != "_" && g.r.Chance(70) {
				ss = append(ss, &Stmt{K: "assign", Tok: "=", Lhs: []Lhs{{K: "ident", Src: rs.Name, Obj: rs.Obj, Ty: rs.Ty}}, Rhs: []*Expr{g.expr(c, rs.Ty, 0)}})
			}
		}
	}
	for i := 0; i < n; i++ {
		ss = append(ss, g.stmt(c, 0))
	}
	if setFirst && g.r.Chance(70) {
		ss = append(ss, &Stmt{K: "return", Bare: true})
	} else {
		ss = append(ss, g.ret(c))
	}
	c.f.Body = append(c.decls, ss...)
}

func flattenSeq(ss []*Stmt) []*Stmt { // "seq" groups are only a generator convenience: splice them
	var out []*Stmt
	for _, s := range ss {
		if s.K == "group" {
			for i := range s.Blocks {
				s.Blocks[i] = flattenSeq(s.Blocks[i])
			}
			if s.Head == "seq" {
				out = append(out, s.Blocks[0]...)
				continue
			}
		}
		out = append(out, s)
	}
	return out
}

// generate one program.  mode biases towards one of the corner cases.
func generate(r *core.RNG, mode string) *Prog {
	p := &Prog{NObj: firstFreeObj, UseB: r.Chance(55) || mode == "cross"}
	g := &gen{r: r, p: p, mode: mode, budget: 14}
	// the prelude entry: errors.New
	p.Funcs = append(p.Funcs, &Func{Name: "New", Pkg: pkgErrors, Prelude: true, Res: []Res{{Ty: Ty{K: "error"}}},
		Body: []*Stmt{{K: "return", Rhs: []*Expr{val("&errorString{text}", Ty{K: "errimpl", P: pkgErrors})}}}})
	pkgs := []int{pkgA}
	if p.UseB {
		pkgs = []int{pkgB, pkgA}
	}
	for _, pk := range pkgs {
		p.Funcs = append(p.Funcs,
			&Func{Name: "One", Pkg: pk, Iface: true, Res: []Res{{Ty: Ty{K: "error"}}}},
			&Func{Name: "Two", Pkg: pk, Iface: true, Res: []Res{{Ty: Ty{K: "int"}}, {Ty: Ty{K: "error"}}}})
	}
	// headers
	for _, pk := range pkgs {
		nf := 2 + r.Intn(3)
		if pk == pkgB {
			nf = 1 + r.Intn(3)
		}
		for i := 0; i < nf; i++ {
			f := &Func{Name: fmt.Sprintf("F%d", len(p.Funcs)), Pkg: pk, Method: r.Chance(20)}
			f.ParenFromA = pk == pkgB && !f.Method && r.Chance(30)
			switch k := r.Intn(10); {
			case k < 4:
				f.Cb = 0
			case k < 7:
				f.Cb = 1
			case k < 9:
				f.Cb = 2
			default:
				f.Cb = 3
			}
			menu := core.Pick(r, resultMenus)
			switch mode {
			case "rec", "closure":
				menu = core.Pick(r, [][]string{{"int", "error"}, {"any", "error"}, {"error"}, {"error", "int", "error"}, {"error", "error"}, {"string", "error"},
					{"string", "string", "error"}, {"any", "any", "error"}, {"int", "int", "any", "error"}})
			case "literal":
				menu = core.Pick(r, [][]string{{"any"}, {"any", "any"}, {"int", "any", "error"}, {"iface"}, {"bool"}, {"int"}, {"string", "error"}, {"any", "error"}})
			}
			named := r.Chance(35) || (mode == "named" && r.Chance(70))
			f.Grouped = named && r.Chance(60)
			for j, k := range menu {
				rs := Res{Ty: mkTy(k, pk)}
				if named {
					rs.Name = fmt.Sprintf("r%d", j)
					rs.Obj = g.newObj()
				}
				f.Res = append(f.Res, rs)
			}
			if named && (r.Chance(35) || (mode == "named" && r.Chance(40))) {
				blankResults(r, f.Res)
			}
			f.ObjN, f.ObjE, f.ObjCb = g.newObj(), g.newObj(), g.newObj()
			f.ObjT = g.newObj()
			g.newObj() // st = ObjT + 1
			p.Funcs = append(p.Funcs, f)
		}
	}
	nDecl := len(p.Funcs)
	for i := 0; i < nDecl; i++ {
		f := p.Funcs[i]
		if f.Prelude || f.Iface {
			continue
		}
		var needSt, needT0, needI0, needBT0 bool
		c := &ctx{f: f, encl: f, pkg: f.Pkg, needSt: &needSt, needT0: &needT0, needI0: &needI0, needBT0: &needBT0}
		c.litOnly = mode == "literal" && r.Chance(80) || r.Chance(6)
		g.budget = 6 + r.Intn(8)
		n := r.Intn(4)
		if mode == "rec" || mode == "closure" {
			n = r.Intn(2)
		}
		g.body(c, n)
		var pre []*Stmt
		blank := func(src string, ty Ty, obj int) *Stmt {
			return &Stmt{K: "assign", Tok: "=", Lhs: []Lhs{{K: "ident", Src: "_"}}, Rhs: []*Expr{ident(src, ty, true, obj)}}
		}
		pk := f.Pkg
		if needSt {
			pre = append(pre, &Stmt{K: "assign", Tok: ":=", Lhs: []Lhs{{K: "ident", Src: "st", Obj: c.stObj(), Ty: Ty{K: "named", P: pk}}}, Rhs: []*Expr{val("T{}", Ty{K: "named", P: pk})}},
				blank("st", Ty{K: "named", P: pk}, c.stObj()))
		}
		if needT0 {
			o := g.newObj()
			pre = append(pre, &Stmt{K: "assign", Tok: ":=", Lhs: []Lhs{{K: "ident", Src: "t0", Obj: o, Ty: Ty{K: "ptr", P: pk}}}, Rhs: []*Expr{val("&T{}", Ty{K: "ptr", P: pk})}},
				blank("t0", Ty{K: "ptr", P: pk}, o))
		}
		if needI0 {
			o := g.newObj()
			pre = append(pre, &Stmt{K: "raw", Raw: "var i0 I"}, blank("i0", Ty{K: "iface"}, o))
		}
		if needBT0 {
			o := g.newObj()
			pre = append(pre, &Stmt{K: "assign", Tok: ":=", Lhs: []Lhs{{K: "ident", Src: "bt0", Obj: o, Ty: Ty{K: "ptr", P: pkgB}}}, Rhs: []*Expr{val("&b.T{}", Ty{K: "ptr", P: pkgB})}},
				blank("bt0", Ty{K: "ptr", P: pkgB}, o))
			o2 := g.newObj()
			pre = append(pre, &Stmt{K: "raw", Raw: "var bi0 b.I"}, blank("bi0", Ty{K: "iface"}, o2))
		}
		f.Body = append(pre, f.Body...)
	}
	for _, f := range p.Funcs {
		f.Body = flattenSeq(f.Body)
	}
	// every other program spreads its declarations over up to four files per package whose names sort before,
	// between and after the main file, so that calls stand in earlier AND later files than the declaration they
	// name; some functions are also called outside every body (variable initialiser / init) in a random file
	if r.Chance(50) || (mode == "literal" && r.Chance(50)) {
		spread(r, p)
	}
	p.Calls = callsOf(p)
	p.normalise()
	return p
}

func spread(r *core.RNG, p *Prog) {
	for i, f := range p.Funcs {
		if f.IsLit || f.Iface || f.Prelude {
			continue
		}
		f.File = r.Intn(nFiles)
		if !f.Method && r.Chance(35) {
			p.PkgCalls = append(p.PkgCalls, PkgCall{Pkg: f.Pkg, File: r.Intn(nFiles), F: i})
		}
	}
}

// callsOf: every declared function through its own package; functions of b also through a.
func callsOf(p *Prog) []CallIR {
	usedFromA := map[int]bool{}
	parenFromA := map[int]bool{}
	seenLit := map[int]bool{}
	var walkE func(e *Expr)
	var walkS func(ss []*Stmt)
	walkE = func(e *Expr) {
		if e == nil {
			return
		}
		if e.K == "call" && e.Target > 0 && len(e.Fun) > 2 && e.Fun[:2] == "b." {
			usedFromA[e.Target-1] = true
		}
		if e.K == "call" && len(e.Fun) > 3 && e.Fun[:3] == "(b." {
			for i, f := range p.Funcs {
				if f.Pkg == pkgB && !f.Method && e.Fun == "(b."+f.Name+")" {
					parenFromA[i] = true
				}
			}
		}
		// a function literal is part of the program only where it is printed: follow the literal expression
		// (a literal left in the table after its only use was removed - malform, Shrink - has no source text,
		// so a call of b.F in its body registers nothing in package a)
		if e.K == "lit" && e.F >= 0 && e.F < len(p.Funcs) && p.Funcs[e.F].IsLit && !seenLit[e.F] {
			seenLit[e.F] = true
			if p.Funcs[e.F].Pkg == pkgA {
				walkS(p.Funcs[e.F].Body)
			}
		}
		for _, a := range e.Args {
			walkE(a)
		}
	}
	walkS = func(ss []*Stmt) {
		for _, s := range ss {
			for _, e := range s.Rhs {
				walkE(e)
			}
			for _, b := range s.Blocks {
				walkS(b)
			}
		}
	}
	for _, f := range p.Funcs {
		if f.Pkg == pkgA && !f.IsLit {
			walkS(f.Body)
		}
	}
	var cs []CallIR
	for i, f := range p.Funcs {
		if f.IsLit || f.Prelude {
			continue
		}
		if f.Iface {
			cs = append(cs, CallIR{F: i, Via: f.Pkg, Entry: "sig"})
			continue
		}
		cs = append(cs, CallIR{F: i, Via: f.Pkg, Entry: "body"})
		if f.Pkg == pkgB && !f.Method {
			if usedFromA[i] {
				cs = append(cs, CallIR{F: i, Via: pkgA, Entry: "selector"})
			} else if parenFromA[i] {
				cs = append(cs, CallIR{F: i, Via: pkgA, Entry: "other"})
			} else {
				cs = append(cs, CallIR{F: i, Via: pkgA, Entry: "sig"})
			}
		}
	}
	return cs
}
