package c14

// The malformed stream (ill-typed programs that still parse and load with warnings) and the exhaustive
// small-scope enumeration of the thorough tier.

import (
	"fmt"

	"verifharness/internal/core"
)

// malform makes 1-2 return statements of declared functions ill-typed.
func malform(r *core.RNG, p *Prog) {
	p.Malformed = true
	var cands []*Func
	for _, f := range p.Funcs {
		if !f.IsLit && !f.Prelude && !f.Iface && len(f.Res) > 0 {
			cands = append(cands, f)
		}
	}
	if len(cands) == 0 {
		return
	}
	for k := 1 + r.Intn(2); k > 0; k-- {
		f := core.Pick(r, cands)
		var rets []*Stmt
		var walk func(ss []*Stmt)
		walk = func(ss []*Stmt) {
			for _, s := range ss {
				if s.K == "return" {
					rets = append(rets, s)
				}
				for _, b := range s.Blocks {
					walk(b)
				}
			}
		}
		walk(f.Body)
		if len(rets) == 0 {
			continue
		}
		s := core.Pick(r, rets)
		switch r.Intn(4) {
		case 0: // not enough values
			s.Bare = false
			if len(f.Res) >= 2 {
				s.Rhs = []*Expr{lit("1", Ty{K: "untyped"})}
			} else {
				s.Rhs = []*Expr{lit("1", Ty{K: "untyped"}), lit(`"x"`, Ty{K: "untyped"})}
			}
		case 1: // too many values
			s.Bare = false
			s.Rhs = nil
			for range f.Res {
				s.Rhs = append(s.Rhs, lit("2", Ty{K: "untyped"}))
			}
			s.Rhs = append(s.Rhs, lit("7", Ty{K: "untyped"}))
		case 2: // undefined callee: TypeOf(Fun) is invalid, not a signature
			s.Bare = false
			s.Rhs = []*Expr{{K: "call", Fun: "undefinedFn", Args: []*Expr{lit("1", Ty{K: "untyped"})}}}
		default: // forwarding a call with another number of results
			var other []int
			for i, g := range p.Funcs {
				if !g.IsLit && !g.Prelude && !g.Iface && g.Pkg == f.Pkg && !g.Method && len(g.Res) > 0 && len(g.Res) != len(f.Res) {
					other = append(other, i)
				}
			}
			if len(other) == 0 {
				s.Bare = false
				s.Rhs = []*Expr{{K: "call", Fun: "undefinedFn", Args: nil}}
				break
			}
			gi := core.Pick(r, other)
			g := p.Funcs[gi]
			s.Bare = false
			s.Rhs = []*Expr{{K: "call", Fun: g.Name, IsSig: true, CRes: tysOf(g.Res), PErr: []bool{false, true, false}, Target: gi + 1,
				Args: []*Expr{lit("1", Ty{K: "untyped"}), nilExpr(), nilExpr()}}}
		}
	}
	p.Calls = callsOf(p)
}

// enumSmall: every program of two functions F, G over three result tuples whose bodies are
// [if n > 0 { return <literals> }] return <call of F or G, with or without a closure argument>.
func enumSmall() []*Prog {
	tuples := [][]Ty{{{K: "error"}}, {{K: "int"}, {K: "error"}}, {{K: "any"}, {K: "error"}}}
	type shape struct {
		callee  int // 0 = F, 1 = G
		closure bool
		base    bool
	}
	var shapes []shape
	for c := 0; c < 2; c++ {
		for _, cl := range []bool{false, true} {
			for _, b := range []bool{false, true} {
				shapes = append(shapes, shape{c, cl, b})
			}
		}
	}
	litsFor := func(ts []Ty) []*Expr {
		var es []*Expr
		for _, t := range ts {
			switch t.K {
			case "int":
				es = append(es, lit("0", Ty{K: "untyped"}))
			case "any":
				es = append(es, lit(`"s"`, Ty{K: "untyped"}))
			default:
				es = append(es, nilExpr())
			}
		}
		return es
	}
	var out []*Prog
	for _, tf := range tuples {
		for _, tg := range tuples {
			for _, sf := range shapes {
				for _, sg := range shapes {
					p := baseProg(false)
					fi := len(p.Funcs)
					gi := fi + 1
					ts := [][]Ty{tf, tg}
					ok := true
					var bodies [2][]*Stmt
					var lits []*Func
					for k, sh := range []shape{sf, sg} {
						own, cal := ts[k], ts[sh.callee]
						var cb *Expr = nilExpr()
						if sh.closure {
							lf := &Func{Name: "lit", Pkg: pkgA, IsLit: true, Cb: 1, Res: []Res{{Ty: Ty{K: "int"}}, {Ty: Ty{K: "error"}}},
								Body: []*Stmt{ret(lit("1", Ty{K: "untyped"}), val("&E{}", Ty{K: "errimpl", P: pkgA}))}}
							lits = append(lits, lf)
							cb = &Expr{K: "lit", F: gi + len(lits), Ty: Ty{K: "func", P: 1}}
						}
						call := tcall([]string{"F", "G"}[sh.callee], fi+sh.callee, cal, val("n - 1", Ty{K: "int"}), nilExpr(), cb)
						var last *Stmt
						switch {
						case tupleAssignable(cal, own):
							last = ret(call)
						case len(cal) == 1 && len(own) == 2:
							last = ret(litsFor(own)[0], call)
						default:
							ok = false
						}
						if sh.base {
							bodies[k] = append(bodies[k], &Stmt{K: "group", Head: "if", Blocks: [][]*Stmt{{ret(litsFor(own)...)}}})
						}
						bodies[k] = append(bodies[k], last)
					}
					if !ok {
						continue
					}
					mkRes := func(ts []Ty) []Res {
						var rs []Res
						for _, t := range ts {
							rs = append(rs, Res{Ty: t})
						}
						return rs
					}
					tableFn(p, "F", pkgA, 1, mkRes(tf), bodies[0])
					tableFn(p, "G", pkgA, 1, mkRes(tg), bodies[1])
					p.Funcs = append(p.Funcs, lits...)
					// the two declarations in one file, and in two files in both orders
					switch len(out) % 4 {
					case 1:
						p.Funcs[gi].File = 1
					case 2:
						p.Funcs[fi].File = 3
					case 3:
						p.Funcs[fi].File, p.Funcs[gi].File = 1, 2
					}
					p.Calls = callsOf(p)
					out = append(out, p)
				}
			}
		}
	}
	_ = fmt.Sprint
	return out
}
