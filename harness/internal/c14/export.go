package c14

// The "src" program families, for other checks that need packages with interesting ResultsOf shapes (C05 renders the
// answers of the run's shared Universe into generated files and compares them alone vs. together).

import "verifharness/internal/core"

// SrcModule is the module path the import paths of SrcPkg.Imports are written against.
const SrcModule = srcModule

// SrcProgram draws a program of the named family: "trans" (a -> b -> c (-> d): results that come from methods and
// interface methods declared in transitively imported packages) or "variadic" (a -> b: variadic callees, spread calls).
func SrcProgram(r *core.RNG, family string) *SrcProg {
	if family == "variadic" {
		return genVariadic(r, false)
	}
	return genTrans(r)
}

// StdAnchor: the declaration that keeps a standard-library import of a SrcPkg in use ("" for other paths).
func StdAnchor(importPath string) string { return stdAnchors[importPath] }
