package c14

// Printing the IR as Go source (recording the file offsets the resolver compares) and as a Coq term.

import (
	"bytes"
	"fmt"
	"go/token"
	gotypes "go/types"
	"sort"
	"strings"

	"verifharness/internal/core"
)

type printer struct {
	p      *Prog
	buf    bytes.Buffer
	pkg    int
	file   int // file of the package (Func.File)
	nlabel int // labels are numbered per file in print order
}

// at: the position of the next byte: (rank of the file in file-name order, offset); remapped to the order of
// the loaded FileSet by Prog.posMap when the Coq term is printed
func (pr *printer) at() int { return fileRank[pr.file]<<posShift | pr.buf.Len() }

// usesErrors: some body of package pk calls errors.New (importing "errors" makes packages.Load parse and
// type-check package runtime from source, ~1 s per program: only programs that need it pay for it)
func (p *Prog) usesErrors(pk int) bool {
	found := false
	var walkE func(e *Expr)
	var walkS func(ss []*Stmt)
	walkE = func(e *Expr) {
		if e == nil {
			return
		}
		if e.K == "call" && e.Fun == "errors.New" {
			found = true
		}
		for _, a := range e.Args {
			walkE(a)
		}
	}
	walkS = func(ss []*Stmt) {
		for _, s := range ss {
			for _, e := range s.Rhs {
				walkE(e)
			}
			for _, b := range s.Blocks {
				walkS(b)
			}
		}
	}
	for _, f := range p.Funcs {
		if f.Pkg == pk {
			walkS(f.Body)
		}
	}
	return found
}

func prelude(p int, useB bool, useErrors bool) string {
	var b strings.Builder
	fmt.Fprintf(&b, "package %s\n\n", pkgName(p))
	if useErrors {
		b.WriteString("import \"errors\"\n\n")
	}
	if p == pkgA && useB {
		fmt.Fprintf(&b, "import %q\n\n", pkgPath(pkgB))
	}
	if useErrors {
		b.WriteString("var _ = errors.New\n")
	}
	if p == pkgA && useB {
		b.WriteString("var _ b.T\n")
	}
	b.WriteString(`
type E struct{ msg string }

func (*E) Error() string { return "e" }

type T struct {
	e error
	a any
	s string
}

type I interface {
	One() error
	Two() (int, error)
}

func Wrap[X any](x X) X { return x }

func mk() func() error { return nil }

var Local error = &E{}

`)
	return b.String()
}

func varsFile(p int) string {
	return fmt.Sprintf("package %s\n\nvar Sentinel error = &E{}\n", pkgName(p))
}

// header of a file other than the main one: the same imports (kept used), no declarations
func extraHeader(p int, useB bool, useErrors bool) string {
	var b strings.Builder
	fmt.Fprintf(&b, "package %s\n\n", pkgName(p))
	if useErrors {
		b.WriteString("import \"errors\"\n\n")
	}
	if p == pkgA && useB {
		fmt.Fprintf(&b, "import %q\n\n", pkgPath(pkgB))
	}
	if useErrors {
		b.WriteString("var _ = errors.New\n")
	}
	if p == pkgA && useB {
		b.WriteString("var _ b.T\n")
	}
	b.WriteString("\n")
	return b.String()
}

// files prints the user packages; positions are stored in the IR nodes.
func (p *Prog) files() map[string]string {
	out := map[string]string{}
	out["go.mod"] = "module " + modPath + "\n\ngo 1.24.2\n"
	for _, pk := range []int{pkgB, pkgA} {
		if pk == pkgB && !p.UseB {
			continue
		}
		for k := 0; k < nFiles; k++ {
			pr := &printer{p: p, pkg: pk, file: k}
			if k == 0 {
				pr.buf.WriteString(prelude(pk, p.UseB, p.usesErrors(pk)))
			} else {
				pr.buf.WriteString(extraHeader(pk, p.UseB, p.usesErrors(pk)))
			}
			n := 0
			for _, c := range p.PkgCalls {
				if c.Pkg != pk || clampFile(c.File) != k || c.F < 0 || c.F >= len(p.Funcs) {
					continue
				}
				f := p.Funcs[c.F]
				if f.Pkg != pk || f.IsLit || f.Iface || f.Prelude || f.Method {
					continue
				}
				n++
				if len(f.Res) == 0 {
					fmt.Fprintf(&pr.buf, "func init() { %s(0, nil, nil) }\n\n", f.Name)
				} else {
					fmt.Fprintf(&pr.buf, "var %s = %s(0, nil, nil)\n\n", strings.TrimSuffix(strings.Repeat("_, ", len(f.Res)), ", "), f.Name)
				}
			}
			for _, f := range p.Funcs {
				if f.Pkg != pk || f.IsLit || f.Iface || f.Prelude || clampFile(f.File) != k {
					continue
				}
				n++
				pr.fn(f)
			}
			if k == 0 || n > 0 {
				out[pkgName(pk)+"/"+fileName(pk, k)] = pr.buf.String()
			}
		}
		out[pkgName(pk)+"/vars.go"] = varsFile(pk)
	}
	return out
}

func (pr *printer) results(rs []Res, grouped bool) string {
	if len(rs) == 0 {
		return ""
	}
	var s []string
	named := false
	for i, r := range rs {
		if r.Name != "" {
			named = true
			if grouped && i+1 < len(rs) && rs[i+1].Name != "" && tyGo(rs[i+1].Ty, pr.pkg) == tyGo(r.Ty, pr.pkg) {
				s = append(s, r.Name) // `r0, r1 T`
				continue
			}
			s = append(s, r.Name+" "+tyGo(r.Ty, pr.pkg))
		} else {
			s = append(s, tyGo(r.Ty, pr.pkg))
		}
	}
	if len(s) == 1 && !named {
		return " " + s[0]
	}
	return " (" + strings.Join(s, ", ") + ")"
}

func (pr *printer) fn(f *Func) {
	w := &pr.buf
	w.WriteString("func ")
	if f.Method {
		w.WriteString("(t *T) ")
	}
	fmt.Fprintf(w, "%s(n int, e error, cb %s)%s {\n", f.Name, tyGo(Ty{K: "func", P: f.Cb}, pr.pkg), pr.results(f.Res, f.Grouped))
	pr.stmts(f.Body)
	w.WriteString("}\n\n")
}

func (pr *printer) stmts(ss []*Stmt) {
	for _, s := range ss {
		pr.stmt(s)
	}
}

func (pr *printer) stmt(s *Stmt) {
	w := &pr.buf
	switch s.K {
	case "raw":
		w.WriteString(s.Raw)
		w.WriteString("\n")
	case "assign":
		s.pos = pr.at()
		for i, l := range s.Lhs {
			if i > 0 {
				w.WriteString(", ")
			}
			w.WriteString(l.Src)
		}
		w.WriteString(" " + s.Tok + " ")
		pr.exprs(s.Rhs)
		w.WriteString("\n")
	case "return":
		s.pos = pr.at()
		w.WriteString("return")
		if !s.Bare {
			w.WriteString(" ")
			pr.exprs(s.Rhs)
		}
		s.end = pr.at()
		w.WriteString("\n")
	case "group":
		// A labeled statement `L7: for … {` is one more grouping node around the statement (ast.LabeledStmt):
		// the resolver's traversals must enter it.  go/types rejects an unused label, so the first block starts
		// with a use that holds no assignment and no return (no event for the model).
		use := ""
		if s.Label {
			pr.nlabel++
			l := fmt.Sprintf("L%d", pr.nlabel)
			fmt.Fprintf(w, "%s:\n", l)
			switch s.Head {
			case "for", "range":
				use = "if n > 100 {\ncontinue " + l + "\n}\n"
			case "switch", "typeswitch", "select":
				use = "if n > 100 {\nbreak " + l + "\n}\n"
			default:
				use = "if n > 100 {\ngoto " + l + "\n}\n"
			}
		}
		block := func(i int) {
			if i == 0 {
				w.WriteString(use)
			}
			pr.stmts(s.Blocks[i])
		}
		switch s.Head {
		case "if":
			w.WriteString("if n > 0 {\n")
			block(0)
			w.WriteString("}\n")
		case "ifelse":
			w.WriteString("if n > 1 {\n")
			block(0)
			w.WriteString("} else {\n")
			block(1)
			w.WriteString("}\n")
		case "elseif": // the else branch is itself an *ast.IfStmt; the last block is the final else
			for i := range s.Blocks {
				switch {
				case i == 0:
					w.WriteString("if n > 9 {\n")
				case i == len(s.Blocks)-1 && i > 1:
					w.WriteString("} else {\n")
				default:
					fmt.Fprintf(w, "} else if n > %d {\n", 9-i)
				}
				block(i)
			}
			w.WriteString("}\n")
		case "switch", "typeswitch", "select":
			switch s.Head {
			case "switch":
				w.WriteString("switch n {\n")
			case "typeswitch":
				w.WriteString("switch any(n).(type) {\n")
			default:
				w.WriteString("select {\n")
			}
			for i := range s.Blocks {
				switch {
				case i == len(s.Blocks)-1 && i > 0:
					w.WriteString("default:\n")
				case s.Head == "switch":
					fmt.Fprintf(w, "case %d:\n", i)
				case s.Head == "typeswitch":
					fmt.Fprintf(w, "case %s:\n", []string{"int", "string", "bool", "error"}[i%4])
				default:
					w.WriteString("case <-make(chan int):\n")
				}
				block(i)
			}
			w.WriteString("}\n")
		case "for":
			w.WriteString("for n > 2 {\n")
			block(0)
			w.WriteString("}\n")
		case "range":
			w.WriteString("for range []int{1, 2} {\n")
			block(0)
			w.WriteString("}\n")
		default:
			w.WriteString("{\n")
			block(0)
			w.WriteString("}\n")
		}
	}
}

func (pr *printer) exprs(es []*Expr) {
	for i, e := range es {
		if i > 0 {
			pr.buf.WriteString(", ")
		}
		pr.expr(e)
	}
}

func (pr *printer) expr(e *Expr) {
	w := &pr.buf
	e.pos = pr.at()
	switch e.K {
	case "val":
		w.WriteString(e.Src)
	case "call":
		w.WriteString(e.Fun)
		w.WriteString("(")
		pr.exprs(e.Args)
		w.WriteString(")")
	case "lit":
		f := pr.p.Funcs[e.F]
		fmt.Fprintf(w, "func()%s {\n", pr.results(f.Res, f.Grouped))
		pr.stmts(f.Body)
		w.WriteString("}")
	}
}

// ---- the expected text of a value expression ----

// constText evaluates a literal expression with go/types in the universe scope: the property's "those values".
func constText(src string) (txt string, isConst bool, ok bool) {
	tv, err := gotypes.Eval(token.NewFileSet(), nil, token.NoPos, src)
	if err != nil {
		return "", false, false
	}
	if tv.Value != nil {
		return tv.Value.String(), true, true
	}
	if tv.Type != nil {
		return tv.Type.String(), false, true
	}
	return "", false, false
}

func (e *Expr) text() (string, bool) {
	if e.Txt != "" {
		return e.Txt, e.Const
	}
	if e.Lit {
		if t, c, ok := constText(e.Src); ok {
			return t, c
		}
	}
	return tyString(e.Ty), false
}

// ---- Coq ----

type coqEmitter struct {
	p   *Prog
	pkg int
}

// pos: a recorded position in the order of the loaded FileSet (Prog.ranks: per package, file rank by name ->
// rank by base offset; nil = files were added to the FileSet in name order)
func (c *coqEmitter) pos(at int) int {
	rk, off := at>>posShift, at&(1<<posShift-1)
	if m := c.p.ranks[c.pkg]; m != nil {
		if r, ok := m[rk]; ok {
			rk = r
		}
	}
	return rk<<posShift | off
}

func (c *coqEmitter) alt(e *Expr) string {
	txt, isConst := e.text()
	x := "XOther"
	switch e.X {
	case "ident":
		x = fmt.Sprintf("(XIdent %s %d)", core.CoqBool(e.Rslv), e.Obj)
	case "sel":
		x = fmt.Sprintf("(XSel %d)", e.Obj)
	}
	ty := tyCoq(e.Ty)
	if isConst {
		ty = "TUntyped"
	}
	return fmt.Sprintf("(mk_alt %s %s %s %s %d %d)", core.Hex(txt), core.CoqBool(isConst), ty, x, c.pkg, c.pos(e.pos))
}

func rdeclCoq(r Res) string {
	obj := "None"
	if r.Name != "" {
		obj = fmt.Sprintf("(Some %d%%N)", r.Obj)
	}
	return fmt.Sprintf("(mk_rdecl %s %s %s)", tyCoq(r.Ty), core.Hex(tyString(r.Ty)), obj)
}

func rdeclsCoq(rs []Res) string {
	var s []string
	for _, r := range rs {
		s = append(s, rdeclCoq(r))
	}
	return core.CoqList(s)
}

func (c *coqEmitter) expr(e *Expr) string {
	switch e.K {
	case "call":
		var rs []string
		for _, t := range e.CRes {
			rs = append(rs, rdeclCoq(Res{Ty: t}))
		}
		var pe []string
		for _, b := range e.PErr {
			pe = append(pe, core.CoqBool(b))
		}
		tg := "TgNone"
		if e.Target > 0 {
			tg = fmt.Sprintf("(TgBody %d)", e.Target-1)
		}
		var as []string
		for _, a := range e.Args {
			as = append(as, c.expr(a))
		}
		return fmt.Sprintf("(ECall (mk_call %s %s %s %s %d %d) %s)", core.CoqBool(e.IsSig), core.CoqList(rs), core.CoqList(pe), tg, c.pkg, c.pos(e.pos), core.CoqList(as))
	case "lit":
		return fmt.Sprintf("(EFuncLit %d %s)", e.F, c.alt(e))
	}
	return "(EVal " + c.alt(e) + ")"
}

func (c *coqEmitter) exprs(es []*Expr) string {
	var s []string
	for _, e := range es {
		s = append(s, c.expr(e))
	}
	return core.CoqList(s)
}

func (c *coqEmitter) stmts(ss []*Stmt) string {
	var out []string
	for _, s := range ss {
		switch s.K {
		case "assign":
			var ls []string
			for _, l := range s.Lhs {
				o := "None"
				if l.Obj != 0 {
					o = fmt.Sprintf("(Some %d%%N)", l.Obj)
				}
				switch l.K {
				case "ident":
					ls = append(ls, "LIdent "+o)
				case "sel":
					ls = append(ls, "LSel "+o)
				default:
					ls = append(ls, "LOther")
				}
			}
			out = append(out, fmt.Sprintf("SAssign (mk_assign %d %s %s)", c.pos(s.pos), core.CoqList(ls), c.exprs(s.Rhs)))
		case "return":
			if s.Bare {
				out = append(out, fmt.Sprintf("SReturn %d None", c.pos(s.end)))
			} else {
				out = append(out, fmt.Sprintf("SReturn %d (Some %s)", c.pos(s.end), c.exprs(s.Rhs)))
			}
		case "group":
			var bs []string
			for _, b := range s.Blocks {
				bs = append(bs, "SGroup "+c.stmts(b))
			}
			out = append(out, "SGroup "+core.CoqList(bs))
		}
	}
	return core.CoqList(out)
}

func (p *Prog) coqProg() string {
	var fs []string
	for _, f := range p.Funcs {
		c := &coqEmitter{p: p, pkg: f.Pkg}
		body := "None"
		if !f.Iface {
			body = "(Some " + c.stmts(f.Body) + ")"
		}
		fs = append(fs, fmt.Sprintf("mk_fdef %d %s %s", f.Pkg, rdeclsCoq(f.Res), body))
	}
	return "[" + strings.Join(fs, ";\n   ") + "]"
}

// otysCoq: the type of every object an identifier, selector or assigned place of the program denotes
func (p *Prog) otysCoq() string {
	m := map[int]Ty{objNil: {K: "nil"}, objTrue: {K: "bool"}, objFalse: {K: "bool"}}
	var walkE func(e *Expr)
	var walkS func(ss []*Stmt)
	walkE = func(e *Expr) {
		if e == nil {
			return
		}
		if (e.X == "ident" || e.X == "sel") && e.Obj > objFalse {
			m[e.Obj] = e.Ty
		}
		for _, a := range e.Args {
			walkE(a)
		}
	}
	walkS = func(ss []*Stmt) {
		for _, s := range ss {
			for _, l := range s.Lhs {
				if l.Obj != 0 {
					m[l.Obj] = l.Ty
				}
			}
			for _, e := range s.Rhs {
				walkE(e)
			}
			for _, b := range s.Blocks {
				walkS(b)
			}
		}
	}
	for _, f := range p.Funcs {
		for _, r := range f.Res {
			if r.Name != "" {
				m[r.Obj] = r.Ty
			}
		}
		walkS(f.Body)
	}
	keys := make([]int, 0, len(m))
	for k := range m {
		keys = append(keys, k)
	}
	sort.Ints(keys)
	var s []string
	for _, k := range keys {
		s = append(s, fmt.Sprintf("(%d%%N, %s)", k, tyCoq(m[k])))
	}
	return core.CoqList(s)
}

func entryCoq(c CallIR) string {
	switch c.Entry {
	case "body":
		return fmt.Sprintf("(EnBody %d)", c.F)
	case "selector":
		return fmt.Sprintf("(EnSelector (Some %d%%nat))", c.F)
	case "sig":
		return "EnSig"
	}
	return "EnOther"
}
