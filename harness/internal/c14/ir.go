package c14

// The intermediate representation of a generated program: the model's input (Coq: Gengo.Model.ResultsOf.prog)
// plus what is needed to print it as Go.  The IR is the source of truth: the Go files and the Coq term are
// both derived from it (print.go / coq.go).

import (
	"fmt"
	"strings"
)

// Ty is a type of the tiny type language.  K: int string bool error any iface named ptr errimpl func nil untyped.
// P is the package index for named/ptr/errimpl, the kind for func.
type Ty struct {
	K string `json:"k"`
	P int    `json:"p,omitempty"`
}

// package indices
const (
	pkgErrors = 0 // the standard library package "errors" (only errors.New is in the table)
	pkgB      = 1 // x.io/c14/b, imports nothing but errors
	pkgA      = 2 // x.io/c14/a, imports b
)

const modPath = "x.io/c14"

func pkgPath(p int) string {
	switch p {
	case pkgErrors:
		return "errors"
	case pkgB:
		return modPath + "/b"
	}
	return modPath + "/a"
}

func pkgName(p int) string {
	switch p {
	case pkgErrors:
		return "errors"
	case pkgB:
		return "b"
	}
	return "a"
}

// cbKinds: the func types a callback parameter can have
var cbKinds = [][]Ty{
	{{K: "error"}},
	{{K: "int"}, {K: "error"}},
	{{K: "error"}, {K: "int"}, {K: "error"}},
	{{K: "int"}},
}

func tyGo(t Ty, from int) string { // Go source of the type as written in package `from`
	q := func(n string) string {
		if t.P == from {
			return n
		}
		return pkgName(t.P) + "." + n
	}
	switch t.K {
	case "int", "string", "bool", "error", "any":
		return t.K
	case "iface":
		return "interface{}"
	case "named":
		return q("T")
	case "ptr":
		return "*" + q("T")
	case "errimpl":
		if t.P == pkgErrors {
			return "*errors.errorString"
		}
		return "*" + q("E")
	case "func":
		return "func() " + tupleGo(cbKinds[t.P], from)
	}
	return "invalid"
}

func tupleGo(ts []Ty, from int) string {
	if len(ts) == 0 {
		return ""
	}
	var s []string
	for _, t := range ts {
		s = append(s, tyGo(t, from))
	}
	if len(ts) == 1 {
		return s[0]
	}
	return "(" + strings.Join(s, ", ") + ")"
}

func tyString(t Ty) string { // types.Type.String()
	switch t.K {
	case "int", "string", "bool", "error", "any":
		return t.K
	case "iface":
		return "interface{}"
	case "named":
		return pkgPath(t.P) + ".T"
	case "ptr":
		return "*" + pkgPath(t.P) + ".T"
	case "errimpl":
		if t.P == pkgErrors {
			return "*errors.errorString"
		}
		return "*" + pkgPath(t.P) + ".E"
	case "func":
		var s []string
		for _, r := range cbKinds[t.P] {
			s = append(s, tyString(r))
		}
		if len(s) == 1 {
			return "func() " + s[0]
		}
		return "func() (" + strings.Join(s, ", ") + ")"
	case "nil":
		return "untyped nil"
	}
	return "invalid type"
}

func tyCoq(t Ty) string {
	switch t.K {
	case "int":
		return "TInt"
	case "string":
		return "TString"
	case "bool":
		return "TBool"
	case "error":
		return "TError"
	case "any":
		return "TAny"
	case "iface":
		return "TEmptyIface"
	case "named":
		return fmt.Sprintf("(TNamed %d)", t.P)
	case "ptr":
		return fmt.Sprintf("(TPtr %d)", t.P)
	case "errimpl":
		return fmt.Sprintf("(TErrImpl %d)", t.P)
	case "func":
		return fmt.Sprintf("(TFunc %d)", t.P)
	case "nil":
		return "TNil"
	}
	return "TUntyped"
}

// assignable mirrors the model's `assignable` (used by the generator to stay well-typed)
func assignable(a, b Ty) bool {
	if a == b {
		return a.K != "untyped" || true
	}
	if (b.K == "any" || b.K == "iface") && a.K != "untyped" {
		return true
	}
	if b.K == "error" && a.K == "errimpl" {
		return true
	}
	if a.K == "nil" {
		switch b.K {
		case "error", "any", "iface", "ptr", "errimpl", "func":
			return true
		}
	}
	return false
}

// Res is a declared result.
type Res struct {
	Ty   Ty     `json:"ty"`
	Name string `json:"name,omitempty"`
	Obj  int    `json:"obj,omitempty"` // object id of the name (named results)
}

// Expr kinds: "val" (anything that is not a call: Package.Eval decides), "call", "lit" (function literal).
type Expr struct {
	K string `json:"k"`
	// val (and the Eval view of lit)
	Src   string `json:"src,omitempty"` // Go source
	Txt   string `json:"txt,omitempty"` // expected Result.String(); "" = computed from Ty / constant evaluation
	Const bool   `json:"const,omitempty"`
	Lit   bool   `json:"lit,omitempty"` // a literal expression in the property's sense (literals, true/false/nil, operators on them)
	Ty    Ty     `json:"ty"`
	X     string `json:"x,omitempty"` // "", "ident", "sel"
	Rslv  bool   `json:"rslv,omitempty"`
	Obj   int    `json:"obj,omitempty"`
	// call
	Fun    string  `json:"fun,omitempty"` // source of the Fun expression
	IsSig  bool    `json:"sig,omitempty"`
	CRes   []Ty    `json:"cres,omitempty"`
	PErr   []bool  `json:"perr,omitempty"`
	Target int     `json:"target,omitempty"` // table index + 1; 0 = none
	Args   []*Expr `json:"args,omitempty"`
	// lit
	F int `json:"f,omitempty"`

	pos int
}

type Lhs struct {
	K   string `json:"k"` // "ident", "sel", "other"
	Src string `json:"src"`
	Obj int    `json:"obj,omitempty"` // 0 = nil object (blank identifier of a plain assignment)
	Ty  Ty     `json:"ty"`            // type of the object
}

// Stmt kinds: "assign" (Tok "=" or ":="), "return" (Rhs == nil and Bare: bare return), "group" (Head + Blocks), "raw" (no event).
type Stmt struct {
	K      string    `json:"k"`
	Tok    string    `json:"tok,omitempty"`
	Lhs    []Lhs     `json:"lhs,omitempty"`
	Rhs    []*Expr   `json:"rhs,omitempty"`
	Bare   bool      `json:"bare,omitempty"`
	Head   string    `json:"head,omitempty"`  // "if", "ifelse", "elseif", "switch", "typeswitch", "select", "for", "range", "block"
	Label  bool      `json:"label,omitempty"` // group only: the statement carries a label (`L3: for … {`), used inside its first block
	Blocks [][]*Stmt `json:"blocks,omitempty"`
	Raw    string    `json:"raw,omitempty"`

	pos, end int
}

type Func struct {
	Name   string `json:"name"`
	Pkg    int    `json:"pkg"`
	Method bool   `json:"method,omitempty"` // method of *T (receiver t)
	IsLit  bool   `json:"is_lit,omitempty"` // function literal (printed where it is used)
	Iface  bool   `json:"iface,omitempty"`  // method of interface I: no body, not in the model's table as a body
	Cb     int    `json:"cb"`               // kind of the callback parameter (index into cbKinds)
	Res    []Res  `json:"res"`
	// named results of equal type are printed as one field, `(r0, r1 string, r2 error)`: the number of
	// result FIELDS is then smaller than the number of results
	Grouped bool    `json:"grouped,omitempty"`
	Body    []*Stmt `json:"body"`
	Prelude bool    `json:"prelude,omitempty"` // errors.New: in the table, not printed
	// a function of package b that package a only ever calls as (b.F)(...): the node registered for its
	// signature in a is then a ParenExpr, a kind the resolver does not handle
	ParenFromA bool `json:"paren_from_a,omitempty"`
	// object ids of the parameters n, e, cb and of the receiver t (functions and methods; literals have none)
	// File: which file of its package the declaration is printed in (0 = the main file a.go / b.go, which also
	// holds the prelude; 1 = 0first.go, sorts before the main file; 2 = mid.go, between the main file and vars.go;
	// 3 = zlast.go, after vars.go).  Function literals live where they are used.
	File  int `json:"file,omitempty"`
	ObjN  int `json:"obj_n,omitempty"`
	ObjE  int `json:"obj_e,omitempty"`
	ObjCb int `json:"obj_cb,omitempty"`
	ObjT  int `json:"obj_t,omitempty"`
}

// CallIR names one ResultsOf call of the case.
type CallIR struct {
	F     int    `json:"f"`     // table index of the function
	Via   int    `json:"via"`   // package ResultsOf is called on
	Entry string `json:"entry"` // "body", "selector", "sig", "other" (what signatures[sig] of Via leads to)
}

// PkgCall is a call of a package-level function of the SAME package outside every function body, printed at the
// top of file File of package Pkg: `var _, _ = F(0, nil, nil)` (`func init() { F(0, nil, nil) }` for a function
// without results).  No event for the model: a call of a declared function registers nothing.
type PkgCall struct {
	Pkg  int `json:"pkg"`
	File int `json:"file"`
	F    int `json:"f"` // table index
}

type Prog struct {
	Funcs []*Func  `json:"funcs"`
	Calls []CallIR `json:"calls"`
	// calls in package-level variable initialisers / init functions (multi-file programs)
	PkgCalls []PkgCall `json:"pkg_calls,omitempty"`
	NObj     int       `json:"nobj"`
	UseB     bool      `json:"use_b"`
	// ill-typed on purpose (the malformed stream): assignability of the alternatives is not checked
	Malformed bool `json:"malformed,omitempty"`

	// per package: rank of a file in name order -> rank in the order of the loaded FileSet (observed)
	ranks map[int]map[int]int
	// object ids of the fixed prelude: per package the fields of T and the package variables
}

// fixed object ids of the prelude (per package p in {pkgB, pkgA}: base 10*p)
func objFieldE(p int) int   { return 10*p + 1 }
func objFieldA(p int) int   { return 10*p + 2 }
func objFieldS(p int) int   { return 10*p + 3 }
func objLocalVar(p int) int { return 10*p + 4 } // var Local error, declared in the same file
func objSentinel(p int) int { return 10*p + 5 } // var Sentinel error, declared in vars.go
const (
	objNil       = 1
	objTrue      = 2
	objFalse     = 3
	firstFreeObj = 40
)

// ---- files of a package ----

const nFiles = 4

// fileName of file k of package p; fileRank[k] is its place in file-name order (the order of Package.Syntax):
// 0first.go < a.go|b.go < mid.go < vars.go < zlast.go
func fileName(p, k int) string {
	switch k {
	case 1:
		return "0first.go"
	case 2:
		return "mid.go"
	case 3:
		return "zlast.go"
	}
	return pkgName(p) + ".go"
}

var fileRank = [nFiles]int{1, 0, 2, 3}

func clampFile(k int) int {
	if k < 0 || k >= nFiles {
		return 0
	}
	return k
}

// positions are recorded as (rank of the file) << posShift | offset in the file
const posShift = 24

func (p *Prog) multiFile() bool {
	for _, f := range p.Funcs {
		if f.File != 0 && !f.IsLit && !f.Iface && !f.Prelude {
			return true
		}
	}
	return false
}

// normalise recomputes what depends on the file a function is printed in: an identifier that names the package
// variable Local (declared in the main file) is resolved by the parser (Ident.Obj != nil) only in that file.
func (p *Prog) normalise() {
	seen := map[int]bool{}
	var walkE func(e *Expr, file int)
	var walkS func(ss []*Stmt, file int)
	walkE = func(e *Expr, file int) {
		if e == nil {
			return
		}
		if e.K == "val" && e.X == "ident" && e.Src == "Local" {
			e.Rslv = file == 0
		}
		if e.K == "lit" && e.F >= 0 && e.F < len(p.Funcs) && p.Funcs[e.F].IsLit && !seen[e.F] {
			seen[e.F] = true
			walkS(p.Funcs[e.F].Body, file)
		}
		for _, a := range e.Args {
			walkE(a, file)
		}
	}
	walkS = func(ss []*Stmt, file int) {
		for _, s := range ss {
			for _, e := range s.Rhs {
				walkE(e, file)
			}
			for _, b := range s.Blocks {
				walkS(b, file)
			}
		}
	}
	for _, f := range p.Funcs {
		f.File = clampFile(f.File)
		if !f.IsLit && !f.Iface && !f.Prelude {
			walkS(f.Body, f.File)
		}
	}
}
