// Package c14: Package.ResultsOf terminates and reports only possible results, one set per result.
//
// Two kinds of cases:
//   - "prog": a generated program of the mini-language (see ir.go / gen.go), printed as Go, loaded with gengo's
//     types.Load in a supervised child, ResultsOf called twice per function; the observation is compared with the
//     Coq model (Gengo.Corr.C14) and the property's sentence is evaluated on it;
//   - "deps": a slice of the functions of the dependency closure of gengo itself, Go-side oracles only (this
//     supports the search for failing inputs; it is not part of the proof).
package c14

import (
	"bufio"
	"bytes"
	"encoding/json"
	"fmt"
	"io"
	"os"
	"os/exec"
	"path/filepath"
	"sort"
	"strings"
	"sync"
	"time"

	"verifharness/internal/core"
)

type prop struct{}

func init() { core.Register(prop{}) }

func (prop) ID() string        { return "C14" }
func (prop) CoqModule() string { return "Gengo.Corr.C14" }
func (prop) Parallel() int     { return 8 }

type depsIn struct {
	Stride int        `json:"stride,omitempty"`
	Offset int        `json:"offset,omitempty"`
	Calls  []callSpec `json:"calls,omitempty"` // explicit functions (shrunk replays)
}

type input struct {
	Kind string   `json:"kind"` // "prog" | "deps"
	Mode string   `json:"mode,omitempty"`
	Prog *Prog    `json:"prog,omitempty"`
	Deps *depsIn  `json:"deps,omitempty"`
	Src  *SrcProg `json:"src,omitempty"`
}

var modes = []string{"mixed", "mixed", "rec", "closure", "named", "literal", "cross", "forward"}

func (prop) Generate(r *core.RNG, tier string) []json.RawMessage {
	n := 110
	if tier == "thorough" {
		n = 1500
	}
	var out []json.RawMessage
	add := func(in input) {
		b, _ := json.Marshal(in)
		out = append(out, b)
	}
	// the sweep over gengo's own dependency closure
	if tier == "thorough" {
		for k := 0; k < 4; k++ {
			add(input{Kind: "deps", Deps: &depsIn{Stride: 4, Offset: k}})
		}
	} else {
		add(input{Kind: "deps", Deps: &depsIn{Stride: 8, Offset: r.Intn(8)}})
	}
	for _, p := range fixedPrograms() {
		add(input{Kind: "prog", Mode: "fixed", Prog: p})
	}
	// programs as Go source, Go-side oracles only (src.go): methods declared in a transitive dependency, variadic
	// callees with listed and spread arguments, the same over the standard library
	for _, sp := range fixedSrc() {
		add(input{Kind: "src", Mode: "fixed", Src: sp})
	}
	nSrc := 16
	if tier == "thorough" {
		nSrc = 300
	}
	for i := 0; i < nSrc; i++ {
		if i%2 == 0 {
			add(input{Kind: "src", Mode: "trans", Src: genTrans(r.Fork())})
		} else {
			add(input{Kind: "src", Mode: "variadic", Src: genVariadic(r.Fork(), i%10 == 9)})
		}
	}
	for i := 0; i < n; i++ {
		mode := modes[i%len(modes)]
		p := generate(r.Fork(), mode)
		if i%10 == 9 { // the malformed stream: ill-typed programs
			malform(r, p)
			mode = "malformed"
		}
		add(input{Kind: "prog", Mode: mode, Prog: p})
	}
	if tier == "thorough" { // exhaustive small scope: two functions, three result tuples, eight body shapes each
		for _, p := range enumSmall() {
			add(input{Kind: "prog", Mode: "enum", Prog: p})
		}
	}
	return out
}

// ---- supervision of the child ----

type callObs struct {
	Key     string     `json:"key"`
	Outcome string     `json:"outcome"` // ok | panic | stack | timeout | crash | missing
	Detail  string     `json:"detail,omitempty"`
	N       int        `json:"n"`
	Lists   [][]altOut `json:"lists,omitempty"`
	Same    bool       `json:"same"`
	Decl    []string   `json:"declared,omitempty"`
}

type superRes struct {
	calls   []callObs
	bases   map[string]int
	loadErr string
	spawns  int
	// "[warning] ..." lines gengo's Load prints for packages with errors (type errors of a generated program)
	warnings []string
}

// supervise runs the child until every call has an outcome; a crashing call is recorded and skipped.
func supervise(spec childSpec, scratch string, perCall, total time.Duration) superRes {
	var res superRes
	exe, err := os.Executable()
	if err != nil {
		res.loadErr = err.Error()
		return res
	}
	_ = os.MkdirAll(scratch, 0o755)
	deadline := time.Now().Add(total)
	got := map[int]callObs{}
	ncalls := -1
	start := 0
	for res.spawns < 40 {
		res.spawns++
		spec.Start = start
		sf := filepath.Join(scratch, fmt.Sprintf("spec%d.json", res.spawns))
		b, _ := json.Marshal(spec)
		_ = os.WriteFile(sf, b, 0o644)
		cmd := exec.Command(exe, "c14-child", sf)
		cmd.Env = append(os.Environ(), "GOFLAGS=-mod=mod", "GOPROXY=off")
		stdout, _ := cmd.StdoutPipe()
		stderr, _ := cmd.StderrPipe()
		if err := cmd.Start(); err != nil {
			res.loadErr = err.Error()
			return res
		}
		var errHead bytes.Buffer
		var wg sync.WaitGroup
		wg.Add(1)
		go func() {
			defer wg.Done()
			_, _ = io.CopyN(&errHead, stderr, 4096)
			_, _ = io.Copy(io.Discard, stderr)
		}()
		lines := make(chan string, 64)
		go func() {
			sc := bufio.NewScanner(stdout)
			sc.Buffer(make([]byte, 1<<20), 64<<20)
			for sc.Scan() {
				lines <- sc.Text()
			}
			close(lines)
		}()
		lastB, lastKey := -1, ""
		killed := ""
		timer := time.NewTimer(perCall + 60*time.Second) // loading takes a while
	loop:
		for {
			select {
			case ln, ok := <-lines:
				if !ok {
					break loop
				}
				if !timer.Stop() {
					select {
					case <-timer.C:
					default:
					}
				}
				timer.Reset(perCall)
				switch {
				case strings.HasPrefix(ln, "L "):
					fmt.Sscanf(ln, "L %d", &ncalls)
				case strings.HasPrefix(ln, "P "):
					_ = json.Unmarshal([]byte(ln[2:]), &res.bases)
				case strings.HasPrefix(ln, "E "):
					res.loadErr = ln[2:]
				case strings.HasPrefix(ln, "[warning]"):
					if len(res.warnings) < 5 {
						res.warnings = append(res.warnings, ln)
					}
				case strings.HasPrefix(ln, "B "):
					var idx int
					fmt.Sscanf(ln, "B %d", &idx)
					lastB = idx
					if sp := strings.SplitN(ln, " ", 3); len(sp) == 3 {
						lastKey = sp[2]
					}
				case strings.HasPrefix(ln, "R "):
					sp := strings.SplitN(ln, " ", 3)
					if len(sp) == 3 {
						var idx int
						fmt.Sscanf(sp[1], "%d", &idx)
						var co callOut
						if json.Unmarshal([]byte(sp[2]), &co) == nil {
							o := callObs{Key: co.Key, Outcome: "ok", N: co.N, Lists: co.Lists, Same: co.Same, Decl: co.Declared}
							if co.Panic != "" {
								o.Outcome, o.Detail = "panic", co.Panic
							}
							if co.Missing {
								o.Outcome = "missing"
							}
							got[idx] = o
							lastB = -1
						}
					}
				}
			case <-timer.C:
				killed = "timeout"
				_ = cmd.Process.Kill()
			}
			if time.Now().After(deadline) && killed == "" {
				killed = "timeout"
				_ = cmd.Process.Kill()
			}
		}
		timer.Stop()
		wg.Wait()
		err := cmd.Wait()
		if res.loadErr != "" {
			return res
		}
		if lastB >= 0 { // died inside a call
			o := callObs{Key: lastKey, Outcome: "crash"}
			head := errHead.String()
			switch {
			case killed != "":
				o.Outcome = "timeout"
			case strings.Contains(head, "stack overflow") || strings.Contains(head, "goroutine stack exceeds"):
				o.Outcome = "stack"
			}
			o.Detail = firstLine(head)
			got[lastB] = o
			start = lastB + 1
			if time.Now().After(deadline) {
				break
			}
			continue
		}
		if err != nil && ncalls < 0 {
			res.loadErr = "child failed before loading: " + firstLine(errHead.String())
			return res
		}
		break
	}
	if ncalls < 0 {
		ncalls = 0
	}
	res.calls = make([]callObs, ncalls)
	for i := range res.calls {
		if o, ok := got[i]; ok {
			res.calls[i] = o
		} else {
			res.calls[i] = callObs{Outcome: "missing", Detail: "no outcome (supervision deadline)"}
		}
	}
	return res
}

func firstLine(s string) string {
	s = strings.TrimSpace(s)
	if i := strings.IndexByte(s, '\n'); i >= 0 {
		s = s[:i]
	}
	if len(s) > 200 {
		s = s[:200]
	}
	return s
}

// oracle: the property's sentence for one call, decided on the Go side
func oracle(o callObs, illTyped bool) []string {
	var v []string
	switch o.Outcome {
	case "panic":
		return []string{o.Key + ": ResultsOf panics: " + o.Detail}
	case "stack":
		return []string{o.Key + ": ResultsOf exhausts the stack (unbounded recursion)"}
	case "timeout":
		return []string{o.Key + ": ResultsOf does not return"}
	case "crash":
		return []string{o.Key + ": the process died in ResultsOf: " + o.Detail}
	case "missing":
		return nil
	}
	if o.N != len(o.Decl) {
		v = append(v, fmt.Sprintf("%s: n = %d, declared %d", o.Key, o.N, len(o.Decl)))
	}
	if o.N > 0 && len(o.Lists) != o.N {
		v = append(v, fmt.Sprintf("%s: %d lists for %d results", o.Key, len(o.Lists), o.N))
	}
	if o.N == 0 && len(o.Lists) != 0 {
		v = append(v, fmt.Sprintf("%s: %d lists for no result", o.Key, len(o.Lists)))
	}
	for i, l := range o.Lists {
		if len(l) == 0 {
			v = append(v, fmt.Sprintf("%s: no alternative for result %d", o.Key, i))
		}
		for _, a := range l {
			if !a.Const && !a.Assignable && !illTyped {
				v = append(v, fmt.Sprintf("%s: alternative %q of result %d is neither a constant nor assignable to %s", o.Key, a.Txt, i, declAt(o, i)))
			}
		}
	}
	if !o.Same {
		v = append(v, o.Key+": the second call gives a different answer")
	}
	return v
}

// failureClass labels a failing case by the kind of failure, so that bin/check reports (and shrinks) one replay per
// kind instead of only the first failing case.  "" for a passing case.
func failureClass(calls []callObs, illTyped bool) string {
	rank := map[string]int{"": 0, "nondeterministic": 1, "unsound_alternative": 2, "wrong_shape": 3, "panics": 4, "diverges": 5}
	best := ""
	up := func(k string) {
		if rank[k] > rank[best] {
			best = k
		}
	}
	for _, o := range calls {
		switch o.Outcome {
		case "stack", "timeout", "crash":
			up("diverges")
		case "panic":
			up("panics")
		case "ok":
			if o.N != len(o.Decl) || len(o.Lists) != o.N {
				up("wrong_shape")
			}
			for _, l := range o.Lists {
				if len(l) == 0 {
					up("wrong_shape")
				}
				for _, a := range l {
					if !a.Const && !a.Assignable && !illTyped {
						up("unsound_alternative")
					}
				}
			}
			if !o.Same {
				up("nondeterministic")
			}
		}
	}
	return best
}

func declAt(o callObs, i int) string {
	if i < len(o.Decl) {
		return o.Decl[i]
	}
	return "?"
}

// ---- Run ----

type observed struct {
	Calls     []callObs         `json:"calls"`
	Bases     map[string]int    `json:"bases,omitempty"`
	LoadErr   string            `json:"load_error,omitempty"`
	FileOrder string            `json:"file_order,omitempty"`
	Source    map[string]string `json:"source,omitempty"`
	Swept     int               `json:"swept,omitempty"`
}

func (prop) Run(in json.RawMessage, scratch string) core.Result {
	var inp input
	if err := json.Unmarshal(in, &inp); err != nil {
		return core.Result{Notes: []string{"bad input: " + err.Error()}}
	}
	switch inp.Kind {
	case "deps":
		return runDeps(inp, scratch)
	case "prog":
		return runProg(inp, scratch)
	case "src":
		return runSrc(inp, scratch)
	}
	return core.Result{Notes: []string{"unknown input kind"}}
}

func recvOf(f *Func) string {
	switch {
	case f.Iface:
		return "I"
	case f.Method:
		return "T"
	}
	return ""
}

func runProg(inp input, scratch string) core.Result {
	var res core.Result
	p := inp.Prog
	if p == nil || len(p.Funcs) == 0 {
		res.Notes = []string{"empty program"}
		return res
	}
	for _, c := range p.Calls { // replays are edited by hand: stay in range
		if c.F < 0 || c.F >= len(p.Funcs) {
			res.Notes = []string{"call index out of range"}
			return res
		}
	}
	// Entry is derived data (what signatures[sig] of the asking package leads to in the program AS PRINTED):
	// recompute it, so that a hand-edited or older replay cannot carry a stale value
	derived := map[[2]int]string{}
	for _, c := range callsOf(p) {
		derived[[2]int{c.F, c.Via}] = c.Entry
	}
	for i, c := range p.Calls {
		if e, ok := derived[[2]int{c.F, c.Via}]; ok {
			p.Calls[i].Entry = e
		}
	}
	p.normalise()
	files := p.files()
	dir := filepath.Join(scratch, "mod")
	for name, src := range files {
		fp := filepath.Join(dir, name)
		_ = os.MkdirAll(filepath.Dir(fp), 0o755)
		_ = os.WriteFile(fp, []byte(src), 0o644)
	}
	spec := childSpec{Dir: dir, MaxStack: 4 << 20}
	spec.Patterns = []string{pkgPath(pkgA)}
	if p.UseB {
		spec.Patterns = append(spec.Patterns, pkgPath(pkgB))
	}
	for _, c := range p.Calls {
		f := p.Funcs[c.F]
		spec.Calls = append(spec.Calls, callSpec{Via: pkgPath(c.Via), Pkg: pkgPath(f.Pkg), Recv: recvOf(f), Name: f.Name})
	}
	sr := supervise(spec, scratch, 15*time.Second, 120*time.Second)
	obs := observed{Calls: sr.calls, Bases: sr.bases, LoadErr: sr.loadErr}
	if sr.loadErr != "" {
		obs.Source = files
		res.Observed = obs
		res.Notes = []string{"load error: " + sr.loadErr}
		res.GoViolations = []string{"harness: the generated program does not load: " + sr.loadErr}
		return res
	}
	// the position-order assumption of the model: a dependency is parsed before its importer
	// (the child reports the bases of the packages the asked calls name: when every call is of package b through
	// package b - a shrunk replay - package a is not among them and nothing of a is compared with anything)
	if p.UseB && sr.bases != nil {
		if baseA, ok := sr.bases[pkgPath(pkgA)]; ok && sr.bases[pkgPath(pkgB)] >= baseA {
			res.GoViolations = append(res.GoViolations, "harness: file positions of package b are not below those of its importer a")
		}
	}
	// positions inside a package are compared across files (an alternative found in a callee's body against the
	// assignments of the caller's body): the order of the files in the FileSet is data of the loaded universe
	// (go/packages parses the files of a package concurrently)
	p.ranks = map[int]map[int]int{}
	for _, pk := range []int{pkgB, pkgA} {
		type fb struct{ rank, base int }
		var fbs []fb
		for k := 0; k < nFiles; k++ {
			if _, printed := files[pkgName(pk)+"/"+fileName(pk, k)]; !printed {
				continue
			}
			if b, ok := sr.bases[pkgPath(pk)+"/"+fileName(pk, k)]; ok {
				fbs = append(fbs, fb{fileRank[k], b})
			}
		}
		byBase := append([]fb{}, fbs...)
		sort.Slice(byBase, func(i, j int) bool { return byBase[i].base < byBase[j].base })
		sort.Slice(fbs, func(i, j int) bool { return fbs[i].rank < fbs[j].rank })
		m := map[int]int{}
		for i, x := range byBase {
			m[x.rank] = fbs[i].rank // the i-th file by base takes the i-th rank in use
			if x.rank != fbs[i].rank {
				obs.FileOrder = "the files of a package are not in name order in the FileSet"
			}
		}
		p.ranks[pk] = m
	}
	var ccs []string
	for i, c := range p.Calls {
		f := p.Funcs[c.F]
		var o callObs
		if i < len(sr.calls) {
			o = sr.calls[i]
		} else {
			o = callObs{Outcome: "missing"}
		}
		if o.Outcome == "missing" {
			res.GoViolations = append(res.GoViolations, fmt.Sprintf("harness: no outcome for %s (%s)", f.Name, o.Detail))
		}
		res.GoViolations = append(res.GoViolations, oracle(o, p.Malformed)...)
		ccs = append(ccs, fmt.Sprintf("mk_cc %s %s %s", entryCoq(c), rdeclsCoq(f.Res), obsCoq(o)))
	}
	failing := len(res.GoViolations) > 0
	if failing {
		obs.Source = files
		res.Class = failureClass(sr.calls, p.Malformed)
	}
	res.Observed = obs
	prog := p.coqProg()
	res.Coq = fmt.Sprintf("mk_case %s %s\n  %s\n  [%s]", core.CoqBool(!p.Malformed), p.otysCoq(), prog, strings.Join(ccs, ";\n   "))
	res.Tags, res.Nontrivial = tagsOf(p, inp.Mode)
	return res
}

func obsCoq(o callObs) string {
	switch o.Outcome {
	case "panic":
		return "OPanic"
	case "stack", "timeout", "crash":
		return "ODiverge"
	case "missing":
		return "OMissing"
	}
	var ls []string
	for _, l := range o.Lists {
		var as []string
		for _, a := range l {
			as = append(as, fmt.Sprintf("mk_oalt %s %s %s", core.Hex(a.Txt), core.CoqBool(a.Const), core.CoqBool(a.Assignable)))
		}
		ls = append(ls, core.CoqList(as))
	}
	return fmt.Sprintf("(OLists %d %s %s)", o.N, core.CoqList(ls), core.CoqBool(o.Same))
}

// ---- distribution tags ----

func tagsOf(p *Prog, mode string) ([]string, bool) {
	tags := map[string]bool{"mode=" + mode: true}
	if p.UseB {
		tags["two_packages"] = true
	}
	// call graph on table indices, for recursion tags
	edges := map[int]map[int]bool{}
	var curF int
	var walkE func(e *Expr)
	var walkS func(ss []*Stmt)
	resultNames := map[string]bool{}
	walkE = func(e *Expr) {
		if e == nil {
			return
		}
		switch e.K {
		case "call":
			if e.Target > 0 {
				if edges[curF] == nil {
					edges[curF] = map[int]bool{}
				}
				edges[curF][e.Target-1] = true
				t := p.Funcs[e.Target-1]
				if t.Pkg != p.Funcs[curF].Pkg && !t.Prelude {
					tags["cross_package_call"] = true
				}
				if t.Prelude {
					tags["errors_New"] = true
				}
			} else if e.IsSig {
				tags["opaque_callee"] = true
			} else {
				tags["conversion"] = true
			}
			if strings.HasPrefix(e.Fun, "i0.") || strings.HasPrefix(e.Fun, "bi0.") {
				tags["interface_method_call"] = true
			}
			for i, a := range e.Args {
				if a.K == "lit" {
					lf := p.Funcs[a.F]
					if edges[curF] == nil {
						edges[curF] = map[int]bool{}
					}
					edges[curF][a.F] = true
					switch {
					case len(lf.Res) > len(e.CRes):
						tags["closure_more_results_than_callee"] = true
					case len(lf.Res) < len(e.CRes):
						tags["closure_fewer_results_than_callee"] = true
					default:
						tags["closure_argument"] = true
					}
				}
				if i < len(e.PErr) && e.PErr[i] && a.X == "ident" {
					tags["error_argument_ident"] = true
				}
			}
		case "val":
			if e.X == "sel" {
				tags["selector"] = true
			}
		}
		for _, a := range e.Args {
			walkE(a)
		}
	}
	walkS = func(ss []*Stmt) {
		for _, s := range ss {
			switch s.K {
			case "return":
				if s.Bare {
					tags["bare_return"] = true
				} else if len(s.Rhs) == 1 && len(p.Funcs[curF].Res) > 1 && s.Rhs[0].K == "call" {
					tags["multi_value_forwarding"] = true
				}
			case "assign":
				if len(s.Lhs) > 1 && len(s.Rhs) == 1 {
					tags["multi_value_assignment"] = true
				}
				if s.Tok == ":=" {
					for _, l := range s.Lhs {
						if resultNames[l.Src] {
							tags["named_result_declared_again_in_inner_scope"] = true
						}
					}
				}
			case "group":
				if s.Label && holdsReturn(s.Blocks) {
					tags["return_under_label"] = true
				}
				switch s.Head {
				case "range", "select", "typeswitch", "elseif":
					if holdsReturn(s.Blocks) {
						tags["return_in_"+s.Head] = true
					}
				}
			}
			for _, e := range s.Rhs {
				walkE(e)
			}
			for _, b := range s.Blocks {
				walkS(b)
			}
		}
	}
	litOnly := false
	for _, f := range p.Funcs {
		for _, rs := range f.Res {
			if rs.Name != "" && rs.Name != "_" {
				resultNames[rs.Name] = true
			}
		}
	}
	for i, f := range p.Funcs {
		curF = i
		walkS(f.Body)
		if !f.IsLit && !f.Prelude && !f.Iface && len(f.Res) > 0 && literalOnly(f) {
			litOnly = true
		}
		if f.Method {
			tags["method"] = true
		}
		if len(f.Res) > 0 && f.Res[0].Name != "" {
			tags["named_results"] = true
		}
		for j, rs := range f.Res {
			if rs.Name != "_" {
				continue
			}
			tags["blank_named_result"] = true
			for _, later := range f.Res[j+1:] {
				if later.Name != "_" {
					tags["blank_named_result_before_a_named_one"] = true
					if hasBare(f.Body) {
						tags["blank_named_result_before_a_named_one_bare_return"] = true
					}
				}
			}
		}
		if len(f.Res) == 0 && !f.IsLit {
			tags["no_results"] = true
		}
	}
	if litOnly {
		tags["literal_only_function"] = true
	}
	// recursion: self edge, or a cycle through >= 2 functions
	for a, m := range edges {
		if m[a] {
			tags["self_recursion"] = true
			if len(p.Funcs[a].Res) >= 2 {
				tags["self_recursion_multi_result"] = true
			}
		}
	}
	if hasCycle(edges, len(p.Funcs)) {
		tags["mutual_recursion"] = true
	}
	for _, c := range p.Calls {
		if c.Entry == "selector" {
			tags["resultsof_through_importer"] = true
		}
		if c.Entry == "other" {
			tags["resultsof_through_importer_paren_call"] = true
		}
		if c.Entry == "sig" && p.Funcs[c.F].Iface {
			tags["interface_method"] = true
		}
	}
	if p.multiFile() {
		tags["multi_file_package"] = true
	}
	if len(p.PkgCalls) > 0 {
		tags["call_in_package_level_initialiser"] = true
	}
	// a package-level function named by a call in a file that sorts before / after the file declaring it
	fileOf := map[int]int{} // table index (declared functions and the literals printed inside them) -> file
	for i, f := range p.Funcs {
		if !f.IsLit {
			fileOf[i] = fileRank[clampFile(f.File)]
		}
	}
	for changed := true; changed; {
		changed = false
		for a, m := range edges {
			if fa, ok := fileOf[a]; ok {
				for b := range m {
					if _, known := fileOf[b]; !known && p.Funcs[b].IsLit {
						fileOf[b], changed = fa, true
					}
				}
			}
		}
	}
	note := func(callerFile int, callee int) {
		t := p.Funcs[callee]
		if t.IsLit || t.Method || t.Iface || t.Prelude {
			return
		}
		switch d := fileRank[clampFile(t.File)]; {
		case callerFile < d:
			tags["call_in_earlier_file_than_declaration"] = true
			if literalOnly(t) && len(t.Res) > 0 {
				tags["literal_only_function_called_in_earlier_file"] = true
			}
		case callerFile > d:
			tags["call_in_later_file_than_declaration"] = true
		}
	}
	for a, m := range edges {
		if fa, ok := fileOf[a]; ok {
			for b := range m {
				if p.Funcs[b].Pkg == p.Funcs[a].Pkg {
					note(fa, b)
				}
			}
		}
	}
	for _, c := range p.PkgCalls {
		if c.F >= 0 && c.F < len(p.Funcs) && p.Funcs[c.F].Pkg == c.Pkg {
			note(fileRank[clampFile(c.File)], c.F)
		}
	}
	var out []string
	for t := range tags {
		out = append(out, t)
	}
	sort.Strings(out)
	nontrivial := len(out) > 2
	return out, nontrivial
}

// hasBare: the body (function literals apart) holds a bare return
func hasBare(ss []*Stmt) bool {
	for _, s := range ss {
		if s.K == "return" && s.Bare {
			return true
		}
		for _, b := range s.Blocks {
			if hasBare(b) {
				return true
			}
		}
	}
	return false
}

func holdsReturn(bs [][]*Stmt) bool {
	for _, b := range bs {
		for _, s := range b {
			if s.K == "return" || holdsReturn(s.Blocks) {
				return true
			}
		}
	}
	return false
}

func literalOnly(f *Func) bool {
	ok := true
	n := 0
	var walk func(ss []*Stmt)
	walk = func(ss []*Stmt) {
		for _, s := range ss {
			if s.K == "return" {
				n++
				if s.Bare || len(s.Rhs) != len(f.Res) {
					ok = false
				}
				for _, e := range s.Rhs {
					if !(e.K == "val" && e.Lit) {
						ok = false
					}
				}
			}
			for _, b := range s.Blocks {
				walk(b)
			}
		}
	}
	walk(f.Body)
	return ok && n > 0
}

func hasCycle(edges map[int]map[int]bool, n int) bool {
	// a cycle of length >= 2
	color := make([]int, n)
	var stack []int
	found := false
	var dfs func(a int)
	dfs = func(a int) {
		color[a] = 1
		stack = append(stack, a)
		for b := range edges[a] {
			if b == a {
				continue
			}
			if color[b] == 1 {
				found = true
			} else if color[b] == 0 {
				dfs(b)
			}
		}
		stack = stack[:len(stack)-1]
		color[a] = 2
	}
	for a := 0; a < n; a++ {
		if color[a] == 0 {
			dfs(a)
		}
	}
	return found
}
