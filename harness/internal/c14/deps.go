package c14

// The sweep over the functions of gengo's own dependency closure (Go-side oracles only), the hand-written
// corner-case programs, and Shrink.

import (
	"encoding/json"
	"fmt"
	"os"
	"strings"
	"time"

	"verifharness/internal/core"
)

const gengoPattern = "github.com/octohelm/gengo/..."

func runDeps(inp input, scratch string) core.Result {
	var res core.Result
	d := inp.Deps
	if d == nil {
		d = &depsIn{}
	}
	repo := os.Getenv("VERIF_REPO")
	if repo == "" {
		repo = "/repo"
	}
	spec := childSpec{Dir: repo, MaxStack: 16 << 20, Stride: d.Stride, Offset: d.Offset}
	// the roots are always gengo's own packages (types.Load dereferences Package.Module of its roots, which is nil
	// for a standard-library package); everything named in explicit calls is in their dependency closure
	spec.Patterns = []string{gengoPattern}
	spec.Calls = d.Calls
	sr := supervise(spec, scratch, 30*time.Second, 20*time.Minute)
	obs := observed{LoadErr: sr.loadErr, Swept: len(sr.calls)}
	if sr.loadErr != "" {
		res.Observed = obs
		res.GoViolations = []string{"harness: gengo's own packages do not load: " + sr.loadErr}
		return res
	}
	alts, other := 0, 0
	for _, o := range sr.calls {
		v := oracle(o, false)
		if o.Outcome == "missing" {
			v = append(v, "harness: no outcome for "+o.Key+" "+o.Detail)
		}
		if len(v) > 0 {
			res.GoViolations = append(res.GoViolations, v...)
			o.Lists = nil
			obs.Calls = append(obs.Calls, o) // only failing calls are kept in the observation
		}
		for i, l := range o.Lists {
			for _, a := range l {
				alts++
				if i < len(o.Decl) && a.Txt != o.Decl[i] {
					other++
				}
			}
		}
	}
	if len(res.GoViolations) > 12 {
		res.GoViolations = append(res.GoViolations[:12], fmt.Sprintf("... and %d more", len(res.GoViolations)-12))
	}
	if len(res.GoViolations) > 0 {
		res.Class = failureClass(sr.calls, false)
	}
	res.Observed = obs
	// the sweep is decided on the Go side; an empty Coq case keeps the case files uniform
	res.Coq = "mk_case false [] [] []"
	res.Nontrivial = len(sr.calls) > 0
	res.Tags = []string{"deps_sweep"}
	res.Notes = []string{fmt.Sprintf("swept %d functions of the dependency closure (%d child processes), %d alternatives, %d different from the declared type",
		len(sr.calls), sr.spawns, alts, other)}
	return res
}

// ---- Shrink ----

func (prop) Shrink(in json.RawMessage) []json.RawMessage {
	var inp input
	if json.Unmarshal(in, &inp) != nil {
		return nil
	}
	var out []json.RawMessage
	add := func(x input) {
		b, _ := json.Marshal(x)
		if string(b) != string(in) {
			out = append(out, b)
		}
	}
	switch inp.Kind {
	case "src":
		shrinkSrc(inp, add)
		return out
	case "deps":
		d := inp.Deps
		if d == nil {
			return nil
		}
		if len(d.Calls) > 1 {
			h := len(d.Calls) / 2
			add(input{Kind: "deps", Deps: &depsIn{Calls: d.Calls[:h]}})
			add(input{Kind: "deps", Deps: &depsIn{Calls: d.Calls[h:]}})
			return out
		}
		if len(d.Calls) == 1 {
			return nil
		}
		s := d.Stride
		if s < 1 {
			s = 1
		}
		if s >= 16384 {
			return nil
		}
		add(input{Kind: "deps", Deps: &depsIn{Stride: 2 * s, Offset: d.Offset % s}})
		add(input{Kind: "deps", Deps: &depsIn{Stride: 2 * s, Offset: d.Offset%s + s}})
		return out
	case "prog":
		p := inp.Prog
		if p == nil {
			return nil
		}
		// 1. a single call
		if len(p.Calls) > 1 {
			for i := range p.Calls {
				q := cloneProg(p)
				q.Calls = []CallIR{p.Calls[i]}
				add(input{Kind: "prog", Mode: inp.Mode, Prog: q})
			}
		}
		// 1a. only the functions the asked calls can reach (through call targets and function literals)
		if q := cloneProg(p); pruneFuncs(q) {
			add(input{Kind: "prog", Mode: inp.Mode, Prog: q})
		}
		// 1b. fewer files: everything in the main file; one function moved to the main file; one package-level call dropped
		if p.multiFile() || len(p.PkgCalls) > 0 {
			q := cloneProg(p)
			for _, f := range q.Funcs {
				f.File = 0
			}
			q.PkgCalls = nil
			add(input{Kind: "prog", Mode: inp.Mode, Prog: q})
			for fi, f := range p.Funcs {
				if f.File != 0 {
					q := cloneProg(p)
					q.Funcs[fi].File = 0
					add(input{Kind: "prog", Mode: inp.Mode, Prog: q})
				}
			}
			for ci := range p.PkgCalls {
				q := cloneProg(p)
				q.PkgCalls = append(q.PkgCalls[:ci:ci], q.PkgCalls[ci+1:]...)
				add(input{Kind: "prog", Mode: inp.Mode, Prog: q})
			}
		}
		// 2. drop one statement (anywhere), keeping the last statement of every body
		for fi := range p.Funcs {
			n := countStmts(p.Funcs[fi].Body)
			for k := 0; k < n; k++ {
				q := cloneProg(p)
				idx := k
				body, ok := dropStmt(q.Funcs[fi].Body, &idx, true)
				if ok {
					q.Funcs[fi].Body = body
					add(input{Kind: "prog", Mode: inp.Mode, Prog: q})
				}
			}
		}
		// 3. replace a call argument that is a call or a literal by nil
		for fi := range p.Funcs {
			n := countArgs(p.Funcs[fi].Body)
			for k := 0; k < n; k++ {
				q := cloneProg(p)
				idx := k
				if nilArg(q.Funcs[fi].Body, &idx) {
					add(input{Kind: "prog", Mode: inp.Mode, Prog: q})
				}
			}
		}
		if len(out) > 200 {
			out = out[:200]
		}
	}
	return out
}

// pruneFuncs drops every table entry that the functions asked for (Calls, PkgCalls) do not reach through a call
// target or a function-literal expression, and renumbers the table indices.  The prelude entry (errors.New,
// target 1 by convention) and the interface methods (printed with the prelude) stay.
func pruneFuncs(p *Prog) bool {
	keep := make([]bool, len(p.Funcs))
	var work []int
	mark := func(i int) {
		if i >= 0 && i < len(p.Funcs) && !keep[i] {
			keep[i] = true
			work = append(work, i)
		}
	}
	for i, f := range p.Funcs {
		if f.Prelude || f.Iface {
			mark(i)
		}
	}
	for _, c := range p.Calls {
		mark(c.F)
	}
	for _, c := range p.PkgCalls {
		mark(c.F)
	}
	var walkE func(e *Expr, f func(e *Expr))
	walkE = func(e *Expr, f func(e *Expr)) {
		if e == nil {
			return
		}
		f(e)
		for _, a := range e.Args {
			walkE(a, f)
		}
	}
	var walkS func(ss []*Stmt, f func(e *Expr))
	walkS = func(ss []*Stmt, f func(e *Expr)) {
		for _, s := range ss {
			for _, e := range s.Rhs {
				walkE(e, f)
			}
			for _, b := range s.Blocks {
				walkS(b, f)
			}
		}
	}
	for len(work) > 0 {
		i := work[len(work)-1]
		work = work[:len(work)-1]
		walkS(p.Funcs[i].Body, func(e *Expr) {
			if e.K == "call" && e.Target > 0 {
				mark(e.Target - 1)
			}
			if e.K == "lit" {
				mark(e.F)
			}
		})
	}
	renum := make([]int, len(p.Funcs))
	var funcs []*Func
	for i, f := range p.Funcs {
		renum[i] = len(funcs)
		if keep[i] {
			funcs = append(funcs, f)
		}
	}
	if len(funcs) == len(p.Funcs) {
		return false
	}
	for _, f := range funcs {
		walkS(f.Body, func(e *Expr) {
			if e.K == "call" && e.Target > 0 && e.Target-1 < len(renum) {
				e.Target = renum[e.Target-1] + 1
			}
			if e.K == "lit" && e.F >= 0 && e.F < len(renum) {
				e.F = renum[e.F]
			}
		})
	}
	for i := range p.Calls {
		p.Calls[i].F = renum[p.Calls[i].F]
	}
	for i := range p.PkgCalls {
		p.PkgCalls[i].F = renum[p.PkgCalls[i].F]
	}
	p.Funcs = funcs
	return true
}

func cloneProg(p *Prog) *Prog {
	b, _ := json.Marshal(p)
	var q Prog
	_ = json.Unmarshal(b, &q)
	return &q
}

func countStmts(ss []*Stmt) int {
	n := 0
	for _, s := range ss {
		n++
		for _, b := range s.Blocks {
			n += countStmts(b)
		}
	}
	return n
}

// removable: raw declarations stay (they declare variables); := definitions stay (later uses);
// plain assignments, returns that are not last, and groups without definitions can go.
func removable(s *Stmt) bool {
	switch s.K {
	case "raw":
		return false
	case "assign":
		return s.Tok == "="
	case "group":
		return !definesSomething(s.Blocks)
	}
	return true
}

func definesSomething(bs [][]*Stmt) bool {
	for _, b := range bs {
		for _, s := range b {
			if s.K == "assign" && s.Tok == ":=" {
				return true
			}
			if definesSomething(s.Blocks) {
				return true
			}
		}
	}
	return false
}

func dropStmt(ss []*Stmt, idx *int, top bool) ([]*Stmt, bool) {
	for i, s := range ss {
		if *idx == 0 {
			last := i == len(ss)-1
			if !removable(s) || (top && last) || (len(ss) == 1 && !top) {
				return ss, false
			}
			// a blank use "_ = x" must stay while x is declared: it is harmless to keep, never drop it
			if s.K == "assign" && len(s.Lhs) == 1 && s.Lhs[0].Src == "_" && len(s.Rhs) == 1 && s.Rhs[0].X == "ident" {
				return ss, false
			}
			out := append(append([]*Stmt{}, ss[:i]...), ss[i+1:]...)
			return out, true
		}
		*idx--
		for bi := range s.Blocks {
			nb, ok := dropStmt(s.Blocks[bi], idx, false)
			if ok {
				s.Blocks[bi] = nb
				return ss, true
			}
			if *idx < 0 {
				return ss, false
			}
		}
	}
	return ss, false
}

func countArgs(ss []*Stmt) int {
	n := 0
	var we func(e *Expr)
	we = func(e *Expr) {
		for _, a := range e.Args {
			n++
			we(a)
		}
	}
	for _, s := range ss {
		for _, e := range s.Rhs {
			we(e)
		}
		for _, b := range s.Blocks {
			n += countArgs(b)
		}
	}
	return n
}

func nilArg(ss []*Stmt, idx *int) bool {
	var we func(e *Expr) bool
	we = func(e *Expr) bool {
		for i, a := range e.Args {
			if *idx == 0 {
				*idx = -1
				if (a.K == "call" || a.K == "lit") && e.Target > 0 && i > 0 {
					e.Args[i] = nilExpr()
					return true
				}
				return false
			}
			*idx--
			if we(a) {
				return true
			}
			if *idx < 0 {
				return false
			}
		}
		return false
	}
	for _, s := range ss {
		for _, e := range s.Rhs {
			if we(e) {
				return true
			}
			if *idx < 0 {
				return false
			}
		}
		for _, b := range s.Blocks {
			if nilArg(b, idx) {
				return true
			}
			if *idx < 0 {
				return false
			}
		}
	}
	return false
}

// ---- hand-written corner cases (run first in every tier) ----

func tableFn(p *Prog, name string, pkg int, cb int, res []Res, body []*Stmt) int {
	f := &Func{Name: name, Pkg: pkg, Cb: cb, Res: res, Body: body}
	p.NObj += 5
	f.ObjN, f.ObjE, f.ObjCb, f.ObjT = p.NObj-4, p.NObj-3, p.NObj-2, p.NObj-1
	p.Funcs = append(p.Funcs, f)
	return len(p.Funcs) - 1
}

func baseProg(useB bool) *Prog {
	p := &Prog{NObj: firstFreeObj, UseB: useB}
	p.Funcs = append(p.Funcs, &Func{Name: "New", Pkg: pkgErrors, Prelude: true, Res: []Res{{Ty: Ty{K: "error"}}},
		Body: []*Stmt{{K: "return", Rhs: []*Expr{val("&errorString{text}", Ty{K: "errimpl", P: pkgErrors})}}}})
	return p
}

func tcall(fun string, target int, res []Ty, args ...*Expr) *Expr {
	return &Expr{K: "call", Fun: fun, IsSig: true, CRes: res, PErr: []bool{false, true, false}, Target: target + 1, Args: args}
}

func trueExpr() *Expr {
	e := ident("true", Ty{K: "untyped"}, false, objTrue)
	e.Lit = true
	return e
}

func ret(es ...*Expr) *Stmt { return &Stmt{K: "return", Rhs: es} }

func fixedPrograms() []*Prog {
	tInt, tErr, tAny := Ty{K: "int"}, Ty{K: "error"}, Ty{K: "any"}
	one := func() *Expr { return lit("1", Ty{K: "untyped"}) }
	var out []*Prog

	{ // self recursion through (int, error): DESIGN section 4 #20
		p := baseProg(false)
		id := len(p.Funcs)
		tableFn(p, "Rec", pkgA, 0, []Res{{Ty: tInt}, {Ty: tErr}}, []*Stmt{
			{K: "group", Head: "if", Blocks: [][]*Stmt{{ret(lit("0", Ty{K: "untyped"}), nilExpr())}}},
			ret(tcall("Rec", id, []Ty{tInt, tErr}, val("n - 1", tInt), nilExpr(), nilExpr())),
		})
		p.Calls = callsOf(p)
		out = append(out, p)
	}
	{ // self recursion with GROUPED result names `(r0, r1 int, r2 error)`: two result fields, three results
		p := baseProg(false)
		id := len(p.Funcs)
		p.NObj += 3
		o0, o1, o2 := p.NObj-2, p.NObj-1, p.NObj
		tableFn(p, "RecG", pkgA, 0, []Res{{Ty: tInt, Name: "r0", Obj: o0}, {Ty: tInt, Name: "r1", Obj: o1}, {Ty: tErr, Name: "r2", Obj: o2}}, []*Stmt{
			{K: "group", Head: "if", Blocks: [][]*Stmt{{ret(lit("0", Ty{K: "untyped"}), lit("1", Ty{K: "untyped"}), nilExpr())}}},
			ret(tcall("RecG", id, []Ty{tInt, tInt, tErr}, val("n - 1", tInt), nilExpr(), nilExpr())),
		})
		p.Funcs[id].Grouped = true
		p.Calls = callsOf(p)
		out = append(out, p)
	}
	{ // a closure with more results than the callee: #21
		p := baseProg(false)
		w := tableFn(p, "Wrap2", pkgA, 1, []Res{{Ty: tErr}}, []*Stmt{ret(nilExpr())})
		litF := &Func{Name: "lit", Pkg: pkgA, IsLit: true, Res: []Res{{Ty: tInt}, {Ty: tErr}},
			Body: []*Stmt{ret(one(), val("&E{}", Ty{K: "errimpl", P: pkgA}))}}
		p.Funcs = append(p.Funcs, litF)
		lid := len(p.Funcs) - 1
		tableFn(p, "Clos", pkgA, 0, []Res{{Ty: tErr}}, []*Stmt{
			ret(tcall("Wrap2", w, []Ty{tErr}, one(), nilExpr(), &Expr{K: "lit", F: lid, Ty: Ty{K: "func", P: 1}})),
		})
		p.Calls = callsOf(p)
		out = append(out, p)
	}
	{ // ResultsOf of an imported function asked of the importer: Concat, #22
		p := baseProg(true)
		g := tableFn(p, "G", pkgB, 0, []Res{{Ty: tAny}, {Ty: tErr}}, []*Stmt{ret(lit(`"g"`, Ty{K: "untyped"}), val("&E{}", Ty{K: "errimpl", P: pkgB}))})
		tableFn(p, "H", pkgA, 0, []Res{{Ty: tAny}, {Ty: tErr}}, []*Stmt{
			ret(tcall("b.G", g, []Ty{tAny, tErr}, one(), nilExpr(), nilExpr())),
		})
		p.Calls = callsOf(p)
		out = append(out, p)
	}
	{ // the importer only calls the function in parentheses: the registered node is of a kind Results does not handle
		p := baseProg(true)
		g := tableFn(p, "G", pkgB, 0, []Res{{Ty: tAny}, {Ty: tErr}}, []*Stmt{ret(lit(`"g"`, Ty{K: "untyped"}), val("&E{}", Ty{K: "errimpl", P: pkgB}))})
		p.Funcs[g].ParenFromA = true
		call := tcall("(b.G)", g, []Ty{tAny, tErr}, one(), nilExpr(), nilExpr())
		call.Target = 0
		tableFn(p, "H", pkgA, 0, []Res{{Ty: tAny}, {Ty: tErr}}, []*Stmt{ret(call)})
		p.Calls = callsOf(p)
		out = append(out, p)
	}
	{ // literal-only returns, in source order
		p := baseProg(false)
		tableFn(p, "Lit", pkgA, 0, []Res{{Ty: tAny}, {Ty: tAny}, {Ty: tErr}}, []*Stmt{
			{K: "group", Head: "switch", Blocks: [][]*Stmt{
				{ret(lit("1 + 2", Ty{K: "untyped"}), lit(`"a" + "b"`, Ty{K: "untyped"}), nilExpr())},
				{ret(lit("!true", Ty{K: "untyped"}), nilExpr(), nilExpr())},
			}},
			ret(lit("1.5", Ty{K: "untyped"}), lit("'x'", Ty{K: "untyped"}), nilExpr()),
		})
		p.Calls = callsOf(p)
		out = append(out, p)
	}
	{ // literal returns inside every statement kind that can hold one, plain and under a label, in source order
		// (seeded change C14-c: a statement walker that does not enter *ast.LabeledStmt)
		p := baseProg(false)
		k := 0
		lits := func() *Stmt { // distinct values per return statement: a lost or reordered return shows
			k++
			return ret(lit(fmt.Sprintf("%d", k), Ty{K: "untyped"}), lit(fmt.Sprintf(`"s%d"`, k), Ty{K: "untyped"}))
		}
		grp := func(head string, label bool, blocks ...[]*Stmt) *Stmt {
			return &Stmt{K: "group", Head: head, Label: label, Blocks: blocks}
		}
		res2 := []Res{{Ty: tAny}, {Ty: tAny}}
		for _, label := range []bool{true, false} {
			sfx := map[bool]string{true: "L", false: "U"}[label]
			tableFn(p, "Find"+sfx, pkgA, 0, res2, []*Stmt{grp("for", label, []*Stmt{grp("if", false, []*Stmt{lits()})}), lits()})
			tableFn(p, "Range"+sfx, pkgA, 0, res2, []*Stmt{grp("range", label, []*Stmt{lits()}), lits()})
			tableFn(p, "Pick"+sfx, pkgA, 0, res2, []*Stmt{grp("select", label, []*Stmt{lits()}, []*Stmt{lits()}, []*Stmt{lits()}), lits()})
			tableFn(p, "Sw"+sfx, pkgA, 0, res2, []*Stmt{grp("switch", label, []*Stmt{lits()}, []*Stmt{lits()}), lits()})
			tableFn(p, "TySw"+sfx, pkgA, 0, res2, []*Stmt{grp("typeswitch", label, []*Stmt{lits()}, []*Stmt{lits()}, []*Stmt{lits()}), lits()})
			tableFn(p, "Blk"+sfx, pkgA, 0, res2, []*Stmt{grp("block", label, []*Stmt{lits()}), lits()})
			tableFn(p, "If"+sfx, pkgA, 0, res2, []*Stmt{grp("ifelse", label, []*Stmt{lits()}, []*Stmt{lits()}), lits()})
			tableFn(p, "Chain"+sfx, pkgA, 0, res2, []*Stmt{grp("elseif", label, []*Stmt{lits()}, []*Stmt{lits()}, []*Stmt{lits()}), lits()})
			// a label inside a label; a labeled statement that holds the function's only values besides the last return
			tableFn(p, "Nest"+sfx, pkgA, 0, res2, []*Stmt{
				grp("for", label, []*Stmt{lits(), grp("switch", true, []*Stmt{grp("block", label, []*Stmt{lits()})}, []*Stmt{lits()})}),
				grp("select", false, []*Stmt{grp("range", label, []*Stmt{lits()})}),
				lits()})
		}
		p.Calls = callsOf(p)
		out = append(out, p)
	}
	{ // literal-only functions of a package of five files: declared in an earlier, the same and a later file than
		// the calls that name them, called from bodies and from package-level initialisers, one never called
		// (seeded change C14-e: signatures registered file by file, a call seen before the declaration wins)
		p := baseProg(false)
		u := func(s string) *Expr { return lit(s, Ty{K: "untyped"}) }
		res1, res2 := []Res{{Ty: tAny}}, []Res{{Ty: tAny}, {Ty: tErr}}
		two := func() []*Stmt {
			return []*Stmt{{K: "group", Head: "if", Blocks: [][]*Stmt{{ret(u(`"one"`))}}}, ret(u("2.5"))}
		}
		pair := func() []*Stmt {
			return []*Stmt{{K: "group", Head: "if", Blocks: [][]*Stmt{{ret(trueExpr(), nilExpr())}}}, ret(u("120"), nilExpr())}
		}
		at := func(i, file int) int { p.Funcs[i].File = file; return i }
		early := at(tableFn(p, "DeclaredEarlier", pkgA, 0, res1, two()), 1)
		same := at(tableFn(p, "DeclaredSameFile", pkgA, 0, res1, two()), 2)
		later := at(tableFn(p, "DeclaredLater", pkgA, 0, res1, two()), 3)
		pairLater := at(tableFn(p, "PairDeclaredLater", pkgA, 0, res2, pair()), 3)
		forVar := at(tableFn(p, "DeclaredLaterForVar", pkgA, 0, res1, []*Stmt{ret(u("7"))}), 2)
		at(tableFn(p, "NeverCalled", pkgA, 0, res1, two()), 3)
		inMain := at(tableFn(p, "DeclaredInMainFile", pkgA, 0, res1, two()), 0)
		args := func() []*Expr { return []*Expr{one(), nilExpr(), nilExpr()} }
		for _, file := range []int{1, 2, 0, 3} { // one caller per file, each calling everything
			tableFn(p, fmt.Sprintf("Use%d", file), pkgA, 0, []Res{{Ty: tAny}, {Ty: tAny}, {Ty: tAny}, {Ty: tAny}, {Ty: tErr}}, []*Stmt{
				{K: "group", Head: "if", Blocks: [][]*Stmt{{ret(
					tcall("DeclaredEarlier", early, []Ty{tAny}, args()...),
					tcall("DeclaredSameFile", same, []Ty{tAny}, args()...),
					tcall("DeclaredLater", later, []Ty{tAny}, args()...),
					tcall("DeclaredInMainFile", inMain, []Ty{tAny}, args()...),
					nilExpr())}}},
				ret(u("0"), u("0"), u("0"), tcall("DeclaredLaterForVar", forVar, []Ty{tAny}, args()...), nilExpr()),
			})
			p.Funcs[len(p.Funcs)-1].File = file
			tableFn(p, fmt.Sprintf("Fwd%d", file), pkgA, 0, res2, []*Stmt{ret(tcall("PairDeclaredLater", pairLater, []Ty{tAny, tErr}, args()...))})
			p.Funcs[len(p.Funcs)-1].File = file
		}
		p.PkgCalls = []PkgCall{{Pkg: pkgA, File: 1, F: forVar}, {Pkg: pkgA, File: 0, F: pairLater}, {Pkg: pkgA, File: 3, F: early}}
		p.Calls = callsOf(p)
		out = append(out, p)
	}
	{ // a labeled retry loop around named results: the assignment and the bare return are under the label
		p := baseProg(false)
		p.NObj += 2
		r0, r1 := p.NObj-1, p.NObj
		tableFn(p, "Retry", pkgA, 0, []Res{{Ty: tAny, Name: "r0", Obj: r0}, {Ty: tErr, Name: "r1", Obj: r1}}, []*Stmt{
			{K: "group", Head: "for", Label: true, Blocks: [][]*Stmt{{
				{K: "assign", Tok: "=", Lhs: []Lhs{{K: "ident", Src: "r0", Obj: r0, Ty: tAny}}, Rhs: []*Expr{lit(`"again"`, Ty{K: "untyped"})}},
				{K: "group", Head: "if", Blocks: [][]*Stmt{{{K: "return", Bare: true}}}},
			}}},
			ret(lit("2.5", Ty{K: "untyped"}), nilExpr()),
		})
		p.Calls = callsOf(p)
		out = append(out, p)
	}
	{ // mutual recursion through (any, error) with named results and a bare return
		p := baseProg(false)
		a := len(p.Funcs)
		b := a + 1
		p.NObj += 2
		r0, r1 := p.NObj-1, p.NObj
		tableFn(p, "MutA", pkgA, 0, []Res{{Ty: tAny, Name: "r0", Obj: r0}, {Ty: tErr, Name: "r1", Obj: r1}}, []*Stmt{
			{K: "assign", Tok: "=", Lhs: []Lhs{{K: "ident", Src: "r0", Obj: r0, Ty: tAny}, {K: "ident", Src: "r1", Obj: r1, Ty: tErr}},
				Rhs: []*Expr{tcall("MutB", b, []Ty{tAny, tErr}, one(), ident("e", tErr, true, p.NObj+2), nilExpr())}},
			{K: "return", Bare: true},
		})
		tableFn(p, "MutB", pkgA, 0, []Res{{Ty: tAny}, {Ty: tErr}}, []*Stmt{
			{K: "group", Head: "if", Blocks: [][]*Stmt{{ret(lit(`"b"`, Ty{K: "untyped"}), val("&E{}", Ty{K: "errimpl", P: pkgA}))}}},
			ret(tcall("MutA", a, []Ty{tAny, tErr}, one(), nilExpr(), nilExpr())),
		})
		p.Calls = callsOf(p)
		out = append(out, p)
	}
	{ // named results with blank identifiers at every position, grouped and not, bare returns after assignments to the
		// named ones mixed with explicit returns; named results declared again in an inner scope
		// (seeded change C14-m: the index -> result variable mapping of a bare return does not count blank names)
		p := baseProg(false)
		u := func(s string) *Expr { return lit(s, Ty{K: "untyped"}) }
		errE := func() *Expr { return val("&E{}", Ty{K: "errimpl", P: pkgA}) }
		errNew := func() *Expr {
			return &Expr{K: "call", Fun: "errors.New", IsSig: true, CRes: []Ty{tErr}, PErr: []bool{false}, Target: 1, Args: []*Expr{u(`"x"`)}}
		}
		bare := func() *Stmt { return &Stmt{K: "return", Bare: true} }
		iff := func(ss ...*Stmt) *Stmt { return &Stmt{K: "group", Head: "if", Blocks: [][]*Stmt{ss}} }
		// results from a spec "name:type": objects are numbered as they come, blank ones included
		mk := func(grouped bool, name string, spec ...string) (int, map[string]Lhs) {
			var res []Res
			vars := map[string]Lhs{}
			for _, sp := range spec {
				nm, k, _ := strings.Cut(sp, ":")
				p.NObj++
				ty := mkTy(k, pkgA)
				res = append(res, Res{Ty: ty, Name: nm, Obj: p.NObj})
				if nm != "_" {
					vars[nm] = Lhs{K: "ident", Src: nm, Obj: p.NObj, Ty: ty}
				}
			}
			id := tableFn(p, name, pkgA, 0, res, nil)
			p.Funcs[id].Grouped = grouped
			return id, vars
		}
		set := func(l Lhs, e *Expr) *Stmt { return &Stmt{K: "assign", Tok: "=", Lhs: []Lhs{l}, Rhs: []*Expr{e}} }
		use := func(l Lhs) *Expr { return ident(l.Src, l.Ty, true, l.Obj) }

		id, v := mk(false, "BlankFirst", "_:int", "r1:error")
		p.Funcs[id].Body = []*Stmt{set(v["r1"], errNew()), bare()}

		id, v = mk(true, "BlankFirstGrouped", "_:int", "r1:int", "r2:error")
		p.Funcs[id].Body = []*Stmt{set(v["r1"], u("7")), set(v["r2"], errE()), iff(bare()), ret(u("1"), u("2"), nilExpr())}

		id, v = mk(false, "BlankMiddle", "r0:int", "_:string", "r2:error")
		p.Funcs[id].Body = []*Stmt{set(v["r0"], u("1")), iff(set(v["r2"], errE()), bare()), ret(u("2"), u(`"s"`), nilExpr())}

		id, v = mk(true, "BlankMiddleGrouped", "r0:int", "_:int", "r2:string", "r3:error")
		p.Funcs[id].Body = []*Stmt{set(v["r0"], u("1")), set(v["r2"], u(`"s"`)), set(v["r3"], errNew()), bare()}

		id, v = mk(false, "BlankLast", "r0:any", "_:error")
		p.Funcs[id].Body = []*Stmt{set(v["r0"], u(`"s"`)), iff(ret(u("1.5"), errE())), bare()}

		id, v = mk(false, "BlankSeveral", "_:int", "r1:any", "_:string", "r3:error")
		p.Funcs[id].Body = []*Stmt{set(v["r1"], u("true && false")), iff(set(v["r3"], errE()), bare()), set(v["r1"], errE()), bare()}

		id, v = mk(true, "BlankTwoGroupedFirst", "_:int", "_:int", "r2:error")
		p.Funcs[id].Body = []*Stmt{set(v["r2"], errE()), bare()}

		id, _ = mk(false, "BlankAll", "_:int", "_:error")
		p.Funcs[id].Body = []*Stmt{iff(ret(u("1"), nilExpr())), bare()}

		id, _ = mk(true, "BlankAllGrouped", "_:any", "_:any")
		p.Funcs[id].Body = []*Stmt{iff(bare()), ret(u("1"), u(`"s"`))}

		id, v = mk(false, "BlankOnly", "_:error")
		p.Funcs[id].Body = []*Stmt{bare()}

		// the result r1 is declared again in the block: the inner r1 (an *E / what errors.New gives) is another
		// variable; `return r0, r1` in the block speaks of the inner one, the bare return of the outer one
		id, v = mk(false, "Shadowed", "r0:any", "r1:error")
		p.NObj += 2
		in1 := Lhs{K: "ident", Src: "r1", Obj: p.NObj - 1, Ty: tErr}
		in0 := Lhs{K: "ident", Src: "r0", Obj: p.NObj, Ty: Ty{K: "errimpl", P: pkgA}}
		p.Funcs[id].Body = []*Stmt{
			set(v["r1"], errE()),
			iff(&Stmt{K: "assign", Tok: ":=", Lhs: []Lhs{in1}, Rhs: []*Expr{errNew()}}, set(v["r0"], u("1")), ret(use(v["r0"]), use(in1))),
			&Stmt{K: "group", Head: "for", Blocks: [][]*Stmt{{
				&Stmt{K: "assign", Tok: ":=", Lhs: []Lhs{in0}, Rhs: []*Expr{errE()}}, set(in0, nilExpr()), iff(ret(use(in0), use(v["r1"])))}}},
			bare(),
		}

		// blank first and a result declared again, together
		id, v = mk(false, "BlankAndShadowed", "_:int", "r1:error", "r2:any")
		p.NObj++
		in2 := Lhs{K: "ident", Src: "r1", Obj: p.NObj, Ty: tErr}
		p.Funcs[id].Body = []*Stmt{
			iff(&Stmt{K: "assign", Tok: ":=", Lhs: []Lhs{in2}, Rhs: []*Expr{use(v["r1"])}}, set(in2, errNew()), set(v["r2"], use(in2))),
			set(v["r1"], errE()),
			bare(),
		}

		// a literal with a blank first result handed to a callee that returns what the callback returns
		w := tableFn(p, "Through", pkgA, 1, []Res{{Ty: tInt}, {Ty: tErr}}, []*Stmt{ret(&Expr{K: "call", Fun: "cb", IsSig: true, CRes: []Ty{tInt, tErr}})})
		p.NObj += 2
		q1 := Lhs{K: "ident", Src: "q1", Obj: p.NObj, Ty: tErr}
		litF := &Func{Name: "lit", Pkg: pkgA, IsLit: true, Cb: 0, Res: []Res{{Ty: tInt, Name: "_", Obj: p.NObj - 1}, {Ty: tErr, Name: "q1", Obj: p.NObj}},
			Body: []*Stmt{set(q1, errE()), bare()}}
		p.Funcs = append(p.Funcs, litF)
		lid := len(p.Funcs) - 1
		tableFn(p, "BlankInLiteral", pkgA, 0, []Res{{Ty: tInt}, {Ty: tErr}}, []*Stmt{
			ret(tcall("Through", w, []Ty{tInt, tErr}, one(), nilExpr(), &Expr{K: "lit", F: lid, Ty: Ty{K: "func", P: 1}})),
		})
		p.Calls = callsOf(p)
		out = append(out, p)
	}
	return out
}
