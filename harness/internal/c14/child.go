package c14

// The supervised child: loads packages with gengo's types.Load and calls Package.ResultsOf (twice) on the
// requested functions.  ResultsOf can exhaust the stack (a fatal, unrecoverable runtime error) or loop, so it is NEVER
// called in the harness process itself.  Protocol on stdout, one line each, flushed:
//
//	L <n>            the universe is loaded, n calls follow
//	B <idx> <key>    about to call ResultsOf for call idx
//	R <idx> <json>   outcome of call idx (callOut)
//	P <json>         (list mode) file base offsets of the packages, sorted by path
//	E <text>         load error
//
// The parent learns the crashing call from the last B line without an R line.

import (
	"bufio"
	"encoding/json"
	"fmt"
	gotypes "go/types"
	"os"
	"path/filepath"
	"runtime"
	"runtime/debug"
	"sort"
	"strings"
	"time"

	gengotypes "github.com/octohelm/gengo/pkg/types"

	"verifharness/internal/core"
)

func init() { core.Children["c14-child"] = childMain }

// callSpec names one ResultsOf call: Via.ResultsOf(function Name (method of Recv if set) of package Pkg).
type callSpec struct {
	Via  string `json:"via"`
	Pkg  string `json:"pkg"`
	Recv string `json:"recv,omitempty"` // named type (methods, interface methods)
	Name string `json:"name"`
}

func (c callSpec) key() string {
	s := c.Pkg + "."
	if c.Recv != "" {
		s += c.Recv + "."
	}
	s += c.Name
	if c.Via != c.Pkg {
		s += " via " + c.Via
	}
	return s
}

type childSpec struct {
	Dir      string     `json:"dir"`
	Patterns []string   `json:"patterns"`
	Calls    []callSpec `json:"calls,omitempty"` // explicit calls; empty = enumerate every function of the closure
	Stride   int        `json:"stride,omitempty"`
	Offset   int        `json:"offset,omitempty"`
	Start    int        `json:"start,omitempty"` // resume: skip calls with index < Start
	ListOnly bool       `json:"list_only,omitempty"`
	MaxStack int        `json:"max_stack,omitempty"`
	// enumerate only the packages whose path starts with Local + "/", and ask for every function through every
	// one of these packages ("src" cases)
	Local string `json:"local,omitempty"`
}

type altOut struct {
	Txt        string `json:"t"`
	Const      bool   `json:"c,omitempty"`
	Assignable bool   `json:"a,omitempty"`
	Type       string `json:"ty,omitempty"`
}

type callOut struct {
	Key      string     `json:"key"`
	N        int        `json:"n"`
	Lists    [][]altOut `json:"lists"`
	Declared []string   `json:"declared,omitempty"`
	Panic    string     `json:"panic,omitempty"`
	Same     bool       `json:"same"` // the second call rendered identically
	Missing  bool       `json:"missing,omitempty"`
}

func childMain(args []string) int {
	if len(args) < 1 {
		fmt.Fprintln(os.Stderr, "usage: vh c14-child <spec.json>")
		return 2
	}
	data, err := os.ReadFile(args[0])
	if err != nil {
		fmt.Fprintln(os.Stderr, err)
		return 2
	}
	var spec childSpec
	if err := json.Unmarshal(data, &spec); err != nil {
		fmt.Fprintln(os.Stderr, err)
		return 2
	}
	if spec.MaxStack == 0 {
		spec.MaxStack = 64 << 20
	}
	debug.SetMaxStack(spec.MaxStack)
	debug.SetMemoryLimit(1 << 30)
	go func() { // memory watchdog: a runaway that allocates instead of recursing
		for {
			time.Sleep(200 * time.Millisecond)
			var m runtime.MemStats
			runtime.ReadMemStats(&m)
			if m.Sys > 3<<30 {
				fmt.Fprintln(os.Stderr, "c14-child: memory limit exceeded")
				os.Exit(97)
			}
		}
	}()
	w := bufio.NewWriter(os.Stdout)
	emit := func(format string, a ...any) {
		fmt.Fprintf(w, format, a...)
		w.Flush()
	}
	// gengo's Load prints warnings on stdout: keep our protocol on a dup of the real stdout
	u, err := gengotypes.Load(spec.Patterns, gengotypes.WithDir(spec.Dir))
	if err != nil {
		emit("E %s\n", strings.ReplaceAll(err.Error(), "\n", " "))
		return 3
	}
	calls := spec.Calls
	if len(calls) == 0 {
		calls = enumerate(u, spec.Patterns)
		if spec.Local != "" {
			var vias []string
			seen := map[string]bool{}
			var sel []callSpec
			for _, c := range calls {
				if strings.HasPrefix(c.Pkg, spec.Local+"/") {
					sel = append(sel, c)
					if !seen[c.Pkg] {
						seen[c.Pkg] = true
						vias = append(vias, c.Pkg)
					}
				}
			}
			for _, pth := range spec.Patterns { // a package without functions is still a package to ask through
				if !seen[pth] {
					seen[pth] = true
					vias = append(vias, pth)
				}
			}
			calls = nil
			for _, c := range sel {
				calls = append(calls, c)
				for _, v := range vias {
					if v != c.Pkg {
						c2 := c
						c2.Via = v
						calls = append(calls, c2)
					}
				}
			}
		}
		if spec.Stride > 1 {
			var sel []callSpec
			for i, c := range calls {
				if i%spec.Stride == spec.Offset%spec.Stride {
					sel = append(sel, c)
				}
			}
			calls = sel
		}
	}
	emit("L %d\n", len(calls))
	if spec.ListOnly {
		for i, c := range calls {
			b, _ := json.Marshal(c)
			emit("C %d %s\n", i, b)
		}
		return 0
	}
	{ // file bases, for the cross-package position order
		bases := map[string]int{}
		for _, c := range calls {
			for _, pth := range []string{c.Via, c.Pkg} {
				if _, ok := bases[pth]; ok {
					continue
				}
				if p := u.Package(pth); p != nil && len(p.Files()) > 0 {
					bases[pth] = int(p.Files()[0].Pos())
					// per file (key: package path + "/" + file name), for the position order inside a package
					for _, f := range p.Files() {
						if tf := p.FileSet().File(f.Pos()); tf != nil {
							bases[pth+"/"+filepath.Base(tf.Name())] = tf.Base()
						}
					}
				}
			}
		}
		b, _ := json.Marshal(bases)
		emit("P %s\n", b)
	}
	for i, c := range calls {
		if i < spec.Start {
			continue
		}
		emit("B %d %s\n", i, c.key())
		out := doCall(u, c)
		b, _ := json.Marshal(out)
		emit("R %d %s\n", i, b)
	}
	return 0
}

func lookupFunc(u *gengotypes.Universe, c callSpec) *gotypes.Func {
	p := u.Package(c.Pkg)
	if p == nil {
		return nil
	}
	if c.Recv == "" {
		return p.Function(c.Name)
	}
	tn := p.Type(c.Recv)
	if tn == nil {
		return nil
	}
	named, ok := tn.Type().(*gotypes.Named)
	if !ok {
		return nil
	}
	if iface, ok := named.Underlying().(*gotypes.Interface); ok {
		for i := 0; i < iface.NumExplicitMethods(); i++ {
			if m := iface.ExplicitMethod(i); m.Name() == c.Name {
				return m
			}
		}
		return nil
	}
	for _, m := range p.MethodsOf(named, true) {
		if m.Name() == c.Name {
			return m
		}
	}
	return nil
}

func render(fr gengotypes.FuncResults, sig *gotypes.Signature) [][]altOut {
	lists := make([][]altOut, len(fr))
	for i := range fr {
		lists[i] = []altOut{}
		for _, r := range fr[i] {
			a := altOut{Txt: r.String(), Const: r.Value != nil}
			if r.Type != nil {
				a.Type = r.Type.String()
				if i < sig.Results().Len() {
					a.Assignable = gotypes.AssignableTo(r.Type, sig.Results().At(i).Type())
				}
			}
			lists[i] = append(lists[i], a)
		}
	}
	return lists
}

func doCall(u *gengotypes.Universe, c callSpec) (out callOut) {
	out.Key = c.key()
	fn := lookupFunc(u, c)
	via := u.Package(c.Via)
	if fn == nil || via == nil {
		out.Missing = true
		return
	}
	sig := fn.Type().(*gotypes.Signature)
	for i := 0; i < sig.Results().Len(); i++ {
		out.Declared = append(out.Declared, sig.Results().At(i).Type().String())
	}
	defer func() {
		if r := recover(); r != nil {
			out.Panic = fmt.Sprint(r)
		}
	}()
	fr, n := via.ResultsOf(fn)
	out.N = n
	out.Lists = render(fr, sig)
	fr2, n2 := via.ResultsOf(fn)
	a, _ := json.Marshal(out.Lists)
	b, _ := json.Marshal(render(fr2, sig))
	out.Same = n == n2 && string(a) == string(b)
	return
}

// enumerate lists every function, method and interface method of the dependency closure of the root patterns,
// in a deterministic order (package path, then name).
func enumerate(u *gengotypes.Universe, roots []string) []callSpec {
	seen := map[string]bool{}
	var order []string
	var walk func(tp *gotypes.Package)
	walk = func(tp *gotypes.Package) {
		if tp == nil || seen[tp.Path()] {
			return
		}
		seen[tp.Path()] = true
		order = append(order, tp.Path())
		for _, imp := range tp.Imports() {
			walk(imp)
		}
	}
	for pth := range u.LocalPkgPaths() {
		if p := u.Package(pth); p != nil {
			walk(p.Pkg())
		}
	}
	for _, r := range roots {
		if p := u.Package(r); p != nil {
			walk(p.Pkg())
		}
	}
	sort.Strings(order)
	var calls []callSpec
	for _, pth := range order {
		p := u.Package(pth)
		if p == nil {
			continue
		}
		var names []string
		for n := range p.Functions() {
			names = append(names, n)
		}
		sort.Strings(names)
		for _, n := range names {
			calls = append(calls, callSpec{Via: pth, Pkg: pth, Name: n})
		}
		var tnames []string
		for n := range p.Types() {
			tnames = append(tnames, n)
		}
		sort.Strings(tnames)
		for _, tn := range tnames {
			named, ok := p.Type(tn).Type().(*gotypes.Named)
			if !ok {
				continue
			}
			var ms []string
			if iface, ok := named.Underlying().(*gotypes.Interface); ok {
				for i := 0; i < iface.NumExplicitMethods(); i++ {
					ms = append(ms, iface.ExplicitMethod(i).Name())
				}
			} else {
				for _, m := range p.MethodsOf(named, true) {
					ms = append(ms, m.Name())
				}
			}
			sort.Strings(ms)
			for _, m := range ms {
				calls = append(calls, callSpec{Via: pth, Pkg: pth, Recv: tn, Name: m})
			}
		}
	}
	return calls
}
