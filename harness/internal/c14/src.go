package c14

// "src" cases: programs written as Go source (packages a, b, c, d of one module, or a package over the standard
// library), for constructs the mini-language of ir.go / the Coq model does not have:
//
//   - trans:    a imports b, b imports c (c may import d); error / any results of functions of a come from METHOD and
//               INTERFACE-METHOD calls on values handed out by b whose methods are declared in c (or d) - packages that
//               a depends on only transitively (`r.Context().Err()` in a package that imports net/http but not context)
//               (seeded change C14-g: the callee's package looked up in the import table of the scanning package);
//   - variadic: callees with `...error` / `...any` parameters (own, methods, in package b, errors.Join, fmt.Errorf)
//               called with listed arguments AND with a spread slice `f(errs...)` - a local built by append, a
//               composite literal, a call result, a parameter, a package variable, a slice expression
//               (seeded change C14-h: the spread slice treated as one error argument, `[]error` reported as an
//               alternative of an `error` result);
//   - std:      the same shapes over the standard library (net/http's Request.Context().Err(), flag's
//               CommandLine.Output().Write, os.DirFS(..).Open).
//
// These cases are decided on the Go side only (the property's sentence per call: no panic / no runaway, n and n
// non-empty lists, every alternative a constant or assignable to the declared result type (go/types), the same
// answer on the second call); the model comparison skips them - tag model_skipped:src in the distribution.
// ResultsOf is asked for every function, method and interface method of every package of the module, through
// every package of the module.

import (
	"encoding/json"
	"fmt"
	"os"
	"path/filepath"
	"sort"
	"strings"
	"time"

	"verifharness/internal/core"
)

const srcModule = "x.io/c14s"

type SrcPkg struct {
	Name    string   `json:"name"`
	Imports []string `json:"imports,omitempty"` // import paths (every one is kept in use by an anchor declaration)
	Decls   []string `json:"decls"`
}

type SrcProg struct {
	Family string   `json:"family"`
	Pkgs   []SrcPkg `json:"pkgs"`
}

var stdAnchors = map[string]string{
	"errors":   "var _ = errors.New",
	"fmt":      "var _ = fmt.Sprint",
	"net/http": "var _ http.Header",
	"flag":     "var _ = flag.Parse",
	"os":       "var _ = os.Exit",
	"io":       "var _ io.Reader",
	"context":  "var _ = context.Background",
	"bufio":    "var _ = bufio.NewReader",
}

func (sp *SrcProg) files() map[string]string {
	out := map[string]string{"go.mod": "module " + srcModule + "\n\ngo 1.24.2\n"}
	for _, pk := range sp.Pkgs {
		var b strings.Builder
		fmt.Fprintf(&b, "package %s\n\n", pk.Name)
		for _, imp := range pk.Imports {
			fmt.Fprintf(&b, "import %q\n", imp)
		}
		b.WriteString("\nconst Anchor = 0\n\n")
		for _, imp := range pk.Imports {
			if a, ok := stdAnchors[imp]; ok {
				b.WriteString(a + "\n")
			} else if strings.HasPrefix(imp, srcModule+"/") {
				fmt.Fprintf(&b, "var _ = %s.Anchor\n", imp[len(srcModule)+1:])
			}
		}
		for _, d := range pk.Decls {
			b.WriteString("\n" + d + "\n")
		}
		out[pk.Name+"/"+pk.Name+".go"] = b.String()
	}
	return out
}

func writeFiles(dir string, files map[string]string) error {
	for name, src := range files {
		fp := filepath.Join(dir, name)
		if err := os.MkdirAll(filepath.Dir(fp), 0o755); err != nil {
			return err
		}
		if err := os.WriteFile(fp, []byte(src), 0o644); err != nil {
			return err
		}
	}
	return nil
}

// shrinkSrc: one declaration dropped (a candidate that no longer type-checks fails differently and is not kept),
// big cuts first
func shrinkSrc(inp input, add func(input)) {
	sp := inp.Src
	if sp == nil {
		return
	}
	clone := func() *SrcProg {
		b, _ := json.Marshal(sp)
		var q SrcProg
		_ = json.Unmarshal(b, &q)
		return &q
	}
	for pi := len(sp.Pkgs) - 1; pi >= 0; pi-- {
		if n := len(sp.Pkgs[pi].Decls); n > 5 { // the last / the first half of the functions of a package
			for _, keepFirst := range []bool{true, false} {
				q := clone()
				var kept []string
				k := 0
				for _, d := range q.Pkgs[pi].Decls {
					if strings.HasPrefix(d, "func ") {
						k++
						if (k%2 == 1) != keepFirst {
							continue
						}
					}
					kept = append(kept, d)
				}
				if len(kept) == len(q.Pkgs[pi].Decls) {
					continue
				}
				q.Pkgs[pi].Decls = kept
				add(input{Kind: "src", Mode: inp.Mode, Src: q})
			}
		}
	}
	for pi := len(sp.Pkgs) - 1; pi >= 0; pi-- {
		for di := len(sp.Pkgs[pi].Decls) - 1; di >= 0; di-- {
			q := clone()
			q.Pkgs[pi].Decls = append(q.Pkgs[pi].Decls[:di:di], q.Pkgs[pi].Decls[di+1:]...)
			add(input{Kind: "src", Mode: inp.Mode, Src: q})
		}
	}
}

func runSrc(inp input, scratch string) core.Result {
	var res core.Result
	sp := inp.Src
	if sp == nil || len(sp.Pkgs) == 0 {
		res.Notes = []string{"empty program"}
		return res
	}
	files := sp.files()
	dir := filepath.Join(scratch, "mod")
	if err := writeFiles(dir, files); err != nil {
		res.Notes = []string{"scratch: " + err.Error()}
		return res
	}
	spec := childSpec{Dir: dir, MaxStack: 8 << 20, Local: srcModule}
	for _, pk := range sp.Pkgs {
		spec.Patterns = append(spec.Patterns, srcModule+"/"+pk.Name)
	}
	sr := supervise(spec, scratch, 20*time.Second, 240*time.Second)
	obs := observed{LoadErr: sr.loadErr, Swept: len(sr.calls)}
	if sr.loadErr != "" || len(sr.warnings) > 0 {
		obs.Source = files
		res.Observed = obs
		msg := sr.loadErr
		if msg == "" {
			msg = strings.Join(sr.warnings, "; ")
		}
		if len(msg) > 600 {
			msg = msg[:600]
		}
		res.Notes = []string{"load error: " + msg}
		res.GoViolations = []string{"harness: the generated program does not load / type-check: " + msg}
		return res
	}
	alts, other := 0, 0
	for _, o := range sr.calls {
		v := oracle(o, false)
		if o.Outcome == "missing" {
			v = append(v, "harness: no outcome for "+o.Key+" "+o.Detail)
		}
		if len(v) > 0 {
			res.GoViolations = append(res.GoViolations, v...)
		}
		for i, l := range o.Lists {
			for _, a := range l {
				alts++
				if i < len(o.Decl) && a.Txt != o.Decl[i] {
					other++
				}
			}
		}
	}
	obs.Calls = sr.calls
	if len(res.GoViolations) > 0 {
		obs.Source = files
		res.Class = failureClass(sr.calls, false)
		if len(res.GoViolations) > 12 {
			res.GoViolations = append(res.GoViolations[:12], fmt.Sprintf("... and %d more", len(res.GoViolations)-12))
		}
	}
	res.Observed = obs
	// decided on the Go side; an empty Coq case keeps the case files uniform (the model has no third package and
	// no variadic call)
	res.Coq = "mk_case false [] [] []"
	res.Nontrivial = other > 0
	res.Tags = append([]string{"model_skipped:src", "src:family=" + sp.Family, fmt.Sprintf("src:packages=%d", len(sp.Pkgs))}, srcTags(sp)...)
	sort.Strings(res.Tags)
	return res
}

// srcTags: which of the constructs the families are about the program text contains
func srcTags(sp *SrcProg) []string {
	var all strings.Builder
	imports := map[string]map[string]bool{}
	for _, pk := range sp.Pkgs {
		imports[pk.Name] = map[string]bool{}
		for _, i := range pk.Imports {
			imports[pk.Name][i] = true
		}
		if pk.Name == "a" {
			for _, d := range pk.Decls {
				all.WriteString(d + "\n")
			}
		}
	}
	s := all.String()
	var tags []string
	has := func(sub string) bool { return strings.Contains(s, sub) }
	if sp.Family == "trans" {
		tags = append(tags, "src:method_declared_in_transitive_dependency")
		if has(".Do()") || has(".Get()") {
			tags = append(tags, "src:interface_method_declared_in_transitive_dependency")
		}
		if has(".Close()") || has(".Reset()") {
			tags = append(tags, "src:method_declared_two_imports_away")
		}
		if has("NewWrapper()") {
			tags = append(tags, "src:promoted_method")
		}
	}
	if has("...)") {
		tags = append(tags, "src:spread_call")
	}
	if has("...error") || has("...any") || has("errors.Join(") || has("fmt.Errorf(") || has("b.Wrap(") || has("b.Join(") {
		tags = append(tags, "src:variadic_callee")
	}
	if has("append(") {
		tags = append(tags, "src:spread_of_appended_local")
	}
	if sp.Family == "std" {
		for i := range imports["a"] {
			tags = append(tags, "src:std="+i)
		}
	}
	return tags
}

// ---------------------------------------------------------------------------------------------------------------
// generators
// ---------------------------------------------------------------------------------------------------------------

type srcGen struct {
	r *core.RNG
	n int
}

func (g *srcGen) fn() string { g.n++; return fmt.Sprintf("F%d", g.n) }

// errBody: statements of a function body that end by returning an error; `self` is a call of the function itself
// ("" = none), recv the receiver name ("" = a plain function)
func (g *srcGen) errBody(pkgHasE bool, others []string, self string) string {
	r := g.r
	menu := []string{
		`return errors.New("x")`,
		`if Flag { return errors.New("y") }; return nil`,
		`return Sentinel`,
		`if Flag { return Sentinel }; return nil`,
		`err := errors.New("z"); return err`,
		`var err error; if Flag { err = Sentinel }; return err`,
	}
	if pkgHasE {
		menu = append(menu, `return &E{"e"}`, `if Flag { return &E{"e"} }; return nil`)
	}
	for _, o := range others {
		menu = append(menu, "return "+o, "if err := "+o+"; err != nil { return err }; return nil")
	}
	if self != "" {
		menu = append(menu, "if Flag { return "+self+" }; return errors.New(\"rec\")")
	}
	return core.Pick(r, menu)
}

// genTrans: a -> b -> c (-> d)
func genTrans(r *core.RNG) *SrcProg {
	g := &srcGen{r: r}
	useD := r.Chance(50)
	sp := &SrcProg{Family: "trans"}

	// ---- d
	if useD {
		d := SrcPkg{Name: "d", Imports: []string{"errors"}}
		d.Decls = append(d.Decls,
			"var Flag bool",
			`var Sentinel = errors.New("d: sentinel")`,
			"type E struct{ msg string }",
			"func (e *E) Error() string { return e.msg }",
			"type Base struct{ N int }",
			"func Fail() error { "+g.errBody(true, nil, "")+" }",
			"func (b *Base) Close() error { "+g.errBody(true, []string{"Fail()"}, "b.Close()")+" }",
			"func (b *Base) Reset() (int, error) { if Flag { return 0, "+core.Pick(r, []string{"Sentinel", `&E{"r"}`, "Fail()", "b.Close()"})+" }; return 1, nil }",
		)
		sp.Pkgs = append(sp.Pkgs, d)
	}

	// ---- c
	c := SrcPkg{Name: "c", Imports: []string{"errors"}}
	if useD {
		c.Imports = append(c.Imports, srcModule+"/d")
	}
	client := "type Client struct {\n\terr error\n\tn   int\n"
	if useD {
		client += "\t*d.Base\n"
	}
	client += "}"
	var dOthers []string
	if useD {
		dOthers = []string{"d.Fail()", "c.Base.Close()"}
	}
	c.Decls = append(c.Decls,
		"var Flag bool",
		`var Sentinel = errors.New("c: sentinel")`,
		"type E struct{ msg string }",
		"func (e *E) Error() string { return e.msg }",
		client,
		"func helper() error { "+g.errBody(true, nil, "")+" }",
		"func New() *Client { return &Client{} }",
		"func Open() (*Client, error) { if Flag { return nil, "+core.Pick(r, []string{"Sentinel", `&E{"o"}`, "helper()"})+" }; return New(), nil }",
		"func (c *Client) Ping() error { "+g.errBody(true, append([]string{"helper()", "c.err"}, dOthers...), "c.Ping()")+" }",
		"func (c *Client) Check() (int, error) { if Flag { return 0, "+core.Pick(r, []string{"Sentinel", `&E{"c"}`, "helper()", "c.Ping()", "c.err"})+" }; return c.n, nil }",
		"func (c Client) Value() any { "+core.Pick(r, []string{"return 1", `return "v"`, "if Flag { return 2.5 }; return nil", "return c.n", "return c.err"})+" }",
		"func (c *Client) Fetch() (any, error) { if Flag { return "+core.Pick(r, []string{`"s"`, "1", "nil", "c.n"})+", "+core.Pick(r, []string{"Sentinel", "helper()", "c.Ping()", "nil"})+" }; return "+core.Pick(r, []string{"c.Value(), nil", "true, nil", "c.Check()"})+" }",
		"type Doer interface {\n\tDo() error\n\tGet() (any, error)\n}",
		"type doer struct{ c *Client }",
		"func (x doer) Do() error { "+g.errBody(true, []string{"helper()", "x.c.Ping()"}, "")+" }",
		"func (x doer) Get() (any, error) { return x.c.Fetch() }",
		"func NewDoer() Doer { return doer{New()} }",
	)
	sp.Pkgs = append(sp.Pkgs, c)

	// ---- b
	b := SrcPkg{Name: "b", Imports: []string{srcModule + "/c"}}
	b.Decls = append(b.Decls,
		"func New() *c.Client { return c.New() }",
		"func Open() (*c.Client, error) { return c.Open() }",
		"func NewDoer() c.Doer { return c.NewDoer() }",
		"var Default = c.New()",
		"var DefaultDoer c.Doer = c.NewDoer()",
		"type Wrapper struct{ *c.Client }",
		"func NewWrapper() *Wrapper { return &Wrapper{c.New()} }",
		"type Holder struct {\n\tC *c.Client\n\tD c.Doer\n}",
		"func NewHolder() *Holder { return &Holder{C: c.New(), D: c.NewDoer()} }",
		"type Alias = c.Client",
		"func NewAlias() *Alias { return c.New() }",
		// b's own callers: the callee's package is imported directly (controls)
		"func Ping() error { return c.New().Ping() }",
		"func Check() (int, error) { return c.New().Check() }",
		"func Do() error { return c.NewDoer().Do() }",
	)
	sp.Pkgs = append(sp.Pkgs, b)

	// ---- a: imports b only
	a := SrcPkg{Name: "a", Imports: []string{srcModule + "/b"}}
	a.Decls = append(a.Decls,
		"func wrap(err error) error { return err }",
		"func run(f func() error) error { return f() }",
		"type S struct {\n\tx *b.Alias\n\td interface{ Do() error }\n}",
	)
	clientX := []string{"b.New()", "b.Default", "b.NewHolder().C", "b.NewWrapper()", "b.NewAlias()", "b.NewWrapper().Client", "s.x"}
	doerX := []string{"b.NewDoer()", "b.DefaultDoer", "b.NewHolder().D"}
	type meth struct {
		name string
		res  []string
	}
	clientM := []meth{{"Ping", []string{"error"}}, {"Check", []string{"int", "error"}}, {"Value", []string{"any"}}, {"Fetch", []string{"any", "error"}}}
	if useD {
		clientM = append(clientM, meth{"Close", []string{"error"}}, meth{"Reset", []string{"int", "error"}})
	}
	doerM := []meth{{"Do", []string{"error"}}, {"Get", []string{"any", "error"}}}
	nf := 7 + r.Intn(6)
	for i := 0; i < nf; i++ {
		var x string
		var m meth
		// the first functions cover the core shapes in every program
		switch {
		case i == 0:
			x, m = "b.New()", clientM[0]
		case i == 1:
			x, m = core.Pick(r, doerX), doerM[0]
		case i == 2 && useD:
			x, m = core.Pick(r, clientX[:5]), clientM[4]
		case r.Chance(30):
			x, m = core.Pick(r, doerX), core.Pick(r, doerM)
		default:
			x, m = core.Pick(r, clientX), core.Pick(r, clientM)
		}
		recv, pre := "", ""
		if strings.HasPrefix(x, "s.") {
			recv = "(s *S) "
		}
		if r.Chance(25) && recv == "" { // through a local variable
			pre = "x := " + x + "; "
			x = "x"
		}
		call := x + "." + m.name + "()"
		name := g.fn()
		tuple := m.res[0]
		if len(m.res) > 1 {
			tuple = "(" + strings.Join(m.res, ", ") + ")"
		}
		single := len(m.res) == 1
		isErr := single && m.res[0] == "error"
		var decl string
		shape := r.Intn(9)
		if i < 3 {
			shape = i % 3
		}
		if valid := map[int]bool{5: isErr, 6: isErr, 7: !single, 8: isErr}; shape >= 5 && !valid[shape] {
			shape = 0
		}
		switch {
		case shape == 0:
			decl = fmt.Sprintf("func %s%s() %s { %sreturn %s }", recv, name, tuple, pre, call)
		case shape == 1: // assigned, then returned
			if single {
				decl = fmt.Sprintf("func %s%s() %s { %sv := %s; return v }", recv, name, tuple, pre, call)
			} else {
				decl = fmt.Sprintf("func %s%s() %s { %sv, err := %s; return v, err }", recv, name, tuple, pre, call)
			}
		case shape == 2: // named results, bare return
			if single {
				decl = fmt.Sprintf("func %s%s() (r0 %s) { %sr0 = %s; return }", recv, name, m.res[0], pre, call)
			} else {
				decl = fmt.Sprintf("func %s%s() (r0 %s, err error) { %sr0, err = %s; return }", recv, name, m.res[0], pre, call)
			}
		case shape == 3: // checked
			if isErr {
				decl = fmt.Sprintf("func %s%s() error { %sif err := %s; err != nil { return err }; return nil }", recv, name, pre, call)
			} else if single {
				decl = fmt.Sprintf("func %s%s() %s { %sif v := %s; v != nil { return v }; return 0 }", recv, name, tuple, pre, call)
			} else {
				decl = fmt.Sprintf("func %s%s() %s { %sv, err := %s; if err != nil { return %s, err }; return v, nil }", recv, name, tuple, pre, call, map[string]string{"int": "0", "any": "nil"}[m.res[0]])
			}
		case shape == 4: // only the error of a pair / the value as any
			if single {
				decl = fmt.Sprintf("func %s%s() (any, error) { %sreturn %s, nil }", recv, name, pre, call)
			} else {
				decl = fmt.Sprintf("func %s%s() error { %s_, err := %s; return err }", recv, name, pre, call)
			}
		case shape == 5: // wrapped by an own function with an error parameter
			decl = fmt.Sprintf("func %s%s() error { %sreturn wrap(%s) }", recv, name, pre, call)
		case shape == 6: // inside a closure passed as an argument
			decl = fmt.Sprintf("func %s%s() error { %sreturn run(func() error { return %s }) }", recv, name, pre, call)
		case shape == 7: // forwarded as the arguments of an own function
			decl = fmt.Sprintf("func %s%s() error { %sreturn second(%s) }", recv, name, pre, call)
			if !strings.Contains(strings.Join(a.Decls, "\n"), "func second(") {
				a.Decls = append(a.Decls, "func second(v any, err error) error { return err }")
			}
		default: // method value
			decl = fmt.Sprintf("func %s%s() error { %sf := %s.%s; return f() }", recv, name, pre, x, m.name)
		}
		a.Decls = append(a.Decls, decl)
	}
	a.Decls = append(a.Decls, "func (s *S) DoIt() error { return s.d.Do() }")
	sp.Pkgs = append(sp.Pkgs, a)
	return sp
}

// genVariadic: variadic callees, listed and spread arguments
func genVariadic(r *core.RNG, withFmt bool) *SrcProg {
	g := &srcGen{r: r}
	sp := &SrcProg{Family: "variadic"}
	b := SrcPkg{Name: "b", Imports: []string{"errors"}}
	b.Decls = append(b.Decls,
		"type E struct{ msg string }",
		"func (e *E) Error() string { return e.msg }",
		"func Wrap(msg string, errs ...error) error { "+core.Pick(r, []string{
			"if len(errs) == 0 { return nil }; return errs[0]",
			"return errors.Join(errs...)",
			"for _, err := range errs { if err != nil { return err } }; return nil",
			`if len(errs) > 1 { return &E{msg} }; return errors.Join(errs...)`,
		})+" }",
		"func Join(errs ...error) error { return errors.Join(errs...) }",
		"func First(vs ...any) any { if len(vs) == 0 { return nil }; return vs[0] }",
		`func Collect() []error { return []error{errors.New("b1"), nil, &E{"b2"}} }`,
		"func Must(err error, more ...error) error { if err != nil { return err }; return Join(more...) }",
	)
	sp.Pkgs = append(sp.Pkgs, b)

	a := SrcPkg{Name: "a", Imports: []string{"errors", srcModule + "/b"}}
	if withFmt {
		a.Imports = append(a.Imports, "fmt")
	}
	a.Decls = append(a.Decls,
		"var Flag bool",
		"type E struct{ msg string }",
		"func (e *E) Error() string { return e.msg }",
		`var errA = errors.New("a: sentinel")`,
		`var all = []error{errA, &E{"all"}}`,
		"func wrap(msg string, errs ...error) error { "+core.Pick(r, []string{
			"if len(errs) == 0 { return nil }; return errs[0]",
			"return errors.Join(errs...)",
			"return joinAll(errs...)",
		})+" }",
		"func joinAll(errs ...error) error { return errors.Join(errs...) }",
		"func must(err error, more ...error) error { if err != nil { return err }; return joinAll(more...) }",
		"func anyOf(vs ...any) any { if len(vs) == 0 { return nil }; return vs[0] }",
		"func firstErr(vs ...any) error { for _, v := range vs { if err, ok := v.(error); ok { return err } }; return nil }",
		`func collect() []error { return []error{errA, nil} }`,
		`func vals() []any { return []any{1, "s", errA} }`,
		"type S struct{ errs []error }",
		"func (s *S) wrapm(errs ...error) error { return errors.Join(errs...) }",
	)
	// callees taking (...error): text up to the variadic arguments
	errCallees := []string{`wrap("m", `, "joinAll(", `b.Wrap("m", `, "b.Join(", "errors.Join(", "s.wrapm(", "must(errA, ", "b.Must(nil, "}
	anyCallees := []string{"anyOf(", "b.First(", "firstErr("}
	if withFmt {
		anyCallees = append(anyCallees, `fmt.Errorf("%v %v", `)
	}
	errArgs := []string{`errors.New("x")`, `&E{"x"}`, "errA", "nil", "e", "b.Collect()[0]", "errors.Join(errA, e)"}
	nf := 9 + r.Intn(6)
	for i := 0; i < nf; i++ {
		name := g.fn()
		anyFam := i%5 == 4
		var callee string
		if anyFam {
			callee = core.Pick(r, anyCallees)
		} else {
			callee = core.Pick(r, errCallees)
		}
		recv := ""
		if strings.HasPrefix(callee, "s.") {
			recv = "(s *S) "
		}
		resTy := "error"
		if anyFam && !strings.HasPrefix(callee, "firstErr") && !strings.HasPrefix(callee, "fmt.") {
			resTy = "any"
		}
		elem := "error"
		if anyFam {
			elem = "any"
		}
		// the argument form
		pre, args, params := "", "", "e error"
		form := r.Intn(10)
		if i < 4 { // every program: listed, append-built local, composite literal, call result
			form = []int{0, 2, 3, 4}[i]
		}
		switch form {
		case 0, 1: // listed
			n := r.Intn(4)
			var as []string
			for k := 0; k < n; k++ {
				if anyFam && r.Chance(40) {
					as = append(as, core.Pick(r, []string{"1", `"s"`, "true", "nil"}))
				} else {
					as = append(as, core.Pick(r, errArgs))
				}
			}
			args = strings.Join(as, ", ")
			if n == 0 {
				callee = strings.TrimSuffix(callee, ", ")
			}
		case 2: // a local slice built by append
			pre = fmt.Sprintf("var xs []%s; xs = append(xs, %s); if Flag { xs = append(xs, %s) }; ", elem, core.Pick(r, errArgs), core.Pick(r, errArgs))
			args = "xs..."
		case 3: // a composite literal
			pre = fmt.Sprintf("xs := []%s{%s, %s}; ", elem, core.Pick(r, errArgs), core.Pick(r, errArgs))
			args = "xs..."
		case 4: // := from a call
			src := map[string][]string{"error": {"collect()", "b.Collect()"}, "any": {"vals()"}}[elem]
			pre = "xs := " + core.Pick(r, src) + "; "
			args = "xs..."
		case 5: // the call itself
			src := map[string][]string{"error": {"collect()", "b.Collect()"}, "any": {"vals()"}}[elem]
			args = core.Pick(r, src) + "..."
		case 6: // a parameter
			params = "e error, xs ..." + elem
			args = "xs..."
		case 7: // a package variable / a field
			if elem == "error" {
				args = core.Pick(r, []string{"all...", "(&S{}).errs..."})
			} else {
				pre = "xs := vals(); "
				args = "xs[1:]..."
			}
		case 8: // a slice expression, a literal spread in place
			if elem == "error" {
				args = core.Pick(r, []string{"xs[1:]...", "[]error{errA, e}...", "append(xs, e)..."})
				if strings.Contains(args, "xs") {
					pre = "xs := collect(); "
				}
			} else {
				args = `[]any{1, e}...`
			}
		default: // declared, never assigned
			pre = fmt.Sprintf("var xs []%s; ", elem)
			args = "xs..."
		}
		call := callee + args + ")"
		var decl string
		switch r.Intn(5) {
		case 0, 1:
			decl = fmt.Sprintf("func %s%s(%s) %s { %sreturn %s }", recv, name, params, resTy, pre, call)
		case 2:
			decl = fmt.Sprintf("func %s%s(%s) (int, %s) { %sreturn 0, %s }", recv, name, params, resTy, pre, call)
		case 3:
			decl = fmt.Sprintf("func %s%s(%s) (r %s) { %sr = %s; return }", recv, name, params, resTy, pre, call)
		default:
			decl = fmt.Sprintf("func %s%s(%s) %s { %sv := %s; if Flag { return nil }; return v }", recv, name, params, resTy, pre, call)
		}
		a.Decls = append(a.Decls, decl)
	}
	sp.Pkgs = append(sp.Pkgs, a)
	return sp
}

// fixedSrc: hand-written programs of the three families (run first in every tier)
func fixedSrc() []*SrcProg {
	var out []*SrcProg
	// the demonstration shapes of the seeded changes C14-g and C14-h, and their neighbours
	out = append(out, &SrcProg{Family: "trans", Pkgs: []SrcPkg{
		{Name: "c", Imports: []string{"errors"}, Decls: []string{
			"type Client struct{ n int }",
			"type Doer interface{ Do() error }",
			`func (c *Client) Ping() error { return errors.New("c: ping") }`,
			`func (c *Client) Get() (any, error) { if c.n > 0 { return 42, errors.New("c: get") }; return nil, nil }`,
			"func (c *Client) Do() error { return c.Ping() }",
			"func New() *Client { return &Client{} }",
		}},
		{Name: "b", Imports: []string{srcModule + "/c"}, Decls: []string{
			"func New() *c.Client { return c.New() }",
			"func NewDoer() c.Doer { return c.New() }",
		}},
		{Name: "a", Imports: []string{srcModule + "/b"}, Decls: []string{
			"func Ping() error { return b.New().Ping() }",
			"func Get() (any, error) { return b.New().Get() }",
			"func GetAssigned() (v any, err error) { v, err = b.New().Get(); return }",
			"func Check() (string, error) { if err := b.NewDoer().Do(); err != nil { return \"\", err }; return \"ok\", nil }",
			"func Direct() error { return nil }",
		}},
	}})
	// two imports away: the method is promoted from d.Base through c.Client
	out = append(out, &SrcProg{Family: "trans", Pkgs: []SrcPkg{
		{Name: "d", Imports: []string{"errors"}, Decls: []string{
			"type Base struct{ open bool }",
			`func (b *Base) Close() error { if !b.open { return errors.New("d: closed") }; return nil }`,
			`func (b *Base) Reset() (int, error) { if b.open { return 0, b.Close() }; return 1, nil }`,
		}},
		{Name: "c", Imports: []string{srcModule + "/d"}, Decls: []string{
			"type Client struct{ *d.Base }",
			"func New() *Client { return &Client{&d.Base{}} }",
		}},
		{Name: "b", Imports: []string{srcModule + "/c"}, Decls: []string{
			"func New() *c.Client { return c.New() }",
			"var Default = c.New()",
		}},
		{Name: "a", Imports: []string{srcModule + "/b"}, Decls: []string{
			"func Close() error { return b.New().Close() }",
			"func Reset() (n int, err error) { n, err = b.Default.Reset(); return }",
			"func CloseBase() error { x := b.Default.Base; return x.Close() }",
		}},
	}})
	out = append(out, &SrcProg{Family: "variadic", Pkgs: []SrcPkg{
		{Name: "a", Imports: []string{"errors"}, Decls: []string{
			`var errA = errors.New("a")`,
			"func wrap(msg string, errs ...error) error { if len(errs) == 0 { return nil }; return errs[0] }",
			"func collect() []error { return []error{errA} }",
			"func Validate(n int) error { var errs []error; if n < 0 { errs = append(errs, errA) }; if len(errs) == 0 { return nil }; return errors.Join(errs...) }",
			`func Both(x, y error) error { errs := []error{x, y}; return errors.Join(errs...) }`,
			`func Collected() (int, error) { errs := collect(); return 0, wrap("m", errs...) }`,
			`func Direct() error { return wrap("m", collect()...) }`,
			`func Listed(x error) error { return wrap("m", x, errA, nil) }`,
			`func ListedJoin(x error) error { return errors.Join(x, errors.New("l")) }`,
			`func Spread(errs ...error) error { return errors.Join(errs...) }`,
			`func None() error { return wrap("m") }`,
		}},
	}})
	// the standard library: methods declared in a package the caller does not import
	out = append(out, &SrcProg{Family: "std", Pkgs: []SrcPkg{
		{Name: "a", Imports: []string{"flag", "os"}, Decls: []string{
			"func W() (int, error) { return flag.CommandLine.Output().Write(nil) }",
			"func WErr() error { _, err := flag.CommandLine.Output().Write(nil); return err }",
			`func Open() (any, error) { return os.DirFS(".").Open("x") }`,
			`func OpenErr() error { f, err := os.DirFS(".").Open("x"); if err != nil { return err }; return f.Close() }`,
			"func Ctl() error { rc, err := os.Stdin.SyscallConn(); if err != nil { return err }; return rc.Control(func(uintptr) {}) }",
		}},
	}})
	{
		out = append(out, &SrcProg{Family: "std", Pkgs: []SrcPkg{
			{Name: "a", Imports: []string{"net/http"}, Decls: []string{
				"func CtxErr(r *http.Request) error { return r.Context().Err() }",
				"func CtxErr2(r *http.Request) error { if err := r.Context().Err(); err != nil { return err }; return nil }",
				"func Body(r *http.Request) error { return r.Body.Close() }",
				"func Write(w http.ResponseWriter) (int, error) { return w.Write(nil) }",
				"func Push(w http.ResponseWriter) error { return w.(http.Pusher).Push(\"/\", nil) }",
			}},
		}})
	}
	return out
}
