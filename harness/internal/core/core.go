// Package core is the shared machinery of the correspondence harness: a seeded PRNG, the
// property registry, the runner that executes the real code on every case and writes the
// observation file (obs.json) and the Coq case files (cases_<k>.v).
package core

import (
	"crypto/sha256"
	"encoding/hex"
	"encoding/json"
	"fmt"
	"os"
	"path/filepath"
	"sort"
	"strings"
	"sync"
)

// RNG is splitmix64; every random choice of a run derives from the one seed.
type RNG struct{ s uint64 }

func NewRNG(seed uint64) *RNG { return &RNG{s: seed*0x9E3779B97F4A7C15 + 0x1234567} }

func (r *RNG) Uint64() uint64 {
	r.s += 0x9E3779B97F4A7C15
	z := r.s
	z = (z ^ (z >> 30)) * 0xBF58476D1CE4E5B9
	z = (z ^ (z >> 27)) * 0x94D049BB133111EB
	return z ^ (z >> 31)
}
func (r *RNG) Intn(n int) int {
	if n <= 0 {
		return 0
	}
	return int(r.Uint64() % uint64(n))
}
func (r *RNG) Bool() bool          { return r.Uint64()&1 == 1 }
func (r *RNG) Chance(p int) bool   { return r.Intn(100) < p } // p percent
func (r *RNG) Fork() *RNG          { return NewRNG(r.Uint64()) }
func Pick[T any](r *RNG, xs []T) T { return xs[r.Intn(len(xs))] }

// Result is what running the implementation on one input yields.
type Result struct {
	Observed     any      `json:"observed"`
	Coq          string   `json:"-"`                       // a Coq term of the property's `case` type ("" = not sent to Coq)
	GoViolations []string `json:"go_violations,omitempty"` // property failures decided on the Go side (oracles outside the model)
	Class        string   `json:"class,omitempty"`         // known-finding class this input falls in ("" = none)
	Nontrivial   bool     `json:"nontrivial"`
	Tags         []string `json:"tags,omitempty"` // feed the input-distribution histogram
	Notes        []string `json:"notes,omitempty"`
}

// Prop is one property's generator + executor.
type Prop interface {
	ID() string
	CoqModule() string                                // e.g. "Gengo.Corr.C19"
	Generate(r *RNG, tier string) []json.RawMessage   // structured inputs (corpus is prepended by the runner)
	Run(input json.RawMessage, scratch string) Result // execute the real code on one input
	Parallel() int                                    // max concurrent Run calls (1 = sequential)
}

// Optional: candidates strictly smaller than the input, for shrinking a failing case.
type Shrinker interface {
	Shrink(input json.RawMessage) []json.RawMessage
}

// Optional: extra work once per invocation (e.g. race-detector run); returns violations / notes.
type Extra interface {
	Extra(r *RNG, tier string, scratch string) (violations []string, notes []string, stats map[string]any)
}

var registry = map[string]Prop{}

func Register(p Prop)       { registry[p.ID()] = p }
func Lookup(id string) Prop { return registry[id] }
func IDs() []string {
	var ids []string
	for k := range registry {
		ids = append(ids, k)
	}
	sort.Strings(ids)
	return ids
}

type CaseRec struct {
	ID     int             `json:"id"`
	Input  json.RawMessage `json:"input"`
	Key    string          `json:"key"`
	InCoq  bool            `json:"in_coq"`
	Corpus bool            `json:"corpus,omitempty"`
	Result
}

type ObsFile struct {
	Property     string         `json:"property"`
	Seed         uint64         `json:"seed"`
	Tier         string         `json:"tier"`
	CoqModule    string         `json:"coq_module"`
	ShardSize    int            `json:"shard_size"`
	Shards       []string       `json:"shards"`
	ShardIDs     [][]int        `json:"shard_ids"` // case ids in each shard, in order
	Cases        []CaseRec      `json:"cases"`
	ExtraViol    []string       `json:"extra_violations,omitempty"`
	Notes        []string       `json:"notes,omitempty"`
	Distribution map[string]int `json:"distribution"`
	Stats        map[string]any `json:"stats,omitempty"`
}

func keyOf(b json.RawMessage) string {
	h := sha256.Sum256(b)
	return hex.EncodeToString(h[:8])
}

// RunAll generates (or takes) inputs, executes them and writes obs.json + shards into out.
func RunAll(p Prop, seed uint64, tier string, out string, inputs []json.RawMessage, corpusN int, shardSize int) (*ObsFile, error) {
	rng := NewRNG(seed)
	if inputs == nil {
		inputs = p.Generate(rng.Fork(), tier)
	}
	recs := make([]CaseRec, len(inputs))
	par := p.Parallel()
	if par < 1 {
		par = 1
	}
	sem := make(chan struct{}, par)
	var wg sync.WaitGroup
	for i := range inputs {
		wg.Add(1)
		sem <- struct{}{}
		go func(i int) {
			defer wg.Done()
			defer func() { <-sem }()
			scratch := filepath.Join(out, fmt.Sprintf("w%05d", i))
			res := p.Run(inputs[i], scratch)
			_ = os.RemoveAll(scratch)
			recs[i] = CaseRec{ID: i, Input: inputs[i], Key: keyOf(inputs[i]), InCoq: res.Coq != "", Corpus: i < corpusN, Result: res}
		}(i)
	}
	wg.Wait()

	of := &ObsFile{Property: p.ID(), Seed: seed, Tier: tier, CoqModule: p.CoqModule(), ShardSize: shardSize,
		Cases: recs, Distribution: map[string]int{}}
	for _, r := range recs {
		for _, t := range r.Tags {
			of.Distribution[t]++
		}
	}
	if ex, ok := p.(Extra); ok {
		v, n, st := ex.Extra(rng.Fork(), tier, out)
		of.ExtraViol, of.Stats = v, st
		of.Notes = append(of.Notes, n...)
	}
	// shards
	var cur []string
	var curIDs []int
	flush := func() error {
		if len(cur) == 0 {
			return nil
		}
		name := fmt.Sprintf("cases_%d.v", len(of.Shards))
		var b strings.Builder
		fmt.Fprintf(&b, "Require Import Gengo.Base.Bytes %s.\nOpen Scope N_scope.\n", p.CoqModule())
		b.WriteString("Definition cases : list case := [\n")
		b.WriteString(strings.Join(cur, ";\n"))
		b.WriteString("\n].\n")
		b.WriteString("Definition M := Eval vm_compute in mismatches cases.\n")
		b.WriteString("Definition V := Eval vm_compute in violations cases.\n")
		b.WriteString("Print M.\nPrint V.\n")
		if err := os.WriteFile(filepath.Join(out, name), []byte(b.String()), 0o644); err != nil {
			return err
		}
		of.Shards = append(of.Shards, name)
		of.ShardIDs = append(of.ShardIDs, curIDs)
		cur, curIDs = nil, nil
		return nil
	}
	for _, r := range recs {
		if r.Coq == "" {
			continue
		}
		cur = append(cur, r.Coq)
		curIDs = append(curIDs, r.ID)
		if len(cur) >= shardSize {
			if err := flush(); err != nil {
				return nil, err
			}
		}
	}
	if err := flush(); err != nil {
		return nil, err
	}
	data, err := json.Marshal(of)
	if err != nil {
		return nil, err
	}
	return of, os.WriteFile(filepath.Join(out, "obs.json"), data, 0o644)
}

// ---- Coq term helpers ----

func Hex(s string) string { return `(hx "` + hex.EncodeToString([]byte(s)) + `")` }

func CoqList(items []string) string { return "[" + strings.Join(items, "; ") + "]" }

func CoqBool(b bool) string {
	if b {
		return "true"
	}
	return "false"
}

func CoqOpt(some bool, v string) string {
	if !some {
		return "None"
	}
	return "(Some " + v + ")"
}

// Recover runs f and reports whether it panicked (and with what).
func Recover(f func()) (panicked bool, val any) {
	defer func() {
		if r := recover(); r != nil {
			panicked, val = true, r
		}
	}()
	f()
	return
}

// Children are entry points for supervised child processes (vh <name> args...).
var Children = map[string]func(args []string) int{}
