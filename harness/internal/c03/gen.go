package c03

import (
	"encoding/json"
	"fmt"
	"go/types"
	"os"
	"path/filepath"
	"runtime"
	"strings"

	"verifharness/internal/core"
)

// real third-party import paths (the shapes the tracker's heuristics were written for, and the
// ones the probes of DESIGN.md section 4 used)
var thirdParty = []string{
	"github.com/json-iterator/go", "gopkg.in/yaml.v3", "gopkg.in/yaml.v2", "sigs.k8s.io/yaml",
	"k8s.io/api/core/v1", "k8s.io/api/apps/v1", "k8s.io/api/apps/v1beta1", "k8s.io/apimachinery/pkg/apis/meta/v1",
	"k8s.io/apimachinery/pkg/types", "k8s.io/client-go/kubernetes", "github.com/octohelm/x/types",
	"github.com/octohelm/x/ptr", "github.com/octohelm/gengo/pkg/types", "github.com/octohelm/gengo/pkg/gengo",
	"github.com/octohelm/gengo/pkg/gengo/snippet", "github.com/octohelm/gengo/pkg/namer",
	"github.com/octohelm/gengo/testdata/a", "github.com/octohelm/gengo/testdata/a/b",
	"github.com/octohelm/courier/pkg/courier", "github.com/octohelm/storage/pkg/sqlbuilder",
	"github.com/octohelm/storage/pkg/dal", "github.com/go-courier/logr", "github.com/go-courier/logr/slog",
	"golang.org/x/tools/go/packages", "golang.org/x/text/cases", "golang.org/x/text/language",
	"golang.org/x/mod/sumdb/dirhash", "golang.org/x/exp/rand", "golang.org/x/sync/errgroup",
	"google.golang.org/protobuf/types/known/timestamppb", "google.golang.org/grpc", "google.golang.org/grpc/codes",
	"github.com/golang-jwt/jwt/v5", "github.com/go-chi/chi/v5", "github.com/stretchr/testify/assert",
	"github.com/onsi/gomega", "github.com/onsi/gomega/types", "github.com/google/go-cmp/cmp", "github.com/google/uuid",
	"github.com/pkg/errors", "github.com/pquerna/otp/totp", "github.com/99designs/gqlgen/graphql",
	"github.com/go-json-experiment/json", "github.com/gogo/protobuf/types", "github.com/gofrs/uuid/v5",
	"mvdan.cc/gofumpt/format", "example.com/domain/user", "example.com/internal/domain/order/v1",
	"example.com/pkg/apis/storage/v1alpha1", "example.com/pkg/apis/storage/v1", "github.com/aws/aws-sdk-go-v2/service/s3",
	"github.com/aws/aws-sdk-go-v2/service/s3/types", "github.com/minio/minio-go/v7", "go.uber.org/zap", "go.uber.org/zap/zapcore",
	"math/rand/v2", "github.com/x/y/internal/select", "github.com/acme/2fa", "github.com/acme/otp/2fa", "github.com/acme/lang/type",
}

// import paths with a vendor directory in them: what go/types reports for a vendored dependency in GOPATH mode
// (<importer>/vendor/<import path>), std's own vendored packages (vendor/golang.org/x/..), packages that merely live in a
// directory called vendor.  To the naming system a path is a path: such a package is one more package, distinct from the
// package with the path below the vendor directory, and every reference to it uses the name IT was registered under.
var vendored = []string{
	"example.com/app/vendor/github.com/pkg/errors", "github.com/acme/mod/vendor/golang.org/x/text/language", "example.com/app/internal/vendor/lib",
	"a.com/vendor/b.org/vendor/c.net/pkg", "a.com/x/vendor", "vendor/golang.org/x/net/http/httpguts", "vendor/golang.org/x/crypto/cryptobyte",
	"a.com/vendor/v2", "a.com/vendor/go", "k8s.io/kubernetes/vendor/k8s.io/api/core/v1", "example.com/app/vendor/example.com/domain/user",
	"a.com/vendor/errors", "a.com/vendor/time", "a.com/vendor/math/rand", "b.org/vendor/foo-bar", "a.com/vendor/vendor/x", "a.com/vendor", "vendor",
	"example.com/m/vendor/example.com/m/self", "a.com/x/vendor/string", "a.com/Vendor/x", "a.com/vendored/x", "a.com/_vendor/x",
}

var vendorDirs = []string{"/vendor/", "/vendor/", "/vendor/", "/internal/vendor/", "/third_party/vendor/", "/vendor/vendor/", "/x/vendor/y/vendor/"}

var hosts = []string{"a.com", "b.org", "a.com/x", "example.com/m", "github.com/acme/mod"}

// segments engineered to clash or to give unusable names
var clashWords = [][]string{
	{"foo-bar", "foo_bar", "foobar", "fooBar", "FooBar", "foo.bar", "foo~bar", "FOOBAR"},
	{"http", "HTTP", "ht-tp", "h_ttp"},
	{"rand", "Rand", "ra-nd", "json", "JSON", "js_on", "time", "errors", "fmt", "types"},
	{"util", "utils", "common", "types", "v1", "api"},
	// numbered fallback names that run into reserved std names: base3+"2" = base32, randv+"2" = randv2
	{"base-3", "base_3", "base3", "Base3", "rand-v", "rand_v", "randv"},
	// predeclared identifiers as candidate names (spellings that all give the same local name) ...
	{"string", "String", "str-ing", "error", "Error", "any", "int", "In-t", "bool", "len", "new", "nil", "true", "iota", "float32", "uint8", "Rune", "append", "comparable"},
	// ... and numbered fallback names that are predeclared: float3+"2" = float32, int3+"2" = int32, int6+"4" = int64
	{"float-3", "float_3", "float3", "Float3", "int-3", "int_3", "int3", "uint-3", "uint3"},
	{"int-6", "int_6", "int6", "Int6", "in-t6", "INT6"},
	// keywords and predeclared identifiers that only appear once the word boundaries are folded and the name is lower-cased
	// (go-to -> goTo -> goto): the keyword / predeclared tests must see the FINAL name
	splitWords,
}

var splitWords = []string{"go-to", "GoTo", "go_to", "go.to", "goTo", "de-fer", "De_fer", "deFer", "fall-through", "fallThrough", "Fall_Through", "inter_face", "Inter-Face",
	"pack.age", "Pack-Age", "sel-ect", "im-port", "Im_Port", "re-turn", "con-st", "st-ruct", "Str-uct", "ty-pe", "Ty_Pe", "fu-nc", "ch-an", "ma-p", "ra-nge", "sw-itch",
	"ca-se", "el-se", "v-ar", "f-or", "i-f", "g-o", "G-O", "bre-ak", "cont-inue", "Defa.ult",
	"str-ing", "Str_ing", "st.ring", "StrIng", "er-ror", "Er_Ror", "a-ny", "in-t", "In_T", "bo-ol", "le-n", "Le.N", "ne-w", "ni-l", "Ni_L", "tr-ue", "fal-se", "io-ta",
	"float-32", "Float_32", "uint-8", "u-int", "by-te", "ru-ne", "app-end", "ma-ke", "pa-nic", "compar-able"}

// identifiers of the universe scope (what the repaired bind refuses)
var predeclSegs = []string{"string", "error", "any", "int", "bool", "len", "new", "nil", "true", "false", "iota", "float32", "float64", "byte", "rune",
	"uint8", "uintptr", "complex128", "append", "cap", "make", "max", "min", "panic", "print", "recover", "comparable", "clear", "copy", "delete", "real", "imag", "close", "println", "complex"}
var oddSegs = []string{"go", "type", "func", "map", "range", "select", "import", "package", "var", "chan", "default", "interface",
	"2fa", "3d", "9", "007", "1x", "v2", "v1", "v10", "v0", "v", "v1beta1", "v-1", "v+2", "v99999999999999999999", "apis", "domain", "api",
	"_", "-", "--", "__", "x--y", "_x", "x_", ".x", "a.b", "a..b", "_-", "~", "string", "error", "len", "pkg", "pkg2", "internal", "vendor", "vendor"}
var plainSegs = []string{"core", "meta", "user", "order", "store", "model", "client", "server", "alpha", "beta", "x", "y", "z", "pkg", "lib"}
var malformedPaths = []string{"", "/", "//", "a//b", "a.com/", "/a", "a.com/ /x", "a.com/x y", "a.com/x\ty", "a.com/é", "日本/語", "a.com/ünï", "a.com/x[1]", "a.com/a,b",
	"a.com/x.", ".", "..", "a.com/́x", "a.com/٣x", "a.com/ǅx", "a.com/x\x7f", "a.com/\x00", "a.com/x\"y", "a.com/x\\y", "-", "_", "9", "go", "type"}

var typeNames = []string{"T", "Item", "List", "Map", "Time", "Duration", "Reader", "Buffer", "x", "item", "T1", "A_b"}
var basicNames = []string{"int", "string", "bool", "float64", "uint8"}

type gen struct {
	r   *core.RNG
	std []string
}

func (g *gen) seg() string {
	switch k := g.r.Intn(10); {
	case k < 4:
		return core.Pick(g.r, plainSegs)
	case k < 7:
		return core.Pick(g.r, core.Pick(g.r, clashWords))
	case k < 8:
		return core.Pick(g.r, predeclSegs)
	case k < 9:
		return core.Pick(g.r, oddSegs)
	default:
		if g.r.Chance(50) {
			return core.Pick(g.r, splitWords)
		}
		return core.Pick(g.r, oddSegs)
	}
}

// a pool of paths for one history: small, so that clashes and repetitions are frequent
func (g *gen) pool(malformed bool) []string {
	var pool []string
	n := 2 + g.r.Intn(7)
	for len(pool) < n {
		switch k := g.r.Intn(20); {
		case k < 3 && len(g.std) > 0:
			pool = append(pool, core.Pick(g.r, g.std))
		case k < 6:
			pool = append(pool, core.Pick(g.r, thirdParty))
		case k < 11: // a clash family: same host and depth, last segments that differ in punctuation/case only
			host := core.Pick(g.r, hosts)
			fam := core.Pick(g.r, clashWords)
			mid := ""
			if g.r.Chance(40) {
				mid = "/" + g.seg()
			}
			m := 2 + g.r.Intn(3)
			for i := 0; i < m; i++ {
				pool = append(pool, host+mid+"/"+core.Pick(g.r, fam))
			}
		case k < 13: // same last segment under different parents
			last := g.seg()
			m := 2 + g.r.Intn(2)
			for i := 0; i < m; i++ {
				pool = append(pool, core.Pick(g.r, hosts)+"/"+g.seg()+"/"+last)
			}
		case k < 15 && len(g.std) > 0: // third-party package whose last segments collide with a std package
			s := core.Pick(g.r, g.std)
			switch g.r.Intn(3) {
			case 0:
				pool = append(pool, core.Pick(g.r, hosts)+"/"+s)
			case 1:
				pool = append(pool, core.Pick(g.r, hosts)+"/"+lastSeg(s))
			default:
				pool = append(pool, strings.ReplaceAll(s, "/", "")) // single segment equal to a reserved long name
			}
		case k < 16: // single-segment paths
			pool = append(pool, g.seg())
		case k < 18: // a vendor directory in the path: a fixed one, or a vendored copy of another path (which is in the pool too, half of the time)
			if g.r.Chance(40) {
				pool = append(pool, core.Pick(g.r, vendored))
				break
			}
			var below string
			switch g.r.Intn(4) {
			case 0:
				if len(g.std) > 0 {
					below = core.Pick(g.r, g.std)
					break
				}
				fallthrough
			case 1:
				below = core.Pick(g.r, thirdParty)
			case 2:
				below = core.Pick(g.r, hosts) + "/" + core.Pick(g.r, core.Pick(g.r, clashWords))
			default:
				below = g.seg()
			}
			pool = append(pool, core.Pick(g.r, hosts)+core.Pick(g.r, vendorDirs)+below)
			if g.r.Chance(50) {
				pool = append(pool, below)
			}
			if g.r.Chance(25) { // vendored twice, by two importers
				pool = append(pool, core.Pick(g.r, hosts)+"/v2"+core.Pick(g.r, vendorDirs)+below)
			}
		default: // random depth
			d := 1 + g.r.Intn(4)
			p := core.Pick(g.r, hosts)
			for i := 0; i < d; i++ {
				p += "/" + g.seg()
			}
			pool = append(pool, p)
		}
	}
	if malformed {
		m := 1 + g.r.Intn(3)
		for i := 0; i < m; i++ {
			pool = append(pool, core.Pick(g.r, malformedPaths))
		}
	}
	return pool
}

func (g *gen) node(pool []string, self string, depth int) node {
	if g.r.Chance(20) {
		return node{Name: core.Pick(g.r, basicNames)}
	}
	n := node{Path: g.path(pool, self), Name: core.Pick(g.r, typeNames)}
	if n.Path == "" {
		return node{Name: core.Pick(g.r, basicNames)}
	}
	if depth < 2 && g.r.Chance(25) {
		m := 1 + g.r.Intn(2)
		for i := 0; i < m; i++ {
			n.Args = append(n.Args, g.node(pool, self, depth+1))
		}
	}
	return n
}

func (g *gen) path(pool []string, self string) string {
	if g.r.Chance(12) {
		return self
	}
	return core.Pick(g.r, pool)
}

// a history for a real gengo run: the file's package is a package of the synthetic module, only
// snippet entry points, only paths an import declaration can carry
func (g *gen) pipelineHistory() input {
	self := pipeModule + "/" + core.Pick(g.r, []string{"self", "foo-bar", "rand", "core/v1", "go", "apis/x/v1", "x/2fa"})
	for try := 0; ; try++ {
		in := g.history(false, self)
		in.Pipeline = true
		for i, o := range in.Ops {
			switch {
			case o.K == "add":
				in.Ops[i] = opIn{K: "ref", Via: "id", Path: o.Path, Name: "T"}
			case o.K == "ref" && o.Via == "namer":
				in.Ops[i].Via = "id"
			case o.K == "ref" && o.Via == "obj":
				in.Ops[i].Via = "idobj"
			}
		}
		if pipelineOK(in) || try > 50 {
			return in
		}
	}
}

// the same, spread over 2-5 tagged types; for one to three of them the generator ends with ErrSkip (sometimes ErrIgnore,
// or renders through Defer) after it rendered its lines
func (g *gen) pipelineTypesHistory() input {
	in := g.pipelineHistory()
	nt := 2 + g.r.Intn(4)
	left := len(in.Ops)
	for k := 0; k < nt; k++ {
		n := 0
		if k == nt-1 {
			n = left
		} else if left > 0 {
			n = g.r.Intn(min(left, 4) + 1)
		}
		left -= n
		t := typeIn{N: n, Alias: g.r.Chance(15)}
		switch e := g.r.Intn(20); {
		case e < 9:
			t.End = "skip"
		case e < 11:
			t.End = "ignore"
		case e < 13:
			t.End = "defer"
		}
		in.Types = append(in.Types, t)
	}
	if !rendersNormally(in) { // some type is generated normally, so that the file is written
		for k := range in.Types {
			if in.Types[k].N > 0 {
				in.Types[k].End = ""
				break
			}
		}
	}
	return in
}

func (g *gen) history(malformed bool, selfs ...string) input {
	pool := g.pool(malformed)
	self := "example.com/m/self"
	if len(selfs) > 0 {
		self = selfs[0]
		pool = append(pool, pipeModule+"/"+g.seg(), pipeModule+"/"+lastSeg(self)) // siblings of the own package
	} else if g.r.Chance(50) {
		self = core.Pick(g.r, pool)
	}
	var in input
	in.Self = self
	n := 1 + g.r.Intn(12)
	var lastArgs []tplArg // the argument set of the previous template of this history
	for i := 0; i < n; i++ {
		p := g.path(pool, self)
		var o opIn
		switch k := g.r.Intn(22); {
		case k >= 20: // a template over an argument set (half of the time the set the previous template was given)
			var prev []tplArg
			if lastArgs != nil && g.r.Chance(50) {
				prev = lastArgs
			}
			o = g.tplOp(pool, self, prev, len(selfs) > 0)
			lastArgs = o.TArgs
		case k < 3:
			o = opIn{K: "add", Path: p}
		case k < 14:
			o = opIn{K: "ref", Via: core.Pick(g.r, []string{"namer", "namer", "id", "id", "expose", "obj", "idobj"}), Path: p, Name: core.Pick(g.r, typeNames)}
			if (o.Via == "obj" || o.Via == "idobj") && g.r.Chance(40) {
				o.TParams = []string{"T", "K", "V"}[:1+g.r.Intn(3)]
			} else if o.Via != "obj" && o.Via != "idobj" && g.r.Chance(35) {
				m := 1 + g.r.Intn(3)
				for j := 0; j < m; j++ {
					o.Args = append(o.Args, g.node(pool, self, 1))
				}
			}
			if o.Via == "id" && (p == "" || strings.ContainsAny(p, "[],")) {
				o.Via = "namer"
			}
		case k < 15: // a reflect.Type of a real Go type
			key := core.Pick(g.r, reflectKeys())
			e := reflectTypes[key]
			o = opIn{K: "lit", Shape: e.shape, Elems: e.elems, Reflect: key}
		default:
			o = opIn{K: "lit", Shape: core.Pick(g.r, []string{"named", "ptr", "slice", "array", "chan", "map", "struct"})}
			if o.Reflect == "" {
				o.Elems = []node{g.node(pool, self, 0), g.node(pool, self, 0)}
				if o.Shape != "map" && o.Shape != "struct" {
					o.Elems = o.Elems[:1]
				}
			}
		}
		in.Ops = append(in.Ops, o)
	}
	if malformed && g.r.Chance(30) { // odd names as well
		i := g.r.Intn(len(in.Ops))
		if in.Ops[i].K == "ref" {
			in.Ops[i].Name = core.Pick(g.r, []string{"", "a.B", "X[", "é", "T ", "L[]"})
		}
	}
	return in
}

// references to packages whose path has a vendor directory in it: as heads through every entry point, as type arguments,
// as elements of type literals, next to the package with the path below the vendor directory, as the own package
func vendorCorners() []input {
	ven := "example.com/app/vendor/github.com/pkg/errors"
	ref := func(via, path, name string, args ...node) opIn {
		return opIn{K: "ref", Via: via, Path: path, Name: name, Args: args}
	}
	return []input{
		refs("example.com/m", ven),
		refs("example.com/m", ven, "github.com/pkg/errors", "errors"),
		refs("example.com/m", "github.com/pkg/errors", ven, "a.com/vendor/github.com/pkg/errors"),
		refs("example.com/m", "vendor/golang.org/x/net/http/httpguts", "golang.org/x/net/http/httpguts", "a.com/x/vendor", "a.com/vendor", "vendor"),
		refs("example.com/m", "a.com/vendor/b.org/vendor/c.net/pkg", "c.net/pkg", "b.org/vendor/c.net/pkg", "example.com/app/internal/vendor/lib", "lib"),
		refs("example.com/m", "a.com/vendor/time", "time", "a.com/vendor/math/rand", "math/rand", "a.com/vendor/go", "a.com/vendor/v2", "a.com/vendor/string"),
		refs("github.com/pkg/errors", ven, "github.com/pkg/errors"),
		refs(ven, ven, "github.com/pkg/errors"),
		{Self: "example.com/m", Ops: []opIn{
			ref("id", "example.com/o", "Box", node{Path: ven, Name: "Frame"}),
			ref("namer", "example.com/o", "Pair", node{Path: "github.com/pkg/errors", Name: "Frame"}, node{Path: ven, Name: "Frame"}),
			ref("expose", ven, "New"), ref("obj", ven, "Frame"), ref("idobj", "a.com/vendor/b.org/vendor/c.net/pkg", "T"),
			{K: "lit", Shape: "map", Elems: []node{{Path: ven, Name: "Frame"}, {Path: "example.com/o", Name: "List", Args: []node{{Path: "k8s.io/kubernetes/vendor/k8s.io/api/core/v1", Name: "Pod"}}}}},
			{K: "lit", Shape: "struct", Elems: []node{{Path: "example.com/app/internal/vendor/lib", Name: "T"}, {Path: "vendor/golang.org/x/net/http/httpguts", Name: "T"}}}}},
		{Self: "example.com/m", Ops: []opIn{
			ref("id", ven, "Box", node{Path: ven, Name: "Flag"}, node{Name: "int"}, node{Path: "example.com/m", Name: "Own"}),
			ref("namer", "example.com/m", "Own", node{Path: ven, Name: "Flag", Args: []node{{Path: "a.com/vendor/errors", Name: "E"}}})}},
		{Self: pipeModule + "/self", Pipeline: true, Ops: []opIn{
			ref("id", ven, "Frame"), ref("id", "example.com/o", "Box", node{Path: ven, Name: "Flag"}, node{Path: "github.com/pkg/errors", Name: "Frame"}),
			ref("expose", "a.com/vendor/b.org/vendor/c.net/pkg", "New"), ref("idobj", "example.com/app/internal/vendor/lib", "T"),
			{K: "lit", Shape: "slice", Elems: []node{{Path: "k8s.io/kubernetes/vendor/k8s.io/api/core/v1", Name: "Pod"}}}}},
	}
}

// a generator that renders for several types and gives up on some of them AFTER it has rendered something: the lines
// of a type it skipped (gengo.ErrSkip) may stay in the file or not, but the import block must be the one of the body
func pipelineCorners() []input {
	id := func(path, name string, args ...node) opIn {
		return opIn{K: "ref", Via: "id", Path: path, Name: name, Args: args}
	}
	self := pipeModule + "/self"
	mk := func(types []typeIn, ops ...opIn) input {
		return input{Self: self, Pipeline: true, Types: types, Ops: ops}
	}
	return []input{
		// accessor per field, gives up at the third field of T00; T01 is generated normally
		mk([]typeIn{{N: 2, End: "skip"}, {N: 1}}, id("bytes", "Buffer"), id("a.com/foo-bar", "T"), id("time", "Time")),
		mk([]typeIn{{N: 1}, {N: 2, End: "skip"}}, id("time", "Time"), id("bytes", "Buffer"), id("time", "Duration")),
		mk([]typeIn{{N: 1}, {N: 1, End: "skip"}, {N: 1}}, id("a.com/foo-bar", "T"), id("b.org/foo_bar", "T"), id("a.com/foobar", "T")),
		mk([]typeIn{{N: 1, End: "skip", Alias: true}, {N: 1, Alias: true}}, id("math/rand", "Rand"), id("crypto/rand", "Reader")),
		mk([]typeIn{{N: 1, End: "skip"}, {N: 0}, {N: 2}}, id("example.com/o", "List", node{Path: "github.com/json-iterator/go", Name: "API"}), id("example.com/o", "Item"), id(self, "Own")),
		mk([]typeIn{{N: 1, End: "ignore"}, {N: 1}}, id("bytes", "Buffer"), id("time", "Time")),
		mk([]typeIn{{N: 1, End: "defer"}, {N: 1, End: "skip"}, {N: 1}}, id("a.com/rand", "T"), id("math/rand", "Rand"), id("crypto/rand", "Reader")),
		mk([]typeIn{{N: 1, End: "skip"}, {N: 1, End: "skip"}}, id("bytes", "Buffer"), id("time", "Time")),
		mk([]typeIn{{N: 1, End: "skip"}, {N: 1}}, opIn{K: "lit", Shape: "map", Elems: []node{{Path: "net/url", Name: "URL"}, {Path: "example.com/app/vendor/github.com/pkg/errors", Name: "Frame"}}}, opIn{K: "ref", Via: "expose", Path: "net/http", Name: "Get"}),
	}
}

// Names that only appear when path segments are JOINED (added after seeded change C03-g: keyword test per segment, nothing
// looks at the joined candidate): for a keyword or predeclared identifier K and a split K = A+B (or A+B+C), neither part
// suspicious on its own,
//   - x/B is referenced first and takes the one-segment name, so that A/B falls back to the two-segment candidate A+B = K
//     (three parts: x/C and y/B/C first, then A/B/C);
//   - the segments behind a "domain" / "apis" segment are joined at once: a.com/domain/A/B, a.com/x/apis/A/B;
//   - a vN segment does not count as a segment: x/B/v2 first, then A/B/v2 (candidate A+B+"v2"), and A/v1/B.
// The parts are used as they are, capitalised, or with punctuation that the normalisation drops.
var goKeywords = []string{"break", "case", "chan", "const", "continue", "default", "defer", "else", "fallthrough", "for", "func", "go", "goto", "if", "import",
	"interface", "map", "package", "range", "return", "select", "struct", "switch", "type", "var"}

func universeNames() []string {
	names := types.Universe.Names()
	var out []string
	for _, n := range names {
		if len(n) >= 2 {
			out = append(out, n)
		}
	}
	return out
}

func (g *gen) dress(seg string) string {
	switch g.r.Intn(8) {
	case 0:
		return strings.ToUpper(seg[:1]) + seg[1:]
	case 1:
		return seg + "-"
	case 2:
		return strings.ToUpper(seg)
	}
	return seg
}

func (g *gen) joinedNames(tier string) []input {
	var out []input
	self := "example.com/m"
	one := func(k string, i int, variant int) {
		a, b := g.dress(k[:i]), g.dress(k[i:])
		host := core.Pick(g.r, []string{"github.com/acme", "a.com", "example.com/mod"})
		switch variant {
		case 0:
			out = append(out, refs(self, host+"/net/"+b, host+"/"+a+"/"+b))
		case 1:
			if g.r.Bool() {
				out = append(out, refs(self, host+"/domain/"+a+"/"+b))
			} else {
				out = append(out, refs(self, host+"/x/apis/"+a+"/"+b))
			}
		case 2:
			if g.r.Bool() {
				out = append(out, refs(self, "b.org/"+b+"/v2", host+"/"+a+"/"+b+"/v2"))
			} else {
				out = append(out, refs(self, "b.org/y/"+b, host+"/"+a+"/v1/"+b))
			}
		default: // other reference kinds: the package is first met as a type argument / inside a type literal
			out = append(out, input{Self: self, Ops: []opIn{
				{K: "ref", Via: "id", Path: "example.com/o", Name: "Pair", Args: []node{{Path: host + "/net/" + b, Name: "T"}, {Path: host + "/" + a + "/" + b, Name: "Item"}}},
				{K: "lit", Shape: "map", Elems: []node{{Name: "string"}, {Path: host + "/" + a + "/" + b, Name: "List"}}},
				{K: "ref", Via: "expose", Path: host + "/" + a + "/" + b, Name: "New"}}})
		}
	}
	words := func(ws []string, all bool) {
		for _, k := range ws {
			var splits []int
			for i := 1; i < len(k); i++ {
				splits = append(splits, i)
			}
			if !all && len(splits) > 2 {
				for i := len(splits) - 1; i > 0; i-- {
					j := g.r.Intn(i + 1)
					splits[i], splits[j] = splits[j], splits[i]
				}
				splits = splits[:2]
			}
			for _, i := range splits {
				one(k, i, 0)
				if all {
					one(k, i, 1)
					one(k, i, 1+g.r.Intn(3))
				} else {
					one(k, i, 1+g.r.Intn(3))
				}
			}
			if len(k) >= 3 { // three parts
				i := 1 + g.r.Intn(len(k)-2)
				j := i + 1 + g.r.Intn(len(k)-i-1)
				a, b, c := g.dress(k[:i]), g.dress(k[i:j]), g.dress(k[j:])
				out = append(out, refs(self, "a.com/x/"+c, "b.org/y/"+b+"/"+c, "a.com/"+a+"/"+b+"/"+c))
				if g.r.Bool() {
					out = append(out, refs(self, "a.com/x/domain/"+a+"/"+b+"/"+c))
				}
			}
		}
	}
	words(goKeywords, true)
	words(universeNames(), tier == "thorough")
	return out
}

func refs(self string, paths ...string) input {
	in := input{Self: self}
	for _, p := range paths {
		in.Ops = append(in.Ops, opIn{K: "ref", Via: "namer", Path: p, Name: "T"})
	}
	return in
}

func (prop) Generate(r *core.RNG, tier string) []json.RawMessage {
	g := &gen{r: r, std: stdLines()}
	var out []json.RawMessage
	// fixed corner cases first
	fixed := []input{
		refs("example.com/m", "github.com/json-iterator/go"),
		refs("example.com/m", "example.com/2fa"),
		refs("example.com/m", "example.com/x/type"),
		refs("example.com/m", "a.com/foo-bar", "a.com/foo_bar", "a.com/foobar"),
		refs("example.com/m", "crypto/rand", "math/rand", "math/rand/v2", "example.com/rand", "example.com/math/rand"),
		refs("example.com/m", "mathrand", "math/rand"),
		refs("example.com/m", "k8s.io/api/core/v1", "k8s.io/api/apps/v1", "k8s.io/apimachinery/pkg/apis/meta/v1", "example.com/v1"),
		refs("example.com/m", "example.com/m", "time", "time", "example.com/time"),
		refs("example.com/m", "example.com/domain/user", "example.com/x/domain/user", "example.com/user"),
		refs("example.com/m", "gopkg.in/yaml.v3", "gopkg.in/yaml.v2", "sigs.k8s.io/yaml"),
		refs("example.com/m", "a.com/_-", "a.com/-", "a.com/_", ""),
		refs("example.com/m", "a.com/x--y", "a.com/xy", "a.com/x..y"),
		refs("example.com/m", "base-3", "base_3", "rand-v", "rand_v", "encoding/base32", "math/rand/v2"),
		// keywords / predeclared identifiers that appear only after folding the word boundaries (seeded mutation C03-a:
		// strings.ToLower moved behind the keyword test gave go-to -> goto)
		refs("example.com/m", "github.com/acme/go-to", "example.com/GoTo", "a.com/de-fer", "a.com/fall-through", "a.com/inter_face", "a.com/pack.age", "a.com/sel-ect", "a.com/im-port"),
		refs("example.com/m", "go-to", "GoTo", "de-fer", "Fall_Through", "g-o", "ty-pe", "i-f"),
		refs("example.com/m", "a.com/str-ing", "a.com/Str_ing", "b.org/er-ror", "a.com/le-n", "a.com/float-32", "ni-l", "In_T", "a.com/x/tr-ue"),
		// predeclared identifiers as local names (fixes/C03-3)
		refs("example.com/m", "example.com/x/string"),
		refs("example.com/m", "example.com/x/string", "example.com/xstring", "example.com/y/string", "string", "String"),
		refs("example.com/m", "a.com/error", "a.com/any", "a.com/int", "a.com/bool", "a.com/len", "a.com/new", "a.com/nil", "a.com/true", "a.com/iota", "a.com/float32"),
		refs("example.com/m", "error", "any", "int", "bool", "len", "new", "nil", "true", "iota", "float32"),
		refs("example.com/m", "float3", "float-3", "float_3", "int6", "int-6", "int_6", "Int6", "in-t6"),
		refs("example.com/m", "a.com/domain/string", "a.com/apis/len/v1", "a.com/x/apis/nil"),
		{Self: "example.com/m", Ops: []opIn{{K: "ref", Via: "id", Path: "example.com/o", Name: "Pair", Args: []node{{Name: "string"}, {Path: "example.com/string", Name: "T"}}},
			{K: "lit", Shape: "map", Elems: []node{{Name: "string"}, {Path: "a.com/int", Name: "T", Args: []node{{Name: "int"}}}}}}},
		{Self: "example.com/m", Ops: []opIn{{K: "ref", Via: "id", Path: "example.com/o", Name: "List", Args: []node{{Path: "example.com/p/o", Name: "Item"}, {Name: "int"}, {Path: "example.com/m", Name: "Own"}}}}},
		{Self: "example.com/m", Ops: []opIn{{K: "lit", Shape: "map", Elems: []node{{Path: "time", Name: "Duration"}, {Path: "example.com/time", Name: "Time", Args: []node{{Path: "a.com/go", Name: "T"}}}}}}},
	}
	fixed = append(fixed, vendorCorners()...)
	fixed = append(fixed, tplCorners()...)
	fixed = append(fixed, pipelineCorners()...)
	fixed = append(fixed,
		refs("example.com/m", "github.com/acme/net/port", "github.com/acme/im/port"),
		refs("example.com/m", "a.com/x/age", "a.com/pack/age", "a.com/y/through", "a.com/fall/through", "a.com/x/ing", "a.com/str/ing", "a.com/x/ror", "a.com/er/ror"),
		refs("example.com/m", "a.com/domain/im/port", "a.com/x/apis/fu/nc", "a.com/domain/str/ing"),
	)
	for _, f := range fixed {
		out = append(out, marshal(f))
	}
	for _, f := range g.joinedNames(tier) {
		out = append(out, marshal(f))
	}
	n := 900
	if tier == "thorough" {
		n = 8000
	}
	for i := 0; i < n; i++ {
		out = append(out, marshal(g.history(r.Chance(10))))
	}
	np := 16
	if tier == "thorough" {
		np = 150
	}
	for i := 0; i < np; i++ {
		out = append(out, marshal(g.pipelineHistory()))
	}
	for i := 0; i < np+np/2; i++ {
		out = append(out, marshal(g.pipelineTypesHistory()))
	}
	if tier == "thorough" {
		// exhaustive small scope: every sequence of length <= 3 over 7 clashing paths (self fixed)
		small := []string{"a.com/foo-bar", "a.com/foo_bar", "a.com/foobar", "a.com/go", "b.org/go", "a.com/rand", "math/rand"}
		var rec func(prefix []string)
		rec = func(prefix []string) {
			if len(prefix) > 0 {
				out = append(out, marshal(refs("example.com/m", prefix...)))
			}
			if len(prefix) == 3 {
				return
			}
			for _, p := range small {
				rec(append(append([]string{}, prefix...), p))
			}
		}
		rec(nil)
		// ... and over 7 paths whose candidates are predeclared identifiers (incl. the numbered fallback: float32)
		small = []string{"a.com/string", "b.org/string", "string", "String", "float3", "float-3", "a.com/x/float-3"}
		rec(nil)
	}
	return out
}

// ---------------------------------------------------------------- translator: std.list -> Gen/StdList.v

func coqStringLit(s string) (string, bool) {
	for i := 0; i < len(s); i++ {
		c := s[i]
		if c < 0x20 || c >= 0x7f || c == '"' {
			return "", false
		}
	}
	return `(bs "` + s + `")`, true
}

func tablesChild(args []string) int {
	if len(args) < 1 {
		fmt.Fprintln(os.Stderr, "usage: vh tables-C03 <coq/theories/Gen>")
		return 2
	}
	dir := args[0]
	data, err := os.ReadFile(filepath.Join(repoDir(), "pkg", "namer", "std.list"))
	if err != nil {
		fmt.Fprintln(os.Stderr, "tables-C03:", err)
		return 1
	}
	// the lines exactly as bufio.Scanner (ScanLines) yields them: split at \n, one trailing \r dropped,
	// no final empty token
	lines := strings.Split(string(data), "\n")
	if len(lines) > 0 && lines[len(lines)-1] == "" {
		lines = lines[:len(lines)-1]
	}
	var b strings.Builder
	b.WriteString("(* GENERATED by `vh tables-C03` from pkg/namer/std.list of the checked repository — do not edit.\n")
	b.WriteString("   The lines of the embedded list, in order, the names of the universe scope, and the reserved-name table std.go builds\n")
	b.WriteString("   from the list (evaluated with the model of the tracker; Proofs/StdTable.v re-proves the side conditions). *)\n")
	b.WriteString("Require Import Gengo.Base.Bytes Gengo.Model.Tracker.\n\n")
	b.WriteString("Definition std_lines : list bytes := [\n")
	for i, l := range lines {
		l = strings.TrimSuffix(l, "\r")
		t, ok := coqStringLit(l)
		if !ok {
			t = core.Hex(l)
		}
		b.WriteString("  " + t)
		if i < len(lines)-1 {
			b.WriteString(";")
		}
		b.WriteString("\n")
	}
	b.WriteString("].\n\n")
	// the predeclared identifiers the repaired bind refuses: the universe scope of the go/types the harness — and with
	// it the tracker under test — is compiled with
	b.WriteString("(* go/types.Universe.Names() of the toolchain the checked code is built with (" + runtime.Version() + ") *)\n")
	b.WriteString("Definition universe_names : list bytes := [\n")
	names := types.Universe.Names()
	for i, n := range names {
		t, ok := coqStringLit(n)
		if !ok {
			t = core.Hex(n)
		}
		b.WriteString("  " + t)
		if i < len(names)-1 {
			b.WriteString(";")
		}
		b.WriteString("\n")
	}
	b.WriteString("].\n\n")
	b.WriteString("Definition std_built (fixed : bool) (pre : list bytes) : res tracker := build_std fixed pre std_lines.\n")
	b.WriteString("Definition std_tr : tracker :=\n  Eval vm_compute in match std_built true universe_names with Ok t => t | _ => empty_tracker end.\n")
	want := b.String()
	if err := os.MkdirAll(dir, 0o755); err != nil {
		fmt.Fprintln(os.Stderr, "tables-C03:", err)
		return 1
	}
	f := filepath.Join(dir, "StdList.v")
	if have, err := os.ReadFile(f); err == nil && string(have) == want {
		return 0
	}
	if err := os.WriteFile(f, []byte(want), 0o644); err != nil {
		fmt.Fprintln(os.Stderr, "tables-C03:", err)
		return 1
	}
	fmt.Println("tables-C03: rewrote", f)
	return 0
}
