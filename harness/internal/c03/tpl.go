package c03

// Template operations: snippet.T(format, args) rendered through the writer.  What C03 says about them:
// the packages the RENDERED BODY refers to are registered — an entry of the argument set that the
// format text does not mention contributes nothing to the body, so it must register nothing (a
// generator that keeps one snippet.Args set and picks among several template texts is the normal
// use).  The model needs no new construct: a template is the ORender of its literal text pieces and
// of the arguments its text mentions, in textual order.

import (
	"bytes"
	"go/parser"
	"image"
	"net"
	"net/url"
	"strings"
	"time"

	"github.com/octohelm/gengo/pkg/gengo/snippet"

	"verifharness/internal/core"
)

// one piece of a template text: literal text, or a placeholder @Arg
type tplPart struct {
	Text string `json:"text,omitempty"`
	Arg  string `json:"arg,omitempty"`
}

// one entry of the argument set: Op is a "ref" (via id | expose | idobj), a "lit", or a "val"
// (snippet.Value of a real Go value that carries a package: valueArgs[Reflect])
type tplArg struct {
	Name string `json:"name"`
	Op   opIn   `json:"op"`
}

type valueEntry struct {
	v     any
	paths []string // the packages its literal refers to
}

var valueArgs = map[string]valueEntry{
	"&bytes.Buffer{}":     {&bytes.Buffer{}, []string{"bytes"}},
	"url.Values":          {url.Values{"k": {"v"}}, []string{"net/url"}},
	"[]time.Duration":     {[]time.Duration{time.Second}, []string{"time"}},
	"net.IP":              {net.IP{127, 0, 0, 1}, []string{"net"}},
	"image.Point":         {image.Point{X: 1, Y: 2}, []string{"image"}},
	"map[string]*url.URL": {map[string]*url.URL{"a": nil}, []string{"net/url"}},
	"time.Time{}":         {time.Time{}, []string{"time"}},
}

func valueKeys() []string {
	var ks []string
	for k := range valueArgs {
		ks = append(ks, k)
	}
	sortStrings(ks)
	return ks
}

func sortStrings(s []string) {
	for i := 1; i < len(s); i++ {
		for j := i; j > 0 && s[j] < s[j-1]; j-- {
			s[j], s[j-1] = s[j-1], s[j]
		}
	}
}

func isNameChar(c byte) bool {
	return c >= 'A' && c <= 'Z' || c >= 'a' && c <= 'z' || c >= '0' && c <= '9' || c == '_'
}

// the format string of a template operation: text pieces verbatim, placeholders as @name, with the
// apostrophe delimiter only where the next character would otherwise be read as part of the name
// (or is an apostrophe itself)
func tplFormat(parts []tplPart) string {
	var b strings.Builder
	for i, p := range parts {
		if p.Arg == "" {
			b.WriteString(p.Text)
			continue
		}
		b.WriteString("@" + p.Arg)
		if i+1 < len(parts) && parts[i+1].Arg == "" && parts[i+1].Text != "" {
			if c := parts[i+1].Text[0]; isNameChar(c) || c == '\'' {
				b.WriteByte('\'')
			}
		}
	}
	return b.String()
}

// the binding of a name (the argument set is a map: the last entry of a name wins)
func tplLookup(o opIn, name string) (tplArg, bool) {
	for i := len(o.TArgs) - 1; i >= 0; i-- {
		if o.TArgs[i].Name == name {
			return o.TArgs[i], true
		}
	}
	return tplArg{}, false
}

// the argument operations the text mentions, in textual order (with repetitions)
func tplMentioned(o opIn) []opIn {
	var out []opIn
	for _, p := range o.Parts {
		if p.Arg != "" {
			if a, ok := tplLookup(o, p.Arg); ok {
				out = append(out, a.Op)
			}
		}
	}
	return out
}

// entries of the argument set the text does not mention
func tplSuperfluous(o opIn) []tplArg {
	var out []tplArg
	for _, a := range o.TArgs {
		used := false
		for _, p := range o.Parts {
			used = used || p.Arg == a.Name
		}
		if !used {
			out = append(out, a)
		}
	}
	return out
}

func argSnippet(a opIn) snippet.Snippet {
	if a.K == "val" {
		return snippet.Value(valueArgs[a.Reflect].v)
	}
	return snippetOf(a)
}

func tplSnippet(o opIn) snippet.Snippet {
	set := snippet.Args{}
	var list []snippet.TArg
	for _, a := range o.TArgs {
		s := argSnippet(a.Op)
		set[a.Name] = s
		list = append(list, snippet.Arg(a.Name, s))
	}
	if len(o.TArgs)%2 == 0 { // both ways of passing arguments
		return snippet.T(tplFormat(o.Parts), set)
	}
	return snippet.T(tplFormat(o.Parts), list...)
}

// model-level items of a template: its text and the arguments it mentions
func tplItems(o opIn) []string {
	var items []string
	for _, p := range o.Parts {
		if p.Arg == "" {
			if p.Text != "" {
				items = append(items, "ILit "+cs(p.Text))
			}
			continue
		}
		if a, ok := tplLookup(o, p.Arg); ok {
			items = append(items, opItems(a.Op)...)
		}
	}
	return items
}

// is the template inside the structured domain (argOK = structuredOp of an argument operation)
func tplStructured(o opIn, argOK func(opIn) (bool, string)) (bool, string) {
	seen := map[string]bool{}
	for _, a := range o.TArgs {
		if a.Name == "" || seen[a.Name] {
			return false, "odd_template_args"
		}
		for i := 0; i < len(a.Name); i++ {
			if !isNameChar(a.Name[i]) {
				return false, "odd_template_args"
			}
		}
		seen[a.Name] = true
		switch a.Op.K {
		case "ref":
			if a.Op.Via != "id" && a.Op.Via != "expose" && a.Op.Via != "idobj" {
				return false, "odd_template_args"
			}
		case "lit":
		case "val":
			if _, ok := valueArgs[a.Op.Reflect]; !ok {
				return false, "odd_template_args"
			}
			continue
		default:
			return false, "odd_template_args"
		}
		if ok, why := argOK(a.Op); !ok {
			return false, why
		}
	}
	first := true
	for _, p := range o.Parts {
		if p.Arg != "" {
			a, ok := tplLookup(o, p.Arg)
			if !ok {
				return false, "unbound_placeholder" // T panics: C09's clause
			}
			if a.Op.K == "val" {
				return false, "value_argument_mentioned" // the literal's text is the dumper's business (C10)
			}
			first = false
			continue
		}
		// template syntax inside the text is C09's business
		if strings.Contains(p.Text, "@") || (first && strings.HasPrefix(p.Text, "\n")) {
			return false, "odd_template_text"
		}
		for i := 0; i < len(p.Text); i++ {
			if p.Text[i] >= 0x80 || p.Text[i] == 0 {
				return false, "odd_template_text"
			}
		}
		if p.Text != "" {
			first = false
		}
	}
	return true, ""
}

// for a pipeline case the rendered template must be a type expression (the file is `var _ <text>` lines)
func tplIsTypeExpr(o opIn) bool {
	var b strings.Builder
	for _, p := range o.Parts {
		if p.Arg != "" {
			b.WriteString(" int ")
		} else {
			b.WriteString(p.Text)
		}
	}
	if strings.ContainsAny(b.String(), ".;") {
		return false
	}
	_, err := parser.ParseExpr(b.String())
	return err == nil
}

// ---------------------------------------------------------------- generator

// template texts as pieces around the placeholder slots; all of these are type expressions, so the
// pipeline cases can use them too
var tplTexts = [][]string{
	{"struct{}"}, {"int"},
	{"", ""}, {"[]", ""}, {"*", ""}, {"chan ", ""}, {"[4]", ""}, {"func() ", ""}, {"map[string]", ""}, {"func(ctx ", ") error"},
	{"map[", "]", ""}, {"func(", ") ", ""}, {"struct {\n\tA ", "\n\tB *", "\n}"}, {"func(", ", ", ")"}, {"map[", "][]*", ""},
	{"func(", ", ", ") ", ""}, {"func(ctx ", ") (", ", ", ")"}, {"struct {\n\tA ", "\n\tB []", "\n\tC map[string]", "\n}"},
	{"func(", ", ", ") (", ", ", ")"},
}

// ... and statement-like texts of real generators (direct cases only)
var tplStmts = [][]string{
	{"func (v *", ") Encode(ctx ", ") ([]byte, error) {\n\treturn ", "(v)\n}\n"},
	{"func (v *", ") Validate(ctx ", ") error {\n\tvar _ ", " = ctx\n\treturn nil\n}\n"},
	{"var _ ", " = (*", ")(nil)\n"},
	{"if x, ok := v.(", "); ok {\n\t_ = x\n}\n"},
	{"*", "x"}, {"", "'s"}, {"", "_1 ", "''"},
	{"return nil\n"},
}

var tplArgNames = []string{"Type", "Context", "T", "K", "V", "jsonMarshal", "yamlMarshal", "a", "b1", "x_y", "A", "Elem", "_", "0"}

func (g *gen) tplArgOp(pool []string, self string, allowVal bool) opIn {
	switch k := g.r.Intn(10); {
	case k < 2 && allowVal:
		return opIn{K: "val", Reflect: core.Pick(g.r, valueKeys())}
	case k < 3:
		key := core.Pick(g.r, reflectKeys())
		e := reflectTypes[key]
		return opIn{K: "lit", Shape: e.shape, Elems: e.elems, Reflect: key}
	case k < 4:
		o := opIn{K: "lit", Shape: core.Pick(g.r, []string{"named", "ptr", "slice", "map"})}
		o.Elems = []node{g.node(pool, self, 0), g.node(pool, self, 0)}
		if o.Shape != "map" {
			o.Elems = o.Elems[:1]
		}
		return o
	}
	p := g.path(pool, self)
	if p == "" || strings.ContainsAny(p, "[],") {
		p = "example.com/tpl/arg"
	}
	o := opIn{K: "ref", Via: core.Pick(g.r, []string{"id", "id", "expose", "expose", "idobj"}), Path: p, Name: core.Pick(g.r, typeNames)}
	if o.Via == "idobj" {
		if g.r.Chance(30) {
			o.TParams = []string{"T", "K"}[:1+g.r.Intn(2)]
		}
	} else if g.r.Chance(25) {
		o.Args = append(o.Args, g.node(pool, self, 1))
	}
	return o
}

// a template operation; prev != nil: another text over the SAME argument set (one Args value, several templates)
func (g *gen) tplOp(pool []string, self string, prev []tplArg, typeExprOnly bool) opIn {
	o := opIn{K: "tpl"}
	if prev != nil {
		o.TArgs = prev
	} else {
		names := append([]string{}, tplArgNames...)
		n := 1 + g.r.Intn(5)
		for i := 0; i < n; i++ {
			j := i + g.r.Intn(len(names)-i)
			names[i], names[j] = names[j], names[i]
			o.TArgs = append(o.TArgs, tplArg{Name: names[i], Op: g.tplArgOp(pool, self, true)})
		}
	}
	var usable []string
	for _, a := range o.TArgs {
		if a.Op.K != "val" {
			usable = append(usable, a.Name)
		}
	}
	texts := tplTexts
	if !typeExprOnly && g.r.Chance(35) {
		texts = tplStmts
	}
	var text []string
	for try := 0; try < 20; try++ {
		text = core.Pick(g.r, texts)
		if len(text) == 1 || len(usable) > 0 {
			break
		}
		text = []string{"struct{}"}
	}
	// mention only a subset of the usable arguments: superfluous entries are the point
	if len(usable) > 1 && g.r.Chance(70) {
		k := 1 + g.r.Intn(len(usable)-1)
		for i := 0; i < k; i++ {
			j := i + g.r.Intn(len(usable)-i)
			usable[i], usable[j] = usable[j], usable[i]
		}
		usable = usable[:k]
	}
	for i, t := range text {
		if t != "" {
			o.Parts = append(o.Parts, tplPart{Text: t})
		}
		if i+1 < len(text) {
			o.Parts = append(o.Parts, tplPart{Arg: core.Pick(g.r, usable)})
		}
	}
	return o
}

func tplOf(args []tplArg, text []string, slots ...string) opIn {
	o := opIn{K: "tpl", TArgs: args}
	for i, t := range text {
		if t != "" {
			o.Parts = append(o.Parts, tplPart{Text: t})
		}
		if i+1 < len(text) {
			o.Parts = append(o.Parts, tplPart{Arg: slots[i]})
		}
	}
	return o
}

// fixed corner cases: one argument set, several texts, none of which mentions every argument
func tplCorners() []input {
	self := "example.com/own"
	exp := func(p, n string) opIn { return opIn{K: "ref", Via: "expose", Path: p, Name: n} }
	id := func(p, n string) opIn { return opIn{K: "ref", Via: "id", Path: p, Name: n} }
	args := []tplArg{
		{"Type", id(self, "Thing")}, {"Context", exp("context", "Context")},
		{"jsonMarshal", exp("encoding/json", "Marshal")}, {"yamlMarshal", exp("gopkg.in/yaml.v3", "Marshal")},
	}
	clash := []tplArg{
		{"A", id("a.com/foo-bar", "T")}, {"B", id("a.com/foo_bar", "T")}, {"C", id("a.com/foobar", "T")},
		{"R", exp("example.com/rand", "Int")}, {"S", id("math/rand", "Rand")}, {"V", opIn{K: "val", Reflect: "&bytes.Buffer{}"}},
		{"L", opIn{K: "lit", Shape: "map", Elems: []node{{Path: "time", Name: "Month"}, {Path: "example.com/time", Name: "Time"}}}},
	}
	pself := pipeModule + "/self"
	pargs := []tplArg{
		{"Type", id(pself, "Own")}, {"Context", exp("context", "Context")},
		{"jsonMarshal", exp("encoding/json", "Marshal")}, {"yamlMarshal", exp("gopkg.in/yaml.v3", "Marshal")}, {"V", opIn{K: "val", Reflect: "url.Values"}},
	}
	return []input{
		{Self: self, Ops: []opIn{tplOf(args, tplStmts[1], "Type", "Context", "Context")}},
		{Self: self, Ops: []opIn{tplOf(args, tplStmts[1], "Type", "Context", "Context"), tplOf(args, tplStmts[0], "Type", "Context", "jsonMarshal")}},
		{Self: self, Ops: []opIn{tplOf(args, []string{"struct{}"}), tplOf(args, []string{"func(", ") error"}, "Context")}},
		{Self: self, Ops: []opIn{tplOf(clash, []string{"func(", ", ", ") ", ""}, "C", "A", "C"), tplOf(clash, []string{"map[", "]", ""}, "R", "L"),
			{K: "ref", Via: "namer", Path: "a.com/foo_bar", Name: "T"}, tplOf(clash, []string{"[]", ""}, "S")}},
		{Self: self, Ops: []opIn{tplOf(clash[5:6], []string{"int"}), tplOf(clash[:2], []string{"*", "x"}, "B")}},
		{Self: pself, Pipeline: true, Ops: []opIn{tplOf(pargs, []string{"func(*", ", ", ") error"}, "Type", "Context"),
			tplOf(pargs, []string{"func(", ") ", ""}, "Context", "jsonMarshal")}},
		{Self: pself, Pipeline: true, Ops: []opIn{tplOf(pargs, []string{"struct{}"}), tplOf(pargs[1:], []string{"map[string]", ""}, "Context")}},
	}
}
