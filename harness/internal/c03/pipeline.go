package c03

// Pipeline cases: the same kind of history, but rendered by a generator inside a real gengo run
// (NewContext / Execute on a synthetic module), and observed in the FILE gengo wrote: the import
// block of zz_generated.c03.go and the type expressions in its body.  This exercises
// genfile.InitWith (one tracker per output file, rawNamer for the file's package), writeImports and
// the parse/format/write path on top of the naming system.

import (
	"context"
	"encoding/json"
	"fmt"
	"go/ast"
	"go/parser"
	"go/token"
	"go/types"
	"os"
	"os/exec"
	"path/filepath"
	"runtime"
	"sort"
	"strconv"
	"strings"
	"sync/atomic"
	"time"

	"github.com/octohelm/gengo/pkg/gengo"
	"github.com/octohelm/gengo/pkg/gengo/snippet"
	gengotypes "github.com/octohelm/gengo/pkg/types"

	"verifharness/internal/core"
)

const pipeModule = "c03.test/m"

var (
	pipeRan     atomic.Int64
	pipeSkipped atomic.Int64
	pipeSkipWhy atomic.Value
)

// reported once per invocation: pipeline cases that could not be run are not silently dropped
func (prop) Extra(_ *core.RNG, _ string, _ string) (violations []string, notes []string, stats map[string]any) {
	stats = map[string]any{"pipeline_cases_run": pipeRan.Load(), "pipeline_cases_skipped": pipeSkipped.Load()}
	if n := pipeSkipped.Load(); n > 0 {
		why, _ := pipeSkipWhy.Load().(string)
		notes = append(notes, fmt.Sprintf("%d pipeline case(s) could not be run (the synthetic module did not load): %s", n, strings.TrimSpace(why)))
	}
	return nil, notes, stats
}

func init() {
	core.Children["c03-pipeline"] = pipelineChild
}

// what snippet an operation is rendered as
func snippetOf(o opIn) snippet.Snippet {
	switch o.K {
	case "ref":
		switch o.Via {
		case "expose":
			return snippet.PkgExpose(o.Path, o.Name+printArgs(o.Args))
		case "idobj":
			return snippet.ID(gengotypes.TypeName(objOf(o)))
		default:
			return snippet.ID(o.Path + "." + o.Name + printArgs(o.Args))
		}
	case "lit":
		if e, ok := reflectTypes[o.Reflect]; ok {
			return snippet.ID(e.t)
		}
		return snippet.ID(litType(o))
	case "tpl":
		return tplSnippet(o)
	}
	return nil
}

type pipeGen struct{ in input }

func (g *pipeGen) Name() string                        { return "c03" }
func (g *pipeGen) New(c gengo.Context) gengo.Generator { return g }
func (g *pipeGen) GenerateType(c gengo.Context, named *types.Named) error {
	for _, o := range g.in.Ops {
		c.Render(snippet.Block("var _ "))
		c.Render(snippetOf(o))
		c.Render(snippet.Block("\n"))
	}
	return nil
}

// child: cwd = module root, args[0] = history file
func pipelineChild(args []string) int {
	data, err := os.ReadFile(args[0])
	if err != nil {
		fmt.Fprintln(os.Stderr, err)
		return 2
	}
	var in input
	if err := json.Unmarshal(data, &in); err != nil {
		fmt.Fprintln(os.Stderr, err)
		return 2
	}
	ex, err := gengo.NewContext(&gengo.GeneratorArgs{Entrypoint: []string{in.Self}, OutputFileBaseName: "zz_generated"})
	if err != nil {
		fmt.Fprintln(os.Stderr, "NewContext:", err)
		return 3
	}
	if err := ex.Execute(context.Background(), &pipeGen{in: in}); err != nil {
		fmt.Fprintln(os.Stderr, "Execute:", err)
		return 4
	}
	return 0
}

// import paths go/parser accepts in an import declaration
func validImportPath(p string) bool {
	if p == "" {
		return false
	}
	for _, r := range p {
		if r <= ' ' || r >= 0x7f || strings.ContainsRune("!\"#$%&'()*,:;<=>?[\\]^{|}`", r) {
			return false
		}
	}
	return true
}

func pipelineOK(in input) bool {
	if !strings.HasPrefix(in.Self, pipeModule+"/") {
		return false
	}
	if ok, _ := structured(in); !ok || !allASCII(in) {
		return false
	}
	for _, o := range in.Ops {
		if o.K == "add" || (o.K == "ref" && (o.Via == "namer" || o.Via == "obj")) {
			return false
		}
		for _, p := range opPaths(o) {
			if p != "" && !validImportPath(p) {
				return false
			}
		}
		for _, h := range headPaths(o) {
			if h == "" {
				return false
			}
		}
		if o.K == "tpl" {
			if !tplIsTypeExpr(o) {
				return false
			}
			for _, a := range o.TArgs { // entries the text does not mention as well: they would be import lines if they were registered
				for _, p := range append(opPaths(a.Op), headPaths(a.Op)...) {
					if p != "" && !validImportPath(p) {
						return false
					}
				}
				if a.Op.K == "ref" && a.Op.Path == "" {
					return false
				}
			}
		}
	}
	return true
}

func stripWS(s string) string {
	return strings.Map(func(r rune) rune {
		if r == ' ' || r == '\t' || r == '\n' || r == '\r' {
			return -1
		}
		return r
	}, s)
}

func runPipeline(in input, scratch string) (obs observed, failure string, notes []string) {
	sub := strings.TrimPrefix(in.Self, pipeModule+"/")
	dir := filepath.Join(scratch, "m")
	pkgDir := filepath.Join(dir, filepath.FromSlash(sub))
	if err := os.MkdirAll(pkgDir, 0o755); err != nil {
		return obs, "", []string{"scratch: " + err.Error()}
	}
	pkgName := "p"
	// the Go version the harness itself was built with: that toolchain is present
	_ = os.WriteFile(filepath.Join(dir, "go.mod"), []byte("module "+pipeModule+"\n\ngo "+strings.TrimPrefix(runtime.Version(), "go")+"\n"), 0o644)
	_ = os.WriteFile(filepath.Join(pkgDir, "p.go"), []byte("package "+pkgName+"\n\n// +gengo:c03\ntype Own struct{}\n"), 0o644)
	hist, _ := json.Marshal(in)
	histFile := filepath.Join(scratch, "history.json")
	_ = os.WriteFile(histFile, hist, 0o644)

	ctx, cancel := context.WithTimeout(context.Background(), 120*time.Second)
	defer cancel()
	cmd := exec.CommandContext(ctx, os.Args[0], "c03-pipeline", histFile)
	cmd.Dir = dir
	out, err := cmd.CombinedOutput()
	if ctx.Err() != nil {
		return obs, "gengo run did not finish in 120 s", nil
	}
	if err != nil {
		msg := string(out)
		if len(msg) > 600 {
			msg = msg[len(msg)-600:]
		}
		if ee, ok := err.(*exec.ExitError); ok && (ee.ExitCode() == 3 || ee.ExitCode() == 2) {
			pipeSkipped.Add(1)
			pipeSkipWhy.Store(msg)
			return obs, "", []string{"pipeline case skipped, the synthetic module did not load: " + msg}
		}
		return obs, "gengo Execute failed on a file whose body only names types: " + msg, nil
	}
	pipeRan.Add(1)
	genFile := filepath.Join(pkgDir, "zz_generated.c03.go")
	src, err := os.ReadFile(genFile)
	if err != nil {
		return obs, "no generated file: " + err.Error(), nil
	}
	fset := token.NewFileSet()
	f, err := parser.ParseFile(fset, genFile, src, parser.SkipObjectResolution)
	if err != nil {
		return obs, "generated file does not parse: " + err.Error(), nil
	}
	table := map[string]string{}
	byName := map[string]string{}
	for _, is := range f.Imports {
		p, _ := strconv.Unquote(is.Path.Value)
		n := ""
		if is.Name != nil {
			n = is.Name.Name
		}
		if _, dup := table[p]; dup {
			failure = "import block lists " + p + " twice"
		}
		table[p] = n
		byName[n] = p
	}
	var snap [][]string
	for p, n := range table {
		snap = append(snap, []string{p, n})
	}
	sort.Slice(snap, func(i, j int) bool { return snap[i][0] < snap[j][0] })
	// the body: one `var _ T` per operation, in order
	used := map[string]bool{}
	for _, d := range f.Decls {
		gd, ok := d.(*ast.GenDecl)
		if !ok || gd.Tok != token.VAR {
			continue
		}
		for _, s := range gd.Specs {
			vs := s.(*ast.ValueSpec)
			if vs.Type == nil {
				continue
			}
			text := string(src[fset.Position(vs.Type.Pos()).Offset:fset.Position(vs.Type.End()).Offset])
			obs.Ops = append(obs.Ops, obsOp{Text: stripWS(text), Snap: snap})
			ast.Inspect(vs.Type, func(n ast.Node) bool {
				if se, ok := n.(*ast.SelectorExpr); ok {
					if id, ok := se.X.(*ast.Ident); ok {
						used[id.Name] = true
					}
				}
				return true
			})
		}
	}
	// the Go compiler's rule, on the file itself: every qualifier is an imported name, every import is used
	for q := range used {
		if _, ok := byName[q]; !ok && failure == "" {
			failure = "the body uses qualifier " + q + " which the import block does not bind"
		}
	}
	for n, p := range byName {
		if !used[n] && failure == "" {
			failure = "import " + n + " " + strconv.Quote(p) + " is not used in the body"
		}
	}
	owners := stdOwners()
	for _, e := range snap {
		p := e[0]
		io := impObs{Path: p, Name: e[1], PathOf: &p, Owners: owners[e[1]]}
		if n, ok := stdAlone()[p]; ok {
			io.Alone = &n
		}
		obs.Final = append(obs.Final, io)
	}
	seen := map[string]bool{}
	for _, o := range in.Ops {
		for _, p := range opPaths(o) {
			if !seen[p] {
				seen[p] = true
				obs.LocalNames = append(obs.LocalNames, []string{p, table[p]})
			}
		}
	}
	return obs, failure, notes
}
