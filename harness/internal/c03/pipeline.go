package c03

// Pipeline cases: the same kind of history, but rendered by a generator inside a real gengo run
// (NewContext / Execute on a synthetic module), and observed in the FILE gengo wrote: the import
// block of zz_generated.c03.go and the type expressions in its body.  This exercises
// genfile.InitWith (one tracker per output file, rawNamer for the file's package), writeImports and
// the parse/format/write path on top of the naming system.

import (
	"context"
	"encoding/json"
	"fmt"
	"go/ast"
	"go/parser"
	"go/token"
	"go/types"
	"os"
	"os/exec"
	"path/filepath"
	"runtime"
	"sort"
	"strconv"
	"strings"
	"sync/atomic"
	"time"

	"github.com/octohelm/gengo/pkg/gengo"
	"github.com/octohelm/gengo/pkg/gengo/snippet"
	gengotypes "github.com/octohelm/gengo/pkg/types"

	"verifharness/internal/core"
)

const pipeModule = "c03.test/m"

var (
	pipeRan     atomic.Int64
	pipeSkipped atomic.Int64
	pipeSkipWhy atomic.Value
)

// reported once per invocation: pipeline cases that could not be run are not silently dropped
func (prop) Extra(_ *core.RNG, _ string, _ string) (violations []string, notes []string, stats map[string]any) {
	stats = map[string]any{"pipeline_cases_run": pipeRan.Load(), "pipeline_cases_skipped": pipeSkipped.Load()}
	if n := pipeSkipped.Load(); n > 0 {
		why, _ := pipeSkipWhy.Load().(string)
		notes = append(notes, fmt.Sprintf("%d pipeline case(s) could not be run (the synthetic module did not load): %s", n, strings.TrimSpace(why)))
	}
	return nil, notes, stats
}

func init() {
	core.Children["c03-pipeline"] = pipelineChild
}

// what snippet an operation is rendered as
func snippetOf(o opIn) snippet.Snippet {
	switch o.K {
	case "ref":
		switch o.Via {
		case "expose":
			return snippet.PkgExpose(o.Path, o.Name+printArgs(o.Args))
		case "idobj":
			return snippet.ID(gengotypes.TypeName(objOf(o)))
		default:
			return snippet.ID(o.Path + "." + o.Name + printArgs(o.Args))
		}
	case "lit":
		if e, ok := reflectTypes[o.Reflect]; ok {
			return snippet.ID(e.t)
		}
		return snippet.ID(litType(o))
	case "tpl":
		return tplSnippet(o)
	}
	return nil
}

type pipeGen struct{ in input }

func (g *pipeGen) Name() string                        { return "c03" }
func (g *pipeGen) New(c gengo.Context) gengo.Generator { return g }
func (g *pipeGen) GenerateType(c gengo.Context, named *types.Named) error {
	if len(g.in.Types) > 0 {
		return g.generateFor(c, named.Obj().Name())
	}
	for _, o := range g.in.Ops {
		c.Render(snippet.Block("var _ "))
		c.Render(snippetOf(o))
		c.Render(snippet.Block("\n"))
	}
	return nil
}

func (g *pipeGen) GenerateAliasType(c gengo.Context, alias *types.Alias) error {
	if len(g.in.Types) > 0 {
		return g.generateFor(c, alias.Obj().Name())
	}
	return nil
}

// typeIn: the package of a pipeline case declares one tagged type per entry (T00, T01 ...; gengo generates them in this
// order).  For type k the generator renders the next N operations of the history, one `var V<i> <snippet>` line per
// operation (i = index of the operation in the history, so that the lines can be recognised in the written file), and
// then ends as End says:
//
//	""       return nil
//	"skip"   return gengo.ErrSkip   (it met something it does not support half-way: the type is skipped)
//	"ignore" return gengo.ErrIgnore
//	"defer"  the lines are rendered by a callback registered with Context.Defer (after all types), return nil
type typeIn struct {
	N     int    `json:"n"`
	End   string `json:"end,omitempty"`
	Alias bool   `json:"alias,omitempty"` // declared as `type Tkk = struct{}`: goes through GenerateAliasType
}

func typeName(k int) string { return fmt.Sprintf("T%02d", k) }

// the operations of the history that belong to type k
func typeSpan(in input, k int) (lo, hi int) {
	for i := 0; i < k && i < len(in.Types); i++ {
		lo += max(in.Types[i].N, 0)
	}
	hi = lo
	if k < len(in.Types) {
		hi = lo + max(in.Types[k].N, 0)
	}
	return min(lo, len(in.Ops)), min(hi, len(in.Ops))
}

func (g *pipeGen) generateFor(c gengo.Context, name string) error {
	k := -1
	for i := range g.in.Types {
		if typeName(i) == name {
			k = i
		}
	}
	if k < 0 {
		return nil
	}
	lo, hi := typeSpan(g.in, k)
	render := func(c gengo.Context) error {
		for i := lo; i < hi; i++ {
			c.Render(snippet.Block(fmt.Sprintf("var V%d ", i)))
			c.Render(snippetOf(g.in.Ops[i]))
			c.Render(snippet.Block("\n"))
		}
		return nil
	}
	if g.in.Types[k].End == "defer" {
		c.Defer(render)
		return nil
	}
	_ = render(c)
	switch g.in.Types[k].End {
	case "skip":
		return gengo.ErrSkip
	case "ignore":
		return gengo.ErrIgnore
	}
	return nil
}

// child: cwd = module root, args[0] = history file
func pipelineChild(args []string) int {
	data, err := os.ReadFile(args[0])
	if err != nil {
		fmt.Fprintln(os.Stderr, err)
		return 2
	}
	var in input
	if err := json.Unmarshal(data, &in); err != nil {
		fmt.Fprintln(os.Stderr, err)
		return 2
	}
	ex, err := gengo.NewContext(&gengo.GeneratorArgs{Entrypoint: []string{in.Self}, OutputFileBaseName: "zz_generated"})
	if err != nil {
		fmt.Fprintln(os.Stderr, "NewContext:", err)
		return 3
	}
	if err := ex.Execute(context.Background(), &pipeGen{in: in}); err != nil {
		fmt.Fprintln(os.Stderr, "Execute:", err)
		return 4
	}
	return 0
}

// import paths go/parser accepts in an import declaration
func validImportPath(p string) bool {
	if p == "" {
		return false
	}
	for _, r := range p {
		if r <= ' ' || r >= 0x7f || strings.ContainsRune("!\"#$%&'()*,:;<=>?[\\]^{|}`", r) {
			return false
		}
	}
	return true
}

func pipelineOK(in input) bool {
	if !strings.HasPrefix(in.Self, pipeModule+"/") {
		return false
	}
	if len(in.Types) > 99 {
		return false
	}
	for _, t := range in.Types {
		if t.N < 0 || !(t.End == "" || t.End == "skip" || t.End == "ignore" || t.End == "defer") {
			return false
		}
	}
	if ok, _ := structured(in); !ok || !allASCII(in) {
		return false
	}
	for _, o := range in.Ops {
		if o.K == "add" || (o.K == "ref" && (o.Via == "namer" || o.Via == "obj")) {
			return false
		}
		for _, p := range opPaths(o) {
			if p != "" && !validImportPath(p) {
				return false
			}
		}
		for _, h := range headPaths(o) {
			if h == "" {
				return false
			}
		}
		if o.K == "tpl" {
			if !tplIsTypeExpr(o) {
				return false
			}
			for _, a := range o.TArgs { // entries the text does not mention as well: they would be import lines if they were registered
				for _, p := range append(opPaths(a.Op), headPaths(a.Op)...) {
					if p != "" && !validImportPath(p) {
						return false
					}
				}
				if a.Op.K == "ref" && a.Op.Path == "" {
					return false
				}
			}
		}
	}
	return true
}

func stripWS(s string) string {
	return strings.Map(func(r rune) rune {
		if r == ' ' || r == '\t' || r == '\n' || r == '\r' {
			return -1
		}
		return r
	}, s)
}

// runPipeline returns the observation and the history it is an observation OF (eff): without Types the whole history;
// with Types the operations whose `var V<i>` line is in the body of the written file, in the order of the file.  The
// property speaks about the written file ("the import block lists exactly the packages referenced from the rendered
// body"); whether the text a generator rendered for a type it then skipped stays in the body is not C03's business.
func runPipeline(in input, scratch string) (obs observed, eff input, failure string, notes []string) {
	eff = in
	sub := strings.TrimPrefix(in.Self, pipeModule+"/")
	dir := filepath.Join(scratch, "m")
	pkgDir := filepath.Join(dir, filepath.FromSlash(sub))
	if err := os.MkdirAll(pkgDir, 0o755); err != nil {
		return obs, eff, "", []string{"scratch: " + err.Error()}
	}
	pkgName := "p"
	// the Go version the harness itself was built with: that toolchain is present
	_ = os.WriteFile(filepath.Join(dir, "go.mod"), []byte("module "+pipeModule+"\n\ngo "+strings.TrimPrefix(runtime.Version(), "go")+"\n"), 0o644)
	decls := "// +gengo:c03\ntype Own struct{}\n"
	if len(in.Types) > 0 {
		decls = ""
		for k, t := range in.Types {
			if t.Alias {
				decls += "// +gengo:c03\ntype " + typeName(k) + " = struct{}\n\n"
			} else {
				decls += "// +gengo:c03\ntype " + typeName(k) + " struct{}\n\n"
			}
		}
	}
	_ = os.WriteFile(filepath.Join(pkgDir, "p.go"), []byte("package "+pkgName+"\n\n"+decls), 0o644)
	hist, _ := json.Marshal(in)
	histFile := filepath.Join(scratch, "history.json")
	_ = os.WriteFile(histFile, hist, 0o644)

	ctx, cancel := context.WithTimeout(context.Background(), 120*time.Second)
	defer cancel()
	cmd := exec.CommandContext(ctx, os.Args[0], "c03-pipeline", histFile)
	cmd.Dir = dir
	out, err := cmd.CombinedOutput()
	if ctx.Err() != nil {
		return obs, eff, "gengo run did not finish in 120 s", nil
	}
	if err != nil {
		msg := string(out)
		if len(msg) > 600 {
			msg = msg[len(msg)-600:]
		}
		if ee, ok := err.(*exec.ExitError); ok && (ee.ExitCode() == 3 || ee.ExitCode() == 2) {
			pipeSkipped.Add(1)
			pipeSkipWhy.Store(msg)
			return obs, eff, "", []string{"pipeline case skipped, the synthetic module did not load: " + msg}
		}
		return obs, eff, "gengo Execute failed on a file whose body only names types: " + msg, nil
	}
	pipeRan.Add(1)
	genFile := filepath.Join(pkgDir, "zz_generated.c03.go")
	src, err := os.ReadFile(genFile)
	if err != nil {
		if len(in.Types) > 0 && !rendersNormally(in) {
			// nothing was rendered for a type that was generated normally: gengo may write no file at all
			return obs, eff, "", []string{"no file written; every rendered line belonged to a skipped type"}
		}
		return obs, eff, "no generated file: " + err.Error(), nil
	}
	fset := token.NewFileSet()
	f, err := parser.ParseFile(fset, genFile, src, parser.SkipObjectResolution)
	if err != nil {
		return obs, eff, "generated file does not parse: " + err.Error(), nil
	}
	table := map[string]string{}
	byName := map[string]string{}
	for _, is := range f.Imports {
		p, _ := strconv.Unquote(is.Path.Value)
		n := ""
		if is.Name != nil {
			n = is.Name.Name
		}
		if _, dup := table[p]; dup {
			failure = "import block lists " + p + " twice"
		}
		table[p] = n
		byName[n] = p
	}
	var snap [][]string
	for p, n := range table {
		snap = append(snap, []string{p, n})
	}
	sort.Slice(snap, func(i, j int) bool { return snap[i][0] < snap[j][0] })
	// the body: one `var _ T` per operation, in order (with Types: `var V<i> T`, i = index of the operation)
	used := map[string]bool{}
	var bodyIdx []int
	for _, d := range f.Decls {
		gd, ok := d.(*ast.GenDecl)
		if !ok || gd.Tok != token.VAR {
			continue
		}
		for _, s := range gd.Specs {
			vs := s.(*ast.ValueSpec)
			if vs.Type == nil {
				continue
			}
			text := string(src[fset.Position(vs.Type.Pos()).Offset:fset.Position(vs.Type.End()).Offset])
			if len(in.Types) > 0 {
				i, err := strconv.Atoi(strings.TrimPrefix(vs.Names[0].Name, "V"))
				if err != nil || i < 0 || i >= len(in.Ops) || len(vs.Names) != 1 {
					failure = "the body declares " + vs.Names[0].Name + ", which no operation of the generator rendered"
					continue
				}
				bodyIdx = append(bodyIdx, i)
			}
			obs.Ops = append(obs.Ops, obsOp{Text: stripWS(text), Snap: snap})
			ast.Inspect(vs.Type, func(n ast.Node) bool {
				if se, ok := n.(*ast.SelectorExpr); ok {
					if id, ok := se.X.(*ast.Ident); ok {
						used[id.Name] = true
					}
				}
				return true
			})
		}
	}
	// the Go compiler's rule, on the file itself: every qualifier is an imported name, every import is used
	for q := range used {
		if _, ok := byName[q]; !ok && failure == "" {
			failure = "the body uses qualifier " + q + " which the import block does not bind"
		}
	}
	for n, p := range byName {
		if !used[n] && failure == "" {
			failure = "import " + n + " " + strconv.Quote(p) + " is not used in the body"
		}
	}
	if len(in.Types) > 0 {
		eff.Ops = nil
		inBody := map[int]bool{}
		for _, i := range bodyIdx {
			if inBody[i] && failure == "" {
				failure = fmt.Sprintf("the line of operation %d is in the body twice", i)
			}
			inBody[i] = true
			eff.Ops = append(eff.Ops, in.Ops[i])
		}
		for k, t := range in.Types {
			lo, hi := typeSpan(in, k)
			for i := lo; i < hi; i++ {
				if !inBody[i] && (t.End == "" || t.End == "defer") {
					notes = append(notes, fmt.Sprintf("the line rendered for %s (generated normally) is not in the written file", typeName(k)))
					break
				}
			}
		}
	}
	owners := stdOwners()
	for _, e := range snap {
		p := e[0]
		io := impObs{Path: p, Name: e[1], PathOf: &p, Owners: owners[e[1]]}
		if n, ok := stdAlone()[p]; ok {
			io.Alone = &n
		}
		obs.Final = append(obs.Final, io)
	}
	seen := map[string]bool{}
	for _, o := range eff.Ops {
		for _, p := range opPaths(o) {
			if !seen[p] {
				seen[p] = true
				obs.LocalNames = append(obs.LocalNames, []string{p, table[p]})
			}
		}
	}
	return obs, eff, failure, notes
}

// some type that is generated normally (or through Defer) renders at least one line
func rendersNormally(in input) bool {
	for k, t := range in.Types {
		lo, hi := typeSpan(in, k)
		if hi > lo && (t.End == "" || t.End == "defer") {
			return true
		}
	}
	return false
}
