// Package c03: the import-naming system (namer.ImportTracker, namer.NewRawNamer) observed directly
// and through the snippet writer (snippet.ID, snippet.PkgExpose, go/types values rendered by the dumper).
//
// One input = one writer's history: the package the file belongs to (self) and a sequence of
// operations on ONE tracker: AddType, references rendered through the different entry points, type
// literals.  After every operation the harness records the rendered text and a copy of Imports().
package c03

import (
	"bytes"
	"encoding/json"
	"fmt"
	"go/token"
	"go/types"
	"math/big"
	mathrand "math/rand"
	randv2 "math/rand/v2"
	"net"
	"net/url"
	"os"
	"path/filepath"
	"reflect"
	"sort"
	"strings"
	"sync"
	"time"

	"github.com/octohelm/gengo/pkg/gengo"
	"github.com/octohelm/gengo/pkg/gengo/snippet"
	"github.com/octohelm/gengo/pkg/namer"
	gengotypes "github.com/octohelm/gengo/pkg/types"
	typesx "github.com/octohelm/x/types"

	"verifharness/internal/core"
)

type prop struct{}

func init() {
	core.Register(prop{})
	core.Children["tables-C03"] = tablesChild
}

func (prop) ID() string        { return "C03" }
func (prop) CoqModule() string { return "Gengo.Corr.C03" }
func (prop) Parallel() int     { return 8 }

// ---------------------------------------------------------------- input

// node of a type reference: path "" = a predeclared type (int, string)
type node struct {
	Path string `json:"path"`
	Name string `json:"name"`
	Args []node `json:"args,omitempty"`
}

type opIn struct {
	K string `json:"k"` // "add" | "ref" | "lit" | "tpl"
	// ref: through which entry point the reference is rendered
	//   namer   rawNamer.Name(gengotypes.Ref(path, name[args]))
	//   id      snippet.ID("path.name[args]") rendered by gengo.NewSnippetWriter
	//   expose  snippet.PkgExpose(path, name)
	//   obj     a *types.TypeName (named type declared in package path, TParams = its type parameters)
	Via     string   `json:"via,omitempty"`
	Path    string   `json:"path,omitempty"`
	Name    string   `json:"name,omitempty"`
	Args    []node   `json:"args,omitempty"`
	TParams []string `json:"tparams,omitempty"`
	// lit: snippet.ID(types.Type) of a type literal over the named types Elems
	Shape string `json:"shape,omitempty"` // named | ptr | slice | array | chan | map | struct
	Elems []node `json:"elems,omitempty"`
	// lit: render reflectTypes[Reflect] (a reflect.Type of a real Go type compiled into the harness)
	// instead of a go/types value; Shape and Elems describe the same type
	Reflect string `json:"reflect,omitempty"`
	// tpl: snippet.T(format, args) — Parts is the format text (literal pieces and @placeholders), TArgs the
	// argument set (entries the text does not mention included); see tpl.go
	Parts []tplPart `json:"parts,omitempty"`
	TArgs []tplArg  `json:"targs,omitempty"`
}

type reflectEntry struct {
	shape string
	t     reflect.Type
	elems []node
}

var reflectTypes = map[string]reflectEntry{
	"time.Time":       {"named", reflect.TypeOf(time.Time{}), []node{{Path: "time", Name: "Time"}}},
	"*bytes.Buffer":   {"ptr", reflect.TypeOf(&bytes.Buffer{}), []node{{Path: "bytes", Name: "Buffer"}}},
	"[]time.Duration": {"slice", reflect.TypeOf([]time.Duration{}), []node{{Path: "time", Name: "Duration"}}},
	"[3]net.IP":       {"array", reflect.TypeOf([3]net.IP{}), []node{{Path: "net", Name: "IP"}}},
	"chan os.Signal":  {"chan", reflect.TypeOf(make(chan os.Signal)), []node{{Path: "os", Name: "Signal"}}},
	"map[Month]Int":   {"map", reflect.TypeOf(map[time.Month]big.Int{}), []node{{Path: "time", Name: "Month"}, {Path: "math/big", Name: "Int"}}},
	"struct{Rand;URL}": {"struct", reflect.TypeOf(struct {
		A mathrand.Rand
		B *url.URL
	}{}), []node{{Path: "math/rand", Name: "Rand"}, {Path: "net/url", Name: "URL"}}},
	"map[Block]TypeRef": {"map", reflect.TypeOf(map[snippet.Block]gengotypes.TypeRef{}), []node{
		{Path: "github.com/octohelm/gengo/pkg/gengo/snippet", Name: "Block"}, {Path: "github.com/octohelm/gengo/pkg/types", Name: "TypeRef"}}},
	"[]randv2.PCG": {"slice", reflect.TypeOf([]randv2.PCG{}), []node{{Path: "math/rand/v2", Name: "PCG"}}},
	"*namer.Names": {"ptr", reflect.TypeOf(&namer.Names{}), []node{{Path: "github.com/octohelm/gengo/pkg/namer", Name: "Names"}}},
}

func reflectKeys() []string {
	var ks []string
	for k := range reflectTypes {
		ks = append(ks, k)
	}
	sort.Strings(ks)
	return ks
}

type input struct {
	Self string `json:"self"`
	Ops  []opIn `json:"ops"`
	// render the history from a generator inside a real gengo run on a synthetic module and observe
	// the written file (Self must be a package of module c03.test/m; snippet entry points only)
	Pipeline bool `json:"pipeline,omitempty"`
	// pipeline only: how the generator spreads the history over the tagged types of the package, and how it ends for
	// each of them (nil, ErrSkip, ErrIgnore, Defer) — see typeIn in pipeline.go.  Empty: one type, all operations.
	Types []typeIn `json:"types,omitempty"`
}

func marshal(in input) json.RawMessage {
	b, _ := json.Marshal(in)
	return b
}

// ---------------------------------------------------------------- printing / flattening of references

func printNode(n node) string {
	var b strings.Builder
	if n.Path != "" {
		b.WriteString(n.Path)
		b.WriteByte('.')
	}
	b.WriteString(n.Name)
	b.WriteString(printArgs(n.Args))
	return b.String()
}

func printArgs(args []node) string {
	if len(args) == 0 {
		return ""
	}
	var parts []string
	for _, a := range args {
		parts = append(parts, printNode(a))
	}
	return "[" + strings.Join(parts, ",") + "]"
}

type tok struct{ Path, Lit string }

// pre-order list of the nodes of a type list with the text TypeRef.String prints from each node's
// name up to the next node (the opening bracket of the list itself is not included)
func flatten(args []node) []tok {
	var toks []tok
	var emit func(n node)
	emit = func(n node) {
		toks = append(toks, tok{Path: n.Path, Lit: n.Name})
		if len(n.Args) > 0 {
			toks[len(toks)-1].Lit += "["
			for i, a := range n.Args {
				if i > 0 {
					toks[len(toks)-1].Lit += ","
				}
				emit(a)
			}
			toks[len(toks)-1].Lit += "]"
		}
	}
	for i, a := range args {
		if i > 0 {
			toks[len(toks)-1].Lit += ","
		}
		emit(a)
	}
	if len(toks) > 0 {
		toks[len(toks)-1].Lit += "]"
	}
	return toks
}

// a byte string as a Coq term: a plain literal when it is printable ASCII (half the size of the hex
// transport, and the case files are dominated by parsing time), hex otherwise
func cs(s string) string {
	for i := 0; i < len(s); i++ {
		if s[i] < 0x20 || s[i] > 0x7e {
			return core.Hex(s)
		}
	}
	return `(bs "` + strings.ReplaceAll(s, `"`, `""`) + `")`
}

func coqRef(path, name string, args []node, tparams []string) string {
	var ts []string
	for _, t := range flatten(args) {
		ts = append(ts, "("+cs(t.Path)+","+cs(t.Lit)+")")
	}
	var tp []string
	for _, t := range tparams {
		tp = append(tp, cs(t))
	}
	return fmt.Sprintf("(mk_ref %s %s %s %s)", cs(path), cs(name), core.CoqList(ts), core.CoqList(tp))
}

func coqNodeItem(n node) string {
	if n.Path == "" {
		return "ILit " + cs(printNode(n))
	}
	return "IRef " + coqRef(n.Path, n.Name, n.Args, nil)
}

// the model-level items of an operation
func coqOp(o opIn) string {
	switch o.K {
	case "add":
		return "OAdd " + cs(o.Path)
	case "ref", "lit", "tpl":
		return "ORender " + core.CoqList(opItems(o))
	}
	return "OAdd " + cs("")
}

// the items (literal text and references, in order) a rendered operation consists of
func opItems(o opIn) []string {
	switch o.K {
	case "ref":
		return []string{"IRef " + coqRef(o.Path, o.Name, o.Args, o.TParams)}
	case "tpl":
		return tplItems(o)
	case "lit":
		e := func(i int) string {
			if i < len(o.Elems) {
				return coqNodeItem(o.Elems[i])
			}
			return "ILit " + cs("int")
		}
		lit := func(s string) string { return "ILit " + cs(s) }
		sc := scaffolds()[o.Shape]
		var items []string
		switch len(sc) {
		case 2:
			items = []string{lit(sc[0]), e(0), lit(sc[1])}
		case 3:
			items = []string{lit(sc[0]), e(0), lit(sc[1]), e(1), lit(sc[2])}
		default:
			items = []string{e(0)}
		}
		return items
	}
	return nil
}

// every package path an operation mentions (for LocalNameOf queries and tags)
func opPaths(o opIn) []string {
	var out []string
	var walk func(ns []node)
	walk = func(ns []node) {
		for _, n := range ns {
			out = append(out, n.Path)
			walk(n.Args)
		}
	}
	if o.K == "tpl" { // the arguments the text mentions, in textual order
		for _, a := range tplMentioned(o) {
			out = append(out, opPaths(a)...)
		}
		return out
	}
	if o.K != "lit" {
		out = append(out, o.Path)
	}
	walk(o.Args)
	walk(o.Elems)
	return out
}

// the packages of the top-level references of an operation (type arguments and literal elements excluded)
func headPaths(o opIn) []string {
	switch o.K {
	case "lit":
		return nil
	case "tpl":
		var out []string
		for _, a := range tplMentioned(o) {
			out = append(out, headPaths(a)...)
		}
		return out
	}
	return []string{o.Path}
}

// ---------------------------------------------------------------- go/types values

func basicOf(name string) types.Type {
	if o := types.Universe.Lookup(name); o != nil {
		if _, ok := o.Type().(*types.Basic); ok {
			return o.Type()
		}
	}
	return types.Typ[types.Int]
}

func lastSeg(p string) string {
	if i := strings.LastIndex(p, "/"); i >= 0 {
		return p[i+1:]
	}
	return p
}

// a named type "path.name", generic and instantiated when the node has arguments
func typeOf(n node) types.Type {
	if n.Path == "" {
		return basicOf(n.Name)
	}
	pkg := types.NewPackage(n.Path, lastSeg(n.Path))
	obj := types.NewTypeName(token.NoPos, pkg, n.Name, nil)
	named := types.NewNamed(obj, types.NewStruct(nil, nil), nil)
	if len(n.Args) == 0 {
		return named
	}
	var tps []*types.TypeParam
	var targs []types.Type
	for i, a := range n.Args {
		tn := types.NewTypeName(token.NoPos, pkg, fmt.Sprintf("T%d", i), nil)
		tps = append(tps, types.NewTypeParam(tn, types.Universe.Lookup("any").Type()))
		targs = append(targs, typeOf(a))
	}
	named.SetTypeParams(tps)
	inst, err := types.Instantiate(nil, named, targs, false)
	if err != nil {
		panic(err)
	}
	return inst
}

func objOf(o opIn) *types.TypeName {
	pkg := types.NewPackage(o.Path, lastSeg(o.Path))
	obj := types.NewTypeName(token.NoPos, pkg, o.Name, nil)
	named := types.NewNamed(obj, types.NewStruct(nil, nil), nil)
	if len(o.TParams) > 0 {
		var tps []*types.TypeParam
		for _, t := range o.TParams {
			tn := types.NewTypeName(token.NoPos, pkg, t, nil)
			tps = append(tps, types.NewTypeParam(tn, types.Universe.Lookup("any").Type()))
		}
		named.SetTypeParams(tps)
	}
	return obj
}

// The literal text around the element types of each shape is the dumper's business (C11), not the
// naming system's: the harness learns it from the real dumper by rendering the shape over two
// predeclared marker types and cutting the text at the markers.  nil = layout not recognisable.
var scaffolds = sync.OnceValue(func() map[string][]string {
	out := map[string][]string{}
	for _, shape := range []string{"named", "ptr", "slice", "array", "chan", "map", "struct"} {
		buf := &bytes.Buffer{}
		sw := gengo.NewSnippetWriter(buf, namer.NameSystems{"raw": namer.NewRawNamer("m", namer.NewDefaultImportTracker())})
		t := shapeType(shape, types.Typ[types.Int8], types.Typ[types.Int16])
		if p, _ := core.Recover(func() { sw.Render(snippet.ID(t)) }); p {
			continue
		}
		text := buf.String()
		two := shape == "map" || shape == "struct"
		i := strings.Index(text, "int8")
		if i < 0 || strings.Count(text, "int8") != 1 {
			continue
		}
		if !two {
			out[shape] = []string{text[:i], text[i+4:]}
			continue
		}
		j := strings.Index(text, "int16")
		if j < i || strings.Count(text, "int16") != 1 {
			continue
		}
		out[shape] = []string{text[:i], text[i+4 : j], text[j+5:]}
	}
	return out
})

func litType(o opIn) types.Type {
	e := func(i int) types.Type {
		if i < len(o.Elems) {
			return typeOf(o.Elems[i])
		}
		return types.Typ[types.Int]
	}
	return shapeType(o.Shape, e(0), e(1))
}

func shapeType(shape string, e0, e1 types.Type) types.Type {
	e := func(i int) types.Type {
		if i == 0 {
			return e0
		}
		return e1
	}
	switch shape {
	case "ptr":
		return types.NewPointer(e(0))
	case "slice":
		return types.NewSlice(e(0))
	case "array":
		return types.NewArray(e(0), 3)
	case "chan":
		return types.NewChan(types.SendRecv, e(0))
	case "map":
		return types.NewMap(e(0), e(1))
	case "struct":
		return types.NewStruct([]*types.Var{
			types.NewField(token.NoPos, nil, "A", e(0), false),
			types.NewField(token.NoPos, nil, "B", types.NewPointer(e(1)), false),
		}, nil)
	}
	return e(0)
}

// ---------------------------------------------------------------- the reserved-name table, as the code exhibits it

func repoDir() string {
	if d := os.Getenv("VERIF_REPO"); d != "" {
		return d
	}
	return "/repo"
}

func stdLines() []string {
	data, err := os.ReadFile(filepath.Join(repoDir(), "pkg", "namer", "std.list"))
	if err != nil {
		return nil
	}
	var out []string
	for _, l := range strings.Split(string(data), "\n") {
		if l != "" {
			out = append(out, l)
		}
	}
	return out
}

// std path -> the name it gets when it is the only package added to a fresh tracker
var stdAlone = sync.OnceValue(func() map[string]string {
	m := map[string]string{}
	for _, l := range stdLines() {
		tr := namer.NewDefaultImportTracker()
		panicked, _ := core.Recover(func() { tr.AddType(gengotypes.Ref(l, "X")) })
		if panicked {
			continue
		}
		m[l] = tr.LocalNameOf(l)
	}
	return m
})

// name -> the std paths that get this name when added to a fresh tracker
var stdOwners = sync.OnceValue(func() map[string][]string {
	m := map[string][]string{}
	for _, l := range stdLines() {
		if n, ok := stdAlone()[l]; ok {
			m[n] = append(m[n], l)
		}
	}
	return m
})

// ---------------------------------------------------------------- execution

type obsOp struct {
	Text     string     `json:"text"`
	Panicked bool       `json:"panicked,omitempty"`
	Panic    string     `json:"panic,omitempty"`
	Snap     [][]string `json:"imports"` // Imports() after the op, sorted by path: [path, name]
}

type impObs struct {
	Path   string   `json:"path"`
	Name   string   `json:"name"`
	PathOf *string  `json:"path_of"` // PathOf(name): nil = not found
	Owners []string `json:"std_owners,omitempty"`
	Alone  *string  `json:"std_name,omitempty"` // for a std.list package: its name on a fresh tracker
}

type observed struct {
	Ops        []obsOp    `json:"ops"`
	Final      []impObs   `json:"final"`
	LocalNames [][]string `json:"local_names"` // LocalNameOf(path) for every path the input mentions
}

func snapshot(tr namer.ImportTracker) [][]string {
	m := tr.Imports()
	var out [][]string
	for p, n := range m {
		out = append(out, []string{p, n})
	}
	sort.Slice(out, func(i, j int) bool { return out[i][0] < out[j][0] })
	return out
}

func execute(in input) observed {
	var obs observed
	tr := namer.NewDefaultImportTracker()
	nm := namer.NewRawNamer(in.Self, tr)
	buf := &bytes.Buffer{}
	sw := gengo.NewSnippetWriter(buf, namer.NameSystems{"raw": nm})
	for _, o := range in.Ops {
		var text string
		buf.Reset()
		panicked, val := core.Recover(func() {
			switch o.K {
			case "add":
				tr.AddType(gengotypes.Ref(o.Path, "X"))
			case "ref":
				switch o.Via {
				case "id":
					sw.Render(snippet.ID(o.Path + "." + o.Name + printArgs(o.Args)))
					text = buf.String()
				case "expose":
					sw.Render(snippet.PkgExpose(o.Path, o.Name+printArgs(o.Args)))
					text = buf.String()
				case "obj":
					text = nm.Name(objOf(o))
				case "idobj":
					sw.Render(snippet.ID(gengotypes.TypeName(objOf(o))))
					text = buf.String()
				default:
					text = nm.Name(gengotypes.Ref(o.Path, o.Name+printArgs(o.Args)))
				}
			case "lit":
				if e, ok := reflectTypes[o.Reflect]; ok {
					sw.Render(snippet.ID(e.t))
				} else {
					sw.Render(snippet.ID(litType(o)))
				}
				text = buf.String()
			case "tpl":
				sw.Render(tplSnippet(o))
				text = buf.String()
			}
		})
		oo := obsOp{Text: text, Panicked: panicked, Snap: snapshot(tr)}
		if panicked {
			oo.Panic = fmt.Sprint(val)
			if len(oo.Panic) > 120 {
				oo.Panic = oo.Panic[:120]
			}
		}
		obs.Ops = append(obs.Ops, oo)
		if panicked {
			break
		}
	}
	owners := stdOwners()
	for _, e := range snapshot(tr) {
		io := impObs{Path: e[0], Name: e[1], Owners: owners[e[1]]}
		if p, ok := tr.PathOf(e[1]); ok {
			io.PathOf = &p
		}
		if n, ok := stdAlone()[e[0]]; ok {
			io.Alone = &n
		}
		obs.Final = append(obs.Final, io)
	}
	seen := map[string]bool{}
	for _, o := range in.Ops {
		for _, p := range opPaths(o) {
			if !seen[p] {
				seen[p] = true
				obs.LocalNames = append(obs.LocalNames, []string{p, tr.LocalNameOf(p)})
			}
		}
	}
	return obs
}

func isASCII(s string) bool {
	for i := 0; i < len(s); i++ {
		if s[i] >= 0x80 {
			return false
		}
	}
	return true
}

// is the input inside the domain on which the model is compared in full: ASCII everywhere, and
// names/paths for which printing the reference and parsing it again (types.ParseTypeRef /
// ParseRef — property C15) gives the tree back
func allASCII(in input) bool {
	ok := isASCII(in.Self)
	for _, o := range in.Ops {
		for _, p := range opPaths(o) {
			ok = ok && isASCII(p)
		}
		ok = ok && isASCII(o.Name)
	}
	return ok
}

// structured: the references of the history print to strings that types.ParseTypeRef / ParseRef
// (property C15) parse back to the same trees, so "which packages does the history refer to" is
// well defined.  Paths given to the API as separate arguments may contain anything.
func structured(in input) (ok bool, why string) {
	okName := func(n string) bool {
		return n != "" && !strings.ContainsAny(n, "[],. \t\n")
	}
	okPathInText := func(p string) bool { // a path that is printed into a reference string and parsed back
		return !strings.ContainsAny(p, "[],") && !strings.HasSuffix(p, ".")
	}
	var okNodes func(ns []node, depth int) bool
	okNodes = func(ns []node, depth int) bool {
		for _, n := range ns {
			if !okName(n.Name) || !okPathInText(n.Path) {
				return false
			}
			if len(n.Args) > 0 && depth >= 2 {
				return false // deeper nesting trips the comma splitter of ParseTypeRef (C15, finding #11)
			}
			if !okNodes(n.Args, depth+1) {
				return false
			}
		}
		return true
	}
	var opOK func(o opIn) (bool, string)
	opOK = func(o opIn) (bool, string) {
		switch o.K {
		case "add":
		case "tpl":
			return tplStructured(o, opOK)
		case "ref":
			if !okName(o.Name) {
				return false, "odd_name"
			}
			if len(o.Args) > 0 || o.Via == "id" {
				if !okPathInText(o.Path) {
					return false, "odd_path_in_text"
				}
			}
			if o.Via == "id" && o.Path == "" {
				return false, "id_without_path"
			}
			if (o.Via == "obj" || o.Via == "idobj") && len(o.Args) > 0 {
				return false, "obj_with_args"
			}
			for _, t := range o.TParams {
				if !okName(t) {
					return false, "odd_name"
				}
			}
			if !okNodes(o.Args, 1) {
				return false, "odd_args"
			}
		case "lit":
			if _, ok := scaffolds()[o.Shape]; !ok {
				return false, "literal_layout_not_recognised"
			}
			if o.Reflect != "" {
				e, ok := reflectTypes[o.Reflect]
				if !ok || e.shape != o.Shape || printArgs(e.elems) != printArgs(o.Elems) {
					return false, "unknown_reflect_type"
				}
			}
			if !okNodes(o.Elems, 0) {
				return false, "odd_args"
			}
			for _, e := range o.Elems {
				if e.Path == "" && len(e.Args) > 0 {
					return false, "odd_args"
				}
			}
		default:
			return false, "unknown_op"
		}
		return true, ""
	}
	for _, o := range in.Ops {
		if ok, why := opOK(o); !ok {
			return false, why
		}
	}
	return true, ""
}

func validLocalName(n string) bool {
	return token.IsIdentifier(n) && !token.IsKeyword(n) && n != "_"
}

func (prop) Run(raw json.RawMessage, scratch string) core.Result {
	var in input
	_ = json.Unmarshal(raw, &in)
	var res core.Result
	pipe := in.Pipeline && pipelineOK(in)
	var obs observed
	if pipe {
		var failure string
		var notes []string
		full := in
		obs, in, failure, notes = runPipeline(in, scratch) // in: the operations whose lines are in the written file
		if len(full.Types) > 0 {
			res.Tags = append(res.Tags, pipeTypeTags(full, in)...)
		}
		res.Notes = append(res.Notes, notes...)
		res.Observed = obs
		res.Tags = append(res.Tags, "pipeline")
		if failure != "" {
			res.GoViolations = append(res.GoViolations, failure)
		}
		if len(obs.Ops) == 0 { // nothing to evaluate in Coq (skipped, or the run failed and is reported above)
			return res
		}
	} else {
		obs = execute(in)
	}
	res.Observed = obs
	str, why := structured(in)
	cmp := str && allASCII(in)
	if str && !cmp {
		why = "nonascii"
	}

	// Go-side oracles
	for _, o := range obs.Ops {
		if o.Panicked && str {
			res.GoViolations = append(res.GoViolations, "panic while naming a reference: "+o.Panic)
		}
	}
	for _, e := range obs.Final {
		if !validLocalName(e.Name) {
			res.GoViolations = append(res.GoViolations, fmt.Sprintf("package %q is imported under %q, which is not a usable Go identifier", e.Path, e.Name))
		}
		if types.Universe.Lookup(e.Name) != nil {
			res.GoViolations = append(res.GoViolations, fmt.Sprintf("package %q is imported under %q, which shadows the predeclared identifier %s in the whole generated file", e.Path, e.Name, e.Name))
		}
	}
	// same history on a fresh tracker: same answer (the naming is a function of the history)
	if !pipe {
		obs2 := execute(in)
		a, _ := json.Marshal(obs)
		b, _ := json.Marshal(obs2)
		if !bytes.Equal(a, b) {
			res.GoViolations = append(res.GoViolations, "the same history on a fresh tracker gives a different result")
		}
	}

	// x/types prints an instantiated type's name the way the harness prints the tree (external component)
	if str {
		for _, o := range in.Ops {
			if o.K != "lit" {
				continue
			}
			for _, e := range o.Elems {
				if e.Path == "" {
					continue
				}
				var nm string
				p, _ := core.Recover(func() { nm = typesx.FromTType(typeOf(e)).Name() })
				if p || nm != e.Name+printArgs(e.Args) {
					str, cmp, why = false, false, "xtypes_name_differs"
					res.Notes = append(res.Notes, fmt.Sprintf("x/types names %s as %q", printNode(e), nm))
				}
			}
		}
	}

	// Coq case
	var ops, oobs, fin, lns []string
	for _, o := range in.Ops {
		ops = append(ops, coqOp(o))
	}
	// Imports() after every operation, sent as the difference to the previous one (keys that
	// disappeared or changed, then the new bindings); Corr/C03.v rebuilds the maps exactly
	prev := map[string]string{}
	for _, o := range obs.Ops {
		cur := map[string]string{}
		var gone, added []string
		for _, e := range o.Snap {
			cur[e[0]] = e[1]
			if v, ok := prev[e[0]]; !ok || v != e[1] {
				added = append(added, "("+cs(e[0])+","+cs(e[1])+")")
			}
		}
		var pk []string
		for k := range prev {
			pk = append(pk, k)
		}
		sort.Strings(pk)
		for _, k := range pk {
			if v, ok := cur[k]; !ok || v != prev[k] {
				gone = append(gone, cs(k))
			}
		}
		prev = cur
		oobs = append(oobs, fmt.Sprintf("mk_od %s %s %s", core.CoqOpt(!o.Panicked, cs(o.Text)), core.CoqList(gone), core.CoqList(added)))
	}
	for _, e := range obs.Final {
		var ow []string
		for _, w := range e.Owners {
			ow = append(ow, cs(w))
		}
		po := "None"
		if e.PathOf != nil {
			po = "(Some " + cs(*e.PathOf) + ")"
			if *e.PathOf == e.Path {
				po = "Same"
			}
		}
		al := "None"
		if e.Alone != nil {
			al = "(Some " + cs(*e.Alone) + ")"
		}
		if po == "Same" {
			fin = append(fin, fmt.Sprintf("mk_imp_same %s %s %s %s", cs(e.Path), cs(e.Name), core.CoqList(ow), al))
		} else {
			fin = append(fin, fmt.Sprintf("mk_imp %s %s %s %s %s", cs(e.Path), cs(e.Name), po, core.CoqList(ow), al))
		}
	}
	for _, e := range obs.LocalNames {
		lns = append(lns, "("+cs(e[0])+","+cs(e[1])+")")
	}
	res.Coq = fmt.Sprintf("mk_case %s %s %s %s %s %s %s %s", cs(in.Self), core.CoqList(ops), core.CoqBool(str), core.CoqBool(cmp), core.CoqBool(pipe),
		core.CoqList(oobs), core.CoqList(fin), core.CoqList(lns))

	// symptom class of a failing case (labels the report; all four classes are repaired, none is suppressed)
	res.Class = symptom(in, obs)

	// distribution
	res.Tags = append(res.Tags, tagsOf(in, obs, cmp, why)...)
	res.Nontrivial = len(obs.Final) >= 2
	return res
}

// distribution of the multi-type pipeline cases
func pipeTypeTags(full, eff input) []string {
	tags := []string{"pipeline:types"}
	others := map[string]bool{} // packages referenced by lines of types that are generated normally
	for k, t := range full.Types {
		lo, hi := typeSpan(full, k)
		if t.End == "" || t.End == "defer" {
			for i := lo; i < hi; i++ {
				for _, p := range opPaths(full.Ops[i]) {
					others[p] = true
				}
			}
		}
	}
	for k, t := range full.Types {
		lo, hi := typeSpan(full, k)
		if t.End != "" {
			tags = append(tags, "pipeline:end="+t.End)
		}
		if t.Alias {
			tags = append(tags, "pipeline:alias_type")
		}
		if (t.End == "skip" || t.End == "ignore") && hi > lo {
			tags = append(tags, "pipeline:rendered_then_"+t.End)
			for i := lo; i < hi; i++ {
				for _, p := range opPaths(full.Ops[i]) {
					if p != "" && p != full.Self && !others[p] {
						tags = append(tags, "pipeline:package_only_referenced_by_a_type_ended_with_"+t.End)
					}
				}
			}
		}
	}
	if len(eff.Ops) < len(full.Ops) {
		tags = append(tags, "pipeline:lines_dropped_from_body")
	}
	sort.Strings(tags)
	out := tags[:0]
	for i, t := range tags {
		if i == 0 || t != tags[i-1] {
			out = append(out, t)
		}
	}
	return out
}

// which of the defects of DESIGN.md section 4 (#12, #13) the observed state exhibits
func symptom(in input, obs observed) string {
	if ok, _ := structured(in); !ok {
		return ""
	}
	have := map[string]bool{}
	for _, e := range obs.Final {
		have[e.Path] = true
	}
	for _, e := range obs.LocalNames {
		if e[0] != in.Self && !have[e[0]] && !(e[0] == "" && !topLevel(in, "")) {
			return "candidates_exhausted" // referenced, but no name was found: missing from Imports()
		}
	}
	for _, e := range obs.Final {
		if token.IsKeyword(e.Name) {
			return "keyword_name"
		}
	}
	for _, e := range obs.Final {
		if !validLocalName(e.Name) {
			return "digit_or_punct_name"
		}
	}
	for _, e := range obs.Final {
		if types.Universe.Lookup(e.Name) != nil {
			return "predeclared_name"
		}
	}
	return ""
}

// is p the package of a top-level reference or AddType (type arguments without a path are predeclared types)
func topLevel(in input, p string) bool {
	for _, o := range in.Ops {
		for _, h := range headPaths(o) {
			if h == p {
				return true
			}
		}
	}
	return false
}

func tagsOf(in input, obs observed, cmp bool, why string) []string {
	tags := map[string]bool{}
	tags[fmt.Sprintf("ops=%d", min(len(in.Ops), 12))] = true
	tags[fmt.Sprintf("imports=%d", min(len(obs.Final), 8))] = true
	if !cmp {
		tags["outside_model_domain:"+why] = true
	}
	std := map[string]bool{}
	for _, l := range stdLines() {
		std[l] = true
	}
	seen := map[string]int{}
	for _, o := range in.Ops {
		if o.K == "ref" {
			tags["via="+o.Via] = true
			if len(o.Args) > 0 {
				tags["generic_instantiation"] = true
			}
			if len(o.TParams) > 0 {
				tags["generic_declaration"] = true
			}
		} else {
			tags["k="+o.K] = true
			if o.K == "lit" {
				tags["shape="+o.Shape] = true
				if o.Reflect != "" {
					tags["lit:reflect.Type"] = true
				} else {
					tags["lit:go/types"] = true
				}
			}
		}
		if o.K == "tpl" {
			if len(tplSuperfluous(o)) > 0 {
				tags["tpl:superfluous_args"] = true
			}
			for _, a := range tplSuperfluous(o) {
				if a.Op.K == "val" {
					tags["tpl:superfluous_value_arg"] = true
				}
			}
			if len(tplMentioned(o)) > 0 {
				tags["tpl:mentions_args"] = true
			}
		}
		emptyHead := false
		for _, h := range headPaths(o) {
			emptyHead = emptyHead || h == ""
		}
		for _, p := range opPaths(o) {
			if p == "" && !emptyHead {
				continue // a predeclared type among the arguments
			}
			seen[p]++
			switch {
			case p == "":
				tags["path:empty"] = true
			case p == in.Self:
				tags["path:self"] = true
			case std[p]:
				tags["path:std"] = true
			}
			segs := strings.Split(p, "/")
			for i, s := range segs {
				if i == 0 && len(segs) > 1 && strings.Contains(s, ".") {
					continue // host name
				}
				if s == "vendor" && i < len(segs)-1 && i > 0 {
					tags["seg:vendor_dir"] = true
					if !emptyHead && !slicesContains(headPaths(o), p) {
						tags["seg:vendor_dir_in_type_argument"] = true
					}
				}
				switch {
				case types.Universe.Lookup(strings.ToLower(s)) != nil:
					tags["seg:predeclared"] = true
				case token.IsKeyword(s):
					tags["seg:keyword"] = true
				case s != "" && s[0] >= '0' && s[0] <= '9':
					tags["seg:digit_first"] = true
				case s == "apis" || s == "domain":
					tags["seg:apis_domain"] = true
				case len(s) > 1 && s[0] == 'v' && strings.Trim(s[1:], "0123456789") == "":
					tags["seg:vN"] = true
				case s == "":
					tags["seg:empty"] = true
				case strings.ContainsAny(s, "-_.~"):
					tags["seg:punct"] = true
				}
			}
		}
	}
	for _, c := range seen {
		if c > 1 {
			tags["path_repeated"] = true
		}
	}
	// a package that did not get the name it gets when it is alone on a fresh tracker: a clash was resolved
	for _, e := range obs.Final {
		tr := namer.NewDefaultImportTracker()
		if p, _ := core.Recover(func() { tr.AddType(gengotypes.Ref(e.Path, "X")) }); !p && tr.LocalNameOf(e.Path) != e.Name {
			tags["clash_resolved"] = true
		}
		if len(e.Owners) > 0 {
			tags["std_name_bound"] = true
		}
	}
	var out []string
	for t := range tags {
		out = append(out, t)
	}
	sort.Strings(out)
	return out
}

func slicesContains(l []string, x string) bool {
	for _, e := range l {
		if e == x {
			return true
		}
	}
	return false
}

// ---------------------------------------------------------------- shrinking

func (prop) Shrink(raw json.RawMessage) []json.RawMessage {
	var in input
	_ = json.Unmarshal(raw, &in)
	var out []json.RawMessage
	add := func(x input) { out = append(out, marshal(x)) }
	clone := func() input {
		var c input
		b, _ := json.Marshal(in)
		_ = json.Unmarshal(b, &c)
		return c
	}
	// a pipeline history spread over several types: whole types and single operations go together with their counts
	if len(in.Types) > 0 {
		for k, t := range in.Types {
			lo, hi := typeSpan(in, k)
			if len(in.Types) > 1 {
				c := clone()
				c.Ops = append(c.Ops[:lo], c.Ops[hi:]...)
				c.Types = append(c.Types[:k], c.Types[k+1:]...)
				add(c)
			}
			for i := lo; i < hi; i++ {
				c := clone()
				c.Ops = append(c.Ops[:i], c.Ops[i+1:]...)
				c.Types[k].N--
				add(c)
			}
			if t.End == "ignore" || t.End == "defer" {
				c := clone()
				c.Types[k].End = ""
				add(c)
			}
			if t.Alias {
				c := clone()
				c.Types[k].Alias = false
				add(c)
			}
		}
	}
	// fewer operations
	if len(in.Types) == 0 && len(in.Ops) > 2 {
		c := clone()
		c.Ops = c.Ops[:len(c.Ops)/2]
		add(c)
		c = clone()
		c.Ops = c.Ops[len(c.Ops)/2:]
		add(c)
	}
	for i := range in.Ops {
		if len(in.Types) == 0 && len(in.Ops) > 1 {
			c := clone()
			c.Ops = append(c.Ops[:i], c.Ops[i+1:]...)
			add(c)
		}
	}
	// simpler operations
	for i, o := range in.Ops {
		if o.K == "tpl" {
			for j, a := range o.TArgs { // an argument alone instead of the template; one entry less in the argument set
				if a.Op.K == "ref" || a.Op.K == "lit" {
					c := clone()
					c.Ops[i] = a.Op
					add(c)
				}
				used := false
				for _, p := range o.Parts {
					used = used || p.Arg == a.Name
				}
				if !used {
					c := clone()
					c.Ops[i].TArgs = append(c.Ops[i].TArgs[:j], c.Ops[i].TArgs[j+1:]...)
					add(c)
				}
				if a.Op.K == "ref" && (len(a.Op.Args) > 0 || len(a.Op.TParams) > 0) {
					c := clone()
					c.Ops[i].TArgs[j].Op.Args, c.Ops[i].TArgs[j].Op.TParams = nil, nil
					add(c)
				}
			}
			for j := range o.Parts { // one piece of the text less
				c := clone()
				c.Ops[i].Parts = append(c.Ops[i].Parts[:j], c.Ops[i].Parts[j+1:]...)
				add(c)
			}
			continue
		}
		if o.K == "lit" && len(o.Elems) > 0 {
			c := clone()
			e := o.Elems[0]
			c.Ops[i] = opIn{K: "ref", Via: "namer", Path: e.Path, Name: e.Name}
			if e.Path != "" {
				add(c)
			}
			if len(o.Elems) > 1 && o.Elems[1].Path != "" {
				c = clone()
				e = o.Elems[1]
				c.Ops[i] = opIn{K: "ref", Via: "namer", Path: e.Path, Name: e.Name}
				add(c)
			}
		}
		if o.K == "ref" {
			if len(o.Args) > 0 || len(o.TParams) > 0 {
				c := clone()
				c.Ops[i].Args, c.Ops[i].TParams = nil, nil
				add(c)
				for j := range o.Args { // one argument less
					c = clone()
					c.Ops[i].Args = append(c.Ops[i].Args[:j], c.Ops[i].Args[j+1:]...)
					if len(c.Ops[i].Args) > 0 {
						add(c)
					}
				}
				for j, a := range o.Args { // nested arguments flattened away
					if len(a.Args) > 0 {
						c = clone()
						c.Ops[i].Args[j].Args = nil
						add(c)
					}
				}
				for _, a := range o.Args {
					if a.Path != "" {
						c = clone()
						c.Ops[i] = opIn{K: "ref", Via: "namer", Path: a.Path, Name: a.Name, Args: a.Args}
						add(c)
					}
				}
			} else {
				c := clone()
				c.Ops[i] = opIn{K: "add", Path: o.Path}
				add(c)
			}
			if o.Name != "T" {
				c := clone()
				c.Ops[i].Name = "T"
				add(c)
			}
		}
		// shorter paths
		if o.K != "lit" {
			segs := strings.Split(o.Path, "/")
			if len(segs) > 1 {
				for j := range segs {
					c := clone()
					s2 := append(append([]string{}, segs[:j]...), segs[j+1:]...)
					c.Ops[i].Path = strings.Join(s2, "/")
					add(c)
				}
			}
		}
	}
	if in.Self != "m" {
		c := clone()
		c.Self = "m"
		add(c)
	}
	return out
}
