// Package c02: a failed generation never damages existing output or marks work as done.
// Fault enumeration: for every generated module every scripted GenerateType/GenerateAliasType call and every deferred
// callback is in turn made to fail (error, unparseable rendering, os.Exit, SIGKILL, panic, ...), each variant in a
// fresh child process with the tree snapshotted before and after.  The thorough tier adds syscall-level crash points
// (strace fault injection attached to the Execute phase) followed by a clean re-run.
package c02

import (
	"encoding/json"
	"fmt"
	"sort"
	"strings"
	"sync"

	"verifharness/internal/core"
	"verifharness/internal/pipe"
)

type prop struct{}

func init() { core.Register(prop{}) }

func (prop) ID() string        { return "C02" }
func (prop) CoqModule() string { return "Gengo.Corr.C02" }
func (prop) Parallel() int     { return 8 }

type fault struct {
	Gen  string `json:"gen"`
	Key  string `json:"key"`  // "<pkgpath> <type>"
	Kind string `json:"kind"` // see kinds
}

type input struct {
	pipe.Scenario
	Fault *fault `json:"fault,omitempty"` // what was injected into the scripts (descriptive; the scripts carry it)
	Crash bool   `json:"crash,omitempty"` // also enumerate syscall-level crash points (thorough)
}

func enc(in input) json.RawMessage {
	b, _ := json.Marshal(in)
	return b
}

var kinds = []string{"err", "unparseable", "exit", "kill", "panic", "defer-err", "defer-skip", "defer-ignore", "defer-exit",
	"skip", "skipw", "ignore", "ignorew", "err-after-render",
	"defer-nest-then-err", "defer-err-self-nest", "defer-err-then-nest", "defer-round2-err", "defer-err-nest-elsewhere", "defer-nest-then-exit", "defer-nested-err"}

// nestKinds: a callback of the failing callback's ROUND registers a further callback (seeded change C02-e: a queue worked
// off in rounds must stop at the first failure, whatever was registered meanwhile).  The failing sibling stands after the
// registering callback, IS the registering callback (it registers, then fails), stands before it, fails in the second
// round while a third one has been registered, or belongs to another type of the same (package, generator); the further
// callbacks always succeed and render something.
var nestKinds = []string{"defer-nest-then-err", "defer-err-self-nest", "defer-err-then-nest", "defer-round2-err", "defer-err-nest-elsewhere",
	"defer-nest-then-exit", "defer-nested-err"}

func okDefer(tag string) pipe.DeferStep { return pipe.DeferStep{Body: "var Nested_" + tag + " = 1\n"} }

func clone(sc pipe.Scenario) pipe.Scenario {
	b, _ := json.Marshal(sc)
	var c pipe.Scenario
	_ = json.Unmarshal(b, &c)
	return c
}

// inject returns the scenario with the step (gen, key) made to fail in the given way.
func inject(sc pipe.Scenario, f fault) pipe.Scenario {
	c := clone(sc)
	for gi := range c.Gens {
		if c.Gens[gi].Name != f.Gen {
			continue
		}
		st := c.Gens[gi].Steps[f.Key]
		switch f.Kind {
		case "err":
			st.Res = "err"
		case "err-after-render":
			st.Res = "err"
			if st.Body == "" {
				st.Body = "var ErrAfterRender = 1\n"
			}
		case "unparseable":
			st.Body, st.Res, st.Count, st.Helper = "func (\n", "", false, false
		case "exit", "kill", "panic", "skip", "skipw", "ignore", "ignorew":
			st.Res = f.Kind
		case "defer-err":
			st.Res = ""
			st.Defers = append(st.Defers, pipe.DeferStep{Res: "err"})
		case "defer-skip":
			st.Res = ""
			st.Defers = append(st.Defers, pipe.DeferStep{Res: "skip"})
		case "defer-ignore":
			st.Res = ""
			st.Defers = append(st.Defers, pipe.DeferStep{Res: "ignorew", Body: "var DeferIgnored = 1\n"})
		case "defer-exit":
			st.Res = ""
			st.Defers = append(st.Defers, pipe.DeferStep{Res: "exit"})
		case "defer-nest-then-err": // a sibling registers a callback, a LATER sibling of the same round fails
			st.Res = ""
			st.Defers = append(st.Defers, pipe.DeferStep{Body: "var Registering = 1\n", Nested: []pipe.DeferStep{okDefer("a")}}, pipe.DeferStep{Res: "err"},
				pipe.DeferStep{Body: "var AfterTheFailure = 1\n"})
		case "defer-nest-then-exit":
			st.Res = ""
			st.Defers = append(st.Defers, pipe.DeferStep{Nested: []pipe.DeferStep{okDefer("a")}}, pipe.DeferStep{Res: "exit"})
		case "defer-err-self-nest": // the failing callback itself registered a callback before it failed
			st.Res = ""
			st.Defers = append(st.Defers, pipe.DeferStep{Res: "err", Nested: []pipe.DeferStep{okDefer("a"), okDefer("b")}})
		case "defer-err-then-nest": // the failing callback stands BEFORE the registering one (which must not run at all)
			st.Res = ""
			st.Defers = append(st.Defers, pipe.DeferStep{Res: "err"}, pipe.DeferStep{Nested: []pipe.DeferStep{okDefer("a")}})
		case "defer-round2-err": // failure in the second round, a third round has been registered by its sibling
			st.Res = ""
			st.Defers = append(st.Defers, pipe.DeferStep{Nested: []pipe.DeferStep{{Nested: []pipe.DeferStep{okDefer("aa")}}, {Res: "err"}}})
		case "defer-nested-err": // the further callback itself fails
			st.Res = ""
			st.Defers = append(st.Defers, pipe.DeferStep{Nested: []pipe.DeferStep{{Res: "err"}, okDefer("b")}})
		case "defer-err-nest-elsewhere": // the registering callbacks belong to the OTHER types of the same (package, generator)
			st.Res = ""
			st.Defers = append(st.Defers, pipe.DeferStep{Res: "err"})
			pkg := f.Key[:strings.Index(f.Key, " ")+1]
			for k, other := range c.Gens[gi].Steps {
				if k != f.Key && strings.HasPrefix(k, pkg) && (other.Res == "" || other.Res == "skip" || other.Res == "ignore") {
					other.Defers = append(other.Defers, pipe.DeferStep{Nested: []pipe.DeferStep{okDefer("o")}})
					c.Gens[gi].Steps[k] = other
				}
			}
		default: // the families of family.go: error values, places of the syntax error
			injectFamily(&c, gi, &st, f)
		}
		c.Gens[gi].Steps[f.Key] = st
	}
	return c
}

type point struct{ gen, key string }

func points(sc pipe.Scenario) []point {
	var ps []point
	for _, g := range sc.Gens {
		var keys []string
		for k := range g.Steps {
			keys = append(keys, k)
		}
		sort.Strings(keys)
		for _, k := range keys {
			ps = append(ps, point{g.Name, k})
		}
	}
	return ps
}

func corner(full bool) []input {
	// two packages with previous outputs and a previous sum, two generators, All
	m := pipe.Module{ModPath: "example.com/m", GoVer: "1.22", Pkgs: []pipe.Pkg{
		{Dir: "a", Name: "a", Types: []pipe.Type{{Name: "T0", Enabled: []string{"g1", "g2"}}, {Name: "T1", Enabled: []string{"g1"}}, {Name: "T2", Enabled: []string{"g1"}}}},
		{Dir: "b", Name: "b", Types: []pipe.Type{{Name: "T0", Enabled: []string{"g1"}}, {Name: "U0", Alias: "int", Enabled: []string{"g1"}}}}},
		Files: []pipe.File{{Path: "a/zz_generated.g1.go", Content: "package a\n\n// previous output of g1\n"},
			{Path: "a/zz_generated.g2.go", Content: "package a\n\n// previous output of g2\n"},
			{Path: "b/zz_generated.g1.go", Content: "package b\n\n// previous output of g1\n"}},
		HasSum: true, SumJunk: "example.com/m/a h1:old=\n"}
	base := pipe.Scenario{Module: m, Entry: []string{"./..."}, All: true, Base: "zz_generated", Gens: []pipe.Gen{
		{Name: "g1", Alias: true, Steps: map[string]pipe.Step{"example.com/m/a T0": {Body: "var A0 = 1\n"}, "example.com/m/a T1": {Res: "skip"},
			"example.com/m/a T2": {Body: "var A2 = 1\n", Defers: []pipe.DeferStep{{Body: "var AD = 1\n"}}},
			"example.com/m/b T0": {Body: "var B0 = 1\n"}, "example.com/m/b U0": {Body: "var BU = 1\n"}}},
		{Name: "g2", Steps: map[string]pipe.Step{"example.com/m/a T0": {Body: "var G2 = 1\n"}}}}}
	out := []input{{Scenario: base}}
	for _, p := range points(base) {
		for _, k := range []string{"err", "unparseable", "kill", "defer-err"} {
			f := fault{p.gen, p.key, k}
			out = append(out, input{Scenario: inject(base, f), Fault: &f})
		}
	}
	// callbacks that register callbacks while a sibling of their round fails, and a death that unwinds the stack (panic: deferred
	// functions of Execute run, unlike after os.Exit / SIGKILL): every kind at every point
	for _, p := range points(base) {
		for _, k := range append(append([]string{}, nestKinds...), "panic") {
			f := fault{p.gen, p.key, k}
			out = append(out, input{Scenario: inject(base, f), Fault: &f})
		}
	}
	out = append(out, familyCorner(base, full)...)
	out = append(out, threePackages(full)...)
	return out
}

func (prop) Generate(r *core.RNG, tier string) []json.RawMessage {
	modules, perModule, crashes := 7, 16, 0
	const nestPoints = 2
	if tier == "thorough" {
		modules, perModule, crashes = 16, 120, 3
	}
	var out []json.RawMessage
	for _, in := range corner(tier == "thorough") {
		out = append(out, enc(in))
	}
	for i := 0; i < modules; i++ {
		sc := pipe.RandScenario(r, pipe.Opts{})
		if r.Chance(70) {
			sc.All = true
		}
		if r.Chance(60) {
			sc.Entry = []string{"./..."}
		}
		out = append(out, enc(input{Scenario: sc})) // fault-free control
		var fs []fault
		for _, p := range points(sc) {
			for _, k := range kinds {
				fs = append(fs, fault{p.gen, p.key, k})
			}
		}
		// quick: the error / unparseable / death kinds at every point first, then a sample of the rest
		sort.SliceStable(fs, func(i, j int) bool { return rank(fs[i].Kind) < rank(fs[j].Kind) })
		if len(fs) > perModule {
			head := fs[:0:0]
			for _, f := range fs {
				if rank(f.Kind) == 0 && len(head) < perModule*3/4 {
					head = append(head, f)
				}
			}
			for len(head) < perModule {
				head = append(head, fs[r.Intn(len(fs))])
			}
			fs = head
		}
		if tier != "thorough" { // quick: additionally every nesting kind and a panic at (up to) nestPoints points of the module
			ps := points(sc)
			for n := 0; n < nestPoints && len(ps) > 0; n++ {
				p := ps[r.Intn(len(ps))]
				for _, k := range append(append([]string{}, nestKinds...), "panic") {
					fs = append(fs, fault{p.gen, p.key, k})
				}
			}
		}
		fs = append(fs, familySample(r, sc, tier)...)
		for _, f := range fs {
			f := f
			out = append(out, enc(input{Scenario: inject(sc, f), Fault: &f}))
		}
	}
	for i := 0; i < crashes; i++ {
		sc := pipe.RandScenario(r, pipe.Opts{})
		sc.All = true
		sc.Entry = []string{"./..."}
		out = append(out, enc(input{Scenario: sc, Crash: true}))
	}
	if tier == "thorough" {
		c := corner(false)[0]
		c.Crash = true
		out = append(out, enc(c))
	}
	return out
}

func rank(kind string) int {
	switch kind {
	case "err", "unparseable", "kill", "defer-err":
		return 0
	}
	return 1 // (the nesting kinds are added separately in quick, see Generate)
}

type crashStats struct {
	Points         int      `json:"crash_points"`
	Killed         int      `json:"killed"`
	SumTouched     int      `json:"sum_changed_at_crash"`
	RerunConverged int      `json:"rerun_converged"`
	RerunLoadError int      `json:"rerun_load_error"` // defect #36 (beyond the statement): next NewContext fails on a torn generated file
	Skipped        string   `json:"skipped,omitempty"`
	Profile        string   `json:"profile,omitempty"` // per crash point: number of paths that differ from the initial tree, '*' if gengo.sum is among them
	Notes          []string `json:"notes,omitempty"`
}

// totals over the crash explorations of this invocation, reported once by Extra
var (
	aggMu sync.Mutex
	agg   struct{ scenarios, points, killed, sumTouched, converged, loadErr int }
)

// Extra reports the crash-exploration totals as a note (and into the evidence statistics).
func (prop) Extra(r *core.RNG, tier string, scratch string) ([]string, []string, map[string]any) {
	aggMu.Lock()
	defer aggMu.Unlock()
	if agg.scenarios == 0 {
		return nil, nil, nil
	}
	stats := map[string]any{"crash_scenarios": agg.scenarios, "crash_points_killed": agg.killed, "sum_changed_at_crash_with_complete_output": agg.sumTouched,
		"rerun_converged": agg.converged, "rerun_blocked_by_torn_generated_file": agg.loadErr}
	var notes []string
	notes = append(notes, fmt.Sprintf("crash exploration: %d scenario(s), %d SIGKILL points inside Execute; gengo.sum differed from its previous content at %d of them (always with every generated file complete); clean re-run converged at %d", agg.scenarios, agg.killed, agg.sumTouched, agg.converged))
	if agg.loadErr > 0 {
		notes = append(notes, fmt.Sprintf("beyond the statement (DESIGN section 4 #36): at %d of %d crash points the torn generated file makes the next NewContext fail until it is deleted; gengo.sum was untouched there, as C02 promises", agg.loadErr, agg.killed))
	}
	return nil, notes, stats
}

type observed struct {
	pipe.Summary
	Fault *fault      `json:"fault,omitempty"`
	Crash *crashStats `json:"crash,omitempty"`
}

func (prop) Run(raw json.RawMessage, scratch string) core.Result {
	var in input
	var res core.Result
	if err := json.Unmarshal(raw, &in); err != nil {
		res.Tags = []string{"bad-input"}
		return res
	}
	obs, err := pipe.RunScenario(in.Scenario, scratch+"/base")
	if err != nil {
		res.Notes = append(res.Notes, "harness: "+err.Error())
		res.Tags = []string{"harness-error"}
		return res
	}
	sum := obs.Summary()
	o := observed{Summary: sum, Fault: in.Fault}
	res.Observed = o
	if obs.Run.TimedOut {
		res.GoViolations = append(res.GoViolations, "Execute did not return within the time limit")
		return res
	}
	if obs.Run.World == nil || sum.Outcome == "load-error" {
		res.Tags = []string{"module-does-not-load"}
		res.Notes = append(res.Notes, "synthetic module rejected by the loader: "+sum.Err+obs.Run.Stderr)
		return res
	}
	res.Coq = "(mk_case " + obs.CoqRunFields(in.Scenario) + ")"

	// the child's exit status must agree with what was logged
	if obs.Run.Result == nil {
		last := ""
		if n := len(obs.Run.Events); n > 0 {
			last = obs.Run.Events[n-1].Res
		}
		switch {
		case last == "exit" && obs.Run.ExitCode != 3:
			res.GoViolations = append(res.GoViolations, fmt.Sprintf("os.Exit(3) inside a generator, child exit code %d", obs.Run.ExitCode))
		case last == "kill" && obs.Run.Signal == "":
			res.GoViolations = append(res.GoViolations, "SIGKILL inside a generator but the child was not reported as killed")
		case last != "exit" && last != "kill" && last != "panic":
			if line := panicLine(obs.Run.Stderr); line != "" {
				// not a harness failure: the code under test panicked where the statement wants an error value
				res.GoViolations = append(res.GoViolations, "Execute did not return an error naming generator and package or the syntax position: it panicked ("+line+")")
			} else {
				res.GoViolations = append(res.GoViolations, "the process died without a scripted death: "+tail(obs.Run.Stderr))
			}
		}
	}

	// tags
	reached := false
	if in.Fault != nil {
		i := strings.Index(in.Fault.Key, " ")
		for _, e := range obs.Run.Events {
			if e.Gen == in.Fault.Gen && e.Pkg == in.Fault.Key[:i] && e.Type == in.Fault.Key[i+1:] {
				reached = true
			}
		}
		res.Tags = append(res.Tags, "fault:"+in.Fault.Kind)
		if reached {
			res.Tags = append(res.Tags, "fault-reached")
			// position of the faulty package among the packages that were called, and call index within (package, generator)
			var pkgs []string
			idx := 0
			for _, e := range obs.Run.Events {
				if len(pkgs) == 0 || pkgs[len(pkgs)-1] != e.Pkg {
					if !contains(pkgs, e.Pkg) {
						pkgs = append(pkgs, e.Pkg)
					}
				}
				if e.Gen == in.Fault.Gen && e.Pkg == in.Fault.Key[:i] && !e.Defer {
					idx++
				}
			}
			for k, p := range pkgs {
				if p == in.Fault.Key[:i] {
					res.Tags = append(res.Tags, fmt.Sprintf("fault-package-position:%d", k))
				}
			}
			res.Tags = append(res.Tags, fmt.Sprintf("fault-call-index:%d", min(idx-1, 3)))
		} else {
			res.Tags = append(res.Tags, "fault-not-reached")
		}
	} else {
		res.Tags = append(res.Tags, "fault:none")
	}
	res.Tags = append(res.Tags, familyTags(in, obs)...)
	res.Tags = append(res.Tags, "outcome:"+sum.Outcome)
	if in.All {
		res.Tags = append(res.Tags, "all")
	} else {
		res.Tags = append(res.Tags, "not-all")
	}
	if in.Module.HasSum {
		res.Tags = append(res.Tags, "sum-present")
	}
	if len(obs.Run.World.Pkgs) > 1 {
		res.Tags = append(res.Tags, "multi-package")
	}
	res.Nontrivial = reached || in.Crash

	if in.Crash {
		cs, viol := crashExplore(in, obs, scratch)
		o.Crash = cs
		res.Observed = o
		res.GoViolations = append(res.GoViolations, viol...)
		res.Tags = append(res.Tags, "crash-exploration")
		aggMu.Lock()
		agg.scenarios++
		agg.points += cs.Points
		agg.killed += cs.Killed
		agg.sumTouched += cs.SumTouched
		agg.converged += cs.RerunConverged
		agg.loadErr += cs.RerunLoadError
		aggMu.Unlock()
		if cs.RerunLoadError > 0 {
			res.Notes = append(res.Notes, fmt.Sprintf("after %d of %d crash points the next NewContext fails on a torn generated file (DESIGN section 4 #36; beyond the statement of C02, which holds: gengo.sum was untouched)", cs.RerunLoadError, cs.Killed))
		}
		res.Notes = append(res.Notes, cs.Notes...)
	}
	return res
}

func tail(s string) string {
	if len(s) > 300 {
		return s[len(s)-300:]
	}
	return s
}

func contains(l []string, s string) bool {
	for _, x := range l {
		if x == s {
			return true
		}
	}
	return false
}

// crashExplore: every k-th write/openat/unlinkat of the Execute phase is turned into a SIGKILL in turn.
func crashExplore(in input, base *pipe.Observation, scratch string) (*crashStats, []string) {
	cs := &crashStats{}
	var viol []string
	if !pipe.StraceAvailable() {
		cs.Skipped = "strace not installed"
		return cs, nil
	}
	if base.Run.Result == nil || base.Run.Result.Class != "done" {
		cs.Skipped = "the uncrashed run does not succeed"
		return cs, nil
	}
	final := base.After
	sumBefore, hadSum := base.Before["gengo.sum"]
	genEqual := func(t pipe.Tree) (bool, string) { // every file except gengo.sum equals the uncrashed final tree
		for p, b := range final {
			if p == "gengo.sum" {
				continue
			}
			if x, ok := t[p]; !ok || string(x) != string(b) {
				return false, p
			}
		}
		for p := range t {
			if _, ok := final[p]; !ok && p != "gengo.sum" {
				return false, p
			}
		}
		return true, ""
	}
	// A torn (emptied) gengo.sum makes the re-run regenerate packages that the uncrashed run skipped as cached (and
	// e.g. remove their stale files): the re-run may therefore also agree with what a run without the cache leaves.
	forced := in.Scenario
	forced.Force = true
	finalForce := final
	if fo, err := pipe.RunScenario(forced, scratch+"/forced"); err == nil && fo.Run.Result != nil && fo.Run.Result.Class == "done" {
		finalForce = fo.After
	}
	converged := func(t pipe.Tree) (bool, string) {
		same := func(a pipe.Tree, p string) bool {
			x, okX := t[p]
			y, okY := a[p]
			return okX == okY && string(x) == string(y)
		}
		for _, p := range union(union3(final, finalForce), t) {
			if p == "gengo.sum" {
				continue
			}
			if !same(final, p) && !same(finalForce, p) {
				return false, p
			}
		}
		return true, ""
	}
	for k := 1; k <= 600; k++ {
		if k > 120 && k%4 != 0 { // long runs: every crash point up to 120, then every fourth
			continue
		}
		dir := fmt.Sprintf("%s/k%d", scratch, k)
		root := dir + "/m"
		if err := in.Module.Materialise(root); err != nil {
			cs.Notes = append(cs.Notes, "harness: "+err.Error())
			break
		}
		job := pipe.Job{Dir: root, Entry: in.Entry, All: in.All, Force: in.Force, Base: in.Base, Gens: in.Gens, Out: dir + "/run"}
		rr, attached := pipe.RunChildKilledAt(job, dir, k)
		if !attached {
			cs.Skipped = "strace could not attach (ptrace not permitted?)"
			break
		}
		cs.Points++
		t, err := pipe.Snapshot(root)
		if err != nil {
			break
		}
		if rr.Result != nil { // ran to completion: k is beyond the last syscall
			if ok, p := genEqual(t); !ok {
				viol = append(viol, fmt.Sprintf("uninterrupted traced run differs from the untraced run at %s", p))
			}
			break
		}
		cs.Killed++
		cs.Profile += " "
		// (1) only paths the full run touches may differ, and only towards what the full run leaves there
		ndiff := 0
		for _, p := range union(base.Before, t) {
			b, okB := base.Before[p]
			x, okX := t[p]
			if okB == okX && string(b) == string(x) {
				continue
			}
			ndiff++
			f, okF := final[p]
			switch {
			case !okX && !okF: // removed, as in the full run
			case okX && okF && strings.HasPrefix(string(f), string(x)): // truncated or partly written
			default:
				viol = append(viol, fmt.Sprintf("crash point %d: %s is neither as before nor a prefix of what the full run writes", k, p))
			}
		}
		// (2) gengo.sum: untouched, unless every generated file is already complete
		sx, okS := t["gengo.sum"]
		cs.Profile += fmt.Sprint(ndiff)
		if okS != hadSum || string(sx) != string(sumBefore) {
			cs.Profile += "*"
			cs.SumTouched++
			if ok, p := genEqual(t); !ok {
				viol = append(viol, fmt.Sprintf("crash point %d: gengo.sum was rewritten although %s is not in its final state", k, p))
			}
		}
		// (3) a clean re-run on the crashed tree converges to the uncrashed result
		job2 := pipe.Job{Dir: root, Entry: in.Entry, All: in.All, Force: in.Force, Base: in.Base, Gens: in.Gens, Out: dir + "/rerun"}
		r2 := pipe.RunChild(job2, dir)
		switch {
		case r2.Result != nil && r2.Result.NewContextErr != "":
			cs.RerunLoadError++
		case r2.Result != nil && r2.Result.Class == "done":
			t2, _ := pipe.Snapshot(root)
			if ok, p := converged(t2); ok {
				cs.RerunConverged++
			} else {
				viol = append(viol, fmt.Sprintf("crash point %d: the re-run succeeded but %s is neither what the uncrashed run nor what a run without the cache leaves", k, p))
			}
		default:
			msg := "died"
			if r2.Result != nil {
				msg = r2.Result.Err
			}
			viol = append(viol, fmt.Sprintf("crash point %d: the re-run failed: %s", k, msg))
		}
		_ = removeAll(dir)
	}
	return cs, viol
}

func union3(a, b pipe.Tree) pipe.Tree {
	m := pipe.Tree{}
	for p, x := range a {
		m[p] = x
	}
	for p, x := range b {
		if _, ok := m[p]; !ok {
			m[p] = x
		}
	}
	return m
}

func union(a, b pipe.Tree) []string {
	m := map[string]bool{}
	for p := range a {
		m[p] = true
	}
	for p := range b {
		m[p] = true
	}
	var out []string
	for p := range m {
		out = append(out, p)
	}
	sort.Strings(out)
	return out
}

func (prop) Shrink(raw json.RawMessage) []json.RawMessage {
	var in input
	if json.Unmarshal(raw, &in) != nil {
		return nil
	}
	var out []json.RawMessage
	for _, c := range pipe.ShrinkScenario(in.Scenario) {
		if in.Fault != nil { // keep the faulty step
			ok := false
			for _, g := range c.Gens {
				if _, has := g.Steps[in.Fault.Key]; has && g.Name == in.Fault.Gen {
					ok = true
				}
			}
			if !ok {
				continue
			}
		}
		out = append(out, enc(input{Scenario: c, Fault: in.Fault, Crash: in.Crash}))
	}
	return out
}
