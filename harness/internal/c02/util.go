package c02

import "os"

func removeAll(p string) error { return os.RemoveAll(p) }
