package c02

import (
	"encoding/json"
	"go/parser"
	"go/scanner"
	"go/token"
	"hash/fnv"
	"sort"
	"strings"

	"verifharness/internal/core"
	"verifharness/internal/pipe"
)

// Two input families added for the seeded changes C02-g and C02-h (notes/C02.md, "Seeded changes (round 4)").
//
// (1) Error VALUES.  "If a generator returns an error … Execute returns an error": whatever the value.  Kinds
//     pipe.ErrKinds (sentinels of context / io / io/fs / syscall, bare, %w-wrapped, errors.Join-ed, custom types with
//     Is / Unwrap / Timeout, empty message, messages that spell "skip" / "ignore") as the result of a GenerateType /
//     GenerateAliasType call ("err-…") and of a deferred callback ("defer:err-…"), and pipe.SwallowedKinds (further
//     spellings of the two sentinels: swallowed from a call, an error from a callback).
//
// (2) Unparseable renderings by the PLACE of the syntax error.  tails × {final line break, none} × {where the faulty step
//     happens to stand, made the LAST thing rendered for its (package, generator), rendered by a deferred callback}.  The
//     tails are constructs the parser faults at their end or beyond (unclosed block / paren / literal / comment: the error
//     position is on the last line of the assembled source, or past it) and faults inside a line.

var tails = []struct{ name, body string }{
	{"paren", "func ("},
	{"brace", "type X_{t} struct {"},
	{"funcbody", "func F_{t}() {\n\tif true {\n\t\treturn\n\t}"},
	{"string", "var S_{t} = \"abc"},
	{"rawstring", "var R_{t} = `abc"},
	{"rune", "var C_{t} = 'a"},
	{"comment", "var K_{t} = 1 /* never closed"},
	{"expr", "var E_{t} = (1 +"},
	{"composite", "var L_{t} = []int{1, 2,"},
	{"assign", "var = 1"},
	{"stray", "}"},
	{"twoonaline", "var A_{t} = 1 var B_{t} = 2"},
	{"illegal", "var I_{t} = 1 # 2"},
	{"pkgclause", "package other"},
	{"afterok", "var Ok_{t} = 1\n\nfunc G_{t}() {"},
}

func tailNames() []string {
	var ns []string
	for _, t := range tails {
		ns = append(ns, t.name)
	}
	return ns
}

// tailBody: variant = "<tail>" (no final line break) or "<tail>+nl".
func tailBody(variant, ty string) string {
	name, nl := strings.CutSuffix(variant, "+nl")
	for _, t := range tails {
		if t.name == name {
			b := strings.ReplaceAll(t.body, "{t}", ty)
			if nl {
				b += "\n"
			}
			return b
		}
	}
	return "func (\n"
}

func typeOf(key string) string { return key[strings.Index(key, " ")+1:] }
func pkgOf(key string) string  { return key[:strings.Index(key, " ")] }

// injectFamily handles the kinds of the two families (called from inject's default branch).
func injectFamily(c *pipe.Scenario, gi int, st *pipe.Step, f fault) {
	plain := func() { st.Res, st.Count, st.Helper, st.Use, st.DocOf = "", false, false, nil, nil }
	// make the faulty step's own rendering (or callback) the last thing rendered for its (package, generator)
	quietOthers := func(alsoLaterBodies bool) {
		for k, other := range c.Gens[gi].Steps {
			if k == f.Key || pkgOf(k) != pkgOf(f.Key) {
				continue
			}
			other.Defers = nil
			if alsoLaterBodies && typeOf(k) > typeOf(f.Key) { // called later: types are visited in name order
				other.Body, other.Count, other.Helper, other.Use, other.DocOf = "", false, false, nil, nil
			}
			c.Gens[gi].Steps[k] = other
		}
	}
	switch {
	case pipe.IsErrRes(f.Kind) || contains(pipe.SwallowedKinds, f.Kind):
		st.Res = f.Kind
	case strings.HasPrefix(f.Kind, "defer:"):
		st.Res = ""
		st.Defers = append(st.Defers, pipe.DeferStep{Res: strings.TrimPrefix(f.Kind, "defer:")})
	case strings.HasPrefix(f.Kind, "unparseable:"):
		plain()
		st.Body = tailBody(strings.TrimPrefix(f.Kind, "unparseable:"), typeOf(f.Key))
	case strings.HasPrefix(f.Kind, "unparseable-last:"):
		plain()
		st.Body, st.Defers = tailBody(strings.TrimPrefix(f.Kind, "unparseable-last:"), typeOf(f.Key)), nil
		quietOthers(true)
	case strings.HasPrefix(f.Kind, "defer-unparseable:"):
		plain()
		st.Defers = []pipe.DeferStep{{Body: tailBody(strings.TrimPrefix(f.Kind, "defer-unparseable:"), typeOf(f.Key))}}
		quietOthers(false)
	}
}

// unparseableKinds: for tail i at point j, the kinds to inject; `last` without a final line break always, and one
// of the three other placements / endings in rotation.
func rotated(i, j int, tail string) string {
	switch (i + j) % 4 {
	case 0:
		return "unparseable:" + tail
	case 1:
		return "unparseable:" + tail + "+nl"
	case 2:
		return "unparseable-last:" + tail + "+nl"
	}
	return "defer-unparseable:" + tail
}

// familyCorner: on the hand-made two-package All scenario.  full (thorough): at EVERY point every tail as the last thing
// rendered without a final line break, every tail in one of the other placements (rotating), every error value as the
// call's result and as a callback's, and the further spellings of ErrSkip / ErrIgnore.  Quick: a third of that at every point,
// rotating so that every tail is the last thing rendered (no final line break) at two points and stands in another
// placement at two more, and every error value is returned once by a call and once by a callback.
func familyCorner(base pipe.Scenario, full bool) []input {
	var out []input
	add := func(p point, kind string) {
		f := fault{p.gen, p.key, kind}
		out = append(out, input{Scenario: inject(base, f), Fault: &f})
	}
	for j, p := range points(base) {
		for i, t := range tailNames() {
			if full || (i+j)%3 == 0 {
				add(p, "unparseable-last:"+t)
			}
			if full || (i+j)%3 == 1 {
				add(p, rotated(i, j, t))
			}
		}
		for i, k := range append(append([]string{}, pipe.ErrKinds...), pipe.SwallowedKinds...) {
			switch {
			case full:
				add(p, k)
				add(p, "defer:"+k)
			case (i+j)%3 == 0 && j < 3:
				add(p, k)
			case (i+j)%3 == 0:
				add(p, "defer:"+k)
			}
		}
	}
	return out
}

// threePackages: an All run over p1, p2, p3 (previous outputs and a previous gengo.sum with an outdated entry for each, so
// that "recorded as done" is visible as a rewritten sum): every error value at every PACKAGE POSITION (full: from the call
// and from a callback; quick: alternating), and every tail at one position.
func threePackages(full bool) []input {
	var m pipe.Module
	m.ModPath, m.GoVer, m.HasSum = "example.com/m", "1.22", true
	g := pipe.Gen{Name: "g1", Steps: map[string]pipe.Step{}}
	for _, d := range []string{"p1", "p2", "p3"} {
		m.Pkgs = append(m.Pkgs, pipe.Pkg{Dir: d, Name: d, Types: []pipe.Type{{Name: "T0", Enabled: []string{"g1"}}}})
		m.Files = append(m.Files, pipe.File{Path: d + "/zz_generated.g1.go", Content: "package " + d + "\n\n// previous output of g1\n"})
		g.Steps["example.com/m/"+d+" T0"] = pipe.Step{Body: "var V_" + d + " = 1\n"}
	}
	m.SumJunk = "example.com/m/p1 h1:old=\nexample.com/m/p2 h1:old=\nexample.com/m/p3 h1:old=\n"
	base := pipe.Scenario{Module: m, Entry: []string{"./..."}, All: true, Base: "zz_generated", Gens: []pipe.Gen{g}}
	out := []input{{Scenario: base}}
	add := func(p point, kind string) {
		f := fault{p.gen, p.key, kind}
		out = append(out, input{Scenario: inject(base, f), Fault: &f})
	}
	for j, p := range points(base) {
		for i, k := range pipe.ErrKinds {
			if full || (i+j)%2 == 0 {
				add(p, k)
			}
			if full || (i+j)%2 == 1 {
				add(p, "defer:"+k)
			}
		}
		for i, t := range tailNames() {
			if i%3 == j && (full || i < 6) {
				add(p, "unparseable:"+t)
			}
		}
	}
	return out
}

// familySample: for a generated module, n error values and n unparseable variants at random points.
func familySample(_ *core.RNG, sc pipe.Scenario, tier string) []fault {
	// a side stream seeded by the scenario: the modules of a seed stay what they were before the families were added
	b, _ := json.Marshal(sc)
	h := fnv.New64a()
	_, _ = h.Write(b)
	r := core.NewRNG(h.Sum64())
	ps := points(sc)
	if len(ps) == 0 {
		return nil
	}
	n := 3
	if tier == "thorough" {
		n = 3 * len(ps)
	}
	var fs []fault
	for i := 0; i < n; i++ {
		p := ps[r.Intn(len(ps))]
		k := core.Pick(r, pipe.ErrKinds)
		if r.Chance(15) {
			k = core.Pick(r, pipe.SwallowedKinds)
		}
		if r.Bool() {
			k = "defer:" + k
		}
		fs = append(fs, fault{p.gen, p.key, k})
		p = ps[r.Intn(len(ps))]
		t := core.Pick(r, tailNames())
		if r.Chance(40) {
			t += "+nl"
		}
		fs = append(fs, fault{p.gen, p.key, core.Pick(r, []string{"unparseable:", "unparseable-last:", "unparseable-last:", "defer-unparseable:"}) + t})
	}
	return fs
}

// panicLine: the "panic: …" line of a Go runtime crash report, "" if there is none.
func panicLine(stderr string) string {
	for _, l := range strings.Split(stderr, "\n") {
		if strings.HasPrefix(l, "panic: ") {
			if len(l) > 200 {
				l = l[:200]
			}
			return strings.TrimSpace(l)
		}
	}
	return ""
}

// familyTags: distribution tags of the two families, computed from the scripts and the call log alone (the reference parser,
// not gengo, says where the syntax error of what was rendered lies).
func familyTags(in input, obs *pipe.Observation) []string {
	var tags []string
	if in.Fault == nil {
		return nil
	}
	k := in.Fault.Kind
	switch {
	case pipe.IsErrRes(k) && k != "err":
		tags = append(tags, "error-value:from-call")
	case strings.HasPrefix(k, "defer:"):
		tags = append(tags, "error-value:from-callback")
	}
	if !strings.Contains(k, "unparseable") || obs.Run.World == nil {
		return tags
	}
	body := ""
	for _, e := range obs.Run.Events {
		if e.Gen == in.Fault.Gen && e.Pkg == pkgOf(in.Fault.Key) {
			body += e.Body
		}
	}
	name := ""
	for _, p := range obs.Run.World.Pkgs {
		if p.Path == pkgOf(in.Fault.Key) {
			name = p.Name
		}
	}
	if body == "" || name == "" {
		return tags
	}
	src := pipe.Assemble(name, in.Fault.Gen, body)
	_, err := parser.ParseFile(token.NewFileSet(), "x.go", src, parser.ParseComments|parser.SkipObjectResolution|parser.AllErrors)
	sl, ok := err.(scanner.ErrorList)
	if !ok || len(sl) == 0 {
		return append(tags, "syntax-error:none(rendering-parses)")
	}
	sort.Sort(sl)
	lines := strings.Split(src, "\n")
	nl := "no-final-newline"
	if strings.HasSuffix(src, "\n") {
		nl = "final-newline"
	}
	where := "inner-line"
	switch l := sl[0].Pos.Line; {
	case l >= len(lines):
		where = "last-line"
	case l == len(lines)-1 && lines[len(lines)-1] == "":
		where = "last-text-line"
	}
	return append(tags, "syntax-error:"+where+","+nl)
}
