// Package c07: gengo only touches its own output files.  Synthetic modules with user files, look-alike names,
// stale outputs, non-Go and build-ignored <base>.* files and unselected packages are run through the real
// gengo.Execute (fresh child process, scripted generators registered with gengo.Register); the tree is
// snapshotted before and after.
package c07

import (
	"encoding/json"
	"fmt"
	"strings"

	"verifharness/internal/core"
	"verifharness/internal/pipe"
)

type prop struct{}

func init() { core.Register(prop{}) }

func (prop) ID() string        { return "C07" }
func (prop) CoqModule() string { return "Gengo.Corr.C07" }
func (prop) Parallel() int     { return 8 }

func enc(sc pipe.Scenario) json.RawMessage {
	b, _ := json.Marshal(sc)
	return b
}

// fixed corner cases (also kept in corpus/C07)
func corner() []pipe.Scenario {
	mod := func(types []pipe.Type, files ...pipe.File) pipe.Module {
		return pipe.Module{ModPath: "example.com/m", GoVer: "1.22", Pkgs: []pipe.Pkg{{Dir: "a", Name: "a", Types: types}}, Files: files}
	}
	prev := func(g string) pipe.File {
		return pipe.File{Path: "a/zz_generated." + g + ".go", Content: "package a\n\n// previous output of " + g + "\n"}
	}
	T := []pipe.Type{{Name: "T", Enabled: []string{"g1", "al"}}}
	U := []pipe.Type{{Name: "U", Alias: "int", Enabled: []string{"al"}}}
	step := func(k string, s pipe.Step) map[string]pipe.Step {
		return map[string]pipe.Step{"example.com/m/a " + k: s}
	}
	var out []pipe.Scenario
	// ErrIgnore from GenerateType, nothing rendered, previous file present: kept
	out = append(out, pipe.Scenario{Module: mod(T, prev("g1")), Entry: []string{"./a"}, Base: "zz_generated",
		Gens: []pipe.Gen{{Name: "g1", Steps: step("T", pipe.Step{Res: "ignore"})}}})
	// the same through GenerateAliasType (defect #26 before the repair: the file was removed)
	out = append(out, pipe.Scenario{Module: mod(U, prev("al")), Entry: []string{"./a"}, Base: "zz_generated",
		Gens: []pipe.Gen{{Name: "al", Alias: true, Steps: step("U", pipe.Step{Res: "ignore"})}}})
	// ErrIgnore without a previous file: no file appears
	out = append(out, pipe.Scenario{Module: mod(U), Entry: []string{"./a"}, Base: "zz_generated",
		Gens: []pipe.Gen{{Name: "al", Alias: true, Steps: step("U", pipe.Step{Res: "ignorew"})}}})
	// renders nothing: previous file removed; stale and look-alike files
	out = append(out, pipe.Scenario{Module: mod(T, prev("g1"), prev("old"),
		pipe.File{Path: "a/zz_generatedx.go", Content: "package a\n"}, pipe.File{Path: "a/zz_generated.go", Content: "package a\n"},
		pipe.File{Path: "a/zz_generated.txt", Content: "x"}), Entry: []string{"./a"}, Base: "zz_generated",
		Gens: []pipe.Gen{{Name: "g1", Steps: step("T", pipe.Step{})}}})
	// base name "gengo": gengo.sum itself has the prefix "gengo."
	out = append(out, pipe.Scenario{Module: pipe.Module{ModPath: "example.com/m", GoVer: "1.22",
		Pkgs:   []pipe.Pkg{{Dir: "", Name: "root", Types: []pipe.Type{{Name: "T", Enabled: []string{"g1"}}}}},
		HasSum: true, SumJunk: "example.com/m h1:old=\n"}, Entry: []string{"."}, Base: "gengo",
		Gens: []pipe.Gen{{Name: "g1", Steps: map[string]pipe.Step{"example.com/m T": {Body: "var V = 1\n"}}}}})
	out = append(out, outcomeOrders()...)
	out = append(out, importChains()...)
	out = append(out, lineDirectiveCases()...)
	out = append(out, otherModules()...)
	out = append(out, rootPackage()...)
	out = append(out, workspaces()...)
	return out
}

// outcomeOrders: one generator, one package with a previous output, three enabled types A < B < C (visited in this
// order) and every assignment of the four outcomes {ErrIgnore, ErrSkip, nil without rendering, nil with a rendered
// declaration} to them - 64 scenarios - plus the 16 assignments over two alias types for an alias generator.  Whether the
// previous file is kept, removed or rewritten must depend on the SET of outcomes only (kept iff nothing was rendered
// and some type returned ErrIgnore), not on their order (seeded changes C07-l / C07-n: the ErrIgnore mark cleared by a
// later ErrSkip or nil).
func outcomeOrders() []pipe.Scenario {
	prev := func(g string) pipe.File {
		return pipe.File{Path: "a/zz_generated." + g + ".go", Content: "package a\n\n// previous output of " + g + "\n"}
	}
	outcome := func(k int, name string) pipe.Step {
		switch k {
		case 0:
			return pipe.Step{Res: "ignore"}
		case 1:
			return pipe.Step{Res: "skip"}
		case 2:
			return pipe.Step{}
		}
		return pipe.Step{Body: "var V" + name + " = 1\n"}
	}
	var out []pipe.Scenario
	names := []string{"A", "B", "C"}
	for code := 0; code < 64; code++ {
		var types []pipe.Type
		steps := map[string]pipe.Step{}
		for i, n := range names {
			types = append(types, pipe.Type{Name: n, Enabled: []string{"g1"}})
			steps["example.com/m/a "+n] = outcome((code>>(2*i))&3, n)
		}
		out = append(out, pipe.Scenario{Module: pipe.Module{ModPath: "example.com/m", GoVer: "1.22",
			Pkgs: []pipe.Pkg{{Dir: "a", Name: "a", Types: types}}, Files: []pipe.File{prev("g1")}},
			Entry: []string{"./a"}, Base: "zz_generated", Gens: []pipe.Gen{{Name: "g1", Steps: steps}}})
	}
	for code := 0; code < 16; code++ {
		var types []pipe.Type
		steps := map[string]pipe.Step{}
		for i, n := range []string{"U", "W"} {
			types = append(types, pipe.Type{Name: n, Alias: "int", Enabled: []string{"al"}})
			steps["example.com/m/a "+n] = outcome((code>>(2*i))&3, n)
		}
		out = append(out, pipe.Scenario{Module: pipe.Module{ModPath: "example.com/m", GoVer: "1.22",
			Pkgs: []pipe.Pkg{{Dir: "a", Name: "a", Types: types}}, Files: []pipe.File{prev("al")}},
			Entry: []string{"./a"}, Base: "zz_generated", Gens: []pipe.Gen{{Name: "al", Alias: true, Steps: steps}}})
	}
	return out
}

// workspaces: the module is one member of a go.work workspace of 2-3 modules (go.work in its root or in the directory
// above; with or without require/replace lines in go.mod).  For the go command every member is a "main" module; the run
// is still the run of ONE module: the one it was started in, whose packages the entrypoints name.  Requested packages
// import packages of the other members (directly, and member -> member).  Every member holds tagged types, a previous
// output, a stale <base>.*.go, a look-alike and a user file; one has a gengo.sum of its own.  With or without All, every
// file of the other members (and go.work) is byte-identical afterwards; gengo.sum is written in the root of the run's module.
func workspaces() []pipe.Scenario {
	on := []string{"g1"}
	member := func(dir, path string, pkgs ...string) pipe.ExtMod {
		x := pipe.ExtMod{Dir: dir, ModPath: path, GoVer: "1.21"}
		for _, d := range pkgs {
			name := "root"
			if d != "" {
				name = d[strings.LastIndex(d, "/")+1:]
			}
			x.Pkgs = append(x.Pkgs, pipe.Pkg{Dir: d, Name: name, Types: []pipe.Type{{Name: "X", Enabled: on}, {Name: "XA", Alias: "int", Enabled: on}}})
			j := func(f string) string {
				if d == "" {
					return f
				}
				return d + "/" + f
			}
			x.Files = append(x.Files,
				pipe.File{Path: j("zz_generated.retired.go"), Content: "package " + name + "\n\n// stale output in another workspace module\n"},
				pipe.File{Path: j("zz_generatedx.go"), Content: "package " + name + "\n\n// look-alike x\n"},
				pipe.File{Path: j("user.go"), Content: "package " + name + "\n\n// user file\n"})
		}
		x.Files = append(x.Files, pipe.File{Path: "README.md", Content: "# another workspace module\n"})
		return x
	}
	withPrev := func(x pipe.ExtMod, dir, name string) pipe.ExtMod {
		x.Files = append(append([]pipe.File{}, x.Files...), pipe.File{Path: dir + "zz_generated.g1.go", Content: "package " + name + "\n\n// previous output of g1 in another workspace module\n"})
		return x
	}
	lib := withPrev(member("lib", "example.com/lib", "model", "util"), "model/", "model") // nested directory, unrelated path (a monorepo)
	lib.Pkgs[0].Imports = []string{"util"}
	tools := member("../tools", "example.com/m/tools", "", "gen") // sibling checkout whose path extends the run's module path
	tools.Files = append(tools.Files, pipe.File{Path: "gengo.sum", Content: "example.com/m/tools h1:theirs=\n"})
	api := withPrev(member("api", "example.com/m/api", ""), "", "root") // nested module of a multi-module repository
	type layout struct {
		ext   []pipe.ExtMod
		app   []string // what ./app imports from the other members
		conf  []string // what ./internal/conf imports from them
		chain [2]string
		modes [][2]string // (Work, "only" | "")
		// member: entrypoints that lie in ANOTHER member than the one the run was started in (then that member is the
		// module of the run: its packages are processed, gengo.sum belongs into its root, the run's own directory is frame)
		member [][]string
	}
	all3 := [][2]string{{"root", ""}, {"root", "only"}, {"parent", "only"}}
	two := [][2]string{{"root", "only"}, {"parent", ""}}
	layouts := []layout{
		{ext: []pipe.ExtMod{lib}, app: []string{"example.com/lib/model"}, modes: all3},
		{ext: []pipe.ExtMod{tools}, app: []string{"example.com/m/tools/gen"}, conf: []string{"example.com/m/tools"}, modes: two,
			member: [][]string{{"../tools/gen"}, {"../tools/..."}}},
		{ext: []pipe.ExtMod{api}, app: []string{"example.com/m/api"}, modes: two},
		// three members, a chain: app -> lib/model -> tools/gen (the second edge is resolved by the workspace alone)
		{ext: []pipe.ExtMod{lib, tools}, app: []string{"example.com/lib/model"}, chain: [2]string{"model", "example.com/m/tools/gen"}, modes: [][2]string{{"root", "only"}, {"parent", "only"}},
			member: [][]string{{"./lib/model"}, {"./lib/..."}, {"./lib/util"}, {"./lib/util", "./lib/model"}}},
	}
	var out []pipe.Scenario
	for _, l := range layouts {
		m := pipe.Module{ModPath: "example.com/m", GoVer: "1.22", Pkgs: []pipe.Pkg{
			{Dir: "app", Name: "app", Imports: []string{"internal/conf"}, XImports: l.app, Types: []pipe.Type{{Name: "A", Enabled: on}}},
			{Dir: "internal/conf", Name: "conf", XImports: l.conf, Types: []pipe.Type{{Name: "C", Enabled: on}}}},
			Files: []pipe.File{{Path: "internal/conf/zz_generated.retired.go", Content: "package conf\n\n// stale output\n"},
				{Path: "app/zz_generated.g1.go", Content: "package app\n\n// previous output of g1\n"},
				{Path: "app/user.go", Content: "package app\n\n// user file\n"}}}
		steps := map[string]pipe.Step{"example.com/m/app A": {Body: "var V = 1\n"}, "example.com/m/internal/conf C": {Body: "var V = 1\n"}}
		for _, x := range l.ext {
			x := x
			x.Pkgs = append([]pipe.Pkg{}, x.Pkgs...)
			for i, p := range x.Pkgs {
				steps[x.PkgPath(p.Dir)+" X"] = pipe.Step{Body: "var V = 1\n"}
				steps[x.PkgPath(p.Dir)+" XA"] = pipe.Step{Body: "var VA = 1\n"}
				if l.chain[0] != "" && p.Dir == l.chain[0] {
					x.Pkgs[i].XImports = []string{l.chain[1]}
				}
			}
			m.Ext = append(m.Ext, x)
		}
		for _, mode := range l.modes {
			m := m
			m.Work, m.WorkOnly = pipe.WorkMode(mode[0]), mode[1] == "only"
			for _, allFlag := range []bool{true, false} {
				entries := [][]string{{"./app"}, {"./..."}, {"./internal/conf"}}
				if !allFlag {
					entries = [][]string{{"./app"}, {"./app", "./internal/conf"}}
				}
				for _, entry := range entries {
					out = append(out, pipe.Scenario{Module: m, Entry: entry, All: allFlag, Base: "zz_generated", Gens: []pipe.Gen{{Name: "g1", Alias: true, Steps: steps}}})
				}
				if mode[1] == "only" {
					for _, entry := range l.member {
						out = append(out, pipe.Scenario{Module: m, Entry: entry, All: allFlag, Base: "zz_generated", Gens: []pipe.Gen{{Name: "g1", Alias: true, Steps: steps}}})
					}
				}
			}
		}
	}
	return out
}

// otherModules: the module depends on packages of OTHER modules that lie on disk, writable, next to or inside it
// (replace => directory): a nested module whose path extends the main module's at a slash (example.com/m/api in m/api),
// siblings whose path merely starts with the same characters (example.com/mkit, example.com/m-client), and a module with
// an unrelated path inside the tree.  They hold tagged types, previous and stale <base>.* files and a gengo.sum of their
// own.  Whatever is requested in the main module, with or without All, every file of them is byte-identical afterwards.
func otherModules() []pipe.Scenario {
	on := []string{"g1"}
	ext := func(dir, path, name string) pipe.ExtMod {
		return pipe.ExtMod{Dir: dir, ModPath: path, GoVer: "1.21",
			Pkgs: []pipe.Pkg{{Dir: "", Name: name, Types: []pipe.Type{{Name: "X", Enabled: on}}}},
			Files: []pipe.File{{Path: "zz_generated.retired.go", Content: "package " + name + "\n\n// stale output in another module\n"},
				{Path: "zz_generated.g1.go", Content: "package " + name + "\n\n// previous output of g1 in another module\n"}}}
	}
	all := []pipe.ExtMod{ext("api", "example.com/m/api", "api"), ext("../mkit", "example.com/mkit", "mkit"),
		ext("../m-client", "example.com/m-client", "client"), ext("third_party/other", "example.org/other", "other"), ext("v2", "example.com/m/v2", "mv2")}
	all[1].Files = append(all[1].Files, pipe.File{Path: "gengo.sum", Content: "example.com/mkit h1:theirs=\n"})
	steps := map[string]pipe.Step{"example.com/m/app A": {Body: "var V = 1\n"}, "example.com/m/internal/conf C": {Body: "var V = 1\n"}}
	for _, x := range all {
		steps[x.ModPath+" X"] = pipe.Step{Body: "var V = 1\n"}
	}
	var out []pipe.Scenario
	for _, pick := range [][]int{{0}, {1}, {2}, {3}, {4}, {0, 1}, {0, 1, 2, 3, 4}} {
		m := pipe.Module{ModPath: "example.com/m", GoVer: "1.22", Pkgs: []pipe.Pkg{
			{Dir: "app", Name: "app", Imports: []string{"internal/conf"}, Types: []pipe.Type{{Name: "A", Enabled: on}}},
			{Dir: "internal/conf", Name: "conf", Types: []pipe.Type{{Name: "C", Enabled: on}}}},
			Files: []pipe.File{{Path: "internal/conf/zz_generated.retired.go", Content: "package conf\n\n// stale output\n"}}}
		for _, i := range pick {
			m.Ext = append(m.Ext, all[i])
			m.Pkgs[i%2].XImports = append(m.Pkgs[i%2].XImports, all[i].ModPath)
		}
		for _, allFlag := range []bool{true, false} {
			for _, entry := range [][]string{{"./app"}, {"./..."}} {
				if !allFlag && len(pick) > 1 && entry[0] == "./..." {
					continue
				}
				out = append(out, pipe.Scenario{Module: m, Entry: entry, All: allFlag, Base: "zz_generated", Gens: []pipe.Gen{{Name: "g1", Alias: true, Steps: steps}}})
			}
		}
	}
	return out
}

// files that start with a //line directive in front of the package clause (the layout goyacc and template-to-Go tools
// emit): the position of the package clause then names another file, the file on disk keeps its own name
func yaccFile(pkg, target string) string {
	return "// Code generated by a parser generator (stale output). DO NOT EDIT.\n\n//line " + target + ":1\npackage " + pkg + "\n"
}

func lineDirectiveCases() []pipe.Scenario {
	T := []pipe.Type{{Name: "T", Enabled: []string{"g1"}}}
	gens := []pipe.Gen{{Name: "g1", Steps: map[string]pipe.Step{"example.com/m/a T": {Body: "var V = 1\n"}}}}
	mod := func(files ...pipe.File) pipe.Module {
		return pipe.Module{ModPath: "example.com/m", GoVer: "1.22", Files: files,
			Pkgs: []pipe.Pkg{{Dir: "a", Name: "a", Types: T}, {Dir: "b", Name: "b", Types: []pipe.Type{{Name: "B", Enabled: []string{"g1"}}}}}}
	}
	var out []pipe.Scenario
	for _, all := range []bool{false, true} {
		// a stale <base>.*.go whose directive names a source of another name: still own output, removed
		out = append(out, pipe.Scenario{Module: mod(pipe.File{Path: "a/zz_generated.yacc.go", Content: yaccFile("a", "src.y")},
			pipe.File{Path: "a/zz_generated.tmpl.go", Content: yaccFile("a", "/abs/elsewhere/page.tmpl")}),
			Entry: []string{"./a"}, All: all, Base: "zz_generated", Gens: gens})
		// a user file whose directive names a <base>.* path elsewhere (a data file, the stale output of the unselected b)
		out = append(out, pipe.Scenario{Module: mod(pipe.File{Path: "a/gram.go", Content: yaccFile("a", "../data/zz_generated.tbl")},
			pipe.File{Path: "a/lex.go", Content: yaccFile("a", "../b/zz_generated.old.go")},
			pipe.File{Path: "data/zz_generated.tbl", Content: "table\n"},
			pipe.File{Path: "b/zz_generated.old.go", Content: "package b\n\n// stale output\n"}),
			Entry: []string{"./a"}, All: all, Base: "zz_generated", Gens: gens})
	}
	return out
}

// lineDirectives adds such files to a random scenario.
func lineDirectives(r *core.RNG, sc *pipe.Scenario) {
	m := &sc.Module
	add := func(path, content string) { m.Files = append(m.Files, pipe.File{Path: path, Content: content}) }
	up := func(dir string) string { // from dir back to the module root
		if dir == "" {
			return ""
		}
		return strings.Repeat("../", strings.Count(dir, "/")+1)
	}
	join := func(d, f string) string {
		if d == "" {
			return f
		}
		return d + "/" + f
	}
	data := false
	for _, p := range m.Pkgs {
		if r.Chance(30) {
			add(join(p.Dir, sc.Base+".yacc.go"), yaccFile(p.Name, core.Pick(r, []string{"src.y", "gram.y", sc.Base + "x.go", "/abs/elsewhere/page.tmpl"})))
		}
		if r.Chance(25) {
			// a user file pointing at a <base>.* path in another directory: a data file, or another package's output
			target := up(p.Dir) + "data/" + sc.Base + ".tbl"
			if q := core.Pick(r, m.Pkgs); q.Dir != p.Dir && r.Chance(50) {
				target = up(p.Dir) + join(q.Dir, sc.Base+".old.go")
				have := false
				for _, f := range m.Files {
					have = have || f.Path == join(q.Dir, sc.Base+".old.go")
				}
				if !have {
					add(join(q.Dir, sc.Base+".old.go"), "package "+q.Name+"\n\n// stale output\n")
				}
			} else {
				data = true
			}
			add(join(p.Dir, "gram.go"), yaccFile(p.Name, target))
		}
	}
	if data {
		add("data/"+sc.Base+".tbl", "table\n")
	}
}

// a requested package imports (directly and transitively) packages of the module that were NOT requested and have work
// to do: tagged types whose output is missing / outdated, stale <base>.* files.  Without All nothing below them may change.
func importChains() []pipe.Scenario {
	on := []string{"g1"}
	m := pipe.Module{ModPath: "example.com/m", GoVer: "1.22", Pkgs: []pipe.Pkg{
		{Dir: "app", Name: "app", Imports: []string{"dep"}, Types: []pipe.Type{{Name: "A", Enabled: on}}},
		{Dir: "dep", Name: "dep", Imports: []string{"dep/leaf"}, Types: []pipe.Type{{Name: "D", Enabled: on}}},
		{Dir: "dep/leaf", Name: "leaf", Types: []pipe.Type{{Name: "L", Enabled: on}}},
		{Dir: "other", Name: "other", Types: []pipe.Type{{Name: "O", Enabled: on}}}},
		Files: []pipe.File{
			{Path: "dep/zz_generated.old.go", Content: "package dep\n\n// stale output\n"},
			{Path: "dep/leaf/zz_generated.g1.go", Content: "package leaf\n\n// previous output of g1\n"},
			{Path: "other/zz_generated.old.go", Content: "package other\n\n// stale output\n"}}}
	steps := map[string]pipe.Step{}
	for _, k := range []string{"app A", "dep D", "dep/leaf L", "other O"} {
		steps["example.com/m/"+k] = pipe.Step{Body: "var V = 1\n"}
	}
	var out []pipe.Scenario
	for _, entry := range [][]string{{"./app"}, {"./dep"}, {"./app", "./dep"}, {"./dep/leaf", "./app"}, {"./app/..."}} {
		for _, force := range []bool{false, true} {
			out = append(out, pipe.Scenario{Module: m, Entry: entry, Force: force, Base: "zz_generated", Gens: []pipe.Gen{{Name: "g1", Steps: steps}}})
		}
	}
	out = append(out, pipe.Scenario{Module: m, Entry: []string{"./app"}, All: true, Base: "zz_generated", Gens: []pipe.Gen{{Name: "g1", Steps: steps}}})
	return out
}

// exhaustive small scope: one package, one type, one generator; every combination of
// {renders, renders nothing, ErrSkip, ErrIgnore rendering nothing, ErrIgnore after rendering, renders only in a deferred
// callback, ErrIgnore + renders only in a deferred callback} x {defined type, alias}
// x {previous file present/absent} x {stale file present/absent} x {All on/off}
func exhaustive() []pipe.Scenario {
	var out []pipe.Scenario
	steps := []pipe.Step{{Body: "var V = 1\n"}, {}, {Res: "skip"}, {Res: "ignore"}, {Res: "ignore", Body: "var W = 2\n"},
		// renders only from a callback registered with Context.Defer (collect in GenerateType, emit at the end)
		{Defers: []pipe.DeferStep{{Body: "var D = 3\n"}}}, {Res: "ignore", Defers: []pipe.DeferStep{{Body: "var D = 3\n"}}}}
	for _, st := range steps {
		for _, alias := range []bool{false, true} {
			for _, prev := range []bool{false, true} {
				for _, stale := range []bool{false, true} {
					for _, all := range []bool{false, true} {
						t := pipe.Type{Name: "T", Enabled: []string{"g1"}}
						if alias {
							t.Alias = "int"
						}
						m := pipe.Module{ModPath: "example.com/m", GoVer: "1.22", Pkgs: []pipe.Pkg{{Dir: "a", Name: "a", Types: []pipe.Type{t}}}}
						if prev {
							m.Files = append(m.Files, pipe.File{Path: "a/zz_generated.g1.go", Content: "package a\n\n// previous output of g1\n"})
						}
						if stale {
							m.Files = append(m.Files, pipe.File{Path: "a/zz_generated.old.go", Content: "package a\n\n// stale output\n"},
								pipe.File{Path: "a/zz_generatedx.go", Content: "package a\n\n// look-alike\n"})
						}
						out = append(out, pipe.Scenario{Module: m, Entry: []string{"./a"}, All: all, Base: "zz_generated",
							Gens: []pipe.Gen{{Name: "g1", Alias: true, Steps: map[string]pipe.Step{"example.com/m/a T": st}}}})
					}
				}
			}
		}
	}
	return out
}

func (prop) Generate(r *core.RNG, tier string) []json.RawMessage {
	n := 120
	if tier == "thorough" {
		n = 1500
	}
	var out []json.RawMessage
	for _, sc := range corner() {
		out = append(out, enc(sc))
	}
	for _, sc := range exhaustive() {
		out = append(out, enc(sc))
	}
	for i := 0; i < n; i++ {
		sc := pipe.RandScenario(r, pipe.Opts{Faults: true, FaultShare: 12})
		if r.Chance(35) {
			lineDirectives(r, &sc)
		}
		if r.Chance(25) {
			pipe.AddForeign(r, &sc)
			if r.Chance(40) {
				pipe.MakeWorkspace(r, &sc)
				if r.Chance(25) {
					pipe.EnterMember(r, &sc)
				}
			}
		} else if r.Chance(25) {
			rootImported(r, &sc)
		}
		out = append(out, enc(sc))
	}
	return out
}

func (prop) Run(in json.RawMessage, scratch string) core.Result {
	var sc pipe.Scenario
	var res core.Result
	if err := json.Unmarshal(in, &sc); err != nil {
		res.Tags = []string{"bad-input"}
		return res
	}
	obs, err := pipe.RunScenario(sc, scratch)
	if err != nil {
		res.Notes = append(res.Notes, "harness: "+err.Error())
		res.Tags = []string{"harness-error"}
		return res
	}
	sum := obs.Summary()
	res.Observed = sum
	if obs.Run.TimedOut {
		res.GoViolations = append(res.GoViolations, "Execute did not return within the time limit")
		return res
	}
	if obs.Run.World == nil || sum.Outcome == "load-error" {
		res.Tags = []string{"module-does-not-load"}
		res.Notes = append(res.Notes, "synthetic module rejected by the loader: "+sum.Err+obs.Run.Stderr)
		return res
	}
	// "selected" is decided from the entrypoint patterns of the scenario, not taken from gengo's loader: the loader's
	// direct flag is part of the code under test (pkg/types/load.go feeds the `!All && !direct` skip of Execute)
	loaderWorld := obs.Run.World
	// likewise "a package of the run" (selected directly or through All) is a package of the module the run was started
	// in: which module a package belongs to is decided from the go.mod files of the scenario, not by the loader's "local" set
	// (in a go.work workspace the entrypoints may lie in another member than the one the run was started in: then THAT
	// member is the module of the run, and gengo.sum belongs into its root)
	if _, one := sc.RunModule(); !one {
		res.Tags = []string{"entrypoints-in-several-modules"}
		res.Notes = append(res.Notes, "the entrypoints name packages of more than one module: the statement's \"the module root\" is not unique; not judged")
		return res
	}
	ownWorld, foreign := pipe.RunWorld(loaderWorld, &sc)
	if len(foreign) > 0 {
		res.Notes = append(res.Notes, "the loader reports packages of another module as local to the run: "+strings.Join(foreign, ", "))
	}
	reqWorld, differ := pipe.RequestedWorld(ownWorld, sc.Entry)
	obs.Run.World = reqWorld
	if len(differ) > 0 {
		res.Notes = append(res.Notes, "the loader's direct flag differs from the entrypoint patterns for: "+strings.Join(differ, ", "))
	}
	res.GoViolations = append(res.GoViolations, lostDeferred(sc, obs, sum)...)
	res.Coq = "(mk_case " + obs.CoqRunFields(sc) + ")"
	res.Tags = tags(sc, obs, sum)
	res.Nontrivial = sum.Calls > 0 && len(sc.Module.Files) > 0
	return res
}

// lostDeferred: "a generator's file exists afterwards iff that generator rendered something" counts what the generator
// renders from the callbacks it registered with Context.Defer.  The trace only shows callbacks that were invoked, so
// this oracle takes the registrations from the scripts: in a run that succeeded, every callback registered by a logged
// GenerateType call must have been invoked (logged); one that renders something and never ran means the generator's
// output was dropped (its file is missing or was removed as stale).
func lostDeferred(sc pipe.Scenario, obs *pipe.Observation, sum pipe.Summary) []string {
	if sum.Outcome != "done" {
		return nil
	}
	scripts := map[string]pipe.Gen{}
	for _, g := range sc.Gens {
		scripts[g.Name] = g
	}
	ran := map[string]int{} // "<gen> <pkg> <body>" -> invocations
	for _, e := range obs.Run.Events {
		if e.Defer {
			ran[e.Gen+" "+e.Pkg+" "+e.Body]++
		}
	}
	var out []string
	for _, e := range obs.Run.Events {
		if e.Defer {
			continue
		}
		for _, d := range scripts[e.Gen].Steps[e.Pkg+" "+e.Type].Defers {
			k := e.Gen + " " + e.Pkg + " " + d.Body
			if ran[k] > 0 {
				ran[k]--
				continue
			}
			if d.Body != "" {
				out = append(out, fmt.Sprintf("generator %s registered a callback with Context.Defer while generating %s.%s that renders %d bytes; Execute returned nil but the callback was never invoked: what the generator renders is lost (its file is missing or was removed as stale)",
					e.Gen, e.Pkg, e.Type, len(d.Body)))
			}
		}
	}
	return out
}

func tags(sc pipe.Scenario, obs *pipe.Observation, sum pipe.Summary) []string {
	t := []string{"outcome:" + sum.Outcome}
	if sc.All {
		t = append(t, "all")
	} else {
		t = append(t, "not-all")
	}
	if sc.Module.HasSum {
		t = append(t, "sum-present")
	}
	if sc.Force {
		t = append(t, "force")
	}
	seen := map[string]bool{}
	for _, f := range sc.Module.Files {
		b := f.Path[strings.LastIndex(f.Path, "/")+1:]
		k := ""
		switch {
		case strings.Contains(f.Content, "\n//line ") && strings.HasPrefix(b, sc.Base+"."):
			k = "stale-output-with-line-directive"
		case strings.Contains(f.Content, "\n//line "):
			k = "user-file-with-line-directive-to-a-base-path"
		case strings.HasPrefix(b, sc.Base+".") && strings.HasSuffix(b, ".go") && strings.Contains(f.Content, "previous"):
			k = "previous-output"
		case strings.HasPrefix(b, sc.Base+".") && strings.Contains(f.Content, "stale"):
			k = "stale-output"
		case strings.HasPrefix(b, sc.Base+".") && strings.Contains(f.Content, "go:build ignore"):
			k = "build-ignored-base-file"
		case strings.HasPrefix(b, sc.Base+"."):
			k = "non-go-base-file"
		case strings.HasPrefix(b, sc.Base):
			k = "look-alike"
		case strings.HasPrefix(f.Path, "lonely/"):
			k = "unselected-package"
		default:
			k = "user-file"
		}
		if !seen[k] {
			seen[k] = true
			t = append(t, "file:"+k)
		}
	}
	kinds := map[string]bool{}
	for _, e := range obs.Run.Events {
		k := "renders"
		if e.Body == "" {
			k = "renders-nothing"
		}
		if e.Res != "" {
			k = e.Res
			if e.Body == "" && (e.Res == "ignore" || e.Res == "ignorew") {
				k = "ignore-empty"
			}
		}
		if e.Defer {
			k = "defer:" + k
		}
		kinds[k] = true
	}
	for k := range kinds {
		t = append(t, "gen:"+k)
	}
	direct, deferred := map[string]bool{}, map[string]bool{} // "<gen> <pkg>" that rendered in GenerateType / in a callback
	for _, e := range obs.Run.Events {
		if e.Body != "" {
			if e.Defer {
				deferred[e.Gen+" "+e.Pkg] = true
			} else {
				direct[e.Gen+" "+e.Pkg] = true
			}
		}
	}
	for k := range deferred {
		if !direct[k] {
			t = append(t, "gen:renders-only-in-deferred-callbacks")
			break
		}
	}
	for _, v := range sum.Changed {
		if !seen["chg:"+v] {
			seen["chg:"+v] = true
			t = append(t, "tree:"+v)
		}
	}
	if len(obs.Run.World.Pkgs) > 1 {
		t = append(t, "multi-package")
	}
	for _, x := range sc.Module.Ext {
		where, how := "nested", "unrelated-path"
		if strings.HasPrefix(x.Dir, "../") {
			where = "sibling"
		}
		switch {
		case strings.HasPrefix(x.ModPath, sc.Module.ModPath+"/"):
			how = "path-extends-at-slash"
		case strings.HasPrefix(x.ModPath, sc.Module.ModPath):
			how = "path-extends-last-element"
		}
		imported := false
		for _, p := range sc.Module.Pkgs {
			for _, im := range p.XImports {
				imported = imported || im == x.ModPath || strings.HasPrefix(im, x.ModPath+"/")
			}
		}
		if k := "other-module:" + where + ":" + how; !seen[k] {
			seen[k] = true
			t = append(t, k)
		}
		if imported && !seen["other-module:imported"] {
			seen["other-module:imported"] = true
			t = append(t, "other-module:imported")
		}
	}
	if sc.Module.Work != "" {
		k := "workspace:go.work-in-" + sc.Module.WorkPlace()
		if sc.Module.WorkNoRequire() {
			k += ",no-require-lines"
		}
		t = append(t, k, fmt.Sprintf("workspace:%d-members", 1+len(sc.Module.Ext)))
		if run, _ := sc.RunModule(); run != nil {
			t = append(t, "workspace:entrypoints-in-another-member")
		}
		for _, x := range sc.Module.Ext {
			for _, p := range x.Pkgs {
				if len(p.XImports) > 0 {
					t = append(t, "workspace:member-imports-member")
				}
			}
		}
	}
	names := map[string]bool{}
	for _, g := range sc.Gens {
		names[g.Name] = true
	}
	unsel, work := false, false
	for _, p := range obs.Run.World.Pkgs { // Direct = requested by the entrypoint patterns (see Run)
		if p.Direct {
			continue
		}
		unsel = true
		for _, ty := range p.Types {
			for k := range ty.Tags { // distribution tag only: a gengo:<g>[:sub] tag of one of the run's generators
				g := strings.TrimPrefix(k, "gengo:")
				if i := strings.IndexByte(g, ':'); i >= 0 {
					g = g[:i]
				}
				work = work || names[g]
			}
		}
		for _, f := range p.Files {
			work = work || strings.HasPrefix(f, sc.Base+".")
		}
	}
	if unsel {
		t = append(t, "imports-unrequested-package")
	}
	if work && !sc.All {
		t = append(t, "unrequested-import-has-work(not-all)")
	}
	for _, p := range obs.Run.World.Pkgs {
		if p.Dir != "" || p.Direct {
			continue
		}
		k := "root-package:unrequested"
		for _, q := range sc.Module.Pkgs {
			for _, im := range q.Imports {
				if im == "" && pipe.Requested(sc.Entry, q.Dir) {
					k = "root-package:unrequested,imported-by-requested"
				}
			}
		}
		if !sc.All {
			k += "(not-all)"
		}
		t = append(t, k)
	}
	return t
}

func (prop) Shrink(in json.RawMessage) []json.RawMessage {
	var sc pipe.Scenario
	if json.Unmarshal(in, &sc) != nil {
		return nil
	}
	var out []json.RawMessage
	for _, c := range pipe.ShrinkScenario(sc) {
		out = append(out, enc(c))
	}
	return out
}

// the module ROOT directory is itself a package (package path == module path).  It is NOT requested; the requested
// sub-package(s) import it (directly / transitively) or do not import it at all.  It has work to do: tagged types whose
// output is missing or outdated, stale <base>.* files, look-alikes.  Without All nothing in the root directory (nor in the
// other unrequested packages) may change; with All, or when "." is among the patterns, it is processed like any other.
func rootPackage() []pipe.Scenario {
	on := []string{"g1"}
	var out []pipe.Scenario
	for _, modPath := range []string{"example.com/m", "m.test/mod/v2"} {
		for layout := 0; layout < 4; layout++ {
			root := pipe.Pkg{Dir: "", Name: "root", Types: []pipe.Type{{Name: "R", Enabled: on}, {Name: "RA", Alias: "int", Enabled: on}}}
			sub := pipe.Pkg{Dir: "sub", Name: "sub", Types: []pipe.Type{{Name: "S", Enabled: on}}}
			mid := pipe.Pkg{Dir: "mid", Name: "mid", Types: []pipe.Type{{Name: "M", Enabled: on}}}
			other := pipe.Pkg{Dir: "other", Name: "other", Types: []pipe.Type{{Name: "O", Enabled: on}}}
			deep := pipe.Pkg{Dir: "sub/deep", Name: "deep", Imports: []string{"sub"}, Types: []pipe.Type{{Name: "D", Enabled: on}}}
			switch layout {
			case 0: // sub -> root, sub -> other
				sub.Imports = []string{"", "other"}
			case 1: // sub -> mid -> root
				sub.Imports, mid.Imports = []string{"mid"}, []string{""}
			case 2: // nobody imports the root package; sub -> other
				sub.Imports = []string{"other"}
			case 3: // sub -> root, root's previous output is up to date apart from the stale files
				sub.Imports = []string{""}
			}
			m := pipe.Module{ModPath: modPath, GoVer: "1.22", Pkgs: []pipe.Pkg{root, sub, mid, other, deep}, Files: []pipe.File{
				{Path: "zz_generated.old.go", Content: "package root\n\n// stale output\n"},
				{Path: "zz_generatedx.go", Content: "package root\n\n// look-alike\n"},
				{Path: "other/zz_generated.old.go", Content: "package other\n\n// stale output\n"},
				{Path: "mid/zz_generated.g1.go", Content: "package mid\n\n// previous output of g1\n"}}}
			if layout == 3 {
				m.Files = append(m.Files, pipe.File{Path: "zz_generated.g1.go", Content: "package root\n\n// previous output of g1\n"})
			}
			steps := map[string]pipe.Step{}
			for _, k := range []string{" R", " RA", "/sub S", "/mid M", "/other O", "/sub/deep D"} {
				steps[modPath+k] = pipe.Step{Body: "var V" + k[strings.LastIndex(k, " ")+1:] + " = 1\n"}
			}
			gens := []pipe.Gen{{Name: "g1", Alias: true, Steps: steps}}
			entries := [][]string{{"./sub"}, {"./sub/..."}, {"./sub/deep"}, {"./sub", "./other"}}
			if layout == 1 {
				entries = [][]string{{"./sub"}, {"./mid"}, {"./sub", "./mid"}}
			}
			for _, entry := range entries {
				out = append(out, pipe.Scenario{Module: m, Entry: entry, Force: layout == 3, Base: "zz_generated", Gens: gens})
			}
			if modPath == "example.com/m" {
				// controls: the root package IS selected (All / "." / "./...")
				out = append(out, pipe.Scenario{Module: m, Entry: []string{"./sub"}, All: true, Base: "zz_generated", Gens: gens},
					pipe.Scenario{Module: m, Entry: []string{".", "./sub"}, Base: "zz_generated", Gens: gens},
					pipe.Scenario{Module: m, Entry: []string{"./..."}, Base: "zz_generated", Gens: gens})
			}
		}
	}
	return out
}

// rootImported turns a random scenario into one whose module root is a package that the requested packages import but
// that is not requested itself (c07 only; the shared RandScenario stream never has an import edge INTO the root package,
// because its edges go forwards in directory order and "" sorts first).
func rootImported(r *core.RNG, sc *pipe.Scenario) {
	m := &sc.Module
	if len(m.Ext) > 0 {
		return
	}
	names := []string{}
	for _, g := range sc.Gens {
		names = append(names, g.Name)
	}
	ri := -1
	for i, p := range m.Pkgs {
		if p.Dir == "" {
			ri = i
		}
	}
	if ri < 0 {
		p := pipe.Pkg{Dir: "", Name: "root"}
		for k := 0; k < 1+r.Intn(2); k++ {
			t := pipe.Type{Name: fmt.Sprintf("R%d", k), Enabled: append([]string{}, names...)}
			if r.Chance(30) {
				t.Alias = "int"
			}
			p.Types = append(p.Types, t)
			for gi := range sc.Gens {
				if sc.Gens[gi].Steps == nil {
					sc.Gens[gi].Steps = map[string]pipe.Step{}
				}
				st := pipe.Step{}
				if r.Chance(70) {
					st.Body = "var V_" + sc.Gens[gi].Name + "_" + t.Name + " = 1\n"
				}
				sc.Gens[gi].Steps[m.ModPath+" "+t.Name] = st
			}
		}
		m.Pkgs = append([]pipe.Pkg{p}, m.Pkgs...)
		ri = 0
		if r.Chance(60) {
			m.Files = append(m.Files, pipe.File{Path: sc.Base + ".old.go", Content: "package root\n\n// stale output\n"})
		}
		if r.Chance(40) && len(names) > 0 {
			m.Files = append(m.Files, pipe.File{Path: sc.Base + "." + names[0] + ".go", Content: "package root\n\n// previous output of " + names[0] + "\n"})
		}
		if r.Chance(40) {
			m.Files = append(m.Files, pipe.File{Path: sc.Base + "x.go", Content: "package root\n\n// look-alike x\n"})
		}
	}
	if len(m.Pkgs) < 2 {
		m.Pkgs = append(m.Pkgs, pipe.Pkg{Dir: "sub", Name: "sub", Types: []pipe.Type{{Name: "S", Enabled: append([]string{}, names...)}}})
	}
	// edges INTO the root package instead of out of it
	m.Pkgs[ri].Imports = nil
	var subs []string
	some := false
	for i := range m.Pkgs {
		if i == ri {
			continue
		}
		subs = append(subs, m.Pkgs[i].Dir)
		if r.Chance(60) {
			m.Pkgs[i].Imports = append(m.Pkgs[i].Imports, "")
			some = true
		}
	}
	if !some && r.Chance(80) {
		for i := range m.Pkgs {
			if i != ri {
				m.Pkgs[i].Imports = append(m.Pkgs[i].Imports, "")
				break
			}
		}
	}
	sc.Entry = []string{"./" + core.Pick(r, subs)}
	if r.Chance(30) {
		if e := "./" + core.Pick(r, subs); e != sc.Entry[0] {
			sc.Entry = append(sc.Entry, e)
		}
	}
	sc.All = r.Chance(15)
}
