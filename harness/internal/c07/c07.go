// Package c07: gengo only touches its own output files.  Synthetic modules with user files, look-alike names,
// stale outputs, non-Go and build-ignored <base>.* files and unselected packages are run through the real
// gengo.Execute (fresh child process, scripted generators registered with gengo.Register); the tree is
// snapshotted before and after.
package c07

import (
	"encoding/json"
	"strings"

	"verifharness/internal/core"
	"verifharness/internal/pipe"
)

type prop struct{}

func init() { core.Register(prop{}) }

func (prop) ID() string        { return "C07" }
func (prop) CoqModule() string { return "Gengo.Corr.C07" }
func (prop) Parallel() int     { return 8 }

func enc(sc pipe.Scenario) json.RawMessage {
	b, _ := json.Marshal(sc)
	return b
}

// fixed corner cases (also kept in corpus/C07)
func corner() []pipe.Scenario {
	mod := func(types []pipe.Type, files ...pipe.File) pipe.Module {
		return pipe.Module{ModPath: "example.com/m", GoVer: "1.22", Pkgs: []pipe.Pkg{{Dir: "a", Name: "a", Types: types}}, Files: files}
	}
	prev := func(g string) pipe.File {
		return pipe.File{Path: "a/zz_generated." + g + ".go", Content: "package a\n\n// previous output of " + g + "\n"}
	}
	T := []pipe.Type{{Name: "T", Enabled: []string{"g1", "al"}}}
	U := []pipe.Type{{Name: "U", Alias: "int", Enabled: []string{"al"}}}
	step := func(k string, s pipe.Step) map[string]pipe.Step {
		return map[string]pipe.Step{"example.com/m/a " + k: s}
	}
	var out []pipe.Scenario
	// ErrIgnore from GenerateType, nothing rendered, previous file present: kept
	out = append(out, pipe.Scenario{Module: mod(T, prev("g1")), Entry: []string{"./a"}, Base: "zz_generated",
		Gens: []pipe.Gen{{Name: "g1", Steps: step("T", pipe.Step{Res: "ignore"})}}})
	// the same through GenerateAliasType (defect #26 before the repair: the file was removed)
	out = append(out, pipe.Scenario{Module: mod(U, prev("al")), Entry: []string{"./a"}, Base: "zz_generated",
		Gens: []pipe.Gen{{Name: "al", Alias: true, Steps: step("U", pipe.Step{Res: "ignore"})}}})
	// ErrIgnore without a previous file: no file appears
	out = append(out, pipe.Scenario{Module: mod(U), Entry: []string{"./a"}, Base: "zz_generated",
		Gens: []pipe.Gen{{Name: "al", Alias: true, Steps: step("U", pipe.Step{Res: "ignorew"})}}})
	// renders nothing: previous file removed; stale and look-alike files
	out = append(out, pipe.Scenario{Module: mod(T, prev("g1"), prev("old"),
		pipe.File{Path: "a/zz_generatedx.go", Content: "package a\n"}, pipe.File{Path: "a/zz_generated.go", Content: "package a\n"},
		pipe.File{Path: "a/zz_generated.txt", Content: "x"}), Entry: []string{"./a"}, Base: "zz_generated",
		Gens: []pipe.Gen{{Name: "g1", Steps: step("T", pipe.Step{})}}})
	// base name "gengo": gengo.sum itself has the prefix "gengo."
	out = append(out, pipe.Scenario{Module: pipe.Module{ModPath: "example.com/m", GoVer: "1.22",
		Pkgs:   []pipe.Pkg{{Dir: "", Name: "root", Types: []pipe.Type{{Name: "T", Enabled: []string{"g1"}}}}},
		HasSum: true, SumJunk: "example.com/m h1:old=\n"}, Entry: []string{"."}, Base: "gengo",
		Gens: []pipe.Gen{{Name: "g1", Steps: map[string]pipe.Step{"example.com/m T": {Body: "var V = 1\n"}}}}})
	out = append(out, importChains()...)
	return out
}

// a requested package imports (directly and transitively) packages of the module that were NOT requested and have work
// to do: tagged types whose output is missing / outdated, stale <base>.* files.  Without All nothing below them may change.
func importChains() []pipe.Scenario {
	on := []string{"g1"}
	m := pipe.Module{ModPath: "example.com/m", GoVer: "1.22", Pkgs: []pipe.Pkg{
		{Dir: "app", Name: "app", Imports: []string{"dep"}, Types: []pipe.Type{{Name: "A", Enabled: on}}},
		{Dir: "dep", Name: "dep", Imports: []string{"dep/leaf"}, Types: []pipe.Type{{Name: "D", Enabled: on}}},
		{Dir: "dep/leaf", Name: "leaf", Types: []pipe.Type{{Name: "L", Enabled: on}}},
		{Dir: "other", Name: "other", Types: []pipe.Type{{Name: "O", Enabled: on}}}},
		Files: []pipe.File{
			{Path: "dep/zz_generated.old.go", Content: "package dep\n\n// stale output\n"},
			{Path: "dep/leaf/zz_generated.g1.go", Content: "package leaf\n\n// previous output of g1\n"},
			{Path: "other/zz_generated.old.go", Content: "package other\n\n// stale output\n"}}}
	steps := map[string]pipe.Step{}
	for _, k := range []string{"app A", "dep D", "dep/leaf L", "other O"} {
		steps["example.com/m/"+k] = pipe.Step{Body: "var V = 1\n"}
	}
	var out []pipe.Scenario
	for _, entry := range [][]string{{"./app"}, {"./dep"}, {"./app", "./dep"}, {"./dep/leaf", "./app"}, {"./app/..."}} {
		for _, force := range []bool{false, true} {
			out = append(out, pipe.Scenario{Module: m, Entry: entry, Force: force, Base: "zz_generated", Gens: []pipe.Gen{{Name: "g1", Steps: steps}}})
		}
	}
	out = append(out, pipe.Scenario{Module: m, Entry: []string{"./app"}, All: true, Base: "zz_generated", Gens: []pipe.Gen{{Name: "g1", Steps: steps}}})
	return out
}

// exhaustive small scope: one package, one type, one generator; every combination of
// {renders, renders nothing, ErrSkip, ErrIgnore rendering nothing, ErrIgnore after rendering} x {defined type, alias}
// x {previous file present/absent} x {stale file present/absent} x {All on/off}
func exhaustive() []pipe.Scenario {
	var out []pipe.Scenario
	steps := []pipe.Step{{Body: "var V = 1\n"}, {}, {Res: "skip"}, {Res: "ignore"}, {Res: "ignore", Body: "var W = 2\n"}}
	for _, st := range steps {
		for _, alias := range []bool{false, true} {
			for _, prev := range []bool{false, true} {
				for _, stale := range []bool{false, true} {
					for _, all := range []bool{false, true} {
						t := pipe.Type{Name: "T", Enabled: []string{"g1"}}
						if alias {
							t.Alias = "int"
						}
						m := pipe.Module{ModPath: "example.com/m", GoVer: "1.22", Pkgs: []pipe.Pkg{{Dir: "a", Name: "a", Types: []pipe.Type{t}}}}
						if prev {
							m.Files = append(m.Files, pipe.File{Path: "a/zz_generated.g1.go", Content: "package a\n\n// previous output of g1\n"})
						}
						if stale {
							m.Files = append(m.Files, pipe.File{Path: "a/zz_generated.old.go", Content: "package a\n\n// stale output\n"},
								pipe.File{Path: "a/zz_generatedx.go", Content: "package a\n\n// look-alike\n"})
						}
						out = append(out, pipe.Scenario{Module: m, Entry: []string{"./a"}, All: all, Base: "zz_generated",
							Gens: []pipe.Gen{{Name: "g1", Alias: true, Steps: map[string]pipe.Step{"example.com/m/a T": st}}}})
					}
				}
			}
		}
	}
	return out
}

func (prop) Generate(r *core.RNG, tier string) []json.RawMessage {
	n := 120
	if tier == "thorough" {
		n = 1500
	}
	var out []json.RawMessage
	for _, sc := range corner() {
		out = append(out, enc(sc))
	}
	for _, sc := range exhaustive() {
		out = append(out, enc(sc))
	}
	for i := 0; i < n; i++ {
		out = append(out, enc(pipe.RandScenario(r, pipe.Opts{Faults: true, FaultShare: 12})))
	}
	return out
}

func (prop) Run(in json.RawMessage, scratch string) core.Result {
	var sc pipe.Scenario
	var res core.Result
	if err := json.Unmarshal(in, &sc); err != nil {
		res.Tags = []string{"bad-input"}
		return res
	}
	obs, err := pipe.RunScenario(sc, scratch)
	if err != nil {
		res.Notes = append(res.Notes, "harness: "+err.Error())
		res.Tags = []string{"harness-error"}
		return res
	}
	sum := obs.Summary()
	res.Observed = sum
	if obs.Run.TimedOut {
		res.GoViolations = append(res.GoViolations, "Execute did not return within the time limit")
		return res
	}
	if obs.Run.World == nil || sum.Outcome == "load-error" {
		res.Tags = []string{"module-does-not-load"}
		res.Notes = append(res.Notes, "synthetic module rejected by the loader: "+sum.Err+obs.Run.Stderr)
		return res
	}
	// "selected" is decided from the entrypoint patterns of the scenario, not taken from gengo's loader: the loader's
	// direct flag is part of the code under test (pkg/types/load.go feeds the `!All && !direct` skip of Execute)
	loaderWorld := obs.Run.World
	reqWorld, differ := pipe.RequestedWorld(loaderWorld, sc.Entry)
	obs.Run.World = reqWorld
	if len(differ) > 0 {
		res.Notes = append(res.Notes, "the loader's direct flag differs from the entrypoint patterns for: "+strings.Join(differ, ", "))
	}
	res.Coq = "(mk_case " + obs.CoqRunFields(sc) + ")"
	res.Tags = tags(sc, obs, sum)
	res.Nontrivial = sum.Calls > 0 && len(sc.Module.Files) > 0
	return res
}

func tags(sc pipe.Scenario, obs *pipe.Observation, sum pipe.Summary) []string {
	t := []string{"outcome:" + sum.Outcome}
	if sc.All {
		t = append(t, "all")
	} else {
		t = append(t, "not-all")
	}
	if sc.Module.HasSum {
		t = append(t, "sum-present")
	}
	if sc.Force {
		t = append(t, "force")
	}
	seen := map[string]bool{}
	for _, f := range sc.Module.Files {
		b := f.Path[strings.LastIndex(f.Path, "/")+1:]
		k := ""
		switch {
		case strings.HasPrefix(b, sc.Base+".") && strings.HasSuffix(b, ".go") && strings.Contains(f.Content, "previous"):
			k = "previous-output"
		case strings.HasPrefix(b, sc.Base+".") && strings.Contains(f.Content, "stale"):
			k = "stale-output"
		case strings.HasPrefix(b, sc.Base+".") && strings.Contains(f.Content, "go:build ignore"):
			k = "build-ignored-base-file"
		case strings.HasPrefix(b, sc.Base+"."):
			k = "non-go-base-file"
		case strings.HasPrefix(b, sc.Base):
			k = "look-alike"
		case strings.HasPrefix(f.Path, "lonely/"):
			k = "unselected-package"
		default:
			k = "user-file"
		}
		if !seen[k] {
			seen[k] = true
			t = append(t, "file:"+k)
		}
	}
	kinds := map[string]bool{}
	for _, e := range obs.Run.Events {
		k := "renders"
		if e.Body == "" {
			k = "renders-nothing"
		}
		if e.Res != "" {
			k = e.Res
			if e.Body == "" && (e.Res == "ignore" || e.Res == "ignorew") {
				k = "ignore-empty"
			}
		}
		if e.Defer {
			k = "defer:" + k
		}
		kinds[k] = true
	}
	for k := range kinds {
		t = append(t, "gen:"+k)
	}
	for _, v := range sum.Changed {
		if !seen["chg:"+v] {
			seen["chg:"+v] = true
			t = append(t, "tree:"+v)
		}
	}
	if len(obs.Run.World.Pkgs) > 1 {
		t = append(t, "multi-package")
	}
	names := map[string]bool{}
	for _, g := range sc.Gens {
		names[g.Name] = true
	}
	unsel, work := false, false
	for _, p := range obs.Run.World.Pkgs { // Direct = requested by the entrypoint patterns (see Run)
		if p.Direct {
			continue
		}
		unsel = true
		for _, ty := range p.Types {
			for _, g := range ty.Enabled {
				work = work || names[g]
			}
		}
		for _, f := range p.Files {
			work = work || strings.HasPrefix(f, sc.Base+".")
		}
	}
	if unsel {
		t = append(t, "imports-unrequested-package")
	}
	if work && !sc.All {
		t = append(t, "unrequested-import-has-work(not-all)")
	}
	return t
}

func (prop) Shrink(in json.RawMessage) []json.RawMessage {
	var sc pipe.Scenario
	if json.Unmarshal(in, &sc) != nil {
		return nil
	}
	var out []json.RawMessage
	for _, c := range pipe.ShrinkScenario(sc) {
		out = append(out, enc(c))
	}
	return out
}
