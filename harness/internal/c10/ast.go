package c10

import (
	"fmt"
	"go/ast"
	"go/parser"
	"go/token"
	"math/big"
	"strconv"

	"verifharness/internal/core"
)

// reading of the rendered text by go/parser, as a term of the Coq type [lit]
type reader struct {
	self    string            // package the text is generated into
	locals  map[string]string // local name -> import path (registered imports)
	nums    map[string]bool   // numeric tokens (with sign) seen
	used    map[string]bool   // package qualifiers used
	unknown []string          // qualifiers that are not registered
}

var builtinTypes = map[string]bool{
	"bool": true, "string": true, "int": true, "int8": true, "int16": true, "int32": true, "int64": true,
	"uint": true, "uint8": true, "uint16": true, "uint32": true, "uint64": true, "uintptr": true,
	"float32": true, "float64": true, "complex64": true, "complex128": true, "any": true, "error": true,
	"byte": true, "rune": true,
}

func parseLit(text, self string, imports map[string]string) (term string, ok bool, rd *reader) {
	rd = &reader{self: self, locals: map[string]string{}, nums: map[string]bool{}, used: map[string]bool{}}
	for path, local := range imports {
		rd.locals[local] = path
	}
	e, err := parser.ParseExpr(text)
	if err != nil {
		return "", false, rd
	}
	return rd.lit(e), true, rd
}

func (r *reader) num(sign string, b *ast.BasicLit) string {
	txt := b.Value
	if b.Kind == token.INT {
		if z, ok := new(big.Int).SetString(txt, 0); ok { // Go literal syntax -> decimal
			txt = z.String()
		}
	}
	txt = sign + txt
	r.nums[txt] = true
	return "(LNum " + core.Hex(txt) + ")"
}

func (r *reader) lit(e ast.Expr) string {
	switch x := e.(type) {
	case *ast.BasicLit:
		switch x.Kind {
		case token.INT, token.FLOAT:
			return r.num("", x)
		case token.CHAR:
			if len(x.Value) >= 2 {
				if c, _, _, err := strconv.UnquoteChar(x.Value[1:len(x.Value)-1], '\''); err == nil {
					return fmt.Sprintf("(LChar %d%%Z)", c)
				}
			}
		case token.STRING:
			if s, err := strconv.Unquote(x.Value); err == nil {
				return "(LStr " + core.Hex(s) + ")"
			}
		}
		return "LOther"
	case *ast.Ident:
		switch x.Name {
		case "true":
			return "(LBool true)"
		case "false":
			return "(LBool false)"
		case "nil":
			return "LNil"
		}
		return "LOther"
	case *ast.UnaryExpr:
		switch x.Op {
		case token.SUB:
			if b, ok := x.X.(*ast.BasicLit); ok && (b.Kind == token.INT || b.Kind == token.FLOAT) {
				return r.num("-", b)
			}
		case token.AND:
			inner := x.X
			if p, ok := inner.(*ast.ParenExpr); ok {
				inner = p.X
			}
			return "(LAddr " + r.lit(inner) + ")"
		}
		return "LOther"
	case *ast.CallExpr:
		// func(v T) *T { return &v }(arg)
		fl, ok := x.Fun.(*ast.FuncLit)
		if !ok || len(x.Args) != 1 || x.Ellipsis.IsValid() {
			return "LOther"
		}
		ft := fl.Type
		if ft.TypeParams != nil || ft.Params == nil || len(ft.Params.List) != 1 || len(ft.Params.List[0].Names) != 1 ||
			ft.Results == nil || len(ft.Results.List) != 1 || len(ft.Results.List[0].Names) != 0 {
			return "LOther"
		}
		pname := ft.Params.List[0].Names[0].Name
		star, ok := ft.Results.List[0].Type.(*ast.StarExpr)
		if !ok || fl.Body == nil || len(fl.Body.List) != 1 {
			return "LOther"
		}
		ret, ok := fl.Body.List[0].(*ast.ReturnStmt)
		if !ok || len(ret.Results) != 1 {
			return "LOther"
		}
		un, ok := ret.Results[0].(*ast.UnaryExpr)
		if !ok || un.Op != token.AND {
			return "LOther"
		}
		id, ok := un.X.(*ast.Ident)
		if !ok || id.Name != pname {
			return "LOther"
		}
		t1, t2 := r.ty(ft.Params.List[0].Type), r.ty(star.X)
		if t1 != t2 {
			return "LOther"
		}
		return "(LPtrClosure " + t1 + " " + r.lit(x.Args[0]) + ")"
	case *ast.CompositeLit:
		if x.Type == nil {
			return "LOther"
		}
		var es []string
		for _, el := range x.Elts {
			if kv, ok := el.(*ast.KeyValueExpr); ok {
				k := ""
				if id, ok := kv.Key.(*ast.Ident); ok && id.Name != "true" && id.Name != "false" && id.Name != "nil" {
					k = "(LKField " + core.Hex(id.Name) + ")"
				} else {
					k = r.lit(kv.Key)
				}
				es = append(es, "("+k+", "+r.lit(kv.Value)+")")
			} else {
				es = append(es, "(LKNone, "+r.lit(el)+")")
			}
		}
		return "(LComposite " + r.ty(x.Type) + " " + core.CoqList(es) + ")"
	}
	return "LOther"
}

func (r *reader) ty(e ast.Expr) string {
	switch x := e.(type) {
	case *ast.Ident:
		if builtinTypes[x.Name] {
			return "(YName [] " + core.Hex(x.Name) + ")"
		}
		return "(YName " + core.Hex(r.self) + " " + core.Hex(x.Name) + ")"
	case *ast.SelectorExpr:
		if id, ok := x.X.(*ast.Ident); ok {
			r.used[id.Name] = true
			path, ok := r.locals[id.Name]
			if !ok {
				r.unknown = append(r.unknown, id.Name)
				path = "?unregistered:" + id.Name
			}
			return "(YName " + core.Hex(path) + " " + core.Hex(x.Sel.Name) + ")"
		}
	case *ast.StarExpr:
		return "(YPtr " + r.ty(x.X) + ")"
	case *ast.ArrayType:
		if x.Len == nil {
			return "(YSlice " + r.ty(x.Elt) + ")"
		}
		if b, ok := x.Len.(*ast.BasicLit); ok && b.Kind == token.INT {
			if n, err := strconv.ParseInt(b.Value, 0, 32); err == nil {
				return fmt.Sprintf("(YArray %d%%nat %s)", n, r.ty(x.Elt))
			}
		}
	case *ast.MapType:
		return "(YMap " + r.ty(x.Key) + " " + r.ty(x.Value) + ")"
	case *ast.StructType:
		var fs []string
		if x.Fields != nil {
			for _, f := range x.Fields.List {
				t := r.ty(f.Type)
				if len(f.Names) == 0 {
					fs = append(fs, "("+core.Hex("")+", "+t+")")
				}
				for _, n := range f.Names {
					fs = append(fs, "("+core.Hex(n.Name)+", "+t+")")
				}
			}
		}
		return "(YStruct " + core.CoqList(fs) + ")"
	case *ast.ParenExpr:
		return r.ty(x.X)
	}
	return "(YName [] " + core.Hex("?") + ")"
}
