package c10

import (
	"bytes"
	"context"
	"fmt"
	"os"
	"os/exec"
	"path/filepath"
	"regexp"
	"sort"
	"strconv"
	"strings"
	"sync"
	"time"

	"verifharness/c10types"
)

// The property's own observation point: rendered literals are embedded as `var vN T = <text>` in ONE
// generated package per batch (one file per literal, each with exactly the imports gengo registered for it), compiled and run offline; the
// program prints a canonical dump of every variable, which is compared with the dump of the original.

type item struct {
	self    string            // package path the literal was rendered for
	typ     *TypeJ            //
	text    string            //
	imports map[string]string // path -> local name, as registered
	done    chan itemResult
}

type itemResult struct {
	compileErr string // "" = compiled
	dump       string
	ran        bool
	infra      string // the go tool itself failed (timeout, missing toolchain): nothing is concluded
}

const (
	batchSize   = 150
	selfTypes   = c10typesPath           // the generated file lives in package c10types
	selfMain    = "verifharness/c10main" // ... or in another package of the module
	maxBuilders = 4
)

type batcher struct {
	mu      sync.Mutex
	pending map[string][]*item
	timer   *time.Timer
	sem     chan struct{}
	nBuilds int
	nItems  int
	nInfra  int
}

var theBatcher = &batcher{pending: map[string][]*item{}, sem: make(chan struct{}, maxBuilders)}

func (b *batcher) submit(it *item) itemResult {
	it.done = make(chan itemResult, 1)
	b.mu.Lock()
	b.pending[it.self] = append(b.pending[it.self], it)
	if len(b.pending[it.self]) >= batchSize {
		items := b.pending[it.self]
		b.pending[it.self] = nil
		go b.run(items)
	}
	if b.timer != nil {
		b.timer.Stop()
	}
	b.timer = time.AfterFunc(300*time.Millisecond, b.flush)
	b.mu.Unlock()
	return <-it.done
}

func (b *batcher) flush() {
	b.mu.Lock()
	var all [][]*item
	for k, items := range b.pending {
		if len(items) > 0 {
			all = append(all, items)
		}
		b.pending[k] = nil
	}
	b.mu.Unlock()
	for _, items := range all {
		go b.run(items)
	}
}

func (b *batcher) run(items []*item) {
	b.sem <- struct{}{}
	defer func() { <-b.sem }()
	b.mu.Lock()
	b.nBuilds++
	b.nItems += len(items)
	b.mu.Unlock()
	res := compileAndRun(items, 0)
	for i, it := range items {
		it.done <- res[i]
	}
}

var errLine = regexp.MustCompile(`zz_v(\d+)\.go:(\d+):(\d+): (.*)`)

// compileAndRun builds one program for the items; items whose literal does not compile are reported
// and dropped, the rest is rebuilt; errors that cannot be attributed split the batch.
func compileAndRun(items []*item, depth int) []itemResult {
	res := make([]itemResult, len(items))
	if len(items) == 0 {
		return res
	}
	alive := make([]int, len(items))
	for i := range items {
		alive[i] = i
	}
	for round := 0; round < 8 && len(alive) > 0; round++ {
		sub := make([]*item, len(alive))
		for j, i := range alive {
			sub[j] = items[i]
		}
		out, err := buildAndRun(sub)
		if err == nil {
			for j, i := range alive {
				d, ok := out[j]
				res[i] = itemResult{dump: d, ran: ok}
				if !ok {
					res[i].compileErr = "the program printed nothing for this variable"
				}
			}
			return res
		}
		// attribute compile errors to variables
		bad := map[int]string{}
		for _, m := range errLine.FindAllStringSubmatch(err.Error(), -1) {
			j, _ := strconv.Atoi(m[1])
			if _, seen := bad[j]; !seen && j < len(alive) {
				bad[j] = m[4]
			}
		}
		if strings.HasPrefix(err.Error(), "infrastructure:") {
			theBatcher.mu.Lock()
			theBatcher.nInfra++
			theBatcher.mu.Unlock()
			for _, i := range alive {
				res[i] = itemResult{infra: firstLines(err.Error(), 2)}
			}
			return res
		}
		if len(bad) == 0 {
			if len(alive) == 1 {
				res[alive[0]] = itemResult{compileErr: firstLines(err.Error(), 3)}
				return res
			}
			// split
			mid := len(alive) / 2
			for _, part := range [][]int{alive[:mid], alive[mid:]} {
				sub := make([]*item, len(part))
				for j, i := range part {
					sub[j] = items[i]
				}
				r := compileAndRun(sub, depth+1)
				for j, i := range part {
					res[i] = r[j]
				}
			}
			return res
		}
		var next []int
		for j, i := range alive {
			if msg, ok := bad[j]; ok {
				res[i] = itemResult{compileErr: msg}
			} else {
				next = append(next, i)
			}
		}
		alive = next
	}
	for _, i := range alive {
		res[i] = itemResult{compileErr: "batch did not converge"}
	}
	return res
}

func firstLines(s string, n int) string {
	ls := strings.Split(strings.TrimSpace(s), "\n")
	if len(ls) > n {
		ls = ls[:n]
	}
	return strings.Join(ls, " | ")
}

// buildAndRun writes the scratch module, compiles and runs it. out: index -> dump.  The declaration of
// variable vN is the file zz_vN.go (compile errors are attributed by file name).
func buildAndRun(items []*item) (out map[int]string, err error) {
	dir, e := os.MkdirTemp("", "c10batch-")
	if e != nil {
		return nil, e
	}
	defer os.RemoveAll(dir)
	self := items[0].self
	inTypes := self == selfTypes
	pkgDir, pkgName, q := "c10main", "c10main", "hdump."
	if inTypes {
		pkgDir, pkgName, q = "c10types", "c10types", ""
	}
	must := func(e error) {
		if e != nil && err == nil {
			err = e
		}
	}
	must(os.MkdirAll(filepath.Join(dir, "c10types"), 0o755))
	must(os.MkdirAll(filepath.Join(dir, pkgDir), 0o755))
	must(os.MkdirAll(filepath.Join(dir, "cmd"), 0o755))
	must(os.WriteFile(filepath.Join(dir, "go.mod"), []byte("module verifharness\n\ngo 1.24.2\n"), 0o644))
	must(os.WriteFile(filepath.Join(dir, "c10types", "types.go"), []byte(c10types.TypesSrc), 0o644))
	must(os.WriteFile(filepath.Join(dir, "c10types", "dump.go"), []byte(c10types.DumpSrc), 0o644))
	must(os.WriteFile(filepath.Join(dir, "cmd", "main.go"),
		[]byte("package main\n\nimport p \"verifharness/"+pkgDir+"\"\n\nfunc main() { p.RunBatch() }\n"), 0o644))
	if err != nil {
		return nil, err
	}

	// one file per literal: `var vN T = <text>` with EXACTLY the imports gengo registered while rendering it (under the
	// registered local names) plus the harness' own aliases htyK for the packages of the declared type T.  The compiler
	// thus judges every literal against its own import set: a registered import the text does not use is reported as
	// "imported and not used" in that literal's file, a package the text uses without registering it as "undefined".
	for i, it := range items {
		aliases := map[string]string{}
		var apaths []string
		alias := func(path string) string {
			if a, ok := aliases[path]; ok {
				return a
			}
			a := fmt.Sprintf("hty%d", len(aliases))
			aliases[path] = a
			apaths = append(apaths, path)
			return a
		}
		declType := goType(it.typ, q, alias)
		var paths []string
		for path := range it.imports {
			paths = append(paths, path)
		}
		sort.Slice(paths, func(a, b int) bool { return it.imports[paths[a]]+paths[a] < it.imports[paths[b]]+paths[b] })
		var b strings.Builder
		fmt.Fprintf(&b, "package %s\n\n", pkgName)
		if len(paths)+len(apaths) > 0 || (!inTypes && strings.Contains(declType, q)) {
			b.WriteString("import (\n")
			for _, path := range paths {
				fmt.Fprintf(&b, "\t%s %q\n", it.imports[path], path)
			}
			for _, path := range apaths {
				fmt.Fprintf(&b, "\t%s %q\n", aliases[path], path)
			}
			if !inTypes && strings.Contains(declType, q) {
				fmt.Fprintf(&b, "\thdump %q\n", c10typesPath)
			}
			b.WriteString(")\n\n")
		}
		fmt.Fprintf(&b, "var v%d %s = %s\n", i, declType, it.text)
		if e := os.WriteFile(filepath.Join(dir, pkgDir, fmt.Sprintf("zz_v%d.go", i)), []byte(b.String()), 0o644); e != nil {
			return nil, e
		}
	}
	var b strings.Builder
	fmt.Fprintf(&b, "package %s\n\nimport (\n", pkgName)
	if !inTypes {
		fmt.Fprintf(&b, "\thdump %q\n", c10typesPath)
	}
	b.WriteString("\thfmt \"fmt\"\n\threflect \"reflect\"\n)\n")
	b.WriteString("\nfunc RunBatch() {\n")
	for i := range items {
		fmt.Fprintf(&b, "\thfmt.Printf(\"%%d\\t%%s\\n\", %d, %sDump(hreflect.ValueOf(&v%d).Elem()))\n", i, q, i)
	}
	b.WriteString("}\n")
	if e := os.WriteFile(filepath.Join(dir, pkgDir, "zz_batch.go"), []byte(b.String()), 0o644); e != nil {
		return nil, e
	}

	ctx, cancel := context.WithTimeout(context.Background(), 240*time.Second)
	defer cancel()
	cmd := exec.CommandContext(ctx, "go", "build", "-gcflags=-e", "-o", filepath.Join(dir, "prog"), "./cmd")
	cmd.Dir = dir
	cmd.Env = append(os.Environ(), "GOFLAGS=-mod=mod", "GOPROXY=off")
	if o, e := cmd.CombinedOutput(); e != nil {
		if ctx.Err() != nil || !bytes.Contains(o, []byte(".go:")) {
			return nil, fmt.Errorf("infrastructure: go build: %v %s", e, firstLines(string(o), 2))
		}
		return nil, fmt.Errorf("go build: %v\n%s", e, o)
	}
	ctx2, cancel2 := context.WithTimeout(context.Background(), 60*time.Second)
	defer cancel2()
	run := exec.CommandContext(ctx2, filepath.Join(dir, "prog"))
	var so, se bytes.Buffer
	run.Stdout, run.Stderr = &so, &se
	if e := run.Run(); e != nil {
		if ctx2.Err() != nil {
			return nil, fmt.Errorf("infrastructure: the generated program timed out")
		}
		// a run-time failure (cannot be attributed to a line): report it on every variable
		return nil, fmt.Errorf("the generated program failed: %v %s", e, firstLines(se.String(), 3))
	}
	out = map[int]string{}
	for _, l := range strings.Split(so.String(), "\n") {
		if k := strings.IndexByte(l, '\t'); k > 0 {
			if i, e := strconv.Atoi(l[:k]); e == nil {
				out[i] = l[k+1:]
			}
		}
	}
	return out, nil
}
