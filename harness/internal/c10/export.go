package c10

import (
	"reflect"

	"verifharness/internal/core"
)

// Exported entry points for other harness packages (RenderStack: the C09 correspondence sends the
// %v / Value arguments of snippet terms to Coq as structured C10 values).  Additive: nothing here is
// used by the C10 check itself.

// CoqType / CoqVal: the Gallina terms of type gotype / goval fl.
func CoqType(t *TypeJ) string          { return coqType(t) }
func CoqVal(t *TypeJ, v *ValJ) string  { return coqVal(t, v) }
func TableTerm(m map[string]string) string { return tableTerm(m) }

// Build constructs the Go value; RType its reflect.Type.
func Build(t *TypeJ, v *ValJ) (reflect.Value, error) { return build(t, v) }
func RType(t *TypeJ) (reflect.Type, error)           { return rtype(t) }

// StringsOf collects the strings of a value (for the strconv.Quote table).
func StringsOf(t *TypeJ, v *ValJ, acc map[string]bool) { stringsOf(t, v, acc) }

// InDomain: inside the property's domain and the model's universe.
func InDomain(t *TypeJ, v *ValJ) bool { return inDomain(t, v, false, false) }

// Named is the TypeJ of a registered named type ("c10types.Box", "image.Point", ...).
func Named(name string) TypeJ { return nm(name) }

// ZeroVal / NonZero: the zero value of a type; a value with every leaf non-zero.
func ZeroVal(t *TypeJ) ValJ { return zeroVal(t) }
func NonZero(t *TypeJ) ValJ { return nonzero(t, false) }

// GenPair draws an in-domain (type, value) pair; richer in named types of other packages than the
// C10 stream (the RenderStack cases are about imports).
func GenPair(r *core.RNG, depth int) (TypeJ, ValJ) {
	g := &gen{r: r}
	for i := 0; i < 50; i++ {
		var t TypeJ
		switch k := r.Intn(10); {
		case k < 2:
			// two packages called c10types: who gets the short name depends on the order of registration
			a, b := nm(core.Pick(r, []string{"c10alt.Tag", "c10alt.Unit"})), nm(core.Pick(r, []string{"c10types.Inner", "c10types.Box", "c10types.Color"}))
			if r.Bool() {
				a, b = b, a
			}
			t = core.Pick(r, []TypeJ{structT(fld("A", a), fld("B", b)), mapT(sc("string"), structT(fld("X", a), fld("Y", sliceT(b)))), sliceT(structT(fld("P", ptrT(a)), fld("Q", b))), mapT(a, b)})
		case k < 4:
			t = nm(core.Pick(r, []string{"c10types.Box", "c10types.Wrap", "c10types.Node", "image.Point", "c10types.Inner", "c10alt.Tag", "c10alt.Frame", "image.Rectangle"}))
		case k < 6:
			t = nm(core.Pick(r, []string{"time.Duration", "time.Month", "fs.FileMode", "net.IP", "url.Values", "reflect.Kind", "c10types.Color"}))
		case k < 7:
			e := nm(core.Pick(r, []string{"c10types.Box", "image.Point", "time.Duration", "c10types.Wrap"}))
			t = core.Pick(r, []TypeJ{sliceT(e), ptrT(e), mapT(sc("string"), e), arrayT(2, e), structT(fld("A", e), fld("B", nm("c10types.Box")))})
		default:
			t = g.typ(depth, false)
		}
		v := g.val(&t, depth)
		if r.Chance(15) {
			v = zeroVal(&t)
		}
		if inDomain(&t, &v, false, false) {
			if _, err := build(&t, &v); err == nil {
				return t, v
			}
		}
	}
	t := sc("int")
	return t, ival(int64(r.Intn(100)))
}

// StructOf / FieldsVal: an unnamed struct type over named field types, and a value for it from per-field values.
func StructOf(names []string, types []TypeJ) TypeJ {
	var fs []FieldJ
	for i := range names {
		fs = append(fs, fld(names[i], types[i]))
	}
	return structT(fs...)
}
func FieldsVal(vs ...ValJ) ValJ { return lval(vs...) }
