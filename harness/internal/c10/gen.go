package c10

import (
	"encoding/json"
	"fmt"
	"math"

	"verifharness/internal/core"
)

type input struct {
	T    TypeJ  `json:"t"`
	V    ValJ   `json:"v"`
	Self string `json:"self"`          // package path the literal is generated into
	Via  string `json:"via,omitempty"` // "value" (snippet.Value) or "sprintf" (snippet.Sprintf("%v", x))
	Note string `json:"note,omitempty"`
}

var intKinds = []string{"int", "int8", "int16", "int32", "int64", "uint", "uint8", "uint16", "uint32", "uint64", "uintptr"}

var namedScalars = []string{"c10types.Color", "c10types.Level", "c10types.Flag", "c10types.Name", "c10types.Ratio",
	"c10types.Code", "c10types.Size", "c10types.Addr", "time.Duration", "time.Month", "fs.FileMode", "reflect.Kind"}
var namedKeyable = []string{"c10types.Color", "c10types.Level", "c10types.Flag", "c10types.Name", "c10types.Code",
	"c10types.Size", "time.Duration", "time.Month", "c10types.Inner", "c10types.Pair", "image.Point"}
var namedComposite = []string{"c10types.Inner", "c10types.Point", "c10types.Tags", "c10types.Dict", "c10types.Pair",
	"c10types.Node", "image.Point", "net.IP", "url.Values"}

var fieldNames = []string{"A", "B", "C", "Z", "M", "P", "Name", "Value", "X1", "Ptr", "Items"}

var strPool = []string{"", "x", "a\"b", "line\nbreak", "back`tick", "\xff\xfe", "é世", "tab\t", "\x00", "\u2028", `\`, "'", "a b", "%v", "@x", "\xc3", "日本語\x80",
	"\r", "\ufeff", "a\r\nb", "\n", "\n\r", "a\nb\x00", "\ufeffa\n", "a\n`b\r", "l1\nl2\n", "\u2028\n", "\n\x7f", "\n\xff", "\n\\n\"", "\n\t\v\f\x1b", "\n\u00a0\u200b\U0001F600"}

// the characters that decide which literal forms can hold a string: a raw string literal drops every CR and cannot
// hold a backquote, NUL and U+FEFF are not legal in Go source at all, an interpreted literal cannot hold a raw newline
// or an unescaped quote/backslash; invalid UTF-8, controls, Unicode line separators and non-printables have to be escaped
var strHostile = []string{"\n", "\n", "\n", "\r", "\r", "\r\n", "\x00", "\ufeff", "`", "\"", "\\", "'", "\t", "\v", "\f", "\x1b", "\x7f",
	"\x80", "\xff", "\xc3", "\u0085", "\u2028", "\u2029", "\u00a0", "\u200b", "\ufffd", "\U0001F600", "é", "世", "a", "b", " ", "\\n", "\\r", "${x}", "*/", "//"}

var runePool = []int64{'a', '\'', '\\', 0x7f, 0x20, 0x7e, 233, 0x10FFFF, -1, '\n', 0, '"', 'Z', 0xD800, 65533}

var floatPool = []float64{0, math.Copysign(0, -1), 1, -1, 0.5, 1e20, 1e21, 1e22, 123456789.125, math.MaxFloat64, -math.MaxFloat64,
	math.SmallestNonzeroFloat64, 1e-7, 1.7e308, 0x1p512, 0x1p511, 1.3407807929942596e154, math.Pi, 0.1, 1.0 / 3, 1e100, 9007199254740993, 2.5e-320}
var float32Pool = []float64{0, math.Copysign(0, -1), 1, -1.5, 0.1, math.MaxFloat32, -math.MaxFloat32, math.SmallestNonzeroFloat32, 1e21, 1e22, 16777216, 3.4e38, 1e-40}

func intRange(k string) (lo, hi int64, umax uint64, unsigned bool) {
	switch k {
	case "int8":
		return math.MinInt8, math.MaxInt8, 0, false
	case "int16":
		return math.MinInt16, math.MaxInt16, 0, false
	case "int32":
		return math.MinInt32, math.MaxInt32, 0, false
	case "int", "int64":
		return math.MinInt64, math.MaxInt64, 0, false
	case "uint8":
		return 0, 0, math.MaxUint8, true
	case "uint16":
		return 0, 0, math.MaxUint16, true
	case "uint32":
		return 0, 0, math.MaxUint32, true
	}
	return 0, 0, math.MaxUint64, true
}

type gen struct {
	r          *core.RNG
	composites []string // named composite types the random types draw from (nil: namedComposite)
}

// the C10 stream also draws the struct types of other packages that hold slices and maps, and the own-package types with
// fields of them (GenPair, used by another check, keeps the shorter list)
var namedCompositeC10 = append(append([]string{}, namedComposite...), "c10types.Sealed", "c10types.Vault", "c10types.Box", "c10types.Wrap",
	"pem.Block", "asn1.RawValue", "asn1.BitString", "pkix.AlgorithmIdentifier", "pkix.Extension", "net.IPNet")

func (g *gen) scalarType() TypeJ {
	switch k := g.r.Intn(10); {
	case k < 4:
		return sc(core.Pick(g.r, intKinds))
	case k < 6:
		return sc("string")
	case k < 7:
		return sc("bool")
	case k < 9:
		return sc(core.Pick(g.r, []string{"float64", "float64", "float32"}))
	}
	return nm(core.Pick(g.r, namedScalars))
}

func (g *gen) keyType(depth int) TypeJ {
	switch k := g.r.Intn(12); {
	case k < 3:
		return sc("string")
	case k < 6:
		return sc(core.Pick(g.r, intKinds))
	case k < 7:
		return sc("bool")
	case k < 8:
		return sc(core.Pick(g.r, []string{"float64", "float32"}))
	case k < 10:
		return nm(core.Pick(g.r, namedKeyable))
	case k < 11 && depth > 0:
		return arrayT(1+g.r.Intn(2), g.keyType(depth-1))
	case depth > 0:
		return structT(fld("A", g.keyType(depth-1)), fld("B", sc("string")))
	}
	return sc("int")
}

func (g *gen) typ(depth int, underPtr bool) TypeJ {
	if depth <= 0 {
		return g.scalarType()
	}
	switch k := g.r.Intn(20); {
	case k < 4:
		return g.scalarType()
	case k < 6:
		if g.composites != nil {
			return nm(core.Pick(g.r, g.composites))
		}
		return nm(core.Pick(g.r, namedComposite))
	case k < 9:
		if underPtr {
			return g.typ(depth, false)
		}
		return ptrT(g.typ(depth-1, true))
	case k < 12:
		return sliceT(g.typ(depth-1, false))
	case k < 13:
		return arrayT(g.r.Intn(4), g.typ(depth-1, false))
	case k < 16:
		return mapT(g.keyType(1), g.typ(depth-1, false))
	}
	n := 1 + g.r.Intn(4)
	perm := append([]string{}, fieldNames...)
	var fs []FieldJ
	for i := 0; i < n; i++ {
		j := i + g.r.Intn(len(perm)-i)
		perm[i], perm[j] = perm[j], perm[i]
		fs = append(fs, fld(perm[i], g.typ(depth-1, false)))
	}
	return structT(fs...)
}

func zeroVal(t *TypeJ) ValJ {
	u := under(t)
	switch {
	case u.K == "bool":
		return bval(false)
	case isIntKind(u.K):
		return ival(0)
	case isFloatKind(u.K):
		return fval(0)
	case u.K == "string":
		return sval("")
	case u.K == "ptr", u.K == "slice", u.K == "map", u.K == "any":
		return nilval()
	case u.K == "array":
		var l []ValJ
		for i := 0; i < u.N; i++ {
			l = append(l, zeroVal(u.Elem))
		}
		return ValJ{L: l}
	case u.K == "struct":
		var l []ValJ
		for i := range u.Fields {
			l = append(l, zeroVal(&u.Fields[i].T))
		}
		return ValJ{L: l}
	}
	return ValJ{}
}

func (g *gen) str() string {
	if g.r.Chance(50) {
		return core.Pick(g.r, strPool)
	}
	if g.r.Chance(60) {
		// text of several "lines": pieces of the hostile alphabet, at least one line break in most of them
		n := 2 + g.r.Intn(5)
		s := ""
		for i := 0; i < n; i++ {
			s += core.Pick(g.r, strHostile)
		}
		if g.r.Chance(70) {
			k := g.r.Intn(len(s) + 1)
			for k > 0 && k < len(s) && s[k]&0xc0 == 0x80 { // not inside a multi-byte character
				k--
			}
			s = s[:k] + "\n" + s[k:]
		}
		return s
	}
	n := g.r.Intn(6)
	b := make([]byte, n)
	for i := range b {
		if g.r.Chance(80) {
			b[i] = byte(0x20 + g.r.Intn(0x5f))
		} else {
			b[i] = byte(g.r.Intn(256))
		}
	}
	return string(b)
}

func (g *gen) val(t *TypeJ, depth int) ValJ {
	u := under(t)
	switch {
	case u.K == "bool":
		return bval(g.r.Bool())
	case isIntKind(u.K):
		lo, hi, umax, uns := intRange(u.K)
		if uns {
			switch g.r.Intn(6) {
			case 0:
				return uval(0)
			case 1:
				return uval(umax)
			case 2:
				return uval(1)
			}
			if umax == math.MaxUint64 {
				return uval(g.r.Uint64())
			}
			return uval(g.r.Uint64() % (umax + 1))
		}
		if u.K == "int32" && g.r.Chance(60) {
			return ival(core.Pick(g.r, runePool))
		}
		switch g.r.Intn(7) {
		case 0:
			return ival(0)
		case 1:
			return ival(lo)
		case 2:
			return ival(hi)
		case 3:
			return ival(-1)
		case 4:
			return ival(int64(g.r.Intn(200)) - 100)
		}
		x := int64(g.r.Uint64())
		if hi != math.MaxInt64 {
			x = x % (hi + 1)
		}
		return ival(x)
	case u.K == "float64":
		if g.r.Chance(75) {
			return fval(core.Pick(g.r, floatPool))
		}
		f := math.Float64frombits(g.r.Uint64())
		if math.IsNaN(f) || math.IsInf(f, 0) {
			f = 1.25
		}
		return fval(f)
	case u.K == "float32":
		if g.r.Chance(75) {
			return fval(float64(float32(core.Pick(g.r, float32Pool))))
		}
		f := math.Float32frombits(uint32(g.r.Uint64()))
		if f != f || math.IsInf(float64(f), 0) {
			f = 2.5
		}
		return fval(float64(f))
	case u.K == "string":
		return sval(g.str())
	case u.K == "ptr":
		if g.r.Chance(20) {
			return nilval()
		}
		if g.r.Chance(30) {
			return pval(zeroVal(u.Elem))
		}
		return pval(g.val(u.Elem, depth-1))
	case u.K == "slice":
		if g.r.Chance(15) {
			return nilval()
		}
		if g.r.Chance(10) {
			return ValJ{L: []ValJ{}}
		}
		n := 1 + g.r.Intn(3)
		l := []ValJ{}
		for i := 0; i < n; i++ {
			if g.r.Chance(20) {
				l = append(l, zeroVal(u.Elem))
			} else {
				l = append(l, g.val(u.Elem, depth-1))
			}
		}
		return ValJ{L: l}
	case u.K == "array":
		l := []ValJ{}
		for i := 0; i < u.N; i++ {
			if g.r.Chance(25) {
				l = append(l, zeroVal(u.Elem))
			} else {
				l = append(l, g.val(u.Elem, depth-1))
			}
		}
		return ValJ{L: l}
	case u.K == "map":
		if g.r.Chance(10) {
			return nilval()
		}
		if g.r.Chance(10) {
			return ValJ{M: [][2]ValJ{}}
		}
		n := 1 + g.r.Intn(3)
		m := [][2]ValJ{}
		seen := map[string]bool{}
		for i := 0; i < n; i++ {
			var k ValJ
			if g.r.Chance(20) {
				k = zeroVal(u.Key)
			} else {
				k = g.val(u.Key, depth-1)
			}
			rk, err := build(u.Key, &k)
			if err != nil {
				continue
			}
			d := dumpOf(rk)
			if seen[d] {
				continue
			}
			seen[d] = true
			var e ValJ
			if g.r.Chance(25) {
				e = zeroVal(u.Elem)
			} else {
				e = g.val(u.Elem, depth-1)
			}
			m = append(m, [2]ValJ{k, e})
		}
		return ValJ{M: m}
	case u.K == "struct":
		l := []ValJ{}
		allZero := g.r.Chance(15)
		for i := range u.Fields {
			if allZero || g.r.Chance(30) {
				l = append(l, zeroVal(&u.Fields[i].T))
			} else {
				l = append(l, g.val(&u.Fields[i].T, depth-1))
			}
		}
		return ValJ{L: l}
	}
	return ValJ{}
}

func mk(t TypeJ, v ValJ, self, via, note string) json.RawMessage {
	b, _ := json.Marshal(input{T: t, V: v, Self: self, Via: via, Note: note})
	return b
}

// fixed corner cases: the shapes the property names
func corner() []json.RawMessage {
	in := nm("c10types.Inner")
	col := nm("c10types.Color")
	dur := nm("time.Duration")
	zIn := zeroVal(&in)
	var out []json.RawMessage
	add := func(note string, t TypeJ, v ValJ) {
		out = append(out, mk(t, v, selfMain, "value", note), mk(t, v, selfTypes, "sprintf", note))
	}
	add("pointer to string", ptrT(sc("string")), pval(sval("x")))
	add("pointer to named int", ptrT(col), pval(ival(3)))
	add("pointer to foreign named int", ptrT(dur), pval(ival(5)))
	add("pointer to zero struct in a struct field", structT(fld("Z", ptrT(in))), lval(pval(zIn)))
	add("zero struct as map value in a struct field", structT(fld("M", mapT(sc("string"), in))), lval(ValJ{M: [][2]ValJ{{sval("a"), zIn}}}))
	add("zero struct as map key in a struct field", structT(fld("K", mapT(in, sc("int")))), lval(ValJ{M: [][2]ValJ{{zIn, ival(1)}}}))
	add("uintptr", sc("uintptr"), uval(3))
	add("pointer to uintptr", ptrT(sc("uintptr")), pval(uval(7)))
	add("MaxFloat64", sc("float64"), fval(math.MaxFloat64))
	add("2^512 as float", sc("float64"), fval(0x1p512))
	add("smallest float64", sc("float64"), fval(math.SmallestNonzeroFloat64))
	add("MaxFloat32", sc("float32"), fval(math.MaxFloat32))
	add("negative zero", sc("float64"), fval(math.Copysign(0, -1)))
	add("pointer to float", ptrT(sc("float64")), pval(fval(1)))
	add("runes", sliceT(sc("int32")), lval(ival('a'), ival('\''), ival('\\'), ival(233), ival(127), ival(-1)))
	// every int32 takes the "rune" path of ValueLit: values that are no code points (surrogates, above U+10FFFF,
	// negative) and U+FFFD itself must come back as themselves, also as map keys (no duplicate keys)
	add("int32 values that are no code points", sliceT(sc("int32")), lval(ival(0xD800), ival(0xDFFF), ival(0x110000), ival(math.MaxInt32), ival(math.MinInt32), ival(-1), ival(0xFFFD), ival(0x10FFFF), ival(2000000)))
	add("int32 no-code-point map keys", mapT(sc("int32"), sc("string")), ValJ{M: [][2]ValJ{{ival(0xD800), sval("a")}, {ival(0xFFFD), sval("b")}, {ival(0x110000), sval("c")}, {ival(-7), sval("d")}}})
	add("pointer to and field of no-code-point int32", structT(fld("R", sc("int32")), fld("P", ptrT(sc("int32")))), lval(ival(0xDABC), pval(ival(0x7FFFFFF0))))
	// maps whose keys are not integers or strings, three and more entries: the text must not depend on map order
	add("map with 5 float keys", mapT(sc("float64"), sc("int")), ValJ{M: [][2]ValJ{{fval(0.5), ival(1)}, {fval(2), ival(2)}, {fval(-3.25), ival(3)}, {fval(1e21), ival(4)}, {fval(10), ival(5)}}})
	add("map with 4 array keys", mapT(arrayT(2, sc("int")), sc("string")), ValJ{M: [][2]ValJ{{lval(ival(1), ival(2)), sval("a")}, {lval(ival(10), ival(0)), sval("b")}, {lval(ival(2), ival(1)), sval("c")}, {lval(ival(-1), ival(9)), sval("d")}}})
	add("map with 4 struct keys", mapT(structT(fld("A", sc("int")), fld("B", sc("string"))), sc("bool")), ValJ{M: [][2]ValJ{{lval(ival(1), sval("x")), bval(true)}, {lval(ival(10), sval("")), bval(false)}, {lval(ival(2), sval("y")), bval(true)}, {lval(ival(3), sval("a")), bval(false)}}})
	add("named rune-like", sliceT(nm("c10types.Code")), lval(ival('a'), ival(0)))
	add("pointer to rune", ptrT(sc("int32")), pval(ival('x')))
	add("strings", sliceT(sc("string")), lval(sval("a\"b\n`"), sval("\xff"), sval("\u2028"), sval("")))
	// every form of string literal has characters it cannot hold: raw strings drop CR and cannot hold a backquote, NUL and
	// the byte order mark are not legal source characters, interpreted strings need escapes for newlines, quotes, controls
	ml := []string{"a\r\nb", "a\rb\n", "\n\x00", "\ufeff\n", "a\nb", "a\n`b", "a\r\n`", "\n\xff", "\r", "\x00", "\ufeff", "\u2028\n", "l1\nl2\n"}
	var mlv []ValJ
	var mlm [][2]ValJ
	for i, s := range ml {
		mlv = append(mlv, sval(s))
		mlm = append(mlm, [2]ValJ{sval(s), sval(ml[len(ml)-1-i])})
	}
	add("multi-line strings, CR / NUL / BOM / backquote mixes", sliceT(sc("string")), ValJ{L: mlv})
	add("multi-line strings as map keys and values", mapT(sc("string"), sc("string")), ValJ{M: mlm})
	add("multi-line strings in fields, named and behind a pointer", structT(fld("A", sc("string")), fld("B", nm("c10types.Name")), fld("P", ptrT(sc("string")))),
		lval(sval("windows\r\nline endings\r\n"), sval("nul\x00\n"), pval(sval("\ufeffbom\n"))))
	add("extreme integers", structT(fld("A", sc("int64")), fld("B", sc("uint64")), fld("C", sc("int8"))),
		lval(ival(math.MinInt64), uval(math.MaxUint64), ival(-128)))
	add("map with int keys", mapT(sc("int"), sc("string")), ValJ{M: [][2]ValJ{{ival(10), sval("a")}, {ival(9), sval("b")}, {ival(-1), sval("c")}}})
	add("map with named keys", mapT(nm("c10types.Name"), col), ValJ{M: [][2]ValJ{{sval("b"), ival(1)}, {sval("a"), ival(0)}}})
	add("map with float keys", mapT(sc("float64"), sc("bool")), ValJ{M: [][2]ValJ{{fval(0.5), bval(true)}, {fval(2), bval(false)}}})
	add("map with bool keys", mapT(sc("bool"), sc("int")), ValJ{M: [][2]ValJ{{bval(true), ival(1)}, {bval(false), ival(0)}}})
	add("map with rune keys", mapT(sc("int32"), sc("int")), ValJ{M: [][2]ValJ{{ival('a'), ival(1)}, {ival(97000), ival(0)}, {ival(39), ival(2)}}})
	add("nil and empty", structT(fld("A", sliceT(sc("int"))), fld("B", mapT(sc("string"), sc("int"))), fld("C", ptrT(sc("int")))),
		lval(ValJ{L: []ValJ{}}, ValJ{M: [][2]ValJ{}}, nilval()))
	add("top-level nil pointer", ptrT(in), nilval())
	add("nil pointers in a slice", sliceT(ptrT(sc("int"))), lval(nilval(), pval(ival(0))))
	add("zero structs in an array field", structT(fld("X", arrayT(2, in))), lval(lval(zIn, zIn)))
	add("zero struct at top level", in, zIn)
	add("zero unnamed struct in a slice", sliceT(structT(fld("A", sc("int")))), lval(lval(ival(0))))
	add("foreign struct", nm("image.Point"), lval(ival(1), ival(0)))
	add("foreign slice / map types", structT(fld("A", nm("net.IP")), fld("B", nm("url.Values"))),
		lval(lval(uval(127), uval(0), uval(0), uval(1)), ValJ{M: [][2]ValJ{{sval("k"), lval(sval("v"))}}}))
	add("file mode", nm("fs.FileMode"), uval(0o644))
	add("pointer to slice / map / array", structT(fld("A", ptrT(sliceT(sc("int")))), fld("B", ptrT(mapT(sc("string"), sc("int")))), fld("C", ptrT(arrayT(2, sc("bool"))))),
		lval(pval(lval(ival(1))), pval(ValJ{M: [][2]ValJ{}}), pval(lval(bval(false), bval(false)))))
	nodeT := nm("c10types.Node")
	add("node", nodeT, lval(sval("n"), pval(zIn), lval(zIn, lval(ival(1), sval(""))), ValJ{M: [][2]ValJ{{sval("k"), zIn}}}, pval(sval("")), pval(ival(0)), zIn))
	return out
}

// the stream outside the property's domain (~10 %): nothing is claimed about these, they must
// only not disturb the harness
func (g *gen) outside() json.RawMessage {
	switch g.r.Intn(7) {
	case 0:
		return mk(sc("float64"), fval(math.NaN()), selfMain, "value", "NaN")
	case 1:
		return mk(sc("float64"), fval(math.Inf(1)), selfMain, "value", "+Inf")
	case 2:
		t := ptrT(ptrT(sc("int")))
		return mk(t, pval(pval(ival(1))), selfMain, "value", "pointer to pointer")
	case 3:
		return mk(structT(fld("A", sc("any"))), lval(nilval()), selfMain, "value", "interface field")
	case 4:
		return mk(sc("complex128"), ValJ{}, selfMain, "value", "complex")
	case 5:
		return mk(nm("c10types.Hidden"), ValJ{}, selfMain, "value", "unexported field")
	}
	return mk(mapT(ptrT(sc("int")), sc("int")), ValJ{M: [][2]ValJ{{pval(ival(1)), ival(1)}}}, selfMain, "value", "pointer key")
}

func (g *gen) one(depth int) json.RawMessage {
	t := g.typ(depth, false)
	v := g.val(&t, depth)
	self := selfMain
	if g.r.Chance(40) {
		self = selfTypes
	}
	via := "value"
	if g.r.Chance(30) {
		via = "sprintf"
	}
	return mk(t, v, self, via, "")
}

// ---- nesting depth ----
//
// ValueLit hands its options down with one more entry per nesting level, so what an element is rendered with can depend on
// HOW DEEP its container sits (the variadic slice has spare capacity only at some levels: 3, 5-7, 9-15 ..).  The ladder puts
// a container (slice, array, map value, map key, pointer) that directly holds a struct rendering no field at every level
// 0..ladderDepth below the rendered value, under every kind of wrapper.

const ladderDepth = 10

// wrapper kinds of the levels above the container
var ladderWraps = []string{"slice", "struct", "map", "ptr", "array", "struct2"}

func wrapT(kind string, t TypeJ) TypeJ {
	switch kind {
	case "slice":
		return sliceT(t)
	case "array":
		return arrayT(1, t)
	case "map":
		return mapT(sc("string"), t)
	case "ptr":
		if t.K == "ptr" {
			return sliceT(t)
		}
		return ptrT(t)
	case "struct2":
		return structT(fld("N", sc("int")), fld("Next", t))
	}
	return structT(fld("Next", t))
}

func wrapV(t *TypeJ, v ValJ) ValJ {
	switch t.K {
	case "slice", "array":
		return lval(v)
	case "map":
		return ValJ{M: [][2]ValJ{{sval("k"), v}}}
	case "ptr":
		return pval(v)
	}
	if len(t.Fields) == 2 {
		return lval(ival(1), v)
	}
	return lval(v)
}

// the container of kind `bottom` holding zero and non-zero structs of type el, `depth` levels below the root; the wrappers
// are taken from ladderWraps starting at `rot`
func ladderCase(bottom string, el TypeJ, nz ValJ, depth, rot int) (TypeJ, ValJ) {
	z := zeroVal(&el)
	var t TypeJ
	var v ValJ
	switch bottom {
	case "slice":
		t, v = sliceT(el), lval(z, nz, z)
	case "array":
		t, v = arrayT(2, el), lval(nz, z)
	case "map":
		t, v = mapT(sc("string"), el), ValJ{M: [][2]ValJ{{sval("a"), z}, {sval("b"), nz}}}
	case "mapkey":
		t, v = mapT(el, sc("int")), ValJ{M: [][2]ValJ{{z, ival(1)}}}
	default:
		t, v = ptrT(el), pval(z)
	}
	for i := 0; i < depth; i++ {
		t = wrapT(ladderWraps[(rot+i)%len(ladderWraps)], t)
		v = wrapV(&t, v)
	}
	return t, v
}

// a tower: at every level a slice, a map and a pointer that hold zero structs, and the next level below a wrapper of kind `next`
func tower(levels int, next string) (TypeJ, ValJ) {
	in := nm("c10types.Inner")
	zIn := zeroVal(&in)
	t := structT(fld("S", sliceT(in)), fld("M", mapT(sc("string"), in)), fld("P", ptrT(in)))
	v := lval(lval(zIn), ValJ{M: [][2]ValJ{{sval("a"), zIn}}}, pval(zIn))
	for i := 0; i < levels; i++ {
		nt := wrapT(next, t)
		nv := wrapV(&nt, v)
		t = structT(fld("S", sliceT(in)), fld("M", mapT(sc("string"), in)), fld("P", ptrT(in)), fld("Next", nt))
		v = lval(lval(zIn, lval(ival(1), sval(""))), ValJ{M: [][2]ValJ{{sval("a"), zIn}}}, pval(zIn), nv)
	}
	return t, v
}

func ladder() []json.RawMessage {
	in := nm("c10types.Inner")
	pt := nm("image.Point")
	anon := structT(fld("A", sc("int")), fld("In", in))
	els := []struct {
		t  TypeJ
		nz ValJ
	}{{in, lval(ival(1), sval("x"))}, {pt, lval(ival(0), ival(2))}, {anon, lval(ival(3), lval(ival(0), sval("")))}}
	var out []json.RawMessage
	k := 0
	for depth := 0; depth <= ladderDepth; depth++ {
		for _, bottom := range []string{"slice", "array", "map", "mapkey", "ptr"} {
			el := els[k%len(els)]
			if bottom == "mapkey" {
				el = els[k%2] // the unnamed struct has a named field: fine as a key too, but keep the key texts simple
			}
			t, v := ladderCase(bottom, el.t, el.nz, depth, k)
			self, via := selfMain, "value"
			if k%2 == 1 {
				self = selfTypes
			}
			if k%3 == 2 {
				via = "sprintf"
			}
			out = append(out, mk(t, v, self, via, fmt.Sprintf("ladder: zero struct in a %s at depth %d", bottom, depth)))
			k++
		}
	}
	for i, next := range []string{"slice", "map", "ptr", "struct"} {
		t, v := tower(ladderDepth, next)
		self := selfMain
		if i%2 == 1 {
			self = selfTypes
		}
		out = append(out, mk(t, v, self, "value", "tower: zero structs in slice / map / pointer at every level, next level below a "+next))
	}
	return out
}

// a random chain of wrappers of the given depth above a container that holds structs, some of them zero
func (g *gen) deep(depth int) json.RawMessage {
	els := []TypeJ{nm("c10types.Inner"), nm("c10types.Point"), nm("image.Point"), nm("c10types.Node"),
		structT(fld("A", g.scalarType())), structT(fld("In", nm("c10types.Inner")), fld("B", sc("bool")))}
	el := core.Pick(g.r, els)
	var t TypeJ
	switch g.r.Intn(5) {
	case 0:
		t = sliceT(el)
	case 1:
		t = arrayT(1+g.r.Intn(2), el)
	case 2:
		t = mapT(g.keyType(0), el)
	case 3:
		t = ptrT(el)
	default:
		t = structT(fld("S", sliceT(el)), fld("M", mapT(sc("string"), el)), fld("P", ptrT(el)))
	}
	for i := 0; i < depth; i++ {
		t = wrapT(core.Pick(g.r, ladderWraps), t)
	}
	v := g.deepVal(&t)
	self := selfMain
	if g.r.Chance(40) {
		self = selfTypes
	}
	via := "value"
	if g.r.Chance(30) {
		via = "sprintf"
	}
	return mk(t, v, self, via, "")
}

// containers non-empty all the way down (so that the depth is reached); struct elements zero half of the time
func (g *gen) deepVal(t *TypeJ) ValJ {
	u := under(t)
	switch u.K {
	case "ptr":
		return pval(g.deepVal(u.Elem))
	case "slice":
		n := 1 + g.r.Intn(2)
		l := []ValJ{}
		for i := 0; i < n; i++ {
			l = append(l, g.deepVal(u.Elem))
		}
		return ValJ{L: l}
	case "array":
		l := []ValJ{}
		for i := 0; i < u.N; i++ {
			l = append(l, g.deepVal(u.Elem))
		}
		return ValJ{L: l}
	case "map":
		k := g.val(u.Key, 1)
		return ValJ{M: [][2]ValJ{{k, g.deepVal(u.Elem)}}}
	case "struct":
		if t.K == "named" || !hasContainer(u) {
			if g.r.Chance(50) {
				return zeroVal(t)
			}
			return g.val(t, 2)
		}
		l := []ValJ{}
		for i := range u.Fields {
			l = append(l, g.deepVal(&u.Fields[i].T))
		}
		return ValJ{L: l}
	}
	return g.val(t, 1)
}

func hasContainer(u *TypeJ) bool {
	for i := range u.Fields {
		switch u.Fields[i].T.K {
		case "ptr", "slice", "array", "map", "struct":
			return true
		}
	}
	return false
}

func generate(r *core.RNG, tier string) []json.RawMessage {
	g := &gen{r: r, composites: namedCompositeC10}
	out := append(append(append(corner(), ladder()...), floatTies()...), hollow()...)
	n := 260
	if tier == "thorough" {
		n = 6000
	}
	for i := 0; i < n; i++ {
		if g.r.Chance(10) {
			out = append(out, g.outside())
			continue
		}
		if g.r.Chance(15) {
			out = append(out, g.deep(g.r.Intn(ladderDepth+1)))
			continue
		}
		if g.r.Chance(7) {
			out = append(out, g.tie())
			continue
		}
		if g.r.Chance(8) {
			out = append(out, g.hollowOne())
			continue
		}
		out = append(out, g.one(1+g.r.Intn(4)))
	}
	if tier == "thorough" {
		out = append(out, smallScope()...)
	}
	return out
}

// every type of constructor depth <= 2 over a small grammar, each with its zero, a nil/empty and a
// non-zero value
func smallScope() []json.RawMessage {
	in := nm("c10types.Inner")
	leaves := []TypeJ{sc("int"), sc("string"), sc("bool"), sc("float64"), sc("int32"), nm("c10types.Color"), in, nm("time.Duration")}
	wrap := func(t TypeJ) []TypeJ {
		ws := []TypeJ{sliceT(t), arrayT(2, t), mapT(sc("string"), t), structT(fld("A", t), fld("Z", sc("int")))}
		if t.K != "ptr" {
			ws = append(ws, ptrT(t))
		}
		return ws
	}
	var d1, d2 []TypeJ
	for _, l := range leaves {
		d1 = append(d1, wrap(l)...)
	}
	for _, t := range d1 {
		d2 = append(d2, wrap(t)...)
	}
	var out []json.RawMessage
	for _, t := range append(append(append([]TypeJ{}, leaves...), d1...), d2...) {
		t := t
		out = append(out, mk(t, zeroVal(&t), selfMain, "value", "small scope: zero"))
		out = append(out, mk(t, nonzero(&t, false), selfTypes, "value", "small scope: non-zero"))
		out = append(out, mk(t, nonzero(&t, true), selfMain, "sprintf", "small scope: zero leaves"))
	}
	return out
}

// a value whose containers are non-nil and non-empty; its leaves are zero if zeroLeaves
func nonzero(t *TypeJ, zeroLeaves bool) ValJ {
	u := under(t)
	switch {
	case u.K == "bool":
		return bval(!zeroLeaves)
	case isIntKind(u.K):
		if zeroLeaves {
			return ival(0)
		}
		return ival(7)
	case isFloatKind(u.K):
		if zeroLeaves {
			return fval(0)
		}
		return fval(2.5)
	case u.K == "string":
		if zeroLeaves {
			return sval("")
		}
		return sval("s")
	case u.K == "ptr":
		return pval(nonzero(u.Elem, zeroLeaves))
	case u.K == "slice":
		return lval(nonzero(u.Elem, zeroLeaves))
	case u.K == "array":
		var l []ValJ
		for i := 0; i < u.N; i++ {
			l = append(l, nonzero(u.Elem, zeroLeaves))
		}
		return ValJ{L: l}
	case u.K == "map":
		return ValJ{M: [][2]ValJ{{nonzero(u.Key, false), nonzero(u.Elem, zeroLeaves)}}}
	case u.K == "struct":
		var l []ValJ
		for i := range u.Fields {
			l = append(l, nonzero(&u.Fields[i].T, zeroLeaves))
		}
		return ValJ{L: l}
	}
	return ValJ{}
}

// ---- integer map keys that are distinct as integers but equal once converted to float64 ----
//
// ValueLit orders a map's entries by the key TEXTS.  Any "numeric" ordering that goes through float64 (strconv.ParseFloat,
// float64(k)) cannot tell 64-bit integers apart that lie closer together than the float spacing at their magnitude (2 from
// 2^53, 1024 at 2^62, 2048 near MaxUint64): such keys tie, the sort leaves them in reflect's randomised MapKeys order and
// the same value renders to different texts.  The family: maps with 2..8 keys from one such cluster (ids 1<<62+0..7, keys
// next to MaxInt64 / MinInt64 / MaxUint64 / 2^53 / -2^53), key type int64 / uint64 / int / uint / uintptr / named
// (time.Duration, c10types.Size), alone, mixed with small keys, as struct field, map value, slice element, behind a pointer.

type tieBase struct {
	uns  bool
	i    int64
	u    uint64
	down bool // offsets are subtracted
}

var tieBases = []tieBase{
	{i: 1 << 62}, {i: 1 << 53}, {i: -(1 << 53), down: true}, {i: math.MaxInt64, down: true}, {i: math.MinInt64}, {i: -(1 << 62), down: true},
	{i: 1<<60 + 12345}, {uns: true, u: 1 << 63}, {uns: true, u: math.MaxUint64, down: true}, {uns: true, u: 1 << 62}, {uns: true, u: 1<<53 + 1},
}

func tieKeyTypes(uns bool) []TypeJ {
	if uns {
		return []TypeJ{sc("uint64"), sc("uint"), sc("uintptr"), nm("c10types.Size")}
	}
	return []TypeJ{sc("int64"), sc("int"), nm("time.Duration")}
}

// tieMap: n keys base, base±1, .. (in the order given by perm) plus `extra` small keys
func tieMap(b tieBase, n int, extra []int64, elem func(i int) ValJ) ValJ {
	m := [][2]ValJ{}
	for i := 0; i < n; i++ {
		var k ValJ
		switch {
		case b.uns && b.down:
			k = uval(b.u - uint64(i))
		case b.uns:
			k = uval(b.u + uint64(i))
		case b.down:
			k = ival(b.i - int64(i))
		default:
			k = ival(b.i + int64(i))
		}
		m = append(m, [2]ValJ{k, elem(i)})
	}
	for j, x := range extra {
		if b.uns {
			m = append(m, [2]ValJ{uval(uint64(x)), elem(n + j)})
		} else {
			m = append(m, [2]ValJ{ival(x), elem(n + j)})
		}
	}
	return ValJ{M: m}
}

func floatTies() []json.RawMessage {
	var out []json.RawMessage
	add := func(note string, t TypeJ, v ValJ, i int) {
		self, via := selfMain, "value"
		if i%2 == 1 {
			self = selfTypes
		}
		if i%3 == 2 {
			via = "sprintf"
		}
		out = append(out, mk(t, v, self, via, note))
	}
	str := func(i int) ValJ { return sval(fmt.Sprintf("v%d", i)) }
	n := 0
	for bi, b := range tieBases {
		for ki, kt := range tieKeyTypes(b.uns) {
			for _, cnt := range []int{8, 3} {
				if cnt == 3 && (bi+ki)%2 == 1 {
					continue
				}
				var extra []int64
				if (bi+ki)%3 == 0 {
					extra = []int64{0, 7}
				}
				add(fmt.Sprintf("map keys that round to the same float64: %d keys", cnt), mapT(kt, sc("string")), tieMap(b, cnt, extra, str), n)
				n++
			}
		}
	}
	// nested: struct field, map value, slice element, behind a pointer, key and value both maps of this kind
	ids, big := tieBases[0], tieBases[8]
	mi, mu := mapT(sc("int64"), sc("string")), mapT(sc("uint64"), sc("bool"))
	bl := func(i int) ValJ { return bval(i%2 == 0) }
	add("tied keys: map in a struct field", structT(fld("Name", sc("string")), fld("M", mi)), lval(sval("n"), tieMap(ids, 5, nil, str)), 0)
	add("tied keys: map as map value", mapT(sc("string"), mu), ValJ{M: [][2]ValJ{{sval("a"), tieMap(big, 4, nil, bl)}, {sval("b"), tieMap(big, 3, nil, bl)}}}, 1)
	add("tied keys: maps in a slice", sliceT(mi), lval(tieMap(ids, 3, nil, str), tieMap(tieBases[3], 6, nil, str)), 2)
	add("tied keys: pointer to map", structT(fld("P", ptrT(mu))), lval(pval(tieMap(big, 8, nil, bl))), 3)
	add("tied keys: named keys, struct values", mapT(nm("time.Duration"), nm("c10types.Inner")),
		tieMap(ids, 4, nil, func(i int) ValJ { t := nm("c10types.Inner"); return nonzero(&t, false) }), 4)
	add("tied outer keys, tied inner keys", mapT(sc("int64"), mi), tieMap(ids, 3, nil, func(i int) ValJ { return tieMap(tieBases[1], 3, nil, str) }), 5)
	return out
}

// tie: a random member of the family
func (g *gen) tie() json.RawMessage {
	b := core.Pick(g.r, tieBases)
	if g.r.Chance(30) { // a random magnitude above 2^56: spacing >= 16
		if b.uns {
			b = tieBase{uns: true, u: g.r.Uint64() | 1<<57}
			b.down = b.u > math.MaxUint64-16
		} else {
			x := int64(g.r.Uint64()>>2 | 1<<57)
			if g.r.Bool() {
				x = -x
			}
			b = tieBase{i: x, down: x > 0 && x > math.MaxInt64-16}
		}
	}
	kt := core.Pick(g.r, tieKeyTypes(b.uns))
	et := g.typ(g.r.Intn(2), false)
	var extra []int64
	if g.r.Chance(30) {
		extra = []int64{int64(g.r.Intn(100))}
	}
	t := mapT(kt, et)
	v := tieMap(b, 2+g.r.Intn(7), extra, func(int) ValJ { return g.val(&et, 1) })
	for d := g.r.Intn(3); d > 0; d-- {
		k := core.Pick(g.r, []string{"slice", "struct", "map", "ptr"})
		if k == "ptr" && t.K == "ptr" {
			k = "slice"
		}
		t = wrapT(k, t)
		v = wrapV(&t, v)
	}
	self := selfMain
	if g.r.Chance(40) {
		self = selfTypes
	}
	via := "value"
	if g.r.Chance(30) {
		via = "sprintf"
	}
	return mk(t, v, self, via, "")
}

// ---- struct fields that are not the zero value and still render nothing ----
//
// A struct-typed field none of whose exported fields is rendered is omitted from the literal, and the type literal of an
// omitted field is never written: none of its packages may be imported.  "Renders nothing" is a recursive notion (every
// field is empty for reflectx.IsEmptyValue - nil OR EMPTY slices and maps included - or is itself such a struct); it is
// not reflect's IsZero (an empty non-nil slice or map is not zero), not IsEmptyValue of the struct, and not a test of the
// first level only.  The family: a field of a struct type of another package - a package nothing else in the file
// mentions, so the outer type is a NAMED type - whose value holds nothing but empty non-nil (or nil) slices and maps,
// 1..3 struct levels below the field (Sealed.Blk.Headers, Sealed.Alg.Parameters.Bytes, Vault.S.Alg.Parameters.Bytes),
// every single slice/map of it empty-non-nil in turn and all of them together, the holder at top level, as slice element,
// array element, map value, behind a pointer and in fields of unnamed structs, rendered for both target packages;
// next to each: the same shape with every slice/map nil (the zero field) and with one of them holding an element.

// paths of the slices and maps inside t that are reached through struct fields only
func hollowSlots(t *TypeJ, prefix []int, acc *[][]int) {
	u := under(t)
	switch u.K {
	case "slice", "map":
		*acc = append(*acc, append([]int{}, prefix...))
	case "struct":
		for i := range u.Fields {
			hollowSlots(&u.Fields[i].T, append(prefix, i), acc)
		}
	}
}

// the zero value of t with the slot at path set by f
func withSlot(t *TypeJ, v ValJ, path []int, f func(t *TypeJ) ValJ) ValJ {
	if len(path) == 0 {
		return f(t)
	}
	u := under(t)
	w := v
	w.L = append([]ValJ{}, v.L...)
	w.L[path[0]] = withSlot(&u.Fields[path[0]].T, v.L[path[0]], path[1:], f)
	return w
}

func emptyNonNil(t *TypeJ) ValJ {
	if under(t).K == "map" {
		return ValJ{M: [][2]ValJ{}}
	}
	return ValJ{L: []ValJ{}}
}

func oneElement(t *TypeJ) ValJ {
	u := under(t)
	if u.K == "map" {
		return ValJ{M: [][2]ValJ{{nonzero(u.Key, false), nonzero(u.Elem, false)}}}
	}
	return lval(nonzero(u.Elem, false))
}

var hollowHolders = []string{"c10types.Sealed", "c10types.Vault"}

// ways to place a holder value below the rendered value
var hollowPlaces = []string{"top", "slice", "map", "ptr", "array", "field", "field-ptr", "slice-ptr", "map-slice"}

func placeHollow(place string, t TypeJ, v ValJ) (TypeJ, ValJ) {
	wrap := func(kind string) {
		t = wrapT(kind, t)
		v = wrapV(&t, v)
	}
	switch place {
	case "slice", "map", "ptr", "array":
		wrap(place)
	case "field":
		wrap("struct2")
	case "field-ptr":
		wrap("ptr")
		wrap("struct2")
	case "slice-ptr":
		wrap("ptr")
		wrap("slice")
	case "map-slice":
		wrap("slice")
		wrap("map")
	}
	return t, v
}

func hollow() []json.RawMessage {
	var out []json.RawMessage
	k := 0
	add := func(note string, t TypeJ, v ValJ) {
		self, via := selfMain, "value"
		if k%2 == 1 {
			self = selfTypes
		}
		if k%3 == 2 {
			via = "sprintf"
		}
		t, v = placeHollow(hollowPlaces[k%len(hollowPlaces)], t, v)
		out = append(out, mk(t, v, self, via, note))
		k++
	}
	for _, name := range hollowHolders {
		t := nm(name)
		var slots [][]int
		hollowSlots(&t, nil, &slots)
		z := zeroVal(&t)
		// every slice / map below the holder's struct fields, one at a time: empty non-nil (renders nothing), then with an element
		for _, p := range slots {
			if len(p) < 2 && name == "c10types.Vault" {
				continue // Vault.Exts / Vault.ByName are fields of the rendered type itself, not of a struct-typed field
			}
			add(fmt.Sprintf("hollow: %s, the slice/map at field path %v empty but not nil, all else zero", name, p), t, withSlot(&t, z, p, emptyNonNil))
			if k%4 == 0 {
				add(fmt.Sprintf("control: %s, the slice/map at field path %v holds one element", name, p), t, withSlot(&t, z, p, oneElement))
			}
		}
		// all of them empty non-nil; all but the scalar N/Name zero
		all := z
		for _, p := range slots {
			all = withSlot(&t, all, p, emptyNonNil)
		}
		for i := 0; i < len(hollowPlaces); i++ {
			add("hollow: "+name+", every slice/map empty but not nil", t, all)
		}
		add("control: "+name+", the zero value", t, z)
	}
	// the foreign struct types directly as fields of an unnamed struct (their packages are mentioned by the type literal) and
	// of the own-package holder next to a field that IS rendered
	for _, name := range []string{"pem.Block", "asn1.RawValue", "asn1.BitString", "pkix.AlgorithmIdentifier", "pkix.Extension", "net.IPNet"} {
		ft := nm(name)
		var slots [][]int
		hollowSlots(&ft, nil, &slots)
		fv := zeroVal(&ft)
		for _, p := range slots {
			fv = withSlot(&ft, fv, p, emptyNonNil)
		}
		add("hollow: "+name+" itself, every slice/map below it empty but not nil", ft, fv)
		add("hollow field of "+name+" in an unnamed struct", structT(fld("N", sc("int")), fld("F", ft)), lval(ival(1), fv))
		add("hollow elements / values / pointee of "+name, structT(fld("S", sliceT(ft)), fld("M", mapT(sc("string"), ft)), fld("P", ptrT(ft))),
			lval(lval(fv), ValJ{M: [][2]ValJ{{sval("k"), fv}}}, pval(fv)))
	}
	st := nm("c10types.Sealed")
	sv := zeroVal(&st)
	sv = withSlot(&st, sv, []int{2, 1}, emptyNonNil) // Blk.Headers
	sv = withSlot(&st, sv, []int{4}, func(*TypeJ) ValJ { return ival(5) })
	add("hollow field next to a rendered one: Sealed{Blk: {Headers: {}}, N: 5}", st, sv)
	sv = withSlot(&st, sv, []int{1, 0}, oneElement) // Sig.Bytes
	add("hollow field next to a rendered field of another package: Sealed{Sig: {Bytes: {7}}, Blk: {Headers: {}}, N: 5}", st, sv)
	return out
}

// hollowVal: zero scalars, nil pointers; every slice/map nil or empty non-nil; with probability fill %, one of them gets an element
func (g *gen) hollowVal(t *TypeJ, fill int) ValJ {
	var slots [][]int
	hollowSlots(t, nil, &slots)
	v := zeroVal(t)
	for _, p := range slots {
		if g.r.Chance(60) {
			v = withSlot(t, v, p, emptyNonNil)
		}
	}
	if len(slots) > 0 && g.r.Chance(fill) {
		v = withSlot(t, v, core.Pick(g.r, slots), oneElement)
	}
	return v
}

// a random member of the family
func (g *gen) hollowOne() json.RawMessage {
	var t TypeJ
	switch g.r.Intn(4) {
	case 0, 1:
		t = nm(core.Pick(g.r, hollowHolders))
	case 2:
		t = structT(fld("N", sc("int")), fld("F", nm(core.Pick(g.r, []string{"c10types.Sealed", "c10types.Vault", "pem.Block", "asn1.RawValue", "pkix.AlgorithmIdentifier", "net.IPNet"}))))
	default:
		t = nm(core.Pick(g.r, []string{"pem.Block", "asn1.RawValue", "asn1.BitString", "pkix.AlgorithmIdentifier", "pkix.Extension", "net.IPNet"}))
		t = structT(fld("A", t), fld("H", nm(core.Pick(g.r, hollowHolders))))
	}
	v := g.hollowVal(&t, 25)
	for d := g.r.Intn(4); d > 0; d-- {
		k := core.Pick(g.r, []string{"slice", "struct", "struct2", "map", "ptr", "array"})
		if k == "ptr" && t.K == "ptr" {
			k = "slice"
		}
		t = wrapT(k, t)
		v = wrapV(&t, v)
	}
	self := selfMain
	if g.r.Chance(50) {
		self = selfTypes
	}
	via := "value"
	if g.r.Chance(30) {
		via = "sprintf"
	}
	return mk(t, v, self, via, "")
}
