package c10

import "math"

// classOf names the shape of the INPUT (independent of what the code does with it); distinct shapes
// are reported and shrunk separately.  None of them is a known finding.
func classOf(t *TypeJ, v *ValJ) string {
	c := &classifier{}
	c.walk(t, v, false, false)
	switch {
	case c.uintptr:
		return "contains_uintptr"
	case c.bigFloat:
		return "float_of_512_bits_or_more"
	case c.ptrString:
		return "pointer_to_string"
	case c.ptrNamed:
		return "pointer_to_named_scalar"
	case c.zeroStruct:
		return "zero_struct_below_pointer_or_map_in_struct_field"
	case c.hollowNamed:
		return "struct_field_of_named_type_holding_only_empty_slices_or_maps"
	case c.omittedNamed:
		return "omitted_struct_field_of_named_type"
	}
	return ""
}

type classifier struct{ uintptr, bigFloat, ptrString, ptrNamed, zeroStruct, omittedNamed, hollowNamed bool }

// the type literal of t mentions a named type (so rendering it registers an import unless it is the target package's own)
func mentionsNamed(t *TypeJ) bool {
	switch t.K {
	case "named":
		return true
	case "ptr", "slice", "array":
		return t.Elem != nil && mentionsNamed(t.Elem)
	case "map":
		return (t.Key != nil && mentionsNamed(t.Key)) || (t.Elem != nil && mentionsNamed(t.Elem))
	case "struct":
		for i := range t.Fields {
			if mentionsNamed(&t.Fields[i].T) {
				return true
			}
		}
	}
	return false
}

func isScalarKind(k string) bool {
	return k == "bool" || k == "string" || isIntKind(k) || isFloatKind(k)
}

// emptyValue mirrors reflectx.IsEmptyValue on the universe
func emptyValue(t *TypeJ, v *ValJ) bool {
	u := under(t)
	switch {
	case u.K == "bool":
		return !v.B
	case isIntKind(u.K):
		return v.I == "0" || v.I == "" || v.I == "-0"
	case isFloatKind(u.K):
		return floatOf(v) == 0
	case u.K == "string":
		return len(v.S) == 0
	case u.K == "ptr":
		return v.Nil || v.P == nil
	case u.K == "slice", u.K == "array":
		return len(v.L) == 0
	case u.K == "map":
		return len(v.M) == 0
	}
	return false
}

// a struct all of whose fields are omitted
func rendersEmpty(t *TypeJ, v *ValJ) bool {
	u := under(t)
	if u.K != "struct" {
		return false
	}
	for i := range v.L {
		if i >= len(u.Fields) {
			break
		}
		if emptyValue(&u.Fields[i].T, &v.L[i]) || rendersEmpty(&u.Fields[i].T, &v.L[i]) {
			continue
		}
		return false
	}
	return true
}

// a slice or map that is empty but not nil, reached through struct fields only
func holdsEmptyNonNil(t *TypeJ, v *ValJ) bool {
	u := under(t)
	switch u.K {
	case "slice":
		return !v.Nil && len(v.L) == 0
	case "map":
		return !v.Nil && len(v.M) == 0
	case "struct":
		for i := range v.L {
			if i < len(u.Fields) && holdsEmptyNonNil(&u.Fields[i].T, &v.L[i]) {
				return true
			}
		}
	}
	return false
}

// inField: below a struct field with no slice/array in between; viaPM: the parent is a pointer or a map
func (c *classifier) walk(t *TypeJ, v *ValJ, inField, viaPM bool) {
	u := under(t)
	switch {
	case u.K == "uintptr":
		c.uintptr = true
	case isFloatKind(u.K):
		if math.Abs(floatOf(v)) >= 0x1p512 {
			c.bigFloat = true
		}
	case u.K == "ptr":
		if v.Nil || v.P == nil {
			return
		}
		eu := under(u.Elem)
		if eu.K == "string" {
			c.ptrString = true
		}
		if u.Elem.K == "named" && isScalarKind(eu.K) {
			c.ptrNamed = true
		}
		c.walk(u.Elem, v.P, inField, true)
	case u.K == "slice", u.K == "array":
		for i := range v.L {
			c.walk(u.Elem, &v.L[i], false, false)
		}
	case u.K == "map":
		for i := range v.M {
			c.walk(u.Key, &v.M[i][0], inField, true)
			c.walk(u.Elem, &v.M[i][1], inField, true)
		}
	case u.K == "struct":
		if inField && viaPM && rendersEmpty(t, v) {
			c.zeroStruct = true
		}
		if inField && !viaPM && rendersEmpty(t, v) && mentionsNamed(t) {
			c.omittedNamed = true // the field is omitted from the literal: its type's packages must not be imported (fixes/C10-6)
			if holdsEmptyNonNil(t, v) {
				c.hollowNamed = true // ... and it is not the zero value
			}
		}
		for i := range v.L {
			if i < len(u.Fields) {
				c.walk(&u.Fields[i].T, &v.L[i], true, false)
			}
		}
	}
}
