package c10

import (
	"crypto/x509/pkix"
	"encoding/asn1"
	"encoding/pem"
	"fmt"
	"image"
	"io/fs"
	"math"
	"math/big"
	"net"
	"net/url"
	"reflect"
	"strconv"
	"strings"
	"time"

	c10alt "verifharness/c10alt/c10types"
	"verifharness/c10types"
	"verifharness/internal/core"
)

// ---- JSON round-trippable description of a (type, value) pair ----

type TypeJ struct {
	K      string   `json:"k"` // bool int int8 ... uintptr float32 float64 string named ptr slice array map struct | any complex128
	Name   string   `json:"name,omitempty"`
	Elem   *TypeJ   `json:"elem,omitempty"`
	Key    *TypeJ   `json:"key,omitempty"`
	N      int      `json:"n,omitempty"`
	Fields []FieldJ `json:"fields,omitempty"`
}

type FieldJ struct {
	Name string `json:"name"`
	T    TypeJ  `json:"t"`
}

type ValJ struct {
	B   bool      `json:"b,omitempty"`
	I   string    `json:"i,omitempty"` // integers, decimal
	F   string    `json:"f,omitempty"` // floats: math.Float64bits in hex (float32 values widened)
	S   []byte    `json:"s,omitempty"`
	Q   string    `json:"q,omitempty"` // readable copy of S / F
	Nil bool      `json:"nil,omitempty"`
	P   *ValJ     `json:"p,omitempty"`
	L   []ValJ    `json:"l,omitempty"`
	M   [][2]ValJ `json:"m,omitempty"`
}

type named struct {
	RT    reflect.Type
	Under TypeJ
	OOD   bool // outside the property's domain
}

func sc(k string) TypeJ            { return TypeJ{K: k} }
func nm(n string) TypeJ            { return TypeJ{K: "named", Name: n} }
func ptrT(e TypeJ) TypeJ           { return TypeJ{K: "ptr", Elem: &e} }
func sliceT(e TypeJ) TypeJ         { return TypeJ{K: "slice", Elem: &e} }
func arrayT(n int, e TypeJ) TypeJ  { return TypeJ{K: "array", N: n, Elem: &e} }
func mapT(k, e TypeJ) TypeJ        { return TypeJ{K: "map", Key: &k, Elem: &e} }
func structT(fs ...FieldJ) TypeJ   { return TypeJ{K: "struct", Fields: fs} }
func fld(n string, t TypeJ) FieldJ { return FieldJ{Name: n, T: t} }

var innerU = structT(fld("A", sc("int")), fld("B", sc("string")))

var registry = map[string]named{
	"c10types.Color": {RT: reflect.TypeOf(c10types.Color(0)), Under: sc("int")},
	"c10types.Level": {RT: reflect.TypeOf(c10types.Level(0)), Under: sc("int8")},
	"c10types.Flag":  {RT: reflect.TypeOf(c10types.Flag(false)), Under: sc("bool")},
	"c10types.Name":  {RT: reflect.TypeOf(c10types.Name("")), Under: sc("string")},
	"c10types.Ratio": {RT: reflect.TypeOf(c10types.Ratio(0)), Under: sc("float64")},
	"c10types.Code":  {RT: reflect.TypeOf(c10types.Code(0)), Under: sc("int32")},
	"c10types.Size":  {RT: reflect.TypeOf(c10types.Size(0)), Under: sc("uint64")},
	"c10types.Addr":  {RT: reflect.TypeOf(c10types.Addr(0)), Under: sc("uintptr")},
	"c10types.Inner": {RT: reflect.TypeOf(c10types.Inner{}), Under: innerU},
	"c10types.Point": {RT: reflect.TypeOf(c10types.Point{}), Under: structT(fld("X", sc("float64")), fld("Y", sc("float64")))},
	"c10types.Tags":  {RT: reflect.TypeOf(c10types.Tags(nil)), Under: sliceT(sc("string"))},
	"c10types.Dict":  {RT: reflect.TypeOf(c10types.Dict(nil)), Under: mapT(sc("string"), sc("int"))},
	"c10types.Pair":  {RT: reflect.TypeOf(c10types.Pair{}), Under: arrayT(2, sc("int"))},
	"c10types.Node": {RT: reflect.TypeOf(c10types.Node{}), Under: structT(
		fld("Name", nm("c10types.Name")), fld("Next", ptrT(nm("c10types.Inner"))), fld("Kids", sliceT(nm("c10types.Inner"))),
		fld("Attr", mapT(nm("c10types.Name"), nm("c10types.Inner"))), fld("P", ptrT(sc("string"))),
		fld("C", ptrT(nm("c10types.Color"))), fld("In", nm("c10types.Inner")))},
	"c10types.Box": {RT: reflect.TypeOf(c10types.Box{}), Under: structT(
		fld("P", nm("image.Point")), fld("D", nm("time.Duration")), fld("In", nm("c10types.Inner")), fld("N", sc("int")))},
	"c10types.Wrap": {RT: reflect.TypeOf(c10types.Wrap{}), Under: structT(
		fld("B", nm("c10types.Box")), fld("U", nm("url.Values")), fld("Q", ptrT(nm("image.Point"))))},
	// a second package called c10types (not used by the C10 stream: its generated programs do not contain it)
	"c10alt.Tag":      {RT: reflect.TypeOf(c10alt.Tag{}), Under: structT(fld("N", sc("int")), fld("S", sc("string")))},
	"c10alt.Unit":     {RT: reflect.TypeOf(c10alt.Unit(0)), Under: sc("int")},
	"c10alt.Frame":    {RT: reflect.TypeOf(c10alt.Frame{}), Under: structT(fld("R", nm("image.Rectangle")), fld("N", sc("int")))},
	"image.Rectangle": {RT: reflect.TypeOf(image.Rectangle{}), Under: structT(fld("Min", nm("image.Point")), fld("Max", nm("image.Point")))},
	// types from other packages
	"time.Duration": {RT: reflect.TypeOf(time.Duration(0)), Under: sc("int64")},
	"time.Month":    {RT: reflect.TypeOf(time.Month(0)), Under: sc("int")},
	"fs.FileMode":   {RT: reflect.TypeOf(fs.FileMode(0)), Under: sc("uint32")},
	"image.Point":   {RT: reflect.TypeOf(image.Point{}), Under: structT(fld("X", sc("int")), fld("Y", sc("int")))},
	"net.IP":        {RT: reflect.TypeOf(net.IP(nil)), Under: sliceT(sc("uint8"))},
	"url.Values":    {RT: reflect.TypeOf(url.Values(nil)), Under: mapT(sc("string"), sliceT(sc("string")))},
	"reflect.Kind":  {RT: reflect.TypeOf(reflect.Kind(0)), Under: sc("uint")},
	// struct types of other packages that hold slices / maps / further such structs, and own-package types with fields of them
	"asn1.ObjectIdentifier": {RT: reflect.TypeOf(asn1.ObjectIdentifier(nil)), Under: sliceT(sc("int"))},
	"asn1.RawValue": {RT: reflect.TypeOf(asn1.RawValue{}), Under: structT(fld("Class", sc("int")), fld("Tag", sc("int")),
		fld("IsCompound", sc("bool")), fld("Bytes", sliceT(sc("uint8"))), fld("FullBytes", sliceT(sc("uint8"))))},
	"asn1.BitString": {RT: reflect.TypeOf(asn1.BitString{}), Under: structT(fld("Bytes", sliceT(sc("uint8"))), fld("BitLength", sc("int")))},
	"pkix.AlgorithmIdentifier": {RT: reflect.TypeOf(pkix.AlgorithmIdentifier{}), Under: structT(
		fld("Algorithm", nm("asn1.ObjectIdentifier")), fld("Parameters", nm("asn1.RawValue")))},
	"pkix.Extension": {RT: reflect.TypeOf(pkix.Extension{}), Under: structT(
		fld("Id", nm("asn1.ObjectIdentifier")), fld("Critical", sc("bool")), fld("Value", sliceT(sc("uint8"))))},
	"pem.Block": {RT: reflect.TypeOf(pem.Block{}), Under: structT(
		fld("Type", sc("string")), fld("Headers", mapT(sc("string"), sc("string"))), fld("Bytes", sliceT(sc("uint8"))))},
	"net.IPMask": {RT: reflect.TypeOf(net.IPMask(nil)), Under: sliceT(sc("uint8"))},
	"net.IPNet":  {RT: reflect.TypeOf(net.IPNet{}), Under: structT(fld("IP", nm("net.IP")), fld("Mask", nm("net.IPMask")))},
	"c10types.Sealed": {RT: reflect.TypeOf(c10types.Sealed{}), Under: structT(
		fld("Alg", nm("pkix.AlgorithmIdentifier")), fld("Sig", nm("asn1.BitString")), fld("Blk", nm("pem.Block")),
		fld("Net", nm("net.IPNet")), fld("N", sc("int")))},
	"c10types.Vault": {RT: reflect.TypeOf(c10types.Vault{}), Under: structT(
		fld("S", nm("c10types.Sealed")), fld("Exts", sliceT(nm("pkix.Extension"))), fld("ByName", mapT(sc("string"), nm("pem.Block"))),
		fld("Raw", ptrT(nm("asn1.RawValue"))), fld("Name", sc("string")))},
	// outside the domain
	"c10types.Hidden": {RT: reflect.TypeOf(c10types.Hidden{}), Under: structT(fld("A", sc("int"))), OOD: true},
}

var scalarRT = map[string]reflect.Type{
	"bool": reflect.TypeOf(false), "string": reflect.TypeOf(""),
	"int": reflect.TypeOf(int(0)), "int8": reflect.TypeOf(int8(0)), "int16": reflect.TypeOf(int16(0)),
	"int32": reflect.TypeOf(int32(0)), "int64": reflect.TypeOf(int64(0)),
	"uint": reflect.TypeOf(uint(0)), "uint8": reflect.TypeOf(uint8(0)), "uint16": reflect.TypeOf(uint16(0)),
	"uint32": reflect.TypeOf(uint32(0)), "uint64": reflect.TypeOf(uint64(0)), "uintptr": reflect.TypeOf(uintptr(0)),
	"float32": reflect.TypeOf(float32(0)), "float64": reflect.TypeOf(float64(0)),
	"complex128": reflect.TypeOf(complex128(0)), "any": reflect.TypeOf((*any)(nil)).Elem(),
}

var coqKind = map[string]string{
	"int": "KInt", "int8": "KInt8", "int16": "KInt16", "int32": "KInt32", "int64": "KInt64",
	"uint": "KUint", "uint8": "KUint8", "uint16": "KUint16", "uint32": "KUint32", "uint64": "KUint64", "uintptr": "KUintptr",
}

func isIntKind(k string) bool   { _, ok := coqKind[k]; return ok }
func isFloatKind(k string) bool { return k == "float32" || k == "float64" }

func under(t *TypeJ) *TypeJ {
	if t.K == "named" {
		if n, ok := registry[t.Name]; ok {
			u := n.Under
			return &u
		}
	}
	return t
}

func rtype(t *TypeJ) (rt reflect.Type, err error) {
	defer func() {
		if r := recover(); r != nil {
			err = fmt.Errorf("rtype: %v", r)
		}
	}()
	if s, ok := scalarRT[t.K]; ok {
		return s, nil
	}
	switch t.K {
	case "named":
		n, ok := registry[t.Name]
		if !ok {
			return nil, fmt.Errorf("unknown named type %q", t.Name)
		}
		return n.RT, nil
	case "ptr", "slice", "array":
		if t.Elem == nil {
			return nil, fmt.Errorf("%s without elem", t.K)
		}
		e, err := rtype(t.Elem)
		if err != nil {
			return nil, err
		}
		switch t.K {
		case "ptr":
			return reflect.PointerTo(e), nil
		case "slice":
			return reflect.SliceOf(e), nil
		}
		return reflect.ArrayOf(t.N, e), nil
	case "map":
		if t.Elem == nil || t.Key == nil {
			return nil, fmt.Errorf("map without key/elem")
		}
		k, err := rtype(t.Key)
		if err != nil {
			return nil, err
		}
		e, err := rtype(t.Elem)
		if err != nil {
			return nil, err
		}
		return reflect.MapOf(k, e), nil
	case "struct":
		var fs []reflect.StructField
		for _, f := range t.Fields {
			ft, err := rtype(&f.T)
			if err != nil {
				return nil, err
			}
			fs = append(fs, reflect.StructField{Name: f.Name, Type: ft})
		}
		return reflect.StructOf(fs), nil
	}
	return nil, fmt.Errorf("unknown kind %q", t.K)
}

func floatOf(v *ValJ) float64 {
	b, _ := strconv.ParseUint(strings.TrimPrefix(v.F, "0x"), 16, 64)
	return math.Float64frombits(b)
}

func fval(f float64) ValJ {
	return ValJ{F: fmt.Sprintf("0x%016x", math.Float64bits(f)), Q: strconv.FormatFloat(f, 'g', -1, 64)}
}
func ival(i int64) ValJ    { return ValJ{I: strconv.FormatInt(i, 10)} }
func uval(u uint64) ValJ   { return ValJ{I: strconv.FormatUint(u, 10)} }
func sval(s string) ValJ   { return ValJ{S: []byte(s), Q: strconv.Quote(s)} }
func bval(b bool) ValJ     { return ValJ{B: b} }
func pval(v ValJ) ValJ     { return ValJ{P: &v} }
func lval(vs ...ValJ) ValJ { return ValJ{L: append([]ValJ{}, vs...)} }
func nilval() ValJ         { return ValJ{Nil: true} }

// build constructs the Go value described by (t, v).
func build(t *TypeJ, v *ValJ) (out reflect.Value, err error) {
	defer func() {
		if r := recover(); r != nil {
			err = fmt.Errorf("build: %v", r)
		}
	}()
	rt, err := rtype(t)
	if err != nil {
		return reflect.Value{}, err
	}
	out = reflect.New(rt).Elem()
	u := under(t)
	switch {
	case u.K == "bool":
		out.SetBool(v.B)
	case isIntKind(u.K):
		z, ok := new(big.Int).SetString(v.I, 10)
		if !ok {
			z = new(big.Int)
		}
		if strings.HasPrefix(u.K, "u") {
			if !z.IsUint64() || out.OverflowUint(z.Uint64()) {
				return out, fmt.Errorf("integer %s out of range of %s", v.I, u.K)
			}
			out.SetUint(z.Uint64())
		} else {
			if !z.IsInt64() || out.OverflowInt(z.Int64()) {
				return out, fmt.Errorf("integer %s out of range of %s", v.I, u.K)
			}
			out.SetInt(z.Int64())
		}
	case isFloatKind(u.K):
		f := floatOf(v)
		if u.K == "float32" && !math.IsNaN(f) && !math.IsInf(f, 0) && float64(float32(f)) != f {
			return out, fmt.Errorf("%v is not a float32", f)
		}
		out.SetFloat(f)
	case u.K == "complex128":
		out.SetComplex(complex(1, 2))
	case u.K == "string":
		out.SetString(string(v.S))
	case u.K == "any":
		if !v.Nil {
			out.Set(reflect.ValueOf(string(v.S)))
		}
	case u.K == "ptr":
		if v.Nil || v.P == nil {
			return out, nil
		}
		e, err := build(u.Elem, v.P)
		if err != nil {
			return out, err
		}
		p := reflect.New(e.Type())
		p.Elem().Set(e)
		out.Set(p.Convert(rt))
	case u.K == "slice":
		if v.Nil {
			return out, nil
		}
		s := reflect.MakeSlice(rt, len(v.L), len(v.L))
		for i := range v.L {
			e, err := build(u.Elem, &v.L[i])
			if err != nil {
				return out, err
			}
			s.Index(i).Set(e)
		}
		out.Set(s)
	case u.K == "array":
		if len(v.L) != u.N {
			return out, fmt.Errorf("array of %d with %d elements", u.N, len(v.L))
		}
		for i := range v.L {
			e, err := build(u.Elem, &v.L[i])
			if err != nil {
				return out, err
			}
			out.Index(i).Set(e)
		}
	case u.K == "map":
		if v.Nil {
			return out, nil
		}
		m := reflect.MakeMapWithSize(rt, len(v.M))
		for i := range v.M {
			k, err := build(u.Key, &v.M[i][0])
			if err != nil {
				return out, err
			}
			e, err := build(u.Elem, &v.M[i][1])
			if err != nil {
				return out, err
			}
			if m.MapIndex(k).IsValid() {
				return out, fmt.Errorf("duplicate map key")
			}
			m.SetMapIndex(k, e)
		}
		if m.Len() != len(v.M) { // NaN keys
			return out, fmt.Errorf("map keys collapse")
		}
		out.Set(m)
	case u.K == "struct":
		if t.K == "named" && registry[t.Name].OOD {
			out.Set(reflect.ValueOf(c10types.NewHidden(1, 2)))
			return out, nil
		}
		if len(v.L) != len(u.Fields) {
			return out, fmt.Errorf("struct of %d fields with %d values", len(u.Fields), len(v.L))
		}
		for i := range v.L {
			e, err := build(&u.Fields[i].T, &v.L[i])
			if err != nil {
				return out, err
			}
			out.Field(i).Set(e)
		}
	default:
		return out, fmt.Errorf("unknown kind %q", u.K)
	}
	return out, nil
}

// inDomain: the (type, value) pair is in the property's domain and in the model's universe.
func inDomain(t *TypeJ, v *ValJ, underPtr, asKey bool) bool {
	if t.K == "named" && registry[t.Name].OOD {
		return false
	}
	u := under(t)
	switch {
	case u.K == "bool", u.K == "string", isIntKind(u.K):
		return true
	case isFloatKind(u.K):
		f := floatOf(v)
		return !math.IsNaN(f) && !math.IsInf(f, 0)
	case u.K == "ptr":
		if underPtr || asKey {
			return false
		}
		if v.Nil || v.P == nil {
			return typeInDomain(u.Elem, true, false)
		}
		return inDomain(u.Elem, v.P, true, false)
	case u.K == "slice":
		if asKey {
			return false
		}
		for i := range v.L {
			if !inDomain(u.Elem, &v.L[i], false, false) {
				return false
			}
		}
		return typeInDomain(u.Elem, false, false)
	case u.K == "array":
		for i := range v.L {
			if !inDomain(u.Elem, &v.L[i], false, asKey) {
				return false
			}
		}
		return typeInDomain(u.Elem, false, asKey)
	case u.K == "map":
		if asKey {
			return false
		}
		for i := range v.M {
			if !inDomain(u.Key, &v.M[i][0], false, true) || !inDomain(u.Elem, &v.M[i][1], false, false) {
				return false
			}
		}
		return typeInDomain(u.Key, false, true) && typeInDomain(u.Elem, false, false)
	case u.K == "struct":
		for i := range u.Fields {
			if len(u.Fields[i].Name) == 0 || u.Fields[i].Name[0] < 'A' || u.Fields[i].Name[0] > 'Z' {
				return false
			}
			if i < len(v.L) && !inDomain(&u.Fields[i].T, &v.L[i], false, asKey) {
				return false
			}
		}
		return len(v.L) == len(u.Fields)
	}
	return false
}

func typeInDomain(t *TypeJ, underPtr, asKey bool) bool {
	if t.K == "named" && registry[t.Name].OOD {
		return false
	}
	u := under(t)
	switch u.K {
	case "bool", "string", "float32", "float64":
		return true
	case "ptr":
		return !underPtr && !asKey && typeInDomain(u.Elem, true, false)
	case "slice":
		return !asKey && typeInDomain(u.Elem, false, false)
	case "array":
		return typeInDomain(u.Elem, false, asKey)
	case "map":
		return !asKey && typeInDomain(u.Key, false, true) && typeInDomain(u.Elem, false, false)
	case "struct":
		for i := range u.Fields {
			if !typeInDomain(&u.Fields[i].T, false, asKey) {
				return false
			}
		}
		return true
	}
	return isIntKind(u.K)
}

// ---- Coq terms ----

func coqType(t *TypeJ) string {
	switch {
	case t.K == "bool":
		return "TBool"
	case t.K == "string":
		return "TString"
	case isIntKind(t.K):
		return "(TInt " + coqKind[t.K] + ")"
	case t.K == "float32":
		return "(TFloat KF32)"
	case t.K == "float64":
		return "(TFloat KF64)"
	case t.K == "named":
		n := registry[t.Name]
		return "(TNamed " + core.Hex(n.RT.PkgPath()) + " " + core.Hex(n.RT.Name()) + " " + coqType(&n.Under) + ")"
	case t.K == "ptr":
		return "(TPtr " + coqType(t.Elem) + ")"
	case t.K == "slice":
		return "(TSlice " + coqType(t.Elem) + ")"
	case t.K == "array":
		return fmt.Sprintf("(TArray %d%%nat %s)", t.N, coqType(t.Elem))
	case t.K == "map":
		return "(TMap " + coqType(t.Key) + " " + coqType(t.Elem) + ")"
	case t.K == "struct":
		var fs []string
		for i := range t.Fields {
			fs = append(fs, "("+core.Hex(t.Fields[i].Name)+", "+coqType(&t.Fields[i].T)+")")
		}
		return "(TStruct " + core.CoqList(fs) + ")"
	}
	return "TBool"
}

func coqZ(s string) string {
	if strings.HasPrefix(s, "-") {
		return "(" + s + ")%Z"
	}
	if s == "" {
		s = "0"
	}
	return s + "%Z"
}

func bitsOf(k string) int {
	if k == "float32" {
		return 32
	}
	return 64
}

func coqFloat(f float64, bits int) string {
	return fmt.Sprintf("(mk_fl %s %s %s %s)",
		core.Hex(strconv.FormatFloat(f, 'g', -1, bits)),
		core.Hex(strconv.FormatFloat(f, 'f', -1, bits)),
		core.Hex(strconv.FormatFloat(f, 'g', -1, bits)),
		core.CoqBool(math.Abs(f) >= 1e21))
}

func coqVal(t *TypeJ, v *ValJ) string {
	u := under(t)
	switch {
	case u.K == "bool":
		return "(VBool " + core.CoqBool(v.B) + ")"
	case isIntKind(u.K):
		return "(VInt " + coqZ(v.I) + ")"
	case isFloatKind(u.K):
		return "(VFloat " + coqFloat(floatOf(v), bitsOf(u.K)) + ")"
	case u.K == "string":
		return "(VStr " + core.Hex(string(v.S)) + ")"
	case u.K == "ptr":
		if v.Nil || v.P == nil {
			return "VNilPtr"
		}
		return "(VPtr " + coqVal(u.Elem, v.P) + ")"
	case u.K == "slice":
		var xs []string
		for i := range v.L {
			xs = append(xs, coqVal(u.Elem, &v.L[i]))
		}
		return "(VSlice " + core.CoqBool(v.Nil) + " " + core.CoqList(xs) + ")"
	case u.K == "array":
		var xs []string
		for i := range v.L {
			xs = append(xs, coqVal(u.Elem, &v.L[i]))
		}
		return "(VArray " + core.CoqList(xs) + ")"
	case u.K == "map":
		var xs []string
		for i := range v.M {
			xs = append(xs, "("+coqVal(u.Key, &v.M[i][0])+", "+coqVal(u.Elem, &v.M[i][1])+")")
		}
		return "(VMap " + core.CoqBool(v.Nil) + " " + core.CoqList(xs) + ")"
	case u.K == "struct":
		var xs []string
		for i := range v.L {
			if i < len(u.Fields) {
				xs = append(xs, coqVal(&u.Fields[i].T, &v.L[i]))
			}
		}
		return "(VStruct " + core.CoqList(xs) + ")"
	}
	return "VNilPtr"
}

// strings occurring in the value (for the strconv.Quote table)
func stringsOf(t *TypeJ, v *ValJ, acc map[string]bool) {
	u := under(t)
	switch u.K {
	case "string":
		acc[string(v.S)] = true
	case "ptr":
		if !v.Nil && v.P != nil {
			stringsOf(u.Elem, v.P, acc)
		}
	case "slice", "array":
		for i := range v.L {
			stringsOf(u.Elem, &v.L[i], acc)
		}
	case "map":
		for i := range v.M {
			stringsOf(u.Key, &v.M[i][0], acc)
			stringsOf(u.Elem, &v.M[i][1], acc)
		}
	case "struct":
		for i := range v.L {
			if i < len(u.Fields) {
				stringsOf(&u.Fields[i].T, &v.L[i], acc)
			}
		}
	}
}

// Go source text of the type, as the generated program declares it: c10types names qualified with
// q (empty when the file is in that package), other packages through the alias function.
func goType(t *TypeJ, q string, alias func(path string) string) string {
	switch t.K {
	case "named":
		n := registry[t.Name]
		if n.RT.PkgPath() == c10typesPath {
			return q + n.RT.Name()
		}
		return alias(n.RT.PkgPath()) + "." + n.RT.Name()
	case "ptr":
		return "*" + goType(t.Elem, q, alias)
	case "slice":
		return "[]" + goType(t.Elem, q, alias)
	case "array":
		return fmt.Sprintf("[%d]%s", t.N, goType(t.Elem, q, alias))
	case "map":
		return "map[" + goType(t.Key, q, alias) + "]" + goType(t.Elem, q, alias)
	case "struct":
		var b strings.Builder
		b.WriteString("struct {")
		for i := range t.Fields {
			b.WriteString(" " + t.Fields[i].Name + " " + goType(&t.Fields[i].T, q, alias) + ";")
		}
		b.WriteString(" }")
		return b.String()
	}
	return t.K
}

const c10typesPath = "verifharness/c10types"
