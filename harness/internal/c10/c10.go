// Package c10: value literals rendered by snippet.Value / %v (Dumper.ValueLit).
package c10

import (
	"bytes"
	"encoding/json"
	"fmt"
	"reflect"
	"sort"
	"strconv"
	"strings"

	"github.com/octohelm/gengo/pkg/gengo"
	"github.com/octohelm/gengo/pkg/gengo/snippet"
	"github.com/octohelm/gengo/pkg/namer"

	"verifharness/c10types"
	"verifharness/internal/core"
)

type prop struct{}

func init() { core.Register(prop{}) }

func (prop) ID() string        { return "C10" }
func (prop) CoqModule() string { return "Gengo.Corr.C10" }
func (prop) Parallel() int     { return 400 } // Run blocks on the batch compiler; batches fill up from concurrent cases

func (prop) Generate(r *core.RNG, tier string) []json.RawMessage { return generate(r, tier) }

func dumpOf(v reflect.Value) string { return c10types.Dump(v) }

type observed struct {
	Panic    string            `json:"panic,omitempty"`
	Text     string            `json:"text"`
	Imports  map[string]string `json:"imports,omitempty"`
	Parses   bool              `json:"parses"`
	Compiled string            `json:"compiled,omitempty"` // "ok" | compile error | "not run"
	Want     string            `json:"want,omitempty"`
	Got      string            `json:"got,omitempty"`
}

func renderOnce(self, via string, x any) (text string, imports map[string]string, panicked bool, pv any) {
	tr := namer.NewDefaultImportTracker()
	b := &bytes.Buffer{}
	sw := gengo.NewSnippetWriter(b, namer.NameSystems{"raw": namer.NewRawNamer(self, tr)})
	panicked, pv = core.Recover(func() {
		if via == "sprintf" {
			sw.Render(snippet.Sprintf("%v", x))
		} else {
			sw.Render(snippet.Value(x))
		}
	})
	imports = map[string]string{}
	for p, l := range tr.Imports() {
		imports[p] = l
	}
	return b.String(), imports, panicked, pv
}

func tableTerm(m map[string]string) string {
	var ks []string
	for k := range m {
		ks = append(ks, k)
	}
	sort.Strings(ks)
	var items []string
	for _, k := range ks {
		items = append(items, "("+core.Hex(k)+", "+core.Hex(m[k])+")")
	}
	return core.CoqList(items)
}

func (prop) Run(in json.RawMessage, _ string) core.Result {
	var inp input
	var res core.Result
	if err := json.Unmarshal(in, &inp); err != nil {
		res.Observed = map[string]string{"error": err.Error()}
		res.Tags = []string{"bad_input"}
		return res
	}
	if inp.Self == "" {
		inp.Self = selfMain
	}
	rv, err := build(&inp.T, &inp.V)
	if err != nil {
		res.Observed = map[string]string{"error": err.Error()}
		res.Tags = []string{"unbuildable"}
		return res
	}
	dom := typeInDomain(&inp.T, false, false) && inDomain(&inp.T, &inp.V, false, false)
	x := rv.Interface()
	var obs observed
	text, imports, panicked, pv := renderOnce(inp.Self, inp.Via, x)
	obs.Text, obs.Imports = text, imports
	if panicked {
		obs.Panic = fmt.Sprint(pv)
	}
	if !dom {
		res.Observed = obs
		res.Tags = []string{"outside_domain"}
		return res
	}

	// ---- in the domain ----
	res.Tags = append(res.Tags, "in_domain", "via="+inp.Via, "kind="+under(&inp.T).K)
	if inp.T.K == "named" {
		res.Tags = append(res.Tags, "named_top")
	}
	res.Nontrivial = !(under(&inp.T).K == "bool" || isIntKind(under(&inp.T).K))
	res.Class = classOf(&inp.T, &inp.V)

	// deterministic text: map iteration order varies between calls
	// (a value holding a map with two or more entries is rendered 40 more times: reflect's MapKeys order of a small map is a
	// rotation that starts at the first slot in 6 of 8 calls, so an order that leaks through shows in one re-rendering with
	// probability >= 1/8 only; 40 repetitions miss a leak between two entries with probability < 0.5 %, between three < 0.002 %)
	if !panicked {
		reps := 3
		if hasMultiEntryMap(&inp.V) {
			reps = 40
		}
		for i := 0; i < reps; i++ {
			t2, im2, p2, _ := renderOnce(inp.Self, inp.Via, x)
			if p2 || t2 != text || !reflect.DeepEqual(im2, imports) {
				res.GoViolations = append(res.GoViolations, "the rendered text is not deterministic: "+strconv.Quote(text)+" vs "+strconv.Quote(t2))
				break
			}
		}
	}

	// reading of the text by go/parser
	var litTerm string
	var rd *reader
	if !panicked {
		litTerm, obs.Parses, rd = parseLit(text, inp.Self, imports)
	}

	// Coq case
	locals := map[string]string{inp.Self: ""}
	for p, l := range imports {
		locals[p] = l
	}
	strs := map[string]bool{}
	stringsOf(&inp.T, &inp.V, strs)
	quotes := map[string]string{}
	for s := range strs {
		quotes[s] = strconv.Quote(s)
	}
	ftab := map[string]string{}
	if rd != nil {
		for tok := range rd.nums {
			for _, bits := range []int{32, 64} {
				if f, err := strconv.ParseFloat(tok, bits); err == nil {
					ftab[fmt.Sprintf("%d:%s", bits, tok)] = strconv.FormatFloat(f, 'g', -1, bits)
				}
			}
		}
	}
	obsTerm := "OPanic"
	if !panicked {
		obsTerm = "(OText " + core.Hex(text) + " " + core.CoqOpt(obs.Parses, litTerm) + ")"
	}
	res.Coq = fmt.Sprintf("mk_case %s %s %s %s %s %s", tableTerm(locals), tableTerm(quotes), tableTerm(ftab),
		coqType(&inp.T), coqVal(&inp.T, &inp.V), obsTerm)

	if panicked {
		res.GoViolations = append(res.GoViolations, "rendering panics: "+obs.Panic)
		obs.Compiled = "not run"
		res.Observed = obs
		return res
	}
	if !obs.Parses {
		res.GoViolations = append(res.GoViolations, "the rendered text is not a Go expression: "+strconv.Quote(text))
		obs.Compiled = "not run"
		res.Observed = obs
		return res
	}
	// imports registered = packages used
	var regd, used []string
	for _, l := range imports {
		regd = append(regd, l)
	}
	for l := range rd.used {
		used = append(used, l)
	}
	sort.Strings(regd)
	sort.Strings(used)
	if strings.Join(regd, ",") != strings.Join(used, ",") {
		res.GoViolations = append(res.GoViolations, fmt.Sprintf("imports registered %v differ from the packages the text uses %v", regd, used))
	}

	// the property's observation point: compile and run
	r := theBatcher.submit(&item{self: inp.Self, typ: &inp.T, text: text, imports: imports})
	obs.Want = dumpOf(rv)
	switch {
	case r.infra != "":
		obs.Compiled = "not run"
		res.Notes = append(res.Notes, "compile-and-run skipped: "+r.infra)
	case r.compileErr != "":
		obs.Compiled = r.compileErr
		res.GoViolations = append(res.GoViolations, "`var v T = <rendered>` does not compile: "+r.compileErr)
	case !r.ran:
		obs.Compiled = "not run"
		res.GoViolations = append(res.GoViolations, "the generated program did not report this variable")
	default:
		obs.Compiled, obs.Got = "ok", r.dump
		if r.dump != obs.Want {
			res.GoViolations = append(res.GoViolations, "the compiled literal is not deeply equal to the original: want "+obs.Want+" got "+r.dump)
		}
	}
	res.Observed = obs
	if len(imports) > 0 {
		res.Tags = append(res.Tags, "with_imports")
	}
	if strings.Contains(text, "func(v ") {
		res.Tags = append(res.Tags, "pointer_closure")
	}
	if strings.Contains(text, "&(") {
		res.Tags = append(res.Tags, "address_of_composite")
	}
	if strings.Contains(text, "map[") {
		res.Tags = append(res.Tags, "map")
	}
	return res
}

// Extra: statistics of the batch compiler.
func (prop) Extra(_ *core.RNG, _ string, _ string) ([]string, []string, map[string]any) {
	theBatcher.mu.Lock()
	defer theBatcher.mu.Unlock()
	var notes []string
	if theBatcher.nInfra > 0 {
		notes = append(notes, fmt.Sprintf("%d generated program(s) could not be built or run because the go tool failed (timeout?); their literals were not compiled", theBatcher.nInfra))
	}
	return nil, notes, map[string]any{"programs_built": theBatcher.nBuilds, "literals_compiled": theBatcher.nItems,
		"programs_not_built_infrastructure": theBatcher.nInfra, "exhaustive": false}
}

// ---- shrinking ----

func (prop) Shrink(in json.RawMessage) []json.RawMessage {
	var inp input
	if json.Unmarshal(in, &inp) != nil {
		return nil
	}
	var out []json.RawMessage
	seen := map[string]bool{string(in): true}
	add := func(t TypeJ, v ValJ) {
		b := mk(t, v, inp.Self, inp.Via, inp.Note)
		if !seen[string(b)] {
			seen[string(b)] = true
			out = append(out, b)
		}
	}
	// 1. a component as the new root
	for _, c := range children(&inp.T, &inp.V) {
		add(c.t, c.v)
	}
	// 2. same type, simpler value
	for _, v := range simpler(&inp.T, &inp.V) {
		add(inp.T, v)
	}
	// 3. unnamed struct at the root: drop a field
	if inp.T.K == "struct" && len(inp.T.Fields) > 1 && len(inp.V.L) == len(inp.T.Fields) {
		for i := range inp.T.Fields {
			t := inp.T
			t.Fields = append(append([]FieldJ{}, inp.T.Fields[:i]...), inp.T.Fields[i+1:]...)
			v := inp.V
			v.L = append(append([]ValJ{}, inp.V.L[:i]...), inp.V.L[i+1:]...)
			add(t, v)
		}
	}
	return out
}

type tv struct {
	t TypeJ
	v ValJ
}

func children(t *TypeJ, v *ValJ) []tv {
	u := under(t)
	var out []tv
	switch u.K {
	case "ptr":
		if !v.Nil && v.P != nil {
			out = append(out, tv{*u.Elem, *v.P})
		}
	case "slice", "array":
		for i := range v.L {
			out = append(out, tv{*u.Elem, v.L[i]})
		}
	case "map":
		for i := range v.M {
			out = append(out, tv{*u.Elem, v.M[i][1]}, tv{*u.Key, v.M[i][0]})
		}
	case "struct":
		for i := range v.L {
			if i < len(u.Fields) {
				out = append(out, tv{u.Fields[i].T, v.L[i]})
			}
		}
	}
	return out
}

// one-step simplifications of the value at the same type
func simpler(t *TypeJ, v *ValJ) []ValJ {
	u := under(t)
	var out []ValJ
	z := zeroVal(t)
	if !reflect.DeepEqual(z, *v) {
		out = append(out, z)
	}
	switch {
	case isIntKind(u.K):
		if v.I != "0" && v.I != "1" {
			out = append(out, ival(1))
		}
	case isFloatKind(u.K):
		out = append(out, fval(1))
	case u.K == "string":
		if len(v.S) > 1 {
			out = append(out, sval(string(v.S[:len(v.S)/2])), sval(string(v.S[len(v.S)/2:])))
		}
		if len(v.S) > 2 && len(v.S) <= 24 { // a failure may need two characters that are not neighbours: drop one byte
			for i := range v.S {
				out = append(out, sval(string(v.S[:i])+string(v.S[i+1:])))
			}
		}
	case u.K == "ptr":
		if !v.Nil && v.P != nil {
			for _, s := range simpler(u.Elem, v.P) {
				out = append(out, pval(s))
			}
		}
	case u.K == "slice":
		for i := range v.L {
			w := *v
			w.L = append(append([]ValJ{}, v.L[:i]...), v.L[i+1:]...)
			out = append(out, w)
		}
		fallthrough
	case u.K == "array":
		for i := range v.L {
			for _, s := range simpler(u.Elem, &v.L[i]) {
				w := *v
				w.L = append([]ValJ{}, v.L...)
				w.L[i] = s
				out = append(out, w)
			}
		}
	case u.K == "map":
		for i := range v.M {
			w := *v
			w.M = append(append([][2]ValJ{}, v.M[:i]...), v.M[i+1:]...)
			out = append(out, w)
		}
		for i := range v.M {
			for _, s := range simpler(u.Elem, &v.M[i][1]) {
				w := *v
				w.M = append([][2]ValJ{}, v.M...)
				w.M[i] = [2]ValJ{v.M[i][0], s}
				out = append(out, w)
			}
		}
	case u.K == "struct":
		for i := range v.L {
			if i >= len(u.Fields) {
				break
			}
			for _, s := range simpler(&u.Fields[i].T, &v.L[i]) {
				w := *v
				w.L = append([]ValJ{}, v.L...)
				w.L[i] = s
				out = append(out, w)
			}
		}
	}
	if len(out) > 60 {
		out = out[:60]
	}
	return out
}

// hasMultiEntryMap: the value contains a map with at least two entries (only then can an iteration order show)
func hasMultiEntryMap(v *ValJ) bool {
	if len(v.M) >= 2 {
		return true
	}
	for i := range v.M {
		if hasMultiEntryMap(&v.M[i][0]) || hasMultiEntryMap(&v.M[i][1]) {
			return true
		}
	}
	for i := range v.L {
		if hasMultiEntryMap(&v.L[i]) {
			return true
		}
	}
	if v.P != nil {
		return hasMultiEntryMap(v.P)
	}
	return false
}
