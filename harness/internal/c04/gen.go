package c04

import (
	"encoding/json"
	"fmt"
	"strconv"
	"strings"

	"verifharness/internal/core"
)

// ---- classification ----

// class: the input class a failing case falls in (both were defects of the unrepaired tree)
func (in *Input) class() string {
	_, objs := in.Render()
	// two type-name objects of one package share a name, and at least one of them is a type
	// (not a type parameter): which one the name table keeps was up to the map order
	seen, types := map[string]int{}, map[string]int{}
	for _, o := range objs {
		k := fmt.Sprintf("%d/%s", o.Pkg, o.Name)
		seen[k]++
		if !o.TP {
			types[k]++
		}
	}
	for k, n := range seen {
		if n > 1 && types[k] > 0 {
			return "shadowed_type_name"
		}
	}
	for _, g := range in.Gens {
		for k, f := range g.Script {
			if !f.Methods || f.Outcome != "render" {
				continue
			}
			pi, oi, rest := splitKey(k)
			if rest == "" && pi >= 0 && pi < len(in.Pkgs) && oi >= 0 && oi < len(in.Pkgs[pi].Objs) && len(in.Pkgs[pi].Objs[oi].Methods) >= 2 {
				return "methods_order"
			}
		}
	}
	return ""
}

func splitKey(k string) (pi, oi int, rest string) {
	pi, oi = -1, -1
	a := strings.SplitN(k, "/", 2)
	if len(a) != 2 {
		return
	}
	pi, _ = strconv.Atoi(a[0])
	b := strings.SplitN(a[1], ".", 2)
	oi, _ = strconv.Atoi(b[0])
	if len(b) == 2 {
		rest = b[1]
	}
	return
}

func bucket(n int) string {
	switch {
	case n == 0:
		return "0"
	case n <= 3:
		return "1-3"
	case n <= 10:
		return "4-10"
	case n <= 19:
		return "11-19"
	}
	return "20+"
}

func (in *Input) tags(w *World, first *GenResult) []string {
	t := []string{fmt.Sprintf("pkgs=%d", len(in.Pkgs)), fmt.Sprintf("entry=%d", len(in.Entry)), "outcome=" + errClass(first.Err)}
	nt, nm := 0, 0
	for _, p := range w.Pkgs {
		nt += len(p.Defs)
		nm += len(p.Meths)
	}
	t = append(t, "typenames="+bucket(nt), "calls="+bucket(len(first.Log)), fmt.Sprintf("gens=%d", len(in.Gens)+len(in.Real)))
	if c := in.class(); c != "" {
		t = append(t, "class="+c)
	}
	t = append(t, in.wsTags()...)
	if in.All {
		t = append(t, "all")
	}
	if in.Force {
		t = append(t, "force")
	}
	if len(in.Stale) > 0 {
		t = append(t, "stale-files")
	}
	if in.PrevSum != "" {
		t = append(t, "previous-sum")
	}
	if len(in.Real) > 0 {
		t = append(t, "real-generators")
	}
	if len(in.Globals) > 0 {
		t = append(t, "globals")
	}
	nImp, mapv, mapk, meth, alias, deferd := 0, false, false, false, false, false
	mapc := false
	for _, g := range in.Gens {
		if g.Alias {
			alias = true
		}
		for _, f := range g.Script {
			for _, d := range append(append([]string{}, f.Decls...), f.Defer...) {
				if strings.HasPrefix(d, "id:") {
					nImp++
				}
				if d == "mapvar" {
					mapv = true
				}
				if strings.HasPrefix(d, "mapvar:") {
					mapk = true
				}
				if strings.HasPrefix(d, "mapval:") {
					mapc = true
				}
			}
			meth = meth || f.Methods
			deferd = deferd || len(f.Defer) > 0
		}
	}
	t = append(t, "import-refs="+bucket(nImp))
	for k, v := range map[string]bool{"map-literal": mapv, "map-literal:non-string-keys": mapk, "map-literal:values-of-colliding-packages": mapc, "methods-probe": meth, "alias-generator": alias, "defer": deferd, "world-error": w.Err != ""} {
		if v {
			t = append(t, k)
		}
	}
	return t
}

// ---- generation ----

var lightStd = []string{"strings.ToUpper", "sort.Strings", "strconv.Itoa", "errors.New", "unicode/utf8.RuneLen", "path.Base", "bytes.ToUpper",
	"math/bits.Len", "unicode.IsUpper", "math.Abs", "container/list.New", "hash/crc32.ChecksumIEEE", "encoding/hex.EncodeToString",
	"encoding/base64.NewEncoding", "html.EscapeString", "strings.ToLower", "sort.Ints", "path.Join", "unicode/utf16.Encode"}

var typeNames = []string{"T", "U", "V", "A", "B", "Item", "Node", "K", "P", "Q", "L", "Elem", "Key", "Val", "Opt", "Cfg", "Spec", "Status", "Kind", "Meta",
	"item", "node", "opt", "X1", "X2", "X3", "X4", "X5", "X6", "X7", "X8", "X9", "Y1", "Y2", "Y3", "Y4", "Y5", "Y6", "Y7", "Y8", "Y9", "Z1", "Z2", "Z3", "Z4", "Z5"}

var keyKinds = []string{"int", "int", "uint8", "bool", "month", "rune", "float64"}

func genNames() []string { return []string{"rec", "rec2", "al", "deep", "x"} }

type builder struct {
	r  *core.RNG
	in *Input
}

func (b *builder) declKinds(max int) []string {
	n := b.r.Intn(max + 1)
	var out []string
	for i := 0; i < n; i++ {
		switch k := b.r.Intn(10); {
		case k < 3:
			out = append(out, "func")
		case k < 4:
			out = append(out, "mapvar")
		case k < 6: // a map literal with 2-8 entries whose keys are not strings
			out = append(out, fmt.Sprintf("mapvar:%s:%d", core.Pick(b.r, keyKinds), 2+b.r.Intn(7)))
		case k < 7: // a map literal with 3-8 entries whose values mention packages that compete for one import name
			out = append(out, fmt.Sprintf("mapval:%s:%d", core.Pick(b.r, mapvalShapes), 3+b.r.Intn(6)))
		default:
			out = append(out, "id:"+core.Pick(b.r, lightStd))
		}
	}
	return out
}

// randomModule: nPkgs packages, about nTypes type declarations each, shadowing with probability pShadow (percent)
func randomModule(r *core.RNG, nPkgs, nTypes, pShadow int) *Input {
	in := &Input{Mod: core.Pick(r, []string{"example.com/m", "example.com/proj/v2", "m.test/x"}), GoVer: core.Pick(r, []string{"1.22", "1.23"})}
	b := &builder{r: r, in: in}
	gnames := genNames()
	ng := 1 + r.Intn(3)
	for i := 0; i < ng; i++ {
		in.Gens = append(in.Gens, GenSpec{Name: gnames[i], Alias: gnames[i] == "al" || r.Chance(20), Script: map[string]FragSpec{}})
	}
	dirs := []string{"a", "b", "c/d", "e"}
	if r.Chance(15) {
		dirs[0] = ""
	}
	for pi := 0; pi < nPkgs; pi++ {
		p := PkgSpec{Dir: dirs[pi], Name: "p" + fmt.Sprint(pi), NFiles: 1 + r.Intn(3)}
		for q := 0; q < pi; q++ {
			if r.Chance(50) {
				p.Imports = append(p.Imports, q)
			}
		}
		// package doc tags, possibly in several files (later files override)
		p.Doc = make([][]string, p.NFiles)
		for fi := 0; fi < p.NFiles; fi++ {
			if r.Chance(35) {
				g := core.Pick(r, in.Gens).Name
				p.Doc[fi] = []string{"Package " + p.Name + " is synthetic.", core.Pick(r, []string{"+gengo:" + g, "+gengo:" + g + "=false", "+gengo:" + g + ":opt=1", "+gengo:" + g + "=true"})}
			}
		}
		used := map[string]bool{}
		pool := append([]string{}, typeNames...)
		for i := len(pool) - 1; i > 0; i-- {
			j := r.Intn(i + 1)
			pool[i], pool[j] = pool[j], pool[i]
		}
		nt := nTypes/2 + r.Intn(nTypes+1)
		if nt > len(pool) {
			nt = len(pool)
		}
		var pkgLevel []string
		for i := 0; i < nt; i++ {
			name := pool[i]
			used[name] = true
			o := ObjSpec{File: r.Intn(p.NFiles), Name: name, Kind: core.Pick(r, []string{"struct", "struct", "struct", "int", "map", "iface", "generic", "alias"})}
			if o.Kind == "alias" {
				o.Target = "int"
				if len(pkgLevel) > 0 && r.Chance(60) {
					o.Target = core.Pick(r, pkgLevel)
				}
			}
			if o.Kind == "generic" {
				o.TParams = []string{"E"}
				if r.Chance(pShadow) && len(pkgLevel) > 0 {
					o.TParams = []string{core.Pick(r, pkgLevel)}
				}
			}
			if o.Kind != "iface" && o.Kind != "alias" {
				nm := 0
				if r.Chance(40) {
					nm = 1 + r.Intn(5)
				}
				for m := 0; m < nm; m++ {
					ms := MethodSpec{Name: fmt.Sprintf("M%d", m), Ptr: r.Bool(), File: r.Intn(p.NFiles)}
					if r.Chance(pShadow/2) && len(pkgLevel) > 0 {
						ms.Locals = []string{core.Pick(r, pkgLevel)}
					}
					o.Methods = append(o.Methods, ms)
				}
			}
			// enabling tags on the declaration
			for _, g := range in.Gens {
				switch k := r.Intn(10); {
				case k < 4:
					o.Doc = append(o.Doc, "+gengo:"+g.Name)
				case k < 5:
					o.Doc = append(o.Doc, "+gengo:"+g.Name+"=false")
				case k < 6:
					o.Doc = append(o.Doc, "+gengo:"+g.Name+":sub=v")
				}
			}
			if len(o.Doc) > 0 && r.Chance(50) {
				o.Doc = append([]string{name + " is a type."}, o.Doc...)
			}
			if o.Kind != "alias" && o.Kind != "generic" {
				pkgLevel = append(pkgLevel, name)
			}
			p.Objs = append(p.Objs, o)
		}
		// blank types
		if r.Chance(pShadow) {
			for k := 0; k < 2+r.Intn(2); k++ {
				p.Objs = append(p.Objs, ObjSpec{File: r.Intn(p.NFiles), Name: "_", Kind: core.Pick(r, []string{"struct", "int"}), Doc: []string{"+gengo:" + in.Gens[0].Name}})
			}
		}
		// functions with type parameters and local types, named like package-level types or not
		nf := r.Intn(4)
		for k := 0; k < nf; k++ {
			o := ObjSpec{File: r.Intn(p.NFiles), Kind: "func", Name: fmt.Sprintf("F%d", k)}
			pick := func(fresh string) string {
				if r.Chance(pShadow) && len(pkgLevel) > 0 {
					return core.Pick(r, pkgLevel)
				}
				return fresh
			}
			seen := map[string]bool{}
			for t := 0; t < r.Intn(3); t++ {
				n := pick(fmt.Sprintf("TP%d", t))
				if !seen[n] {
					seen[n] = true
					o.TParams = append(o.TParams, n)
				}
			}
			for t := 0; t < r.Intn(3); t++ {
				n := pick(fmt.Sprintf("Loc%d%d", k, t))
				if !seen[n] {
					seen[n] = true
					o.Locals = append(o.Locals, n)
				}
			}
			p.Objs = append(p.Objs, o)
		}
		in.Pkgs = append(in.Pkgs, p)
	}
	// scripts: every type-name object gets an entry with some probability
	_, objs := in.Render()
	for gi := range in.Gens {
		for _, o := range objs {
			if !r.Chance(85) {
				continue
			}
			key := fmt.Sprintf("%d/%s", o.Pkg, o.Key)
			fs := FragSpec{Outcome: "render", Decls: b.declKinds(4)}
			switch k := r.Intn(20); {
			case k == 0:
				fs = FragSpec{Outcome: "skip"}
			case k == 1:
				fs = FragSpec{Outcome: "ignore"}
			}
			_, oi, rest := splitKey(key)
			if fs.Outcome == "render" && rest == "" {
				os := in.Pkgs[o.Pkg].Objs[oi]
				if os.Kind != "generic" && os.Kind != "alias" && os.Kind != "iface" && r.Chance(35) {
					fs.Methods = true
				}
			}
			if fs.Outcome == "render" && r.Chance(15) {
				fs.Defer = b.declKinds(2)
			}
			in.Gens[gi].Script[key] = fs
		}
	}
	if r.Chance(30) {
		in.Globals = append(in.Globals, [2]string{"gengo:" + core.Pick(r, in.Gens).Name, core.Pick(r, []string{"true", "", "false"})})
	}
	// entrypoints
	switch k := r.Intn(10); {
	case k < 2:
		in.Entry = []string{"..."}
	case k < 3: // overlapping patterns
		in.Entry = []string{"...", dirOrDot(in.Pkgs[0].Dir)}
	case k < 4:
		in.Entry = []string{dirOrDot(in.Pkgs[len(in.Pkgs)-1].Dir)}
	default: // several entrypoints, in a shuffled order (at least two when there are two packages)
		for _, p := range in.Pkgs {
			if r.Chance(75) {
				in.Entry = append(in.Entry, dirOrDot(p.Dir))
			}
		}
		for _, p := range in.Pkgs {
			if len(in.Entry) < 2 && len(in.Pkgs) >= 2 && !contains(in.Entry, dirOrDot(p.Dir)) {
				in.Entry = append(in.Entry, dirOrDot(p.Dir))
			}
		}
		if len(in.Entry) == 0 {
			in.Entry = []string{dirOrDot(in.Pkgs[0].Dir)}
		}
		for i := len(in.Entry) - 1; i > 0; i-- {
			j := r.Intn(i + 1)
			in.Entry[i], in.Entry[j] = in.Entry[j], in.Entry[i]
		}
	}
	in.All = r.Chance(70)
	in.Force = r.Chance(15)
	for pi := range in.Pkgs {
		if r.Chance(25) {
			in.Stale = append(in.Stale, StaleSpec{Pkg: pi, Name: core.Pick(r, []string{"old", in.Gens[0].Name, "rec.extra"})})
		}
	}
	if r.Chance(25) {
		in.PrevSum = in.PkgPath(0) + " h1:AAAAAAAAAAAAAAAAAAAAAAAAAAAAAAAAAAAAAAAAAAA=\nexample.com/gone h1:BBBB=\n"
	}
	return in
}

func contains(xs []string, x string) bool {
	for _, y := range xs {
		if y == x {
			return true
		}
	}
	return false
}

func dirOrDot(d string) string {
	if d == "" {
		return "."
	}
	return d
}

func marshal(in *Input) json.RawMessage {
	b, _ := json.Marshal(in)
	return b
}

// fixed corner cases (the defects of DESIGN section 4 that concern C04 come first)
func corner() []*Input {
	enable := func(g string) []string { return []string{"+gengo:" + g} }
	one := func(objs []ObjSpec, gens []GenSpec) *Input {
		return &Input{Mod: "example.com/m", GoVer: "1.22", Pkgs: []PkgSpec{{Dir: "a", Name: "a", NFiles: 1, Objs: objs}}, Gens: gens, Entry: []string{"a"}, All: true}
	}
	render := FragSpec{Outcome: "render", Decls: []string{"func"}}
	var out []*Input
	// #16: a type parameter named like a package-level type, and a function-local type
	out = append(out, one([]ObjSpec{
		{Kind: "struct", Name: "T", Doc: enable("rec")},
		{Kind: "func", Name: "F", TParams: []string{"T"}, Locals: []string{"L"}},
	}, []GenSpec{{Name: "rec", Script: map[string]FragSpec{"0/0": render, "0/1.tp0": render, "0/1.l0": render}}}))
	// local type named like a package-level type, several of them
	out = append(out, one([]ObjSpec{
		{Kind: "struct", Name: "T", Doc: enable("rec")},
		{Kind: "int", Name: "U", Doc: enable("rec")},
		{Kind: "func", Name: "F", Locals: []string{"T", "U"}},
		{Kind: "func", Name: "G", Locals: []string{"T"}},
	}, []GenSpec{{Name: "rec", Script: map[string]FragSpec{"0/0": render, "0/1": render, "0/2.l0": render, "0/2.l1": render, "0/3.l0": render}}}))
	// several blank types
	in := one([]ObjSpec{
		{Kind: "struct", Name: "_", Doc: enable("rec")},
		{Kind: "int", Name: "_", Doc: enable("rec")},
		{Kind: "struct", Name: "_"},
		{Kind: "struct", Name: "Keep", Doc: enable("rec")},
	}, []GenSpec{{Name: "rec", Script: map[string]FragSpec{"0/0": render, "0/1": render, "0/2": render, "0/3": render}}})
	out = append(out, in)
	// the order MethodsOf reports methods in
	out = append(out, one([]ObjSpec{
		{Kind: "struct", Name: "S", Doc: enable("rec"), Methods: []MethodSpec{{Name: "M0"}, {Name: "M1", Ptr: true}, {Name: "M2"}, {Name: "M3", Ptr: true}, {Name: "M4"}}},
	}, []GenSpec{{Name: "rec", Script: map[string]FragSpec{"0/0": {Outcome: "render", Methods: true}}}}))
	// many types, everything enabled by a global tag, two generators, many imports, map literals
	{
		var objs []ObjSpec
		s1, s2 := map[string]FragSpec{}, map[string]FragSpec{}
		for i := 0; i < 32; i++ {
			objs = append(objs, ObjSpec{File: i % 3, Kind: []string{"struct", "int", "map"}[i%3], Name: typeNames[i]})
			s1[fmt.Sprintf("0/%d", i)] = FragSpec{Outcome: "render", Decls: []string{"id:" + lightStd[i%len(lightStd)], "mapvar"}}
			s2[fmt.Sprintf("0/%d", i)] = FragSpec{Outcome: "render", Decls: []string{"func", "id:" + lightStd[(i*7)%len(lightStd)]}, Defer: []string{"func"}}
		}
		in := one(objs, []GenSpec{{Name: "rec", Script: s1}, {Name: "rec2", Script: s2}})
		in.Pkgs[0].NFiles = 3
		in.Globals = [][2]string{{"gengo:rec", "true"}, {"gengo:rec2", ""}}
		out = append(out, in)
	}
	// map literals with non-string keys (int, uint8, bool, a named int of another package, rune, float64), 2-8 entries each
	{
		var decls []string
		for i, kt := range []string{"int", "uint8", "bool", "month", "rune", "float64"} {
			decls = append(decls, fmt.Sprintf("mapvar:%s:%d", kt, 8-i%3), fmt.Sprintf("mapvar:%s:%d", kt, 2+i%2))
		}
		out = append(out, one([]ObjSpec{{Kind: "struct", Name: "T", Doc: enable("rec")}, {Kind: "int", Name: "U", Doc: enable("rec")}},
			[]GenSpec{{Name: "rec", Script: map[string]FragSpec{"0/0": {Outcome: "render", Decls: decls}, "0/1": {Outcome: "render", Decls: []string{"mapvar:int:5"}, Defer: []string{"mapvar:uint8:3"}}}}}))
	}
	// map literals whose VALUES mention, entry by entry, different packages with the same last path element (the import
	// tracker gives the short name to the package that asks first): 8 fresh processes must agree on the import names
	{
		in := one([]ObjSpec{{Kind: "struct", Name: "T", Doc: enable("rec")}},
			[]GenSpec{{Name: "rec", Script: map[string]FragSpec{"0/0": {Outcome: "render", Decls: []string{"mapval:xy:6", "func", "mapval:v1:4"}}}}})
		in.N = 8
		out = append(out, in)
		in = one([]ObjSpec{{Kind: "struct", Name: "T", Doc: append(enable("rec"), enable("rec2")...)}, {Kind: "int", Name: "U", Doc: enable("rec2")}},
			[]GenSpec{{Name: "rec", Script: map[string]FragSpec{"0/0": {Outcome: "render", Decls: []string{"mapval:xyz:6"}, Defer: []string{"mapval:lv:5"}}}},
				{Name: "rec2", Script: map[string]FragSpec{"0/0": {Outcome: "render", Decls: []string{"mapval:nest:4"}}, "0/1": {Outcome: "render", Decls: []string{"mapval:mix:8", "mapval:ptr:3"}}}}})
		in.N = 8
		out = append(out, in)
	}
	// several packages, permuted entrypoints, stale files, a previous sum, alias generator, ignore / skip
	{
		in := &Input{Mod: "example.com/proj", GoVer: "1.22", All: true, Entry: []string{"c/d", "a", "b"},
			Pkgs: []PkgSpec{
				{Dir: "a", Name: "a", NFiles: 2, Doc: [][]string{{"Package a.", "+gengo:rec"}, {"+gengo:al=false"}},
					Objs: []ObjSpec{{Kind: "struct", Name: "A"}, {File: 1, Kind: "alias", Name: "AA", Target: "A", Doc: enable("al")}, {Kind: "int", Name: "B", Doc: []string{"+gengo:rec=false"}}}},
				{Dir: "b", Name: "b", NFiles: 1, Imports: []int{0},
					Objs: []ObjSpec{{Kind: "struct", Name: "X", Doc: enable("rec")}, {Kind: "map", Name: "Y", Doc: enable("rec")}, {Kind: "alias", Name: "Z", Doc: enable("al")}}},
				{Dir: "c/d", Name: "d", NFiles: 1, Imports: []int{0, 1},
					Objs: []ObjSpec{{Kind: "struct", Name: "Q", Doc: []string{"+gengo:rec:opt=1"}}, {Kind: "struct", Name: "Unused"}}},
			},
			Gens: []GenSpec{
				{Name: "rec", Script: map[string]FragSpec{"0/0": {Outcome: "render", Decls: []string{"func", "id:strings.ToUpper"}}, "1/0": {Outcome: "ignore"}, "1/1": {Outcome: "skip"}, "2/0": render}},
				{Name: "al", Alias: true, Script: map[string]FragSpec{"0/1": render, "1/2": render}},
			},
			Stale:   []StaleSpec{{Pkg: 0, Name: "old"}, {Pkg: 1, Name: "rec"}, {Pkg: 2, Name: "al"}},
			PrevSum: "example.com/proj/a h1:stale=\n",
		}
		out = append(out, in)
		in2 := *in
		in2.All = false
		in2.Entry = []string{"b", "a"}
		out = append(out, &in2)
	}
	// the stock generators on a module they handle
	out = append(out, realModule(0), realModule(1))
	// malformed stream: a generator error, an unparseable body, a module that does not load
	bad1 := one([]ObjSpec{{Kind: "struct", Name: "T", Doc: enable("rec")}, {Kind: "struct", Name: "U", Doc: enable("rec")}},
		[]GenSpec{{Name: "rec", Script: map[string]FragSpec{"0/0": render, "0/1": {Outcome: "err"}}}})
	bad2 := one([]ObjSpec{{Kind: "struct", Name: "T", Doc: enable("rec")}},
		[]GenSpec{{Name: "rec", Script: map[string]FragSpec{"0/0": {Outcome: "render", Decls: []string{"func", "bad"}}}}})
	bad3 := one([]ObjSpec{{Kind: "alias", Name: "T", Target: "NoSuchType", Doc: enable("rec")}},
		[]GenSpec{{Name: "rec", Script: map[string]FragSpec{"0/0": render}}})
	bad4 := one([]ObjSpec{{Kind: "struct", Name: "T", Doc: enable("rec")}},
		[]GenSpec{{Name: "rec", Script: map[string]FragSpec{"0/0": render}}})
	bad4.Entry = []string{"a", "nosuchdir"}
	out = append(out, bad1, bad2, bad3, bad4)
	return out
}

// realModule: structs the stock deepcopy / runtimedoc generators handle (fields of basic, slice, map, pointer and local struct types)
func realModule(variant int) *Input {
	in := &Input{Mod: "example.com/real", GoVer: "1.22", All: true, Entry: []string{"..."}, Real: []string{"deepcopy", "runtimedoc"}}
	tag := []string{"+gengo:deepcopy", "+gengo:runtimedoc"}
	p := PkgSpec{Dir: "api", Name: "api", NFiles: 2}
	names := []string{"Spec", "Status", "Meta", "Item", "Cfg", "Opt", "Node", "Elem", "Kind", "Val", "Key", "Rule", "Port", "Env", "Vol", "Probe", "Res", "Sel", "Tol", "Aff", "Sec", "Cap"}
	for i, n := range names {
		o := ObjSpec{File: i % 2, Kind: "struct", Name: n, Doc: append([]string{n + " describes " + strings.ToLower(n) + "."}, tag...)}
		o.Fields = []string{"// Name of it", "Name string", "Count int", "Tags []string", "Labels map[string]string"}
		if variant == 1 && i > 0 {
			o.Fields = append(o.Fields, "Prev *"+names[i-1], "Inner "+names[(i+3)%i])
		}
		p.Objs = append(p.Objs, o)
	}
	in.Pkgs = []PkgSpec{p}
	return in
}

func (prop) Generate(r *core.RNG, tr string) []json.RawMessage {
	tier = tr
	var out []json.RawMessage
	for _, in := range corner() {
		out = append(out, marshal(in))
	}
	for _, in := range wsCorner() {
		out = append(out, marshal(in))
	}
	n := 26
	if tr == "thorough" {
		n = 200
	}
	// go.work workspaces with imports across modules and entrypoints from several modules (seeded change C04-l)
	nws := 8
	if tr == "thorough" {
		nws = 40
	}
	for i := 0; i < nws; i++ {
		in := randomWorkspace(r)
		if tr == "thorough" {
			in.N = 24
		}
		out = append(out, marshal(in))
	}
	for i := 0; i < n; i++ {
		var in *Input
		switch k := r.Intn(10); {
		case k < 2: // one package, many types
			in = randomModule(r, 1, 30, 25)
		case k < 5:
			in = randomModule(r, 2+r.Intn(3), 8, 30)
		case k < 7: // no shadowing at all
			in = randomModule(r, 2+r.Intn(2), 10, 0)
		case k < 9:
			in = randomModule(r, 1+r.Intn(3), 5, 60)
		default: // malformed stream
			in = randomModule(r, 1+r.Intn(2), 5, 10)
			switch r.Intn(4) {
			case 3: // an entrypoint that does not exist: NewContext fails in every process
				in.Entry = append(in.Entry, "nosuchdir")
			case 0:
				for k, f := range in.Gens[0].Script {
					f.Outcome = "err"
					in.Gens[0].Script[k] = f
					break
				}
			case 1:
				for k, f := range in.Gens[0].Script {
					if f.Outcome == "render" {
						f.Decls = append(f.Decls, "bad")
						in.Gens[0].Script[k] = f
						break
					}
				}
			default:
				in.Pkgs[0].Objs = append(in.Pkgs[0].Objs, ObjSpec{Kind: "alias", Name: "Broken", Target: "NoSuch"})
			}
		}
		if tr == "thorough" {
			in.N = 25
		}
		out = append(out, marshal(in))
	}
	return out
}

// ---- shrinking ----

func clone(in *Input) *Input {
	var c Input
	b, _ := json.Marshal(in)
	_ = json.Unmarshal(b, &c)
	return &c
}

func removeObj(in *Input, pi, oi int) *Input {
	c := clone(in)
	p := &c.Pkgs[pi]
	p.Objs = append(p.Objs[:oi], p.Objs[oi+1:]...)
	for gi := range c.Gens {
		ns := map[string]FragSpec{}
		for k, f := range c.Gens[gi].Script {
			kp, ko, rest := splitKey(k)
			if kp == pi {
				if ko == oi {
					continue
				}
				if ko > oi {
					ko--
				}
			}
			nk := fmt.Sprintf("%d/%d", kp, ko)
			if rest != "" {
				nk += "." + rest
			}
			ns[nk] = f
		}
		c.Gens[gi].Script = ns
	}
	return c
}

func (prop) Shrink(raw json.RawMessage) []json.RawMessage {
	var in Input
	if json.Unmarshal(raw, &in) != nil {
		return nil
	}
	var out []json.RawMessage
	add := func(c *Input) { out = append(out, marshal(c)) }
	// drop the last package when nothing refers to it
	if n := len(in.Pkgs); n > 1 {
		c := clone(&in)
		last := dirOrDot(c.PkgDir(n - 1))
		c.Pkgs = c.Pkgs[:n-1]
		var e []string
		for _, x := range c.Entry {
			if x != last {
				e = append(e, x)
			}
		}
		if len(e) > 0 {
			c.Entry = e
			var st []StaleSpec
			for _, s := range c.Stale {
				if s.Pkg < n-1 {
					st = append(st, s)
				}
			}
			c.Stale = st
			for gi := range c.Gens {
				for k := range c.Gens[gi].Script {
					if kp, _, _ := splitKey(k); kp == n-1 {
						delete(c.Gens[gi].Script, k)
					}
				}
			}
			add(c)
		}
	}
	for gi := range in.Gens {
		if len(in.Gens) > 1 {
			c := clone(&in)
			c.Gens = append(c.Gens[:gi], c.Gens[gi+1:]...)
			add(c)
		}
	}
	for pi := range in.Pkgs { // halves first
		if n := len(in.Pkgs[pi].Objs); n >= 4 {
			c1, c2 := &in, &in
			for oi := n - 1; oi >= n/2; oi-- {
				c1 = removeObj(c1, pi, oi)
			}
			for oi := n/2 - 1; oi >= 0; oi-- {
				c2 = removeObj(c2, pi, oi)
			}
			add(c1)
			add(c2)
		}
	}
	for pi := range in.Pkgs {
		for oi := len(in.Pkgs[pi].Objs) - 1; oi >= 0; oi-- {
			add(removeObj(&in, pi, oi))
		}
	}
	for pi := range in.Pkgs {
		for oi, o := range in.Pkgs[pi].Objs {
			if len(o.Methods) > 2 {
				c := clone(&in)
				c.Pkgs[pi].Objs[oi].Methods = o.Methods[:2]
				add(c)
			}
			if len(o.Methods) > 0 && o.Kind != "func" {
				for mi, m := range o.Methods {
					if len(m.Locals) > 0 {
						c := clone(&in)
						c.Pkgs[pi].Objs[oi].Methods[mi].Locals = nil
						add(c)
					}
				}
			}
			if len(o.Doc) > 1 {
				c := clone(&in)
				c.Pkgs[pi].Objs[oi].Doc = o.Doc[len(o.Doc)-1:]
				add(c)
			}
		}
		if in.Pkgs[pi].NFiles > 1 {
			c := clone(&in)
			c.Pkgs[pi].NFiles = 1
			c.Pkgs[pi].Doc = nil
			for oi := range c.Pkgs[pi].Objs {
				c.Pkgs[pi].Objs[oi].File = 0
				for mi := range c.Pkgs[pi].Objs[oi].Methods {
					c.Pkgs[pi].Objs[oi].Methods[mi].File = 0
				}
			}
			add(c)
		}
	}
	for gi, g := range in.Gens {
		for k, f := range g.Script {
			c := clone(&in)
			delete(c.Gens[gi].Script, k)
			add(c)
			if len(f.Decls) > 1 || len(f.Defer) > 0 {
				c := clone(&in)
				f2 := f
				f2.Defer = nil
				if len(f2.Decls) > 1 {
					f2.Decls = f2.Decls[:1]
				}
				c.Gens[gi].Script[k] = f2
				add(c)
			}
			for di := range f.Decls {
				if len(f.Decls) > 1 {
					c := clone(&in)
					f2 := c.Gens[gi].Script[k]
					f2.Decls = append(append([]string{}, f.Decls[:di]...), f.Decls[di+1:]...)
					c.Gens[gi].Script[k] = f2
					add(c)
				}
			}
		}
	}
	if len(in.Stale) > 0 {
		c := clone(&in)
		c.Stale = nil
		add(c)
	}
	if in.PrevSum != "" {
		c := clone(&in)
		c.PrevSum = ""
		add(c)
	}
	if len(in.Globals) > 0 {
		c := clone(&in)
		c.Globals = nil
		add(c)
	}
	if len(in.Entry) > 1 {
		c := clone(&in)
		c.Entry = c.Entry[:1]
		add(c)
	}
	if len(in.Work) > 0 { // workspace inputs: one entrypoint less, one import less, two processes less
		for k := range in.Entry {
			if len(in.Entry) > 2 {
				c := clone(&in)
				c.Entry = append(c.Entry[:k], c.Entry[k+1:]...)
				add(c)
			}
		}
		for pi, p := range in.Pkgs {
			for k := range p.Imports {
				c := clone(&in)
				c.Pkgs[pi].Imports = append(append([]int{}, p.Imports[:k]...), p.Imports[k+1:]...)
				add(c)
			}
		}
		if in.N > 2 {
			c := clone(&in)
			c.N = max(2, in.N-2)
			add(c)
		}
	}
	// every candidate costs N+3 fresh processes: keep the big steps and a sample of the small ones
	if len(out) > 20 {
		r := core.NewRNG(uint64(len(raw)))
		keep := append([]json.RawMessage{}, out[:6]...)
		rest := out[6:]
		for i := 0; i < 14 && len(rest) > 0; i++ {
			k := r.Intn(len(rest))
			keep = append(keep, rest[k])
			rest = append(rest[:k], rest[k+1:]...)
		}
		out = keep
	}
	return out
}
