// Package c04: determinism of generation (fresh processes, permuted entrypoints / generator order)
// and the second-run fixed point.
package c04

import (
	"fmt"
	"path"
	"sort"
	"strings"
)

// ---- the structured input: a synthetic module + scripted generators ----

type Input struct {
	Mod     string      `json:"mod"`
	GoVer   string      `json:"go"`
	Pkgs    []PkgSpec   `json:"pkgs"`
	Gens    []GenSpec   `json:"gens,omitempty"`
	Real    []string    `json:"real,omitempty"`    // real generators from devpkg run on this module (no Coq model)
	Globals [][2]string `json:"globals,omitempty"` // GeneratorArgs.Globals
	Entry   []string    `json:"entry"`             // directories of the entrypoint packages ("." = root, "..." = ./...)
	All     bool        `json:"all"`
	Force   bool        `json:"force,omitempty"`
	Stale   []StaleSpec `json:"stale,omitempty"` // files <base>.<x>.go present before the first run
	PrevSum string      `json:"prev_sum,omitempty"`
	N       int         `json:"n,omitempty"` // fresh processes (0 = tier default)
	// Work (workspace inputs): the modules of a go.work workspace; the tree's root holds go.work, module k lies in
	// Work[k].Dir, package i belongs to module Pkgs[i].M and lies in <module dir>/<Pkgs[i].Dir>; Entry holds
	// directories relative to the workspace root ("m1/a").  Mod is not used.  See workspace.go.
	Work []WorkMod `json:"work,omitempty"`
}

type WorkMod struct {
	Dir string `json:"dir"`
	Mod string `json:"mod"`
	Go  string `json:"go,omitempty"`
}

type StaleSpec struct {
	Pkg  int    `json:"pkg"`
	Name string `json:"name"` // the <x> of zz_generated.<x>.go
}

type PkgSpec struct {
	Dir     string     `json:"dir"` // "" = module root
	Name    string     `json:"name"`
	NFiles  int        `json:"nfiles"`
	Doc     [][]string `json:"doc,omitempty"`     // per file: lines of the package doc comment
	Imports []int      `json:"imports,omitempty"` // indices of earlier packages imported (blank use)
	Objs    []ObjSpec  `json:"objs"`
	M       int        `json:"m,omitempty"` // workspace inputs: index of the package's module in Input.Work
}

type MethodSpec struct {
	Name   string   `json:"name"`
	Ptr    bool     `json:"ptr,omitempty"`
	File   int      `json:"file"`
	Locals []string `json:"locals,omitempty"`
}

// Kind: struct | int | map | iface | generic | alias | func
type ObjSpec struct {
	File    int          `json:"file"`
	Kind    string       `json:"kind"`
	Name    string       `json:"name"`
	Doc     []string     `json:"doc,omitempty"`
	TParams []string     `json:"tparams,omitempty"`
	Locals  []string     `json:"locals,omitempty"` // func: local type names
	Methods []MethodSpec `json:"methods,omitempty"`
	Target  string       `json:"target,omitempty"` // alias target expression
	Fields  []string     `json:"fields,omitempty"` // struct: "Name Type" lines (real-generator modules)
}

type GenSpec struct {
	Name   string              `json:"name"`
	Alias  bool                `json:"alias,omitempty"`
	Script map[string]FragSpec `json:"script,omitempty"` // key: "<pkg index>/<object key>"
}

// Decl kinds: func | mapval:<xy|xyz|lv|v1|mix|ptr|nest>:<entries> (fixmap.go) | mapvar (map[string]int) | mapvar:<int|uint8|bool|month|rune|float64>:<entries> | id:<path>.<Name> | bad
type FragSpec struct {
	Outcome string   `json:"outcome"` // render | skip | ignore | err
	Decls   []string `json:"decls,omitempty"`
	Methods bool     `json:"methods,omitempty"`
	Defer   []string `json:"defer,omitempty"`
}

const BaseName = "zz_generated"

// TypeObj is one *types.TypeName the renderer put into the source: where, and under which key scripts refer to it.
type TypeObj struct {
	Pkg  int
	Key  string // "3" | "3.tp0" | "3.l1" | "3.m0.l0"
	Name string
	File int
	Line int
	Col  int
	TP   bool // a type parameter
}

func (t TypeObj) UID() uint64 { return MkUID(t.File, t.Line, t.Col) }

// MkUID identifies an object by its position (file index from the name f<k>.go, line, byte column).
func MkUID(file, line, col int) uint64 {
	return uint64(file)*10000000 + uint64(line)*100 + uint64(col%100)
}

func (in *Input) PkgPath(i int) string {
	mod := in.Mod
	if m := in.modOf(i); m != nil {
		mod = m.Mod
	}
	if in.Pkgs[i].Dir == "" {
		return mod
	}
	return mod + "/" + in.Pkgs[i].Dir
}

// modOf: the workspace module of package i (nil for a single-module input)
func (in *Input) modOf(i int) *WorkMod {
	if len(in.Work) == 0 {
		return nil
	}
	k := in.Pkgs[i].M
	if k < 0 || k >= len(in.Work) {
		k = 0
	}
	return &in.Work[k]
}

// PkgDir: the directory of package i relative to the root of the tree ("" = the root itself)
func (in *Input) PkgDir(i int) string {
	if m := in.modOf(i); m != nil {
		return path.Join(m.Dir, in.Pkgs[i].Dir)
	}
	return in.Pkgs[i].Dir
}

// Render produces the module's files (relative path -> content) and the list of type-name objects.
func (in *Input) Render() (map[string]string, []TypeObj) {
	files := map[string]string{}
	if len(in.Work) == 0 {
		files["go.mod"] = fmt.Sprintf("module %s\n\ngo %s\n", in.Mod, in.GoVer)
	} else {
		in.renderWorkspace(files)
	}
	var objs []TypeObj
	for pi, p := range in.Pkgs {
		n := p.NFiles
		if n < 1 {
			n = 1
		}
		bufs := make([][]string, n)
		for fi := 0; fi < n; fi++ {
			var lines []string
			if fi < len(p.Doc) && len(p.Doc[fi]) > 0 {
				for _, l := range p.Doc[fi] {
					lines = append(lines, "// "+l)
				}
			}
			lines = append(lines, "package "+p.Name, "")
			if fi == 0 {
				for _, q := range p.Imports {
					if q >= 0 && q < len(in.Pkgs) && q != pi {
						lines = append(lines, fmt.Sprintf("import _ %q", in.PkgPath(q)))
					}
				}
				lines = append(lines, "")
			}
			bufs[fi] = lines
		}
		fileOf := func(f int) int {
			if f < 0 || f >= n {
				return 0
			}
			return f
		}
		emit := func(f int, s string) int { // returns the 1-based line number of the emitted line
			bufs[f] = append(bufs[f], s)
			return len(bufs[f])
		}
		rec := func(key, name string, f, line, col int) {
			objs = append(objs, TypeObj{Pkg: pi, Key: key, Name: name, File: f, Line: line, Col: col, TP: strings.Contains(key, ".tp")})
		}
		tparams := func(f int, key string, tps []string) { // one type parameter per line
			for k, tp := range tps {
				l := emit(f, "\t"+tp+" any,")
				rec(fmt.Sprintf("%s.tp%d", key, k), tp, f, l, 2)
			}
		}
		locals := func(f int, key string, ls []string) {
			for k, ln := range ls {
				l := emit(f, "\ttype "+ln+" struct{}")
				rec(fmt.Sprintf("%s.l%d", key, k), ln, f, l, 7)
				if ln != "_" {
					emit(f, "\tvar _ "+ln)
				}
			}
		}
		for oi, o := range p.Objs {
			f := fileOf(o.File)
			key := fmt.Sprint(oi)
			emit(f, "")
			for _, d := range o.Doc {
				emit(f, "// "+d)
			}
			switch o.Kind {
			case "func":
				if len(o.TParams) > 0 {
					emit(f, "func "+o.Name+"[")
					tparams(f, key, o.TParams)
					emit(f, "]() {")
				} else {
					emit(f, "func "+o.Name+"() {")
				}
				locals(f, key, o.Locals)
				emit(f, "}")
				continue
			case "generic":
				emit(f, "type "+o.Name+"[")
				// the TypeName of the generic type itself sits on the "type X[" line
				rec(key, o.Name, f, len(bufs[f]), 6)
				tparams(f, key, o.TParams)
				emit(f, "] struct{}")
			case "alias":
				t := o.Target
				if t == "" {
					t = "int"
				}
				l := emit(f, "type "+o.Name+" = "+t)
				rec(key, o.Name, f, l, 6)
			case "int":
				l := emit(f, "type "+o.Name+" int")
				rec(key, o.Name, f, l, 6)
			case "map":
				l := emit(f, "type "+o.Name+" map[string]int")
				rec(key, o.Name, f, l, 6)
			case "iface":
				l := emit(f, "type "+o.Name+" interface{ IfaceM() }")
				rec(key, o.Name, f, l, 6)
			default: // struct
				if len(o.Fields) == 0 {
					l := emit(f, "type "+o.Name+" struct{ A int }")
					rec(key, o.Name, f, l, 6)
				} else {
					l := emit(f, "type "+o.Name+" struct {")
					rec(key, o.Name, f, l, 6)
					for _, fl := range o.Fields {
						emit(f, "\t"+fl)
					}
					emit(f, "}")
				}
			}
			if o.Name == "_" {
				continue
			}
			for mi, m := range o.Methods {
				mf := fileOf(m.File)
				recv := o.Name
				if o.Kind == "generic" {
					recv += "[" + strings.Join(recvParams(len(o.TParams)), ", ") + "]"
				}
				if m.Ptr {
					recv = "*" + recv
				}
				emit(mf, "")
				emit(mf, "func ("+recv+") "+m.Name+"() {")
				locals(mf, fmt.Sprintf("%s.m%d", key, mi), m.Locals)
				emit(mf, "}")
			}
		}
		for fi := 0; fi < n; fi++ {
			files[path.Join(in.PkgDir(pi), fmt.Sprintf("f%d.go", fi))] = strings.Join(bufs[fi], "\n") + "\n"
		}
	}
	for _, s := range in.Stale {
		if s.Pkg < 0 || s.Pkg >= len(in.Pkgs) {
			continue
		}
		p := in.Pkgs[s.Pkg]
		files[path.Join(in.PkgDir(s.Pkg), BaseName+"."+s.Name+".go")] = "package " + p.Name + "\n\nfunc stale_" + sanitize(s.Name) + "() {}\n"
	}
	if in.PrevSum != "" && len(in.Work) == 0 {
		files["gengo.sum"] = in.PrevSum
	}
	return files, objs
}

// receiver type parameters get names no other object has (R0, R1, ..)
func recvParams(n int) []string {
	out := make([]string, n)
	for i := range out {
		out[i] = fmt.Sprintf("R%d", i)
	}
	return out
}

func sanitize(s string) string {
	var b strings.Builder
	for _, r := range s {
		if r == '_' || (r >= 'a' && r <= 'z') || (r >= 'A' && r <= 'Z') || (r >= '0' && r <= '9') {
			b.WriteRune(r)
		} else {
			b.WriteByte('_')
		}
	}
	return b.String()
}

// ---- the resolved script handed to the generation child ----

type Decl struct {
	Name string `json:"name"`
	Kind string `json:"kind"`
}

type Frag struct {
	Outcome string `json:"outcome"`
	Decls   []Decl `json:"decls,omitempty"`
	Methods string `json:"methods,omitempty"` // name of the declaration listing MethodsOf ("" = none)
	Defer   []Decl `json:"defer,omitempty"`
}

type RGen struct {
	Name   string                     `json:"name"`
	Alias  bool                       `json:"alias,omitempty"`
	Script map[string]map[string]Frag `json:"script"` // package path -> decimal uid -> frag
}

type ChildSpec struct {
	Gens    []RGen              `json:"gens"`
	Real    []string            `json:"real,omitempty"`
	Globals map[string][]string `json:"globals,omitempty"`
	Entry   []string            `json:"entry"`
	All     bool                `json:"all"`
	Force   bool                `json:"force"`
	Order   []int               `json:"order,omitempty"` // generator order (indices into Gens then Real); nil = registry (map) order
}

// Resolve turns the object keys of the scripts into uids and concrete declaration names.
func (in *Input) Resolve(objs []TypeObj) []RGen {
	byKey := map[string]TypeObj{}
	for _, o := range objs {
		byKey[fmt.Sprintf("%d/%s", o.Pkg, o.Key)] = o
	}
	var out []RGen
	for _, g := range in.Gens {
		rg := RGen{Name: g.Name, Alias: g.Alias, Script: map[string]map[string]Frag{}}
		ks := make([]string, 0, len(g.Script))
		for k := range g.Script {
			ks = append(ks, k)
		}
		sort.Strings(ks)
		for _, k := range ks {
			o, ok := byKey[k]
			if !ok {
				continue
			}
			fs := g.Script[k]
			pp := in.PkgPath(o.Pkg)
			if rg.Script[pp] == nil {
				rg.Script[pp] = map[string]Frag{}
			}
			base := fmt.Sprintf("G%s_%s_%d", sanitize(g.Name), sanitize(o.Name), o.UID())
			fr := Frag{Outcome: fs.Outcome}
			for i, kind := range fs.Decls {
				fr.Decls = append(fr.Decls, Decl{Name: declName(base, i, kind), Kind: kind})
			}
			if fs.Methods {
				fr.Methods = base + "_m"
			}
			for i, kind := range fs.Defer {
				fr.Defer = append(fr.Defer, Decl{Name: declName(base+"_d", i, kind), Kind: kind})
			}
			rg.Script[pp][fmt.Sprint(o.UID())] = fr
		}
		out = append(out, rg)
	}
	return out
}

func declName(base string, i int, kind string) string {
	if kind == "bad" {
		return fmt.Sprintf("%s_%d!", base, i)
	}
	return fmt.Sprintf("%s_%d", base, i)
}

// importsOf lists the import paths a fragment's declarations reference, in order.
func importsOf(ds []Decl) []string {
	var out []string
	for _, d := range ds {
		if strings.HasPrefix(d.Kind, "id:") {
			ref := d.Kind[3:]
			if i := strings.LastIndex(ref, "."); i > 0 {
				out = append(out, ref[:i])
			}
		}
		if strings.HasPrefix(d.Kind, "mapvar:month:") { // map[time.Month]string: the key type is named through the import table
			out = append(out, "time")
		}
		if strings.HasPrefix(d.Kind, "mapval:") { // map[..]holder.Rule: the value type and what the entries mention
			_, imps := fixMap(d.Kind)
			out = append(out, imps...)
		}
	}
	return out
}
