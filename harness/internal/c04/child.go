package c04

import (
	"context"
	"encoding/json"
	"errors"
	"fmt"
	"go/ast"
	"go/types"
	"os"
	"path/filepath"
	"runtime/debug"
	"sort"
	"strconv"
	"strings"
	"time"

	"github.com/octohelm/gengo/pkg/gengo"
	"github.com/octohelm/gengo/pkg/gengo/snippet"
	gengotypes "github.com/octohelm/gengo/pkg/types"

	_ "github.com/octohelm/gengo/devpkg/deepcopygen"
	_ "github.com/octohelm/gengo/devpkg/runtimedocgen"

	"verifharness/internal/core"
)

func init() {
	core.Children["c04-world"] = childWorld
	core.Children["c04-gen"] = childGen
}

// ---- world extraction: what go/packages + go/types say about the module (data for the model) ----

type WDef struct {
	Name     string      `json:"name"`
	UID      uint64      `json:"uid"`
	Kind     string      `json:"kind"` // named | alias | other
	PkgScope bool        `json:"pkgscope"`
	Gen      bool        `json:"gen"`
	Tags     [][2]string `json:"tags,omitempty"`
}

type WMeth struct {
	Recv uint64 `json:"recv"`
	Name string `json:"name"`
	Pos  uint64 `json:"pos"`
	Gen  bool   `json:"gen"`
}

type WFileTags struct {
	File string      `json:"file"`
	Tags [][2]string `json:"tags"`
}

type WPkg struct {
	Path     string      `json:"path"`
	Name     string      `json:"name"`
	Dir      string      `json:"dir"` // relative to the module root
	Direct   bool        `json:"direct"`
	Files    []string    `json:"files"`
	FileTags []WFileTags `json:"filetags,omitempty"`
	Defs     []WDef      `json:"defs,omitempty"`
	Meths    []WMeth     `json:"meths,omitempty"`
	Hash     string      `json:"hash"`
}

type World struct {
	Err  string `json:"err,omitempty"`
	Pkgs []WPkg `json:"pkgs"`
}

func fileIdx(base string) int {
	if strings.HasPrefix(base, "f") && strings.HasSuffix(base, ".go") {
		if k, err := strconv.Atoi(base[1 : len(base)-3]); err == nil {
			return k
		}
	}
	return 99
}

func joinTags(m map[string][]string) [][2]string {
	ks := make([]string, 0, len(m))
	for k := range m {
		ks = append(ks, k)
	}
	sort.Strings(ks)
	out := make([][2]string, 0, len(ks))
	for _, k := range ks {
		out = append(out, [2]string{k, strings.Join(m[k], "")})
	}
	return out
}

func uidOf(p gengotypes.Package, obj types.Object) uint64 {
	pos := p.Position(obj.Pos())
	return MkUID(fileIdx(filepath.Base(pos.Filename)), pos.Line, pos.Column)
}

// vh c04-world <entry>...   (cwd = module root)
func childWorld(args []string) int {
	debug.SetMaxStack(256 << 20)
	var w World
	emit := func() int {
		b, _ := json.Marshal(w)
		fmt.Println("C04WORLD " + string(b))
		return 0
	}
	root, _ := os.Getwd()
	root, _ = filepath.EvalSymlinks(root)
	u, err := gengotypes.Load(args)
	if err != nil {
		w.Err = "load: " + err.Error()
		return emit()
	}
	sum := u.SumFile()
	for pkgPath, direct := range u.LocalPkgPaths() {
		p := u.Package(pkgPath)
		if p == nil {
			continue
		}
		dir := p.SourceDir()
		if d, err := filepath.EvalSymlinks(dir); err == nil {
			dir = d
		}
		rel, _ := filepath.Rel(root, dir)
		wp := WPkg{Path: pkgPath, Name: p.Pkg().Name(), Dir: filepath.ToSlash(rel), Direct: direct, Hash: sum.Sum(pkgPath)}
		scope := p.Pkg().Scope()
		for _, f := range p.Files() {
			base := filepath.Base(p.FileSet().File(f.FileStart).Name())
			wp.Files = append(wp.Files, base)
			gen := strings.HasPrefix(base, BaseName+".")
			if f.Doc != nil && len(f.Doc.List) > 0 {
				tags, _ := gengotypes.ExtractCommentTags(strings.Split(f.Doc.Text(), "\n"))
				if len(tags) > 0 { // a doc comment without tags contributes nothing to pkgTags
					wp.FileTags = append(wp.FileTags, WFileTags{File: base, Tags: joinTags(tags)})
				}
			}
			// the definitions: every identifier that defines an object (this is TypesInfo.Defs seen through the AST)
			ast.Inspect(f, func(n ast.Node) bool {
				id, ok := n.(*ast.Ident)
				if !ok {
					return true
				}
				obj := p.ObjectOf(id)
				if obj == nil || obj.Pos() != id.Pos() {
					return true
				}
				switch x := obj.(type) {
				case *types.TypeName:
					kind := "other"
					switch x.Type().(type) {
					case *types.Alias:
						kind = "alias"
					case *types.Named:
						kind = "named"
					}
					tags, _ := p.Doc(x.Pos())
					wp.Defs = append(wp.Defs, WDef{Name: x.Name(), UID: uidOf(p, x), Kind: kind,
						PkgScope: x.Parent() == scope, Gen: gen, Tags: joinTags(tags)})
				case *types.Func:
					s, _ := x.Type().(*types.Signature)
					if s == nil || s.Recv() == nil {
						return true
					}
					var named *types.Named
					switch t := s.Recv().Type().(type) {
					case *types.Pointer:
						if n, ok := t.Elem().(*types.Named); ok {
							named = n
						}
					case *types.Named:
						named = t
					}
					if named != nil {
						wp.Meths = append(wp.Meths, WMeth{Recv: uidOf(p, named.Origin().Obj()), Name: x.Name(), Pos: uidOf(p, x), Gen: gen})
					}
				}
				return true
			})
		}
		w.Pkgs = append(w.Pkgs, wp)
	}
	return emit()
}

// ---- generation child: one fresh process = one run of gengo ----

type LogEntry struct {
	Pkg  string `json:"pkg"`
	Gen  string `json:"gen"`
	Kind string `json:"kind"` // T | A
	Name string `json:"name"`
	UID  uint64 `json:"uid"`
}

type GenResult struct {
	Err string     `json:"err,omitempty"` // "" = Execute returned nil
	Log []LogEntry `json:"log"`
}

var callLog []LogEntry

type recGen struct {
	spec *RGen
}

func (g *recGen) Name() string { return g.spec.Name }

// a fresh instance per (package, generator), like reflect.New for the stock generators
func (g *recGen) New(c gengo.Context) gengo.Generator {
	if g.spec.Alias {
		return &recAliasGen{recGen{spec: g.spec}}
	}
	return &recGen{spec: g.spec}
}

type recAliasGen struct{ recGen }

func (g *recAliasGen) New(c gengo.Context) gengo.Generator { return &recAliasGen{recGen{spec: g.spec}} }

func (g *recAliasGen) GenerateAliasType(c gengo.Context, a *types.Alias) error {
	return g.handle(c, a.Obj(), nil, "A")
}

func (g *recGen) GenerateType(c gengo.Context, named *types.Named) error {
	return g.handle(c, named.Obj(), named, "T")
}

var mapValue = map[string]int{"zeta": 26, "alpha": 1, "mu": 12, "beta": 2, "omega": 24, "gamma": 3, "kappa": 10, "delta": 4, "pi": 16, "eta": 7}

// keyedMap builds the map a declaration kind "mapvar:<key type>:<n>" renders: n entries (bool: at most 2, month: at most
// 12) with keys of a NON-string kind, chosen by a fixed formula so that every process renders the same value.  The
// dumper must emit the entries in one fixed order although reflect hands the keys out in Go's random map order.
func keyedMap(kind string) any {
	parts := strings.Split(kind, ":")
	kt, n := "int", 4
	if len(parts) > 1 {
		kt = parts[1]
	}
	if len(parts) > 2 {
		if k, err := strconv.Atoi(parts[2]); err == nil && k >= 0 && k <= 64 {
			n = k
		}
	}
	switch kt {
	case "uint8":
		m := map[uint8]bool{}
		for i := 0; i < n; i++ {
			m[uint8(7+i*53)] = i%3 != 0
		}
		return m
	case "bool":
		m := map[bool]string{}
		for i := 0; i < n && i < 2; i++ {
			m[i == 0] = []string{"yes", "no"}[i]
		}
		return m
	case "month": // a named integer type of another package: the type literal goes through the import table
		m := map[time.Month]string{}
		for i := 0; i < n && i < 12; i++ {
			k := time.Month(1 + (i*5)%12)
			m[k] = k.String()
		}
		return m
	case "rune":
		m := map[rune]int{}
		for i := 0; i < n; i++ {
			m[rune('a'+(i*7)%26)] = i
		}
		return m
	case "float64":
		m := map[float64]string{}
		for i := 0; i < n; i++ {
			m[float64(i*i)-2.5] = fmt.Sprint("f", i)
		}
		return m
	}
	m := map[int]string{}
	for i := 0; i < n; i++ {
		k := (i*37)%101 - 20 // negative, one-digit and multi-digit keys
		m[k] = fmt.Sprint("v", k)
	}
	return m
}

func renderDecl(c gengo.Context, d Decl) {
	name := strings.TrimSuffix(d.Name, "!")
	switch {
	case d.Kind == "mapvar":
		c.RenderT("var @name = @v\n\n", snippet.Args{"name": snippet.ID(name), "v": snippet.Value(mapValue)})
	case strings.HasPrefix(d.Kind, "mapvar:"):
		c.RenderT("var @name = @v\n\n", snippet.Args{"name": snippet.ID(name), "v": snippet.Value(keyedMap(d.Kind))})
	case strings.HasPrefix(d.Kind, "mapval:"):
		v, _ := fixMap(d.Kind)
		c.RenderT("var @name = @v\n\n", snippet.Args{"name": snippet.ID(name), "v": snippet.Value(v)})
	case strings.HasPrefix(d.Kind, "id:"):
		c.RenderT("var @name = @id\n\n", snippet.Args{"name": snippet.ID(name), "id": snippet.ID(d.Kind[3:])})
	case d.Kind == "bad":
		c.Render(snippet.Block("func " + name + "( {\n\n"))
	default:
		c.RenderT("func @name() {}\n\n", snippet.Args{"name": snippet.ID(name)})
	}
}

func (g *recGen) handle(c gengo.Context, obj *types.TypeName, named *types.Named, kind string) error {
	p := c.Package("")
	uid := uidOf(p, obj)
	pkgPath := p.Pkg().Path()
	callLog = append(callLog, LogEntry{Pkg: pkgPath, Gen: g.spec.Name, Kind: kind, Name: obj.Name(), UID: uid})
	fr, ok := g.spec.Script[pkgPath][fmt.Sprint(uid)]
	if !ok {
		return nil
	}
	switch fr.Outcome {
	case "err":
		return errors.New("scripted failure")
	case "skip":
		return gengo.ErrSkip
	case "ignore":
		return gengo.ErrIgnore
	}
	for _, d := range fr.Decls {
		renderDecl(c, d)
	}
	if fr.Methods != "" && named != nil {
		var names []string
		for _, m := range p.MethodsOf(named, true) {
			names = append(names, m.Name())
		}
		if names == nil {
			names = []string{}
		}
		c.RenderT("var @name = @v\n\n", snippet.Args{"name": snippet.ID(fr.Methods), "v": snippet.Value(names)})
	}
	if len(fr.Defer) > 0 {
		ds := fr.Defer
		c.Defer(func(c gengo.Context) error {
			for _, d := range ds {
				renderDecl(c, d)
			}
			return nil
		})
	}
	return nil
}

// vh c04-gen <child spec file>     (cwd = module root)
func childGen(args []string) int {
	debug.SetMaxStack(256 << 20)
	var res GenResult
	emit := func() int {
		res.Log = callLog
		b, _ := json.Marshal(res)
		fmt.Println("C04GEN " + string(b))
		return 0
	}
	data, err := os.ReadFile(args[0])
	if err != nil {
		res.Err = "spec: " + err.Error()
		return emit()
	}
	var cs ChildSpec
	if err := json.Unmarshal(data, &cs); err != nil {
		res.Err = "spec: " + err.Error()
		return emit()
	}
	// the stock generators registered themselves on import; keep only what this run wants
	want := map[string]bool{}
	for _, r := range cs.Real {
		want[r] = true
	}
	var names []string
	for i := range cs.Gens {
		gengo.Register(&recGen{spec: &cs.Gens[i]})
		want[cs.Gens[i].Name] = true
		names = append(names, cs.Gens[i].Name)
	}
	names = append(names, cs.Real...)
	var gens []gengo.Generator
	if cs.Order == nil {
		// registry order: a range over a Go map
		for _, g := range gengo.GetRegisteredGenerators() {
			if want[g.Name()] {
				gens = append(gens, g)
			}
		}
	} else {
		var ordered []string
		for _, k := range cs.Order {
			if k >= 0 && k < len(names) {
				ordered = append(ordered, names[k])
			}
		}
		gens = gengo.GetRegisteredGenerators(ordered...)
	}
	c, err := gengo.NewContext(&gengo.GeneratorArgs{
		Globals:            cs.Globals,
		Entrypoint:         cs.Entry,
		OutputFileBaseName: BaseName,
		All:                cs.All,
		Force:              cs.Force,
	})
	if err != nil {
		res.Err = "newcontext: " + err.Error()
		return emit()
	}
	panicked, val := core.Recover(func() {
		if err := c.Execute(context.Background(), gens...); err != nil {
			res.Err = "execute: " + err.Error()
		}
	})
	if panicked {
		res.Err = fmt.Sprintf("panic: %v", val)
	}
	return emit()
}
