package c04

import (
	"fmt"
	"path"
	"sort"
	"strings"

	"verifharness/internal/core"
)

// ---- workspace inputs (seeded change C04-l) ----
//
// A go.work workspace of 2-3 modules whose packages import each other ACROSS modules, with entrypoints from at least
// two of the modules.  types.Load decides per registered package whether it is "local" (its module is the module of
// some entrypoint): local packages are hashed into gengo.sum and, with All, generated.  That decision must not depend
// on the order the entrypoints are listed in - in particular not for a package that is reached as an import of the
// first-listed entrypoint and belongs to the module of a later-listed one.
//
// The model (Model/Determinism.v) has one module root; these cases carry no Coq term and are judged by the Go-side
// oracle only: every order of the entrypoints in its own fresh process on its own copy of the tree, all generated
// files (by path) and gengo.sum (by content) byte-identical, call logs identical, run 2 and 3 change no generated file.

func goVerMax(a, b string) string {
	var x, y, p, q int
	fmt.Sscanf(a, "%d.%d", &x, &y)
	fmt.Sscanf(b, "%d.%d", &p, &q)
	if x > p || (x == p && y >= q) {
		return a
	}
	return b
}

func (in *Input) renderWorkspace(files map[string]string) {
	ver := "1.22"
	var use []string
	for _, m := range in.Work {
		g := m.Go
		if g == "" {
			g = in.GoVer
		}
		if g == "" {
			g = "1.22"
		}
		ver = goVerMax(ver, g)
		files[path.Join(m.Dir, "go.mod")] = fmt.Sprintf("module %s\n\ngo %s\n", m.Mod, g)
		use = append(use, "\t./"+m.Dir+"\n")
	}
	files["go.work"] = "go " + ver + "\n\nuse (\n" + strings.Join(use, "") + ")\n"
}

// workspaceOK: distinct, non-empty, non-nested module directories and paths; no fixture module (its replace directive
// would have to be repeated in go.work)
func (in *Input) workspaceOK() bool {
	if len(in.Work) == 0 {
		return true
	}
	if in.usesFix() || len(in.Real) > 0 {
		return false
	}
	for i, m := range in.Work {
		if m.Dir == "" || m.Mod == "" || strings.HasPrefix(m.Dir, ".") || strings.HasPrefix(m.Dir, "/") {
			return false
		}
		for j, o := range in.Work {
			if i != j && (m.Dir == o.Dir || m.Mod == o.Mod || strings.HasPrefix(m.Dir+"/", o.Dir+"/") || strings.HasPrefix(m.Mod+"/", o.Mod+"/")) {
				return false
			}
		}
	}
	for _, p := range in.Pkgs {
		if p.M < 0 || p.M >= len(in.Work) {
			return false
		}
	}
	return true
}

// wsProcesses: one fresh process per order of k entrypoints, at most 12 in the quick tier
func wsProcesses(k int) int {
	f := 1
	for i := 2; i <= k; i++ {
		f *= i
		if f >= 12 {
			return 12
		}
	}
	return f
}

const wsSumKey = "gengo.sum (the one the run wrote, whichever module root it is in)"

// wsLogical: every generated file keeps its path; gengo.sum is compared by CONTENT here and its PLACE separately
// (wsSumNote), so that a report says which of the two differs.  Before the repair of Execute by fix ccdc228 (see
// known_findings.d/C04.json, class workspace_sum_location_unstable) the unchanged code wrote gengo.sum to the module
// root of the package types.Load happened to register first - a range over packages.Package.Imports, a Go map - when
// the module of the first requested package had no gengo.sum yet.
func wsLogical(snap map[string][]byte) (map[string][]byte, string) {
	var sums []string
	for rel := range snap {
		if path.Base(rel) == "gengo.sum" {
			sums = append(sums, rel)
		}
	}
	sort.Strings(sums)
	switch len(sums) {
	case 0:
		return snap, "(none)"
	case 1:
		out := map[string][]byte{}
		for rel, data := range snap {
			if rel == sums[0] {
				rel = wsSumKey
			}
			out[rel] = data
		}
		return out, path.Dir(sums[0])
	}
	return snap, strings.Join(sums, "+")
}

func wsSumNote(at []string) string {
	seen := map[string]bool{}
	var ds []string
	for _, d := range at {
		if !seen[d] {
			seen[d] = true
			ds = append(ds, d)
		}
	}
	if len(ds) < 2 {
		return ""
	}
	sort.Strings(ds)
	return "workspace: gengo.sum was written to different module roots by different processes on the same tree: " + strings.Join(ds, ", ")
}

// entryIdx: the package an entrypoint names ("m1/a" -> index), -1 for patterns
func (in *Input) entryIdx(e string) int {
	for i := range in.Pkgs {
		if dirOrDot(in.PkgDir(i)) == e {
			return i
		}
	}
	return -1
}

// wsTags: the shape features the family is about
func (in *Input) wsTags() []string {
	if len(in.Work) == 0 {
		return nil
	}
	t := []string{"workspace", fmt.Sprintf("workspace:modules=%d", len(in.Work))}
	isEntry := map[int]bool{}
	entryMods := map[int]bool{}
	pattern := false
	for _, e := range in.Entry {
		if strings.HasSuffix(e, "...") {
			pattern = true
			for i := range in.Pkgs {
				if strings.HasPrefix(in.PkgDir(i)+"/", strings.TrimSuffix(e, "...")) {
					isEntry[i] = true
					entryMods[in.Pkgs[i].M] = true
				}
			}
			continue
		}
		if i := in.entryIdx(e); i >= 0 {
			isEntry[i] = true
			entryMods[in.Pkgs[i].M] = true
		}
	}
	t = append(t, fmt.Sprintf("workspace:entry-modules=%d", len(entryMods)))
	if pattern {
		t = append(t, "workspace:pattern-entry")
	}
	// an entrypoint reaches, through imports, a package that is no entrypoint and lies in ANOTHER module that has an
	// entrypoint of its own: whether that package is local must not depend on which entrypoint is listed first
	var reach func(i int, seen map[int]bool)
	reach = func(i int, seen map[int]bool) {
		for _, q := range in.Pkgs[i].Imports {
			if q >= 0 && q < len(in.Pkgs) && q != i && !seen[q] {
				seen[q] = true
				reach(q, seen)
			}
		}
	}
	cross, shape := false, false
	for i := range in.Pkgs {
		seen := map[int]bool{}
		reach(i, seen)
		for q := range seen {
			if in.Pkgs[q].M != in.Pkgs[i].M {
				cross = true
				if isEntry[i] && !isEntry[q] && entryMods[in.Pkgs[q].M] {
					shape = true
				}
			}
		}
	}
	if cross {
		t = append(t, "workspace:cross-module-import")
	}
	if shape {
		t = append(t, "workspace:entrypoint-imports-non-entry-package-of-another-root-module")
	}
	return t
}

var wsModules = []WorkMod{{Dir: "m1", Mod: "example.com/m1"}, {Dir: "m2", Mod: "example.com/m2"}, {Dir: "sub/m3", Mod: "example.org/m3/v2"}}

// randomWorkspace: a random module of 3-4 packages (types, tags, scripts, stale files, globals as in randomModule)
// spread over 2-3 workspace modules.  Package k may import packages < k, whatever their module.  In 4 of 5 cases the
// shape of C04-l is forced: package 0 (module X) is imported by entrypoint 1 (module Y) and is no entrypoint itself,
// while entrypoint 2 lies in module X.
func randomWorkspace(r *core.RNG) *Input {
	nP := 3 + r.Intn(2)
	in := randomModule(r, nP, 3, 0)
	in.Mod, in.PrevSum = "", ""
	nM := 2
	if r.Chance(30) {
		nM = 3
	}
	in.Work = append([]WorkMod{}, wsModules[:nM]...)
	for i := range in.Work {
		in.Work[i].Go = core.Pick(r, []string{"1.22", "1.23"})
	}
	// no fixture packages in a workspace
	for gi := range in.Gens {
		for k, f := range in.Gens[gi].Script {
			for _, ds := range [][]string{f.Decls, f.Defer} {
				for i, d := range ds {
					if strings.HasPrefix(d, "mapval:") {
						ds[i] = "func"
					}
				}
			}
			in.Gens[gi].Script[k] = f
		}
	}
	forced := r.Chance(80)
	for pi := range in.Pkgs {
		in.Pkgs[pi].M = r.Intn(nM)
	}
	var entry []int
	if forced {
		x := r.Intn(nM)
		y := (x + 1 + r.Intn(nM-1)) % nM
		in.Pkgs[0].M, in.Pkgs[1].M, in.Pkgs[2].M = x, y, x
		if !containsInt(in.Pkgs[1].Imports, 0) {
			in.Pkgs[1].Imports = append(in.Pkgs[1].Imports, 0)
		}
		// entrypoint 2 does not import entrypoint 1: `go list -deps` reports dependencies first, so packages.Load would
		// hand the two roots over in the same order however they are listed
		var keep []int
		for _, q := range in.Pkgs[2].Imports {
			if q != 1 {
				keep = append(keep, q)
			}
		}
		in.Pkgs[2].Imports = keep
		// the dependency has something to generate for the first generator
		if len(in.Pkgs[0].Objs) > 0 && in.Pkgs[0].Objs[0].Kind != "func" {
			in.Pkgs[0].Objs[0].Doc = append(in.Pkgs[0].Objs[0].Doc, "+gengo:"+in.Gens[0].Name)
		}
		entry = []int{1, 2}
		for pi := 3; pi < nP; pi++ {
			if r.Bool() {
				entry = append(entry, pi)
			}
		}
	} else {
		// at least two modules in use, entrypoints from at least two of them
		in.Pkgs[0].M, in.Pkgs[nP-1].M = 0, 1
		entry = []int{0, nP - 1}
		for pi := 1; pi < nP-1; pi++ {
			if r.Chance(40) {
				entry = append(entry, pi)
			}
		}
	}
	for i := len(entry) - 1; i > 0; i-- {
		j := r.Intn(i + 1)
		entry[i], entry[j] = entry[j], entry[i]
	}
	in.Entry = nil
	for _, pi := range entry {
		in.Entry = append(in.Entry, dirOrDot(in.PkgDir(pi)))
	}
	if !forced && r.Chance(40) { // a whole module as one entrypoint
		in.Entry[0] = in.Work[in.Pkgs[entry[0]].M].Dir + "/..."
	}
	in.All = r.Chance(75)
	return in
}

func containsInt(xs []int, x int) bool {
	for _, y := range xs {
		if y == x {
			return true
		}
	}
	return false
}

// wsCorner: fixed workspace cases.  In all of them some entrypoint imports a package of another module that has an
// entrypoint of its own.
func wsCorner() []*Input {
	enable := []string{"+gengo:rec"}
	render := FragSpec{Outcome: "render", Decls: []string{"func"}}
	pkg := func(m int, dir, name string, imports []int, types ...string) PkgSpec {
		p := PkgSpec{M: m, Dir: dir, Name: name, NFiles: 1, Imports: imports}
		for _, t := range types {
			p.Objs = append(p.Objs, ObjSpec{Kind: "struct", Name: t, Doc: enable})
		}
		return p
	}
	mk := func(work []WorkMod, pkgs []PkgSpec, all bool, entry ...string) *Input {
		in := &Input{GoVer: "1.22", Work: work, Pkgs: pkgs, Entry: entry, All: all}
		g := GenSpec{Name: "rec", Script: map[string]FragSpec{}}
		for pi, p := range pkgs {
			for oi := range p.Objs {
				g.Script[fmt.Sprintf("%d/%d", pi, oi)] = render
			}
		}
		in.Gens = []GenSpec{g}
		return in
	}
	two, three := wsModules[:2], wsModules[:3]
	var out []*Input
	// m1/a imports m2/c; entrypoints m1/a and m2/b; m2/c is local whichever entrypoint comes first
	base := []PkgSpec{pkg(1, "c", "c", nil, "C"), pkg(0, "a", "a", []int{0}, "A"), pkg(1, "b", "b", nil, "B")}
	out = append(out, mk(two, base, true, "m1/a", "m2/b"))
	out = append(out, mk(two, base, false, "m1/a", "m2/b")) // not All: only gengo.sum lists m2/c
	// a chain through three modules, three entrypoints: six orders
	out = append(out, mk(three, []PkgSpec{pkg(2, "d", "d", nil, "D"), pkg(1, "c", "c", []int{0}, "C"), pkg(0, "a", "a", []int{1}, "A"),
		pkg(1, "b", "b", nil, "B"), pkg(2, "e", "e", nil, "E")}, true, "m1/a", "m2/b", "sub/m3/e"))
	// imports in both directions between the two modules
	out = append(out, mk(two, []PkgSpec{pkg(1, "c", "c", nil, "C"), pkg(0, "d", "d", nil, "D", "D2"), pkg(0, "a", "a", []int{0}, "A"),
		pkg(1, "b", "b", []int{1}, "B")}, true, "m2/b", "m1/a"))
	// the importing entrypoint is the root package of its module; the other module is named by a pattern
	out = append(out, mk(two, []PkgSpec{pkg(1, "x/c", "c", nil, "C"), pkg(0, "", "root", []int{0}, "R"), pkg(1, "b", "b", nil, "B")}, true, "m1", "m2/b"))
	out = append(out, mk(two, []PkgSpec{pkg(0, "lib", "lib", nil, "L"), pkg(1, "b", "b", []int{0}, "B"), pkg(0, "a", "a", nil, "A"), pkg(0, "z", "z", nil, "Z")}, true, "m2/b", "m1/a", "m1/z"))
	return out
}
