package c04

import (
	"fmt"
	"io/fs"
	"os"
	"path/filepath"
	"strconv"
	"strings"

	c04fix "verifharness/fix/c04"
	"verifharness/fix/c04/holder"
	pv1 "verifharness/fix/c04/p/store/v1"
	qv1 "verifharness/fix/c04/q/store/v1"
	xutil "verifharness/fix/c04/x/util"
	yutil "verifharness/fix/c04/y/util"
	zutil "verifharness/fix/c04/z/util"
)

// Declaration kind "mapval:<shape>:<n>": ONE map literal with n (3-8) entries whose VALUES are of a named struct type
// (holder.Rule) and mention, entry by entry, types of DIFFERENT packages that compete for the same import name
// (x/util, y/util, z/util -> util; p/store/v1, q/store/v1 -> storev1).  An empty field is left out of the literal, so
// no entry mentions all of them, and none of the packages is named in the map's own type literal: which package gets
// the short import name is decided while the values are rendered - it must not follow Go's random map order.
//
// shapes: xy (pointers, two packages) | xyz (three) | lv (slices of named ints, int keys) | v1 (version suffix) |
// mix (pointer / slice / named slice / version, four packages) | ptr (map[string]*Rule) | nest (map[string][]Rule)

const fixPrefix = "verifharness/fix/c04/"

var mapvalShapes = []string{"xy", "xy", "xyz", "lv", "v1", "mix", "ptr", "nest"}

func mapvalParams(kind string) (shape string, n int) {
	parts := strings.Split(kind, ":")
	shape, n = "xy", 4
	if len(parts) > 1 {
		shape = parts[1]
	}
	if len(parts) > 2 {
		if k, err := strconv.Atoi(parts[2]); err == nil && k >= 0 && k <= 32 {
			n = k
		}
	}
	return
}

// ruleOf: the i-th value of a shape and the fixture packages it mentions (besides holder)
func ruleOf(shape string, i int) (holder.Rule, []string) {
	name := fmt.Sprint("n", i)
	x := func() (holder.Rule, []string) {
		return holder.Rule{X: &xutil.Opt{Name: name, N: i + 1}}, []string{"x/util"}
	}
	y := func() (holder.Rule, []string) {
		return holder.Rule{Y: &yutil.Opt{Name: name, N: i + 1}}, []string{"y/util"}
	}
	z := func() (holder.Rule, []string) {
		return holder.Rule{Z: &zutil.Opt{Name: name, N: i + 1}}, []string{"z/util"}
	}
	switch shape {
	case "xyz":
		return [](func() (holder.Rule, []string)){x, y, z}[i%3]()
	case "lv":
		if i%2 == 0 {
			return holder.Rule{LX: []xutil.Level{xutil.Level(i), 7}}, []string{"x/util"}
		}
		return holder.Rule{Note: name, LY: []yutil.Level{yutil.Level(i)}}, []string{"y/util"}
	case "v1":
		if i%2 == 0 {
			return holder.Rule{P: &pv1.Ref{ID: name}}, []string{"p/store/v1"}
		}
		return holder.Rule{Q: &qv1.Ref{ID: name}}, []string{"q/store/v1"}
	case "mix":
		switch i % 4 {
		case 0:
			return holder.Rule{TZ: zutil.Tags{"t", name}}, []string{"z/util"}
		case 1:
			return holder.Rule{LY: []yutil.Level{1}, Q: &qv1.Ref{ID: name}}, []string{"y/util", "q/store/v1"}
		case 2:
			return holder.Rule{P: &pv1.Ref{ID: name}, X: &xutil.Opt{N: i}}, []string{"x/util", "p/store/v1"}
		}
		return holder.Rule{Note: name}, nil
	}
	if i%2 == 0 {
		return x()
	}
	return y()
}

// fixMap: the map a "mapval:" declaration renders, and the import paths its literal mentions
func fixMap(kind string) (any, []string) {
	shape, n := mapvalParams(kind)
	imports := []string{fixPrefix + "holder"}
	seen := map[string]bool{}
	add := func(ps []string) {
		for _, p := range ps {
			if !seen[p] {
				seen[p] = true
				imports = append(imports, fixPrefix+p)
			}
		}
	}
	key := func(i int) string { return fmt.Sprintf("%c%d", 'a'+(i*5)%7, i) }
	switch shape {
	case "lv":
		m := map[int]holder.Rule{}
		for i := 0; i < n; i++ {
			r, ps := ruleOf(shape, i)
			m[(i*37)%101-20] = r
			add(ps)
		}
		return m, imports
	case "ptr":
		m := map[string]*holder.Rule{}
		for i := 0; i < n; i++ {
			r, ps := ruleOf(shape, i)
			m[key(i)] = &r
			add(ps)
		}
		return m, imports
	case "nest":
		m := map[string][]holder.Rule{}
		for i := 0; i < n; i++ {
			r, ps := ruleOf(shape, i)
			m[key(i)] = []holder.Rule{r}
			add(ps)
		}
		return m, imports
	}
	m := map[string]holder.Rule{}
	for i := 0; i < n; i++ {
		r, ps := ruleOf(shape, i)
		m[key(i)] = r
		add(ps)
	}
	return m, imports
}

func (in *Input) usesFix() bool {
	for _, g := range in.Gens {
		for _, f := range g.Script {
			for _, d := range append(append([]string{}, f.Decls...), f.Defer...) {
				if strings.HasPrefix(d, "mapval:") {
					return true
				}
			}
		}
	}
	return false
}

// writeFixModule writes the fixture packages as a module `verifharness` (only the fix/c04 packages) into dir and
// returns the lines to append to the synthetic module's go.mod.
func writeFixModule(dir string) (string, error) {
	abs, err := filepath.Abs(dir)
	if err != nil {
		return "", err
	}
	if err := os.MkdirAll(abs, 0o755); err != nil {
		return "", err
	}
	if err := os.WriteFile(filepath.Join(abs, "go.mod"), []byte("module verifharness\n\ngo 1.18\n"), 0o644); err != nil {
		return "", err
	}
	err = fs.WalkDir(c04fix.FS, ".", func(p string, d fs.DirEntry, err error) error {
		if err != nil || d.IsDir() {
			return err
		}
		data, err := c04fix.FS.ReadFile(p)
		if err != nil {
			return err
		}
		out := filepath.Join(abs, "fix", "c04", filepath.FromSlash(p))
		if err := os.MkdirAll(filepath.Dir(out), 0o755); err != nil {
			return err
		}
		return os.WriteFile(out, data, 0o644)
	})
	if err != nil {
		return "", err
	}
	return fmt.Sprintf("\nrequire verifharness v0.0.0\n\nreplace verifharness => %s\n", abs), nil
}
