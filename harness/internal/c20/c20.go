// Package c20: inflector.Pluralize / Singularize — totality, purity (also under concurrent callers) and
// preservation of everything before a trailing irregular word.
package c20

import (
	"encoding/json"
	"fmt"
	"hash/fnv"
	"regexp"
	"strconv"
	"strings"
	"sync"
	"unicode/utf8"

	"github.com/octohelm/gengo/pkg/inflector"

	"verifharness/internal/core"
)

type prop struct{}

func init() { core.Register(prop{}) }

func (prop) ID() string        { return "C20" }
func (prop) CoqModule() string { return "Gengo.Corr.C20" }
func (prop) Parallel() int     { return 8 }

// The string handed to the implementation is P+W.  W is the candidate last word: the property speaks about
// P+W versus W alone, so both are run.
type input struct {
	Rule string `json:"rule"` // "plural" | "singular"
	P    []byte `json:"p"`    // base64 in JSON: arbitrary bytes survive
	W    []byte `json:"w"`
	Q    string `json:"q,omitempty"` // P+W Go-quoted, for readers only
	K    string `json:"k,omitempty"` // which generator stream produced it (distribution tag only)
	// Hist: calls a FRESH child process makes before it inflects P+W; the answer must be the one a fresh child gives that
	// makes no other call (history.go).  Empty for ordinary cases.
	Hist []hcall `json:"hist,omitempty"`
}

func mk(rule, p, w string) json.RawMessage { return mkK(rule, p, w, "") }

func mkK(rule, p, w, kind string) json.RawMessage {
	b, _ := json.Marshal(input{Rule: rule, P: []byte(p), W: []byte(w), Q: strconv.Quote(p + w), K: kind})
	return b
}

// ---- what the harness knows about the tables (only for generation, classification and tags) ----

type side struct {
	items []Item
	words map[string]string
	irr   *regexp.Regexp // the same expression Rule.Init builds
	unf   *regexp.Regexp
	lits  []string // uninflected alternatives without metacharacters
	pats  []string // the others
	rules []compiledRule // the ordered suffix rules, compiled the way Rule.Init does
}

var (
	tabOnce sync.Once
	tabErr  error
	sides   map[string]*side
)

func hasMeta(s string) bool { return strings.ContainsAny(s, `.^$*+?()[]{}|\`) }

func loadSides() (map[string]*side, error) {
	tabOnce.Do(func() {
		t, err := LoadTables(repoDir())
		if err != nil {
			tabErr = err
			return
		}
		build := func(items []Item, unf []string, rules []RuleSrc) *side {
			s := &side{items: items, words: map[string]string{}, rules: compileRules(rules)}
			var ws []string
			for _, it := range items {
				ws = append(ws, it.Word)
				s.words[it.Word] = it.Replacement
			}
			var e1, e2 error
			s.irr, e1 = regexp.Compile(fmt.Sprintf(`(?i)(.*)\b((?:%s))$`, strings.Join(ws, `|`)))
			s.unf, e2 = regexp.Compile(fmt.Sprintf(`(?i)(^(?:%s))$`, strings.Join(unf, `|`)))
			if e1 != nil || e2 != nil {
				tabErr = fmt.Errorf("tables do not compile: %v %v", e1, e2)
			}
			for _, u := range unf {
				if hasMeta(u) {
					s.pats = append(s.pats, u)
				} else {
					s.lits = append(s.lits, u)
				}
			}
			return s
		}
		sides = map[string]*side{
			"plural":   build(t.Plural, t.PluralUninflected, t.PluralRules),
			"singular": build(t.Singular, t.SingularUninflected, t.SingularRules),
		}
	})
	return sides, tabErr
}

// ---- generator ----

var prefixes = []string{
	"", "", "my ", "old-", "big ", "x.", "a_", "a1", "9", "sales", "Node", "a\n", "\n", "line one\nline two ", "a\r\n",
	"é", "日本 ", "aſ", "ſ", "K", "aK", " ", "-", "the big ", "Old ", "tab\t", "pkg/", "(", "a--", "über-", "x ", "\x00",
}

var plainWords = []string{
	"house", "bus", "quiz", "matrix", "vertex", "wolf", "status", "menu", "news", "alias", "virus", "crisis", "tax", "glove",
	"houses", "buses", "quizzes", "matrices", "wolves", "statuses", "menus", "aliases", "viri", "crises", "taxes", "gloves",
	"categoria", "objective", "analyses", "databases", "lives", "babies", "x", "s", "ss", "y", "ox", "oxen", "us",
}

var alphabet = []string{"a", "e", "s", "x", "o", "n", "f", "t", "S", "X", "P", "k", "K", "0", "7", "_", "-", " ", ".", "\n", "\t", "/",
	"é", "ſ", "K", "ß", "世", "İ", "́", "😀"}

func caseVariant(r *core.RNG, w string) (string, string) {
	switch r.Intn(8) {
	case 0, 1, 2:
		return w, "lower"
	case 3:
		return strings.ToUpper(w), "upper"
	case 4:
		if w == "" {
			return w, "lower"
		}
		return strings.ToUpper(w[:1]) + w[1:], "title"
	case 5: // random mixture
		var b strings.Builder
		for i := 0; i < len(w); i++ {
			if r.Bool() {
				b.WriteString(strings.ToUpper(w[i : i+1]))
			} else {
				b.WriteByte(w[i])
			}
		}
		return b.String(), "mixed"
	default: // the non-ASCII members of the (?i) fold orbits of s and k
		idx := []int{}
		for i := 0; i < len(w); i++ {
			if w[i] == 's' || w[i] == 'k' || w[i] == 'S' || w[i] == 'K' {
				idx = append(idx, i)
			}
		}
		if len(idx) == 0 {
			return strings.ToUpper(w), "upper"
		}
		i := core.Pick(r, idx)
		rep := "ſ"
		if w[i] == 'k' || w[i] == 'K' {
			rep = "K"
		}
		return w[:i] + rep + w[i+1:], "fold"
	}
}

// instantiate an uninflected alternative that contains ".*", ".*?" or a character class
func instantiate(r *core.RNG, pat string) string {
	var b strings.Builder
	for i := 0; i < len(pat); {
		switch {
		case strings.HasPrefix(pat[i:], ".*?"):
			b.WriteString(core.Pick(r, []string{"", "multi", "Node", "social ", "a-", "x\n"}))
			i += 3
		case strings.HasPrefix(pat[i:], ".*"):
			b.WriteString(core.Pick(r, []string{"", "chi", "rein", "gold", "small", "a ", "é", "x\n"}))
			i += 2
		case pat[i] == '[':
			j := strings.IndexByte(pat[i:], ']')
			if j < 2 {
				b.WriteByte(pat[i])
				i++
				continue
			}
			cls := pat[i+1 : i+j]
			b.WriteByte(cls[r.Intn(len(cls))])
			i += j + 1
		default:
			b.WriteByte(pat[i])
			i++
		}
	}
	return b.String()
}

func (prop) Generate(r *core.RNG, tier string) []json.RawMessage {
	sd, err := loadSides()
	if err != nil {
		return nil
	}
	rules := []string{"plural", "singular"}
	var out []json.RawMessage
	preflight(r.Fork(), tier) // race-detector run in a child process, see race.go
	// fixed corner cases first
	for _, c := range [][3]string{
		{"plural", "", ""}, {"singular", "", ""}, {"plural", "", "person"}, {"plural", "my ", "sex"}, {"plural", "old-", "person"},
		{"singular", "big ", "feet"}, {"plural", "a\n", "person"}, {"plural", "", "atlaſ"}, {"singular", "", "sexeſ"},
		{"plural", "a", "ſex"}, {"plural", "", "ſex"}, {"plural", "é", "person"}, {"plural", "a ", "cooKie"}, {"plural", "", "cooKie"},
		{"plural", "OLD-", "PERSON"}, {"plural", "sales", "person"}, {"plural", "a_", "person"}, {"plural", "\xff", "person"},
		{"plural", "", "people"}, {"singular", "my ", "people"}, {"plural", "Node", "Media"}, {"plural", "a\n", "media"},
		{"plural", "sea ", "bass"}, {"plural", "", "sea-bass"}, {"singular", "", "glaſſ"}, {"plural", "", "\n"}, {"plural", "person", "\n"},
		{"plural", "per\n", "son"}, {"plural", "x ", "ox"}, {"plural", "the ", "OX"}, {"singular", "a\n", "ss"},
		// the suffix rules: fold-orbit runes against (?i) literals and classes, runes and invalid bytes against negated
		// classes and ".", newline, unanchored patterns that match more than once, the "$1s" template, empty matches
		{"plural", "", "quiz"}, {"plural", "my ", "quiz"}, {"singular", "", "matrices"}, {"singular", "", "MATRICES"},
		{"singular", "", "taxesfaxes"}, {"singular", "my ", "Taxes waxes"}, {"singular", "", "oxenoxen"}, {"singular", "", "oxens"},
		{"plural", "", "mouſe"}, {"plural", "", "ſtatus"}, {"singular", "", "ſtatuses"}, {"plural", "", "Kquiz"}, {"singular", "", "menuſ"},
		{"plural", "", "éy"}, {"plural", "", "\xffy"}, {"plural", "", "\xc3y"}, {"plural", "", "\ny"}, {"plural", "", "y"}, {"plural", "", "quy"},
		{"plural", "", "hive"}, {"singular", "", "hives"}, {"singular", "", "drives"}, {"singular", "", "\nves"}, {"singular", "", "éves"},
		{"singular", "a\n", "menus"}, {"singular", "", "menus\n"}, {"singular", "日本 ", "menus"}, {"singular", "", "aliaseses"}, {"singular", "", "aliasESes"},
		{"singular", "", "virii"}, {"singular", "", "parentheses"}, {"singular", "", "bases"}, {"singular", "a", "bases"}, {"singular", "", "analyses"},
		{"singular", "x", "analyses"}, {"singular", "", "HOUSES"}, {"singular", "", "houses"}, {"singular", "", "auses"}, {"singular", "", "éuses"},
		{"singular", "", "bureaus"}, {"singular", "", "BUREAUS"}, {"singular", "", "us"}, {"singular", "", "a\nus"}, {"singular", "", "S"}, {"singular", "", "ſ"},
		{"plural", "", "s"}, {"plural", "", "S"}, {"plural", "", "ſ"}, {"plural", "", "wolf"}, {"plural", "", "ſafe"}, {"plural", "", "fe"}, {"plural", "", "ffe"},
		{"plural", "", "|ouse"}, {"plural", "", "m|louse"}, {"plural", "", "\xf0\x9f\x98y"}, {"plural", "", "\xed\xa0\x80y"}, {"plural", "", "\xf4\x90\x80\x80y"},
		{"plural", "", "\xe0\x80\x80y"}, {"plural", "", "\xc0\x80y"}, {"plural", "", "😀y"}, {"plural", "", "\xef\xbf\xbdy"},
	} {
		out = append(out, mk(c[0], c[1], c[2]))
	}
	// purity over histories: the two-order pass (its minimised findings become cases) and the fixed family, see history.go
	out = append(out, histCases(r.Fork(), sd, tier)...)
	// every irregular word (and its replacement) of the current tables: alone, with a separator, in three cases
	for _, rule := range rules {
		for _, it := range sd[rule].items {
			for _, w := range []string{it.Word, it.Replacement} {
				out = append(out, mk(rule, "", w), mk(rule, "", strings.ToUpper(w)), mk(rule, core.Pick(r, []string{"a ", "the-", "x."}), w))
			}
		}
	}
	// length sweep (added after seeded change C20-h: a fixed-size buffer chosen by the INPUT length): see lengthSweep
	out = append(out, lengthSweep(sd, tier)...)
	// the ordered suffix rules: two plain instances of every rule's pattern, then the words of the repository's test tables
	for _, rule := range rules {
		for _, c := range sd[rule].rules {
			for i := 0; i < 2 && c.tree != nil; i++ {
				var b strings.Builder
				instance(r, c.tree, &b, true)
				out = append(out, mkK(rule, "", core.Pick(r, wordStems)+b.String(), "rule-match"))
			}
		}
	}
	for _, w := range testWords(repoDir()) {
		for _, rule := range rules {
			out = append(out, mkK(rule, "", w, "test-table-word"))
		}
		out = append(out, mkK(core.Pick(r, rules), core.Pick(r, prefixes), w, "test-table-word"), mkK(core.Pick(r, rules), "", strings.ToUpper(w), "test-table-word"))
	}
	n, nr := 4000, 3500
	if tier == "thorough" {
		n, nr = 40000, 40000
	}
	for i := 0; i < nr; i++ {
		rule := core.Pick(r, rules)
		if len(sd[rule].rules) == 0 {
			continue
		}
		p, w, kind := ruleInput(r, core.Pick(r, sd[rule].rules))
		if r.Chance(8) { // the other function on the same word
			rule = rules[1-indexOf(rules, rule)]
		}
		out = append(out, mkK(rule, p, w, kind))
	}
	for i := 0; i < n; i++ {
		rule := core.Pick(r, rules)
		s := sd[rule]
		other := sd[rules[1-indexOf(rules, rule)]]
		switch k := r.Intn(20); {
		case k < 8: // irregular word, any case, any prefix
			it := core.Pick(r, s.items)
			if r.Chance(10) {
				it = core.Pick(r, other.items)
			}
			w, _ := caseVariant(r, it.Word)
			out = append(out, mk(rule, core.Pick(r, prefixes), w))
		case k < 10: // two-part prefix / separators in front of an irregular word
			it := core.Pick(r, s.items)
			w, _ := caseVariant(r, it.Word)
			p := core.Pick(r, prefixes) + core.Pick(r, plainWords) + core.Pick(r, []string{" ", "-", ".", "_", "\n", "", "/", "  ", "é", "1"})
			out = append(out, mk(rule, p, w))
		case k < 13: // uninflected words and instances of the uninflected patterns
			var w string
			if r.Chance(60) && len(s.lits) > 0 {
				w = core.Pick(r, s.lits)
			} else if len(s.pats) > 0 {
				w = instantiate(r, core.Pick(r, s.pats))
			}
			w, _ = caseVariant(r, w)
			p := ""
			if r.Chance(40) {
				p = core.Pick(r, prefixes)
			}
			out = append(out, mk(rule, p, w))
		case k < 15: // ordinary words (suffix rules)
			w, _ := caseVariant(r, core.Pick(r, plainWords))
			p := ""
			if r.Chance(50) {
				p = core.Pick(r, prefixes)
			}
			out = append(out, mk(rule, p, w))
		case k < 18: // random strings over a small alphabet
			var b strings.Builder
			m := r.Intn(8)
			for j := 0; j < m; j++ {
				b.WriteString(core.Pick(r, alphabet))
			}
			if r.Chance(40) {
				b.WriteString(core.Pick(r, s.items).Word)
			}
			t := b.String()
			cut := trailingLetters(t)
			out = append(out, mk(rule, t[:cut], t[cut:]))
		default: // malformed stream: invalid UTF-8 in the prefix, in the word, or both
			bad := func() string {
				var b strings.Builder
				m := 1 + r.Intn(3)
				for j := 0; j < m; j++ {
					if r.Chance(60) {
						b.WriteByte(byte(0x80 + r.Intn(0x80)))
					} else {
						b.WriteString(core.Pick(r, alphabet))
					}
				}
				if utf8.ValidString(b.String()) {
					b.WriteByte(core.Pick(r, []byte{0xff, 0xc5, 0xe2, 0x84, 0xbf}))
				}
				return b.String()
			}
			w, _ := caseVariant(r, core.Pick(r, s.items).Word)
			switch r.Intn(3) {
			case 0:
				out = append(out, mk(rule, bad(), w))
			case 1:
				j := r.Intn(len(w) + 1)
				out = append(out, mk(rule, core.Pick(r, prefixes), w[:j]+bad()+w[j:]))
			default:
				out = append(out, mk(rule, bad(), bad()))
			}
		}
	}
	if tier == "thorough" {
		// exhaustive small scope: every irregular word of both tables x {lower, UPPER, Title} x every prefix of the list
		for _, rule := range rules {
			for _, it := range sd[rule].items {
				w := it.Word
				for _, v := range []string{w, strings.ToUpper(w), strings.ToUpper(w[:1]) + w[1:]} {
					for _, p := range prefixes {
						out = append(out, mk(rule, p, v))
					}
				}
			}
			// every prefix of length <= 3 over 9 symbols x short irregular words
			syms := []string{"a", "B", "1", "_", "-", " ", "\n", "é", "ſ"}
			var shorts []string
			for _, it := range sd[rule].items {
				if len(it.Word) <= 3 && len(shorts) < 4 {
					shorts = append(shorts, it.Word, strings.ToUpper(it.Word))
				}
			}
			var rec func(prefix string, d int)
			rec = func(prefix string, d int) {
				for _, w := range shorts {
					out = append(out, mk(rule, prefix, w))
				}
				if d == 3 {
					return
				}
				for _, c := range syms {
					rec(prefix+c, d+1)
				}
			}
			rec("", 0)
			for _, u := range sd[rule].lits {
				for _, p := range []string{"", "a ", "x-", "a\n"} {
					out = append(out, mk(rule, p, u), mk(rule, p, strings.ToLower(u)))
				}
			}
		}
	}
	return out
}

// lengthSweep: the result of an irregular word can be LONGER than the input (child -> children), so code that sizes a buffer
// from the input fails only for a narrow band of input lengths.  For every irregular word and replacement of both tables and a
// few suffix-rule words (whose rewrite grows or shrinks the text): a prefix of EVERY byte length 0..130 that ends at a word
// boundary, and the prefixes that put the whole input at 252..258, 508..514 and 1020..1026 bytes (around the usual buffer
// sizes).  The fill and the separator vary with the length so that no length is tied to one separator only in one residue
// class.  The model is length-agnostic: Run sends 1 in 12 of them (fewer of those longer than 80 bytes) to Coq (chosen by a hash of the input, so that a replay
// behaves like the run) and decides the others by the property's own sentences on the Go side (returns, same result
// for 7 calls, prefix kept and word inflected as it is alone).
var sweepSuffixWords = []string{"quiz", "bus", "matrix", "status", "wolf", "baby", "house", "quizzes", "matrices", "wolves", "babies", "analyses", "news", "hive"}

func sweepPrefix(n int) string {
	if n <= 0 {
		return ""
	}
	seps := []string{" ", "-", ".", "/", " ", "-"}
	fills := []string{"x", "Ab", "a1_", "é"}
	fill := fills[n%len(fills)]
	var b strings.Builder
	for b.Len()+len(fill) <= n-1 {
		b.WriteString(fill)
	}
	for b.Len() < n-1 {
		b.WriteByte('y')
	}
	b.WriteString(seps[n%len(seps)])
	return b.String()
}

func lengthSweep(sd map[string]*side, tier string) []json.RawMessage {
	var out []json.RawMessage
	one := func(rule, w string) {
		for n := 0; n <= 130; n++ {
			out = append(out, mkK(rule, sweepPrefix(n), w, "len-sweep"))
		}
		for _, b := range []int{256, 512, 1024} {
			for t := b - 4; t <= b+2; t++ {
				if n := t - len(w); n > 130 {
					out = append(out, mkK(rule, sweepPrefix(n), w, "len-sweep"))
				}
			}
		}
	}
	for _, rule := range []string{"plural", "singular"} {
		for _, it := range sd[rule].items {
			one(rule, it.Word)
			if tier == "thorough" {
				one(rule, strings.ToUpper(it.Word))
				one(rule, strings.ToUpper(it.Word[:1])+it.Word[1:])
				one(rule, it.Replacement)
			}
		}
		for _, w := range sweepSuffixWords {
			one(rule, w)
		}
	}
	return out
}

// sweepSampled: which length-sweep cases are also evaluated in Coq (a function of the input only).
func sweepSampled(s string) bool {
	h := fnv.New32a()
	h.Write([]byte(s))
	switch n := len(s); { // the model's regexp walk is quadratic in the length of the text: fewer of the long ones
	case n <= 80:
		return h.Sum32()%12 == 0
	case n <= 140:
		return h.Sum32()%24 == 0
	case n <= 300:
		return h.Sum32()%100 == 0
	default:
		return h.Sum32()%400 == 0
	}
}

func indexOf(l []string, s string) int {
	for i, x := range l {
		if x == s {
			return i
		}
	}
	return 0
}

func isLetter(c byte) bool { return c >= 'a' && c <= 'z' || c >= 'A' && c <= 'Z' }
func isWord(c byte) bool   { return isLetter(c) || c >= '0' && c <= '9' || c == '_' }

func trailingLetters(s string) int {
	i := len(s)
	for i > 0 && isLetter(s[i-1]) {
		i--
	}
	return i
}

// ---- executor ----

type observed struct {
	Full       string `json:"full"`
	FullPanic  bool   `json:"full_panic"`
	Alone      string `json:"alone"`
	AlonePanic bool   `json:"alone_panic"`
	PanicText  string `json:"panic_text,omitempty"`
}

func call(f func(string) string, s string) (out string, panicked bool, text string) {
	p, v := core.Recover(func() { out = f(s) })
	if p {
		return "", true, fmt.Sprint(v)
	}
	return out, false, ""
}

func fnOf(rule string) func(string) string {
	if rule == "singular" {
		return inflector.Singularize
	}
	return inflector.Pluralize
}

func asciiLowerWord(w string) (string, bool) {
	for i := 0; i < len(w); i++ {
		if !isLetter(w[i]) {
			return "", false
		}
	}
	return strings.ToLower(w), true
}

func (prop) Run(in json.RawMessage, _ string) core.Result {
	var inp input
	_ = json.Unmarshal(in, &inp)
	var res core.Result
	sd, err := loadSides()
	if err != nil {
		res.GoViolations = append(res.GoViolations, "tables of pkg/inflector/internal cannot be read: "+err.Error())
		return res
	}
	rule := inp.Rule
	if rule != "singular" {
		rule = "plural"
	}
	f := fnOf(rule)
	p, w := string(inp.P), string(inp.W)
	s := p + w
	var obs observed

	// purity: the FIRST computation of a key is already contended (6 concurrent callers), then one more call;
	// all seven must agree (other cases run in parallel on the same cache meanwhile)
	observe := func(what, x string) (string, bool, string) {
		type one struct {
			out      string
			panicked bool
			text     string
		}
		rs := make([]one, 7)
		var wg sync.WaitGroup
		if serialize { // the concurrent run already failed: do not crash the harness, call sequentially
			serialMu.Lock()
			defer serialMu.Unlock()
		}
		for g := 0; g < 6 && serialize; g++ {
			rs[g].out, rs[g].panicked, rs[g].text = call(f, x)
		}
		for g := 0; g < 6 && !serialize; g++ {
			wg.Add(1)
			go func(g int) {
				defer wg.Done()
				rs[g].out, rs[g].panicked, rs[g].text = call(f, x)
			}(g)
		}
		wg.Wait()
		rs[6].out, rs[6].panicked, rs[6].text = call(f, x)
		for _, r := range rs[1:] {
			if r.out != rs[0].out || r.panicked != rs[0].panicked {
				res.GoViolations = append(res.GoViolations, fmt.Sprintf("%s: repeated/concurrent calls on the same input (%s) gave different results", rule, what))
				break
			}
		}
		return rs[0].out, rs[0].panicked, rs[0].text
	}
	obs.Full, obs.FullPanic, obs.PanicText = observe("whole string", s)
	if p == "" {
		obs.Alone, obs.AlonePanic = obs.Full, obs.FullPanic
	} else {
		var t string
		obs.Alone, obs.AlonePanic, t = observe("last word alone", w)
		if obs.PanicText == "" {
			obs.PanicText = t
		}
	}
	if len(inp.Hist) > 0 {
		v, n := historyViolations(rule, s, inp.Hist)
		res.GoViolations = append(res.GoViolations, v...)
		res.Notes = append(res.Notes, n...)
		res.Tags = append(res.Tags, fmt.Sprintf("history-calls=%d", len(inp.Hist)))
	}
	if obs.FullPanic {
		res.GoViolations = append(res.GoViolations, fmt.Sprintf("%s(%q) panics: %s", rule, s, obs.PanicText))
	}
	if obs.AlonePanic && !obs.FullPanic {
		res.GoViolations = append(res.GoViolations, fmt.Sprintf("%s(%q) panics: %s", rule, w, obs.PanicText))
	}
	res.Observed = obs
	res.Coq = fmt.Sprintf("mk_case %s %s %s %s %s", core.CoqBool(rule == "plural"), core.Hex(p), core.Hex(w),
		core.CoqOpt(!obs.FullPanic, core.Hex(obs.Full)), core.CoqOpt(!obs.AlonePanic, core.Hex(obs.Alone)))

	if inp.K == "len-sweep" && len(inp.Hist) == 0 && len(res.GoViolations) == 0 && !sweepSampled(rule+"\x00"+s) {
		// decided on the Go side by the property's own sentences; totality and purity are checked above
		res.Coq = ""
		if lw, letters := asciiLowerWord(w); letters && w != "" && (p == "" || !isWord(p[len(p)-1])) {
			if _, irr := sd[rule].words[lw]; irr && obs.Full != p+obs.Alone {
				res.GoViolations = append(res.GoViolations, fmt.Sprintf("%s(%q) = %q: the text before the irregular word %q is not preserved or the word is not inflected as it is alone (%q)", rule, s, obs.Full, w, obs.Alone))
			}
		}
		res.Tags = append(res.Tags, "len-sweep=go-side")
	}

	// classification of the INPUT (harness-side copy of the two regular expressions; tags and class names only)
	sdr := sd[rule]
	branch := "suffix"
	loc := sdr.irr.FindStringSubmatchIndex(s)
	if len(loc) >= 6 {
		branch = "irregular"
		word := s[loc[4]:loc[5]]
		_, hit := sdr.words[strings.ToLower(word)]
		switch {
		case !hit:
			res.Class = "irregular_fold_lookup_miss"
			branch = "irregular-miss"
		case loc[2] > 0:
			res.Class = "irregular_after_newline"
		case loc[4] > 0:
			res.Class = "irregular_with_prefix"
		}
	} else if sdr.unf.MatchString(s) {
		branch = "uninflected"
	}
	res.Tags = append(res.Tags, rule, "branch="+branch)
	fired := -1
	if branch == "suffix" || branch == "irregular-miss" {
		fired = firstRule(sdr.rules, s)
		if fired < 0 {
			res.Tags = append(res.Tags, "suffix-rule=none")
		} else {
			res.Tags = append(res.Tags, fmt.Sprintf("suffix-rule=%s#%02d", rule, fired))
			if loc := sdr.rules[fired].re.FindAllStringIndex(s, -1); len(loc) > 1 {
				res.Tags = append(res.Tags, "suffix-rule-matches>1")
			}
		}
	}
	if inp.K != "" {
		res.Tags = append(res.Tags, "gen="+inp.K)
	}
	lw, letters := asciiLowerWord(w)
	_, isIrr := sdr.words[lw]
	isIrr = isIrr && letters
	bnd := p == "" || !isWord(p[len(p)-1])
	switch {
	case isIrr && p == "":
		res.Tags = append(res.Tags, "irregular-word-alone")
	case isIrr && bnd:
		res.Tags = append(res.Tags, "irregular-word-after-boundary")
	case isIrr:
		res.Tags = append(res.Tags, "irregular-word-no-boundary")
	}
	if isIrr {
		switch {
		case w == strings.ToLower(w):
			res.Tags = append(res.Tags, "case=lower")
		case w == strings.ToUpper(w):
			res.Tags = append(res.Tags, "case=upper")
		case w[1:] == strings.ToLower(w[1:]):
			res.Tags = append(res.Tags, "case=title")
		default:
			res.Tags = append(res.Tags, "case=mixed")
		}
	}
	switch {
	case s == "":
		res.Tags = append(res.Tags, "empty")
	case !utf8.ValidString(s):
		res.Tags = append(res.Tags, "invalid_utf8")
	case isASCII(s):
		res.Tags = append(res.Tags, "ascii")
	default:
		res.Tags = append(res.Tags, "unicode")
	}
	if strings.Contains(s, "\n") {
		res.Tags = append(res.Tags, "has_newline")
	}
	if strings.Contains(s, "ſ") || strings.Contains(s, "K") {
		res.Tags = append(res.Tags, "fold_orbit_char")
	}
	// trivial = plain ASCII one-line text that only the final catch-all rule (or none) rewrites
	res.Nontrivial = branch != "suffix" || !isASCII(s) || strings.Contains(s, "\n") || (fired >= 0 && fired < len(sdr.rules)-1)
	return res
}

func isASCII(s string) bool {
	for i := 0; i < len(s); i++ {
		if s[i] >= 0x80 {
			return false
		}
	}
	return true
}

// Shrink: shorter prefix (suffixes of it, one rune dropped), shorter word.
func (prop) Shrink(in json.RawMessage) []json.RawMessage {
	var inp input
	_ = json.Unmarshal(in, &inp)
	p, w := string(inp.P), string(inp.W)
	var out []json.RawMessage
	seen := map[string]bool{p + "\x00" + w: true}
	add := func(p2, w2 string) {
		k := p2 + "\x00" + w2
		if !seen[k] {
			seen[k] = true
			if len(inp.Hist) > 0 {
				out = append(out, mkH(inp.Rule, p2, w2, inp.Hist...))
			} else {
				out = append(out, mk(inp.Rule, p2, w2))
			}
		}
	}
	// a history: fewer calls first (halves, one dropped), then shorter calls
	if h := inp.Hist; len(h) > 0 {
		if len(h) > 2 {
			out = append(out, mkH(inp.Rule, p, w, h[len(h)/2:]...), mkH(inp.Rule, p, w, h[:len(h)/2]...))
		}
		for i := range h {
			if len(h) > 1 {
				out = append(out, mkH(inp.Rule, p, w, append(append([]hcall{}, h[:i]...), h[i+1:]...)...))
			}
			hs := string(h[i].S)
			if cut := trailingLetters(hs); cut > 0 { // the earlier call without its prefix
				h2 := append([]hcall{}, h...)
				h2[i] = hc(h[i].Rule, hs[cut:])
				out = append(out, mkH(inp.Rule, p, w, h2...))
			}
		}
	}
	if p != "" {
		add("", w)
	}
	dropRunes := func(s string, f func(string)) {
		for i := 0; i < len(s); {
			_, n := utf8.DecodeRuneInString(s[i:])
			f(s[:i] + s[i+n:])
			i += n
		}
	}
	if len(p) > 2 {
		add(p[len(p)/2:], w)
		add(p[:len(p)/2], w)
	}
	dropRunes(p, func(q string) { add(q, w) })
	dropRunes(w, func(q string) { add(p, q) })
	if w != strings.ToLower(w) {
		add(p, strings.ToLower(w))
	}
	if p != strings.ToLower(p) {
		add(strings.ToLower(p), w)
	}
	return out
}
