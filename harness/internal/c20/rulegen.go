package c20

// Inputs aimed at the ordered regexp suffix rules: for every rule of the tables read on this run, strings that
// its pattern matches (random walk over the pattern's syntax tree), near-misses, mixed case, fold-orbit runes,
// prefixes and trailing text; plus the words of the repository's own test tables.

import (
	"go/ast"
	"go/parser"
	"go/token"
	"os"
	"path/filepath"
	"regexp"
	"regexp/syntax"
	"sort"
	"strings"
	"unicode/utf8"

	"verifharness/internal/core"
)

type compiledRule struct {
	src  RuleSrc
	re   *regexp.Regexp
	tree *syntax.Regexp
}

func compileRules(rs []RuleSrc) []compiledRule {
	var out []compiledRule
	for _, r := range rs {
		c := compiledRule{src: r}
		c.re, _ = regexp.Compile(r.Pattern)
		c.tree, _ = syntax.Parse(r.Pattern, syntax.Perl)
		out = append(out, c)
	}
	return out
}

// runes offered to character classes and "."
var classCandidates = []rune{'a', 'e', 'i', 'o', 'u', 'y', 'b', 'c', 'd', 'f', 'l', 'm', 'n', 'r', 's', 't', 'w', 'x', 'k', 'q',
	'A', 'F', 'L', 'M', 'T', 'S', 'K', '0', '_', '-', ' ', '|', '\n', 'é', 'ſ', 'K', '世', 0xFFFD}

func inClass(cls []rune, c rune) bool {
	for i := 0; i+1 < len(cls); i += 2 {
		if cls[i] <= c && c <= cls[i+1] {
			return true
		}
	}
	return false
}

// instance writes one string of the language of t (not necessarily the one the engine would prefer).
func instance(r *core.RNG, t *syntax.Regexp, b *strings.Builder, plainCase bool) {
	switch t.Op {
	case syntax.OpLiteral:
		for _, c := range t.Rune {
			if t.Flags&syntax.FoldCase != 0 && !plainCase {
				switch k := r.Intn(12); {
				case k < 3:
					c = []rune(strings.ToUpper(string(c)))[0]
				case k == 3 && (c == 's' || c == 'S'):
					c = 'ſ'
				case k == 3 && (c == 'k' || c == 'K'):
					c = 'K'
				}
			}
			b.WriteRune(c)
		}
	case syntax.OpCharClass:
		var ok []rune
		for _, c := range classCandidates {
			if inClass(t.Rune, c) {
				ok = append(ok, c)
			}
		}
		if len(ok) == 0 {
			if len(t.Rune) > 0 {
				b.WriteRune(t.Rune[0])
			}
			return
		}
		c := core.Pick(r, ok)
		if plainCase || r.Chance(70) { // mostly an ordinary letter
			for i := 0; i < 8 && (c >= 0x80 || c == '\n' || c == ' ' || c == '|'); i++ {
				c = core.Pick(r, ok)
			}
		}
		if c == 0xFFFD && r.Bool() {
			b.WriteByte(byte(0x80 + r.Intn(0x40))) // an invalid byte decodes as U+FFFD
			return
		}
		b.WriteRune(c)
	case syntax.OpAnyCharNotNL, syntax.OpAnyChar:
		b.WriteString(core.Pick(r, []string{"a", "x", "food_", "Food", "e", " ", "-", "é", "ſ", "1", "us", "s"}))
	case syntax.OpCapture, syntax.OpPlus, syntax.OpStar, syntax.OpQuest, syntax.OpRepeat:
		n := 1
		switch t.Op {
		case syntax.OpStar:
			n = r.Intn(3)
		case syntax.OpPlus:
			n = 1 + r.Intn(2)
		case syntax.OpQuest:
			n = r.Intn(2)
		case syntax.OpRepeat:
			n = t.Min
		}
		for i := 0; i < n; i++ {
			instance(r, t.Sub[0], b, plainCase)
		}
	case syntax.OpConcat:
		for _, s := range t.Sub {
			instance(r, s, b, plainCase)
		}
	case syntax.OpAlternate:
		instance(r, core.Pick(r, t.Sub), b, plainCase)
	}
}

var wordStems = []string{"", "", "", "b", "st", "gr", "pl", "re", "food_", "Food", "power", "x", "a", "qu", "é", "my ", "old-", "a\n", "ſ", "ne", "s", "ss", "f", "o", "aa"}

// ruleInput: one input derived from rule c.
func ruleInput(r *core.RNG, c compiledRule) (p, w, kind string) {
	if c.tree == nil {
		return "", c.src.Pattern, "rule-raw"
	}
	var b strings.Builder
	k := r.Intn(20)
	if !strings.HasSuffix(c.src.Pattern, "$") && r.Chance(40) {
		k = 16 // a pattern that is not anchored at the end can match more than once: exercise ReplaceAllString's loop
	}
	instance(r, c.tree, &b, k < 8)
	w = b.String()
	kind = "rule-match"
	switch {
	case k < 8: // plain instance behind a word stem
		w = core.Pick(r, wordStems) + w
	case k < 11: // mixed case / fold runes as produced, behind a stem
		w = core.Pick(r, wordStems) + w
		kind = "rule-match-mixed"
	case k < 12:
		w = strings.ToUpper(core.Pick(r, wordStems) + w)
		kind = "rule-match-upper"
	case k < 14: // near miss: one rune dropped, doubled or replaced
		rs := []rune(core.Pick(r, wordStems) + w)
		if len(rs) > 0 {
			i := r.Intn(len(rs))
			switch r.Intn(3) {
			case 0:
				rs = append(rs[:i], rs[i+1:]...)
			case 1:
				rs = append(rs[:i+1], rs[i:]...)
			default:
				rs[i] = core.Pick(r, classCandidates)
			}
		}
		w = string(rs)
		kind = "rule-near-miss"
	case k < 16: // text after the instance (only unanchored patterns still match)
		w = core.Pick(r, wordStems) + w + core.Pick(r, []string{"s", "es", "x", " ", "\n", "é", "ly", "S", "_id", "ſ"})
		kind = "rule-trailing"
	case k < 17: // two instances in one string (ReplaceAllString replaces every match)
		var b2 strings.Builder
		instance(r, c.tree, &b2, r.Bool())
		w = w + core.Pick(r, []string{"", " ", "_", "and"}) + b2.String()
		kind = "rule-twice"
	default: // the instance behind one of the general prefixes (word boundary or not, newline, non-ASCII, NUL)
		p = core.Pick(r, prefixes)
		kind = "rule-prefixed"
	}
	return p, w, kind
}

// testWords: every string literal of the repository's pkg/inflector/*_test.go (the maintainers' own word list).
func testWords(repo string) []string {
	files, _ := filepath.Glob(filepath.Join(repo, "pkg", "inflector", "*_test.go"))
	seen := map[string]bool{}
	for _, f := range files {
		src, err := os.ReadFile(f)
		if err != nil {
			continue
		}
		af, err := parser.ParseFile(token.NewFileSet(), f, src, 0)
		if err != nil {
			continue
		}
		ast.Inspect(af, func(n ast.Node) bool {
			if s, ok := n.(ast.Expr); ok {
				if v, ok := strLit(s); ok && len(v) < 40 && utf8.ValidString(v) {
					seen[v] = true
				}
			}
			return true
		})
	}
	var out []string
	for w := range seen {
		out = append(out, w)
	}
	sort.Strings(out)
	return out
}

// firstRule: index of the first suffix rule whose pattern matches s (harness-side copy, for tags only), -1 if none.
func firstRule(rs []compiledRule, s string) int {
	for i, c := range rs {
		if c.re != nil && c.re.MatchString(s) {
			return i
		}
	}
	return -1
}
