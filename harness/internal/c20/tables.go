package c20

// Translator: re-reads the data tables of pkg/inflector/internal from the source of the repository under
// check (go/parser, no evaluation) and writes them as Coq definitions.  The Coq side re-proves the side
// conditions of the theorems (table_wf, patterns parse) on whatever is extracted (Proofs/Inflector.v: tables_ok).

import (
	"fmt"
	"go/ast"
	"go/parser"
	"go/token"
	"os"
	"path/filepath"
	"strconv"
	"strings"

	"verifharness/internal/core"
)

type Item struct{ Word, Replacement string }

// RuleSrc is one RuleItem literal of rules.go.
type RuleSrc struct{ Pattern, Replacement string }

type Tables struct {
	Plural, Singular                            []Item
	Uninflected, UninflPlurals, UninflSingulars []string
	PluralRules, SingularRules                  []RuleSrc // the ordered suffix rules: pattern and ReplaceAllString template, verbatim
	PluralUninflected, SingularUninflected      []string
}

func repoDir() string {
	if d := os.Getenv("VERIF_REPO"); d != "" {
		return d
	}
	return "/repo"
}

func strLit(e ast.Expr) (string, bool) {
	bl, ok := e.(*ast.BasicLit)
	if !ok || bl.Kind != token.STRING {
		return "", false
	}
	s, err := strconv.Unquote(bl.Value)
	return s, err == nil
}

func typeName(e ast.Expr) string {
	switch t := e.(type) {
	case *ast.Ident:
		return t.Name
	case *ast.StarExpr:
		return typeName(t.X)
	case *ast.ArrayType:
		return "[]" + typeName(t.Elt)
	}
	return ""
}

func items(cl *ast.CompositeLit) ([]Item, error) {
	var out []Item
	for _, e := range cl.Elts {
		if u, ok := e.(*ast.UnaryExpr); ok {
			e = u.X
		}
		el, ok := e.(*ast.CompositeLit)
		if !ok {
			return nil, fmt.Errorf("irregular item is not a composite literal")
		}
		var it Item
		var got int
		for i, f := range el.Elts {
			key := [...]string{"Word", "Replacement"}[min(i, 1)]
			v := f
			if kv, ok := f.(*ast.KeyValueExpr); ok {
				key = kv.Key.(*ast.Ident).Name
				v = kv.Value
			}
			s, ok := strLit(v)
			if !ok {
				return nil, fmt.Errorf("irregular item field is not a string literal")
			}
			switch key {
			case "Word":
				it.Word = s
				got++
			case "Replacement":
				it.Replacement = s
				got++
			}
		}
		if got != 2 && len(el.Elts) != 0 {
			return nil, fmt.Errorf("irregular item with %d fields", got)
		}
		out = append(out, it)
	}
	return out, nil
}

// ruleItems reads []*RuleItem{{`pattern`, `replacement`}, ...} (positional or keyed fields).
func ruleItems(cl *ast.CompositeLit) ([]RuleSrc, error) {
	var out []RuleSrc
	for _, e := range cl.Elts {
		if u, ok := e.(*ast.UnaryExpr); ok {
			e = u.X
		}
		el, ok := e.(*ast.CompositeLit)
		if !ok {
			return nil, fmt.Errorf("rule item is not a composite literal")
		}
		var it RuleSrc
		got := 0
		for i, f := range el.Elts {
			key := [...]string{"Pattern", "Replacement"}[min(i, 1)]
			v := f
			if kv, ok := f.(*ast.KeyValueExpr); ok {
				key = kv.Key.(*ast.Ident).Name
				v = kv.Value
			}
			s, ok := strLit(v)
			if !ok {
				return nil, fmt.Errorf("rule item field is not a string literal")
			}
			switch key {
			case "Pattern":
				it.Pattern = s
				got++
			case "Replacement":
				it.Replacement = s
				got++
			}
		}
		if got != 2 && len(el.Elts) != 0 {
			return nil, fmt.Errorf("rule item with %d fields", got)
		}
		out = append(out, it)
	}
	return out, nil
}

// LoadTables parses rules.go (the two registered Rule literals) and rule.go (the uninflected lists).
func LoadTables(repo string) (*Tables, error) {
	dir := filepath.Join(repo, "pkg", "inflector", "internal")
	fset := token.NewFileSet()
	t := &Tables{}
	f, err := parser.ParseFile(fset, filepath.Join(dir, "rules.go"), nil, 0)
	if err != nil {
		return nil, err
	}
	seen := map[string]bool{}
	var ierr error
	ast.Inspect(f, func(n ast.Node) bool {
		cl, ok := n.(*ast.CompositeLit)
		if !ok || typeName(cl.Type) != "Rule" {
			return true
		}
		var typ string
		var irr []Item
		var rules []RuleSrc
		for _, e := range cl.Elts {
			kv, ok := e.(*ast.KeyValueExpr)
			if !ok {
				continue
			}
			switch kv.Key.(*ast.Ident).Name {
			case "Type":
				if id, ok := kv.Value.(*ast.Ident); ok {
					typ = id.Name
				}
			case "Irregular":
				if c, ok := kv.Value.(*ast.CompositeLit); ok {
					irr, ierr = items(c)
				}
			case "Rules":
				if c, ok := kv.Value.(*ast.CompositeLit); ok {
					rules, ierr = ruleItems(c)
				}
			}
		}
		switch typ {
		case "Plural":
			t.Plural, t.PluralRules = irr, rules
		case "Singular":
			t.Singular, t.SingularRules = irr, rules
		default:
			ierr = fmt.Errorf("Rule literal with unknown Type %q", typ)
		}
		if seen[typ] {
			ierr = fmt.Errorf("two Rule literals of type %s", typ)
		}
		seen[typ] = true
		return false
	})
	if ierr != nil {
		return nil, ierr
	}
	if !seen["Plural"] || !seen["Singular"] {
		return nil, fmt.Errorf("rules.go: expected one Plural and one Singular Rule literal")
	}
	g, err := parser.ParseFile(fset, filepath.Join(dir, "rule.go"), nil, 0)
	if err != nil {
		return nil, err
	}
	lists := map[string][]string{}
	ast.Inspect(g, func(n ast.Node) bool {
		vs, ok := n.(*ast.ValueSpec)
		if !ok || len(vs.Names) != 1 || len(vs.Values) != 1 {
			return true
		}
		cl, ok := vs.Values[0].(*ast.CompositeLit)
		if !ok || typeName(cl.Type) != "[]string" {
			return true
		}
		var l []string
		for _, e := range cl.Elts {
			s, ok := strLit(e)
			if !ok {
				ierr = fmt.Errorf("%s: element is not a string literal", vs.Names[0].Name)
				return false
			}
			l = append(l, s)
		}
		lists[vs.Names[0].Name] = l
		return false
	})
	if ierr != nil {
		return nil, ierr
	}
	for _, n := range []string{"uninflected", "uninflectedPlurals", "uninflectedSingulars"} {
		if _, ok := lists[n]; !ok {
			return nil, fmt.Errorf("rule.go: list %s not found", n)
		}
	}
	t.Uninflected, t.UninflPlurals, t.UninflSingulars = lists["uninflected"], lists["uninflectedPlurals"], lists["uninflectedSingulars"]
	t.PluralUninflected = append(append([]string{}, t.Uninflected...), t.UninflPlurals...)
	t.SingularUninflected = append(append([]string{}, t.Uninflected...), t.UninflSingulars...)
	return t, nil
}

// coqBytes: a readable literal where that is safe, hex otherwise.
func coqBytes(s string) string {
	for i := 0; i < len(s); i++ {
		if s[i] < 0x20 || s[i] > 0x7e || s[i] == '"' {
			return core.Hex(s)
		}
	}
	return `(bs "` + s + `")`
}

func (t *Tables) Coq() string {
	var b strings.Builder
	b.WriteString("(* GENERATED by `vh tables-C20` from pkg/inflector/internal/rules.go and rule.go of the repository under check.\n")
	b.WriteString("   Rewritten by bin/check on every run when the source tables change; do not edit. *)\n")
	b.WriteString("Require Import Gengo.Base.Bytes.\n\n")
	tab := func(name string, items []Item) {
		fmt.Fprintf(&b, "Definition %s : list (bytes * bytes) := [\n", name)
		for i, it := range items {
			sep := ";"
			if i == len(items)-1 {
				sep = ""
			}
			fmt.Fprintf(&b, "  (%s, %s)%s\n", coqBytes(it.Word), coqBytes(it.Replacement), sep)
		}
		b.WriteString("].\n\n")
	}
	lst := func(name string, l []string) {
		fmt.Fprintf(&b, "Definition %s : list bytes := [\n", name)
		for i, s := range l {
			sep := ";"
			if i == len(l)-1 {
				sep = ""
			}
			fmt.Fprintf(&b, "  %s%s\n", coqBytes(s), sep)
		}
		b.WriteString("].\n\n")
	}
	tab("plural_irregular", t.Plural)
	tab("singular_irregular", t.Singular)
	rul := func(rs []RuleSrc) []Item {
		var l []Item
		for _, r := range rs {
			l = append(l, Item{r.Pattern, r.Replacement})
		}
		return l
	}
	// the ordered suffix rules as (pattern, template) source strings; parsed and compiled in Coq (Model/InflectorRegexp.v)
	tab("plural_rules", rul(t.PluralRules))
	tab("singular_rules", rul(t.SingularRules))
	lst("uninflected_common", t.Uninflected)
	lst("uninflected_plurals", t.UninflPlurals)
	lst("uninflected_singulars", t.UninflSingulars)
	return b.String()
}

func init() {
	// vh tables-C20 <dir>: writes <dir>/InflectorTables.v, only when its content changes (keeps make a no-op).
	core.Children["tables-C20"] = func(args []string) int {
		if len(args) < 1 {
			fmt.Fprintln(os.Stderr, "usage: vh tables-C20 <coq/theories/Gen>")
			return 2
		}
		t, err := LoadTables(repoDir())
		if err != nil {
			fmt.Fprintln(os.Stderr, "tables-C20:", err)
			return 1
		}
		want := t.Coq()
		if err := os.MkdirAll(args[0], 0o755); err != nil {
			fmt.Fprintln(os.Stderr, "tables-C20:", err)
			return 1
		}
		path := filepath.Join(args[0], "InflectorTables.v")
		if have, err := os.ReadFile(path); err == nil && string(have) == want {
			fmt.Println("tables-C20: unchanged")
			return 0
		}
		if err := os.WriteFile(path, []byte(want), 0o644); err != nil {
			fmt.Fprintln(os.Stderr, "tables-C20:", err)
			return 1
		}
		fmt.Println("tables-C20: rewritten", path)
		return 0
	}
}
